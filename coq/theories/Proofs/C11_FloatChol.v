(** Proofs for C11 (extension), floating point, part 6: the classical backward-error theorem of the Cholesky
    factorisation (Higham, Accuracy and Stability of Numerical Algorithms, Thm 10.3) for the model of
    [linalg/decomposition/cholesky.rs] on binary64.

    The sweep of [Model/Cholesky.v] computes row by row (Cholesky-Banachiewicz), for j < i,
        l_ij = fl( fl( a_ij - dot(l_j[..j], l_i[..j]) ) / l_jj ) ,      l_ii = fl( sqrt( fl( a_ii - dot(l_i[..i], l_i[..i]) ) ) ) ,
    [dot] the 8-way unrolled [Reduce.dot_raw].  Part 1 is the recurrence satisfied by the returned factor on EVERY
    carrier (it exposes the numerators as subterms of the model).  Part 2 is the diagonal step on binary64: with the
    errors of [-] and [sqrt] taken relative to the ROUNDED values,
        a_ii - s' = l_ii^2 (1+e1)(1+e2)^2 ,   |e1|, |e2| <= u ,
    so | a_ii - (Sigma_k l_ik^2 + l_ii^2) | <= E(i+1) Sigma_k l_ik^2 + E(3) l_ii^2  (E(k) = (1+u)^k - 1); the square root
    never underflows.  The off-diagonal step IS one row of a triangular solve ([row_F_error] of part 1 of the
    floating-point files).  Part 3 assembles | A - L L^T |_ij <= E(n+1) (|L| |L^T|)_ij. *)
From Coq Require Import List Arith Bool ZArith Reals Lra Lia Floats.
From Flocq Require Import Core Relative Plus_error BinarySingleNaN PrimFloat.
From Compute Require Import Base.Ops Base.ListMat Model.Reduce Model.MatMul Model.Subst Model.Cholesky Spec.Vops Spec.Factor
  Proofs.C04Red Proofs.C04Err Proofs.C04ErrF Proofs.C04ErrDot Proofs.C04ErrNP Proofs.C05 Proofs.LinAlgBase Proofs.C11_Subst
  Proofs.C11_Chol Proofs.C11_FloatBase Proofs.C11_FloatSubst.
Import ListNotations.
Local Open Scope R_scope.
Local Existing Instance Flocq.IEEE754.PrimFloat.Hprec.
Local Existing Instance Flocq.IEEE754.PrimFloat.Hmax.

(** ** Part 1: the recurrence, on every carrier *)
Section Recurrence.
  Context {T : Type} (O : Ops T).
  Local Notation z := (zero O).

  Lemma gpad_length n (l : list T) : (length l <= n)%nat -> length (pad O n l) = n.
  Proof. intros H. unfold pad. rewrite app_length, repeat_length. lia. Qed.

  Lemma nth_gpad n (l : list T) k : nth k (pad O n l) z = nth k l z.
  Proof.
    unfold pad. destruct (Nat.lt_ge_cases k (length l)) as [H|H].
    - apply app_nth1; auto.
    - rewrite app_nth2 by lia. rewrite (nth_overflow l) by lia.
      destruct (Nat.lt_ge_cases (k - length l) (n - length l)).
      + apply nth_repeat.
      + apply nth_overflow. rewrite repeat_length. lia.
  Qed.

  Lemma gpad_full n (l : list T) : length l = n -> pad O n l = l.
  Proof. intros H. unfold pad. rewrite H, Nat.sub_diag. apply app_nil_r. Qed.

  Lemma firstn_gpad n (l : list T) k : (k <= length l)%nat -> firstn k (pad O n l) = firstn k l.
  Proof.
    intros H. unfold pad. rewrite firstn_app. replace (k - length l)%nat with 0%nat by lia.
    rewrite firstn_O. apply app_nil_r.
  Qed.

  (** the dot product of entry (i,j): rows [rj], [ri] of the factor, first [j] entries (slice form), resp. row [j]
      (row [i] for the pivot) against the prefix of row [i] completed with zeros (Matrix form) *)
  Definition chol_dot (full : bool) (n : nat) (rj ri : list T) (j : nat) : T :=
    if full then dot_raw O (pad O n (firstn j rj)) (pad O n (firstn j ri))
    else dot_raw O (firstn j rj) (firstn j ri).

  (** the rows of the plain sweep: shape, zeros above the diagonal, and the defining equation of every entry *)
  Lemma chol_rows_gspec full (A : list (list T)) n :
    let L := chol_rows O full A n in
    wf L n /\
    forall i, (i < n)%nat ->
      let ri := nth i L [] in
      (forall j, (i < j)%nat -> nth j ri z = z) /\
      nth i ri z = sqrt O (sub O (ent z A i i) (chol_dot full n ri ri i)) /\
      (forall j, (j < i)%nat ->
         let rj := nth j L [] in
         nth j ri z = div O (sub O (ent z A i j)
                                  (if full then dot_raw O rj (pad O n (firstn j ri)) else dot_raw O (firstn j rj) (firstn j ri)))
                          (nth j rj z)).
  Proof.
    cbv zeta.
    set (g := fun (i : nat) (Lp : list (list T)) => chol_row O full A Lp n i).
    change (chol_rows O full A n) with (build g n).
    set (L := build g n).
    assert (Hrowdef : forall i, (i < n)%nat -> nth i L [] = g i (firstn i L)).
    { intros i Hi. unfold L. rewrite (build_nth [] g n i Hi), build_firstn by lia. reflexivity. }
    assert (Hrowlen : forall i, (i < n)%nat -> length (nth i L []) = n).
    { intros i Hi. rewrite Hrowdef by auto. unfold g, chol_row.
      apply gpad_length. fold (build (fun j r => chol_entry O full A (firstn i L) n i r j) (S i)).
      rewrite build_length. lia. }
    split; [split; [apply build_length|exact Hrowlen]|].
    intros i Hi.
    set (Lp := firstn i L).
    set (ge := fun (j : nat) (r : list T) => chol_entry O full A Lp n i r j).
    set (row := build ge (S i)).
    assert (Hri : nth i L [] = pad O n row).
    { rewrite Hrowdef by auto. reflexivity. }
    assert (Hlrow : length row = S i) by apply build_length.
    assert (Hpre : forall j, (j <= i)%nat -> firstn j (nth i L []) = build ge j).
    { intros j Hj. rewrite Hri, firstn_gpad by lia. apply build_firstn. lia. }
    assert (Hent : forall j, (j <= i)%nat -> nth j (nth i L []) z = chol_entry O full A Lp n i (firstn j (nth i L [])) j).
    { intros j Hj. rewrite Hri at 1. rewrite nth_gpad. unfold row. rewrite (build_nth z ge (S i) j) by lia.
      rewrite Hpre by exact Hj. reflexivity. }
    split; [|split].
    - intros j Hj. rewrite Hri, nth_gpad. apply nth_overflow. lia.
    - rewrite (Hent i) by lia. unfold chol_entry, chol_dot. rewrite Nat.eqb_refl.
      destruct full; [reflexivity|]. rewrite firstn_firstn, Nat.min_id. reflexivity.
    - intros j Hj. rewrite (Hent j) by lia. unfold chol_entry.
      destruct (Nat.eqb_spec j i) as [E|_]; [lia|].
      assert (HLp : nth j Lp [] = nth j L []) by (unfold Lp; apply nth_firstn_lt; exact Hj).
      rewrite HLp. destruct full; [|reflexivity].
      rewrite (gpad_full n (nth j L [])) by (apply Hrowlen; lia). reflexivity.
  Qed.

  (** rows of a flattened well-formed matrix *)
  Lemma firstn_row_flatten (M : list (list T)) n i j :
    wf M n -> (i < n)%nat -> (j <= n)%nat -> firstn j (nth i M []) = firstn j (skipn (i * n) (flatten M)).
  Proof.
    intros Hw Hi Hj. pose proof Hw as [Hl Hr].
    assert (Hlf : length (flatten M) = (n * n)%nat) by (apply (wf_flatten_length M n Hw)).
    apply (nth_ext _ _ z z).
    - rewrite !firstn_length, skipn_length, Hlf, Hr by exact Hi. nia.
    - intros k Hk. rewrite firstn_length, Hr in Hk by exact Hi.
      rewrite !nth_firstn_lt by lia. rewrite nth_skipn_plus.
      symmetry. apply (nth_flatten z M n i k Hw); lia.
  Qed.

  (** the flat factor returned by the checked sweep (either form of the dot product) *)
  Lemma try_chol_rows_recurrence full (a : list T) (n : nat) (L : list (list T)) :
    try_chol_rows O full (unflatten a n n) n = Some L ->
    let l := flatten L in
    length l = (n * n)%nat /\
    forall i, (i < n)%nat ->
      let ri := firstn n (skipn (i * n) l) in
      (forall j, (i < j)%nat -> (j < n)%nat -> nth (i * n + j) l z = z) /\
      (exists d, ltb O z d = true /\ nth (i * n + i) l z = sqrt O d) /\
      nth (i * n + i) l z = sqrt O (sub O (nth (i * n + i) a z) (chol_dot full n ri ri i)) /\
      (forall j, (j < i)%nat ->
         let rj := firstn n (skipn (j * n) l) in
         nth (i * n + j) l z =
         div O (sub O (nth (i * n + j) a z)
                      (if full then dot_raw O rj (pad O n (firstn j ri)) else dot_raw O (firstn j rj) (firstn j ri)))
               (nth (j * n + j) l z)).
  Proof.
    intros H. cbv zeta. destruct (try_chol_rows_some O full _ n L H) as (HL & Hpiv).
    destruct (chol_rows_gspec full (unflatten a n n) n) as (Hw & Hspec). rewrite <- HL in Hw, Hspec.
    split; [apply (wf_flatten_length L n Hw)|].
    intros i Hi. destruct (Hspec i Hi) as (Hz & Hd & Ho).
    assert (Hrow : forall i', (i' < n)%nat -> firstn n (skipn (i' * n) (flatten L)) = nth i' L []).
    { intros i' Hi'. rewrite <- (firstn_row_flatten L n i' n Hw Hi' (le_n n)).
      destruct Hw as [_ Hr]. rewrite <- (Hr i' Hi') at 1. apply firstn_all. }
    assert (Hnth : forall i' j, (i' < n)%nat -> (j < n)%nat -> nth (i' * n + j) (flatten L) z = nth j (nth i' L []) z).
    { intros i' j Hi' Hj. apply (nth_flatten z L n i' j Hw Hi' Hj). }
    rewrite Hrow by exact Hi.
    split; [|split; [|split]].
    - intros j Hij Hj. rewrite Hnth by assumption. apply Hz; exact Hij.
    - destruct (Hpiv i Hi) as (d & Hd1 & Hd2). exists d. split; [exact Hd1|].
      rewrite Hnth by assumption. exact Hd2.
    - rewrite Hnth by assumption. rewrite Hd. rewrite ent_unflatten by assumption. reflexivity.
    - intros j Hj. rewrite Hrow by lia. rewrite !Hnth by lia. rewrite (Ho j Hj).
      rewrite ent_unflatten by lia. reflexivity.
  Qed.

  (** [cholesky] (slice form), in the terms of the Rust code: [&l[j*n..j*n+j]], [&l[i*n..i*n+j]] *)
  Lemma cholesky_recurrence (a l : list T) (n : nat) :
    cholesky O a = Some l -> (n * n)%nat = length a ->
    length l = (n * n)%nat /\
    forall i, (i < n)%nat ->
      (forall j, (i < j)%nat -> (j < n)%nat -> nth (i * n + j) l z = z) /\
      (exists d, ltb O z d = true /\ nth (i * n + i) l z = sqrt O d) /\
      nth (i * n + i) l z =
        sqrt O (sub O (nth (i * n + i) a z) (dot_raw O (firstn i (skipn (i * n) l)) (firstn i (skipn (i * n) l)))) /\
      (forall j, (j < i)%nat ->
         nth (i * n + j) l z =
         div O (sub O (nth (i * n + j) a z) (dot_raw O (firstn j (skipn (j * n) l)) (firstn j (skipn (i * n) l))))
               (nth (j * n + j) l z)).
  Proof.
    intros H Hn. apply cholesky_checked_spec in H.
    unfold try_cholesky in H. rewrite <- Hn, is_square_sq in H. cbn [bind] in H.
    destruct (is_symmetric_rows O (unflatten a n n) n); cbn [guard bind] in H; [|discriminate].
    destruct (try_chol_rows O false (unflatten a n n) n) as [L|] eqn:EL; cbn [option_map] in H; [|discriminate].
    inversion H; subst l; clear H.
    destruct (try_chol_rows_recurrence false a n L EL) as (Hlen & Hrec).
    split; [exact Hlen|]. intros i Hi. destruct (Hrec i Hi) as (Hz & Hp & Hd & Ho).
    split; [exact Hz|]. split; [exact Hp|]. split.
    - rewrite Hd. unfold chol_dot. rewrite !firstn_firstn, Nat.min_l by lia. reflexivity.
    - intros j Hj. rewrite (Ho j Hj). cbv zeta. rewrite !firstn_firstn, !Nat.min_l by lia. reflexivity.
  Qed.
End Recurrence.

(** ** Part 2: the diagonal step *)

(** real arithmetic: a rounded subtraction and a rounded square root after an approximate sum of squares, both
    errors relative to the ROUNDED values *)
Lemma diag_step_err (u e a d' c A s' x' : R) :
  0 <= u -> 0 <= s' -> 0 <= x' ->
  Rabs (s' - (a - d')) <= u * Rabs s' ->
  Rabs (x' - R_sqrt.sqrt s') <= u * Rabs x' ->
  Rabs (d' - c) <= e * A ->
  Rabs (a - (c + x' * x')) <= e * A + ((1 + u) ^ 3 - 1) * (x' * x').
Proof.
  intros Hu Hs Hx Hse Hxe Hd.
  set (r := R_sqrt.sqrt s') in *.
  assert (Hr : 0 <= r) by apply sqrt_pos.
  assert (Hrr : r * r = s') by (apply sqrt_sqrt; exact Hs).
  rewrite (Rabs_pos_eq s') in Hse by exact Hs. rewrite (Rabs_pos_eq x') in Hxe by exact Hx.
  apply Rabs_le_inv in Hxe. apply Rabs_le_inv in Hse. apply Rabs_le_inv in Hd.
  assert (H1 : - (((1 + u) ^ 2 - 1) * (x' * x')) <= s' - x' * x' <= ((1 + u) ^ 2 - 1) * (x' * x')).
  { rewrite <- Hrr. simpl. split; nra. }
  assert (H2 : s' <= (1 + u) ^ 2 * (x' * x')) by lra.
  assert (H3 : u * s' <= u * ((1 + u) ^ 2 * (x' * x'))) by (apply Rmult_le_compat_l; assumption).
  replace (a - (c + x' * x')) with ((d' - c) + (s' - x' * x') - (s' - (a - d'))) by ring.
  apply Rabs_le. simpl in *. split; lra.
Qed.

(** the first pivot: no dot product, [a - 0] is exact, one rounding (of the square root) *)
Lemma diag_step_first (u a x' : R) :
  0 <= u -> 0 <= a -> 0 <= x' ->
  Rabs (x' - R_sqrt.sqrt a) <= u * Rabs x' ->
  Rabs (a - x' * x') <= ((1 + u) ^ 2 - 1) * (x' * x').
Proof.
  intros Hu Ha Hx Hxe.
  set (r := R_sqrt.sqrt a) in *.
  assert (Hr : 0 <= r) by apply sqrt_pos.
  assert (Hrr : r * r = a) by (apply sqrt_sqrt; exact Ha).
  rewrite (Rabs_pos_eq x') in Hxe by exact Hx. apply Rabs_le_inv in Hxe.
  rewrite <- Hrr. apply Rabs_le. simpl. split; nra.
Qed.

(** a finite square root has a nonnegative (finite) argument *)
Lemma fsqrt_finite_nonneg (x : pfloat) : finite (PrimFloat.sqrt x) -> 0 <= B2Rf x.
Proof.
  unfold finite, B2Rf. rewrite sqrt_equiv. intros H.
  destruct (Bsqrt_correct prec emax _ _ mode_NE (Prim2B x)) as (_ & HF & _). rewrite H in HF.
  destruct (Prim2B x) as [s|s| |[|] m e Hb]; try discriminate HF; cbn [B2R]; try lra.
  apply F2R_ge_0. cbn. lia.
Qed.

Lemma rnd64_nonneg (r : R) : 0 <= r -> 0 <= rnd64 r.
Proof.
  intros H. unfold rnd64. apply round_ge_generic; [apply FLT_exp_valid; reflexivity|apply valid_rnd_N|apply generic_format_0|exact H].
Qed.

(** a pivot that passed the test [0 < d] has a positive square root (when that is finite) *)
Lemma fsqrt_pos (d : pfloat) :
  PrimFloat.ltb 0%float d = true -> finite (PrimFloat.sqrt d) -> 0 < B2Rf (PrimFloat.sqrt d).
Proof.
  intros Hlt Hf. destruct (fsqrt_finite d Hf) as (Hfd & Hv).
  assert (Hpos : 0 < B2Rf d).
  { rewrite ltb_equiv in Hlt. unfold finite in Hfd.
    assert (H0 : Prim2B 0%float = B754_zero false) by (apply B2SF_inj; rewrite B2SF_Prim2B; reflexivity).
    rewrite H0 in Hlt. rewrite Bltb_correct in Hlt by (auto; reflexivity).
    cbn [B2R] in Hlt. unfold B2Rf. destruct (Rlt_bool_spec 0 (B2R (Prim2B d))); [assumption|discriminate]. }
  rewrite Hv.
  assert (Hs : 0 < R_sqrt.sqrt (B2Rf d)) by (apply sqrt_lt_R0; exact Hpos).
  destruct (sqrt_no_underflow d Hfd) as [H|H]; [lra|].
  rewrite Rabs_pos_eq in H by lra.
  apply Rlt_le_trans with tiny; [unfold tiny; apply bpow_gt_0|].
  unfold rnd64. apply round_ge_generic; [apply FLT_exp_valid; reflexivity|apply valid_rnd_N| |exact H].
  unfold tiny. apply generic_format_FLT_bpow; [reflexivity|lia].
Qed.

(** one pivot on binary64: [l = sqrt (ai - dot(r, xs))]; exponent [k >= 3], or [k >= 2] when the computed dot product
    is a zero (then the subtraction is exact: the first pivot) *)
Theorem diag_F_error (tbl : libm_table) (r xs : list pfloat) (ai : pfloat) (k : nat) :
  length r = length xs ->
  (S (length r) <= k)%nat -> ((3 <= k)%nat \/ (B2Rf (dot_raw (FO tbl) r xs) = 0 /\ (2 <= k)%nat)) ->
  finite (sqrt (FO tbl) (sub (FO tbl) ai (dot_raw (FO tbl) r xs))) ->
  Forall2 (fun a b => no_underflow (B2Rf a * B2Rf b)) r xs ->
  let l := B2Rf (sqrt (FO tbl) (sub (FO tbl) ai (dot_raw (FO tbl) r xs))) in
  finite ai /\ 0 <= l /\
  Rabs (B2Rf ai - (Rdot (map B2Rf r) (map B2Rf xs) + l * l))
  <= ((1 + / 2 ^ 53) ^ k - 1) * (Rsum (map Rabs (map2 Rmult (map B2Rf r) (map B2Rf xs))) + l * l).
Proof.
  intros Hl Hk Hk3 Hfin Hnu. cbv zeta.
  set (d := dot_raw (FO tbl) r xs) in *. cbn [sqrt sub FO] in *.
  destruct (fsqrt_finite _ Hfin) as (Hfs & Hx).
  pose proof (fsqrt_finite_nonneg _ Hfin) as Hs0.
  destruct (fsub_finite _ _ Hfs) as (Hfa & Hfd & Hs).
  split; [exact Hfa|].
  assert (Hx0 : 0 <= B2Rf (PrimFloat.sqrt (ai - d)%float)) by (rewrite Hx; apply rnd64_nonneg, sqrt_pos).
  split; [exact Hx0|].
  rewrite <- u64_val. fold (E u64 k).
  pose proof (rnd64_rel_round _ (sqrt_no_underflow _ Hfs)) as Hxe. rewrite <- Hx in Hxe.
  pose proof u64_nonneg as Hu.
  pose proof (dot_F_error tbl r xs Hl Hfd Hnu) as Hd. fold d in Hd.
  rewrite <- u64_val in Hd. fold (E u64 (S (length r))) in Hd.
  set (A := Rsum (map Rabs (map2 Rmult (map B2Rf r) (map B2Rf xs)))) in *.
  assert (HA : 0 <= A) by apply Asum_nonneg.
  assert (H1 : E u64 (S (length r)) <= E u64 k) by (apply (E_mono u64 Hu); exact Hk).
  set (xx := B2Rf (PrimFloat.sqrt (ai - d)%float) * B2Rf (PrimFloat.sqrt (ai - d)%float)).
  assert (Hxx : 0 <= xx) by (unfold xx; nra).
  destruct Hk3 as [Hk3|[Hd0 Hk2]].
  - pose proof (rnd64_sub_round (B2Rf ai) (B2Rf d) (F64_B2Rf _) (F64_B2Rf _)) as Hse. rewrite <- Hs in Hse.
    eapply Rle_trans; [apply (diag_step_err u64 (E u64 (S (length r))) (B2Rf ai) (B2Rf d)
                                (Rdot (map B2Rf r) (map B2Rf xs)) A (B2Rf (ai - d)%float)); assumption|].
    fold (E u64 3). fold xx.
    assert (H3 : E u64 3 <= E u64 k) by (apply (E_mono u64 Hu); lia).
    nra.
  - (* the computed dot product is a zero: the subtraction is exact *)
    assert (Hsb : B2Rf (ai - d)%float = B2Rf ai).
    { rewrite Hs, Hd0, Rminus_0_r. apply rnd64_F64, F64_B2Rf. }
    rewrite Hsb in Hxe, Hs0. rewrite Hd0 in Hd.
    pose proof (diag_step_first u64 (B2Rf ai) _ Hu Hs0 Hx0 Hxe) as Hf. fold (E u64 2) in Hf. fold xx in Hf.
    assert (H2 : E u64 2 <= E u64 k) by (apply (E_mono u64 Hu); lia).
    set (c := Rdot (map B2Rf r) (map B2Rf xs)) in *.
    replace (B2Rf ai - (c + xx)) with ((B2Rf ai - xx) + (0 - c)) by ring.
    eapply Rle_trans; [apply Rabs_triang|]. nra.
Qed.

(** ** Part 3: the factorisation on binary64, entry by entry *)
Section CholFloat.
  Variables (tbl : libm_table) (a l : list pfloat) (n : nat).
  Hypothesis Hrun : cholesky (FO tbl) a = Some l.
  Hypothesis Hn : (n * n)%nat = length a.
  Hypothesis Hfin : Forall finite l.
  Hypothesis Hprod : forall i j k, (i < n)%nat -> (j <= i)%nat -> (k < j)%nat ->
    no_underflow (B2Rf (nth (j * n + k) l 0%float) * B2Rf (nth (i * n + k) l 0%float)).
  Hypothesis Hquot : forall i j, (i < n)%nat -> (j < i)%nat ->
    no_underflow (B2Rf (nth (i * n + j) a 0 - dot_raw (FO tbl) (firstn j (skipn (j * n) l)) (firstn j (skipn (i * n) l)))%float
                  / B2Rf (nth (j * n + j) l 0%float)).

  Local Notation Lr := (map B2Rf l).
  Local Notation Ar := (map B2Rf a).

  Lemma cholF_len : length l = (n * n)%nat.
  Proof. exact (proj1 (cholesky_recurrence (FO tbl) a l n Hrun Hn)). Qed.

  Lemma cholF_fin i j : (i < n)%nat -> (j < n)%nat -> finite (nth (i * n + j) l 0%float).
  Proof.
    intros Hi Hj. apply (proj1 (Forall_forall finite l) Hfin). apply nth_In. rewrite cholF_len. nia.
  Qed.

  Lemma cholF_diag_pos i : (i < n)%nat -> 0 < B2Rf (nth (i * n + i) l 0%float).
  Proof.
    intros Hi. destruct (cholesky_recurrence (FO tbl) a l n Hrun Hn) as (_ & Hrec).
    destruct (Hrec i Hi) as (_ & (d & Hd & Hs) & _). cbn [zero ltb sqrt FO] in *.
    pose proof (cholF_fin i i Hi Hi) as Hf. rewrite Hs in *. apply fsqrt_pos; assumption.
  Qed.

  Lemma cholF_lower : lower_triangular Lr n.
  Proof.
    intros i j Hi Hj Hij. unfold getm. rewrite nth_map_B2Rf.
    destruct (cholesky_recurrence (FO tbl) a l n Hrun Hn) as (_ & Hrec).
    destruct (Hrec i Hi) as (Hz & _). cbn [zero FO] in Hz. rewrite (Hz j Hij Hj). apply B2Rf_zero.
  Qed.

  (** slices of the factor *)
  Lemma cholF_slice i j :
    (i < n)%nat -> (j <= n)%nat ->
    length (firstn j (skipn (i * n) l)) = j /\
    forall k, (k < j)%nat -> nth k (firstn j (skipn (i * n) l)) 0%float = nth (i * n + k) l 0%float.
  Proof.
    intros Hi Hj. split.
    - rewrite firstn_length, skipn_length, cholF_len. apply Nat.min_l. nia.
    - intros k Hk. rewrite nth_firstn_lt by exact Hk. apply nth_skipn_plus.
  Qed.

  (** entry (i,j), j < i: one row of a triangular solve with the finished row j *)
  Lemma cholF_offdiag i j :
    (i < n)%nat -> (j < i)%nat ->
    finite (nth (i * n + j) a 0%float) /\
    Rabs (getm Ar n i j - rsum (fun k => getm Lr n j k * getm Lr n i k) (S j))
    <= E u64 (S j) * rsum (fun k => Rabs (getm Lr n j k) * Rabs (getm Lr n i k)) (S j).
  Proof.
    intros Hi Hj. destruct (cholesky_recurrence (FO tbl) a l n Hrun Hn) as (_ & Hrec).
    destruct (Hrec i Hi) as (_ & _ & _ & Ho). specialize (Ho j Hj). cbn [zero FO] in Ho.
    set (r := firstn j (skipn (j * n) l)) in *. set (xs := firstn j (skipn (i * n) l)) in *.
    destruct (cholF_slice j j ltac:(lia) ltac:(lia)) as (Hlr & Hnr). fold r in Hlr, Hnr.
    destruct (cholF_slice i j Hi ltac:(lia)) as (Hlxs & Hnx). fold xs in Hlxs, Hnx.
    pose proof (cholF_fin i j Hi ltac:(lia)) as Hfi. rewrite Ho in Hfi.
    destruct (row_F_error tbl r xs (nth (i * n + j) a 0%float) (nth (j * n + j) l 0%float)) as (Hfb & _ & Herr).
    - lia.
    - pose proof (cholF_diag_pos j ltac:(lia)). lra.
    - exact Hfi.
    - apply (Forall2_nth_intro _ 0%float 0%float); [lia|].
      intros k Hk. rewrite Hlr in Hk. rewrite Hnr, Hnx by exact Hk. apply Hprod; lia.
    - apply Hquot; assumption.
    - split; [exact Hfb|].
      rewrite <- Ho in Herr. rewrite <- u64_val in Herr. fold (E u64 (S (length r))) in Herr.
      rewrite Hlr in Herr.
      rewrite Rdot_rsum, Asum_map2_rsum in Herr by (rewrite !map_length; lia).
      rewrite map_length, Hlr in Herr.
      cbn [rsum]. unfold getm. rewrite !nth_map_B2Rf.
      rewrite (rsum_ext (fun k => nth (j * n + k) Lr 0 * nth (i * n + k) Lr 0)
                        (fun k => nth k (map B2Rf r) 0 * nth k (map B2Rf xs) 0)).
      2:{ intros k Hk. rewrite !nth_map_B2Rf, Hnr, Hnx by exact Hk. reflexivity. }
      rewrite (rsum_ext (fun k => Rabs (nth (j * n + k) Lr 0) * Rabs (nth (i * n + k) Lr 0))
                        (fun k => Rabs (nth k (map B2Rf r) 0) * Rabs (nth k (map B2Rf xs) 0))).
      2:{ intros k Hk. rewrite !nth_map_B2Rf, Hnr, Hnx by exact Hk. reflexivity. }
      rewrite <- Rabs_mult. exact Herr.
  Qed.

  (** entry (i,i) *)
  Lemma cholF_diag i k :
    (i < n)%nat -> (S i <= k)%nat -> (3 <= k \/ (i = 0 /\ 2 <= k))%nat ->
    finite (nth (i * n + i) a 0%float) /\
    Rabs (getm Ar n i i - rsum (fun m => getm Lr n i m * getm Lr n i m) (S i))
    <= E u64 k * rsum (fun m => Rabs (getm Lr n i m) * Rabs (getm Lr n i m)) (S i).
  Proof.
    intros Hi Hk Hk3. destruct (cholesky_recurrence (FO tbl) a l n Hrun Hn) as (_ & Hrec).
    destruct (Hrec i Hi) as (_ & _ & Hd & _). cbn [zero FO] in Hd.
    set (r := firstn i (skipn (i * n) l)) in *.
    destruct (cholF_slice i i Hi ltac:(lia)) as (Hlr & Hnr). fold r in Hlr, Hnr.
    pose proof (cholF_fin i i Hi Hi) as Hfi. rewrite Hd in Hfi.
    destruct (diag_F_error tbl r r (nth (i * n + i) a 0%float) k) as (Hfb & Hl0 & Herr).
    - reflexivity.
    - lia.
    - destruct Hk3 as [Hk3|[Hi0 Hk2]]; [left; exact Hk3|right]. split; [|exact Hk2].
      unfold r. rewrite Hi0. cbn [firstn]. rewrite dot_raw_nil_l. apply B2Rf_zero.
    - exact Hfi.
    - apply (Forall2_nth_intro _ 0%float 0%float); [lia|].
      intros m Hm. rewrite Hlr in Hm. rewrite Hnr by exact Hm. apply Hprod; lia.
    - split; [exact Hfb|].
      rewrite <- Hd in Herr, Hl0. rewrite <- u64_val in Herr. fold (E u64 k) in Herr.
      rewrite Rdot_rsum, Asum_map2_rsum in Herr by (rewrite !map_length; lia).
      rewrite map_length, Hlr in Herr.
      cbn [rsum]. unfold getm. rewrite !nth_map_B2Rf.
      rewrite (rsum_ext (fun m => nth (i * n + m) Lr 0 * nth (i * n + m) Lr 0)
                        (fun m => nth m (map B2Rf r) 0 * nth m (map B2Rf r) 0)).
      2:{ intros m Hm. rewrite !nth_map_B2Rf, Hnr by exact Hm. reflexivity. }
      rewrite (rsum_ext (fun m => Rabs (nth (i * n + m) Lr 0) * Rabs (nth (i * n + m) Lr 0))
                        (fun m => Rabs (nth m (map B2Rf r) 0) * Rabs (nth m (map B2Rf r) 0))).
      2:{ intros m Hm. rewrite !nth_map_B2Rf, Hnr by exact Hm. reflexivity. }
      rewrite <- Rabs_mult, (Rabs_pos_eq (_ * _)) by nra. exact Herr.
  Qed.

  (** the sums over all k < n (the factor is lower triangular) *)
  Lemma cholF_sum_ext (F : R -> R -> R) i j :
    (j < n)%nat -> (forall y, F y 0 = 0) ->
    rsum (fun k => F (getm Lr n i k) (getm Lr n j k)) n = rsum (fun k => F (getm Lr n i k) (getm Lr n j k)) (S j).
  Proof.
    intros Hj HF. apply rsum_trunc; [lia|]. intros k Hk. rewrite (cholF_lower j k) by lia. apply HF.
  Qed.

  Lemma cholF_entry i j :
    (i < n)%nat -> (j <= i)%nat ->
    finite (nth (i * n + j) a 0%float) /\
    Rabs (getm Ar n i j - rsum (fun k => getm Lr n i k * getm Lr n j k) n)
    <= E u64 (if (j <? i)%nat then S j else match i with 0%nat => 2%nat | _ => Nat.max (S i) 3 end)
       * rsum (fun k => Rabs (getm Lr n i k) * Rabs (getm Lr n j k)) n.
  Proof.
    intros Hi Hj.
    rewrite (cholF_sum_ext Rmult i j) by (try lia; intros; ring).
    rewrite (cholF_sum_ext (fun x y => Rabs x * Rabs y) i j) by (try lia; intros; rewrite Rabs_R0; ring).
    destruct (Nat.ltb_spec j i) as [Hlt|Hge].
    - destruct (cholF_offdiag i j Hi Hlt) as (Hf & H). split; [exact Hf|].
      rewrite (rsum_ext (fun k => getm Lr n i k * getm Lr n j k) (fun k => getm Lr n j k * getm Lr n i k)) by (intros; ring).
      rewrite (rsum_ext (fun k => Rabs (getm Lr n i k) * Rabs (getm Lr n j k))
                        (fun k => Rabs (getm Lr n j k) * Rabs (getm Lr n i k))) by (intros; ring).
      exact H.
    - assert (j = i) by lia. subst j. apply cholF_diag; [exact Hi| |]; destruct i; lia.
  Qed.

  Lemma cholF_absum_nonneg i j m : 0 <= rsum (fun k => Rabs (getm Lr n i k) * Rabs (getm Lr n j k)) m.
  Proof. apply rsum_nonneg. intros k _. apply Rmult_le_pos; apply Rabs_pos. Qed.

  Lemma cholF_lower_bound i j :
    (i < n)%nat -> (j <= i)%nat ->
    Rabs (getm Ar n i j - rsum (fun k => getm Lr n i k * getm Lr n j k) n)
    <= ((1 + / 2 ^ 53) ^ S n - 1) * rsum (fun k => Rabs (getm Lr n i k) * Rabs (getm Lr n j k)) n.
  Proof.
    intros Hi Hj. destruct (cholF_entry i j Hi Hj) as (_ & H). eapply Rle_trans; [exact H|].
    rewrite <- u64_val. fold (E u64 (S n)). apply Rmult_le_compat_r; [apply cholF_absum_nonneg|].
    apply (E_mono u64 u64_nonneg). destruct (Nat.ltb_spec j i); [lia|]. destruct i; lia.
  Qed.

  Lemma cholF_input_finite i j : (i < n)%nat -> (j <= i)%nat -> finite (nth (i * n + j) a 0%float).
  Proof. intros Hi Hj. apply (cholF_entry i j Hi Hj). Qed.
End CholFloat.

(** ** the theorem *)
Theorem cholesky_backward_error (tbl : libm_table) (a l : list pfloat) (n : nat) :
  cholesky (FO tbl) a = Some l -> (n * n)%nat = length a ->
  Forall finite l ->
  (forall i j k, (i < n)%nat -> (j <= i)%nat -> (k < j)%nat ->
     B2Rf (nth (j * n + k) l 0%float) * B2Rf (nth (i * n + k) l 0%float) = 0 \/
     / 2 ^ 1022 <= Rabs (B2Rf (nth (j * n + k) l 0%float) * B2Rf (nth (i * n + k) l 0%float))) ->
  (forall i j, (i < n)%nat -> (j < i)%nat ->
     let s := (nth (i * n + j) a 0 - dot_raw (FO tbl) (firstn j (skipn (j * n) l)) (firstn j (skipn (i * n) l)))%float in
     B2Rf s / B2Rf (nth (j * n + j) l 0%float) = 0 \/ / 2 ^ 1022 <= Rabs (B2Rf s / B2Rf (nth (j * n + j) l 0%float))) ->
  let A := map B2Rf a in let L := map B2Rf l in
  let gamma := (1 + / 2 ^ 53) ^ (n + 1) - 1 in
  length l = (n * n)%nat /\ lower_triangular L n /\ (forall i, (i < n)%nat -> 0 < getm L n i i) /\
  (forall i j, (i < n)%nat -> (j <= i)%nat -> finite (nth (i * n + j) a 0%float)) /\
  (forall i j, (i < n)%nat -> (j <= i)%nat ->
     Rabs (getm A n i j - rsum (fun k => getm L n i k * getm L n j k) n)
     <= gamma * rsum (fun k => Rabs (getm L n i k) * Rabs (getm L n j k)) n) /\
  (symmetric A n ->
   forall i j, (i < n)%nat -> (j < n)%nat ->
     Rabs (getm A n i j - rsum (fun k => getm L n i k * getm L n j k) n)
     <= gamma * rsum (fun k => Rabs (getm L n i k) * Rabs (getm L n j k)) n).
Proof.
  intros Hrun Hn Hfin Hprod Hquot. cbv zeta.
  assert (Hprod' : forall i j k, (i < n)%nat -> (j <= i)%nat -> (k < j)%nat ->
            no_underflow (B2Rf (nth (j * n + k) l 0%float) * B2Rf (nth (i * n + k) l 0%float))).
  { intros i j k Hi Hj Hk. apply no_underflow_explicit. apply Hprod; assumption. }
  assert (Hquot' : forall i j, (i < n)%nat -> (j < i)%nat ->
            no_underflow (B2Rf (nth (i * n + j) a 0 - dot_raw (FO tbl) (firstn j (skipn (j * n) l)) (firstn j (skipn (i * n) l)))%float
                          / B2Rf (nth (j * n + j) l 0%float))).
  { intros i j Hi Hj. apply no_underflow_explicit. apply (Hquot i j Hi Hj). }
  replace (n + 1)%nat with (S n) by lia.
  pose proof (cholF_lower_bound tbl a l n Hrun Hn Hfin Hprod' Hquot') as Hlow.
  split; [apply (cholF_len tbl a l n Hrun Hn)|].
  split; [apply (cholF_lower tbl a l n Hrun Hn)|].
  split; [intros i Hi; unfold getm; rewrite nth_map_B2Rf; apply (cholF_diag_pos tbl a l n Hrun Hn Hfin i Hi)|].
  split; [intros i j Hi Hj; apply (cholF_input_finite tbl a l n Hrun Hn Hfin Hprod' Hquot' i j Hi Hj)|].
  split; [exact Hlow|].
  intros Hsym i j Hi Hj. destruct (Nat.le_gt_cases j i) as [Hji|Hij]; [apply Hlow; assumption|].
  rewrite (Hsym i j Hi Hj).
  rewrite (rsum_ext (fun k => getm (map B2Rf l) n i k * getm (map B2Rf l) n j k)
                    (fun k => getm (map B2Rf l) n j k * getm (map B2Rf l) n i k)) by (intros; ring).
  rewrite (rsum_ext (fun k => Rabs (getm (map B2Rf l) n i k) * Rabs (getm (map B2Rf l) n j k))
                    (fun k => Rabs (getm (map B2Rf l) n j k) * Rabs (getm (map B2Rf l) n i k))) by (intros; ring).
  apply Hlow; lia.
Qed.

(** entry by entry *)
Theorem cholesky_backward_error_entrywise (tbl : libm_table) (a l : list pfloat) (n : nat) :
  cholesky (FO tbl) a = Some l -> (n * n)%nat = length a ->
  Forall finite l ->
  (forall i j k, (i < n)%nat -> (j <= i)%nat -> (k < j)%nat ->
     B2Rf (nth (j * n + k) l 0%float) * B2Rf (nth (i * n + k) l 0%float) = 0 \/
     / 2 ^ 1022 <= Rabs (B2Rf (nth (j * n + k) l 0%float) * B2Rf (nth (i * n + k) l 0%float))) ->
  (forall i j, (i < n)%nat -> (j < i)%nat ->
     let s := (nth (i * n + j) a 0 - dot_raw (FO tbl) (firstn j (skipn (j * n) l)) (firstn j (skipn (i * n) l)))%float in
     B2Rf s / B2Rf (nth (j * n + j) l 0%float) = 0 \/ / 2 ^ 1022 <= Rabs (B2Rf s / B2Rf (nth (j * n + j) l 0%float))) ->
  let A := map B2Rf a in let L := map B2Rf l in
  forall i j, (i < n)%nat -> (j <= i)%nat ->
    Rabs (getm A n i j - rsum (fun k => getm L n i k * getm L n j k) n)
    <= ((1 + / 2 ^ 53) ^ (if (j <? i)%nat then S j else match i with 0%nat => 2%nat | _ => Nat.max (S i) 3 end) - 1)
       * rsum (fun k => Rabs (getm L n i k) * Rabs (getm L n j k)) n.
Proof.
  intros Hrun Hn Hfin Hprod Hquot. cbv zeta. intros i j Hi Hj.
  assert (Hprod' : forall i j k, (i < n)%nat -> (j <= i)%nat -> (k < j)%nat ->
            no_underflow (B2Rf (nth (j * n + k) l 0%float) * B2Rf (nth (i * n + k) l 0%float))).
  { intros i' j' k Hi' Hj' Hk. apply no_underflow_explicit. apply Hprod; assumption. }
  assert (Hquot' : forall i j, (i < n)%nat -> (j < i)%nat ->
            no_underflow (B2Rf (nth (i * n + j) a 0 - dot_raw (FO tbl) (firstn j (skipn (j * n) l)) (firstn j (skipn (i * n) l)))%float
                          / B2Rf (nth (j * n + j) l 0%float))).
  { intros i' j' Hi' Hj'. apply no_underflow_explicit. apply (Hquot i' j' Hi' Hj'). }
  rewrite <- u64_val. apply (cholF_entry tbl a l n Hrun Hn Hfin Hprod' Hquot' i j Hi Hj).
Qed.

(** the side conditions from conditions on COMPUTED values *)
Lemma cholesky_conditions_from_computed (tbl : libm_table) (a l : list pfloat) (n : nat) :
  cholesky (FO tbl) a = Some l -> (n * n)%nat = length a ->
  Forall finite l ->
  (forall i j, (i < n)%nat -> (j < i)%nat -> / 2 ^ 1022 < Rabs (B2Rf (nth (i * n + j) l 0%float))) ->
  (forall i j k, (i < n)%nat -> (j <= i)%nat -> (k < j)%nat ->
     finite (nth (j * n + k) l 0 * nth (i * n + k) l 0)%float /\
     / 2 ^ 1022 < Rabs (B2Rf (nth (j * n + k) l 0 * nth (i * n + k) l 0)%float)) ->
  (forall i j k, (i < n)%nat -> (j <= i)%nat -> (k < j)%nat ->
     B2Rf (nth (j * n + k) l 0%float) * B2Rf (nth (i * n + k) l 0%float) = 0 \/
     / 2 ^ 1022 <= Rabs (B2Rf (nth (j * n + k) l 0%float) * B2Rf (nth (i * n + k) l 0%float))) /\
  (forall i j, (i < n)%nat -> (j < i)%nat ->
     let s := (nth (i * n + j) a 0 - dot_raw (FO tbl) (firstn j (skipn (j * n) l)) (firstn j (skipn (i * n) l)))%float in
     B2Rf s / B2Rf (nth (j * n + j) l 0%float) = 0 \/ / 2 ^ 1022 <= Rabs (B2Rf s / B2Rf (nth (j * n + j) l 0%float))).
Proof.
  intros Hrun Hn Hfin Hx Hp. split.
  - intros i j k Hi Hj Hk. destruct (Hp i j k Hi Hj Hk) as (Hf & Hm).
    apply computed_normal_no_underflow; assumption.
  - intros i j Hi Hj. cbv zeta.
    destruct (cholesky_recurrence (FO tbl) a l n Hrun Hn) as (_ & Hrec).
    destruct (Hrec i Hi) as (_ & _ & _ & Ho). specialize (Ho j Hj). cbn [zero sub div FO] in Ho.
    pose proof (cholF_diag_pos tbl a l n Hrun Hn Hfin j ltac:(lia)) as Hd.
    apply computed_normal_quotient.
    + lra.
    + rewrite <- Ho. apply (cholF_fin tbl a l n Hrun Hn Hfin i j); lia.
    + rewrite <- Ho. apply Hx; assumption.
Qed.

(** ** Part 4: the [Matrix] form ([Matrix::cholesky]): the dot products run over the WHOLE rows, whose tails are still
    zero.  Same theorem: the extra products are exact zeros, the extra additions add zeros; the constant is unchanged
    because every dot product has length n <= n. *)
Lemma nth_fpad (tbl : libm_table) n (x : list pfloat) k : nth k (pad (FO tbl) n x) 0%float = nth k x 0%float.
Proof. exact (nth_gpad (FO tbl) n x k). Qed.

Lemma dot_raw_zero1 (tbl : libm_table) : B2Rf (dot_raw (FO tbl) [0%float] [0%float]) = 0.
Proof.
  assert (H : dot_raw (FO tbl) [0%float] [0%float] = 0%float) by (vm_compute; reflexivity).
  rewrite H. apply B2Rf_zero.
Qed.

Section CholFloatMatrix.
  Variables (tbl : libm_table) (a : list pfloat) (n : nat) (L : list (list pfloat)).
  Hypothesis Hrun : try_chol_rows (FO tbl) true (unflatten a n n) n = Some L.
  Let l := flatten L.
  Hypothesis Hfin : Forall finite l.
  Hypothesis Hprod : forall i j k, (i < n)%nat -> (j <= i)%nat -> (k < j)%nat ->
    no_underflow (B2Rf (nth (j * n + k) l 0%float) * B2Rf (nth (i * n + k) l 0%float)).
  Hypothesis Hquot : forall i j, (i < n)%nat -> (j < i)%nat ->
    no_underflow (B2Rf (nth (i * n + j) a 0
                        - dot_raw (FO tbl) (firstn n (skipn (j * n) l)) (pad (FO tbl) n (firstn j (skipn (i * n) l))))%float
                  / B2Rf (nth (j * n + j) l 0%float)).

  Local Notation Lr := (map B2Rf l).
  Local Notation Ar := (map B2Rf a).

  Lemma cholM_rec :
    length l = (n * n)%nat /\
    forall i, (i < n)%nat ->
      (forall j, (i < j)%nat -> (j < n)%nat -> nth (i * n + j) l 0%float = 0%float) /\
      (exists d, PrimFloat.ltb 0%float d = true /\ nth (i * n + i) l 0%float = PrimFloat.sqrt d) /\
      nth (i * n + i) l 0%float =
        PrimFloat.sqrt (nth (i * n + i) a 0 - dot_raw (FO tbl) (pad (FO tbl) n (firstn i (skipn (i * n) l)))
                                                        (pad (FO tbl) n (firstn i (skipn (i * n) l))))%float /\
      (forall j, (j < i)%nat ->
         nth (i * n + j) l 0%float =
         ((nth (i * n + j) a 0 - dot_raw (FO tbl) (firstn n (skipn (j * n) l)) (pad (FO tbl) n (firstn j (skipn (i * n) l))))
          / nth (j * n + j) l 0)%float).
  Proof.
    destruct (try_chol_rows_recurrence (FO tbl) true a n L Hrun) as (Hlen & Hrec). fold l in Hlen, Hrec.
    split; [exact Hlen|]. intros i Hi. destruct (Hrec i Hi) as (Hz & Hp & Hd & Ho). cbn [zero ltb sqrt sub div FO] in *.
    split; [exact Hz|]. split; [exact Hp|]. split.
    - rewrite Hd. unfold chol_dot. rewrite !firstn_firstn, Nat.min_l by lia. reflexivity.
    - intros j Hj. rewrite (Ho j Hj). rewrite !firstn_firstn, !Nat.min_l by lia. reflexivity.
  Qed.

  Lemma cholM_len : length l = (n * n)%nat.
  Proof. exact (proj1 cholM_rec). Qed.

  Lemma cholM_fin i j : (i < n)%nat -> (j < n)%nat -> finite (nth (i * n + j) l 0%float).
  Proof.
    intros Hi Hj. apply (proj1 (Forall_forall finite l) Hfin). apply nth_In. rewrite cholM_len. nia.
  Qed.

  Lemma cholM_diag_pos i : (i < n)%nat -> 0 < B2Rf (nth (i * n + i) l 0%float).
  Proof.
    intros Hi. destruct cholM_rec as (_ & Hrec).
    destruct (Hrec i Hi) as (_ & (d & Hd & Hs) & _).
    pose proof (cholM_fin i i Hi Hi) as Hf. rewrite Hs in *. apply fsqrt_pos; assumption.
  Qed.

  Lemma cholM_lower : lower_triangular Lr n.
  Proof.
    intros i j Hi Hj Hij. unfold getm. rewrite nth_map_B2Rf.
    destruct cholM_rec as (_ & Hrec).
    destruct (Hrec i Hi) as (Hz & _). rewrite (Hz j Hij Hj). apply B2Rf_zero.
  Qed.

  (** a whole row, and a prefix of a row completed with zeros *)
  Lemma cholM_row i :
    (i < n)%nat ->
    length (firstn n (skipn (i * n) l)) = n /\
    forall k, (k < n)%nat -> nth k (firstn n (skipn (i * n) l)) 0%float = nth (i * n + k) l 0%float.
  Proof.
    intros Hi. split.
    - rewrite firstn_length, skipn_length, cholM_len. apply Nat.min_l. nia.
    - intros k Hk. rewrite nth_firstn_lt by exact Hk. apply nth_skipn_plus.
  Qed.

  Lemma cholM_pad i j :
    (i < n)%nat -> (j <= n)%nat ->
    length (pad (FO tbl) n (firstn j (skipn (i * n) l))) = n /\
    (forall k, (k < j)%nat -> nth k (pad (FO tbl) n (firstn j (skipn (i * n) l))) 0%float = nth (i * n + k) l 0%float) /\
    (forall k, (j <= k)%nat -> nth k (pad (FO tbl) n (firstn j (skipn (i * n) l))) 0%float = 0%float).
  Proof.
    intros Hi Hj.
    assert (Hlf : length (firstn j (skipn (i * n) l)) = j).
    { rewrite firstn_length, skipn_length, cholM_len. apply Nat.min_l. nia. }
    split; [apply gpad_length; lia|]. split.
    - intros k Hk. rewrite nth_fpad, nth_firstn_lt by exact Hk. apply nth_skipn_plus.
    - intros k Hk. rewrite nth_fpad. apply nth_overflow. lia.
  Qed.

  Lemma cholM_offdiag i j :
    (i < n)%nat -> (j < i)%nat ->
    finite (nth (i * n + j) a 0%float) /\
    Rabs (getm Ar n i j - rsum (fun k => getm Lr n j k * getm Lr n i k) (S j))
    <= E u64 (S n) * rsum (fun k => Rabs (getm Lr n j k) * Rabs (getm Lr n i k)) (S j).
  Proof.
    intros Hi Hj. destruct cholM_rec as (_ & Hrec).
    destruct (Hrec i Hi) as (_ & _ & _ & Ho). specialize (Ho j Hj).
    set (r := firstn n (skipn (j * n) l)) in *. set (xs := pad (FO tbl) n (firstn j (skipn (i * n) l))) in *.
    destruct (cholM_row j ltac:(lia)) as (Hlr & Hnr). fold r in Hlr, Hnr.
    destruct (cholM_pad i j Hi ltac:(lia)) as (Hlxs & Hnx & Hzx). fold xs in Hlxs, Hnx, Hzx.
    pose proof (cholM_fin i j Hi ltac:(lia)) as Hfi. rewrite Ho in Hfi.
    destruct (row_F_error tbl r xs (nth (i * n + j) a 0%float) (nth (j * n + j) l 0%float)) as (Hfb & _ & Herr).
    - lia.
    - pose proof (cholM_diag_pos j ltac:(lia)). lra.
    - exact Hfi.
    - apply (Forall2_nth_intro _ 0%float 0%float); [lia|].
      intros k Hk. rewrite Hlr in Hk. destruct (Nat.lt_ge_cases k j) as [Hkj|Hkj].
      + rewrite Hnr, Hnx by lia. apply Hprod; lia.
      + rewrite (Hzx k Hkj), B2Rf_zero. left. ring.
    - apply Hquot; assumption.
    - split; [exact Hfb|].
      cbn [div sub FO] in Herr. rewrite <- Ho in Herr. rewrite <- u64_val in Herr. fold (E u64 (S (length r))) in Herr.
      rewrite Hlr in Herr.
      rewrite Rdot_rsum, Asum_map2_rsum in Herr by (rewrite !map_length; lia).
      rewrite map_length, Hlr in Herr.
      rewrite (rsum_trunc _ j n) in Herr; [|lia|intros k Hk; rewrite !nth_map_B2Rf, (Hzx k) by lia; rewrite B2Rf_zero; ring].
      rewrite (rsum_trunc (fun k => Rabs _ * Rabs _) j n) in Herr;
        [|lia|intros k Hk; rewrite !nth_map_B2Rf, (Hzx k) by lia; rewrite B2Rf_zero, Rabs_R0; ring].
      cbn [rsum]. unfold getm. rewrite !nth_map_B2Rf.
      rewrite (rsum_ext (fun k => nth (j * n + k) Lr 0 * nth (i * n + k) Lr 0)
                        (fun k => nth k (map B2Rf r) 0 * nth k (map B2Rf xs) 0)).
      2:{ intros k Hk. rewrite !nth_map_B2Rf, Hnr, Hnx by lia. reflexivity. }
      rewrite (rsum_ext (fun k => Rabs (nth (j * n + k) Lr 0) * Rabs (nth (i * n + k) Lr 0))
                        (fun k => Rabs (nth k (map B2Rf r) 0) * Rabs (nth k (map B2Rf xs) 0))).
      2:{ intros k Hk. rewrite !nth_map_B2Rf, Hnr, Hnx by lia. reflexivity. }
      rewrite <- Rabs_mult. exact Herr.
  Qed.

  Lemma cholM_diag i :
    (i < n)%nat ->
    finite (nth (i * n + i) a 0%float) /\
    Rabs (getm Ar n i i - rsum (fun m => getm Lr n i m * getm Lr n i m) (S i))
    <= E u64 (S n) * rsum (fun m => Rabs (getm Lr n i m) * Rabs (getm Lr n i m)) (S i).
  Proof.
    intros Hi. destruct cholM_rec as (_ & Hrec).
    destruct (Hrec i Hi) as (_ & _ & Hd & _).
    set (r := pad (FO tbl) n (firstn i (skipn (i * n) l))) in *.
    destruct (cholM_pad i i Hi ltac:(lia)) as (Hlr & Hnr & Hzr). fold r in Hlr, Hnr, Hzr.
    pose proof (cholM_fin i i Hi Hi) as Hfi. rewrite Hd in Hfi.
    destruct (diag_F_error tbl r r (nth (i * n + i) a 0%float) (S n)) as (Hfb & Hl0 & Herr).
    - reflexivity.
    - lia.
    - destruct (Nat.le_gt_cases 2 n) as [H2|H2]; [left; lia|right]. split; [|lia].
      assert (Hn1 : n = 1%nat) by lia. assert (Hi0 : i = 0%nat) by lia. clear Hlr Hnr Hzr Hfi Hd. unfold r. rewrite Hi0.
      cbn [firstn]. rewrite Hn1. cbn [firstn pad length Nat.sub repeat app]. apply dot_raw_zero1.
    - exact Hfi.
    - apply (Forall2_nth_intro _ 0%float 0%float); [lia|].
      intros m Hm. rewrite Hlr in Hm. destruct (Nat.lt_ge_cases m i) as [Hmi|Hmi].
      + rewrite Hnr by exact Hmi. apply Hprod; lia.
      + rewrite (Hzr m Hmi), B2Rf_zero. left. ring.
    - split; [exact Hfb|].
      cbn [sqrt sub FO] in Herr, Hl0. rewrite <- Hd in Herr, Hl0. rewrite <- u64_val in Herr. fold (E u64 (S n)) in Herr.
      rewrite Rdot_rsum, Asum_map2_rsum in Herr by (rewrite !map_length; lia).
      rewrite map_length, Hlr in Herr.
      rewrite (rsum_trunc _ i n) in Herr; [|lia|intros k Hk; rewrite !nth_map_B2Rf, (Hzr k) by lia; rewrite B2Rf_zero; ring].
      rewrite (rsum_trunc (fun k => Rabs _ * Rabs _) i n) in Herr;
        [|lia|intros k Hk; rewrite !nth_map_B2Rf, (Hzr k) by lia; rewrite B2Rf_zero, Rabs_R0; ring].
      cbn [rsum]. unfold getm. rewrite !nth_map_B2Rf.
      rewrite (rsum_ext (fun m => nth (i * n + m) Lr 0 * nth (i * n + m) Lr 0)
                        (fun m => nth m (map B2Rf r) 0 * nth m (map B2Rf r) 0)).
      2:{ intros m Hm. rewrite !nth_map_B2Rf, Hnr by exact Hm. reflexivity. }
      rewrite (rsum_ext (fun m => Rabs (nth (i * n + m) Lr 0) * Rabs (nth (i * n + m) Lr 0))
                        (fun m => Rabs (nth m (map B2Rf r) 0) * Rabs (nth m (map B2Rf r) 0))).
      2:{ intros m Hm. rewrite !nth_map_B2Rf, Hnr by exact Hm. reflexivity. }
      rewrite <- Rabs_mult, (Rabs_pos_eq (_ * _)) by nra. exact Herr.
  Qed.

  Lemma cholM_entry i j :
    (i < n)%nat -> (j <= i)%nat ->
    finite (nth (i * n + j) a 0%float) /\
    Rabs (getm Ar n i j - rsum (fun k => getm Lr n i k * getm Lr n j k) n)
    <= ((1 + / 2 ^ 53) ^ S n - 1) * rsum (fun k => Rabs (getm Lr n i k) * Rabs (getm Lr n j k)) n.
  Proof.
    intros Hi Hj. rewrite <- u64_val. fold (E u64 (S n)).
    rewrite (rsum_trunc (fun k => getm Lr n i k * getm Lr n j k) (S j) n);
      [|lia|intros k Hk; rewrite (cholM_lower j k) by lia; ring].
    rewrite (rsum_trunc (fun k => Rabs (getm Lr n i k) * Rabs (getm Lr n j k)) (S j) n);
      [|lia|intros k Hk; rewrite (cholM_lower j k) by lia; rewrite Rabs_R0; ring].
    destruct (Nat.eq_dec j i) as [->|Hne].
    - apply cholM_diag; exact Hi.
    - destruct (cholM_offdiag i j Hi ltac:(lia)) as (Hf & H). split; [exact Hf|].
      rewrite (rsum_ext (fun k => getm Lr n i k * getm Lr n j k) (fun k => getm Lr n j k * getm Lr n i k)) by (intros; ring).
      rewrite (rsum_ext (fun k => Rabs (getm Lr n i k) * Rabs (getm Lr n j k))
                        (fun k => Rabs (getm Lr n j k) * Rabs (getm Lr n i k))) by (intros; ring).
      exact H.
  Qed.
End CholFloatMatrix.

(** from the lower triangle to the whole matrix when A is exactly symmetric (L L^T is) *)
Lemma chol_bound_symmetric (A L : list R) (n : nat) (g : R) :
  (forall i j, (i < n)%nat -> (j <= i)%nat ->
     Rabs (getm A n i j - rsum (fun k => getm L n i k * getm L n j k) n)
     <= g * rsum (fun k => Rabs (getm L n i k) * Rabs (getm L n j k)) n) ->
  symmetric A n ->
  forall i j, (i < n)%nat -> (j < n)%nat ->
    Rabs (getm A n i j - rsum (fun k => getm L n i k * getm L n j k) n)
    <= g * rsum (fun k => Rabs (getm L n i k) * Rabs (getm L n j k)) n.
Proof.
  intros Hlow Hsym i j Hi Hj. destruct (Nat.le_gt_cases j i) as [Hji|Hij]; [apply Hlow; assumption|].
  rewrite (Hsym i j Hi Hj).
  rewrite (rsum_ext (fun k => getm L n i k * getm L n j k) (fun k => getm L n j k * getm L n i k)) by (intros; ring).
  rewrite (rsum_ext (fun k => Rabs (getm L n i k) * Rabs (getm L n j k))
                    (fun k => Rabs (getm L n j k) * Rabs (getm L n i k))) by (intros; ring).
  apply Hlow; lia.
Qed.

Theorem matrix_cholesky_backward_error (tbl : libm_table) (m r : matrix (T:=pfloat)) :
  matrix_cholesky (FO tbl) m = Some r ->
  let n := nr m in let a := dat m in let l := dat r in
  Forall finite l ->
  (forall i j k, (i < n)%nat -> (j <= i)%nat -> (k < j)%nat ->
     B2Rf (nth (j * n + k) l 0%float) * B2Rf (nth (i * n + k) l 0%float) = 0 \/
     / 2 ^ 1022 <= Rabs (B2Rf (nth (j * n + k) l 0%float) * B2Rf (nth (i * n + k) l 0%float))) ->
  (forall i j, (i < n)%nat -> (j < i)%nat ->
     let s := (nth (i * n + j) a 0
               - dot_raw (FO tbl) (firstn n (skipn (j * n) l)) (pad (FO tbl) n (firstn j (skipn (i * n) l))))%float in
     B2Rf s / B2Rf (nth (j * n + j) l 0%float) = 0 \/ / 2 ^ 1022 <= Rabs (B2Rf s / B2Rf (nth (j * n + j) l 0%float))) ->
  let A := map B2Rf a in let L := map B2Rf l in
  let gamma := (1 + / 2 ^ 53) ^ (n + 1) - 1 in
  nr r = n /\ nc r = n /\ nc m = n /\ length a = (n * n)%nat /\ length l = (n * n)%nat /\
  lower_triangular L n /\ (forall i, (i < n)%nat -> 0 < getm L n i i) /\
  (forall i j, (i < n)%nat -> (j <= i)%nat -> finite (nth (i * n + j) a 0%float)) /\
  (forall i j, (i < n)%nat -> (j <= i)%nat ->
     Rabs (getm A n i j - rsum (fun k => getm L n i k * getm L n j k) n)
     <= gamma * rsum (fun k => Rabs (getm L n i k) * Rabs (getm L n j k)) n) /\
  (symmetric A n ->
   forall i j, (i < n)%nat -> (j < n)%nat ->
     Rabs (getm A n i j - rsum (fun k => getm L n i k * getm L n j k) n)
     <= gamma * rsum (fun k => Rabs (getm L n i k) * Rabs (getm L n j k)) n).
Proof.
  unfold matrix_cholesky. destruct (well_formed m) eqn:Hwf; cbn [guard bind]; [|discriminate].
  destruct (matrix_is_positive_definite (FO tbl) m) eqn:Hpd; cbn [guard bind]; [|discriminate].
  destruct (try_chol_rows (FO tbl) true (mrows m) (nc m)) as [L|] eqn:EL; cbn [bind]; [|discriminate].
  intros H. inversion H; subst r; clear H. cbn [nr nc dat]. cbv zeta.
  unfold matrix_is_positive_definite, matrix_is_symmetric in Hpd.
  apply andb_prop in Hpd. destruct Hpd as [Hsym _]. apply andb_prop in Hsym. destruct Hsym as [Hsq _].
  apply Nat.eqb_eq in Hsq.
  unfold well_formed in Hwf. apply andb_prop in Hwf. destruct Hwf as [_ Hlen]. apply Nat.eqb_eq in Hlen.
  unfold mrows in EL. rewrite <- Hsq in *.
  intros Hfin Hprod Hquot.
  assert (Hprod' : forall i j k, (i < nr m)%nat -> (j <= i)%nat -> (k < j)%nat ->
            no_underflow (B2Rf (nth (j * nr m + k) (flatten L) 0%float) * B2Rf (nth (i * nr m + k) (flatten L) 0%float))).
  { intros i j k Hi Hj Hk. apply no_underflow_explicit. apply Hprod; assumption. }
  assert (Hquot' : forall i j, (i < nr m)%nat -> (j < i)%nat ->
            no_underflow (B2Rf (nth (i * nr m + j) (dat m) 0
                                - dot_raw (FO tbl) (firstn (nr m) (skipn (j * nr m) (flatten L)))
                                          (pad (FO tbl) (nr m) (firstn j (skipn (i * nr m) (flatten L)))))%float
                          / B2Rf (nth (j * nr m + j) (flatten L) 0%float))).
  { intros i j Hi Hj. apply no_underflow_explicit. apply (Hquot i j Hi Hj). }
  replace (nr m + 1)%nat with (S (nr m)) by lia.
  assert (Hlow := fun i j Hi Hj => proj2 (cholM_entry tbl (dat m) (nr m) L EL Hfin Hprod' Hquot' i j Hi Hj)).
  split; [reflexivity|]. split; [reflexivity|]. split; [reflexivity|]. split; [symmetry; exact Hlen|].
  split; [|split; [|split; [|split; [|split]]]].
  - apply (cholM_len tbl (dat m) (nr m) L EL).
  - apply (cholM_lower tbl (dat m) (nr m) L EL).
  - intros i Hi. unfold getm. rewrite nth_map_B2Rf. apply (cholM_diag_pos tbl (dat m) (nr m) L EL Hfin i Hi).
  - intros i j Hi Hj. apply (cholM_entry tbl (dat m) (nr m) L EL Hfin Hprod' Hquot' i j Hi Hj).
  - exact Hlow.
  - apply chol_bound_symmetric. exact Hlow.
Qed.
