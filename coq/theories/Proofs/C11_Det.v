(** Proofs for C11, part 5: [ipiv_parity] is the sign of the permutation (after the D2 repair) and the
    determinant routine returns sign * product of U's diagonal. *)
From Coq Require Import List Arith Bool Lia ZArith Reals Lra Permutation.
From Compute Require Import Base.Ops Base.ListMat Model.Reduce Model.MatMul Model.Subst Model.LU
  Spec.Factor Proofs.C05 Proofs.LinAlgBase Proofs.C11_Subst Proofs.C11_LU.
Import ListNotations.

(** number of [k < n] with [f k = false] *)
Fixpoint countf (f : nat -> bool) (n : nat) : nat :=
  match n with 0 => 0 | S k => countf f k + (if f k then 0 else 1) end.

Lemma countf_le_n f n : countf f n <= n.
Proof. induction n as [|n IH]; simpl; [lia|]. destruct (f n); lia. Qed.

Lemma countf_mono f f' n :
  (forall k, k < n -> f k = true -> f' k = true) -> countf f' n <= countf f n.
Proof.
  induction n as [|n IH]; intros H; simpl; [lia|].
  specialize (IH ltac:(intros; apply H; auto; lia)).
  destruct (f n) eqn:E; [rewrite (H n) by (auto; lia); lia|]. destruct (f' n); lia.
Qed.

Lemma countf_set f f' n j :
  j < n -> f j = false -> f' j = true -> (forall k, k < n -> k <> j -> f' k = f k) ->
  S (countf f' n) = countf f n.
Proof.
  induction n as [|n IH]; intros Hj Hf Hf' Hsame; [lia|]. simpl.
  destruct (Nat.eq_dec j n) as [->|Hne].
  - rewrite Hf, Hf'.
    assert (countf f' n = countf f n).
    { clear IH Hj. assert (Hs : forall k, k < n -> f' k = f k) by (intros; apply Hsame; lia).
      clear Hsame Hf Hf'. induction n as [|m IHm]; simpl; auto.
      rewrite IHm by (intros; apply Hs; lia). rewrite (Hs m) by lia. reflexivity. }
    lia.
  - rewrite <- (IH ltac:(lia) Hf Hf' ltac:(intros; apply Hsame; lia)).
    rewrite (Hsame n) by lia. lia.
Qed.

Definition fixedb (perm : list nat) (k : nat) : bool := nth k perm 0 =? k.
Definition sg (par : nat) : Z := if Nat.even par then 1%Z else (-1)%Z.

Lemma sg_S par : sg (S par) = (- sg par)%Z.
Proof. unfold sg. rewrite Nat.even_succ, <- Nat.negb_even. destruct (Nat.even par); reflexivity. Qed.

Section Parity.
  Variable sgn : list nat -> Z.
  Hypothesis Hsgn : is_sign sgn.

  Lemma fix_position_spec n i :
    i < n ->
    forall fuel perm par,
      is_perm perm n -> countf (fixedb perm) n < fuel ->
      exists perm' par',
        fix_position fuel perm i par = Some (perm', par') /\ is_perm perm' n /\
        nth i perm' 0 = i /\
        (forall k, k < n -> nth k perm 0 = k -> nth k perm' 0 = k) /\
        (sg par * sgn perm = sg par' * sgn perm')%Z.
  Proof.
    intros Hi. induction fuel as [|fuel IH]; intros perm par Hp Hc; [lia|].
    pose proof (is_perm_length _ _ Hp) as Hl.
    cbn [fix_position]. set (j := nth i perm 0).
    destruct (Nat.eqb_spec j i) as [Hji|Hji].
    - exists perm, par. repeat split; auto.
    - assert (Hjn : j < n) by (apply (is_perm_lt _ _ _ Hp Hi)).
      destruct (Nat.leb_spec (length perm) j) as [Hbad|_]; [lia|].
      destruct (Nat.eqb_spec (nth j perm 0) j) as [Hfix|Hnfix].
      { exfalso. apply Hji. symmetry. apply (is_perm_inj _ _ _ _ Hp Hi Hjn). fold j. lia. }
      set (perm1 := swap 0 perm i j).
      assert (Hp1 : is_perm perm1 n) by (apply is_perm_swap; auto).
      assert (Hn1 : forall k, nth k perm1 0 = nth (transp i j k) perm 0) by (intros; apply nth_swap; lia).
      assert (Hc1 : countf (fixedb perm1) n < fuel).
      { (* position j becomes fixed, nothing fixed is lost *)
        set (f1 := fun k => if k =? j then true else fixedb perm k).
        assert (S (countf f1 n) = countf (fixedb perm) n).
        { apply (countf_set _ _ n j); auto.
          - unfold fixedb. apply Nat.eqb_neq. auto.
          - unfold f1. rewrite Nat.eqb_refl. reflexivity.
          - intros k Hk Hkj. unfold f1. apply Nat.eqb_neq in Hkj. rewrite Hkj. reflexivity. }
        assert (countf (fixedb perm1) n <= countf f1 n).
        { apply countf_mono. intros k Hk. unfold f1, fixedb.
          destruct (Nat.eqb_spec k j) as [->|Hkj]; intros Hf.
          - apply Nat.eqb_eq. rewrite Hn1. unfold transp.
            destruct (Nat.eqb_spec j i); [lia|]. rewrite Nat.eqb_refl. reflexivity.
          - apply Nat.eqb_eq in Hf. apply Nat.eqb_eq. rewrite Hn1.
            assert (k <> i) by (intros ->; fold j in Hf; lia).
            rewrite transp_fix by auto. auto. }
        lia. }
      destruct (IH perm1 (S par) Hp1 Hc1) as (perm' & par' & Hrun & Hp' & Hfi & Hkeep & Hs).
      exists perm', par'. split; [exact Hrun|]. split; [auto|]. split; [auto|]. split.
      + intros k Hk Hkf. apply Hkeep; auto. rewrite Hn1.
        assert (k <> i) by (intros ->; fold j in Hkf; lia).
        assert (k <> j) by (intros ->; lia).
        rewrite transp_fix by auto. auto.
      + rewrite <- Hs. destruct Hsgn as [_ Hsw]. unfold perm1.
        rewrite (Hsw perm i j 0) by lia. rewrite sg_S. ring.
  Qed.

  Lemma parity_loop_spec p n :
    is_perm p n ->
    exists par, parity_loop p = Some (seq 0 n, par) /\ sgn p = sg par.
  Proof.
    intros Hp. pose proof (is_perm_length _ _ Hp) as Hl. unfold parity_loop. rewrite Hl.
    assert (H : forall m, m <= n ->
              exists perm par,
                fold_left (fun st i => let* (perm, par) := st in fix_position (S n) perm i par)
                          (seq 0 m) (Some (p, 0)) = Some (perm, par) /\
                is_perm perm n /\ (forall k, k < m -> nth k perm 0 = k) /\
                (sgn p = sg par * sgn perm)%Z).
    { induction m as [|m IH]; intros Hm.
      - exists p, 0. cbn [seq fold_left]. repeat split; auto; [intros; lia|]. unfold sg. cbn [Nat.even]. ring.
      - destruct (IH ltac:(lia)) as (perm & par & Hrun & Hpp & Hfix & Hs).
        rewrite seq_S, fold_left_app, Hrun. cbn [fold_left bind Nat.add].
        destruct (fix_position_spec n m ltac:(lia) (S n) perm par Hpp) as (perm' & par' & Hr' & Hp' & Hm' & Hkeep & Hs').
        { pose proof (countf_le_n (fixedb perm) n). lia. }
        exists perm', par'. split; [exact Hr'|]. split; [auto|]. split.
        + intros k Hk. destruct (Nat.eq_dec k m) as [->|]; auto. apply Hkeep; [lia|]. apply Hfix. lia.
        + rewrite Hs. exact Hs'. }
    destruct (H n (le_n n)) as (perm & par & Hrun & Hpp & Hfix & Hs).
    assert (perm = seq 0 n).
    { apply (nth_ext _ _ 0 0); [rewrite seq_length; apply (is_perm_length _ _ Hpp)|].
      intros k Hk. rewrite (is_perm_length _ _ Hpp) in Hk. rewrite seq_nth by auto. apply Hfix; auto. }
    subst perm. exists par. split; auto.
    destruct Hsgn as [Hid _]. rewrite Hs, Hid. ring.
  Qed.

  Lemma ipiv_parity_is_sign p n : is_perm p n -> ipiv_parity p = Some (sgn p).
  Proof.
    intros Hp. destruct (parity_loop_spec p n Hp) as [par [Hrun Hs]].
    unfold ipiv_parity. rewrite Hrun. cbn [bind]. rewrite Hs. reflexivity.
  Qed.
End Parity.

(** ** The determinant routine *)
Local Open Scope R_scope.

Lemma fold_left_rprod (f : nat -> R) n :
  fold_left Rmult (map f (seq 0 n)) 1 = rprod f n.
Proof.
  induction n as [|n IH]; [reflexivity|].
  rewrite seq_S, map_app, fold_left_app, IH. reflexivity.
Qed.

Lemma matrix_lu_eq_slice {T} (O : Ops T) (m r : matrix (T:=T)) piv :
  matrix_lu O m = Some (r, piv) ->
  lu O (dat m) = Some (dat r, piv) /\ nr r = nr m /\ nc r = nc m /\ nr m = nc m /\
  (nr m * nr m)%nat = length (dat m).
Proof.
  unfold matrix_lu. destruct (well_formed m && (nr m =? nc m)%nat) eqn:Hg; cbn [guard bind]; [|discriminate].
  apply andb_prop in Hg. destruct Hg as [Hwf Hsq]. apply Nat.eqb_eq in Hsq.
  unfold well_formed in Hwf. apply andb_prop in Hwf. destruct Hwf as [_ Hlen]. apply Nat.eqb_eq in Hlen.
  unfold mrows. rewrite <- Hsq in *.
  destruct (lu_rows O (unflatten (dat m) (nr m) (nr m)) (nr m)) as [M pv] eqn:Hrows.
  intros H. inversion H; subst r piv; clear H. cbn [nr nc dat].
  unfold lu. rewrite <- Hlen, is_square_sq. cbn [bind]. rewrite Hrows. auto.
Qed.

Lemma det_formula (sgn : list nat -> Z) (m : matrix (T:=R)) n :
  is_sign sgn -> well_formed m = true -> nr m = n -> nc m = n ->
  exists lum piv,
    matrix_lu RO m = Some (lum, piv) /\ is_perm piv n /\
    matrix_det RO m = Some (rprod (fun i => getm (dat lum) n i i) n * IZR (sgn piv)).
Proof.
  intros Hsgn Hwf Hr Hc.
  pose proof Hwf as Hwf'. unfold well_formed in Hwf'. apply andb_prop in Hwf'. destruct Hwf' as [_ Hlen].
  apply Nat.eqb_eq in Hlen. rewrite Hr, Hc in Hlen.
  destruct (matrix_lu RO m) as [[lum piv]|] eqn:Hlu.
  2:{ exfalso. unfold matrix_lu in Hlu. rewrite Hwf, Hr, Hc, Nat.eqb_refl in Hlu. cbn [andb guard bind] in Hlu.
      destruct (lu_rows _ _ _); discriminate. }
  destruct (matrix_lu_eq_slice RO m lum piv Hlu) as (Hslice & Hnr & Hnc & _ & _).
  destruct (lu_reconstructs (dat m) (dat lum) piv n Hslice Hlen) as (Hll & Hp & _).
  exists lum, piv. split; [reflexivity|]. split; [auto|].
  unfold matrix_det. rewrite Hlu. cbn [bind]. unfold matrix_lu_det.
  assert (Hwfl : well_formed lum && (nr lum =? nc lum)%nat = true).
  { unfold well_formed. rewrite Hnr, Hnc, Hr, Hc, Hll, !Nat.eqb_refl, !andb_true_r.
    unfold well_formed in Hwf. rewrite Hr, Hc in Hwf. apply andb_prop in Hwf. destruct Hwf as [H1 _].
    apply andb_prop in H1. destruct H1 as [H1 _]. rewrite H1. reflexivity. }
  rewrite Hwfl. cbn [guard bind].
  rewrite (ipiv_parity_is_sign sgn Hsgn piv n Hp). cbn [bind mul ofZ RO].
  f_equal. f_equal. unfold matrix_diag, prod. rewrite Hnr, Hnc, Hr, Hc, Nat.min_id. cbn [mul one zero RO].
  apply fold_left_rprod.
Qed.
