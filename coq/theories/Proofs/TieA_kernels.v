(** * Tie A for C20: the hand-written model [Model/Kernels.v] IS the source (scalar forms and constructors).
    [Generated/kernels.v] is produced on every run by tools/tiea/kernels.py (expression translator tools/rsexpr.py)
    from src/predict/gps/kernels.rs.  Each lemma states that the generated term and the model's function are the
    same function for EVERY carrier and operations record (conversion; for the constructors a case split on the
    asserts' comparisons: the source checks them one after the other, the model as one conjunction). *)
From Coq Require Import List Bool ZArith.
From Compute Require Import Base.Ops Base.RsExpr Model.Kernels Model.Shape Model.KernelsPlumbing Generated.kernels Proofs.TieA_tac.

Section TieA.
  Context {T : Type} (O : Ops T).
  Lemma tiea_RBFKernel_forward : forall var ls x y, RBFKernel_forward O var ls x y = rbf O var ls x y.
  Proof. reflexivity. Qed.
  Lemma tiea_RationalQuadraticKernel_forward :
    forall var alpha ls x y, RationalQuadraticKernel_forward O var alpha ls x y = rq O var alpha ls x y.
  Proof. reflexivity. Qed.
  Lemma tiea_RBFKernel_new : forall var ls, RBFKernel_new O var ls = rbf_new O var ls.
  Proof. intros var ls. unfold RBFKernel_new, rbf_new. tiea_cases. Qed.
  Lemma tiea_RationalQuadraticKernel_new :
    forall var alpha ls, RationalQuadraticKernel_new O var alpha ls = rq_new O var alpha ls.
  Proof. intros var alpha ls. unfold RationalQuadraticKernel_new, rq_new. tiea_cases. Qed.

  (** matrix form: the translator checked on the source text that the body of the matrix-form [forward] is the two
      reshapes, the assertion on the sizes, and then token for token the scalar body; the reshape requests it read out
      are the ones [to_column] / [to_row] of Model/KernelsPlumbing.v make, for all four argument types *)
  Lemma tiea_matrix_form_prologue (a : karg T) :
    to_column a =
      match a with
      | KVector v | KRefVector v => Shape.new v (fst kernels_matrix_form_x_reshape) (snd kernels_matrix_form_x_reshape)
      | KMatrix m | KRefMatrix m => Shape.reshape m (fst kernels_matrix_form_x_reshape) (snd kernels_matrix_form_x_reshape)
      end /\
    to_row a =
      match a with
      | KVector v | KRefVector v => Shape.new v (fst kernels_matrix_form_y_reshape) (snd kernels_matrix_form_y_reshape)
      | KMatrix m | KRefMatrix m => Shape.reshape m (fst kernels_matrix_form_y_reshape) (snd kernels_matrix_form_y_reshape)
      end /\
    kernels_matrix_form_asserts_nonempty = true /\ kernels_matrix_form_rest_is_scalar_body = true.
  Proof. destruct a; repeat split. Qed.
End TieA.
