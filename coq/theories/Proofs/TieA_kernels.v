(** * Tie A for C20: the hand-written model [Model/Kernels.v] IS the source (scalar forms and constructors).
    [Generated/kernels.v] is produced on every run by tools/tiea/kernels.py (expression translator tools/rsexpr.py)
    from src/predict/gps/kernels.rs.  Each lemma states that the generated term and the model's function are the
    same function for EVERY carrier and operations record (conversion; for the constructors a case split on the
    asserts' comparisons: the source checks them one after the other, the model as one conjunction). *)
From Coq Require Import List Bool ZArith.
From Compute Require Import Base.Ops Base.RsExpr Model.Kernels Generated.kernels Proofs.TieA_tac.

Section TieA.
  Context {T : Type} (O : Ops T).
  Lemma tiea_RBFKernel_forward : forall var ls x y, RBFKernel_forward O var ls x y = rbf O var ls x y.
  Proof. reflexivity. Qed.
  Lemma tiea_RationalQuadraticKernel_forward :
    forall var alpha ls x y, RationalQuadraticKernel_forward O var alpha ls x y = rq O var alpha ls x y.
  Proof. reflexivity. Qed.
  Lemma tiea_RBFKernel_new : forall var ls, RBFKernel_new O var ls = rbf_new O var ls.
  Proof. intros var ls. unfold RBFKernel_new, rbf_new. tiea_cases. Qed.
  Lemma tiea_RationalQuadraticKernel_new :
    forall var alpha ls, RationalQuadraticKernel_new O var alpha ls = rq_new O var alpha ls.
  Proof. intros var alpha ls. unfold RationalQuadraticKernel_new, rq_new. tiea_cases. Qed.
End TieA.
