(** * C08, moments: the Welford invariant on the reals and its corollaries. *)
From Coq Require Import List Arith ZArith Reals Lra Lia.
From Compute Require Import Base.Ops Base.ListMat Model.Reduce Model.Stats Spec.Stats.
Import ListNotations.
Local Open Scope R_scope.

(** ** sums *)
Definition S2 (l : list R) : R := Rsum (map (fun x => x * x) l).

Lemma Rsum_app : forall a b, Rsum (a ++ b) = Rsum a + Rsum b.
Proof. unfold Rsum. induction a as [|x a IH]; intros b; simpl; [lra|]. rewrite IH. lra. Qed.

Lemma Rsum_snoc : forall l x, Rsum (l ++ [x]) = Rsum l + x.
Proof. intros. rewrite Rsum_app. cbn. lra. Qed.

Lemma S2_snoc : forall l x, S2 (l ++ [x]) = S2 l + x * x.
Proof. intros. unfold S2. rewrite map_app, Rsum_app. cbn. lra. Qed.

Lemma fold_left_Rplus : forall l s, fold_left Rplus l s = s + Rsum l.
Proof. unfold Rsum. induction l as [|x l IH]; intros s; simpl; [lra|]. rewrite IH. lra. Qed.

(** the 8-way unrolled [sum] of linalg/utils.rs is the sum *)
Lemma sum8_RO : forall fuel s x, (length x < fuel)%nat -> sum8 RO fuel s x = s + Rsum x.
Proof.
  induction fuel as [|fuel IH]; intros s x Hlen; [lia|].
  cbn [sum8].
  destruct x as [|x0 [|x1 [|x2 [|x3 [|x4 [|x5 [|x6 [|x7 x']]]]]]]];
    try (rewrite fold_left_Rplus; reflexivity).
  rewrite IH by (cbn [length] in Hlen; lia).
  cbn [add RO Rsum fold_right]. fold (Rsum x'). lra.
Qed.

Lemma sum_RO : forall x, sum RO x = Rsum x.
Proof. intros x. unfold sum. rewrite sum8_RO by lia. cbn [zero RO]. lra. Qed.

Lemma ofN_RO : forall n, ofN RO n = INR n.
Proof. intros n. unfold ofN. cbn [ofZ RO]. symmetry. apply INR_IZR_INZ. Qed.

Lemma mean_RO : forall l, mean RO l = mean_def l.
Proof. intros l. unfold mean, mean_def. rewrite sum_RO, ofN_RO. reflexivity. Qed.

(** ** Welford *)
Lemma welford_snoc : forall {T} (O : Ops T) l x,
  welford_statistics O (l ++ [x]) = welford_update O (welford_statistics O l) x.
Proof. intros. unfold welford_statistics. rewrite fold_left_app. reflexivity. Qed.

(** resuming from any prefix: the aggregate of [pre ++ post] is the fold of the update over [post]
    started from the aggregate of [pre] (any carrier) *)
Lemma welford_prefix : forall {T} (O : Ops T) pre post,
  welford_statistics O (pre ++ post) = fold_left (welford_update O) post (welford_statistics O pre).
Proof. intros. unfold welford_statistics. apply fold_left_app. Qed.

(** invariant in closed form (DESIGN A.5): (k, S1/k, S2 - S1^2/k) *)
Lemma welford_closed : forall l,
  welford_statistics RO l =
  (length l, Rsum l / INR (length l), S2 l - Rsum l * Rsum l / INR (length l)).
Proof.
  induction l as [|x l IH] using rev_ind.
  - cbn. f_equal; [f_equal|]; unfold Rdiv; ring.
  - rewrite welford_snoc, IH. unfold welford_update.
    rewrite app_length, Rsum_snoc, S2_snoc. cbn [length].
    replace (length l + 1)%nat with (S (length l)) by lia.
    rewrite ofN_RO. cbn [add sub mul div RO].
    destruct l as [|y l'].
    + cbn. unfold Rdiv. rewrite Rinv_1. f_equal; [f_equal|]; ring.
    + set (n := length (y :: l')) in *.
      assert (Hn : INR n <> 0) by (apply not_0_INR; subst n; cbn; lia).
      assert (HSn : INR (S n) <> 0) by (apply not_0_INR; lia).
      rewrite S_INR in *.
      f_equal; [f_equal|]; field; auto.
Qed.

(** Σ (xᵢ - m)² = S2 - 2 m S1 + n m² for every m *)
Lemma sq_dev_expand : forall l m,
  Rsum (map (fun x => (x - m) * (x - m)) l) = S2 l - 2 * m * Rsum l + INR (length l) * m * m.
Proof.
  induction l as [|x l IH]; intros m.
  - cbn. ring.
  - cbn [map Rsum fold_right length]. fold (Rsum (map (fun x => (x - m) * (x - m)) l)).
    rewrite IH. unfold S2. cbn [map Rsum fold_right]. fold (Rsum l). fold (Rsum (map (fun x => x * x) l)).
    rewrite S_INR. ring.
Qed.

Lemma ssd_closed : forall l, l <> [] -> ssd l = S2 l - Rsum l * Rsum l / INR (length l).
Proof.
  intros l Hl. unfold ssd. rewrite sq_dev_expand. unfold mean_def.
  assert (Hn : INR (length l) <> 0) by (apply not_0_INR; destruct l; [congruence|cbn; lia]).
  field; auto.
Qed.

(** ** the Welford invariant: after any data list (hence after every prefix of the data), the aggregate is
    (count, mean, sum of squared deviations from the mean) *)
Theorem welford_invariant : forall l, l <> [] ->
  welford_statistics RO l = (length l, mean_def l, ssd l).
Proof. intros l Hl. rewrite welford_closed, ssd_closed by exact Hl. reflexivity. Qed.

Theorem welford_invariant_prefix : forall data k, (1 <= k <= length data)%nat ->
  welford_statistics RO (firstn k data) = (k, mean_def (firstn k data), ssd (firstn k data)) /\
  welford_statistics RO data =
    fold_left (welford_update RO) (skipn k data) (k, mean_def (firstn k data), ssd (firstn k data)).
Proof.
  intros data k Hk.
  assert (Hlen : length (firstn k data) = k) by (rewrite firstn_length; lia).
  assert (Hne : firstn k data <> []) by (intros E; rewrite E in Hlen; cbn in Hlen; lia).
  pose proof (welford_invariant _ Hne) as H. rewrite Hlen in H. split; [exact H|].
  rewrite <- H, <- welford_prefix, firstn_skipn. reflexivity.
Qed.

Lemma welford_empty : forall {T} (O : Ops T), welford_statistics O [] = (0%nat, zero O, zero O).
Proof. reflexivity. Qed.

(** ** corollaries: every statistic equals its definition *)
Theorem welford_mean_def : forall l, l <> [] -> welford_mean RO l = mean_def l.
Proof. intros l Hl. unfold welford_mean. rewrite welford_invariant by exact Hl. reflexivity. Qed.

Theorem welford_mean_eq_mean : forall l, l <> [] -> welford_mean RO l = mean RO l.
Proof. intros l Hl. rewrite welford_mean_def, mean_RO by exact Hl. reflexivity. Qed.

Theorem var_is_def : forall l, l <> [] -> var RO l = var_def l.
Proof. intros l Hl. unfold var. rewrite welford_invariant by exact Hl. rewrite ofN_RO. reflexivity. Qed.

Lemma usize_pred_RO : forall n, (1 <= n)%nat -> ofZ RO (usize_pred n) = INR (n - 1).
Proof.
  intros n Hn. destruct n as [|k]; [lia|]. cbn [usize_pred ofZ RO].
  replace (S k - 1)%nat with k by lia. symmetry. apply INR_IZR_INZ.
Qed.

Theorem sample_var_is_def : forall l, (2 <= length l)%nat -> sample_var RO l = sample_var_def l.
Proof.
  intros l Hl. assert (Hne : l <> []) by (destruct l; [cbn in Hl; lia|congruence]).
  unfold sample_var. rewrite welford_invariant by exact Hne. rewrite usize_pred_RO by lia. reflexivity.
Qed.

Theorem std_is_def : forall l, l <> [] -> std RO l = R_sqrt.sqrt (var_def l).
Proof. intros l Hl. unfold std. rewrite var_is_def by exact Hl. reflexivity. Qed.

Theorem sample_std_is_def : forall l, (2 <= length l)%nat -> sample_std RO l = R_sqrt.sqrt (sample_var_def l).
Proof. intros l Hl. unfold sample_std. rewrite sample_var_is_def by exact Hl. reflexivity. Qed.

(** ** non-negativity, shift invariance, quadratic scaling (of the definitions, hence of the code) *)
Lemma Rsum_nonneg : forall l, (forall x, In x l -> 0 <= x) -> 0 <= Rsum l.
Proof.
  induction l as [|x l IH]; intros H; cbn [Rsum fold_right]; [lra|]. fold (Rsum l).
  assert (0 <= x) by (apply H; left; reflexivity).
  assert (0 <= Rsum l) by (apply IH; intros y Hy; apply H; right; exact Hy). lra.
Qed.

Lemma ssd_nonneg : forall l, 0 <= ssd l.
Proof.
  intros l. unfold ssd. apply Rsum_nonneg. intros x Hx. apply in_map_iff in Hx.
  destruct Hx as [y [<- _]]. cbv beta. apply Rle_0_sqr.
Qed.

Theorem var_nonneg : forall l, l <> [] -> 0 <= var RO l.
Proof.
  intros l Hl. rewrite var_is_def by exact Hl. unfold var_def.
  apply Rmult_le_pos; [apply ssd_nonneg|]. apply Rlt_le, Rinv_0_lt_compat, lt_0_INR.
  destruct l; [congruence|cbn; lia].
Qed.

Lemma Rsum_map_shift : forall l c, Rsum (map (fun x => x + c) l) = Rsum l + INR (length l) * c.
Proof.
  induction l as [|x l IH]; intros c; [cbn; ring|].
  cbn [map Rsum fold_right length]. fold (Rsum (map (fun x => x + c) l)). fold (Rsum l).
  rewrite IH, S_INR. ring.
Qed.
Lemma Rsum_map_scale : forall l c, Rsum (map (fun x => c * x) l) = c * Rsum l.
Proof.
  induction l as [|x l IH]; intros c; [cbn; ring|].
  cbn [map Rsum fold_right]. fold (Rsum (map (fun x => c * x) l)). fold (Rsum l). rewrite IH. ring.
Qed.

Lemma mean_def_shift : forall l c, l <> [] -> mean_def (map (fun x => x + c) l) = mean_def l + c.
Proof.
  intros l c Hl. unfold mean_def. rewrite Rsum_map_shift, map_length.
  assert (Hn : INR (length l) <> 0) by (apply not_0_INR; destruct l; [congruence|cbn; lia]).
  field; auto.
Qed.
Lemma mean_def_scale : forall l c, mean_def (map (fun x => c * x) l) = c * mean_def l.
Proof. intros l c. unfold mean_def. rewrite Rsum_map_scale, map_length. unfold Rdiv. ring. Qed.

Lemma ssd_shift : forall l c, l <> [] -> ssd (map (fun x => x + c) l) = ssd l.
Proof.
  intros l c Hl. unfold ssd. rewrite mean_def_shift by exact Hl. rewrite map_map.
  f_equal. apply map_ext. intros x. ring.
Qed.
Lemma ssd_scale : forall l c, ssd (map (fun x => c * x) l) = c * c * ssd l.
Proof.
  intros l c. unfold ssd. rewrite mean_def_scale, map_map.
  rewrite <- Rsum_map_scale, map_map. f_equal. apply map_ext. intros x. ring.
Qed.

Theorem var_shift : forall l c, l <> [] -> var RO (map (fun x => x + c) l) = var RO l.
Proof.
  intros l c Hl.
  assert (Hl' : map (fun x => x + c) l <> []) by (destruct l; [congruence|cbn; congruence]).
  rewrite !var_is_def by assumption. unfold var_def. rewrite ssd_shift, map_length by exact Hl. reflexivity.
Qed.
Theorem var_scale : forall l c, l <> [] -> var RO (map (fun x => c * x) l) = c * c * var RO l.
Proof.
  intros l c Hl.
  assert (Hl' : map (fun x => c * x) l <> []) by (destruct l; [congruence|cbn; congruence]).
  rewrite !var_is_def by assumption. unfold var_def. rewrite ssd_scale, map_length. unfold Rdiv. ring.
Qed.
Theorem sample_var_shift : forall l c, (2 <= length l)%nat ->
  sample_var RO (map (fun x => x + c) l) = sample_var RO l.
Proof.
  intros l c Hl. assert (Hne : l <> []) by (destruct l; [cbn in Hl; lia|congruence]).
  rewrite !sample_var_is_def by (rewrite ?map_length; exact Hl).
  unfold sample_var_def. rewrite ssd_shift, map_length by exact Hne. reflexivity.
Qed.
Theorem sample_var_scale : forall l c, (2 <= length l)%nat ->
  sample_var RO (map (fun x => c * x) l) = c * c * sample_var RO l.
Proof.
  intros l c Hl.
  rewrite !sample_var_is_def by (rewrite ?map_length; exact Hl).
  unfold sample_var_def. rewrite ssd_scale, map_length. unfold Rdiv. ring.
Qed.
Theorem mean_shift : forall l c, l <> [] -> mean RO (map (fun x => x + c) l) = mean RO l + c.
Proof. intros. rewrite !mean_RO. apply mean_def_shift. assumption. Qed.
Theorem mean_scale : forall l c, mean RO (map (fun x => c * x) l) = c * mean RO l.
Proof. intros. rewrite !mean_RO. apply mean_def_scale. Qed.
