(** Proofs for C01, part 1: routing, layout and assembly, for EVERY carrier and arbitrary factorisation
    routines (no algebraic law is used, so everything here holds bit for bit on binary64).
    Statements are pinned in Properties/C01.v. *)
From Coq Require Import List Arith Bool Lia.
From Compute Require Import Base.Ops Base.ListMat Model.Reduce Model.MatMul Model.Subst Model.Cholesky Model.Solve
  Spec.Factor Spec.Solve Proofs.C05 Proofs.LinAlgBase Proofs.C11_Subst.
Import ListNotations.

(** ** generic list facts *)
Lemma list_eq_nth {A} (d : A) (l1 l2 : list A) n :
  length l1 = n -> length l2 = n -> (forall i, i < n -> nth i l1 d = nth i l2 d) -> l1 = l2.
Proof.
  intros H1 H2 H. apply (nth_ext _ _ d d); [congruence|]. intros i Hi. apply H. lia.
Qed.

Lemma nth_repeat_lt {A} (x d : A) n i : i < n -> nth i (repeat x n) d = x.
Proof. revert i; induction n as [|n IH]; intros [|i] H; simpl; auto; try lia. apply IH. lia. Qed.

Lemma colk_length {A} (d : A) X n k j : length (colk d X n k j) = n.
Proof. unfold colk. rewrite map_length, seq_length. reflexivity. Qed.

Lemma nth_colk {A} (d : A) X n k j i : i < n -> nth i (colk d X n k j) d = nth (i * k + j) X d.
Proof. intros Hi. unfold colk. rewrite nth_map_seq by auto. reflexivity. Qed.

(** a fold that appends one block per index *)
Lemma fold_columns {A} (step : option (list A) -> nat -> option (list A)) (xs : nat -> list A) k :
  forall a0 s0,
  (forall j s, a0 <= j < a0 + k -> step (Some s) j = Some (s ++ xs j)) ->
  fold_left step (seq a0 k) (Some s0) = Some (s0 ++ concat (map xs (seq a0 k))).
Proof.
  induction k as [|k IH]; intros a0 s0 H; cbn [seq map concat fold_left].
  - rewrite app_nil_r. reflexivity.
  - rewrite H by lia. rewrite IH by (intros j s Hj; apply H; lia).
    rewrite <- app_assoc. reflexivity.
Qed.

(** a fold that fails at some index fails *)
Lemma fold_columns_none {A} (step : option (list A) -> nat -> option (list A)) l :
  (forall j, step None j = None) -> fold_left step l None = None.
Proof. intros H. induction l as [|j l IH]; cbn [fold_left]; auto. rewrite H. exact IH. Qed.

Lemma concat_blocks_length {A} (xs : nat -> list A) n k :
  (forall j, j < k -> length (xs j) = n) -> length (concat (map xs (seq 0 k))) = k * n.
Proof.
  intros H. rewrite (concat_rows_length _ n).
  - rewrite map_length, seq_length. reflexivity.
  - intros i Hi. rewrite map_length, seq_length in Hi. rewrite nth_map_seq by auto. apply H. lia.
Qed.

Lemma nth_concat_blocks {A} (xs : nat -> list A) n k j i d :
  (forall j, j < k -> length (xs j) = n) -> j < k -> i < n ->
  nth (j * n + i) (concat (map xs (seq 0 k))) d = nth i (xs j) d.
Proof.
  intros H Hj Hi. rewrite (nth_concat_rows _ n).
  - rewrite nth_map_seq by auto. reflexivity.
  - intros i' Hi'. rewrite map_length, seq_length in Hi'. rewrite nth_map_seq by auto. apply H. lia.
  - rewrite map_length, seq_length. exact Hj.
  - exact Hi.
Qed.

Section Layout.
  Context {T : Type} (O : Ops T).
  Context (try_chol : list T -> option (option (list T)))
          (chol_solve : list T -> list T -> option (list T))
          (lu : list T -> option (list T * list nat))
          (lu_solve : list T -> list nat -> list T -> option (list T)).
  Local Notation z := (zero O).
  Local Notation factor := (factor O try_chol chol_solve lu lu_solve).
  Local Notation solve := (solve O try_chol chol_solve lu lu_solve).
  Local Notation solve_sys := (solve_sys O try_chol chol_solve lu lu_solve).
  Local Notation invert_matrix := (invert_matrix O try_chol chol_solve lu lu_solve).
  Local Notation msolve_vec := (msolve_vec lu lu_solve).
  Local Notation msolve_mat := (msolve_mat O lu lu_solve).
  Local Notation minv := (minv O lu lu_solve).

  (** *** the two conversions *)
  Lemma row_to_col_major_spec b n k :
    0 < n -> length b = n * k ->
    exists bc, row_to_col_major O b n = Some bc /\ length bc = k * n /\
               forall j, j < k -> row_of bc n j = colk z b n k j.
  Proof.
    intros Hn Hb. unfold row_to_col_major.
    destruct (transpose_spec O b n k Hn Hb) as (t & Ht & Htl & Hte).
    exists t. split; [exact Ht|]. split; [exact Htl|].
    intros j Hj. apply (list_eq_nth z _ _ n).
    - apply (length_row_of t k); auto.
    - apply colk_length.
    - intros i Hi. rewrite nth_row_of by auto. rewrite nth_colk by auto. apply Hte; auto.
  Qed.

  Lemma col_to_row_major_spec s n k :
    0 < n -> length s = k * n ->
    exists X, col_to_row_major O s n = Some X /\ length X = n * k /\
              forall i j, i < n -> j < k -> nth (i * k + j) X z = nth (j * n + i) s z.
  Proof.
    intros Hn Hs. unfold col_to_row_major.
    rewrite Hs, (Nat.mul_comm k n), is_matrix_mul by auto. cbn [bind].
    destruct (Nat.eqb_spec k 0) as [->|Hk].
    - exists []. split; [reflexivity|]. split; [simpl; lia|]. intros; lia.
    - destruct (transpose_spec O s k n ltac:(lia) Hs) as (t & Ht & Htl & Hte).
      exists t. split; [exact Ht|]. split; [exact Htl|].
      intros i j Hi Hj. apply Hte; auto.
  Qed.

  Lemma row_to_col_major_rejects b n :
    n = 0 \/ length b mod n <> 0 -> row_to_col_major O b n = None.
  Proof.
    intros H. unfold row_to_col_major, transpose. rewrite is_matrix_mod.
    destruct n as [|n]; [reflexivity|]. destruct H as [H|H]; [discriminate|].
    change (0 <? S n) with true. cbn [andb].
    destruct (Nat.eqb_spec (length b mod S n) 0); [contradiction|reflexivity].
  Qed.

  (** *** [diag_matrix], [eye] *)
  Lemma mapi_from_diag_rows (d : list T) n s :
    (forall i, i < length (mapi_from s (fun i x => upd (repeat z n) i x) d) ->
       length (nth i (mapi_from s (fun i x => upd (repeat z n) i x) d) []) = n).
  Proof.
    intros i Hi. rewrite mapi_from_length in Hi.
    rewrite (nth_mapi_from _ _ _ _ _ z) by auto.
    rewrite LinAlgBase.upd_length, repeat_length. reflexivity.
  Qed.

  Lemma diag_matrix_length (d : list T) : length (diag_matrix O d) = length d * length d.
  Proof.
    unfold diag_matrix, flatten, mapi.
    rewrite (concat_rows_length _ (length d)) by apply mapi_from_diag_rows.
    rewrite mapi_from_length. reflexivity.
  Qed.

  Lemma nth_diag_matrix (d : list T) i j :
    i < length d -> j < length d ->
    nth (i * length d + j) (diag_matrix O d) z = if i =? j then nth i d z else z.
  Proof.
    intros Hi Hj. unfold diag_matrix, flatten, mapi.
    rewrite (nth_concat_rows _ (length d)); auto.
    - rewrite (nth_mapi_from _ _ _ _ _ z) by auto. cbn [Nat.add].
      destruct (Nat.eqb_spec i j) as [->|Hij].
      + apply LinAlgBase.nth_upd_eq. rewrite repeat_length. exact Hj.
      + rewrite LinAlgBase.nth_upd_neq by auto. apply nth_repeat.
    - apply mapi_from_diag_rows.
    - rewrite mapi_from_length. exact Hi.
  Qed.

  Lemma eye_length n : length (eye O n) = n * n.
  Proof. unfold eye. rewrite diag_matrix_length, repeat_length. reflexivity. Qed.

  Lemma nth_eye n i j : i < n -> j < n -> nth (i * n + j) (eye O n) z = if i =? j then one O else z.
  Proof.
    intros Hi Hj. unfold eye.
    pose proof (nth_diag_matrix (repeat (one O) n) i j) as H. rewrite repeat_length in H.
    rewrite H by auto. destruct (i =? j); auto. apply nth_repeat_lt; auto.
  Qed.

  (** *** routing *)
  Lemma factor_not_pd a :
    is_positive_definite O a = Some false ->
    factor a = (let* (m, piv) := lu a in Some (lu_solve m piv)).
  Proof. intros H. unfold Solve.factor. rewrite H. reflexivity. Qed.

  Lemma factor_pd_chol a l :
    is_positive_definite O a = Some true -> try_chol a = Some (Some l) -> factor a = Some (chol_solve l).
  Proof. intros H1 H2. unfold Solve.factor. rewrite H1. cbn [bind]. rewrite H2. reflexivity. Qed.

  (** after the D1 repair: predicate true but a pivot not positive => the LU route *)
  Lemma factor_pd_fallback a :
    is_positive_definite O a = Some true -> try_chol a = Some None ->
    factor a = (let* (m, piv) := lu a in Some (lu_solve m piv)).
  Proof. intros H1 H2. unfold Solve.factor. rewrite H1. cbn [bind]. rewrite H2. reflexivity. Qed.

  Lemma indefinite_falls_back a b :
    is_positive_definite O a = Some true -> try_chol a = Some None ->
    solve a b = (let* _ := guard (length a =? length b * length b) in
                 let* (m, piv) := lu a in lu_solve m piv b).
  Proof.
    intros H1 H2. unfold Solve.solve. rewrite (factor_pd_fallback a H1 H2).
    destruct (guard _); cbn [bind]; auto. destruct (lu a) as [[m piv]|]; reflexivity.
  Qed.

  Lemma not_pd_goes_lu a b :
    is_positive_definite O a = Some false ->
    solve a b = (let* _ := guard (length a =? length b * length b) in
                 let* (m, piv) := lu a in lu_solve m piv b).
  Proof.
    intros H1. unfold Solve.solve. rewrite (factor_not_pd a H1).
    destruct (guard _); cbn [bind]; auto. destruct (lu a) as [[m piv]|]; reflexivity.
  Qed.

  Lemma pd_chol_goes_chol a b l :
    is_positive_definite O a = Some true -> try_chol a = Some (Some l) ->
    solve a b = (let* _ := guard (length a =? length b * length b) in chol_solve l b).
  Proof.
    intros H1 H2. unfold Solve.solve. rewrite (factor_pd_chol a l H1 H2).
    destruct (guard _); reflexivity.
  Qed.

  (** *** rejection *)
  Lemma solve_rejects a b : length a <> length b * length b -> solve a b = None.
  Proof.
    intros H. unfold Solve.solve. destruct (Nat.eqb_spec (length a) (length b * length b)); [contradiction|].
    reflexivity.
  Qed.

  Lemma solve_sys_rejects_nonsquare a b : is_square (length a) = None -> solve_sys a b = None.
  Proof. intros H. unfold Solve.solve_sys. rewrite H. reflexivity. Qed.

  Lemma solve_sys_rejects_rhs a b n :
    is_square (length a) = Some n -> n = 0 \/ length b mod n <> 0 -> solve_sys a b = None.
  Proof.
    intros Hs H. unfold Solve.solve_sys. rewrite Hs. cbn [bind]. rewrite is_matrix_mod.
    destruct n as [|n]; [reflexivity|]. destruct H as [H|H]; [discriminate|].
    change (0 <? S n) with true. cbn [andb].
    destruct (Nat.eqb_spec (length b mod S n) 0); [contradiction|reflexivity].
  Qed.

  Lemma invert_rejects_nonsquare a : is_square (length a) = None -> invert_matrix a = None.
  Proof. intros H. unfold Solve.invert_matrix. rewrite H. reflexivity. Qed.

  Lemma msolve_vec_rejects (m : matrix (T:=T)) b :
    nr m <> nc m \/ nr m <> length b -> msolve_vec m b = None.
  Proof.
    intros H. unfold Solve.msolve_vec.
    destruct (well_formed m); cbn [andb guard bind]; auto.
    destruct (Nat.eqb_spec (nr m) (nc m)) as [E|E]; cbn [guard bind]; auto.
    destruct H as [H|H]; [contradiction|].
    destruct (lu (dat m)) as [[l piv]|]; cbn [bind]; auto.
    destruct (Nat.eqb_spec (nr m) (length b)); [contradiction|reflexivity].
  Qed.

  Lemma msolve_mat_rejects (m s : matrix (T:=T)) :
    nr m <> nc m \/ nr m <> nr s -> msolve_mat m s = None.
  Proof.
    intros H. unfold Solve.msolve_mat.
    destruct (well_formed m); cbn [andb guard bind]; auto.
    destruct (Nat.eqb_spec (nr m) (nc m)) as [E|E]; cbn [guard bind]; auto.
    destruct H as [H|H]; [contradiction|].
    destruct (well_formed s); cbn [guard bind]; auto.
    destruct (lu (dat m)) as [[l piv]|]; cbn [bind]; auto.
    destruct (Nat.eqb_spec (nr m) (nr s)); [contradiction|reflexivity].
  Qed.

  Lemma minv_rejects (m : matrix (T:=T)) : nr m <> nc m -> minv m = None.
  Proof.
    intros H. unfold Solve.minv.
    destruct (well_formed m); cbn [andb guard bind]; auto.
    destruct (Nat.eqb_spec (nr m) (nc m)); [contradiction|reflexivity].
  Qed.

  (** *** the layout theorem of [solve_sys]: every column of the row-major result is what the
      per-column solver returns on the corresponding column of the row-major right-hand side *)
  Lemma solve_columns_ok f bc n k (xs : nat -> list T) :
    (forall j, j < k -> f (row_of bc n j) = Some (xs j) /\ length (xs j) = n) ->
    solve_columns f bc n k = Some (concat (map xs (seq 0 k))).
  Proof.
    intros H. unfold solve_columns.
    rewrite (fold_columns _ xs k 0 []); [reflexivity|].
    intros j s Hj. cbn [bind]. destruct (H j ltac:(lia)) as [E L]. rewrite E. cbn [bind].
    rewrite L, Nat.eqb_refl. reflexivity.
  Qed.

  Theorem solve_sys_layout a b n k f :
    is_square (length a) = Some n -> 0 < n -> length b = n * k -> factor a = Some f ->
    (forall j, j < k -> exists x, f (colk z b n k j) = Some x /\ length x = n) ->
    exists X, solve_sys a b = Some X /\ length X = n * k /\
              forall j, j < k -> f (colk z b n k j) = Some (colk z X n k j).
  Proof.
    intros Hs Hn Hb Hf Hcols.
    unfold Solve.solve_sys. rewrite Hs. cbn [bind].
    rewrite Hb, is_matrix_mul by auto. cbn [bind].
    destruct (row_to_col_major_spec b n k Hn Hb) as (bc & Hbc & Hbcl & Hrows). rewrite Hbc. cbn [bind].
    rewrite Hf. cbn [bind].
    set (xs := fun j => match f (colk z b n k j) with Some x => x | None => [] end).
    assert (Hxs : forall j, j < k -> f (row_of bc n j) = Some (xs j) /\ length (xs j) = n).
    { intros j Hj. rewrite (Hrows j Hj). unfold xs. destruct (Hcols j Hj) as (x & E & L). rewrite E. auto. }
    rewrite (solve_columns_ok f bc n k xs Hxs). cbn [bind].
    assert (Hlen : forall j, j < k -> length (xs j) = n) by (intros j Hj; apply Hxs; auto).
    destruct (col_to_row_major_spec (concat (map xs (seq 0 k))) n k Hn (concat_blocks_length xs n k Hlen))
      as (X & HX & HXl & HXe).
    exists X. split; [exact HX|]. split; [exact HXl|].
    intros j Hj. destruct (Hxs j Hj) as [E L]. rewrite <- (Hrows j Hj), E. f_equal.
    apply (list_eq_nth z _ _ n); auto using colk_length.
    intros i Hi. rewrite nth_colk by auto. rewrite HXe by auto.
    rewrite (nth_concat_blocks xs n k j i z Hlen Hj Hi). reflexivity.
  Qed.

  (** a column on which the solver panics makes [solve_sys] panic *)
  Lemma solve_sys_column_panics a b n k f j0 :
    is_square (length a) = Some n -> 0 < n -> length b = n * k -> factor a = Some f ->
    j0 < k -> f (colk z b n k j0) = None -> solve_sys a b = None.
  Proof.
    intros Hs Hn Hb Hf Hj0 Hnone.
    unfold Solve.solve_sys. rewrite Hs. cbn [bind].
    rewrite Hb, is_matrix_mul by auto. cbn [bind].
    destruct (row_to_col_major_spec b n k Hn Hb) as (bc & Hbc & Hbcl & Hrows). rewrite Hbc. cbn [bind].
    rewrite Hf. cbn [bind].
    replace (solve_columns f bc n k) with (@None (list T)); [reflexivity|].
    unfold solve_columns. symmetry.
    replace k with (j0 + S (k - S j0)) by lia. rewrite seq_app, fold_left_app. cbn [seq fold_left Nat.add].
    destruct (fold_left _ (seq 0 j0) (Some [])) as [s|]; cbn [bind].
    - rewrite (Hrows j0 Hj0), Hnone. cbn [bind]. apply fold_columns_none. reflexivity.
    - apply fold_columns_none. reflexivity.
  Qed.

  (** ... and so does a column on which it returns a vector of the wrong length ([assert_eq!(sol.len(), n)]) *)
  Lemma solve_sys_column_badlen a b n k f j0 x :
    is_square (length a) = Some n -> 0 < n -> length b = n * k -> factor a = Some f ->
    j0 < k -> f (colk z b n k j0) = Some x -> length x <> n -> solve_sys a b = None.
  Proof.
    intros Hs Hn Hb Hf Hj0 Hsome Hlen.
    unfold Solve.solve_sys. rewrite Hs. cbn [bind].
    rewrite Hb, is_matrix_mul by auto. cbn [bind].
    destruct (row_to_col_major_spec b n k Hn Hb) as (bc & Hbc & Hbcl & Hrows). rewrite Hbc. cbn [bind].
    rewrite Hf. cbn [bind].
    replace (solve_columns f bc n k) with (@None (list T)); [reflexivity|].
    unfold solve_columns. symmetry.
    replace k with (j0 + S (k - S j0)) by lia. rewrite seq_app, fold_left_app. cbn [seq fold_left Nat.add].
    destruct (fold_left _ (seq 0 j0) (Some [])) as [s|]; cbn [bind].
    - rewrite (Hrows j0 Hj0), Hsome. cbn [bind].
      destruct (Nat.eqb_spec (length x) n); [contradiction|]. cbn [guard bind].
      apply fold_columns_none. reflexivity.
    - apply fold_columns_none. reflexivity.
  Qed.

  (** the multi-right-hand-side solver IS the single-right-hand-side solver, column by column, for every
      carrier (hence bit for bit on binary64): whenever [solve_sys] returns, column j of its result is
      what [solve] returns on column j of the right-hand side *)
  Theorem solve_sys_is_solve_per_column a b n k X :
    is_square (length a) = Some n -> 0 < n -> length b = n * k ->
    solve_sys a b = Some X ->
    length X = n * k /\ forall j, j < k -> solve a (colk z b n k j) = Some (colk z X n k j).
  Proof.
    intros Hs Hn Hb HX.
    destruct (factor a) as [f|] eqn:Hf.
    2:{ exfalso. unfold Solve.solve_sys in HX. rewrite Hs in HX. cbn [bind] in HX.
        rewrite Hb, is_matrix_mul in HX by auto. cbn [bind] in HX.
        destruct (row_to_col_major O b n); cbn [bind] in HX; [|discriminate].
        rewrite Hf in HX. discriminate. }
    assert (Hcols : forall j, j < k -> exists x, f (colk z b n k j) = Some x /\ length x = n).
    { intros j Hj. destruct (f (colk z b n k j)) as [x|] eqn:E.
      - destruct (Nat.eq_dec (length x) n) as [L|L]; [eauto|].
        rewrite (solve_sys_column_badlen a b n k f j x Hs Hn Hb Hf Hj E L) in HX. discriminate.
      - rewrite (solve_sys_column_panics a b n k f j Hs Hn Hb Hf Hj E) in HX. discriminate. }
    destruct (solve_sys_layout a b n k f Hs Hn Hb Hf Hcols) as (X' & HX' & HXl & Hc).
    rewrite HX in HX'. inversion HX'; subst X'. split; [exact HXl|].
    intros j Hj. unfold Solve.solve. rewrite colk_length.
    rewrite <- (C11_Subst.is_square_some _ _ Hs), Nat.eqb_refl. cbn [guard bind].
    rewrite Hf. cbn [bind]. apply Hc; auto.
  Qed.

  (** [invert_matrix] is [solve_sys] against the identity *)
  Theorem invert_layout a n f :
    is_square (length a) = Some n -> 0 < n -> factor a = Some f ->
    (forall j, j < n -> exists x, f (colk z (eye O n) n n j) = Some x /\ length x = n) ->
    exists X, invert_matrix a = Some X /\ length X = n * n /\
              forall j, j < n -> f (colk z (eye O n) n n j) = Some (colk z X n n j).
  Proof.
    intros Hs Hn Hf Hcols. unfold Solve.invert_matrix. rewrite Hs. cbn [bind].
    apply (solve_sys_layout a (eye O n) n n f); auto. apply eye_length.
  Qed.

  (** column j of the inverse is [solve] against the j-th unit vector *)
  Theorem invert_is_solve_per_column a n X :
    is_square (length a) = Some n -> 0 < n -> invert_matrix a = Some X ->
    length X = n * n /\ forall j, j < n -> solve a (colk z (eye O n) n n j) = Some (colk z X n n j).
  Proof.
    intros Hs Hn HX. unfold Solve.invert_matrix in HX. rewrite Hs in HX. cbn [bind] in HX.
    apply (solve_sys_is_solve_per_column a (eye O n) n n X Hs Hn (eye_length n) HX).
  Qed.

  (** *** [Matrix] forms *)
  Lemma col_of_mrows (s : matrix (T:=T)) j :
    j < nc s -> col_of z (mrows s) j = colk z (dat s) (nr s) (nc s) j.
  Proof.
    intros Hj. unfold col_of, mrows, unflatten, colk. rewrite map_map.
    apply map_ext. intros i. apply nth_row_of. exact Hj.
  Qed.

  Theorem msolve_mat_layout (m s : matrix (T:=T)) n k l piv :
    well_formed m = true -> nr m = n -> nc m = n ->
    well_formed s = true -> nr s = n -> nc s = k ->
    lu (dat m) = Some (l, piv) ->
    (forall j, j < k -> exists x, lu_solve l piv (colk z (dat s) n k j) = Some x /\ length x = n) ->
    exists r, msolve_mat m s = Some r /\ nr r = n /\ nc r = k /\ length (dat r) = n * k /\
              forall j, j < k -> lu_solve l piv (colk z (dat s) n k j) = Some (colk z (dat r) n k j).
  Proof.
    intros Hwm Hrm Hcm Hws Hrs Hcs Hlu Hcols.
    unfold Solve.msolve_mat. rewrite Hwm, Hrm, Hcm, Nat.eqb_refl. cbn [andb guard bind].
    rewrite Hws. cbn [guard bind]. rewrite Hlu. cbn [bind]. rewrite Hrs, Nat.eqb_refl. cbn [guard bind].
    rewrite Hcs.
    assert (Hpos : 0 < n /\ 0 < k).
    { unfold well_formed in Hws. rewrite Hrs, Hcs in Hws.
      destruct (Nat.ltb_spec 0 n), (Nat.ltb_spec 0 k); cbn [andb] in Hws; try discriminate; auto. }
    destruct Hpos as [Hn Hk].
    set (xs := fun j => match lu_solve l piv (colk z (dat s) n k j) with Some x => x | None => [] end).
    assert (Hxs : forall j, j < k -> lu_solve l piv (col_of z (mrows s) j) = Some (xs j) /\ length (xs j) = n).
    { intros j Hj. rewrite col_of_mrows by lia. rewrite Hrs, Hcs. unfold xs.
      destruct (Hcols j Hj) as (x & E & L). rewrite E. auto. }
    rewrite (fold_columns _ xs k 0 []).
    2:{ intros j sol Hj. cbn [bind]. destruct (Hxs j ltac:(lia)) as [E _]. rewrite E. reflexivity. }
    cbn [app bind].
    assert (Hlen : forall j, j < k -> length (xs j) = n) by (intros j Hj; apply Hxs; auto).
    pose proof (concat_blocks_length xs n k Hlen) as Hcl.
    unfold matrix_new. rewrite Hcl, Nat.eqb_refl.
    destruct (Nat.ltb_spec 0 k); [|lia]. destruct (Nat.ltb_spec 0 n); [|lia]. cbn [andb guard bind].
    unfold t_mut. cbn [dat nr nc].
    destruct (transpose_spec O (concat (map xs (seq 0 k))) k n Hk Hcl) as (t & Ht & Htl & Hte).
    rewrite Ht. cbn [bind].
    eexists. split; [reflexivity|]. cbn [nr nc dat]. repeat split; auto.
    intros j Hj. destruct (Hxs j Hj) as [E L].
    rewrite col_of_mrows in E by lia. rewrite Hrs, Hcs in E. rewrite E. f_equal.
    apply (list_eq_nth z _ _ n); auto using colk_length.
    intros i Hi. rewrite nth_colk by auto. rewrite Hte by auto.
    rewrite (nth_concat_blocks xs n k j i z Hlen Hj Hi). reflexivity.
  Qed.

  Theorem minv_layout (m : matrix (T:=T)) n l piv :
    well_formed m = true -> nr m = n -> nc m = n -> lu (dat m) = Some (l, piv) ->
    (forall j, j < n -> exists x, lu_solve l piv (colk z (eye O n) n n j) = Some x /\ length x = n) ->
    exists r, minv m = Some r /\ nr r = n /\ nc r = n /\ length (dat r) = n * n /\
              forall j, j < n -> lu_solve l piv (colk z (eye O n) n n j) = Some (colk z (dat r) n n j).
  Proof.
    intros Hwm Hrm Hcm Hlu Hcols. unfold Solve.minv.
    rewrite Hwm, Hrm, Hcm, Nat.eqb_refl. cbn [andb guard bind].
    assert (Hn : 0 < n).
    { unfold well_formed in Hwm. rewrite Hrm in Hwm. destruct (Nat.ltb_spec 0 n); auto. discriminate. }
    apply (msolve_mat_layout m {| nr := n; nc := n; dat := eye O n |} n n l piv); auto.
    unfold well_formed. cbn [nr nc dat]. rewrite eye_length, Nat.eqb_refl.
    destruct (Nat.ltb_spec 0 n); [reflexivity|lia].
  Qed.

  Lemma msolve_vec_unfold (m : matrix (T:=T)) b n l piv :
    well_formed m = true -> nr m = n -> nc m = n -> length b = n -> lu (dat m) = Some (l, piv) ->
    msolve_vec m b = lu_solve l piv b.
  Proof.
    intros Hwm Hrm Hcm Hb Hlu. unfold Solve.msolve_vec.
    rewrite Hwm, Hrm, Hcm, Nat.eqb_refl. cbn [andb guard bind]. rewrite Hlu. cbn [bind].
    rewrite Hb, Nat.eqb_refl. reflexivity.
  Qed.
End Layout.
