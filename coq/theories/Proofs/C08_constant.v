(** * C08 on binary64: statistics of constant data are exact.
    For a finite constant c repeated n times (1 <= n < 2^63) the Welford loop on IEEE-754 binary64 keeps
    M2 = +0 bit for bit and a mean numerically equal to c, so var = std = +0 (and sample_var = sample_std = +0
    for n >= 2): no rounding noise on the "constant" data class, whatever the magnitude of c.
    Proved through Flocq's semantics of the primitive floats (signed zeros followed exactly). *)
From Coq Require Import List Arith ZArith Reals Lra Lia Bool Floats Uint63.
From Flocq Require Import Core IEEE754.BinarySingleNaN IEEE754.PrimFloat.
From Compute Require Import Base.Ops Base.ListMat Model.Reduce Model.Stats.
Import ListNotations.
Local Existing Instance Hprec.
Local Existing Instance Hmax.
Local Open Scope R_scope.
Notation B64 := (binary_float prec emax).
Notation rnd := (round radix2 (fexp prec emax) (round_mode mode_NE)).

Definition isz (x : B64) : Prop := exists s, x = B754_zero s.
Definition num_eq (x y : B64) : Prop := is_finite x = true /\ is_finite y = true /\ B2R x = B2R y.

Lemma finite_B2R0_isz : forall x : B64, is_finite x = true -> B2R x = 0 -> isz x.
Proof.
  intros [s|s| |s m e H] F E; try discriminate; [exists s; reflexivity|].
  cbn [B2R] in E. apply eq_0_F2R in E. destruct s; discriminate.
Qed.

Lemma lt_emax_0 : Rlt_bool (Rabs (rnd 0)) (bpow radix2 emax) = true.
Proof. rewrite round_0 by apply valid_rnd_N. rewrite Rabs_R0. apply Rlt_bool_true, bpow_gt_0. Qed.

Lemma Bminus_num_eq : forall x y : B64, num_eq x y -> isz (Bminus mode_NE x y).
Proof.
  intros x y (Fx & Fy & E).
  pose proof (Bminus_correct prec emax Hprec Hmax mode_NE x y Fx Fy) as H.
  replace (B2R x - B2R y) with 0 in H by lra. rewrite lt_emax_0 in H.
  destruct H as (H1 & H2 & _). rewrite round_0 in H1 by apply valid_rnd_N.
  apply finite_B2R0_isz; assumption.
Qed.

Lemma num_eq_sym : forall x y, num_eq x y -> num_eq y x.
Proof. intros x y (A & B & C). repeat split; auto. Qed.
Lemma num_eq_trans : forall x y z, num_eq x y -> num_eq y z -> num_eq x z.
Proof. intros x y z (A & B & C) (D & E & F). repeat split; auto. congruence. Qed.

Lemma Bdiv_zero_pos : forall s m e H, Bdiv mode_NE (B754_zero s) (B754_finite false m e H : B64) = B754_zero s.
Proof. intros [|] m e H; reflexivity. Qed.

Lemma Bplus_fin_zero : forall m z : B64, is_finite m = true -> isz z -> num_eq (Bplus mode_NE m z) m.
Proof.
  intros [s|s| |s m e H] z F [sz ->]; try discriminate.
  - destruct s, sz; cbn; repeat split; reflexivity.
  - cbn. repeat split; reflexivity.
Qed.
Lemma Bplus_zero_fin : forall m : B64, is_finite m = true -> num_eq (Bplus mode_NE (B754_zero false) m) m.
Proof.
  intros [s|s| |s m e H] F; try discriminate.
  - destruct s; cbn; repeat split; reflexivity.
  - cbn. repeat split; reflexivity.
Qed.
Lemma Bmult_fin_zero : forall a b : B64, is_finite a = true -> isz b -> isz (Bmult mode_NE a b).
Proof. intros [s|s| |s m e H] b F [sb ->]; try discriminate; cbn; eexists; reflexivity. Qed.
Lemma Bplus_pz : forall z : B64, isz z -> Bplus mode_NE (B754_zero false) z = B754_zero false.
Proof. intros z [[|] ->]; reflexivity. Qed.
Lemma Bminus_fin_pz : forall c : B64, is_finite c = true -> num_eq (Bminus mode_NE c (B754_zero false)) c.
Proof.
  intros [s|s| |s m e H] F; try discriminate.
  - destruct s; cbn; repeat split; reflexivity.
  - cbn. repeat split; reflexivity.
Qed.

Lemma Bdiv_one : forall x : B64, is_finite x = true -> num_eq (Bdiv mode_NE x Bone) x.
Proof.
  intros x F.
  assert (H1 : B2R (Bone : B64) <> 0) by (rewrite Bone_correct; lra).
  pose proof (Bdiv_correct prec emax Hprec Hmax mode_NE x Bone H1) as H.
  rewrite Bone_correct in H. replace (B2R x / 1) with (B2R x) in H by field.
  rewrite round_generic in H by (try apply valid_rnd_N; apply generic_format_B2R).
  rewrite Rlt_bool_true in H by apply abs_B2R_lt_emax.
  destruct H as (A & Bf & _). repeat split; auto. congruence.
Qed.

Definition pos_fin (x : B64) : Prop := exists m e H, x = B754_finite false m e H.

Lemma float_ofZ_pos : forall p, (Zpos p < 2 ^ 63)%Z -> pos_fin (Prim2B (float_ofZ (Zpos p))).
Proof.
  intros p Hp. cbn [float_ofZ]. rewrite of_int63_equiv.
  assert (Ez : Uint63.to_Z (Uint63.of_Z (Zpos p)) = Zpos p).
  { rewrite Uint63.of_Z_spec. apply Z.mod_small. unfold wB, size. split; [lia|exact Hp]. }
  rewrite Ez.
  pose proof (binary_normalize_correct prec emax Hprec Hmax mode_NE (Zpos p) 0 false) as H.
  cbv zeta in H.
  set (z := binary_normalize prec emax Hprec Hmax mode_NE (Zpos p) 0 false) in *.
  assert (Ex : F2R (Float radix2 (Zpos p) 0) = IZR (Zpos p)).
  { unfold F2R. cbn [Fnum Fexp bpow]. lra. }
  rewrite Ex in H.
  assert (X1 : 1 <= IZR (Zpos p)) by (apply IZR_le; lia).
  assert (X2 : IZR (Zpos p) <= bpow radix2 63).
  { change (bpow radix2 63) with (IZR (2 ^ 63)). apply IZR_le. lia. }
  assert (G1 : generic_format radix2 (fexp prec emax) 1).
  { change 1 with (bpow radix2 0). apply generic_format_bpow. unfold fexp, emin, prec, emax. lia. }
  assert (G63 : generic_format radix2 (fexp prec emax) (bpow radix2 63)).
  { apply generic_format_bpow. unfold fexp, emin, prec, emax. lia. }
  assert (R1 : 1 <= rnd (IZR (Zpos p))) by (apply round_ge_generic; auto; try apply valid_rnd_N; typeclasses eauto).
  assert (R2 : Rabs (rnd (IZR (Zpos p))) <= bpow radix2 63).
  { apply abs_round_le_generic; auto; try apply valid_rnd_N; try typeclasses eauto. rewrite Rabs_pos_eq by lra. exact X2. }
  rewrite Rlt_bool_true in H.
  2:{ eapply Rle_lt_trans; [exact R2|]. apply bpow_lt. unfold emax. lia. }
  destruct H as (HR & HF & HS).
  rewrite Rcompare_Gt in HS by lra.
  destruct z as [s|s| |s m e Hb]; try discriminate.
  - cbn [B2R] in HR. lra.
  - cbn [Bsign] in HS. subst s. exists m, e, Hb. reflexivity.
Qed.

Local Close Scope R_scope.
Lemma Prim2B_zero : Prim2B 0%float = B754_zero false.
Proof. change 0%float with PrimFloat.zero. rewrite zero_equiv. apply Prim2B_B2Prim. Qed.
Lemma Prim2B_one : Prim2B 1%float = Bone.
Proof. change 1%float with PrimFloat.one. rewrite one_equiv. apply Prim2B_B2Prim. Qed.

Definition Inv (c : PrimFloat.float) (a : nat * PrimFloat.float * PrimFloat.float) : Prop :=
  num_eq (Prim2B (snd (fst a))) (Prim2B c) /\ Prim2B (snd a) = B754_zero false.

Lemma isz_finite : forall z, isz z -> is_finite z = true.
Proof. intros z [s ->]. reflexivity. Qed.

Lemma step_next : forall tbl c k mean m2, is_finite (Prim2B c) = true -> (Z.of_nat (S k) < 2 ^ 63)%Z ->
  Inv c (k, mean, m2) -> Inv c (welford_update (FO tbl) (k, mean, m2) c).
Proof.
  intros tbl c k mean m2 Fc Hk [Hm H2]. cbn [fst snd] in *.
  unfold welford_update, Inv, ofN. cbn [fst snd sub add mul div ofZ FO].
  destruct (float_ofZ_pos (Pos.of_succ_nat k)) as (km & ke & kH & Ek).
  { rewrite Zpos_P_of_succ_nat, <- Nat2Z.inj_succ. exact Hk. }
  change (Z.of_nat (S k)) with (Zpos (Pos.of_succ_nat k)).
  set (kf := float_ofZ (Zpos (Pos.of_succ_nat k))) in *.
  set (d := PrimFloat.sub c mean).
  assert (Hd : isz (Prim2B d)) by (unfold d; rewrite sub_equiv; apply Bminus_num_eq, num_eq_sym, Hm).
  set (q := PrimFloat.div d kf).
  assert (Hq : isz (Prim2B q)).
  { unfold q. rewrite div_equiv, Ek. destruct Hd as [s ->]. rewrite Bdiv_zero_pos. eexists; reflexivity. }
  set (mean' := PrimFloat.add mean q).
  assert (Hm' : num_eq (Prim2B mean') (Prim2B c)).
  { unfold mean'. rewrite add_equiv. eapply num_eq_trans; [|exact Hm]. apply Bplus_fin_zero; [apply Hm|exact Hq]. }
  set (d2 := PrimFloat.sub c mean').
  assert (Hd2 : isz (Prim2B d2)) by (unfold d2; rewrite sub_equiv; apply Bminus_num_eq, num_eq_sym, Hm').
  split; [exact Hm'|].
  rewrite add_equiv, mul_equiv, H2. apply Bplus_pz. apply Bmult_fin_zero; [apply isz_finite, Hd|exact Hd2].
Qed.

Lemma step_first : forall tbl c, is_finite (Prim2B c) = true ->
  Inv c (welford_update (FO tbl) (0%nat, 0%float, 0%float) c).
Proof.
  intros tbl c Fc. unfold welford_update, Inv, ofN. cbn [fst snd sub add mul div ofZ FO].
  change (float_ofZ (Z.of_nat 1)) with 1%float.
  set (d := PrimFloat.sub c 0).
  assert (Hd : num_eq (Prim2B d) (Prim2B c)) by (unfold d; rewrite sub_equiv, Prim2B_zero; apply Bminus_fin_pz, Fc).
  set (q := PrimFloat.div d 1).
  assert (Hq : num_eq (Prim2B q) (Prim2B c)).
  { unfold q. rewrite div_equiv, Prim2B_one. eapply num_eq_trans; [|exact Hd]. apply Bdiv_one, Hd. }
  set (mean' := PrimFloat.add 0 q).
  assert (Hm' : num_eq (Prim2B mean') (Prim2B c)).
  { unfold mean'. rewrite add_equiv, Prim2B_zero. eapply num_eq_trans; [|exact Hq]. apply Bplus_zero_fin, Hq. }
  set (d2 := PrimFloat.sub c mean').
  assert (Hd2 : isz (Prim2B d2)) by (unfold d2; rewrite sub_equiv; apply Bminus_num_eq, num_eq_sym, Hm').
  split; [exact Hm'|].
  rewrite add_equiv, mul_equiv, Prim2B_zero. apply Bplus_pz. apply Bmult_fin_zero; [apply Hd|exact Hd2].
Qed.

Lemma welford_count : forall {T} (O : Ops T) a x, fst (fst (welford_update O a x)) = S (fst (fst a)).
Proof. intros T O [[k m] m2] x. reflexivity. Qed.

Lemma fold_const : forall tbl c, is_finite (Prim2B c) = true ->
  forall m a, Inv c a -> (Z.of_nat (fst (fst a) + m) < 2 ^ 63)%Z ->
    let a' := fold_left (welford_update (FO tbl)) (repeat c m) a in
    fst (fst a') = (fst (fst a) + m)%nat /\ Inv c a'.
Proof.
  intros tbl c Fc. induction m as [|m IH]; intros a Ha Hb.
  - cbn. split; [lia|exact Ha].
  - cbn [repeat fold_left].
    assert (Hs : Inv c (welford_update (FO tbl) a c)).
    { destruct a as [[k mean] m2]. apply step_next; auto. cbn [fst] in Hb. lia. }
    destruct (IH _ Hs) as [E1 E2].
    { rewrite welford_count. replace (S (fst (fst a)) + m)%nat with (fst (fst a) + S m)%nat by lia. exact Hb. }
    split; [|exact E2]. rewrite E1, welford_count. lia.
Qed.

Theorem constant_data_state : forall tbl c n, PrimFloat.is_finite c = true -> (1 <= n)%nat -> (Z.of_nat n < 2 ^ 63)%Z ->
  exists m, welford_statistics (FO tbl) (repeat c n) = (n, m, 0%float) /\ PrimFloat.eqb m c = true.
Proof.
  intros tbl c n Fc Hn Hb. rewrite is_finite_equiv in Fc.
  destruct n as [|n]; [lia|]. unfold welford_statistics. cbn [repeat fold_left zero FO].
  pose proof (step_first tbl c Fc) as H1.
  destruct (fold_const tbl c Fc n _ H1) as [E1 [E2 E3]].
  { rewrite welford_count. cbn [fst]. exact Hb. }
  rewrite welford_count in E1. cbn [fst] in E1.
  destruct (fold_left (welford_update (FO tbl)) (repeat c n) (welford_update (FO tbl) (0%nat, 0%float, 0%float) c)) as [[k m] m2].
  cbn [fst snd] in *. exists m. split.
  - f_equal; [f_equal; lia|]. apply Prim2B_inj. rewrite E3, Prim2B_zero. reflexivity.
  - rewrite eqb_equiv. destruct E2 as (A & Bc & C). rewrite Beqb_correct by assumption. apply Req_bool_true. exact C.
Qed.

Lemma div_zero_pos : forall p, (Zpos p < 2 ^ 63)%Z -> PrimFloat.div 0 (float_ofZ (Zpos p)) = 0%float.
Proof.
  intros p Hp. apply Prim2B_inj. rewrite div_equiv, Prim2B_zero.
  destruct (float_ofZ_pos p Hp) as (m & e & H & ->). apply Bdiv_zero_pos.
Qed.

Theorem constant_data_binary64 : forall tbl c n,
  PrimFloat.is_finite c = true -> (1 <= n)%nat -> (Z.of_nat n < 2 ^ 63)%Z ->
  var (FO tbl) (repeat c n) = 0%float /\ std (FO tbl) (repeat c n) = 0%float /\
  PrimFloat.eqb (welford_mean (FO tbl) (repeat c n)) c = true /\
  ((2 <= n)%nat -> sample_var (FO tbl) (repeat c n) = 0%float /\ sample_std (FO tbl) (repeat c n) = 0%float).
Proof.
  intros tbl c n Fc Hn Hb. destruct (constant_data_state tbl c n Fc Hn Hb) as (m & E & Em).
  assert (Ev : var (FO tbl) (repeat c n) = 0%float).
  { unfold var. rewrite E. unfold ofN. cbn [div ofZ FO]. destruct n as [|n]; [lia|].
    change (Z.of_nat (S n)) with (Zpos (Pos.of_succ_nat n)). apply div_zero_pos.
    rewrite Zpos_P_of_succ_nat, <- Nat2Z.inj_succ. exact Hb. }
  split; [exact Ev|]. split; [unfold std; rewrite Ev; reflexivity|].
  split; [unfold welford_mean; rewrite E; exact Em|].
  intros H2.
  assert (Es : sample_var (FO tbl) (repeat c n) = 0%float).
  { unfold sample_var. rewrite E. cbn [div ofZ FO]. destruct n as [|[|n]]; try lia.
    cbn [usize_pred]. change (Z.of_nat (S n)) with (Zpos (Pos.of_succ_nat n)). apply div_zero_pos.
    rewrite Zpos_P_of_succ_nat, <- Nat2Z.inj_succ. lia. }
  split; [exact Es|]. unfold sample_std. rewrite Es. reflexivity.
Qed.
