(** * C19 — the binary64 index path of the implementation (`i64 as f64 as usize`) equals the integer
    path for every index below 2^53 (Flocq's specification of the primitive floats). *)
From Coq Require Import ZArith NArith Reals Floats Lia Lra Uint63 List.
From Flocq Require Import Core.Raux Core.Defs Core.Generic_fmt Core.FLT Core.Float_prop Core.Zaux
     IEEE754.BinarySingleNaN IEEE754.PrimFloat.
From Compute Require Import Base.Ops Base.Rng Model.Resample Proofs.C19Rng.

(** `(z as f64) as i64 = z` for 0 <= z < 2^53 on the [FO] carrier *)
Lemma float_truncZ_ofZ z : (0 <= z < 2 ^ 53)%Z -> float_truncZ (float_ofZ z) = z.
Proof.
  intros Hz. destruct z as [|p|p]; [vm_compute; reflexivity| |lia].
  unfold float_ofZ, float_truncZ.
  rewrite <- B2SF_Prim2B.
  rewrite of_int63_equiv.
  assert (Hp : to_Z (of_Z (Zpos p)) = Zpos p).
  { rewrite of_Z_spec. apply Z.mod_small. change wB with (2 ^ 63)%Z. lia. }
  rewrite Hp.
  pose proof (binary_normalize_correct prec emax Hprec Hmax mode_NE (Zpos p) 0 false) as C.
  cbv zeta in C.
  assert (X : F2R (Float radix2 (Zpos p) 0) = IZR (Zpos p)).
  { unfold F2R. cbn. lra. }
  rewrite X in C.
  assert (G : generic_format radix2 (FLT_exp (3 - emax - prec) prec) (IZR (Zpos p))).
  { apply generic_format_FLT. exists (Float radix2 (Zpos p) 0).
    - now rewrite X.
    - cbn [Fnum]. change (Zpower radix2 prec) with (2 ^ 53)%Z. lia.
    - cbn. lia. }
  rewrite round_generic in C; [|apply valid_rnd_N|exact G].
  rewrite Rlt_bool_true in C.
  2:{ rewrite Rabs_pos_eq by (apply IZR_le; lia).
      apply Rlt_trans with (IZR (2 ^ 53)); [apply IZR_lt; lia|].
      change (bpow radix2 emax) with (IZR (2 ^ 1024)). apply IZR_lt. reflexivity. }
  destruct C as (BR & Fin & Sg).
  rewrite Rcompare_Gt in Sg by (apply IZR_lt; lia).
  destruct (binary_normalize prec emax Hprec Hmax mode_NE (Zpos p) 0 false) as [s|s| |s m e Hb];
    cbn in BR, Fin, Sg; try discriminate.
  - exfalso. apply eq_IZR in BR. discriminate.
  - subst s. cbn [B2SF]. unfold F2R in BR. cbn [Fnum Fexp cond_Zopp] in BR.
    assert (E : (match e with
                 | 0 => Zpos m | Zpos k => Zpos m * 2 ^ Zpos k | Zneg k => Zpos m / 2 ^ Zpos k end = Zpos p)%Z).
    { destruct e as [|k|k].
      - cbn in BR. apply eq_IZR. lra.
      - cbn [bpow] in BR. rewrite <- mult_IZR in BR. apply eq_IZR in BR. exact BR.
      - cbn [bpow] in BR.
        assert (K : (0 < Z.pow_pos radix2 k)%Z) by (apply Zpower_pos_gt_0; reflexivity).
        assert (IZR (Zpos m) = IZR (Zpos p * Z.pow_pos radix2 k)).
        { rewrite mult_IZR, <- BR. field. apply IZR_neq. lia. }
        apply eq_IZR in H. change (2 ^ Zpos k)%Z with (Z.pow_pos 2 k).
        change (Z.pow_pos radix2 k) with (Z.pow_pos 2 k) in *.
        rewrite H. apply Z.div_mul. lia. }
    rewrite E. lia.
Qed.

Lemma as_usize_of_i64 z : (0 <= z < 2 ^ 53)%Z -> as_usize FO0 (of_i64 FO0 z) = Z.to_nat z.
Proof.
  intros Hz. unfold as_usize, of_i64.
  destruct (Z.eqb_spec z (-9223372036854775808)) as [E|_]; [lia|].
  cbn [truncZ ofZ FO0 FO]. now rewrite float_truncZ_ofZ.
Qed.

(** the index source the implementation uses = the integer index source, for every data length
    1 <= n <= 2^53, every state, every fuel *)
Lemma du_draw_float_eq fuel n s :
  (1 <= n)%nat -> (Z.of_nat n <= 2 ^ 53)%Z ->
  du_draw FO0 fuel (randomizer n) s = du_draw_Z fuel (randomizer n) s.
Proof.
  intros Hn Hb. unfold du_draw, du_draw_Z, du_sample, randomizer.
  destruct (du_sample_i64 fuel (0%Z, (Z.of_nat n - 1)%Z) s) as [[z s1]| |] eqn:E; cbn; try reflexivity.
  apply du_sample_i64_in_range in E; unfold is_i64, M64; try lia.
  rewrite as_usize_of_i64 by lia. reflexivity.
Qed.

Lemma du_draw_float_in_range fuel n s i s' :
  (1 <= n)%nat -> (Z.of_nat n <= 2 ^ 53)%Z ->
  du_draw FO0 fuel (randomizer n) s = Some (i, s') -> (i < n)%nat.
Proof.
  intros Hn Hb H. rewrite du_draw_float_eq in H by assumption.
  eapply du_draw_Z_in_range; eauto. lia.
Qed.

(** ** the public functions on the concrete generator never panic on non-empty input: the only way not
    to return is a rejection loop that never accepts (here: the fuel running out on some draw) *)
From Compute Require Import Proofs.C19.

Lemma good_source_of_in_range {St} (draw : St -> option (nat * St)) n :
  (forall s i s', draw s = Some (i, s') -> (i < n)%nat) ->
  good_source draw n (fun s => forall k, draws draw k s <> None).
Proof.
  intros R s I. pose proof (I 1%nat) as I1. cbn in I1.
  destruct (draw s) as [[i s1]|] eqn:E; [|cbn in I1; congruence].
  exists i, s1. repeat split; eauto.
  intros k H. apply (I (S k)). cbn. rewrite E. cbn. rewrite H. reflexivity.
Qed.

Section ConcreteAccepts.
  Variable fuel : nat.
  Definition never_exhausted (n : nat) (s : rng) : Prop :=
    forall k, draws (du_draw FO0 fuel (randomizer n)) k s <> None.

  Lemma good_concrete n : (1 <= n)%nat -> (Z.of_nat n <= 2 ^ 53)%Z ->
    good_source (du_draw FO0 fuel (randomizer n)) n (never_exhausted n).
  Proof. intros Hn Hb. apply good_source_of_in_range. intros s i s'. now apply du_draw_float_in_range. Qed.

  Lemma bootstrap_rng_accepts (data : list PrimFloat.float) nb s :
    data <> nil -> (Z.of_nat (length data) <= 2 ^ 53)%Z -> never_exhausted (length data) s ->
    exists out s', bootstrap_rng FO0 fuel data nb s = Some (out, s').
  Proof.
    intros Hne Hb I. unfold bootstrap_rng.
    destruct (bootstrap_accepts (du_draw FO0 fuel (randomizer (length data))) data
                (never_exhausted (length data)) nb s) as (out & s' & E & _); eauto.
    apply good_concrete; [|assumption]. destruct data; [congruence|cbn; lia].
  Qed.

  Lemma shuffle_rng_accepts (data : list PrimFloat.float) s :
    data <> nil -> (Z.of_nat (length data) <= 2 ^ 53)%Z -> never_exhausted (length data) s ->
    exists out s', shuffle_rng FO0 fuel data s = Some (out, s').
  Proof.
    intros Hne Hb I. unfold shuffle_rng.
    destruct (shuffle_accepts (du_draw FO0 fuel (randomizer (length data)))
                (never_exhausted (length data)) data s) as (out & s' & E & _); eauto.
    apply good_concrete; [|assumption]. destruct data; [congruence|cbn; lia].
  Qed.

  Lemma shuffle_two_rng_accepts (a b : list PrimFloat.float) s :
    a <> nil -> length a = length b -> (Z.of_nat (length a) <= 2 ^ 53)%Z -> never_exhausted (length a) s ->
    exists oa ob s', shuffle_two_rng FO0 fuel a b s = Some (oa, ob, s').
  Proof.
    intros Hne EL Hb I. unfold shuffle_two_rng.
    destruct (shuffle_two_accepts (du_draw FO0 fuel (randomizer (length a)))
                (never_exhausted (length a)) a b s) as (oa & ob & s' & E & _); eauto.
    apply good_concrete; [|assumption]. destruct a; [congruence|cbn; lia].
  Qed.
End ConcreteAccepts.
