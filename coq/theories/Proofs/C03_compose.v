(** C03 composed with C11 (and C01): the multivariate normal sampler END TO END.  [MVN::new] computes the factor
    used by [sample] with C11's model of [Matrix::cholesky] (Model/MVNNew.v, Model/MVNSample.v), and for EVERY
    symmetric positive definite covariance Sigma the constructor returns, the cached factor L is lower triangular with
    a positive diagonal and L L^T = Sigma (C11: [spd_cholesky], [chol_reconstructs], through Proofs/Compose_spd.v), and
    the draw is mu + L z for the vector z of standard normal draws made from the same generator state — hence the
    covariance L I L^T of the affine image of a unit-covariance vector is Sigma (stated as the matrix identity; the
    statement about measures itself is not formalised).  No hypothesis on an inner routine is left. *)
From Coq Require Import Reals List ZArith Lra Lia Bool Arith.
From Compute Require Import Base.Ops Base.ListMat Base.Rng Model.Reduce Model.MatMul Model.Subst Model.Cholesky Model.LU
  Model.Solve Model.SolveInst Model.Samplers Model.MVN Model.MVNNew Model.MVNSample Spec.MatMul Spec.Factor Spec.Solve
  Spec.Determinant Proofs.C05 Proofs.LinAlgBase Proofs.C11_SPD Proofs.Compose_spd Proofs.C02_compose.
From Compute Require Proofs.C03 Proofs.C03_mvn.
Import ListNotations.
Local Open Scope R_scope.

(** ** every carrier (what a returned object contains: [Proofs/C02_compose.v], [mvn_new_fields], [mvn_new_chol_shape]) *)
Section AnyCarrier.
  Context {T : Type} (O : Ops T).

  (** a rejected constructor is a failed draw *)
  Lemma mvn_sample_full_rejects {S : Type} (src : source S T) fuel (mean : list T) (c : matrix (T:=T)) n s :
    mvn_new O mean c = None ->
    mvn_sample_full O src fuel mean c s = Fail /\ mvn_sample_n_full O src fuel mean c n s = Fail.
  Proof. intros H. unfold mvn_sample_full, mvn_sample_n_full. rewrite H. split; reflexivity. Qed.
End AnyCarrier.

Lemma sumk_rsum f n : sumk RO f n = rsum f n.
Proof. unfold sumk. cbn [add zero RO]. apply fold_left_rsum. Qed.

(** ** the headline *)
Theorem mvn_sample_full_spd (S : Type) (src : source S R) (fuel n : nat) (cov mu : list R) :
  (0 < n)%nat -> length cov = (n * n)%nat -> length mu = n ->
  symmetric cov n -> positive_definite cov n ->
  exists L : list R,
    (length L = (n * n)%nat /\ lower_triangular L n /\ (forall i, (i < n)%nat -> 0 < getm L n i i) /\
     (forall i j, (i < n)%nat -> (j < n)%nat -> rsum (fun k => getm L n i k * getm L n j k) n = getm cov n i j) /\
     (forall i j, (i < n)%nat -> (j < n)%nat ->
        rsum (fun k => rsum (fun l => getm L n i k * delta k l * getm L n j l) n) n = getm cov n i j)) /\
    (forall s : S, mvn_sample_full RO src fuel mu (sqmat n cov) s = mvn_sample RO src fuel mu L s) /\
    (forall (k : nat) (s : S), mvn_sample_n_full RO src fuel mu (sqmat n cov) k s = mvn_sample_n RO src fuel mu L k s) /\
    (forall (s s' : S) (z : list R),
       sample_n RO src fuel (DNormal 0 1) n s = Ok (z, s') ->
       exists v, mvn_sample_full RO src fuel mu (sqmat n cov) s = Ok (v, s') /\ length v = n /\
         forall i, (i < n)%nat -> nth i v 0 = nth i mu 0 + rsum (fun k => getm L n i k * nth k z 0) n) /\
    (forall (s s' : S) (v : list R),
       mvn_sample_full RO src fuel mu (sqmat n cov) s = Ok (v, s') ->
       exists z, sample_n RO src fuel (DNormal 0 1) n s = Ok (z, s')).
Proof.
  intros Hn Hl Hm Hsym Hpd.
  destruct (mvn_new_spd n cov mu Hn Hl Hm Hsym Hpd) as (X & L & Hnew & _ & _ & HLl & HLt & HLd & HLr).
  exists L. split; [|split; [|split; [|split]]].
  - split; [exact HLl|split; [exact HLt|split; [exact HLd|split; [exact HLr|]]]].
    intros i j Hi Hj. rewrite <- (HLr i j Hi Hj). apply rsum_ext. intros k Hk.
    rewrite (rsum_single _ k n Hk).
    + unfold delta. rewrite Nat.eqb_refl. ring.
    + intros l Hlt Hlk. unfold delta. destruct (Nat.eqb_spec k l); [lia|ring].
  - intros s. unfold mvn_sample_full. rewrite Hnew. reflexivity.
  - intros k s. unfold mvn_sample_n_full. rewrite Hnew. reflexivity.
  - intros s s' z Hz. unfold mvn_sample_full. rewrite Hnew. unfold mvn_obj_sample. cbn [mvn_mean mvn_chol sqmat dat].
    rewrite <- Hm in Hz, HLl.
    destruct (Proofs.C03_mvn.mvn_sample_structure RO src fuel mu L s z s' ltac:(lia) HLl Hz) as (v & Hv & Hvl & Hve).
    exists v. split; [exact Hv|]. split; [lia|]. intros i Hi. rewrite Hve by lia. cbn [add mul zero RO].
    rewrite sumk_rsum, Hm. reflexivity.
  - intros s s' v Hv. unfold mvn_sample_full in Hv. rewrite Hnew in Hv. unfold mvn_obj_sample in Hv.
    cbn [mvn_mean mvn_chol sqmat dat] in Hv.
    destruct (Proofs.C03_mvn.mvn_sample_ok_inv RO src fuel mu L s v s' Hv) as [z Hz]. exists z. rewrite <- Hm. exact Hz.
Qed.

(** bulk draws: an n x dim matrix whose rows are such draws *)
Theorem mvn_sample_n_full_spd (S : Type) (src : source S R) (fuel n : nat) (cov mu : list R) (k : nat) (s s' : S) (m : matrix (T:=R)) :
  (0 < n)%nat -> length cov = (n * n)%nat -> length mu = n ->
  symmetric cov n -> positive_definite cov n ->
  mvn_sample_n_full RO src fuel mu (sqmat n cov) k s = Ok (m, s') ->
  nr m = k /\ nc m = n /\ length (dat m) = (k * n)%nat.
Proof.
  intros Hn Hl Hm Hsym Hpd H.
  destruct (mvn_new_spd n cov mu Hn Hl Hm Hsym Hpd) as (X & L & Hnew & _).
  unfold mvn_sample_n_full in H. rewrite Hnew in H. unfold mvn_obj_sample_n in H. cbn [mvn_mean mvn_chol sqmat dat] in H.
  pose proof (Proofs.C03_mvn.mvn_sample_n_shape RO src fuel mu L k s m s' H) as Hs. rewrite Hm in Hs. exact Hs.
Qed.

(** satisfiable: Sigma = [[2,1],[1,2]] *)
Example mvn_sample_example_cov : symmetric [2; 1; 1; 2] 2 /\ positive_definite [2; 1; 1; 2] 2.
Proof. exact example_cov_spd. Qed.
