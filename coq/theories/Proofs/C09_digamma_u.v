(** C09: the asymptotic branch of [digamma] satisfies psi(x+1) = psi(x) + 1/x to 1e-10 for EVERY real x >= 6.
    With u = 1/x the defect D(x) = asym(x+1) - asym(x) - 1/x is a function of u that is regular at u = 0,
        g(u) = ln(1+u) - u/(2(1+u)) + u/2 - u + Sigma_k (+-) c_k ((u/(1+u))^k - u^k)
    (terms from the regenerated table); [interval] with bisection and Taylor models bounds it on [0, 1/6] in under a
    second (the direct proof in x on [6, 1e6] took 200 s, and 50 min in coqchk). *)
From Compute Require Import Proofs.C09_base.
Open Scope R_scope.

Definition digamma_term_u (u : R) (acc : R) (t : bool * Z * Z * Z) : R :=
  let '(negative, num, den, k) := t in
  let v := IZR num / IZR den * (powi RO (u / (1 + u)) k - powi RO u k) in
  if negative then acc - v else acc + v.
Definition digamma_diff_u (u : R) : R :=
  fold_left (digamma_term_u u) digamma_terms (ln (1 + u) - u / (2 * (1 + u)) + u / 2 - u).
Ltac unfold_du := unfold digamma_diff_u, digamma_term_u, digamma_terms;
  cbn [fold_left powi powi_pos RO mul one].

Lemma digamma_diff_u_small u : 0 <= u <= 1/6 -> Rabs (digamma_diff_u u) <= 1e-10.
Proof.
  intros Hu. unfold_du.
  interval with (i_bisect u, i_taylor u, i_degree 20, i_prec 100, i_depth 20).
Qed.

Lemma digamma_diff_eq x : 0 < x ->
  digamma_asym RO (x + 1) - digamma_asym RO x - 1 / x = digamma_diff_u (1 / x).
Proof.
  intros Hx. unfold_special. unfold_du.
  replace (ln (x + 1)) with (ln x + ln (1 + 1 / x)).
  2:{ rewrite <- ln_mult; [f_equal; field; lra|lra|]. apply Rplus_lt_0_compat; [lra|]. apply Rdiv_lt_0_compat; lra. }
  field. lra.
Qed.

(** the recurrence on the whole asymptotic branch *)
Lemma digamma_asym_recurrence_all x : 6 <= x ->
  Rabs (digamma_asym RO (x + 1) - digamma_asym RO x - 1 / x) <= 1e-10.
Proof.
  intros Hx. rewrite digamma_diff_eq by lra. apply digamma_diff_u_small.
  split.
  - apply Rlt_le. apply Rdiv_lt_0_compat; lra.
  - unfold Rdiv. rewrite !Rmult_1_l. apply Rinv_le_contravar; lra.
Qed.
