(** * C19 — resampling: proofs over an arbitrary index source. *)
From Coq Require Import List Arith Bool Lia Permutation.
From Compute Require Import Base.ListMat Model.Resample Spec.Resample.
Import ListNotations.

(** ** generic list facts *)
Lemma mapM_Some {A B} (f : A -> option B) (l : list A) (r : list B) :
  mapM f l = Some r <-> map Some r = map f l.
Proof.
  revert r; induction l as [|a l IH]; intros r; cbn.
  - split; intros H.
    + now inversion H.
    + destruct r; [reflexivity|discriminate].
  - destruct (f a) as [b|] eqn:Fa; cbn.
    + destruct (mapM f l) as [r'|] eqn:M; cbn.
      * split; intros H.
        -- inversion H; subst. cbn. f_equal. now apply IH.
        -- destruct r as [|b' r'']; [discriminate|]. cbn in H. inversion H; subst.
           apply IH in H2. congruence.
      * split; intros H; [discriminate|].
        destruct r as [|b' r'']; [discriminate|]. cbn in H. inversion H; subst.
        apply IH in H2. discriminate.
    + split; intros H; [discriminate|]. destruct r; discriminate.
Qed.

Lemma mapM_ext_Some {A B} (f : A -> option B) (g : A -> B) (l : list A) :
  (forall a, In a l -> f a = Some (g a)) -> mapM f l = Some (map g l).
Proof.
  intros H. apply mapM_Some. rewrite map_map. apply map_ext_in. intros a Ha. now rewrite H.
Qed.

Lemma map_Some_inj {A} (l1 l2 : list A) : map Some l1 = map Some l2 -> l1 = l2.
Proof.
  revert l2; induction l1 as [|a l1 IH]; intros [|b l2] H; try discriminate; [reflexivity|].
  cbn in H. inversion H. f_equal. now apply IH.
Qed.

Lemma map_nth_error_seq {A} (l : list A) :
  map (nth_error l) (seq 0 (length l)) = map Some l.
Proof.
  induction l as [|a l IH]; [reflexivity|].
  cbn [length seq map nth_error]. f_equal. rewrite <- seq_shift, map_map. exact IH.
Qed.

Lemma selects_length {A} (l : list A) idx out : selects l idx out -> length out = length idx.
Proof. intros H. apply (f_equal (@length _)) in H. now rewrite !map_length in H. Qed.

Lemma selects_in_range {A} (l : list A) idx out :
  selects l idx out -> Forall (fun i => i < length l) idx.
Proof.
  unfold selects. revert out; induction idx as [|i idx IH]; intros out H; [constructor|].
  destruct out as [|x out]; [discriminate|]. cbn in H. inversion H. constructor.
  - apply nth_error_Some. congruence.
  - eapply IH; eauto.
Qed.

Lemma selects_nth {A} (l : list A) idx out j :
  selects l idx out -> j < length idx -> nth_error out j = nth_error l (nth j idx 0).
Proof.
  unfold selects. revert out j; induction idx as [|i idx IH]; intros out j H Hj; [cbn in Hj; lia|].
  destruct out as [|x out]; [discriminate|]. cbn in H. inversion H.
  destruct j; cbn; [congruence|]. apply IH; [assumption|cbn in Hj; lia].
Qed.

Lemma selects_In {A} (l : list A) idx out x : selects l idx out -> In x out -> In x l.
Proof.
  unfold selects. revert out; induction idx as [|i idx IH]; intros [|y out] H Hin; try discriminate; [destruct Hin|].
  cbn in H. inversion H. destruct Hin as [->|Hin].
  - eapply nth_error_In. symmetry; eassumption.
  - eapply IH; eauto.
Qed.

(** a permutation of the positions selects a permutation of the list *)
Lemma selects_perm {A} (l : list A) sigma out :
  is_perm_of (length l) sigma -> selects l sigma out -> Permutation out l.
Proof.
  unfold is_perm_of, selects. intros P H.
  apply (Permutation_map (nth_error l)) in P. rewrite map_nth_error_seq, <- H in P.
  apply Permutation_sym in P. apply Permutation_map_inv in P. destruct P as [l3 [E P]].
  apply map_Some_inj in E. subst. now apply Permutation_sym.
Qed.

(** ** the index stream *)
Section Stream.
  Context {T St : Type}.
  Variable draw : St -> option (nat * St).

  Lemma draws_length k s l s' : draws draw k s = Some (l, s') -> length l = k.
  Proof.
    revert s l s'; induction k as [|k IH]; intros s l s' H; cbn in H.
    - now inversion H.
    - destruct (draw s) as [[i s1]|]; cbn in H; [|discriminate].
      destruct (draws draw k s1) as [[l1 s2]|] eqn:D; cbn in H; [|discriminate].
      inversion H; subst. cbn. f_equal. eapply IH; eauto.
  Qed.

  Lemma draws_app a b s :
    draws draw (a + b) s =
    match draws draw a s with
    | None => None
    | Some (l1, s1) => match draws draw b s1 with
                       | None => None
                       | Some (l2, s2) => Some (l1 ++ l2, s2)
                       end
    end.
  Proof.
    revert s; induction a as [|a IH]; intros s; cbn.
    - destruct (draws draw b s) as [[l2 s2]|]; reflexivity.
    - destruct (draw s) as [[i s1]|]; cbn; [|reflexivity].
      rewrite IH. destruct (draws draw a s1) as [[l1 s2]|]; cbn; [|reflexivity].
      destruct (draws draw b s2) as [[l2 s3]|]; reflexivity.
  Qed.

  (** an invariant of the generator states under which every draw returns an index below [n] *)
  Definition good_source (n : nat) (Inv : St -> Prop) : Prop :=
    forall s, Inv s -> exists i s', draw s = Some (i, s') /\ i < n /\ Inv s'.

  Lemma draws_good n Inv k s :
    good_source n Inv -> Inv s ->
    exists l s', draws draw k s = Some (l, s') /\ Forall (fun i => i < n) l /\ Inv s'.
  Proof.
    intros G. revert s; induction k as [|k IH]; intros s I; cbn.
    - exists [], s. repeat split; auto.
    - destruct (G s I) as (i & s1 & -> & Hi & I1). cbn.
      destruct (IH s1 I1) as (l & s2 & -> & Hl & I2). cbn.
      exists (i :: l), s2. repeat split; auto.
  Qed.

  (** *** bootstrap *)
  Lemma gather_selects (data : list T) idxs r : gather data idxs = Some r <-> selects data idxs r.
  Proof. apply mapM_Some. Qed.

  Lemma gather_in_range (data : list T) idxs :
    Forall (fun i => i < length data) idxs -> exists r, gather data idxs = Some r.
  Proof.
    induction 1 as [|i idxs Hi _ IH]; [exists []; reflexivity|].
    destruct IH as [r Hr]. unfold gather in *. cbn.
    destruct (nth_error data i) as [x|] eqn:E; [|apply nth_error_None in E; lia].
    cbn. rewrite Hr. cbn. eauto.
  Qed.

  Lemma bootstrap_loop_spec (data : list T) k s out s' :
    bootstrap_loop draw data k s = Some (out, s') ->
    length out = k /\ Forall (fun r => length r = length data) out /\
    exists idxs, draws draw (k * length data) s = Some (idxs, s') /\
                 selects data idxs (concat out) /\
                 forall j i, j < k -> i < length data ->
                   nth_error (nth j out []) i = nth_error data (nth (j * length data + i) idxs 0).
  Proof.
    revert s out s'; induction k as [|k IH]; intros s out s' H; cbn in H.
    - inversion H; subst. repeat split; auto. exists []. cbn. repeat split; auto. intros; lia.
    - destruct (draws draw (length data) s) as [[idxs1 s1]|] eqn:D; cbn in H; [|discriminate].
      destruct (gather data idxs1) as [r|] eqn:G; cbn in H; [|discriminate].
      destruct (bootstrap_loop draw data k s1) as [[rest s2]|] eqn:B; cbn in H; [|discriminate].
      inversion H; subst. apply IH in B. destruct B as (L & F & idxs & D2 & Sel & Ent).
      apply gather_selects in G. pose proof (draws_length _ _ _ _ D) as L1.
      pose proof (selects_length _ _ _ G) as Lr.
      repeat split.
      + cbn. now rewrite L.
      + constructor; [lia|assumption].
      + exists (idxs1 ++ idxs). repeat split.
        * cbn [Nat.mul]. rewrite draws_app, D, D2. reflexivity.
        * unfold selects in *. cbn [concat]. rewrite !map_app. now rewrite G, Sel.
        * intros j i Hj Hi. destruct j as [|j].
          -- cbn [nth Nat.mul Nat.add]. rewrite app_nth1 by lia. apply selects_nth; [assumption|lia].
          -- cbn [nth]. rewrite app_nth2 by (cbn; lia).
             replace (S j * length data + i - length idxs1) with (j * length data + i) by (cbn; lia).
             apply Ent; lia.
  Qed.

  Lemma bootstrap_shape (data : list T) nb s out s' :
    bootstrap draw data nb s = Some (out, s') ->
    length out = nb /\ Forall (fun r => length r = length data) out.
  Proof.
    unfold bootstrap. destruct (negb (length data =? 0)); cbn; [|discriminate].
    intros H. apply bootstrap_loop_spec in H. tauto.
  Qed.

  Lemma bootstrap_members (data : list T) nb s out s' :
    bootstrap draw data nb s = Some (out, s') ->
    exists idxs,
      draws draw (nb * length data) s = Some (idxs, s') /\
      Forall (fun i => i < length data) idxs /\
      selects data idxs (concat out) /\
      (forall j i, j < nb -> i < length data ->
         nth_error (nth j out []) i = nth_error data (nth (j * length data + i) idxs 0)) /\
      (forall r x, In r out -> In x r -> In x data).
  Proof.
    unfold bootstrap. destruct (negb (length data =? 0)); cbn; [|discriminate].
    intros H. apply bootstrap_loop_spec in H. destruct H as (_ & _ & idxs & D & Sel & Ent).
    exists idxs. repeat split; auto.
    - eapply selects_in_range; eauto.
    - intros r x Hr Hx. eapply selects_In; [exact Sel|]. apply in_concat. eauto.
  Qed.

  Lemma bootstrap_loop_accepts (data : list T) Inv k s :
    good_source (length data) Inv -> Inv s ->
    exists out s', bootstrap_loop draw data k s = Some (out, s') /\ Inv s'.
  Proof.
    intros G. revert s; induction k as [|k IH]; intros s I; cbn.
    - eauto.
    - destruct (draws_good _ _ (length data) s G I) as (l & s1 & -> & Hl & I1). cbn.
      destruct (gather_in_range data l Hl) as [r ->]. cbn.
      destruct (IH s1 I1) as (out & s2 & -> & I2). cbn. eauto.
  Qed.

  Lemma bootstrap_accepts (data : list T) Inv nb s :
    data <> [] -> good_source (length data) Inv -> Inv s ->
    exists out s', bootstrap draw data nb s = Some (out, s') /\ Inv s'.
  Proof.
    intros Hne G I. unfold bootstrap. destruct data as [|x data]; [congruence|]. cbn [length Nat.eqb negb guard bind].
    apply (bootstrap_loop_accepts (x :: data) Inv nb s G I).
  Qed.

  Lemma bootstrap_empty_panics nb s : bootstrap draw (@nil T) nb s = None.
  Proof. reflexivity. Qed.

  (** a draw outside the data panics (no silent clamping): first resample, first out-of-range index *)
  Lemma bootstrap_out_of_range_panics (data : list T) nb s idxs s1 :
    draws draw (length data) s = Some (idxs, s1) ->
    ~ Forall (fun i => i < length data) idxs ->
    bootstrap draw data (S nb) s = None.
  Proof.
    intros D NF. unfold bootstrap. destruct (negb (length data =? 0)); cbn; [|reflexivity].
    rewrite D. cbn. destruct (gather data idxs) as [r|] eqn:G; [|reflexivity].
    exfalso. apply NF. apply gather_selects in G. eapply selects_in_range; eauto.
  Qed.

  (** *** jackknife *)
  Lemma skipn_remove_nth (l : list T) i :
    i < length l ->
    exists x, skipn i l = x :: skipn (S i) l /\ remove_nth i l = firstn i l ++ skipn (S i) l.
  Proof.
    revert i; induction l as [|a l IH]; intros i Hi; [cbn in Hi; lia|].
    destruct i as [|i].
    - exists a. split; reflexivity.
    - cbn in Hi. destruct (IH i) as [x [E1 E2]]; [lia|]. exists x. split.
      + exact E1.
      + cbn [remove_nth firstn]. rewrite E2. reflexivity.
  Qed.

  Lemma jackknife_def (data : list T) : jackknife data = Some (leave_one_out data).
  Proof.
    unfold jackknife, leave_one_out. apply mapM_ext_Some. intros i Hi. apply in_seq in Hi.
    destruct (skipn_remove_nth data i) as [x [E1 E2]]; [lia|].
    rewrite E1. cbn. now rewrite E2.
  Qed.

  Lemma remove_nth_length (l : list T) i : i < length l -> length (remove_nth i l) = length l - 1.
  Proof.
    revert i; induction l as [|a l IH]; intros i Hi; [cbn in Hi; lia|].
    destruct i as [|i]; cbn; [lia|]. cbn in Hi. rewrite IH by lia. lia.
  Qed.

  Lemma remove_nth_nth (l : list T) i j :
    nth_error (remove_nth i l) j = if j <? i then nth_error l j else nth_error l (S j).
  Proof.
    revert i j; induction l as [|a l IH]; intros i j.
    - cbn [remove_nth]. destruct (j <? i); destruct j; reflexivity.
    - destruct i as [|i]; cbn [remove_nth].
      + reflexivity.
      + destruct j as [|j]; [reflexivity|]. cbn [nth_error]. rewrite IH.
        change (S j <? S i) with (j <? i). reflexivity.
  Qed.

  Lemma jackknife_shape (data : list T) out :
    jackknife data = Some out ->
    length out = length data /\ Forall (fun r => length r = length data - 1) out.
  Proof.
    rewrite jackknife_def. intros H; inversion H; subst. unfold leave_one_out. split.
    - now rewrite map_length, seq_length.
    - apply Forall_forall. intros r Hr. apply in_map_iff in Hr. destruct Hr as [i [<- Hi]].
      apply in_seq in Hi. apply remove_nth_length. lia.
  Qed.

  (** *** swaps and shuffles *)
  Lemma upd_perm {A} (t : list A) i y h :
    nth_error t i = Some y -> Permutation (y :: upd t i h) (h :: t).
  Proof.
    revert i; induction t as [|a t IH]; intros i H; [destruct i; discriminate|].
    destruct i as [|i]; cbn in *.
    - inversion H; subst. apply perm_swap.
    - specialize (IH i H).
      eapply perm_trans; [apply perm_swap|]. eapply perm_trans; [apply perm_skip, IH|]. apply perm_swap.
  Qed.

  Lemma swap_perm {A} (l : list A) a b x y :
    nth_error l a = Some x -> nth_error l b = Some y -> Permutation (upd (upd l a y) b x) l.
  Proof.
    revert a b; induction l as [|h t IH]; intros a b Ha Hb; [destruct a; discriminate|].
    destruct a as [|a], b as [|b]; cbn in *.
    - inversion Ha; inversion Hb; subst. reflexivity.
    - inversion Ha; subst. now apply upd_perm.
    - inversion Hb; subst. now apply upd_perm.
    - apply perm_skip. now apply IH.
  Qed.

  Lemma swap_opt_perm {A} (l l' : list A) a b : swap_opt l a b = Some l' -> Permutation l' l.
  Proof.
    unfold swap_opt. destruct (nth_error l a) as [x|] eqn:Ha; [|discriminate].
    destruct (nth_error l b) as [y|] eqn:Hb; [|discriminate].
    intros H; inversion H; subst. eapply swap_perm; eauto.
  Qed.

  Lemma upd_map {A B} (f : A -> B) l i v : upd (map f l) i (f v) = map f (upd l i v).
  Proof. revert i; induction l as [|a l IH]; intros [|i]; cbn; try reflexivity. now rewrite IH. Qed.

  Lemma swap_opt_map {A B} (f : A -> B) l a b :
    swap_opt (map f l) a b = option_map (map f) (swap_opt l a b).
  Proof.
    unfold swap_opt. rewrite !nth_error_map.
    destruct (nth_error l a) as [x|]; cbn; [|reflexivity].
    destruct (nth_error l b) as [y|]; cbn; [|reflexivity].
    now rewrite !upd_map.
  Qed.

  Lemma swap_opt_in_range {A} (l : list A) a b :
    a < length l -> b < length l -> exists l', swap_opt l a b = Some l'.
  Proof.
    intros Ha Hb. unfold swap_opt.
    destruct (nth_error l a) eqn:E1; [|apply nth_error_None in E1; lia].
    destruct (nth_error l b) eqn:E2; [|apply nth_error_None in E2; lia]. eauto.
  Qed.

  Lemma shuffle_loop_perm {A} k (l : list A) s out s' :
    shuffle_loop draw k l s = Some (out, s') -> Permutation out l.
  Proof.
    revert l s; induction k as [|k IH]; intros l s H; cbn in H.
    - inversion H; subst. reflexivity.
    - destruct (draw s) as [[a s1]|]; cbn in H; [|discriminate].
      destruct (draw s1) as [[b s2]|]; cbn in H; [|discriminate].
      destruct (swap_opt l a b) as [l'|] eqn:E; cbn in H; [|discriminate].
      apply IH in H. apply swap_opt_perm in E. eapply perm_trans; eauto.
  Qed.

  Lemma shuffle_loop_map {A B} (f : A -> B) k l s :
    shuffle_loop draw k (map f l) s =
    option_map (fun p => (map f (fst p), snd p)) (shuffle_loop draw k l s).
  Proof.
    revert l s; induction k as [|k IH]; intros l s; cbn; [reflexivity|].
    destruct (draw s) as [[a s1]|]; cbn; [|reflexivity].
    destruct (draw s1) as [[b s2]|]; cbn; [|reflexivity].
    rewrite swap_opt_map. destruct (swap_opt l a b) as [l'|]; cbn; [|reflexivity].
    apply IH.
  Qed.

  (** the loop is natural in the elements: it applies to [l] the position list it builds on [0..n-1] *)
  Lemma shuffle_loop_sigma {A} k (l : list A) s out s' :
    shuffle_loop draw k l s = Some (out, s') ->
    exists sigma, shuffle_loop draw k (seq 0 (length l)) s = Some (sigma, s') /\
                  is_perm_of (length l) sigma /\ selects l sigma out.
  Proof.
    intros H.
    pose proof (shuffle_loop_map (@Some A) k l s) as M. rewrite H in M. cbn in M.
    rewrite <- map_nth_error_seq, shuffle_loop_map in M.
    destruct (shuffle_loop draw k (seq 0 (length l)) s) as [[sigma s'']|] eqn:E; cbn in M; [|discriminate].
    inversion M; subst. exists sigma. repeat split.
    - unfold is_perm_of. eapply shuffle_loop_perm; eauto.
    - unfold selects. congruence.
  Qed.

  Lemma shuffle_two_loop_eq k (l1 l2 : list T) s :
    shuffle_two_loop draw k l1 l2 s =
    match shuffle_loop draw k l1 s, shuffle_loop draw k l2 s with
    | Some (o1, s1), Some (o2, _) => Some (o1, o2, s1)
    | _, _ => None
    end.
  Proof.
    revert l1 l2 s; induction k as [|k IH]; intros l1 l2 s; cbn; [reflexivity|].
    destruct (draw s) as [[a s1]|]; cbn; [|reflexivity].
    destruct (draw s1) as [[b s2]|]; cbn; [|reflexivity].
    destruct (swap_opt l1 a b) as [l1'|]; cbn; [|reflexivity].
    destruct (swap_opt l2 a b) as [l2'|]; cbn.
    - apply IH.
    - destruct (shuffle_loop draw k l1' s2) as [[o1 s3]|]; reflexivity.
  Qed.

  Lemma shuffle_perm (data : list T) s out s' :
    shuffle draw data s = Some (out, s') -> Permutation out data.
  Proof.
    unfold shuffle. destruct (negb (length data =? 0)); cbn; [|discriminate]. apply shuffle_loop_perm.
  Qed.

  Lemma shuffle_sigma (data : list T) s out s' :
    shuffle draw data s = Some (out, s') ->
    exists sigma, is_perm_of (length data) sigma /\ selects data sigma out.
  Proof.
    unfold shuffle. destruct (negb (length data =? 0)); cbn; [|discriminate].
    intros H. apply shuffle_loop_sigma in H. destruct H as (sg & _ & P & Sel). eauto.
  Qed.

  Lemma shuffle_two_common (a b : list T) s oa ob s' :
    shuffle_two draw a b s = Some (oa, ob, s') ->
    exists sigma, is_perm_of (length a) sigma /\ selects a sigma oa /\ selects b sigma ob.
  Proof.
    unfold shuffle_two. destruct (length a =? length b) eqn:EL; cbn; [|discriminate].
    apply Nat.eqb_eq in EL.
    destruct (negb (length a =? 0)); cbn; [|discriminate].
    rewrite shuffle_two_loop_eq.
    destruct (shuffle_loop draw (length a * 2) a s) as [[o1 s1]|] eqn:E1; [|discriminate].
    destruct (shuffle_loop draw (length a * 2) b s) as [[o2 s2]|] eqn:E2; [|discriminate].
    intros H; inversion H; subst.
    apply shuffle_loop_sigma in E1. apply shuffle_loop_sigma in E2.
    destruct E1 as (sg1 & L1 & P1 & S1). destruct E2 as (sg2 & L2 & P2 & S2).
    rewrite <- EL in L2. rewrite L1 in L2. inversion L2; subst.
    exists sg2. repeat split; assumption.
  Qed.

  Lemma nth_error_combine {A B} (l1 : list A) (l2 : list B) i :
    nth_error (combine l1 l2) i =
    match nth_error l1 i, nth_error l2 i with Some x, Some y => Some (x, y) | _, _ => None end.
  Proof.
    revert l2 i; induction l1 as [|a l1 IH]; intros l2 i.
    - cbn. destruct i; reflexivity.
    - destruct l2 as [|b l2].
      + cbn. destruct i; cbn; [reflexivity|]. destruct (nth_error l1 i); reflexivity.
      + destruct i; cbn; [reflexivity|apply IH].
  Qed.

  Lemma selects_combine {A B} (l1 : list A) (l2 : list B) sigma o1 o2 :
    selects l1 sigma o1 -> selects l2 sigma o2 -> selects (combine l1 l2) sigma (combine o1 o2).
  Proof.
    unfold selects. revert o1 o2; induction sigma as [|i sg IH]; intros o1 o2 H1 H2.
    - destruct o1; [reflexivity|discriminate].
    - destruct o1 as [|x o1]; [discriminate|]. destruct o2 as [|y o2]; [discriminate|].
      cbn in *. inversion H1; inversion H2. rewrite nth_error_combine.
      rewrite <- H0, <- H4. f_equal. now apply IH.
  Qed.

  (** pairs stay paired: the multiset of pairs is preserved *)
  Lemma shuffle_two_pairs (a b : list T) s oa ob s' :
    shuffle_two draw a b s = Some (oa, ob, s') ->
    Permutation (combine oa ob) (combine a b) /\ Permutation oa a /\ Permutation ob b.
  Proof.
    intros H. pose proof H as H0. apply shuffle_two_common in H. destruct H as (sg & P & S1 & S2).
    unfold shuffle_two in H0. destruct (length a =? length b) eqn:EL; cbn in H0; [|discriminate].
    apply Nat.eqb_eq in EL. repeat split.
    - apply (selects_perm _ sg); [|now apply selects_combine].
      rewrite combine_length, <- EL, Nat.min_id. exact P.
    - now apply (selects_perm _ sg).
    - apply (selects_perm _ sg); [rewrite <- EL|]; assumption.
  Qed.

  Lemma shuffle_two_length_mismatch (a b : list T) s :
    length a <> length b -> shuffle_two draw a b s = None.
  Proof. intros H. unfold shuffle_two. apply Nat.eqb_neq in H. now rewrite H. Qed.

  Lemma shuffle_empty_panics s : shuffle draw (@nil T) s = None.
  Proof. reflexivity. Qed.

  Lemma shuffle_loop_accepts {A} Inv k (l : list A) s :
    good_source (length l) Inv -> Inv s ->
    exists out s', shuffle_loop draw k l s = Some (out, s') /\ Inv s'.
  Proof.
    revert l s; induction k as [|k IH]; intros l s G I; cbn; [eauto|].
    destruct (G s I) as (a & s1 & -> & Ha & I1). cbn.
    destruct (G s1 I1) as (b & s2 & -> & Hb & I2). cbn.
    destruct (swap_opt_in_range l a b Ha Hb) as [l' E]. rewrite E. cbn.
    apply IH; [|assumption].
    apply swap_opt_perm, Permutation_length in E. now rewrite E.
  Qed.

  Lemma shuffle_accepts Inv (data : list T) s :
    data <> [] -> good_source (length data) Inv -> Inv s ->
    exists out s', shuffle draw data s = Some (out, s') /\ Inv s'.
  Proof.
    intros Hne G I. unfold shuffle. destruct data as [|x data]; [congruence|].
    cbn [length Nat.eqb negb guard bind]. now apply shuffle_loop_accepts.
  Qed.

  Lemma shuffle_two_accepts Inv (a b : list T) s :
    a <> [] -> length a = length b -> good_source (length a) Inv -> Inv s ->
    exists oa ob s', shuffle_two draw a b s = Some (oa, ob, s') /\ Inv s'.
  Proof.
    intros Hne EL G I. unfold shuffle_two. rewrite <- EL, Nat.eqb_refl. cbn [guard bind].
    destruct a as [|x a]; [congruence|]. cbn [length Nat.eqb negb guard bind].
    rewrite shuffle_two_loop_eq.
    destruct (shuffle_loop_accepts Inv (length (x :: a) * 2) (x :: a) s G I) as (o1 & s1 & E1 & I1).
    assert (G' : good_source (length b) Inv) by now rewrite <- EL.
    destruct (shuffle_loop_accepts Inv (length (x :: a) * 2) b s G' I) as (o2 & s2 & E2 & I2).
    cbn [length] in *. rewrite E1, E2. eauto.
  Qed.
End Stream.
