(** * C15 — grids, rotations and comparisons on the reals ([RO]). *)
From Coq Require Import List Arith ZArith Bool Lia Reals Lra Psatz QArith Floats.
From Compute Require Import Base.Ops Base.ListMat Model.Shape Spec.Shape Proofs.C15Lists Proofs.C15 Proofs.C15Step.
Import ListNotations.
Local Close Scope Q_scope.
Local Open Scope R_scope.

Lemma ofN_RO : forall n, ofN RO n = INR n.
Proof. intros. unfold ofN. cbn [ofZ RO]. symmetry. apply INR_IZR_INZ. Qed.

(** ** linspace *)
Theorem linspace_def : forall a b n, (2 <= n)%nat ->
  length (linspace RO a b n) = n /\
  (forall i, (i < n)%nat -> nth i (linspace RO a b n) 0 = a + INR i * ((b - a) / INR (n - 1))) /\
  nth 0 (linspace RO a b n) 0 = a /\ nth (n - 1) (linspace RO a b n) 0 = b.
Proof.
  intros a b n Hn. unfold linspace. destruct (Nat.ltb_spec n 2); [lia|].
  assert (Hi : forall i, (i < n)%nat ->
          nth i (map (fun i => add RO a (mul RO (ofN RO i) (div RO (sub RO b a) (ofN RO (n - 1))))) (seq 0 n)) 0
          = a + INR i * ((b - a) / INR (n - 1))).
  { intros i Hi. rewrite nth_map_seq by auto. cbn [add mul div sub RO]. now rewrite !ofN_RO. }
  split; [now rewrite map_length, seq_length|]. split; [exact Hi|]. split.
  - rewrite Hi by lia. simpl INR. lra.
  - rewrite Hi by lia. assert (INR (n - 1) <> 0) by (apply not_0_INR; lia). field. auto.
Qed.

Theorem linspace_small : forall a b, linspace RO a b 0 = [] /\ linspace RO a b 1 = [a].
Proof. intros. split; reflexivity. Qed.

(** ** arange: the number of points is the ceiling of (stop - start) / step *)
Lemma Int_part_IZR : forall z, Int_part (IZR z) = z.
Proof.
  intros z. unfold Int_part. assert (up (IZR z) = (z + 1)%Z); [|lia].
  symmetry. apply tech_up; rewrite plus_IZR; lra.
Qed.

Lemma RtruncZ_IZR : forall z, RtruncZ (IZR z) = z.
Proof.
  intros z. unfold RtruncZ. destruct (Rle_dec 0 (IZR z)).
  - apply Int_part_IZR.
  - rewrite <- opp_IZR, Int_part_IZR. lia.
Qed.

Theorem arange_count_spec : forall start stop step,
  let q := (stop - start) / step in
  (q <= 0 -> arange_count RO start stop step = 0%nat) /\
  (0 < q -> INR (arange_count RO start stop step) - 1 < q <= INR (arange_count RO start stop step)).
Proof.
  intros start stop step q. unfold arange_count. cbn [f1 div sub RO Rf1 truncZ]. fold q.
  rewrite <- opp_IZR, RtruncZ_IZR.
  destruct (base_Int_part (- q)) as [B1 B2]. set (z := Int_part (- q)) in *.
  split.
  - intros Hq. assert (0 <= z)%Z; [|lia]. apply le_IZR. apply Rnot_lt_le. intros C.
    assert (IZR z <= -1) by (apply IZR_le; apply lt_IZR in C; lia). lra.
  - intros Hq. assert (Hz : (z <= 0)%Z) by (apply le_IZR; lra).
    rewrite INR_IZR_INZ, Z2Nat.id by lia. rewrite opp_IZR. lra.
Qed.

(** the half-open grid: exactly the grid points below [stop] are produced *)
Theorem arange_points : forall start stop step, 0 < step ->
  let n := arange_count RO start stop step in
  length (arange RO start stop step) = n /\
  (forall i, (i < n)%nat -> nth i (arange RO start stop step) 0 = start + INR i * step) /\
  (forall i, (i < n)%nat <-> start + INR i * step < stop).
Proof.
  intros start stop step Hs n. unfold arange. fold n.
  split; [now rewrite map_length, seq_length|]. split.
  - intros i Hi. rewrite nth_map_seq by auto. cbn [add mul RO]. now rewrite ofN_RO.
  - intros i. destruct (arange_count_spec start stop step) as [C0 C1]. fold n in C0, C1.
    set (q := (stop - start) / step) in *.
    assert (Eq : stop - start = q * step) by (unfold q; field; lra).
    destruct (Rle_lt_dec q 0) as [Hq|Hq].
    + rewrite (C0 Hq). split; [lia|]. intros H. exfalso.
      assert (0 <= INR i) by apply pos_INR. nra.
    + destruct (C1 Hq) as [L U]. split.
      * intros Hi. assert (INR i <= INR n - 1).
        { replace (INR n - 1) with (INR (n - 1)) by (rewrite minus_INR by lia; simpl; lra). apply le_INR. lia. }
        nra.
      * intros H. apply INR_lt. nra.
Qed.

Example arange_example : arange_count RO 0 1 (4 / 10) = 3%nat.
Proof.
  destruct (arange_count_spec 0 1 (4 / 10)) as [_ C]. 
  assert (Hq : 0 < (1 - 0) / (4 / 10)) by (apply Rdiv_lt_0_compat; lra).
  destruct (C Hq) as [L U]. replace ((1 - 0) / (4 / 10)) with (5 / 2) in * by field.
  set (n := arange_count RO 0 1 (4 / 10)) in *.
  assert (n < 4)%nat by (apply INR_lt; simpl; lra).
  assert (2 < n)%nat by (apply INR_lt; simpl; lra). lia.
Qed.

(** ** rotations: orthogonal, determinant one *)
Definition e9 (l : list R) (i j : nat) : R := nth (i * 3 + j) l 0.
Definition det3 (l : list R) : R :=
  e9 l 0 0 * (e9 l 1 1 * e9 l 2 2 - e9 l 1 2 * e9 l 2 1)
  - e9 l 0 1 * (e9 l 1 0 * e9 l 2 2 - e9 l 1 2 * e9 l 2 0)
  + e9 l 0 2 * (e9 l 1 0 * e9 l 2 1 - e9 l 1 1 * e9 l 2 0).

Theorem rotation_orthogonal : forall cw axis angle i j, (i < 3)%nat -> (j < 3)%nat ->
  let R := rot_data RO cw axis angle in
  e9 R 0 i * e9 R 0 j + e9 R 1 i * e9 R 1 j + e9 R 2 i * e9 R 2 j = if (i =? j)%nat then 1 else 0.
Proof.
  intros cw axis angle i j Hi Hj. pose proof (sin2_cos2 angle) as H. unfold Rsqr in H.
  unfold rot_data, e9. cbn [f1 RO Rf1 neg zero one].
  destruct cw; destruct axis as [|[|axis]];
  destruct i as [|[|[|i]]]; try lia; destruct j as [|[|[|j]]]; try lia; cbn [nth Nat.mul Nat.add Nat.eqb]; nra.
Qed.

Theorem rotation_det : forall cw axis angle, det3 (rot_data RO cw axis angle) = 1.
Proof.
  intros cw axis angle. pose proof (sin2_cos2 angle) as H. unfold Rsqr in H.
  unfold det3, rot_data, e9. cbn [f1 RO Rf1 neg zero one].
  destruct cw; destruct axis as [|[|axis]]; cbn [nth Nat.mul Nat.add]; nra.
Qed.

(** ** comparisons *)
Lemma Rltb_false : forall x y, Rltb x y = false <-> y <= x.
Proof. intros. unfold Rltb. destruct (Rlt_dec x y); split; intros; try lra; try discriminate; auto. Qed.

Definition eps_R : R := / 4503599627370496.
Lemma eps_RO : eps RO = eps_R.
Proof. unfold eps, eps_R. cbn [ofQ RO]. unfold Q2R. cbn. lra. Qed.

Lemma differ_RO : forall a b, differ RO a b = false <-> Rabs (a - b) <= eps_R.
Proof. intros. unfold differ. cbn [ltb abs sub RO]. rewrite eps_RO. apply Rltb_false. Qed.

Lemma Reqb_refl_true : forall x, Reqb x x = true.
Proof. intros x. unfold Reqb. destruct (Req_EM_T x x) as [E|E]; [reflexivity|exfalso; apply E; reflexivity]. Qed.
Lemma fmax_RO_max : forall x y, fmax RO x y = Rmax x y.
Proof.
  intros. unfold fmax, is_nan. cbn [eqb RO ltb]. rewrite !Reqb_refl_true. cbn [negb].
  unfold Rmax, Rltb. destruct (Rle_dec x y), (Rlt_dec x y); auto; lra.
Qed.
Lemma sym_differ_RO : forall a b, sym_differ RO a b = false <-> Rabs (a - b) <= eps_R * Rmax (Rabs a) (Rabs b).
Proof. intros. unfold sym_differ. rewrite fmax_RO_max. cbn [ltb abs sub mul RO]. rewrite eps_RO. apply Rltb_false. Qed.

Theorem eq_v_def : forall x y : list R,
  eq_v RO x y = true <-> length x = length y /\ forall i, (i < length x)%nat -> Rabs (nth i x 0 - nth i y 0) <= eps_R.
Proof.
  intros x y. unfold eq_v. destruct (Nat.eqb_spec (length x) (length y)) as [E|E]; cbn [negb].
  - rewrite forallb_forall. split.
    + intros H. split; auto. intros i Hi. apply differ_RO. apply negb_true_iff. apply H. apply in_seq. lia.
    + intros [_ H] i Hi. apply in_seq in Hi. apply negb_true_iff. apply differ_RO. apply H. lia.
  - split; [discriminate|]. intros [C _]. contradiction.
Qed.

(** the sign-aware relative difference on the reals *)
Definition rel_diff_R (x y : R) : R :=
  if Req_EM_T x 0 then Rabs y else if Req_EM_T y 0 then Rabs x else Rabs (x - y) / Rmin (Rabs x) (Rabs y).

Lemma rel_diff_RO : forall x y, rel_diff RO x y = rel_diff_R x y.
Proof.
  intros. unfold rel_diff, rel_diff_R, is_infinite, fmin, is_nan. cbn [eqb abs sub div neg ltb RO zero one]. unfold Reqb.
  destruct (Req_EM_T x 0); auto. destruct (Req_EM_T y 0); auto.
  (* the guard [diff == 1 / 0 | diff == -(1 / 0)]: on the reals 1 / 0 = 0 ([Rinv_0]), so it fires only for x = y, where the quotient is 0 too *)
  assert (E10 : 1 / 0 = 0) by (unfold Rdiv; rewrite Rinv_0; ring). rewrite E10.
  replace (- 0) with 0 by ring.
  destruct (Req_EM_T (Rabs (x - y)) 0) as [E0|E0]; cbn [orb].
  { rewrite E0. unfold Rdiv. rewrite Rmult_0_l. reflexivity. }
  destruct (Req_EM_T (Rabs x) (Rabs x)); [|congruence]. destruct (Req_EM_T (Rabs y) (Rabs y)); [|congruence].
  cbn [negb]. f_equal. unfold Rltb, Rmin. destruct (Rlt_dec (Rabs y) (Rabs x)), (Rle_dec (Rabs x) (Rabs y)); lra.
Qed.

Theorem close_to_v_def : forall (x y : list R) tol,
  close_to_v RO x y tol = true <->
  length x = length y /\ forall i, (i < length x)%nat -> rel_diff_R (nth i x 0) (nth i y 0) <= tol.
Proof.
  intros x y tol. unfold close_to_v. destruct (Nat.eqb_spec (length x) (length y)) as [E|E]; cbn [negb].
  - rewrite forallb_forall. split.
    + intros H. split; auto. intros i Hi. rewrite <- rel_diff_RO. apply Rltb_false. apply negb_true_iff.
      apply (H i). apply in_seq. lia.
    + intros [_ H] i Hi. apply in_seq in Hi. apply negb_true_iff. cbn [ltb RO]. apply Rltb_false.
      rewrite rel_diff_RO. apply H. lia.
  - split; [discriminate|]. intros [C _]. contradiction.
Qed.

Lemma rel_diff_opposite : forall x y, x * y < 0 -> 2 <= rel_diff_R x y.
Proof.
  intros x y H. unfold rel_diff_R.
  destruct (Req_EM_T x 0); [subst; lra|]. destruct (Req_EM_T y 0); [subst; lra|].
  assert (Hx : 0 < Rabs x) by now apply Rabs_pos_lt. assert (Hy : 0 < Rabs y) by now apply Rabs_pos_lt.
  assert (Hm : 0 < Rmin (Rabs x) (Rabs y)) by now apply Rmin_glb_lt.
  assert (Rabs (x - y) = Rabs x + Rabs y).
  { destruct (Rlt_dec 0 x).
    - assert (y < 0) by nra. rewrite (Rabs_pos_eq x), (Rabs_left y), Rabs_pos_eq by lra. lra.
    - assert (x < 0) by lra. assert (0 < y) by nra. rewrite (Rabs_left x), (Rabs_pos_eq y), Rabs_left by lra. lra. }
  rewrite H0. apply (Rmult_le_reg_r (Rmin (Rabs x) (Rabs y))); auto.
  unfold Rdiv. rewrite Rmult_assoc, Rinv_l by lra.
  pose proof (Rmin_l (Rabs x) (Rabs y)). pose proof (Rmin_r (Rabs x) (Rabs y)). lra.
Qed.

(** approximate equality never equates values of opposite sign (any tolerance below 2) *)
Theorem close_to_sign_safe : forall (x y : list R) tol, tol < 2 ->
  close_to_v RO x y tol = true ->
  length x = length y /\ forall i, (i < length x)%nat -> ~ (nth i x 0 * nth i y 0 < 0).
Proof.
  intros x y tol Ht H. apply close_to_v_def in H. destruct H as [L H]. split; auto.
  intros i Hi C. specialize (H i Hi). pose proof (rel_diff_opposite _ _ C). lra.
Qed.

Example close_to_example : close_to_v RO [0; 0] [0; 0] (1 / 2) = true /\ close_to_v RO [1] [-1] (1 / 2) = false.
Proof.
  split.
  - apply close_to_v_def. split; auto. intros [|[|i]] Hi; simpl in Hi; try lia; cbn [nth]; unfold rel_diff_R;
    (destruct (Req_EM_T 0 0); [rewrite Rabs_R0; lra | congruence]).
  - destruct (close_to_v RO [1] [-1] (1 / 2)) eqn:E; auto.
    apply close_to_sign_safe in E; [|lra]. destruct E as [_ E]. exfalso. apply (E 0%nat); [simpl; lia | simpl; lra].
Qed.

(** on binary64 (the carrier the correspondence runs on): [inf] and [-inf] are not close, whatever the tolerance -- before the
    repair of [rel_diff] the quotient [inf / inf = NaN] passed every tolerance test (here: 1/2 and the largest finite tolerance); equal infinities stay close *)
Example close_to_opposite_infinities :
  close_to_v FO0 [PrimFloat.infinity] [PrimFloat.neg_infinity] 0x1p-1%float = false /\
  close_to_v FO0 [PrimFloat.infinity] [PrimFloat.neg_infinity] 0x1.fffffffffffffp+1023%float = false /\
  close_to_v FO0 [PrimFloat.infinity] [PrimFloat.infinity] 0x1p-1%float = true /\
  close_to_v FO0 [0x1.fffffffffffffp+1023%float] [(-0x1.fffffffffffffp+1023)%float] 0x1p-1%float = false.
Proof. repeat split; vm_compute; reflexivity. Qed.

(** Matrix comparisons are the vector ones guarded by equal shapes *)
Theorem matrix_compare_def : forall (a b : mat R) tol,
  close_to_m RO a b tol = ((nrows a =? nrows b)%nat && (ncols a =? ncols b)%nat && close_to_v RO (data a) (data b) tol) /\
  eq_m RO a b = ((nrows a =? nrows b)%nat && (ncols a =? ncols b)%nat && eq_v RO (data a) (data b)).
Proof. intros. unfold close_to_m, eq_m, same_shape. split; destruct (_ && _); reflexivity. Qed.
