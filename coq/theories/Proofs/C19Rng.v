(** * C19 — facts about the executable `alea` model (Base/Rng.v) and the DiscreteUniform sampler. *)
From Coq Require Import NArith ZArith List Lia Bool Permutation Reals Lra.
From Compute Require Import Base.Ops Base.ListMat Base.Rng Model.Resample Spec.Resample Proofs.C19.
Import ListNotations.

Local Open Scope N_scope.

Lemma W64_pow : W64 = 2 ^ 64. Proof. reflexivity. Qed.
Lemma W64_pos : 0 < W64. Proof. reflexivity. Qed.
Lemma wrap_lt x : wrap x < W64. Proof. unfold wrap. apply N.mod_lt. discriminate. Qed.
Lemma wrap_small x : x < W64 -> wrap x = x. Proof. intros. unfold wrap. now apply N.mod_small. Qed.

Lemma lxor_lt_pow2 a b n : a < 2 ^ n -> b < 2 ^ n -> N.lxor a b < 2 ^ n.
Proof.
  intros Ha Hb.
  destruct (N.eq_dec a 0) as [->|Na]; [now rewrite N.lxor_0_l|].
  destruct (N.eq_dec b 0) as [->|Nb]; [now rewrite N.lxor_0_r|].
  destruct (N.eq_dec (N.lxor a b) 0) as [->|Nx]; [lia|].
  apply N.log2_lt_pow2; [lia|].
  apply N.log2_lt_pow2 in Ha; [|lia]. apply N.log2_lt_pow2 in Hb; [|lia].
  pose proof (N.log2_lxor a b). lia.
Qed.

(** outputs and states stay below 2^64 *)
Lemma u64_state_lt s : snd (u64 s) < W64.
Proof. unfold u64. cbn. apply wrap_lt. Qed.

Lemma u64_out_lt s : fst (u64 s) < W64.
Proof.
  unfold u64. cbn [fst]. set (s' := wadd s WY_INC).
  assert (Hs : s' < W64) by apply wrap_lt.
  rewrite W64_pow in *. apply lxor_lt_pow2.
  - apply N.div_lt_upper_bound; [discriminate|].
    assert (N.lxor s' WY_XOR < 2 ^ 64) by (apply lxor_lt_pow2; [assumption|reflexivity]).
    nia.
  - apply N.mod_lt. discriminate.
Qed.

Global Opaque u64.

Lemma mul_high_lt r max : r < W64 -> 0 < max -> mul_high r max < max.
Proof.
  intros Hr Hm. unfold mul_high. apply N.div_lt_upper_bound; [discriminate|]. nia.
Qed.

(** *** Lemire's range reduction returns a value below [max] (partial correctness, any fuel) *)
Lemma lemire_loop_in_range fuel : forall max t hi lo s r s',
  0 < max -> hi < max -> lemire_loop fuel max t hi lo s = Ok (r, s') -> r < max.
Proof.
  induction fuel as [|fuel IH]; intros max t hi lo s r s' Hm Hh H; cbn in H.
  - destruct (lo <? t); [discriminate|]. now inversion H; subst.
  - destruct (lo <? t).
    + destruct (u64 s) as [r0 s0] eqn:E. eapply IH; [exact Hm| |exact H].
      apply mul_high_lt; [|assumption]. pose proof (u64_out_lt s) as L. rewrite E in L. exact L.
    + now inversion H; subst.
Qed.

Lemma u64_less_than_in_range fuel max s r s' :
  0 < max -> u64_less_than fuel max s = Ok (r, s') -> r < max.
Proof.
  intros Hm H. unfold u64_less_than in H. destruct (u64 s) as [r0 s0] eqn:E.
  assert (Hh : mul_high r0 max < max).
  { apply mul_high_lt; [|assumption]. pose proof (u64_out_lt s) as L. rewrite E in L. exact L. }
  destruct (wmul r0 max <? max).
  - eapply lemire_loop_in_range; eauto.
  - now inversion H; subst.
Qed.

Lemma lemire_loop_never_fails fuel : forall max t hi lo s, lemire_loop fuel max t hi lo s <> Fail.
Proof.
  induction fuel as [|fuel IH]; intros max t hi lo s; cbn.
  - destruct (lo <? t); discriminate.
  - destruct (lo <? t); [|discriminate]. destruct (u64 s). apply IH.
Qed.

Lemma u64_less_than_never_fails fuel max s : u64_less_than fuel max s <> Fail.
Proof.
  unfold u64_less_than. destruct (u64 s). destruct (_ <? _); [apply lemire_loop_never_fails|discriminate].
Qed.

(** a one-point range needs no fuel and always returns 0 after exactly one draw *)
Lemma u64_less_than_one fuel s : u64_less_than fuel 1 s = Ok (0, snd (u64 s)).
Proof.
  unfold u64_less_than. pose proof (u64_out_lt s) as L. destruct (u64 s) as [r0 s0]. cbn [fst snd] in *.
  assert (H0 : mul_high r0 1 = 0). { unfold mul_high. rewrite N.mul_1_r. now apply N.div_small. }
  rewrite H0. destruct (wmul r0 1 <? 1); [|reflexivity].
  replace (wneg 1 mod 1) with 0 by (symmetry; apply N.mod_1_r).
  assert (Hlt : forall x, (x <? 0) = false) by (intros; apply N.ltb_ge; lia).
  destruct fuel; cbn [lemire_loop]; rewrite Hlt; reflexivity.
Qed.

(** a power-of-two modulus never re-draws either (t = 2^64 mod 2^k = 0) — e.g. the 2-point range *)
Lemma u64_less_than_two fuel s : exists r, u64_less_than fuel 2 s = Ok (r, snd (u64 s)) /\ r < 2.
Proof.
  unfold u64_less_than. pose proof (u64_out_lt s) as L. destruct (u64 s) as [r0 s0]. cbn [fst snd] in *.
  assert (Hh : mul_high r0 2 < 2) by (apply mul_high_lt; [assumption|reflexivity]).
  destruct (wmul r0 2 <? 2).
  - replace (wneg 2 mod 2) with 0 by reflexivity.
    assert (Hlt : forall x, (x <? 0) = false) by (intros; apply N.ltb_ge; lia).
    destruct fuel; cbn [lemire_loop]; rewrite Hlt; eauto.
  - eauto.
Qed.

Local Close Scope N_scope.
Local Open Scope Z_scope.

Definition M64 : Z := 18446744073709551616.
Definition is_i64 (z : Z) : Prop := -9223372036854775808 <= z < 9223372036854775808.

Lemma to_u64_Z z : Z.of_N (to_u64 z) = z mod M64.
Proof. unfold to_u64. rewrite Z2N.id; [reflexivity|]. apply Z.mod_pos_bound. reflexivity. Qed.

Lemma to_u64_lt z : (to_u64 z < W64)%N.
Proof.
  apply N2Z.inj_lt. rewrite to_u64_Z. change (Z.of_N W64) with M64. apply Z.mod_pos_bound. reflexivity.
Qed.

Lemma to_i64_cases n : (n < W64)%N ->
  (to_i64 n = Z.of_N n /\ Z.of_N n < 9223372036854775808) \/
  (to_i64 n = Z.of_N n - M64 /\ 9223372036854775808 <= Z.of_N n).
Proof.
  intros H. unfold to_i64. rewrite wrap_small by assumption.
  destruct (Z.ltb_spec (Z.of_N n) 9223372036854775808); [left|right]; split; auto.
Qed.

Lemma to_i64_range n : is_i64 (to_i64 n).
Proof.
  unfold to_i64, is_i64. pose proof (wrap_lt n) as H. apply N2Z.inj_lt in H. change (Z.of_N W64) with M64 in H.
  unfold M64 in H. destruct (Z.ltb_spec (Z.of_N (wrap n)) 9223372036854775808); lia.
Qed.

Lemma to_i64_eqm n : (n < W64)%N -> (to_i64 n) mod M64 = Z.of_N n.
Proof.
  intros H. pose proof H as H'. apply N2Z.inj_lt in H'. change (Z.of_N W64) with M64 in H'.
  destruct (to_i64_cases n H) as [[-> _]|[-> _]].
  - apply Z.mod_small. lia.
  - replace (Z.of_N n - M64) with (Z.of_N n + (-1) * M64) by ring.
    rewrite Z.mod_add by discriminate. apply Z.mod_small. lia.
Qed.

Lemma iwrap_eqm z : (iwrap z) mod M64 = z mod M64.
Proof. unfold iwrap. rewrite to_i64_eqm by apply to_u64_lt. apply to_u64_Z. Qed.

Lemma iwrap_congr z1 z2 : z1 mod M64 = z2 mod M64 -> iwrap z1 = iwrap z2.
Proof. intros H. unfold iwrap, to_u64. change 18446744073709551616 with M64. now rewrite H. Qed.

Lemma iwrap_small z : is_i64 z -> iwrap z = z.
Proof.
  unfold is_i64. intros H. unfold iwrap.
  destruct (to_i64_cases (to_u64 z) (to_u64_lt z)) as [[-> L]|[-> L]]; rewrite to_u64_Z in *.
  - destruct (Z.ltb_spec z 0).
    + exfalso. replace z with ((z + M64) + (-1) * M64) in L by ring. rewrite Z.mod_add in L by discriminate.
      rewrite Z.mod_small in L by (unfold M64; lia). unfold M64 in L. lia.
    + apply Z.mod_small. unfold M64. lia.
  - destruct (Z.ltb_spec z 0).
    + replace z with ((z + M64) + (-1) * M64) at 1 by ring. rewrite Z.mod_add by discriminate.
      rewrite Z.mod_small by (unfold M64; lia). ring.
    + exfalso. rewrite Z.mod_small in L by (unfold M64; lia). lia.
Qed.

(** *** the repaired DiscreteUniform sampler stays in [lower, upper] (every i64 interval except the
    full range, whose 2^64 points do not fit the u64 modulus) *)
Lemma du_sample_i64_in_range fuel lo hi s z s' :
  is_i64 lo -> is_i64 hi -> lo <= hi -> hi - lo + 1 < M64 ->
  du_sample_i64 fuel (lo, hi) s = Ok (z, s') -> lo <= z <= hi.
Proof.
  intros Hlo Hhi Hle Hspan H. unfold du_sample_i64, i64_less_than in H.
  set (arg := iwrap (iwrap (hi - lo) + 1)) in H.
  assert (Harg : Z.of_N (to_u64 arg) = hi - lo + 1).
  { rewrite to_u64_Z. unfold arg. rewrite iwrap_eqm. rewrite <- Z.add_mod_idemp_l by discriminate.
    rewrite iwrap_eqm. rewrite Z.add_mod_idemp_l by discriminate. apply Z.mod_small. lia. }
  destruct (u64_less_than fuel (to_u64 arg) s) as [[r s1]| |] eqn:E; cbn in H; try discriminate.
  inversion H; subst. clear H.
  apply u64_less_than_in_range in E; [|lia].
  assert (Hr : (r < W64)%N) by (pose proof (to_u64_lt arg); lia).
  assert (R : iwrap (lo + to_i64 r) = lo + Z.of_N r).
  { rewrite (iwrap_congr _ (lo + Z.of_N r)).
    - apply iwrap_small. unfold is_i64 in *. lia.
    - rewrite <- (Z.add_mod_idemp_r lo (to_i64 r) M64) by discriminate.
      rewrite to_i64_eqm by assumption. reflexivity. }
  rewrite R. lia.
Qed.

Lemma du_sample_i64_never_fails fuel d s : du_sample_i64 fuel d s <> Fail.
Proof.
  unfold du_sample_i64, i64_less_than. destruct d as [lo hi].
  pose proof (u64_less_than_never_fails fuel (to_u64 (iwrap (iwrap (hi - lo) + 1))) s) as NF.
  destruct (u64_less_than _ _ s) as [[r s1]| |]; cbn; congruence.
Qed.

(** the single-point distribution: always its point, one draw, no fuel needed *)
Lemma du_sample_i64_degenerate fuel a s :
  is_i64 a -> du_sample_i64 fuel (a, a) s = Ok (a, snd (u64 s)).
Proof.
  intros Ha. unfold du_sample_i64, i64_less_than. rewrite Z.sub_diag.
  change (to_u64 (iwrap (iwrap 0 + 1))) with 1%N.
  rewrite u64_less_than_one. cbn. change (to_i64 0) with 0. rewrite Z.add_0_r, iwrap_small by assumption.
  reflexivity.
Qed.

(** finding (outside C19's quantifier): the full i64 range has 2^64 points, the span wraps to 0 and
    `u64_less_than(0)` is constantly 0, so the sampler always returns [lower] (release profile) *)
Lemma du_sample_i64_full_range_constant fuel s :
  du_sample_i64 fuel (-9223372036854775808, 9223372036854775807) s = Ok (-9223372036854775808, snd (u64 s)).
Proof.
  unfold du_sample_i64, i64_less_than.
  change (to_u64 (iwrap (iwrap (9223372036854775807 - -9223372036854775808) + 1))) with 0%N.
  unfold u64_less_than. destruct (u64 s) as [r s1]. unfold mul_high, wmul, wrap. rewrite N.mul_0_r.
  cbn. reflexivity.
Qed.

(** D11: the ORIGINAL sampler (alea::i64_in_range, which asserts max > min) panics on it *)
Lemma i64_in_range_degenerate_panics fuel a s : i64_in_range fuel a a s = Fail.
Proof. unfold i64_in_range. now rewrite Z.ltb_irrefl. Qed.

Lemma du_sample_original_degenerate_panics fuel a s : du_sample_i64_original fuel (a, a) s = Fail.
Proof. apply i64_in_range_degenerate_panics. Qed.

(** *** the index source of the resampling functions *)
Lemma du_draw_Z_in_range fuel n s i s' :
  (1 <= n)%nat -> Z.of_nat n < 9223372036854775808 ->
  du_draw_Z fuel (randomizer n) s = Some (i, s') -> (i < n)%nat.
Proof.
  intros Hn Hb H. unfold du_draw_Z, randomizer in H.
  destruct (du_sample_i64 fuel (0, Z.of_nat n - 1) s) as [[z s1]| |] eqn:E; cbn in H; try discriminate.
  inversion H; subst. apply du_sample_i64_in_range in E; unfold is_i64, M64; try lia.
Qed.

(** on a length-1 vector the index source always answers 0 — on the integer path and on the binary64
    path the implementation takes (`i64 as f64 as usize`) *)
Lemma du_draw_Z_one fuel s : du_draw_Z fuel (randomizer 1) s = Some (0%nat, snd (u64 s)).
Proof.
  unfold du_draw_Z, randomizer. change (Z.of_nat 1 - 1) with 0.
  rewrite du_sample_i64_degenerate by (unfold is_i64; lia). reflexivity.
Qed.

Lemma du_draw_float_one fuel s : du_draw FO0 fuel (randomizer 1) s = Some (0%nat, snd (u64 s)).
Proof.
  unfold du_draw, du_sample, randomizer. change (Z.of_nat 1 - 1) with 0.
  rewrite du_sample_i64_degenerate by (unfold is_i64; lia). cbn [res_bind fst snd res_opt].
  replace (as_usize FO0 (of_i64 FO0 0)) with 0%nat by (vm_compute; reflexivity). reflexivity.
Qed.

Local Close Scope Z_scope.

(** ** Lemire's range reduction is unbiased (ext)

    One iteration of `u64_less_than(max)` looks at one 64-bit word [r]: it is accepted iff the low half
    of [r * max] is at least [t = 2^64 mod max], and then the result is the high half.  [lemire_accept]
    is that test; [u64_less_than_step] shows the model is exactly "draw, accept or re-draw";
    [lemire_unbiased] shows that for every residue [k < max] the accepted words that produce [k] are
    exactly [floor(2^64 / max)] consecutive integers: the same count for every [k]. *)
Local Open Scope Z_scope.
Lemma lemire_count_Z (W max k r q t hi lo r0 e : Z) :
  0 < max -> 0 <= k -> 0 <= r -> W = max * q + t -> 0 <= t < max ->
  r * max = W * hi + lo -> 0 <= lo < W ->
  k * W + t + max - 1 = max * r0 + e -> 0 <= e < max ->
  ((t <= lo /\ hi = k) <-> (r0 <= r < r0 + q)).
Proof.
  intros Hm Hk Hr HW Ht Hrm Hlo Hr0 He. split.
  - intros [Hl ->]. split.
    + destruct (Z_lt_le_dec r r0) as [L|L]; [|assumption]. exfalso.
      assert (max * (r + 1) <= max * r0) by (apply Z.mul_le_mono_nonneg_l; lia). lia.
    + destruct (Z_lt_le_dec r (r0 + q)) as [L|L]; [assumption|]. exfalso.
      assert (max * (r0 + q) <= max * r) by (apply Z.mul_le_mono_nonneg_l; lia). lia.
  - intros [L1 L2].
    assert (max * r0 <= max * r) by (apply Z.mul_le_mono_nonneg_l; lia).
    assert (max * r <= max * (r0 + q - 1)) by (apply Z.mul_le_mono_nonneg_l; lia).
    assert (hi = k) by nia. subst. split; [nia|reflexivity].
Qed.
Local Close Scope Z_scope.

Local Open Scope N_scope.
Definition lemire_accept (max r : N) : bool := negb (wmul r max <? W64 mod max).

Lemma wneg_mod max : 0 < max -> max < W64 -> wneg max mod max = W64 mod max.
Proof.
  intros H0 H1. unfold wneg, wrap. rewrite (N.mod_small max W64) by assumption.
  rewrite (N.mod_small (W64 - max) W64) by lia.
  symmetry. rewrite <- (N.mod_add (W64 - max) 1 max) by lia. f_equal. lia.
Qed.

Lemma lemire_loop_done fuel max t hi lo s : t <= lo -> lemire_loop fuel max t hi lo s = Ok (hi, s).
Proof. intros H. apply N.ltb_ge in H. destruct fuel; cbn [lemire_loop]; now rewrite H. Qed.

Lemma u64_less_than_step fuel max s :
  0 < max -> max < W64 ->
  u64_less_than fuel max s =
  let (r, s') := u64 s in
  if lemire_accept max r then Ok (mul_high r max, s')
  else match fuel with O => Fuel | S f => u64_less_than f max s' end.
Proof.
  intros H0 H1. unfold u64_less_than at 1. destruct (u64 s) as [r s'].
  rewrite wneg_mod by assumption. unfold lemire_accept.
  pose proof (N.mod_lt W64 max ltac:(lia)) as Ht. set (t := W64 mod max) in *.
  destruct (N.ltb_spec (wmul r max) max) as [L|L].
  - destruct (N.ltb_spec (wmul r max) t) as [L2|L2]; cbn [negb].
    + destruct fuel as [|f]; cbn [lemire_loop]; rewrite (proj2 (N.ltb_lt _ _) L2); [reflexivity|].
      unfold u64_less_than. destruct (u64 s') as [r1 s1]. rewrite wneg_mod by assumption. fold t.
      destruct (N.ltb_spec (wmul r1 max) max) as [L3|L3]; [reflexivity|].
      apply lemire_loop_done. lia.
    + apply lemire_loop_done. assumption.
  - destruct (N.ltb_spec (wmul r max) t) as [L2|L2]; [lia|reflexivity].
Qed.

Lemma lemire_unbiased max k :
  0 < max -> max < W64 -> k < max ->
  exists r0, forall r, r < W64 ->
    (lemire_accept max r = true /\ mul_high r max = k) <-> (r0 <= r < r0 + W64 / max).
Proof.
  intros H0 H1 Hk. exists ((k * W64 + W64 mod max + max - 1) / max). intros r Hr.
  unfold lemire_accept, wmul, wrap, mul_high. rewrite negb_true_iff, N.ltb_ge.
  pose proof (N.div_mod (r * max) W64 ltac:(discriminate)) as D1.
  pose proof (N.mod_lt (r * max) W64 ltac:(discriminate)) as D2.
  pose proof (N.div_mod W64 max ltac:(lia)) as D3.
  pose proof (N.mod_lt W64 max ltac:(lia)) as D4.
  pose proof (N.div_mod (k * W64 + W64 mod max + max - 1) max ltac:(lia)) as D5.
  pose proof (N.mod_lt (k * W64 + W64 mod max + max - 1) max ltac:(lia)) as D6.
  set (hi := r * max / W64) in *. set (lo := (r * max) mod W64) in *.
  set (q := W64 / max) in *. set (t := W64 mod max) in *.
  set (r0 := (k * W64 + t + max - 1) / max) in *. set (e := (k * W64 + t + max - 1) mod max) in *.
  clearbody hi lo q t r0 e. revert H1 Hr D1 D2 D3 D5. generalize W64 as W. intros W H1 Hr D1 D2 D3 D5.
  pose proof (lemire_count_Z (Z.of_N W) (Z.of_N max) (Z.of_N k) (Z.of_N r) (Z.of_N q) (Z.of_N t)
                (Z.of_N hi) (Z.of_N lo) (Z.of_N r0) (Z.of_N e)) as H.
  lia.
Qed.
Local Close Scope N_scope.

(** `alea::f64()` lies in [0, 1): on the real carrier (53 random bits times 2^-53; every operation is
    exact on binary64 too, the product of an integer below 2^53 by a power of two) *)
Lemma f64_unit_interval (s : rng) : (0 <= fst (f64 RO s) < 1)%R.
Proof.
  unfold f64. pose proof (u64_out_lt s) as L. destruct (u64 s) as [r s']. cbn [fst snd] in *.
  unfold cf64. cbn [mul div one ofZ RO].
  assert (H : (Z.of_N (N.shiftr r 11) < 9007199254740992)%Z).
  { rewrite N.shiftr_div_pow2. apply N2Z.inj_lt in L. rewrite N2Z.inj_div.
    change (Z.of_N (2 ^ 11)) with 2048%Z. change (Z.of_N W64) with 18446744073709551616%Z in L.
    apply Z.div_lt_upper_bound; lia. }
  assert (H0 : (0 <= Z.of_N (N.shiftr r 11))%Z) by lia.
  apply IZR_lt in H. apply IZR_le in H0.
  set (x := IZR (Z.of_N (N.shiftr r 11))) in *.
  split.
  - apply Rmult_le_pos; [assumption|]. unfold Rdiv. rewrite Rmult_1_l. left. apply Rinv_0_lt_compat. lra.
  - unfold Rdiv. rewrite Rmult_1_l. apply Rmult_lt_reg_r with 9007199254740992%R; [lra|].
    rewrite Rmult_assoc, Rinv_l by lra. lra.
Qed.

(** length-1 data (D11 repaired): bootstrap returns copies of the vector, shuffles return it *)
Section Length1.
  Context {T : Type}.
  Variable draw : rng -> option (nat * rng).
  Hypothesis draw_one : forall s, draw s = Some (0, snd (u64 s)).

  Lemma good_one : good_source draw 1 (fun _ => True).
  Proof. intros s _. exists 0, (snd (u64 s)). rewrite draw_one. repeat split; auto. Qed.

  Lemma bootstrap_length1 (x : T) nb s :
    exists s', bootstrap draw [x] nb s = Some (repeat [x] nb, s').
  Proof.
    destruct (bootstrap_accepts draw [x] (fun _ => True) nb s) as (out & s' & E & _);
      [discriminate|apply good_one|exact I|].
    exists s'. rewrite E. f_equal. f_equal.
    pose proof (bootstrap_shape draw _ _ _ _ _ E) as [L F].
    pose proof (bootstrap_members draw _ _ _ _ _ E) as (idxs & _ & _ & _ & _ & Mem).
    subst nb. clear E. induction out as [|r out IH]; [reflexivity|].
    cbn. inversion F; subst. f_equal.
    - destruct r as [|y [|? ?]]; try discriminate. f_equal.
      destruct (Mem [y] y) as [->|[]]; [now left|now left|reflexivity].
    - apply IH; [assumption|]. intros r' x' Hr' Hx'. apply (Mem r' x'); [now right|assumption].
  Qed.

  Lemma shuffle_length1 (x : T) s : exists s', shuffle draw [x] s = Some ([x], s').
  Proof.
    destruct (shuffle_accepts draw (fun _ => True) [x] s) as (out & s' & E & _);
      [discriminate|apply good_one|exact I|].
    exists s'. rewrite E. apply shuffle_perm in E. apply Permutation_sym, Permutation_length_1_inv in E.
    now subst.
  Qed.

  Lemma shuffle_two_length1 (x y : T) s : exists s', shuffle_two draw [x] [y] s = Some ([x], [y], s').
  Proof.
    destruct (shuffle_two_accepts draw (fun _ => True) [x] [y] s) as (oa & ob & s' & E & _);
      [discriminate|reflexivity|apply good_one|exact I|].
    exists s'. rewrite E. apply shuffle_two_pairs in E. destruct E as (_ & Pa & Pb).
    apply Permutation_sym, Permutation_length_1_inv in Pa, Pb. now subst.
  Qed.
End Length1.
