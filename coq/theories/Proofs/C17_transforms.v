(** * C17: the transforms of [functions/statistical.rs] on the reals ([RO]). *)
From Coq Require Import Reals Lra List Bool Floats.
From Compute Require Import Base.Ops Model.Transforms Spec.Transforms.
Import ListNotations.
Local Open Scope R_scope.

(** ** comparisons of [RO] *)
Lemma Rleb_true x y : x <= y -> Rleb x y = true.
Proof. intros H. unfold Rleb. destruct (Rle_dec x y); [reflexivity|contradiction]. Qed.
Lemma Rleb_false x y : y < x -> Rleb x y = false.
Proof. intros H. unfold Rleb. destruct (Rle_dec x y); [lra|reflexivity]. Qed.
Lemma Rltb_true x y : x < y -> Rltb x y = true.
Proof. intros H. unfold Rltb. destruct (Rlt_dec x y); [reflexivity|contradiction]. Qed.
Lemma Rltb_false x y : y <= x -> Rltb x y = false.
Proof. intros H. unfold Rltb. destruct (Rlt_dec x y); [lra|reflexivity]. Qed.
Lemma Reqb_true x : Reqb x x = true.
Proof. unfold Reqb. destruct (Req_EM_T x x); [reflexivity|contradiction]. Qed.
Lemma is_nan_RO x : is_nan RO x = false.
Proof. unfold is_nan. cbn [eqb RO]. rewrite Reqb_true. reflexivity. Qed.

(** ** logistic *)
Lemma logistic_RO x : logistic RO x = 1 / (1 + exp (- x)).
Proof. reflexivity. Qed.

Lemma logistic_def x : logistic RO x = sigma x.
Proof.
  rewrite logistic_RO. unfold sigma. rewrite exp_Ropp.
  assert (H := exp_pos x). field. split; lra.
Qed.

Lemma logistic_range x : 0 < logistic RO x < 1.
Proof.
  rewrite logistic_RO. assert (H := exp_pos (- x)). split.
  - apply Rdiv_lt_0_compat; lra.
  - unfold Rdiv. rewrite Rmult_1_l. rewrite <- Rinv_1 at 2.
    apply Rinv_lt_contravar; lra.
Qed.

Lemma logistic_strictly_monotone x y : x < y -> logistic RO x < logistic RO y.
Proof.
  intros Hxy. rewrite !logistic_RO.
  assert (Hx := exp_pos (- x)). assert (Hy := exp_pos (- y)).
  assert (He : exp (- y) < exp (- x)) by (apply exp_increasing; lra).
  unfold Rdiv. rewrite !Rmult_1_l. apply Rinv_lt_contravar; [|lra].
  apply Rmult_lt_0_compat; lra.
Qed.

Lemma logistic_monotone x y : x <= y -> logistic RO x <= logistic RO y.
Proof.
  intros [H| ->]; [left; apply logistic_strictly_monotone; exact H|right; reflexivity].
Qed.

Lemma logistic_symmetry x : logistic RO (- x) = 1 - logistic RO x.
Proof.
  rewrite !logistic_RO. rewrite Ropp_involutive, exp_Ropp.
  assert (H := exp_pos x). field. split; lra.
Qed.

(** ** logit *)
Lemma logit_RO_in p : 0 <= p <= 1 -> logit RO p = Some (ln (p / (1 - p))).
Proof.
  intros [H0 H1]. unfold logit. cbn [leb RO zero one].
  rewrite (Rleb_true 0 p H0), (Rleb_true p 1 H1). reflexivity.
Qed.

Lemma logit_rejects p : p < 0 \/ 1 < p -> logit RO p = None.
Proof.
  intros [H|H]; unfold logit; cbn [leb RO zero one].
  - rewrite (Rleb_false 0 p H). reflexivity.
  - rewrite (Rleb_false p 1 H), andb_false_r. reflexivity.
Qed.

Lemma logit_accepts_iff p : logit RO p <> None <-> 0 <= p <= 1.
Proof.
  split.
  - intros H. destruct (Rlt_dec p 0) as [Hn|Hn]; [exfalso; apply H, logit_rejects; left; exact Hn|].
    destruct (Rlt_dec 1 p) as [Hp|Hp]; [exfalso; apply H, logit_rejects; right; exact Hp|]. lra.
  - intros H. rewrite logit_RO_in by exact H. discriminate.
Qed.

Lemma logit_logodds p : 0 < p < 1 -> logit RO p = Some (logodds p).
Proof.
  intros H. rewrite logit_RO_in by lra. unfold logodds, Rdiv.
  rewrite ln_mult; [|lra|apply Rinv_0_lt_compat; lra]. rewrite ln_Rinv by lra. reflexivity.
Qed.

Lemma logit_logistic x : logit RO (logistic RO x) = Some x.
Proof.
  assert (R := logistic_range x). rewrite logit_RO_in by lra. f_equal.
  replace (logistic RO x / (1 - logistic RO x)) with (exp x); [apply ln_exp|].
  rewrite logistic_RO. rewrite exp_Ropp. assert (H := exp_pos x). field. repeat split; lra.
Qed.

Lemma logistic_logit p l : 0 < p < 1 -> logit RO p = Some l -> logistic RO l = p.
Proof.
  intros H E. rewrite logit_RO_in in E by lra. injection E as <-.
  rewrite logistic_RO, exp_Ropp, exp_ln.
  - field. split; lra.
  - apply Rdiv_lt_0_compat; lra.
Qed.

(** NaN is rejected (binary64, any libm table) *)
Lemma logit_rejects_nan t : logit (FO t) nan = None.
Proof. reflexivity. Qed.

(** ** Box-Cox *)
Lemma boxcox_body_RO y l : boxcox_body RO y l = boxcox_spec y l.
Proof.
  (* the code computes ln y * ((e^u - 1) / u) with u = l * ln y, and ln y when l = 0 or u = 0 (then ln y = 0 = (y^l - 1)/l) *)
  unfold boxcox_body, boxcox_spec, Rpower. cbn [eqb mul div sub f1 RO zero one ln_]. unfold Reqb, Rf1.
  destruct (Req_EM_T l 0) as [El|Nl]; [reflexivity|]. cbn [orb].
  destruct (Req_EM_T (l * ln y) 0) as [Eu|Nu].
  - rewrite Eu, exp_0. destruct (Rmult_integral _ _ Eu) as [E|E]; [contradiction|]. rewrite E. field. exact Nl.
  - assert (Hy : ln y <> 0) by (intro E; apply Nu; rewrite E; ring).
    field. split; assumption.
Qed.

Lemma boxcox_def x l : 0 < x -> boxcox RO x l = Some (boxcox_spec x l).
Proof.
  intros H. unfold boxcox. cbn [ltb RO zero]. rewrite (Rltb_true 0 x H), boxcox_body_RO. reflexivity.
Qed.
Lemma boxcox_rejects x l : x <= 0 -> boxcox RO x l = None.
Proof. intros H. unfold boxcox. cbn [ltb RO zero]. rewrite (Rltb_false 0 x H). reflexivity. Qed.
Lemma boxcox_domain x l : boxcox RO x l <> None <-> 0 < x.
Proof.
  split.
  - intros H. destruct (Rlt_dec 0 x) as [|Hn]; [assumption|]. exfalso. apply H, boxcox_rejects. lra.
  - intros H. rewrite boxcox_def by exact H. discriminate.
Qed.
Lemma boxcox_lambda_zero x : 0 < x -> boxcox RO x 0 = Some (ln x).
Proof.
  intros H. rewrite boxcox_def by exact H. unfold boxcox_spec.
  destruct (Req_EM_T 0 0); [reflexivity|contradiction].
Qed.
Lemma boxcox_power x l : 0 < x -> l <> 0 -> boxcox RO x l = Some ((Rpower x l - 1) / l).
Proof.
  intros H Hl. rewrite boxcox_def by exact H. unfold boxcox_spec.
  destruct (Req_EM_T l 0); [contradiction|reflexivity].
Qed.

Lemma boxcox_shifted_def x l a : 0 < x + a -> boxcox_shifted RO x l a = Some (boxcox_spec (x + a) l).
Proof.
  intros H. unfold boxcox_shifted. cbn [ltb add RO zero]. rewrite (Rltb_true 0 (x + a) H), boxcox_body_RO. reflexivity.
Qed.
Lemma boxcox_shifted_rejects x l a : x + a <= 0 -> boxcox_shifted RO x l a = None.
Proof. intros H. unfold boxcox_shifted. cbn [ltb add RO zero]. rewrite (Rltb_false 0 (x + a) H). reflexivity. Qed.
Lemma boxcox_shifted_domain x l a : boxcox_shifted RO x l a <> None <-> 0 < x + a.
Proof.
  split.
  - intros H. destruct (Rlt_dec 0 (x + a)) as [|Hn]; [assumption|]. exfalso. apply H, boxcox_shifted_rejects. lra.
  - intros H. rewrite boxcox_shifted_def by exact H. discriminate.
Qed.
Lemma boxcox_shifted_zero_shift x l : boxcox_shifted RO x l 0 = boxcox RO x l.
Proof. unfold boxcox_shifted, boxcox. cbn [add RO]. rewrite Rplus_0_r. reflexivity. Qed.

(** the lambda = 0 branch is the limit of the power branch: (x^l - 1)/l -> ln x as l -> 0 *)
Lemma boxcox_limit_at_zero x : 0 < x ->
  forall eps, 0 < eps -> exists delta, 0 < delta /\
    forall l, l <> 0 -> Rabs l < delta -> Rabs ((Rpower x l - 1) / l - ln x) < eps.
Proof.
  intros Hx eps Heps. set (c := ln x).
  destruct (Req_dec c 0) as [Hc|Hc].
  - exists 1. split; [lra|]. intros l Hl _. unfold Rpower. fold c. rewrite Hc, Rmult_0_r, exp_0.
    replace ((1 - 1) / l - 0) with 0 by (field; exact Hl). rewrite Rabs_R0. exact Heps.
  - assert (Hac : 0 < Rabs c) by (apply Rabs_pos_lt; exact Hc).
    destruct (derivable_pt_lim_exp_0 (eps / Rabs c)) as [d Hd]; [apply Rdiv_lt_0_compat; assumption|].
    exists (d / Rabs c). split; [apply Rdiv_lt_0_compat; [apply cond_pos|assumption]|].
    intros l Hl Hlt. unfold Rpower. fold c.
    assert (Hh : l * c <> 0) by (apply Rmult_integral_contrapositive_currified; assumption).
    assert (Hb : Rabs (l * c) < d).
    { rewrite Rabs_mult. apply (Rmult_lt_compat_r (Rabs c)) in Hlt; [|assumption].
      replace (d / Rabs c * Rabs c) with (d : R) in Hlt by (field; lra). exact Hlt. }
    specialize (Hd (l * c) Hh Hb). rewrite Rplus_0_l, exp_0 in Hd.
    replace ((exp (l * c) - 1) / l - c) with (c * ((exp (l * c) - 1) / (l * c) - 1)) by (field; split; assumption).
    rewrite Rabs_mult. apply (Rmult_lt_compat_l (Rabs c)) in Hd; [|assumption].
    replace (Rabs c * (eps / Rabs c)) with eps in Hd by (field; lra). exact Hd.
Qed.

(** out-of-domain and NaN arguments are rejected on binary64 whatever libm returns *)
Lemma boxcox_rejects_nan t l : boxcox (FO t) nan l = None.
Proof. reflexivity. Qed.
Lemma boxcox_rejects_zero t l : boxcox (FO t) 0%float l = None /\ boxcox (FO t) (-0)%float l = None.
Proof. split; reflexivity. Qed.

(** ** the hypotheses above are satisfiable on non-trivial instances *)
Example logistic_logit_ex : logit RO (1 / 4) = Some (- ln 3) /\ logistic RO (- ln 3) = 1 / 4.
Proof.
  assert (E : logit RO (1 / 4) = Some (- ln 3)).
  { rewrite logit_RO_in by lra. f_equal. replace (1 / 4 / (1 - 1 / 4)) with (/ 3) by field. apply ln_Rinv. lra. }
  split; [exact E|]. apply (logistic_logit (1 / 4)); [lra|exact E].
Qed.
Example logit_rejects_ex : logit RO (-1 / 1000) = None /\ logit RO (1001 / 1000) = None.
Proof. split; apply logit_rejects; [left|right]; lra. Qed.
Example boxcox_ex : boxcox RO (exp 1) 0 = Some 1 /\ boxcox RO 3 2 = Some 4 /\ boxcox RO 0 2 = None.
Proof.
  split; [rewrite boxcox_lambda_zero by apply exp_pos; f_equal; apply ln_exp|].
  split; [|apply boxcox_rejects; lra].
  rewrite boxcox_power by lra. f_equal.
  replace (Rpower 3 2) with (3 * 3).
  - field.
  - replace 2 with (1 + 1) by lra. rewrite Rpower_plus, Rpower_1 by lra. reflexivity.
Qed.
(** the repaired guard: x = 1, alpha = 2 is in the domain (the original guard x > alpha rejected it);
    x = -1, alpha = -2 is not (the original guard accepted it and returned ln(-3)) *)
Example boxcox_shifted_ex :
  boxcox_shifted RO 1 0 2 = Some (ln 3) /\ boxcox_shifted RO (-1) 0 (-2) = None.
Proof.
  split.
  - rewrite boxcox_shifted_def by lra. unfold boxcox_spec. destruct (Req_EM_T 0 0); [|contradiction]. replace (1 + 2) with 3 by lra. reflexivity.
  - apply boxcox_shifted_rejects. lra.
Qed.
