(** Proofs for C04, part 6 (extension): binary64 is a carrier of the standard model whenever no overflow occurs, hence
    the worst-case bound of part 5 holds for the crate's unrolled [sum] on binary64: for every slice of finite
    doubles whose computed sum is finite (no intermediate overflow),
        | sum x - Sigma x_i |  <=  ((1 + 2^-53)^n - 1) * Sigma |x_i| .
    Underflow needs no side condition (a subnormal sum of two doubles is exact). *)
From Coq Require Import List Arith Bool ZArith Reals Lra Lia Floats.
From Flocq Require Import Core Relative Plus_error BinarySingleNaN PrimFloat.
From Compute Require Import Base.Ops Base.ListMat Model.Reduce Spec.Vops Proofs.C04Red Proofs.C04Err.
Import ListNotations.
Notation pfloat := Coq.Floats.PrimFloat.float.
Local Open Scope R_scope.
Local Existing Instance Flocq.IEEE754.PrimFloat.Hprec.
Local Existing Instance Flocq.IEEE754.PrimFloat.Hmax.

(** ** a generic simulation lemma for the unrolled sum: a map [phi] that commutes with every addition whose
    result satisfies [P], where [P] of a result implies [P] of the operands *)
Section Sim.
  Context {A B : Type} (O1 : Ops A) (O2 : Ops B) (phi : A -> B) (P : A -> Prop).
  Hypothesis Hadd : forall a b, P (add O1 a b) -> P a /\ P b /\ phi (add O1 a b) = add O2 (phi a) (phi b).

  Lemma fold_sim (l : list A) : forall s,
    P (fold_left (add O1) l s) ->
    P s /\ phi (fold_left (add O1) l s) = fold_left (add O2) (map phi l) (phi s).
  Proof.
    induction l as [|a l IH]; intros s H; cbn [fold_left map] in *; [auto|].
    destruct (IH _ H) as [Hp He]. destruct (Hadd _ _ Hp) as (Hs & _ & Ha).
    split; [exact Hs|]. rewrite He, Ha. reflexivity.
  Qed.

  Lemma sum8_sim fuel : forall (x : list A) (s : A),
    P (sum8 O1 fuel s x) ->
    P s /\ phi (sum8 O1 fuel s x) = sum8 O2 fuel (phi s) (map phi x).
  Proof.
    induction fuel as [|fuel IH]; intros x s H; [cbn [sum8] in *; auto|].
    destruct x as [|x0 [|x1 [|x2 [|x3 [|x4 [|x5 [|x6 [|x7 x']]]]]]]];
      try (cbn [sum8 map] in *; apply (fold_sim _ s H)).
    cbn [sum8 map] in *.
    destruct (IH _ _ H) as [Hp He]. destruct (Hadd _ _ Hp) as (Hs & Hc & Ha).
    split; [exact Hs|]. rewrite He, Ha. f_equal. f_equal.
    change (add O1 (add O1 (add O1 (add O1 (add O1 (add O1 (add O1 x0 x1) x2) x3) x4) x5) x6) x7)
      with (fold_left (add O1) [x1; x2; x3; x4; x5; x6; x7] x0) in Hc |- *.
    destruct (fold_sim _ _ Hc) as [_ Hf]. exact Hf.
  Qed.

  Lemma sum_sim (x : list A) :
    phi (zero O1) = zero O2 -> P (Reduce.sum O1 x) -> phi (Reduce.sum O1 x) = Reduce.sum O2 (map phi x).
  Proof.
    intros Hz H. unfold Reduce.sum in *. destruct (sum8_sim _ _ _ H) as [_ He].
    rewrite He, Hz, map_length. reflexivity.
  Qed.
End Sim.

(** ** binary64 *)
Definition B2Rf (x : pfloat) : R := B2R (Prim2B x).
Definition finite (x : pfloat) : Prop := is_finite (Prim2B x) = true.
Definition rnd64 : R -> R := round radix2 (FLT_exp (-1074) 53) ZnearestE.
Definition F64 : R -> Prop := generic_format radix2 (FLT_exp (-1074) 53).
Definition u64 : R := u_ro radix2 53.

Lemma u64_val : u64 = / 2 ^ 53.
Proof.
  unfold u64, u_ro. change (/ 2) with (bpow radix2 (-1)). rewrite <- bpow_plus.
  change (-1 + (-53 + 1))%Z with (-53)%Z. change (bpow radix2 (-53)) with (/ IZR (Z.pow_pos 2 53)).
  f_equal. rewrite (pow_IZR 2 53). f_equal. reflexivity.
Qed.

Lemma u64_nonneg : 0 <= u64.
Proof. unfold u64. apply u_ro_pos. Qed.

Lemma F64_0 : F64 0.
Proof. apply generic_format_0. Qed.

Lemma F64_B2Rf x : F64 (B2Rf x).
Proof. unfold F64, B2Rf. apply (generic_format_B2R prec emax). Qed.

Lemma rnd64_model a b :
  F64 a -> F64 b -> F64 (rnd64 (a + b)) /\ Rabs (rnd64 (a + b) - (a + b)) <= u64 * Rabs (a + b).
Proof.
  intros Fa Fb. split.
  - apply generic_format_round; [apply FLT_exp_valid; reflexivity|apply valid_rnd_N].
  - destruct (FLT_plus_error_N_ex radix2 (-1074) 53 (fun z => negb (Z.even z)) a b Fa Fb) as (eps & He & Hr).
    unfold rnd64. rewrite Hr.
    replace ((a + b) * (1 + eps) - (a + b)) with ((a + b) * eps) by ring.
    rewrite Rabs_mult, Rmult_comm. apply Rmult_le_compat_r; [apply Rabs_pos|].
    eapply Rle_trans; [exact He|]. apply u_rod1pu_ro_le_u_ro.
Qed.

(** a finite sum of two doubles has finite operands and is the rounded exact sum *)
Lemma fadd_finite (x y : pfloat) :
  finite (x + y)%float -> finite x /\ finite y /\ B2Rf (x + y)%float = rnd64 (B2Rf x + B2Rf y).
Proof.
  unfold finite, B2Rf. rewrite add_equiv.
  destruct (is_finite (Prim2B x)) eqn:Fx.
  - destruct (is_finite (Prim2B y)) eqn:Fy.
    + intros H. split; [reflexivity|]. split; [reflexivity|].
      pose proof (Bplus_correct prec emax _ _ mode_NE (Prim2B x) (Prim2B y) Fx Fy) as HB.
      destruct (Rlt_bool _ _) in HB.
      * destruct HB as (HR & _). exact HR.
      * destruct HB as (HS & _). exfalso.
        destruct (Bplus mode_NE (Prim2B x) (Prim2B y)); try discriminate H;
          cbn [B2SF] in HS; unfold binary_overflow in HS; cbn [overflow_to_inf] in HS; discriminate HS.
    + intros H. exfalso.
      destruct (Prim2B x) as [sx|sx| |sx mx ex Hx]; try discriminate Fx;
        destruct (Prim2B y) as [sy|sy| |sy my ey Hy]; try discriminate Fy; cbn in H; discriminate H.
  - intros H. exfalso.
    destruct (Prim2B x) as [sx|sx| |sx mx ex Hx]; try discriminate Fx;
      destruct (Prim2B y) as [sy|sy| |sy my ey Hy]; cbn in H; try discriminate H;
      destruct (Bool.eqb sx sy); discriminate H.
Qed.

Lemma B2Rf_zero : B2Rf 0%float = 0.
Proof. unfold B2Rf. assert (H : Prim2B 0%float = B754_zero false) by (apply B2SF_inj; rewrite B2SF_Prim2B; reflexivity). rewrite H. reflexivity. Qed.

(** the crate's [sum] on binary64 is the standard-model [sum] of the real values, when its result is finite *)
Lemma sum_F_sim (tbl : libm_table) (x : list pfloat) :
  finite (Reduce.sum (FO tbl) x) ->
  B2Rf (Reduce.sum (FO tbl) x) = Reduce.sum (RndO rnd64) (map B2Rf x).
Proof.
  intros H. apply (sum_sim (FO tbl) (RndO rnd64) B2Rf finite); [|exact B2Rf_zero|exact H].
  intros a b Hab. cbn [add FO RndO] in *. apply fadd_finite. exact Hab.
Qed.

Theorem sum_F_error (tbl : libm_table) (x : list pfloat) :
  finite (Reduce.sum (FO tbl) x) ->
  Rabs (B2Rf (Reduce.sum (FO tbl) x) - Rsum (map B2Rf x))
  <= ((1 + / 2 ^ 53) ^ length x - 1) * Rsum (map Rabs (map B2Rf x)).
Proof.
  intros H. rewrite sum_F_sim by exact H. rewrite <- u64_val.
  rewrite <- (map_length B2Rf x).
  apply (sum_error u64 u64_nonneg F64 rnd64 F64_0 rnd64_model).
  apply Forall_forall. intros r Hr. apply in_map_iff in Hr. destruct Hr as (f & <- & _). apply F64_B2Rf.
Qed.
