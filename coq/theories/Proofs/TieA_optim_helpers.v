(** * Tie A for C10: the convergence measure of Adam / SGD.  [Generated/optim_helpers.v] is produced on every run by
    tools/tiea/optim_helpers.py (expression translator tools/rsexpr.py) from src/optimize/mod.rs; the generated term and the model's
    [rel_change] (Model/Optim.v) are the same function for EVERY carrier (by conversion). *)
From Coq Require Import List Bool.
From Compute Require Import Base.Ops Base.RsExpr Model.Optim Generated.optim_helpers.

Section TieA.
  Context {T : Type} (O : Ops T).
  Lemma tiea_rel_change : forall new old : T, src_rel_change O new old = rel_change O new old.
  Proof. reflexivity. Qed.
End TieA.
