(** Proofs for C11 (extension), floating point, part 8: the two column sweeps of [lu_solve] on binary64.
    [fwd_elim] (unit lower triangle) and [back_elim] (upper triangle) of Model/LU.v are column-oriented
    ([for k { for i { x[i] -= x[k] * lu[i*n+k] } }]); row by row they perform
        y_i = ( ... ((b'_i - y_0 l_i0) - y_1 l_i1) ... - y_(i-1) l_i,i-1 ) ,
        x_i = ( ... ((y_i - x_(n-1) u_i,n-1) - x_(n-2) u_i,n-2) ... - x_(i+1) u_i,i+1 ) / u_ii ,
    every operation rounded.  Part 1: these recurrences on every carrier.  Part 2: the chain of rounded subtractions on
    binary64, errors relative to the ROUNDED values, so that only the matrix is perturbed:
        | s_0 - ( Sigma_t c_t + r ) |  <=  E(m) ( Sigma_t |c_t| + |r| ) ,   m the length of the chain, r its result.
    Part 3: | b' - L y |_i <= E(n) (|L||y|)_i ,  | y - U x |_i <= E(n) (|U||x|)_i  and the perturbed-matrix forms. *)
From Coq Require Import List Arith Bool ZArith Reals Lra Lia Floats Permutation.
From Flocq Require Import Core Relative Plus_error BinarySingleNaN PrimFloat.
From Compute Require Import Base.Ops Base.ListMat Model.Reduce Model.MatMul Model.Subst Model.LU Spec.Vops Spec.Factor
  Proofs.C04Red Proofs.C04Err Proofs.C04ErrF Proofs.C04ErrDot Proofs.C04ErrNP Proofs.C05 Proofs.LinAlgBase Proofs.C11_Subst
  Proofs.C11_LU Proofs.C11_Forms Proofs.C11_FloatBase Proofs.C11_FloatSubst Proofs.C11_FloatPert Proofs.C11_FloatLU.
Import ListNotations.
Local Open Scope R_scope.
Local Existing Instance Flocq.IEEE754.PrimFloat.Hprec.
Local Existing Instance Flocq.IEEE754.PrimFloat.Hmax.

(** ** Part 1: the sweeps row by row, every carrier *)
Section Sweeps.
  Context {T : Type} (O : Ops T).
  Local Notation z := (zero O).
  Local Notation E := (ent z).

  (** [s = s0; for k in ks { s -= x k * l k }] *)
  Definition sub_chain (x l : nat -> T) (ks : list nat) (s0 : T) : T :=
    fold_left (fun s k => sub O s (mul O (x k) (l k))) ks s0.

  Lemma sub_chain_ext x l x' l' ks s0 :
    (forall k, In k ks -> x k = x' k) -> (forall k, In k ks -> l k = l' k) ->
    sub_chain x l ks s0 = sub_chain x' l' ks s0.
  Proof.
    intros Hx Hl. unfold sub_chain. apply fold_left_ext_in. intros s k Hk. rewrite Hx, Hl by exact Hk. reflexivity.
  Qed.

  Lemma sub_chain_snoc x l ks k s0 : sub_chain x l (ks ++ [k]) s0 = sub O (sub_chain x l ks s0) (mul O (x k) (l k)).
  Proof. unfold sub_chain. rewrite fold_left_app. reflexivity. Qed.

  Lemma gfwd_elim_spec (M : list (list T)) n (x0 : list T) :
    length x0 = n ->
    length (fwd_elim O M n x0) = n /\
    forall i, (i < n)%nat ->
      nth i (fwd_elim O M n x0) z =
      sub_chain (fun k => nth k (fwd_elim O M n x0) z) (fun k => E M i k) (seq 0 i) (nth i x0 z).
  Proof.
    intros Hl. unfold fwd_elim.
    set (step := fun (x : list T) (k : nat) =>
                   let xk := nth k x z in
                   mapi (fun i xi => if (k <? i)%nat then sub O xi (mul O xk (E M i k)) else xi) x).
    assert (H : forall m, (m <= n)%nat ->
              let x := fold_left step (seq 0 m) x0 in
              length x = n /\
              forall i, (i < n)%nat ->
                nth i x z = sub_chain (fun k => nth k x z) (fun k => E M i k) (seq 0 (Nat.min i m)) (nth i x0 z)).
    { induction m as [|m IH]; intros Hm; cbn zeta.
      - cbn [seq fold_left]. split; auto. intros i Hi. rewrite Nat.min_0_r. reflexivity.
      - rewrite seq_S, fold_left_app. cbn [fold_left Nat.add].
        specialize (IH ltac:(lia)). cbn zeta in IH. destruct IH as [Hxl Hx].
        set (x := fold_left step (seq 0 m) x0) in *.
        assert (Hn : forall i, (i < n)%nat ->
                  nth i (step x m) z = if (m <? i)%nat then sub O (nth i x z) (mul O (nth m x z) (E M i m)) else nth i x z).
        { intros i Hi. unfold step. rewrite (nth_mapi _ x i z z) by lia. reflexivity. }
        split; [unfold step; rewrite mapi_length; auto|].
        intros i Hi. rewrite Hn by auto.
        assert (Hsame : forall k, (k <= m)%nat -> (k < n)%nat -> nth k (step x m) z = nth k x z).
        { intros k Hk Hkn. rewrite Hn by exact Hkn. destruct (Nat.ltb_spec m k); [lia|]. reflexivity. }
        destruct (Nat.ltb_spec m i) as [Hmi|Hmi].
        + rewrite Nat.min_r by lia. rewrite seq_S, sub_chain_snoc. cbn [Nat.add].
          rewrite (Hsame m) by lia. f_equal.
          rewrite (Hx i Hi), Nat.min_r by lia.
          apply sub_chain_ext; [|reflexivity]. intros k Hk. apply in_seq in Hk. symmetry. apply Hsame; lia.
        + rewrite Nat.min_l by lia. rewrite (Hx i Hi), Nat.min_l by lia.
          apply sub_chain_ext; [|reflexivity]. intros k Hk. apply in_seq in Hk. symmetry. apply Hsame; lia. }
    specialize (H n (le_n n)). cbn zeta in H. destruct H as [Hxl Hx]. split; auto.
    intros i Hi. rewrite (Hx i Hi) at 1. rewrite Nat.min_l by lia. reflexivity.
  Qed.

  Lemma gback_elim_spec (M : list (list T)) n (y : list T) :
    length y = n ->
    length (back_elim O M n y) = n /\
    forall i, (i < n)%nat ->
      nth i (back_elim O M n y) z =
      div O (sub_chain (fun k => nth k (back_elim O M n y) z) (fun k => E M i k) (rev (seq (S i) (n - S i))) (nth i y z))
            (E M i i).
  Proof.
    intros Hl. unfold back_elim.
    set (step := fun (x : list T) (k : nat) =>
                   let xk := div O (nth k x z) (E M k k) in
                   mapi (fun i xi => if (i <? k)%nat then sub O xi (mul O xk (E M i k))
                                     else if (i =? k)%nat then xk else xi) x).
    assert (H : forall t, (t <= n)%nat ->
              let x := fold_left step (rev (seq (n - t) t)) y in
              length x = n /\
              (forall i, (n - t <= i < n)%nat ->
                 nth i x z = div O (sub_chain (fun k => nth k x z) (fun k => E M i k) (rev (seq (S i) (n - S i))) (nth i y z))
                                   (E M i i)) /\
              (forall i, (i < n - t)%nat ->
                 nth i x z = sub_chain (fun k => nth k x z) (fun k => E M i k) (rev (seq (n - t) t)) (nth i y z))).
    { induction t as [|t IH]; intros Ht; cbn zeta.
      - cbn [seq rev fold_left]. split; auto. split; [intros; lia|]. intros i Hi. reflexivity.
      - replace (n - S t)%nat with (n - t - 1)%nat by lia.
        set (q := (n - t - 1)%nat).
        assert (Hq : (S q = n - t)%nat) by lia.
        cbn [seq]. rewrite Hq. cbn [rev]. rewrite fold_left_app. cbn [fold_left].
        specialize (IH ltac:(lia)). cbn zeta in IH. destruct IH as [Hxl [Hhi Hlo]].
        set (x := fold_left step (rev (seq (n - t) t)) y) in *.
        assert (Hn : forall i, (i < n)%nat ->
                  nth i (step x q) z =
                  if (i <? q)%nat then sub O (nth i x z) (mul O (div O (nth q x z) (E M q q)) (E M i q))
                  else if (i =? q)%nat then div O (nth q x z) (E M q q) else nth i x z).
        { intros i Hi. unfold step. rewrite (nth_mapi _ x i z z) by lia. reflexivity. }
        assert (Hkeep : forall k, (q < k < n)%nat -> nth k (step x q) z = nth k x z).
        { intros k Hk. rewrite Hn by lia. destruct (Nat.ltb_spec k q); [lia|].
          destruct (Nat.eqb_spec k q); [lia|]. reflexivity. }
        assert (Hqv : nth q (step x q) z = div O (nth q x z) (E M q q)).
        { rewrite Hn by lia. rewrite Nat.ltb_irrefl, Nat.eqb_refl. reflexivity. }
        split; [unfold step; rewrite mapi_length; auto|]. split.
        + intros i Hi. destruct (Nat.eq_dec i q) as [->|Hne].
          * rewrite Hqv. rewrite (Hlo q) by lia. rewrite Hq. f_equal.
            replace (n - (n - t))%nat with t by lia.
            apply sub_chain_ext; [|reflexivity]. intros k Hk. apply in_rev, in_seq in Hk. symmetry. apply Hkeep. lia.
          * rewrite Hkeep by lia. rewrite (Hhi i) by lia. f_equal.
            apply sub_chain_ext; [|reflexivity]. intros k Hk. apply in_rev, in_seq in Hk. symmetry. apply Hkeep. lia.
        + intros i Hi. rewrite Hn by lia. destruct (Nat.ltb_spec i q); [|lia].
          rewrite sub_chain_snoc. rewrite Hqv. f_equal.
          rewrite (Hlo i) by lia.
          apply sub_chain_ext; [|reflexivity]. intros k Hk. apply in_rev, in_seq in Hk. symmetry. apply Hkeep. lia. }
    specialize (H n (le_n n)). cbn zeta in H. rewrite Nat.sub_diag in H. destruct H as [Hxl [Hhi _]].
    split; auto. intros i Hi. apply Hhi. lia.
  Qed.
End Sweeps.

(** both sweeps, with the loops written out *)
Lemma lu_solve_sweeps_recurrence {T : Type} (O : Ops T) (M : list (list T)) (n : nat) (x0 : list T) :
  length x0 = n ->
  let y := fwd_elim O M n x0 in let x := back_elim O M n y in
  length y = n /\ length x = n /\
  (forall i, (i < n)%nat ->
     nth i y (zero O) =
     fold_left (fun s k => sub O s (mul O (nth k y (zero O)) (ent (zero O) M i k))) (seq 0 i) (nth i x0 (zero O))) /\
  (forall i, (i < n)%nat ->
     nth i x (zero O) =
     div O (fold_left (fun s k => sub O s (mul O (nth k x (zero O)) (ent (zero O) M i k)))
                      (rev (seq (S i) (n - S i))) (nth i y (zero O)))
           (ent (zero O) M i i)).
Proof.
  intros Hl. cbv zeta.
  destruct (gfwd_elim_spec O M n x0 Hl) as (Hyl & Hy).
  destruct (gback_elim_spec O M n (fwd_elim O M n x0) Hyl) as (Hxl & Hx).
  split; [exact Hyl|]. split; [exact Hxl|]. split; [exact Hy|exact Hx].
Qed.

(** ** Part 2: a chain of rounded subtractions on binary64 *)
Lemma Rsum_map_abs_le {A} (f : A -> R) (l : list A) : Rabs (Rsum (map f l)) <= Rsum (map (fun a => Rabs (f a)) l).
Proof.
  induction l as [|a l IH]; cbn [map]; [unfold Rsum; cbn; rewrite Rabs_R0; lra|].
  rewrite !Rsum_cons. eapply Rle_trans; [apply Rabs_triang|]. lra.
Qed.
Lemma Rsum_map_abs_nonneg {A} (f : A -> R) (l : list A) : 0 <= Rsum (map (fun a => Rabs (f a)) l).
Proof. induction l as [|a l IH]; cbn [map]; [unfold Rsum; cbn; lra|]. rewrite Rsum_cons. pose proof (Rabs_pos (f a)). lra. Qed.

Lemma chain_F_error (tbl : libm_table) (x l : nat -> pfloat) : forall (ks : list nat) (s0 : pfloat),
  finite (sub_chain (FO tbl) x l ks s0) ->
  (forall k, In k ks -> no_underflow (B2Rf (x k) * B2Rf (l k))) ->
  finite s0 /\
  Rabs (B2Rf s0 - (Rsum (map (fun k => B2Rf (x k) * B2Rf (l k)) ks) + B2Rf (sub_chain (FO tbl) x l ks s0)))
  <= E u64 (length ks)
     * (Rsum (map (fun k => Rabs (B2Rf (x k) * B2Rf (l k))) ks) + Rabs (B2Rf (sub_chain (FO tbl) x l ks s0))).
Proof.
  induction ks as [|k ks IH]; intros s0 Hf Hnu.
  - unfold sub_chain in *. cbn [fold_left map length] in *. split; [exact Hf|].
    unfold Rsum. cbn [fold_right]. rewrite Rplus_0_l, Rminus_diag_eq, Rabs_R0 by reflexivity.
    unfold E. cbn [pow]. lra.
  - unfold sub_chain in Hf |- *. cbn [fold_left] in Hf |- *. fold (sub_chain (FO tbl) x l ks) in Hf |- *.
    cbn [sub mul FO] in Hf |- *.
    set (s1 := (s0 - x k * l k)%float) in *.
    destruct (IH s1 Hf ltac:(intros k' Hk'; apply Hnu; right; exact Hk')) as (Hf1 & Hb).
    destruct (fsub_finite _ _ Hf1) as (Hf0 & Hfp & Hs).
    destruct (fmul_finite _ _ Hfp) as (_ & _ & Hp).
    split; [exact Hf0|].
    pose proof (rnd64_sub_round (B2Rf s0) (B2Rf (x k * l k)%float) (F64_B2Rf _) (F64_B2Rf _)) as Hse.
    rewrite <- Hs in Hse. fold s1 in Hse.
    pose proof (rnd64_rel _ (Hnu k (or_introl eq_refl))) as Hpe. rewrite <- Hp in Hpe.
    cbn [map length]. rewrite !Rsum_cons.
    set (c0 := B2Rf (x k) * B2Rf (l k)) in *.
    set (S' := Rsum (map (fun k => B2Rf (x k) * B2Rf (l k)) ks)) in *.
    set (A' := Rsum (map (fun k => Rabs (B2Rf (x k) * B2Rf (l k))) ks)) in *.
    set (r := B2Rf (sub_chain (FO tbl) x l ks s1)) in *.
    set (e' := E u64 (length ks)) in *.
    change (B2Rf (fold_left (fun (s : pfloat) (k0 : nat) => (s - x k0 * l k0)%float) ks s1)) with r.
    assert (HA' : 0 <= A') by apply Rsum_map_abs_nonneg.
    assert (HS' : Rabs S' <= A') by apply Rsum_map_abs_le.
    pose proof u64_nonneg as Hu. pose proof (E_nonneg u64 Hu (length ks)) as He'. fold e' in He'.
    rewrite (E_S u64). fold e'.
    assert (Hs1 : Rabs (B2Rf s1) <= (1 + e') * (A' + Rabs r)).
    { replace (B2Rf s1) with ((B2Rf s1 - (S' + r)) + (S' + r)) by ring.
      eapply Rle_trans; [apply Rabs_triang|]. pose proof (Rabs_triang S' r). pose proof (Rabs_pos r). nra. }
    replace (B2Rf s0 - (c0 + S' + r))
      with (- (B2Rf s1 - (B2Rf s0 - B2Rf (x k * l k)%float)) + (B2Rf (x k * l k)%float - c0) + (B2Rf s1 - (S' + r))) by ring.
    eapply Rle_trans; [apply Rabs_triang|]. eapply Rle_trans; [apply Rplus_le_compat_r, Rabs_triang|].
    rewrite Rabs_Ropp.
    assert (H1 : u64 * Rabs (B2Rf s1) <= u64 * ((1 + e') * (A' + Rabs r))) by (apply Rmult_le_compat_l; assumption).
    pose proof (Rabs_pos c0). pose proof (Rabs_pos r).
    assert (H2 : u64 * Rabs c0 <= ((1 + u64) * e' + u64) * Rabs c0) by (apply Rmult_le_compat_r; nra).
    nra.
Qed.

(** sums over index lists *)
Lemma Rsum_map_seq (f : nat -> R) a m : Rsum (map f (seq a m)) = rsum (fun k => f (a + k)%nat) m.
Proof.
  revert a. induction m as [|m IH]; intros a; [reflexivity|].
  rewrite seq_S, map_app. cbn [map rsum]. rewrite <- IH.
  generalize (map f (seq a m)). intros l. induction l as [|b l IHl]; cbn [app].
  - unfold Rsum. cbn. lra.
  - rewrite !Rsum_cons, IHl. lra.
Qed.
Lemma Rsum_map_rev (f : nat -> R) (l : list nat) : Rsum (map f (rev l)) = Rsum (map f l).
Proof.
  induction l as [|a l IH]; [reflexivity|]. cbn [rev]. rewrite map_app. cbn [map]. rewrite Rsum_cons, <- IH.
  generalize (map f (rev l)). intros l'. induction l' as [|b l' IHl]; cbn [app].
  - unfold Rsum. cbn. lra.
  - rewrite !Rsum_cons, IHl. lra.
Qed.

(** ** Part 3: the two sweeps on binary64 *)
Section ElimFloat.
  Variables (tbl : libm_table) (m : list pfloat) (n : nat).
  Hypothesis Hlen : length m = (n * n)%nat.
  Local Notation M := (unflatten m n n).
  Local Notation Mr := (map B2Rf m).

  Lemma entM i k : (i < n)%nat -> (k < n)%nat -> ent 0%float M i k = nth (i * n + k) m 0%float.
  Proof. intros Hi Hk. apply ent_unflatten; assumption. Qed.

  (** forward sweep: L y = b', L the unit lower triangle of [m] *)
  Lemma fwd_elim_F_row (x0 y : list pfloat) :
    length x0 = n -> y = fwd_elim (FO tbl) M n x0 -> Forall finite y ->
    (forall i k, (i < n)%nat -> (k < i)%nat -> no_underflow (B2Rf (nth k y 0%float) * B2Rf (nth (i * n + k) m 0%float))) ->
    length y = n /\ Forall finite x0 /\
    forall i, (i < n)%nat ->
      Rabs (nth i (map B2Rf x0) 0 - rsum (fun k => Lof Mr n i k * nth k (map B2Rf y) 0) n)
      <= E u64 i * rsum (fun k => Rabs (Lof Mr n i k) * Rabs (nth k (map B2Rf y) 0)) n.
  Proof.
    intros Hx0 Hy Hfin Hnu. destruct (gfwd_elim_spec (FO tbl) M n x0 Hx0) as (Hyl & Hrec). rewrite <- Hy in Hyl, Hrec.
    cbn [zero FO] in Hrec.
    assert (Hrow : forall i, (i < n)%nat ->
              finite (nth i x0 0%float) /\
              Rabs (nth i (map B2Rf x0) 0 - rsum (fun k => Lof Mr n i k * nth k (map B2Rf y) 0) n)
              <= E u64 i * rsum (fun k => Rabs (Lof Mr n i k) * Rabs (nth k (map B2Rf y) 0)) n).
    { intros i Hi. specialize (Hrec i Hi).
      assert (Hfi : finite (nth i y 0%float)) by (apply (proj1 (Forall_forall finite y) Hfin), nth_In; lia).
      rewrite Hrec in Hfi.
      destruct (chain_F_error tbl (fun k => nth k y 0%float) (fun k => ent 0%float M i k) (seq 0 i) (nth i x0 0%float) Hfi)
        as (Hf0 & Hb).
      { intros k Hk. apply in_seq in Hk. rewrite entM by lia. apply Hnu; lia. }
      split; [exact Hf0|].
      rewrite <- Hrec in Hb. rewrite seq_length, !Rsum_map_seq in Hb. cbn [Nat.add] in Hb.
      (* the sums with Lof *)
      assert (HL : rsum (fun k => Lof Mr n i k * nth k (map B2Rf y) 0) n
                   = rsum (fun k => B2Rf (nth k y 0%float) * B2Rf (ent 0%float M i k)) i + B2Rf (nth i y 0%float)).
      { unfold Lof. rewrite (rsum_upto _ i n Hi).
        - rewrite Nat.ltb_irrefl, Nat.eqb_refl, nth_map_B2Rf, Rmult_1_l. f_equal.
          apply rsum_ext. intros k Hk. destruct (Nat.ltb_spec k i); [|lia].
          unfold getm. rewrite !nth_map_B2Rf, entM by lia. ring.
        - intros k Hk. destruct (Nat.ltb_spec k i); [lia|]. destruct (Nat.eqb_spec k i); [lia|]. ring. }
      assert (HLa : rsum (fun k => Rabs (Lof Mr n i k) * Rabs (nth k (map B2Rf y) 0)) n
                   = rsum (fun k => Rabs (B2Rf (nth k y 0%float) * B2Rf (ent 0%float M i k))) i + Rabs (B2Rf (nth i y 0%float))).
      { unfold Lof. rewrite (rsum_upto _ i n Hi).
        - rewrite Nat.ltb_irrefl, Nat.eqb_refl, nth_map_B2Rf, Rabs_R1, Rmult_1_l. f_equal.
          apply rsum_ext. intros k Hk. destruct (Nat.ltb_spec k i); [|lia].
          unfold getm. rewrite !nth_map_B2Rf, entM by lia. rewrite Rabs_mult. ring.
        - intros k Hk. destruct (Nat.ltb_spec k i); [lia|]. destruct (Nat.eqb_spec k i); [lia|]. rewrite Rabs_R0. ring. }
      rewrite HL, HLa, nth_map_B2Rf. exact Hb. }
    split; [exact Hyl|]. split.
    - apply Forall_forall. intros f Hf. destruct (In_nth x0 f 0%float Hf) as (i & Hi & <-). apply Hrow. lia.
    - intros i Hi. apply Hrow; exact Hi.
  Qed.

  (** backward sweep: U x = y, U the upper triangle of [m] *)
  Lemma back_elim_F_row (y x : list pfloat) :
    length y = n -> x = back_elim (FO tbl) M n y -> Forall finite x ->
    (forall i, (i < n)%nat -> B2Rf (nth (i * n + i) m 0%float) <> 0) ->
    (forall i k, (i < k)%nat -> (k < n)%nat -> no_underflow (B2Rf (nth k x 0%float) * B2Rf (nth (i * n + k) m 0%float))) ->
    (forall i, (i < n)%nat ->
       no_underflow (B2Rf (sub_chain (FO tbl) (fun k => nth k x 0%float) (fun k => nth (i * n + k) m 0%float)
                                    (rev (seq (S i) (n - S i))) (nth i y 0%float))
                     / B2Rf (nth (i * n + i) m 0%float))) ->
    length x = n /\ Forall finite y /\
    forall i, (i < n)%nat ->
      Rabs (nth i (map B2Rf y) 0 - rsum (fun k => Uof Mr n i k * nth k (map B2Rf x) 0) n)
      <= E u64 (n - i) * rsum (fun k => Rabs (Uof Mr n i k) * Rabs (nth k (map B2Rf x) 0)) n.
  Proof.
    intros Hy Hx Hfin Hpiv Hnu Hq. destruct (gback_elim_spec (FO tbl) M n y Hy) as (Hxl & Hrec). rewrite <- Hx in Hxl, Hrec.
    cbn [zero div FO] in Hrec.
    assert (Hrow : forall i, (i < n)%nat ->
              finite (nth i y 0%float) /\
              Rabs (nth i (map B2Rf y) 0 - rsum (fun k => Uof Mr n i k * nth k (map B2Rf x) 0) n)
              <= E u64 (n - i) * rsum (fun k => Rabs (Uof Mr n i k) * Rabs (nth k (map B2Rf x) 0)) n).
    { intros i Hi. specialize (Hrec i Hi).
      assert (Hce : sub_chain (FO tbl) (fun k => nth k x 0%float) (fun k => ent 0%float M i k) (rev (seq (S i) (n - S i))) (nth i y 0%float)
                    = sub_chain (FO tbl) (fun k => nth k x 0%float) (fun k => nth (i * n + k) m 0%float) (rev (seq (S i) (n - S i))) (nth i y 0%float)).
      { apply sub_chain_ext; [reflexivity|]. intros k Hk. apply in_rev, in_seq in Hk. apply entM; lia. }
      rewrite Hce, entM in Hrec by assumption.
      set (s := sub_chain (FO tbl) (fun k => nth k x 0%float) (fun k => nth (i * n + k) m 0%float)
                          (rev (seq (S i) (n - S i))) (nth i y 0%float)) in *.
      set (t := nth (i * n + i) m 0%float) in *.
      assert (Ht : B2Rf t <> 0) by (apply Hpiv; exact Hi).
      assert (Hfi : finite (nth i x 0%float)) by (apply (proj1 (Forall_forall finite x) Hfin), nth_In; lia).
      rewrite Hrec in Hfi. destruct (fdiv_finite _ _ Ht Hfi) as (Hfs & Hxv).
      pose proof (rnd64_rel_round _ (Hq i Hi)) as Hxe. fold s t in Hxe. rewrite <- Hxv, <- Hrec in Hxe.
      destruct (chain_F_error tbl (fun k => nth k x 0%float) (fun k => nth (i * n + k) m 0%float)
                              (rev (seq (S i) (n - S i))) (nth i y 0%float) Hfs) as (Hf0 & Hb).
      { intros k Hk. apply in_rev, in_seq in Hk. apply Hnu; lia. }
      split; [exact Hf0|]. fold s in Hb.
      rewrite rev_length, seq_length, !Rsum_map_rev, !Rsum_map_seq in Hb.
      set (C := rsum (fun k => B2Rf (nth (S i + k) x 0%float) * B2Rf (nth (i * n + (S i + k)) m 0%float)) (n - S i)) in *.
      set (A := rsum (fun k => Rabs (B2Rf (nth (S i + k) x 0%float) * B2Rf (nth (i * n + (S i + k)) m 0%float))) (n - S i)) in *.
      set (xi := B2Rf (nth i x 0%float)) in *.
      assert (HU : rsum (fun k => Uof Mr n i k * nth k (map B2Rf x) 0) n = B2Rf t * xi + C).
      { unfold Uof. rewrite (rsum_upper_gen Rmult (fun k => getm Mr n i k) _ i n Hi Fmul0).
        unfold getm. rewrite !nth_map_B2Rf. f_equal. apply rsum_ext. intros k Hk. rewrite !nth_map_B2Rf. ring. }
      assert (HUa : rsum (fun k => Rabs (Uof Mr n i k) * Rabs (nth k (map B2Rf x) 0)) n = Rabs (B2Rf t * xi) + A).
      { unfold Uof. rewrite (rsum_upper_gen (fun a b => Rabs a * Rabs b) (fun k => getm Mr n i k) _ i n Hi Fabs0).
        unfold getm. rewrite !nth_map_B2Rf, <- Rabs_mult. f_equal. apply rsum_ext. intros k Hk.
        rewrite !nth_map_B2Rf, <- Rabs_mult. f_equal. ring. }
      rewrite HU, HUa, nth_map_B2Rf.
      (* the division: t * xi = s (1 + e) *)
      assert (H1 : Rabs (B2Rf t * xi - B2Rf s) <= u64 * Rabs (B2Rf t * xi)).
      { replace (B2Rf t * xi - B2Rf s) with (B2Rf t * (xi - B2Rf s / B2Rf t)) by (field; exact Ht).
        rewrite !Rabs_mult. replace (u64 * (Rabs (B2Rf t) * Rabs xi)) with (Rabs (B2Rf t) * (u64 * Rabs xi)) by ring.
        apply Rmult_le_compat_l; [apply Rabs_pos|exact Hxe]. }
      assert (H2 : Rabs (B2Rf s) <= (1 + u64) * Rabs (B2Rf t * xi)).
      { replace (B2Rf s) with (B2Rf t * xi - (B2Rf t * xi - B2Rf s)) at 1 by ring. unfold Rminus at 1.
        eapply Rle_trans; [apply Rabs_triang|]. rewrite Rabs_Ropp. lra. }
      pose proof u64_nonneg as Hu. pose proof (E_nonneg u64 Hu (n - S i)) as He.
      assert (HA : 0 <= A) by (apply rsum_nonneg; intros; apply Rabs_pos).
      replace (n - i)%nat with (S (n - S i)) by lia. rewrite (E_S u64).
      set (e := E u64 (n - S i)) in *. set (y0 := B2Rf (nth i y 0%float)) in *. set (tx := B2Rf t * xi) in *.
      replace (y0 - (tx + C)) with ((y0 - (C + B2Rf s)) + - (tx - B2Rf s)) by ring.
      eapply Rle_trans; [apply Rabs_triang|]. rewrite Rabs_Ropp.
      assert (H3 : e * Rabs (B2Rf s) <= e * ((1 + u64) * Rabs tx)) by (apply Rmult_le_compat_l; assumption).
      pose proof (Rabs_pos tx).
      assert (0 <= u64 * e * A) by (apply Rmult_le_pos; [apply Rmult_le_pos|]; assumption).
      assert (0 <= u64 * A) by (apply Rmult_le_pos; assumption).
      fold e y0 in Hb. lra. }
    split; [exact Hxl|]. split.
    - apply Forall_forall. intros f Hf. destruct (In_nth y f 0%float Hf) as (i & Hi & <-). apply Hrow. lia.
    - intros i Hi. apply Hrow; exact Hi.
  Qed.
End ElimFloat.

(** ** Part 4: [lu_solve] *)
Lemma rsum_le_compat' f g n : (forall k, (k < n)%nat -> f k <= g k) -> rsum f n <= rsum g n.
Proof.
  induction n as [|n IH]; intros H; cbn [rsum]; [lra|].
  assert (rsum f n <= rsum g n) by (apply IH; intros; apply H; lia). specialize (H n ltac:(lia)). lra.
Qed.

(** the product of two factors, each within [g] (relatively, entrywise) of P resp. Q *)
Lemma product_perturbation_PQ (P Q : nat -> nat -> R) (T1 T2 : list R) (n : nat) (g : R) :
  0 <= g ->
  (forall i k, (i < n)%nat -> (k < n)%nat -> Rabs (getm T1 n i k - P i k) <= g * Rabs (P i k)) ->
  (forall k j, (k < n)%nat -> (j < n)%nat -> Rabs (getm T2 n k j - Q k j) <= g * Rabs (Q k j)) ->
  forall i j, (i < n)%nat -> (j < n)%nat ->
    Rabs (rsum (fun k => getm T1 n i k * getm T2 n k j) n - rsum (fun k => P i k * Q k j) n)
    <= ((1 + g) ^ 2 - 1) * rsum (fun k => Rabs (P i k) * Rabs (Q k j)) n.
Proof.
  intros Hg H1 H2 i j Hi Hj.
  rewrite <- rsum_minus, <- rsum_scal_l.
  eapply Rle_trans; [apply Rabs_rsum_le'|]. apply rsum_le_compat'. intros k Hk.
  specialize (H1 i k Hi Hk). specialize (H2 k j Hk Hj).
  set (a := getm T1 n i k) in *. set (b := getm T2 n k j) in *. set (p := P i k) in *. set (q := Q k j) in *.
  replace (a * b - p * q) with ((a - p) * b + p * (b - q)) by ring.
  eapply Rle_trans; [apply Rabs_triang|]. rewrite !Rabs_mult.
  assert (Hb : Rabs b <= (1 + g) * Rabs q).
  { replace b with (q + (b - q)) at 1 by ring. eapply Rle_trans; [apply Rabs_triang|]. lra. }
  pose proof (Rabs_pos p). pose proof (Rabs_pos q). pose proof (Rabs_pos (a - p)). pose proof (Rabs_pos (b - q)).
  pose proof (Rabs_pos b).
  assert (Rabs (a - p) * Rabs b <= (g * Rabs p) * ((1 + g) * Rabs q)) by (apply Rmult_le_compat; lra).
  assert (Rabs p * Rabs (b - q) <= Rabs p * (g * Rabs q)) by (apply Rmult_le_compat_l; lra).
  simpl. nra.
Qed.

Lemma gamma_compose3 (u : R) (n : nat) : 0 <= u -> E u n + ((1 + E u n) ^ 2 - 1) <= E u (3 * n).
Proof.
  intros Hu. unfold E.
  replace (1 + ((1 + u) ^ n - 1)) with ((1 + u) ^ n) by ring.
  replace (3 * n)%nat with (n + (n + n))%nat by lia. rewrite !pow_add.
  assert (H2 : 1 <= (1 + u) ^ n) by (apply pow_R1_Rle; lra).
  set (q := (1 + u) ^ n) in *. replace (q ^ 2) with (q * q) by ring.
  assert (H3 : 1 <= q * q) by nra.
  assert (H4 : 0 <= (q - 1) * (q * q - 1)) by (apply Rmult_le_pos; lra).
  lra.
Qed.

Theorem lu_solve_backward_error (tbl : libm_table) (m : list pfloat) (piv : list nat) (b y x : list pfloat) (n : nat) :
  lu_solve (FO tbl) m piv b = Some x -> length b = n -> length piv = n ->
  y = fwd_elim (FO tbl) (unflatten m n n) n (map (fun p => nth p b 0%float) piv) ->
  Forall finite y -> Forall finite x ->
  (forall i, (i < n)%nat -> B2Rf (nth (i * n + i) m 0%float) <> 0) ->
  (forall i k, (i < n)%nat -> (k < i)%nat ->
     B2Rf (nth k y 0%float) * B2Rf (nth (i * n + k) m 0%float) = 0 \/
     / 2 ^ 1022 <= Rabs (B2Rf (nth k y 0%float) * B2Rf (nth (i * n + k) m 0%float))) ->
  (forall i k, (i < k)%nat -> (k < n)%nat ->
     B2Rf (nth k x 0%float) * B2Rf (nth (i * n + k) m 0%float) = 0 \/
     / 2 ^ 1022 <= Rabs (B2Rf (nth k x 0%float) * B2Rf (nth (i * n + k) m 0%float))) ->
  (forall i, (i < n)%nat ->
     let s := fold_left (fun s k => (s - nth k x 0 * nth (i * n + k) m 0)%float) (rev (seq (S i) (n - S i))) (nth i y 0%float) in
     B2Rf s / B2Rf (nth (i * n + i) m 0%float) = 0 \/ / 2 ^ 1022 <= Rabs (B2Rf s / B2Rf (nth (i * n + i) m 0%float))) ->
  let M := map B2Rf m in let B := map B2Rf b in let Y := map B2Rf y in let X := map B2Rf x in
  let gamma := (1 + / 2 ^ 53) ^ n - 1 in
  length m = (n * n)%nat /\ x = back_elim (FO tbl) (unflatten m n n) n y /\ length x = n /\
  (forall i, (i < n)%nat -> finite (nth (nth i piv 0%nat) b 0%float)) /\
  (forall i, (i < n)%nat ->
     Rabs (nth (nth i piv 0%nat) B 0 - rsum (fun k => Lof M n i k * nth k Y 0) n)
     <= gamma * rsum (fun k => Rabs (Lof M n i k) * Rabs (nth k Y 0)) n) /\
  (forall i, (i < n)%nat ->
     Rabs (nth i Y 0 - rsum (fun k => Uof M n i k * nth k X 0) n)
     <= gamma * rsum (fun k => Rabs (Uof M n i k) * Rabs (nth k X 0)) n) /\
  exists L' U' : list R,
    length L' = (n * n)%nat /\ length U' = (n * n)%nat /\
    (forall i k, (i < n)%nat -> (k < n)%nat -> Rabs (getm L' n i k - Lof M n i k) <= gamma * Rabs (Lof M n i k)) /\
    (forall k j, (k < n)%nat -> (j < n)%nat -> Rabs (getm U' n k j - Uof M n k j) <= gamma * Rabs (Uof M n k j)) /\
    (forall i, (i < n)%nat -> mvec L' n Y i = nth (nth i piv 0%nat) B 0) /\
    (forall i, (i < n)%nat -> mvec U' n X i = nth i Y 0) /\
    (forall i, (i < n)%nat -> rsum (fun k => getm L' n i k * mvec U' n X k) n = nth (nth i piv 0%nat) B 0).
Proof.
  intros Hrun Hb Hpl Hy Hfy Hfx Hpiv Hp1 Hp2 Hq. cbv zeta.
  unfold lu_solve in Hrun. rewrite Hb in Hrun.
  destruct (Nat.eqb_spec (length m) (n * n)) as [Hml|]; cbn [guard bind] in Hrun; [|discriminate].
  rewrite Hpl, Nat.leb_refl in Hrun. cbn [guard bind] in Hrun.
  destruct (forallb (fun p => (p <? n)%nat) piv) eqn:Hall; cbn [guard bind] in Hrun; [|discriminate].
  rewrite Nat.sub_diag in Hrun. cbn [repeat] in Hrun. rewrite app_nil_r in Hrun. cbn [zero FO] in Hrun.
  rewrite <- Hy in Hrun. injection Hrun as Hx. symmetry in Hx.
  set (x0 := map (fun p => nth p b 0%float) piv) in *.
  assert (Hx0l : length x0 = n) by (unfold x0; rewrite map_length; exact Hpl).
  assert (Hx0 : forall i, (i < n)%nat -> nth i x0 0%float = nth (nth i piv 0%nat) b 0%float).
  { intros i Hi. unfold x0.
    rewrite (nth_indep _ 0%float ((fun p => nth p b 0%float) 0%nat)) by (rewrite map_length; lia).
    apply (map_nth (fun p => nth p b 0%float)). }
  destruct (fwd_elim_F_row tbl m n Hml x0 y Hx0l Hy Hfy) as (Hyl & Hfx0 & Hfw).
  { intros i k Hi Hk. apply no_underflow_explicit. apply Hp1; assumption. }
  destruct (back_elim_F_row tbl m n Hml y x Hyl Hx Hfx Hpiv) as (Hxl & _ & Hbw).
  { intros i k Hi Hk. apply no_underflow_explicit. apply Hp2; assumption. }
  { intros i Hi. apply no_underflow_explicit. apply (Hq i Hi). }
  assert (HB : forall i, (i < n)%nat -> nth i (map B2Rf x0) 0 = nth (nth i piv 0%nat) (map B2Rf b) 0).
  { intros i Hi. rewrite !nth_map_B2Rf, Hx0 by exact Hi. reflexivity. }
  pose proof u64_nonneg as Hu.
  assert (Hfw' : forall i, (i < n)%nat ->
            Rabs (nth (nth i piv 0%nat) (map B2Rf b) 0 - rsum (fun k => Lof (map B2Rf m) n i k * nth k (map B2Rf y) 0) n)
            <= ((1 + / 2 ^ 53) ^ n - 1) * rsum (fun k => Rabs (Lof (map B2Rf m) n i k) * Rabs (nth k (map B2Rf y) 0)) n).
  { intros i Hi. rewrite <- HB by exact Hi. eapply Rle_trans; [apply Hfw; exact Hi|].
    rewrite <- u64_val. fold (E u64 n). apply Rmult_le_compat_r; [apply rsum_abs_nonneg|]. apply (E_mono u64 Hu). lia. }
  assert (Hbw' : forall i, (i < n)%nat ->
            Rabs (nth i (map B2Rf y) 0 - rsum (fun k => Uof (map B2Rf m) n i k * nth k (map B2Rf x) 0) n)
            <= ((1 + / 2 ^ 53) ^ n - 1) * rsum (fun k => Rabs (Uof (map B2Rf m) n i k) * Rabs (nth k (map B2Rf x) 0)) n).
  { intros i Hi. eapply Rle_trans; [apply Hbw; exact Hi|].
    rewrite <- u64_val. fold (E u64 n). apply Rmult_le_compat_r; [apply rsum_abs_nonneg|]. apply (E_mono u64 Hu). lia. }
  split; [exact Hml|]. split; [exact Hx|]. split; [exact Hxl|]. split.
  { intros i Hi. rewrite <- Hx0 by exact Hi. apply (proj1 (Forall_forall finite x0) Hfx0), nth_In. lia. }
  split; [exact Hfw'|]. split; [exact Hbw'|].
  pose proof (gamma_nonneg n) as Hg.
  destruct (perturbed_matrix (fun i k => Lof (map B2Rf m) n i k) (map B2Rf y)
              (map B2Rf x0) ((1 + / 2 ^ 53) ^ n - 1) n Hg) as (L' & HL1 & HL2 & HL3).
  { intros i Hi. rewrite HB by exact Hi. apply Hfw'. exact Hi. }
  destruct (perturbed_matrix (fun i k => Uof (map B2Rf m) n i k) (map B2Rf x) (map B2Rf y) ((1 + / 2 ^ 53) ^ n - 1) n Hg)
    as (U' & HU1 & HU2 & HU3).
  { exact Hbw'. }
  exists L', U'. split; [exact HL1|]. split; [exact HU1|]. split; [exact HL2|]. split; [exact HU2|].
  split; [intros i Hi; rewrite <- HB by exact Hi; apply HL3; exact Hi|]. split; [exact HU3|].
  intros i Hi. rewrite <- HB by exact Hi. rewrite <- (HL3 i Hi). unfold mvec at 2. apply rsum_ext. intros k Hk. f_equal. apply HU3. exact Hk.
Qed.

(** [Solve<Vector>::lu_solve] runs the slice routine on the receiver's data *)
Theorem matrix_lu_solve_backward_error (tbl : libm_table) (mm : matrix (T:=pfloat)) (piv : list nat) (b y x : list pfloat) :
  matrix_lu_solve (FO tbl) mm piv b = Some x ->
  let n := nr mm in let m := dat mm in
  length piv = n ->
  y = fwd_elim (FO tbl) (unflatten m n n) n (map (fun p => nth p b 0%float) piv) ->
  Forall finite y -> Forall finite x ->
  (forall i, (i < n)%nat -> B2Rf (nth (i * n + i) m 0%float) <> 0) ->
  (forall i k, (i < n)%nat -> (k < i)%nat ->
     B2Rf (nth k y 0%float) * B2Rf (nth (i * n + k) m 0%float) = 0 \/
     / 2 ^ 1022 <= Rabs (B2Rf (nth k y 0%float) * B2Rf (nth (i * n + k) m 0%float))) ->
  (forall i k, (i < k)%nat -> (k < n)%nat ->
     B2Rf (nth k x 0%float) * B2Rf (nth (i * n + k) m 0%float) = 0 \/
     / 2 ^ 1022 <= Rabs (B2Rf (nth k x 0%float) * B2Rf (nth (i * n + k) m 0%float))) ->
  (forall i, (i < n)%nat ->
     let s := fold_left (fun s k => (s - nth k x 0 * nth (i * n + k) m 0)%float) (rev (seq (S i) (n - S i))) (nth i y 0%float) in
     B2Rf s / B2Rf (nth (i * n + i) m 0%float) = 0 \/ / 2 ^ 1022 <= Rabs (B2Rf s / B2Rf (nth (i * n + i) m 0%float))) ->
  let M := map B2Rf m in let B := map B2Rf b in let Y := map B2Rf y in let X := map B2Rf x in
  let gamma := (1 + / 2 ^ 53) ^ n - 1 in
  length b = n /\ length x = n /\
  exists L' U' : list R,
    length L' = (n * n)%nat /\ length U' = (n * n)%nat /\
    (forall i k, (i < n)%nat -> (k < n)%nat -> Rabs (getm L' n i k - Lof M n i k) <= gamma * Rabs (Lof M n i k)) /\
    (forall k j, (k < n)%nat -> (j < n)%nat -> Rabs (getm U' n k j - Uof M n k j) <= gamma * Rabs (Uof M n k j)) /\
    (forall i, (i < n)%nat -> mvec L' n Y i = nth (nth i piv 0%nat) B 0) /\
    (forall i, (i < n)%nat -> mvec U' n X i = nth i Y 0) /\
    (forall i, (i < n)%nat -> rsum (fun k => getm L' n i k * mvec U' n X k) n = nth (nth i piv 0%nat) B 0).
Proof.
  intros H. cbv zeta. intros Hpl Hy Hfy Hfx Hpiv Hp1 Hp2 Hq.
  assert (Hb : length b = nr mm).
  { unfold matrix_lu_solve in H. destruct (well_formed mm && (nr mm =? nc mm))%nat; cbn [guard bind] in H; [|discriminate].
    destruct (Nat.eqb_spec (nr mm) (length b)) as [E|]; cbn [guard bind] in H; [symmetry; exact E|discriminate]. }
  apply (C11_Forms.matrix_lu_solve_eq_slice (FO tbl)) in H.
  destruct (lu_solve_backward_error tbl (dat mm) piv b y x (nr mm) H Hb Hpl Hy Hfy Hfx Hpiv Hp1 Hp2 Hq)
    as (_ & _ & Hxl & _ & _ & _ & Hex).
  split; [exact Hb|]. split; [exact Hxl|]. exact Hex.
Qed.
