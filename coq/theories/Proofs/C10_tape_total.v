(** * C10 (tape, part 6) — the same theorems for the gradient function in the shape the correspondence
    check runs ([Corr/C10.v]: [total g x = match g x with Some v => v | None => [] end], no padding).

    The optimiser loops only ever evaluate the gradient at their iterates, so two gradient functions that agree
    along the run produce the same run, even if one of them does not preserve the dimension elsewhere. *)
From Coq Require Import List Arith ZArith Bool Lia Reals Lra.
From Coquelicot Require Import Coquelicot.
From Compute Require Import Base.Ops Base.ListMat Base.Tape Model.Optim Spec.Optim Spec.Autodiff Proofs.C10
  Proofs.C10_tape Proofs.C10_tape_den Proofs.C10_tape_grad Proofs.C10_tape_la Proofs.C10_tape_compose.
Import ListNotations.
Local Close Scope R_scope.

Definition total_grad {T} (g : list T -> option (list T)) (x : list T) : list T :=
  match g x with Some v => v | None => [] end.

Section LoopExt.
  Context {T : Type} (O : Ops T).
  Variables g g' : list T -> list T.
  Hypothesis g'_len : forall x, length (g' x) = length x.

  Lemma adam_loop_ext (h : adam_hp (T:=T)) th0 : forall fuel t,
    (forall j, t <= j < t + fuel -> g (adam_theta O g' h j th0) = g' (adam_theta O g' h j th0)) ->
    adam_loop O g h fuel t (ad_theta (adam_iter O g' h t th0)) (ad_m (adam_iter O g' h t th0)) (ad_v (adam_iter O g' h t th0)) =
    adam_loop O g' h fuel t (ad_theta (adam_iter O g' h t th0)) (ad_m (adam_iter O g' h t th0)) (ad_v (adam_iter O g' h t th0)).
  Proof.
    induction fuel as [|fuel IH]; intros t H; [reflexivity|].
    cbn [adam_loop]. pose proof (H t ltac:(lia)) as Ht. unfold adam_theta in Ht. rewrite Ht.
    rewrite (adam_body O g' g'_len h t th0). cbv beta iota zeta.
    destruct (converged O (ad_theta (adam_iter O g' h (S t) th0)) (ad_theta (adam_iter O g' h t th0))); [reflexivity|].
    apply IH. intros j Hj. apply H. lia.
  Qed.
  Lemma adam_ext_run (h : adam_hp (T:=T)) k th0 :
    (forall j, j < k -> g (adam_theta O g' h j th0) = g' (adam_theta O g' h j th0)) ->
    adam O g h k th0 = adam O g' h k th0.
  Proof. intros H. unfold adam. apply (adam_loop_ext h th0 k 0). intros j Hj. apply H. lia. Qed.

  Lemma sgd_loop_ext (h : sgd_hp (T:=T)) th0 : forall fuel t,
    (forall j, t <= j < t + fuel ->
       g (sgd_at O h (fst (sgd_iter O g' h j th0)) (snd (sgd_iter O g' h j th0))) =
       g' (sgd_at O h (fst (sgd_iter O g' h j th0)) (snd (sgd_iter O g' h j th0)))) ->
    sgd_loop O g h fuel (fst (sgd_iter O g' h t th0)) (snd (sgd_iter O g' h t th0)) =
    sgd_loop O g' h fuel (fst (sgd_iter O g' h t th0)) (snd (sgd_iter O g' h t th0)).
  Proof.
    induction fuel as [|fuel IH]; intros t H; [reflexivity|].
    cbn [sgd_loop]. pose proof (H t ltac:(lia)) as Ht. rewrite (sgd_point_spec O h). rewrite Ht.
    rewrite <- (sgd_point_spec O h). rewrite (sgd_body O g' g'_len h t th0).
    destruct (sgd_iter O g' h (S t) th0) as [ps' us'] eqn:Es.
    destruct (converged O ps' (fst (sgd_iter O g' h t th0))); [reflexivity|].
    specialize (IH (S t)). rewrite Es in IH. cbn [fst snd] in IH. apply IH. intros j Hj. apply H. lia.
  Qed.
  Lemma sgd_ext_run (h : sgd_hp (T:=T)) k th0 :
    (forall j, j < k ->
       g (sgd_at O h (fst (sgd_iter O g' h j th0)) (snd (sgd_iter O g' h j th0))) =
       g' (sgd_at O h (fst (sgd_iter O g' h j th0)) (snd (sgd_iter O g' h j th0)))) ->
    sgd O g h k th0 = sgd O g' h k th0.
  Proof. intros H. unfold sgd. apply (sgd_loop_ext h th0 k 0). intros j Hj. apply H. lia. Qed.
End LoopExt.

Local Open Scope R_scope.

Lemma total_grad_smooth e data x :
  covered e -> smooth_at e data x [] -> total_grad (tape_grad RO e data) x = tape_gradient e data x.
Proof.
  intros Hc Hs. destruct (tape_grad_sound e data x Hc Hs) as (g & E & _).
  unfold total_grad, tape_gradient. rewrite E. reflexivity.
Qed.
Lemma total_grad_la_smooth e data x :
  covered e -> smooth_at e data x [] -> total_grad (tape_grad_la RO e data) x = tape_gradient_la e data x.
Proof.
  intros Hc Hs. destruct (tape_grad_la_sound e data x Hc Hs) as (g & E & _).
  unfold total_grad, tape_gradient_la. rewrite E. reflexivity.
Qed.

Section TotalTrue.
  Variables (e : expr R) (data : list (list R)) (G : list R -> list R).
  Hypothesis Hcov : covered e.
  Hypothesis HG : forall x, smooth_at e data x [] -> true_grad e data x (G x).

  (** Adam, with exactly the gradient term of the correspondence check *)
  Theorem adam_total_is_tape_gradient (h : adam_hp (T:=R)) k th0 :
    (forall j, (j < k)%nat -> smooth_at e data (adam_theta RO G h j th0) []) ->
    adam RO (total_grad (tape_grad RO e data)) h k th0 = adam RO (tape_gradient e data) h k th0.
  Proof.
    intros Hs. apply (adam_ext_run RO _ _ (tape_gradient_len e data)).
    intros j Hj. rewrite (adam_tape_iter e data G Hcov HG h k th0 Hs j) by lia.
    apply total_grad_smooth; [exact Hcov|]. apply Hs. exact Hj.
  Qed.

  Theorem sgd_total_is_tape_gradient (h : sgd_hp (T:=R)) k th0 :
    (forall j, (j < k)%nat ->
       smooth_at e data (sgd_at RO h (fst (sgd_iter RO G h j th0)) (snd (sgd_iter RO G h j th0))) []) ->
    sgd RO (total_grad (if s_nesterov h then tape_grad_la RO e data else tape_grad RO e data)) h k th0 =
    sgd RO (tape_gradient_sgd (s_nesterov h) e data) h k th0.
  Proof.
    intros Hs. apply (sgd_ext_run RO _ _ (tape_gradient_sgd_len (s_nesterov h) e data)).
    intros j Hj.
    assert (Hit : sgd_iter RO (tape_gradient_sgd (s_nesterov h) e data) h j th0 = sgd_iter RO G h j th0).
    { apply sgd_iter_ext. intros i Hi.
      apply (true_grad_unique e data (sgd_at RO h (fst (sgd_iter RO G h i th0)) (snd (sgd_iter RO G h i th0)))).
      - apply tape_gradient_sgd_true; [exact Hcov|]. apply Hs. lia.
      - apply HG. apply Hs. lia. }
    rewrite Hit. specialize (Hs j Hj).
    unfold tape_gradient_sgd. destruct (s_nesterov h).
    - apply total_grad_la_smooth; assumption.
    - apply total_grad_smooth; assumption.
  Qed.
  Theorem adam_total_follows_true_gradient (h : adam_hp (T:=R)) k th0 :
    (forall j, (j < k)%nat -> smooth_at e data (adam_theta RO G h j th0) []) ->
    (forall j, (1 <= j < k)%nat ->
       converged RO (adam_theta RO G h j th0) (adam_theta RO G h (j - 1) th0) = false) ->
    adam RO (total_grad (tape_grad RO e data)) h k th0 = adam_theta RO G h k th0.
  Proof.
    intros Hs Hno. rewrite adam_total_is_tape_gradient by exact Hs.
    apply adam_follows_true_gradient; assumption.
  Qed.

  Theorem sgd_total_follows_true_gradient (h : sgd_hp (T:=R)) k th0 :
    (forall j, (j < k)%nat ->
       smooth_at e data (sgd_at RO h (fst (sgd_iter RO G h j th0)) (snd (sgd_iter RO G h j th0))) []) ->
    (forall j, (1 <= j < k)%nat ->
       converged RO (sgd_theta RO G h j th0) (sgd_theta RO G h (j - 1) th0) = false) ->
    sgd RO (total_grad (if s_nesterov h then tape_grad_la RO e data else tape_grad RO e data)) h k th0 =
    sgd_theta RO G h k th0.
  Proof.
    intros Hs Hno. rewrite sgd_total_is_tape_gradient by exact Hs.
    apply sgd_follows_true_gradient; assumption.
  Qed.
End TotalTrue.
