(** Composition of the multivariate normal (C02: constructor + densities, C03: sampler) with the theorems of C01 / C11:
    the facts about the three [Matrix] routines [MVN::new] calls, on a SYMMETRIC POSITIVE DEFINITE matrix, in the
    form the compositions need.  Everything is derived from the theorems of C01 / C11 (and Proofs/Compose_base.v);
    nothing of theirs is restated or edited.

    - [matrix_cholesky_spd]: [Matrix::cholesky] returns, and returns the factor of the slice routine
      (so [C11_chol_reconstructs] applies: lower triangular, positive diagonal, L L^T = A);
    - [matrix_inv_spd]: [Matrix::inv] returns a TWO-SIDED inverse (A X = I from C01; X A = I because a right inverse
      of a matrix with a left inverse is that left inverse);
    - [matrix_det_spd]: [Matrix::det] returns [determinant] (C11) and the determinant of a symmetric positive definite
      matrix is POSITIVE: it is nonzero on the whole segment (1 - t) I + t A of positive definite matrices
      (nonsingular => no zero pivot => det <> 0, C01 + C11), it is 1 at t = 0, and it is a continuous function of t
      (a polynomial: cofactor expansion), so it cannot become negative (intermediate value theorem). *)
From Coq Require Import List Arith Bool Lia ZArith Reals Lra Ranalysis1 Rsqrt_def.
From Compute Require Import Base.Ops Base.ListMat Model.Reduce Model.MatMul Model.Subst Model.Cholesky Model.LU
  Model.Solve Model.SolveInst Spec.Factor Spec.Solve Spec.Determinant Proofs.C05 Proofs.LinAlgBase
  Proofs.C11_Subst Proofs.C11_Pred Proofs.C11_Chol Proofs.C11_SPD Proofs.C11_LU Proofs.C11_DetLaplace Proofs.C11_DetLU
  Proofs.C01 Proofs.Compose_base.
Import ListNotations.
Local Open Scope R_scope.

(** the [Matrix] value with [n] rows, [n] columns and data [a] *)
Definition sqmat (n : nat) (a : list R) : matrix (T:=R) := {| nr := n; nc := n; dat := a |}.

Lemma sqmat_well_formed n a : (0 < n)%nat -> (n * n)%nat = length a -> well_formed (sqmat n a) = true.
Proof.
  intros Hn Hl. unfold well_formed, sqmat. cbn [nr nc dat]. rewrite <- Hl, Nat.eqb_refl.
  destruct (Nat.ltb_spec 0 n); [reflexivity|lia].
Qed.

(** ** the predicates of [MVN::new] / [Matrix::cholesky] answer [true] on a symmetric positive definite matrix *)
Lemma matrix_is_symmetric_exact n a :
  symmetric a n -> matrix_is_symmetric RO (sqmat n a) = true.
Proof.
  intros Hsym. unfold matrix_is_symmetric, mrows, sqmat. cbn [nr nc dat]. rewrite Nat.eqb_refl. cbn [andb].
  apply is_symmetric_rows_exact. intros i j Hi Hj. rewrite !ent_unflatten by auto. apply (Hsym i j); auto.
Qed.

Lemma matrix_is_pd_spd n a :
  symmetric a n -> positive_definite a n -> matrix_is_positive_definite RO (sqmat n a) = true.
Proof.
  intros Hsym Hpd. unfold matrix_is_positive_definite. rewrite matrix_is_symmetric_exact by exact Hsym. cbn [andb].
  unfold mrows, sqmat. cbn [nr nc dat]. apply diag_positive_rows_true. intros i Hi.
  rewrite ent_unflatten by auto. apply (positive_definite_diag a n i Hpd Hi).
Qed.

(** ** [Matrix::cholesky] *)
Lemma matrix_cholesky_spd a n :
  (n * n)%nat = length a -> (0 < n)%nat -> symmetric a n -> positive_definite a n ->
  exists l, matrix_cholesky RO (sqmat n a) = Some (sqmat n l) /\ cholesky RO a = Some l.
Proof.
  intros Hl Hn Hsym Hpd.
  assert (HsymM : forall i j, (i < n)%nat -> (j < n)%nat -> ent 0 (unflatten a n n) i j = ent 0 (unflatten a n n) j i).
  { intros i j Hi Hj. rewrite !ent_unflatten by auto. apply (Hsym i j); auto. }
  assert (HpdM : pos_def_fun (ent 0 (unflatten a n n)) n).
  { intros x Hx. specialize (Hpd x Hx). unfold qform.
    rewrite (rsum_ext _ (fun p => rsum (fun q => x p * getm a n p q * x q) n)); [exact Hpd|].
    intros p Hp. apply rsum_ext. intros q Hq. rewrite ent_unflatten by auto. reflexivity. }
  pose proof (spd_try_chol_rows (unflatten a n n) n HsymM HpdM) as Hrows.
  exists (flatten (chol_rows RO false (unflatten a n n) n)). split.
  - unfold matrix_cholesky. rewrite sqmat_well_formed by assumption. cbn [guard bind].
    rewrite matrix_is_pd_spd by assumption. cbn [guard bind].
    unfold mrows, sqmat. cbn [nr nc dat].
    rewrite (proj2 (chol_dot_form_irrelevant (unflatten a n n) n)), Hrows. reflexivity.
  - pose proof (cholesky_shape a) as Hs. rewrite <- Hl, is_square_sq in Hs.
    rewrite (is_symmetric_rows_exact _ n HsymM) in Hs. rewrite Hs, Hrows. reflexivity.
Qed.

(** ** a right inverse of a matrix that has a left inverse is a left inverse too *)
Lemma right_inverse_is_left a n X :
  nonsingular a n -> is_right_inverse a n X ->
  forall i j, (i < n)%nat -> (j < n)%nat -> mmul X a n i j = delta i j.
Proof.
  intros [c Hc] [_ HX] i j Hi Hj.
  assert (HXc : forall p q, (p < n)%nat -> (q < n)%nat -> getm X n p q = getm c n p q).
  { intros p q Hp Hq.
    (* c = c (a X) = (c a) X = X *)
    transitivity (rsum (fun m => getm c n p m * mmul a X n m q) n).
    - transitivity (rsum (fun l => mmul c a n p l * getm X n l q) n).
      + rewrite (rsum_ext _ (fun l => delta p l * getm X n l q)) by (intros l Hlt; rewrite Hc by auto; reflexivity).
        rewrite (rsum_single _ p n Hp).
        * unfold delta. rewrite Nat.eqb_refl. ring.
        * intros k Hk Hkp. unfold delta. destruct (Nat.eqb_spec p k); [lia|ring].
      + unfold mmul.
        rewrite (rsum_ext _ (fun l => rsum (fun m => getm c n p m * getm a n m l * getm X n l q) n))
          by (intros l Hlt; rewrite <- rsum_scal_r; reflexivity).
        rewrite rsum_swap. apply rsum_ext. intros m Hm. rewrite <- rsum_scal_l. apply rsum_ext. intros l Hlt. ring.
    - rewrite (rsum_ext _ (fun m => getm c n p m * delta m q)) by (intros m Hm; rewrite HX by auto; reflexivity).
      rewrite (rsum_single _ q n Hq).
      + unfold delta. rewrite Nat.eqb_refl. ring.
      + intros k Hk Hkq. unfold delta. destruct (Nat.eqb_spec k q); [lia|ring]. }
  rewrite <- (Hc i j Hi Hj). unfold mmul. apply rsum_ext. intros k Hk. rewrite HXc by auto. reflexivity.
Qed.

(** ** [Matrix::inv] on a symmetric positive definite matrix: THE inverse (two-sided) *)
Lemma matrix_inv_spd a n :
  (n * n)%nat = length a -> (0 < n)%nat -> symmetric a n -> positive_definite a n ->
  exists X, mat_inv RO (sqmat n a) = Some (sqmat n X) /\ length X = (n * n)%nat /\
    (forall i j, (i < n)%nat -> (j < n)%nat -> mmul a X n i j = delta i j) /\
    (forall i j, (i < n)%nat -> (j < n)%nat -> mmul X a n i j = delta i j).
Proof.
  intros Hl Hn Hsym Hpd.
  pose proof (spd_nonsingular a n Hl Hn Hsym Hpd) as Hns.
  destruct (matrix_inv_nonsingular (sqmat n a) n (sqmat_well_formed n a Hn Hl) eq_refl eq_refl Hns)
    as (r & Hr & Hnr & Hnc & HR).
  exists (dat r). split; [|split; [exact (proj1 HR)|split; [exact (proj2 HR)|]]].
  - rewrite Hr. f_equal. destruct r as [r1 r2 r3]. cbn [nr nc dat] in *. subst. reflexivity.
  - apply right_inverse_is_left; assumption.
Qed.

(** a two-sided inverse is unique: whatever satisfies A Y = I agrees with X (where X A = I) on all n x n entries *)
Lemma two_sided_inverse_unique a n X Y :
  (forall i j, (i < n)%nat -> (j < n)%nat -> mmul X a n i j = delta i j) ->
  (forall i j, (i < n)%nat -> (j < n)%nat -> mmul a Y n i j = delta i j) ->
  forall i j, (i < n)%nat -> (j < n)%nat -> getm Y n i j = getm X n i j.
Proof.
  intros HX HY i j Hi Hj.
  assert (Hns : nonsingular a n) by (exists X; exact HX).
  assert (HR : is_right_inverse a n (mk_mat (fun p q => getm Y n p q) n)).
  { split; [apply mk_mat_length|]. intros p q Hp Hq. rewrite <- (HY p q Hp Hq). unfold mmul.
    apply rsum_ext. intros k Hk. rewrite getm_mk_mat by auto. reflexivity. }
  pose proof (right_inverse_is_left a n _ Hns HR) as HL.
  (* X = X (a Y) = (X a) Y = Y, reusing the argument above with c := X *)
  transitivity (rsum (fun m => getm X n i m * mmul a Y n m j) n).
  - transitivity (rsum (fun l => mmul X a n i l * getm Y n l j) n).
    + rewrite (rsum_ext _ (fun l => delta i l * getm Y n l j)) by (intros l Hlt; rewrite HX by auto; reflexivity).
      rewrite (rsum_single _ i n Hi).
      * unfold delta. rewrite Nat.eqb_refl. ring.
      * intros k Hk Hki. unfold delta. destruct (Nat.eqb_spec i k); [lia|ring].
    + unfold mmul.
      rewrite (rsum_ext _ (fun l => rsum (fun m => getm X n i m * getm a n m l * getm Y n l j) n))
        by (intros l Hlt; rewrite <- rsum_scal_r; reflexivity).
      rewrite rsum_swap. apply rsum_ext. intros m Hm. rewrite <- rsum_scal_l. apply rsum_ext. intros l Hlt. ring.
  - rewrite (rsum_ext _ (fun m => getm X n i m * delta m j)) by (intros m Hm; rewrite HY by auto; reflexivity).
    rewrite (rsum_single _ j n Hj).
    + unfold delta. rewrite Nat.eqb_refl. ring.
    + intros k Hk Hkj. unfold delta. destruct (Nat.eqb_spec k j); [lia|ring].
Qed.

(** ** the determinant of a nonsingular matrix is not zero (C01: no zero pivot; C11: det = 0 iff a zero pivot) *)
Lemma nonsingular_det_nonzero a n :
  (n * n)%nat = length a -> nonsingular a n -> det_n n (fun i j => getm a n i j) <> 0.
Proof.
  intros Hl Hns. pose proof (lu_shape a) as Hs. rewrite <- Hl, is_square_sq in Hs.
  destruct Hs as (m & piv & Hlu & _ & _).
  rewrite <- determinant_unflatten. intros Hz.
  apply (lu_determinant_zero_iff a m piv n Hlu Hl) in Hz. destruct Hz as (i & Hi & Hzi).
  exact (nonsingular_pivots_nonzero a n Hl Hns m piv Hlu i Hi Hzi).
Qed.

(** ** the cofactor determinant is a continuous function of a parameter the entries depend on continuously *)
Lemma rsum_continuity (f : nat -> R -> R) n :
  (forall i, (i < n)%nat -> continuity (f i)) -> continuity (fun t => rsum (fun i => f i t) n).
Proof.
  induction n as [|n IH]; intros Hf; cbn [rsum].
  - apply continuity_const. intros x y. reflexivity.
  - intros t. apply (continuity_pt_plus (fun t => rsum (fun i => f i t) n) (f n) t).
    + apply IH. intros i Hi. apply Hf. lia.
    + apply Hf. lia.
Qed.

Lemma det_n_continuity n : forall a : nat -> nat -> R -> R,
  (forall i j, continuity (a i j)) -> continuity (fun t => det_n n (fun i j => a i j t)).
Proof.
  induction n as [|n IH]; intros a Ha.
  - cbn [det_n]. apply continuity_const. intros x y. reflexivity.
  - cbn [det_n]. apply (rsum_continuity (fun i t => (-1) ^ i * a i 0%nat t * det_n n (fun r c => a (skip i r) (S c) t)) (S n)).
    intros i _ t.
    apply (continuity_pt_mult (fun t => (-1) ^ i * a i 0%nat t) (fun t => det_n n (fun r c => a (skip i r) (S c) t)) t).
    + apply (continuity_pt_mult (fun _ => (-1) ^ i) (a i 0%nat) t).
      * apply continuity_pt_const. intros x y. reflexivity.
      * apply Ha.
    + apply (IH (fun r c => a (skip i r) (S c))). intros r c. apply Ha.
Qed.

(** ** the segment (1 - s) I + s A, 0 <= s <= 1, of a symmetric positive definite A consists of such matrices *)
Definition segm (a : list R) (n : nat) (s : R) : list R :=
  mk_mat (fun i j => (1 - s) * delta i j + s * getm a n i j) n.

Lemma rsum_square_pos (x : nat -> R) n : (exists i, (i < n)%nat /\ x i <> 0) -> 0 < rsum (fun p => x p * x p) n.
Proof.
  intros (i & Hi & Hx).
  assert (Hnn : forall k, (k < n)%nat -> 0 <= x k * x k) by (intros k _; nra).
  pose proof (rsum_ge_term (fun p => x p * x p) n i Hnn Hi) as Hge. cbn beta in Hge.
  assert (0 < x i * x i) by nra. lra.
Qed.

Lemma segm_spd a n s :
  symmetric a n -> positive_definite a n -> 0 <= s <= 1 ->
  symmetric (segm a n s) n /\ positive_definite (segm a n s) n.
Proof.
  intros Hsym Hpd Hs. split.
  - intros i j Hi Hj. unfold segm. rewrite !getm_mk_mat by auto. rewrite (Hsym i j Hi Hj), (delta_sym i j). reflexivity.
  - intros x Hx.
    rewrite (rsum_ext _ (fun p => (1 - s) * (x p * x p) + s * rsum (fun q => x p * getm a n p q * x q) n)).
    + rewrite rsum_plus, !rsum_scal_l.
      pose proof (rsum_square_pos x n Hx) as Hsq. pose proof (Hpd x Hx) as Hq.
      destruct (Req_dec s 0) as [->|Hs0]; [lra|].
      assert (0 < s * rsum (fun p => rsum (fun q => x p * getm a n p q * x q) n) n) by (apply Rmult_lt_0_compat; lra).
      assert (0 <= (1 - s) * rsum (fun p => x p * x p) n) by (apply Rmult_le_pos; lra). lra.
    + intros p Hp.
      rewrite (rsum_ext _ (fun q => (1 - s) * (x p * delta p q * x q) + s * (x p * getm a n p q * x q))).
      * rewrite rsum_plus, !rsum_scal_l. f_equal. f_equal.
        rewrite (rsum_single _ p n Hp).
        -- unfold delta. rewrite Nat.eqb_refl. ring.
        -- intros k Hk Hkp. unfold delta. destruct (Nat.eqb_spec p k); [lia|ring].
      * intros q Hq. unfold segm. rewrite getm_mk_mat by auto. ring.
Qed.

(** ** the determinant of a symmetric positive definite matrix is positive *)
Lemma spd_det_nonzero a n :
  (n * n)%nat = length a -> (0 < n)%nat -> symmetric a n -> positive_definite a n ->
  det_n n (fun i j => getm a n i j) <> 0.
Proof. intros Hl Hn Hsym Hpd. apply nonsingular_det_nonzero; [exact Hl|]. apply spd_nonsingular; assumption. Qed.

Lemma spd_det_pos a n :
  (n * n)%nat = length a -> (0 < n)%nat -> symmetric a n -> positive_definite a n ->
  0 < det_n n (fun i j => getm a n i j).
Proof.
  intros Hl Hn Hsym Hpd.
  set (f := fun t : R => det_n n (fun i j => (1 - t) * delta i j + t * getm a n i j)).
  assert (Hcont : continuity f).
  { unfold f. apply (det_n_continuity n (fun i j t => (1 - t) * delta i j + t * getm a n i j)).
    intros i j t.
    apply (continuity_pt_plus (fun t => (1 - t) * delta i j) (fun t => t * getm a n i j) t).
    - apply (continuity_pt_mult (fun t => 1 - t) (fun _ => delta i j) t).
      + apply (continuity_pt_minus (fun _ => 1) (fun t => t) t).
        * apply continuity_pt_const. intros x y. reflexivity.
        * apply derivable_continuous_pt, derivable_pt_id.
      + apply continuity_pt_const. intros x y. reflexivity.
    - apply (continuity_pt_mult (fun t => t) (fun _ => getm a n i j) t).
      + apply derivable_continuous_pt, derivable_pt_id.
      + apply continuity_pt_const. intros x y. reflexivity. }
  assert (Hf0 : f 0 = 1).
  { unfold f. etransitivity; [|exact (det_identity n)]. apply det_ext. intros r c Hr Hc. unfold delta. destruct (r =? c)%nat; ring. }
  assert (Hf1 : f 1 = det_n n (fun i j => getm a n i j)).
  { unfold f. apply det_ext. intros r c Hr Hc. ring. }
  assert (Hnz : forall s, 0 <= s <= 1 -> f s <> 0).
  { intros s Hs. destruct (segm_spd a n s Hsym Hpd Hs) as [Hsym' Hpd'].
    assert (Hl' : (n * n)%nat = length (segm a n s)) by (unfold segm; rewrite mk_mat_length; reflexivity).
    pose proof (spd_det_nonzero (segm a n s) n Hl' Hn Hsym' Hpd') as Hd.
    intros Hz. apply Hd. rewrite <- Hz. unfold f. apply det_ext. intros r c Hr Hc.
    unfold segm. rewrite getm_mk_mat by auto. reflexivity. }
  rewrite <- Hf1.
  destruct (Rlt_le_dec 0 (f 1)) as [Hpos|Hneg]; [exact Hpos|exfalso].
  assert (Hlt : f 1 < 0) by (pose proof (Hnz 1 ltac:(lra)); lra).
  set (h := fun t : R => f (1 - t)).
  assert (Hh : continuity h).
  { intros t. unfold h. apply (continuity_pt_comp (fun t => 1 - t) f t).
    - apply (continuity_pt_minus (fun _ => 1) (fun t => t) t).
      + apply continuity_pt_const. intros x y. reflexivity.
      + apply derivable_continuous_pt, derivable_pt_id.
    - apply Hcont. }
  destruct (IVT h 0 1 Hh ltac:(lra)) as (z & Hz & Hhz).
  - unfold h. replace (1 - 0) with 1 by ring. exact Hlt.
  - unfold h. replace (1 - 1) with 0 by ring. rewrite Hf0. lra.
  - unfold h in Hhz. apply (Hnz (1 - z)); [lra|exact Hhz].
Qed.

(** ** [Matrix::det] on a symmetric positive definite matrix: THE determinant, and it is positive *)
Lemma matrix_det_spd a n :
  (n * n)%nat = length a -> (0 < n)%nat -> symmetric a n -> positive_definite a n ->
  matrix_det RO (sqmat n a) = Some (determinant (unflatten a n n)) /\ 0 < determinant (unflatten a n n).
Proof.
  intros Hl Hn Hsym Hpd. split.
  - rewrite (matrix_det_is_determinant (sqmat n a) (sqmat_well_formed n a Hn Hl) eq_refl). reflexivity.
  - rewrite determinant_unflatten. apply spd_det_pos; assumption.
Qed.
