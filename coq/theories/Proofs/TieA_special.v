(** * Tie A for C09: the hand-written model [Model/Special.v] IS the source (expression translator).
    [Generated/special.v] is produced on every run by tools/tiea/special.py (tools/rsexpr.py) from
    src/functions/gamma.rs and src/functions/statistical.rs; the literals are those of Generated/special_consts.v.
    A generated term is the BODY of the Rust function with its recursive call abstracted ([Gam], [Dig], [Erf]).
    The model resolves the recursion: [gamma] / [erf] call the other branch directly on the reflected argument,
    [digamma] takes fuel.  The lemmas hold for EVERY carrier and operations record (conversion, induction on the
    coefficient list, boolean case splits); the digamma series needs the single hypothesis [ofZ O 1 = one O] (the
    model writes its numerators [ofZ O num] from the generated table, the source writes [1.]), which the three
    carriers in use satisfy by computation.  On the reals the model is moreover shown to SATISFY the source's
    recursion equation ([src_f RO (f RO) = f RO]). *)
From Coq Require Import List ZArith QArith Reals Floats Bool Lra.
From Compute Require Import Base.Ops Base.RsExpr Model.Special Generated.special_consts Generated.special Proofs.TieA_tac.
Import ListNotations.

Section TieA.
  Context {T : Type} (O : Ops T).

  (** the Lanczos loop: the model's structural recursion is the translator's indexed fold *)
  Lemma lanczos_sum_fold :
    forall (z : T) (cs : list (Q * float)) (idx : nat) (x : T),
      lanczos_sum O z idx cs x =
      rs_fold_enum_from (fun (x : T) (idx : nat) (val : Q * float) =>
                           add O x (div O (ofLit O val) (add O (add O (sub O z (one O)) (ofZ O (Z.of_nat idx))) (one O))))
                        idx cs x.
  Proof. intros z cs. induction cs as [|c cs IH]; intros idx x; cbn [lanczos_sum rs_fold_enum_from]; [reflexivity | apply IH]. Qed.

  Lemma tiea_beta : forall a b, src_beta O (gamma O) a b = beta O a b.
  Proof. reflexivity. Qed.

  (** the body of [gamma], recursive call abstracted *)
  Lemma tiea_gamma_body :
    forall (Gam : T -> T) (z : T),
      src_gamma O Gam z =
      if ltb O z (ofQ O (1 # 2)) then div O (pi O) (mul O (f1 O Sin (mul O (pi O) z)) (Gam (sub O (one O) z)))
      else gamma_pos O z.
  Proof.
    intros Gam z. unfold src_gamma, gamma_pos, rs_fold_enum. rewrite lanczos_sum_fold. reflexivity.
  Qed.
  (** the model = the body with the reflected call [gamma(1. - z)] taking the [else] branch *)
  Lemma tiea_gamma : forall z, src_gamma O (gamma_pos O) z = gamma O z.
  Proof. intro z. rewrite tiea_gamma_body. reflexivity. Qed.

  Lemma tiea_erf_body :
    forall (Erf : T -> T) (x : T),
      src_erf O Erf x = if leb O (zero O) x then erf_nonneg O x else neg O (Erf (neg O x)).
  Proof. reflexivity. Qed.
  Lemma tiea_erf : forall x, src_erf O (erf_nonneg O) x = erf O x.
  Proof. reflexivity. Qed.

  (** digamma: one unfolding of the fuelled model is the source body *)
  Lemma tiea_digamma_series :
    ofZ O 1 = one O ->
    forall (Dig : T -> T) (x : T), ltb O x (ofZ O 6) = false -> src_digamma O Dig x = digamma_asym O x.
  Proof.
    intros H1 Dig x Hx. unfold src_digamma. rewrite Hx.
    unfold digamma_asym, digamma_terms. cbn [fold_left digamma_term]. rewrite !H1. reflexivity.
  Qed.
  Lemma tiea_digamma :
    ofZ O 1 = one O ->
    forall (fuel : nat) (x : T),
      digamma O (S fuel) x =
      if ltb O x (ofZ O 6)
      then option_map (fun d => src_digamma O (fun _ => d) x) (digamma O fuel (add O x (one O)))
      else Some (src_digamma O (fun y => y) x).
  Proof.
    intros H1 fuel x. cbn [digamma]. destruct (ltb O x (ofZ O 6)) eqn:Hx.
    - unfold src_digamma. rewrite Hx. destruct (digamma O fuel (add O x (one O))); reflexivity.
    - rewrite (tiea_digamma_series H1 _ x Hx). reflexivity.
  Qed.
End TieA.

(** the hypothesis of the digamma lemmas holds on the three carriers in use *)
Lemma ofZ_one_RO : ofZ RO 1 = one RO. Proof. reflexivity. Qed.
Lemma ofZ_one_QO : ofZ QO 1 = one QO. Proof. reflexivity. Qed.
Lemma ofZ_one_FO : forall t, ofZ (FO t) 1 = one (FO t). Proof. reflexivity. Qed.

(** ** on the reals the model satisfies the source's recursion equations *)
Local Open Scope R_scope.
Lemma gamma_fixpoint_R : forall z : R, src_gamma RO (gamma RO) z = gamma RO z.
Proof.
  intro z. rewrite tiea_gamma_body. unfold gamma at 2. 
  cbn [ltb RO ofQ]. unfold Rltb. destruct (Rlt_dec z (Q2R (1 # 2))) as [Hz|Hz]; [|reflexivity].
  unfold gamma. cbn [ltb RO ofQ sub one]. unfold Rltb.
  destruct (Rlt_dec (1 - z) (Q2R (1 # 2))) as [H2|H2]; [|reflexivity].
  exfalso. unfold Q2R in Hz, H2. cbn in Hz, H2. lra.
Qed.
Lemma erf_fixpoint_R : forall x : R, src_erf RO (erf RO) x = erf RO x.
Proof.
  intro x. rewrite tiea_erf_body. unfold erf at 2. cbn [leb RO zero]. unfold Rleb.
  destruct (Rle_dec 0 x) as [Hx|Hx]; [reflexivity|].
  unfold erf. cbn [leb RO zero neg]. unfold Rleb. destruct (Rle_dec 0 (- x)) as [H2|H2]; [reflexivity|].
  exfalso. lra.
Qed.
