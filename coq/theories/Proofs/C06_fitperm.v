(** Proofs for C06, part 7: the WHOLE fit is invariant under a permutation of the observations
    (rows of the design, responses, prior weights, offsets permuted together), on the real carrier, for an
    abstract inner solver: lifting of [row_permutation_invariant] (C06_perm.v) through the linear
    predictor, the family tables, the scoring loop, and the entry checks of [fit]. *)
From Coq Require Import Reals List Arith ZArith Bool Lia Lra Permutation.
From Compute Require Import Base.Ops Base.ListMat Model.Reduce Model.MatMul Model.SolveInst Spec.MatMul Proofs.C05.
From Compute Require Import Generated.glm_families Model.GLM Spec.GLM Proofs.C06_base Proofs.C06 Proofs.C06_infer
  Proofs.C06_weighted Proofs.C06_perm.
Import ListNotations.
Local Open Scope R_scope.

(** ** permutations of lists *)
Lemma forallb_perm {A} (g : A -> bool) l l' : Permutation l l' -> forallb g l = forallb g l'.
Proof.
  induction 1 as [|a l l' _ IH|a b l|l l' l'' _ IH1 _ IH2]; cbn [forallb].
  - reflexivity.
  - rewrite IH. reflexivity.
  - destruct (g a), (g b); reflexivity.
  - rewrite IH1. exact IH2.
Qed.

Lemma list_as_map_seq (v : list R) : v = map (fun i => nth i v 0) (seq 0 (length v)).
Proof. rewrite (map_nth_seq (fun a => a) v 0), map_id. reflexivity. Qed.

Lemma permute_map (g : R -> R) e sigma :
  (forall i, In i sigma -> (i < length e)%nat) -> map g (permute e sigma) = permute (map g e) sigma.
Proof.
  intros H. unfold permute. rewrite map_map. apply map_ext_in. intros i Hi.
  rewrite (nth_map' g e i 0 0) by (apply H; exact Hi). reflexivity.
Qed.

Lemma permute_repeat (a : R) n sigma :
  (forall i, In i sigma -> (i < n)%nat) -> permute (repeat a n) sigma = repeat a (length sigma).
Proof.
  intros H. unfold permute. induction sigma as [|s sigma IH]; [reflexivity|].
  cbn [map length repeat]. rewrite nth_repeat_lt by (apply H; left; reflexivity).
  f_equal. apply IH. intros i Hi. apply H. right. exact Hi.
Qed.

Lemma permute_map2 (g : R -> R -> R) a b sigma :
  (forall i, In i sigma -> (i < length a)%nat /\ (i < length b)%nat) ->
  map2 g (permute a sigma) (permute b sigma) = permute (map2 g a b) sigma.
Proof.
  intros H. rewrite map2_permute. unfold permute. apply map_ext_in. intros i Hi.
  destruct (H i Hi) as [Ha Hb]. rewrite (nth_map2 g a b i 0 0 0) by lia. reflexivity.
Qed.

Lemma forallb_map {A B} (g : B -> bool) (h : A -> B) l : forallb g (map h l) = forallb (fun a => g (h a)) l.
Proof. induction l as [|a l IH]; [reflexivity|]. cbn [map forallb]. rewrite IH. reflexivity. Qed.

Lemma forallb_ext_in {A} (g g' : A -> bool) l : (forall a, In a l -> g a = g' a) -> forallb g l = forallb g' l.
Proof.
  induction l as [|a l IH]; intros H; [reflexivity|]. cbn [forallb].
  rewrite (H a) by (left; reflexivity). rewrite IH by (intros b Hb; apply H; right; exact Hb). reflexivity.
Qed.

Section FitPerm.
  Variables (x y : list R) (n p : nat) (sigma : list nat).
  Hypothesis P : Permutation sigma (seq 0 n).
  Hypothesis Hn : (0 < n)%nat.
  Hypothesis Hp : (0 < p)%nat.
  Hypothesis Hx : length x = (n * p)%nat.
  Hypothesis Hy : length y = n.

  Let x' := permute_rows x p sigma.
  Let y' := permute y sigma.

  Lemma sig_len : length sigma = n.
  Proof. exact (sigma_length n sigma P). Qed.

  Lemma sig_in i : In i sigma -> (i < n)%nat.
  Proof. intros H. apply (Permutation_in _ P) in H. apply in_seq in H. lia. Qed.

  Lemma sig_nth i : (i < n)%nat -> (nth i sigma 0%nat < n)%nat.
  Proof. intros H. apply sig_in, nth_In. rewrite sig_len. exact H. Qed.

  Lemma permute_Permutation v : length v = n -> Permutation (permute v sigma) v.
  Proof.
    intros L. rewrite (list_as_map_seq v) at 2. rewrite L. unfold permute.
    apply Permutation_map, P.
  Qed.

  Lemma x'_len : length x' = (n * p)%nat.
  Proof. unfold x'. rewrite permute_rows_length, sig_len. reflexivity. Qed.
  Lemma y'_len : length y' = n.
  Proof. unfold y'. rewrite permute_length. apply sig_len. Qed.

  (** ** (1) the product of the permuted design with any coefficient array *)
  Lemma matmul_perm coef :
    match is_matrix (length coef) p with
    | None => matmul RO x' coef n p false false = None /\ matmul RO x coef n p false false = None
    | Some k => exists c c', matmul RO x coef n p false false = Some c /\
                             matmul RO x' coef n p false false = Some c' /\
                             length c = (n * k)%nat /\ length c' = (n * k)%nat /\
                             (k = 1%nat -> c' = permute c sigma)
    end.
  Proof.
    pose proof (matmul_spec RO x coef n p false false) as M.
    pose proof (matmul_spec RO x' coef n p false false) as M'.
    rewrite dims_is_matrix in M, M'. unfold dims' in M, M'.
    rewrite x'_len in M'. rewrite Hx in M. rewrite (is_matrix_mul n p Hn) in M, M'.
    cbn [bind] in M, M'.
    destruct (is_matrix (length coef) p) as [k|]; cbn [bind guard] in M, M'.
    - rewrite Nat.eqb_refl in M, M'. cbn [bind guard andb] in M, M'.
      destruct M as (c & Hc & Lc & Ec). destruct M' as (c' & Hc' & Lc' & Ec').
      exists c, c'. repeat split; auto.
      intros ->. apply nth_ext with (d := 0) (d' := 0).
      + rewrite permute_length, sig_len. lia.
      + intros i Hi. rewrite Lc' in Hi. assert (Hi' : (i < n)%nat) by lia.
        rewrite permute_nth by (rewrite sig_len; exact Hi').
        pose proof (sig_nth i Hi') as Hs.
        specialize (Ec' i 0%nat Hi' ltac:(lia)). specialize (Ec (nth i sigma 0%nat) 0%nat Hs ltac:(lia)).
        replace (i * 1 + 0)%nat with i in Ec' by lia.
        replace (nth i sigma 0%nat * 1 + 0)%nat with (nth i sigma 0%nat) in Ec by lia.
        change (zero RO) with 0 in Ec, Ec'. rewrite Ec, Ec'.
        apply sumk_ext. intros l Hl. f_equal. unfold opA.
        change (zero RO) with 0.
        change (nth (i * p + l) x' 0) with (X x' p i l).
        unfold x'. rewrite permute_rows_X by (rewrite ?sig_len; lia). reflexivity.
    - split; assumption.
  Qed.

  (** ** (2) linear predictor: three cases *)
  Variable off : option (list R).
  Hypothesis Ho : forall o, off = Some o -> length o = n.
  Let off' := option_map (fun v => permute v sigma) off.

  Lemma lp_perm coef :
    (linear_predictor RO x' n p off' coef = None /\ linear_predictor RO x n p off coef = None) \/
    (exists e e', linear_predictor RO x n p off coef = Some e /\ linear_predictor RO x' n p off' coef = Some e' /\
                  length e <> n /\ length e' <> n) \/
    (exists e, linear_predictor RO x n p off coef = Some e /\
               linear_predictor RO x' n p off' coef = Some (permute e sigma) /\ length e = n).
  Proof.
    pose proof (matmul_perm coef) as M. unfold linear_predictor.
    destruct (is_matrix (length coef) p) as [k|].
    - destruct M as (c & c' & -> & -> & Lc & Lc' & E). cbn [bind].
      destruct (Nat.eq_dec k 1) as [K|K].
      + specialize (E K). subst k c'. rewrite Nat.mul_1_r in Lc.
        right; right. unfold off'. destruct off as [o|]; cbn [option_map].
        * pose proof (Ho o eq_refl) as Lo.
          rewrite !vbin_some by (rewrite ?permute_length, ?sig_len; lia).
          eexists; split; [reflexivity|]. split.
          -- f_equal. apply permute_map2. intros i Hi. apply sig_in in Hi. lia.
          -- rewrite map2_length. lia.
        * exists c. auto.
      + assert (N : (n * k)%nat <> n) by nia.
        unfold off'. destruct off as [o|]; cbn [option_map].
        * pose proof (Ho o eq_refl) as Lo. left. unfold vbin.
          rewrite permute_length, sig_len, Lc, Lc', Lo.
          destruct (Nat.eqb_spec (n * k) n); [lia|]. auto.
        * right; left. exists c, c'. repeat split; auto; lia.
    - destruct M as [-> ->]. left. auto.
  Qed.

  (** ** (3) the quantities at the coefficients: each field is permuted *)
  Definition permq (q : @quantities R) : @quantities R :=
    {| q_mu := permute (q_mu q) sigma; q_dmu := permute (q_dmu q) sigma; q_var := permute (q_var q) sigma |}.
  Definition lens (q : @quantities R) : Prop :=
    length (q_mu q) = n /\ length (q_dmu q) = n /\ length (q_var q) = n.

  Lemma at_coef_perm f coef :
    (at_coef RO f x' n p off' coef = None /\ at_coef RO f x n p off coef = None) \/
    (exists q q', at_coef RO f x n p off coef = Some q /\ at_coef RO f x' n p off' coef = Some q' /\
                  length (q_mu q) <> n /\ length (q_mu q') <> n) \/
    (exists q, at_coef RO f x n p off coef = Some q /\ at_coef RO f x' n p off' coef = Some (permq q) /\ lens q).
  Proof.
    unfold at_coef.
    destruct (lp_perm coef) as [[-> ->]|[(e & e' & -> & -> & N & N')|(e & -> & -> & L)]]; cbn [bind].
    - left; auto.
    - right; left. eexists; eexists. split; [reflexivity|]. split; [reflexivity|].
      cbn [q_mu]. unfold inv_link. rewrite !map_length. auto.
    - right; right. eexists. split; [reflexivity|].
      assert (I : forall i, In i sigma -> (i < length e)%nat) by (intros i Hi; apply sig_in in Hi; lia).
      assert (Emu : inv_link RO f (permute e sigma) = permute (inv_link RO f e) sigma)
        by (unfold inv_link; apply permute_map; exact I).
      assert (Lmu : length (inv_link RO f e) = n) by (unfold inv_link; rewrite map_length; exact L).
      split.
      + f_equal. unfold permq. cbn [q_mu q_dmu q_var]. rewrite Emu. f_equal.
        * destruct f; unfold d_inv_link;
            try (apply permute_map; intros i Hi; apply sig_in in Hi; lia).
          rewrite permute_length, permute_repeat by exact I. reflexivity.
        * unfold variance. apply permute_map. intros i Hi. apply sig_in in Hi. lia.
      + unfold lens. cbn [q_mu q_dmu q_var]. unfold variance. rewrite d_inv_link_length, map_length. auto.
  Qed.

  (** ** (4) gradient / information and deviances at permuted quantities *)
  Variable w : list R.
  Hypothesis Hw : length w = n.
  Let w' := permute w sigma.

  Lemma newton_perm alpha coef q : lens q ->
    newton_system RO alpha x' y' p w' coef (permq q) = newton_system RO alpha x y p w coef q.
  Proof.
    intros (Lm & Ld & Lv). unfold newton_system, permq. cbn [q_mu q_dmu q_var]. unfold x', y', w'.
    rewrite (perm_dbeta x y (q_mu q) (q_dmu q) (q_var q) w n p sigma) by assumption.
    rewrite (perm_ddbeta x y (q_mu q) (q_dmu q) (q_var q) w n p sigma) by assumption.
    reflexivity.
  Qed.

  Lemma newton_none alpha xx yy ww coef (q : @quantities R) :
    length xx = (n * p)%nat -> length yy = n -> length (q_mu q) <> n ->
    newton_system RO alpha xx yy p ww coef q = None.
  Proof.
    intros Lx Ly N. unfold newton_system, compute_dbeta. rewrite Ly, Lx, (is_matrix_mul n p Hn). cbn [bind].
    assert (E : vbin (sub RO) yy (q_mu q) = None).
    { unfold vbin. rewrite Ly. destruct (Nat.eqb_spec n (length (q_mu q))); [exfalso; auto|reflexivity]. }
    unfold working_residuals. rewrite E. reflexivity.
  Qed.

  Lemma weighted_deviance_perm f mu : length mu = n ->
    weighted_deviance RO f y' (permute mu sigma) w' = weighted_deviance RO f y mu w.
  Proof.
    intros Lm. unfold weighted_deviance.
    assert (U : unit_weights RO w' = unit_weights RO w)
      by (unfold unit_weights; apply forallb_perm, permute_Permutation, Hw).
    rewrite U. destruct (unit_weights RO w).
    - unfold y'. apply (perm_deviance x y mu mu mu w n p sigma); assumption.
    - unfold y', w'. rewrite !permute_length, sig_len, Hy, Lm, Hw, Nat.leb_refl. cbn [andb]. f_equal.
      rewrite !isum_R, <- !bigsum_lsum.
      change (zero RO) with 0.
      rewrite <- (bigsum_perm (fun i => mul RO (nth i w 0) (unit_dev RO f (nth i y 0) (nth i mu 0))) sigma n P).
      apply bigsum_ext. intros i Hi.
      rewrite !permute_nth by (rewrite sig_len; exact Hi). reflexivity.
  Qed.

  Lemma weighted_penalized_deviance_perm f mu alpha coef : length mu = n ->
    weighted_penalized_deviance RO f y' (permute mu sigma) w' alpha coef
    = weighted_penalized_deviance RO f y mu w alpha coef.
  Proof. intros Lm. unfold weighted_penalized_deviance. rewrite (weighted_deviance_perm f mu Lm). reflexivity. Qed.

  (** ** (5) one pass, then the loop *)
  Variable solve : list R -> list R -> option (list R).
  Variables (f : family) (alpha tol : R).

  Lemma step_perm coef pdev :
    (step RO solve f alpha tol x' y' n p w' off' coef pdev = None /\
     step RO solve f alpha tol x y n p w off coef pdev = None) \/
    (exists c pd cv q,
       step RO solve f alpha tol x y n p w off coef pdev = Some (c, pd, cv, q) /\
       step RO solve f alpha tol x' y' n p w' off' coef pdev = Some (c, pd, cv, permq q) /\ lens q).
  Proof.
    unfold step.
    destruct (at_coef_perm f coef) as [[-> ->]|[(q & q' & -> & -> & N & N')|(q & -> & -> & Lq)]]; cbn [bind].
    - left; auto.
    - left. rewrite !newton_none by (auto using x'_len, y'_len). auto.
    - rewrite (newton_perm alpha coef q Lq).
      destruct (newton_system RO alpha x y p w coef q) as [[a b]|]; cbn [bind]; [|left; auto].
      destruct (solve a b) as [s|]; cbn [bind]; [|left; auto].
      destruct (vbin (sub RO) coef s) as [c'|]; cbn [bind]; [|left; auto].
      cbn [permq q_mu]. rewrite (weighted_penalized_deviance_perm f (q_mu q) alpha c') by apply Lq.
      destruct (weighted_penalized_deviance RO f y (q_mu q) w alpha c') as [pd|]; cbn [bind]; [|left; auto].
      right. exists c', pd, (has_converged RO pd pdev tol), q. auto.
  Qed.

  Lemma fit_loop_perm fuel : forall coef pdev,
    (fit_loop RO solve f alpha tol x' y' n p w' off' fuel coef pdev = None /\
     fit_loop RO solve f alpha tol x y n p w off fuel coef pdev = None) \/
    (exists cv c q,
       fit_loop RO solve f alpha tol x y n p w off fuel coef pdev = Some (cv, c, q) /\
       fit_loop RO solve f alpha tol x' y' n p w' off' fuel coef pdev = Some (cv, c, permq q) /\ lens q).
  Proof.
    induction fuel as [|fuel IH]; intros coef pdev; cbn [fit_loop];
      destruct (step_perm coef pdev) as [[-> ->]|(c & pd & cv & q & -> & -> & Lq)]; cbn [bind];
      try (left; auto; fail).
    - right. exists cv, c, q. auto.
    - destruct cv.
      + right. exists true, c, q. auto.
      + apply IH.
  Qed.

  (** ** (6) the entry checks *)
  Lemma is_design_perm : is_design RO x' n = is_design RO x n.
  Proof.
    unfold is_design. rewrite x'_len, Hx, (is_matrix_mul n p Hn). cbn [bind].
    destruct (Nat.eqb_spec p 0) as [E|_]; [lia|]. cbn [negb guard bind]. f_equal.
    set (g := fun i => negb (ltb RO (f64_eps RO) (abs RO (sub RO (nth (i * p) x (zero RO)) (one RO))))).
    rewrite <- (forallb_perm g _ _ P).
    assert (Es : map (fun i => nth i sigma 0%nat) (seq 0 n) = sigma).
    { rewrite <- sig_len. rewrite (map_nth_seq (fun a => a) sigma 0%nat). apply map_id. }
    transitivity (forallb g (map (fun i => nth i sigma 0%nat) (seq 0 n))); [|rewrite Es; reflexivity].
    rewrite forallb_map.
    apply forallb_ext_in. intros i Hi. apply in_seq in Hi. unfold g. do 4 f_equal.
    change (zero RO) with 0. replace (i * p)%nat with (i * p + 0)%nat by lia.
    change (nth (i * p + 0) x' 0) with (X x' p i 0). unfold x'.
    rewrite permute_rows_X by (rewrite ?sig_len; lia). unfold X. f_equal. lia.
  Qed.
End FitPerm.

(** ** the whole fit: same [Some fitted] record (Ok/Err flag, coefficients, deviance, information, n, p)
    or the same panic, for every family, budget, penalty, tolerance, inner solver, with or without prior
    weights and offsets, also when resuming from an arbitrary state *)
Lemma fit_row_permutation_invariant_pos
      (solve : list R -> list R -> option (list R)) (f : family) (alpha tol : R) (w off : option (list R))
      (x y : list R) (n p : nat) (sigma : list nat) (max_iter : nat) (start : option (list R * R)) :
  Permutation sigma (seq 0 n) -> (0 < n)%nat -> (0 < p)%nat -> length x = (n * p)%nat -> length y = n ->
  (forall wv, w = Some wv -> length wv = n) -> (forall o, off = Some o -> length o = n) ->
  fit_from RO solve f alpha tol (option_map (fun v => permute v sigma) w) (option_map (fun v => permute v sigma) off)
           (permute_rows x p sigma) (permute y sigma) max_iter start
  = fit_from RO solve f alpha tol w off x y max_iter start.
Proof.
  intros P Hn Hp Hx Hy Hw Ho. pose proof (sigma_length n sigma P) as L.
  set (wts := match w with Some wv => wv | None => repeat 1 n end).
  assert (Lw : length wts = n).
  { unfold wts. destruct w as [wv|]; [apply Hw; reflexivity|apply repeat_length]. }
  pose proof (sig_in x y n p sigma P Hn Hp Hx Hy) as Sin.
  unfold fit_from.
  rewrite permute_rows_length, permute_length, L, Hx, Hy, (is_matrix_mul n p Hn). cbn [bind].
  rewrite (is_design_perm x y n p sigma P Hn Hp Hx Hy wts Lw).
  destruct (is_design RO x n) as [[|]|]; cbn [bind guard]; try reflexivity.
  assert (E1 : match option_map (fun v => permute v sigma) w with
               | Some w0 => let* _ := guard (length w0 =? n)%nat in Some w0
               | None => Some (repeat (one RO) n)
               end = Some (permute wts sigma)).
  { unfold wts. destruct w as [wv|]; cbn [option_map].
    - rewrite permute_length, L, Nat.eqb_refl. reflexivity.
    - change (one RO) with 1. rewrite permute_repeat by exact Sin. rewrite L. reflexivity. }
  assert (E2 : match w with
               | Some w0 => let* _ := guard (length w0 =? n)%nat in Some w0
               | None => Some (repeat (one RO) n)
               end = Some wts).
  { unfold wts. destruct w as [wv|]; [|reflexivity].
    rewrite (Hw wv eq_refl), Nat.eqb_refl. reflexivity. }
  rewrite E1, E2. cbn [bind].
  assert (Es : sum RO (permute y sigma) = sum RO y)
    by (rewrite !sum_lsum; apply lsum_perm, (permute_Permutation n sigma P), Hy).
  assert (Ew : sum RO (permute wts sigma) = sum RO wts)
    by (rewrite !sum_lsum; apply lsum_perm, (permute_Permutation n sigma P), Lw).
  rewrite Es, Ew.
  destruct (match start with
            | Some (c, d) => (c, Some d)
            | None => (div RO (sum RO y) (ofN RO n) :: repeat (zero RO) (p - 1), None)
            end) as [coef0 pdev0].
  destruct (fit_loop_perm x y n p sigma P Hn Hp Hx Hy off Ho wts Lw solve f alpha tol (max_iter - 1) coef0 pdev0)
    as [[-> ->]|(cv & c & q & -> & -> & Lm & Ld & Lv)]; cbn [bind]; [reflexivity|].
  cbn [permq q_mu q_dmu q_var].
  rewrite (weighted_deviance_perm x y n p sigma P Hn Hx Hy wts Lw f (q_mu q) Lm).
  rewrite (perm_ddbeta x y (q_mu q) (q_dmu q) (q_var q) wts n p sigma) by assumption.
  reflexivity.
Qed.

(** the two positivity side conditions are not needed: with no observation or no column both calls panic
    ([is_matrix] / [is_design]) *)
Lemma fit_row_permutation_invariant
      (solve : list R -> list R -> option (list R)) (f : family) (alpha tol : R) (w off : option (list R))
      (x y : list R) (n p : nat) (sigma : list nat) (max_iter : nat) (start : option (list R * R)) :
  Permutation sigma (seq 0 n) -> length x = (n * p)%nat -> length y = n ->
  (forall wv, w = Some wv -> length wv = n) -> (forall o, off = Some o -> length o = n) ->
  fit_from RO solve f alpha tol (option_map (fun v => permute v sigma) w) (option_map (fun v => permute v sigma) off)
           (permute_rows x p sigma) (permute y sigma) max_iter start
  = fit_from RO solve f alpha tol w off x y max_iter start.
Proof.
  intros P Hx Hy Hw Ho. pose proof (sigma_length n sigma P) as L.
  destruct (Nat.eq_dec n 0) as [N0|N0].
  - rewrite N0 in *. destruct sigma; [|cbn [length] in L; lia]. destruct y; [|cbn [length] in Hy; lia]. reflexivity.
  - destruct (Nat.eq_dec p 0) as [P0|P0].
    + rewrite P0 in *. rewrite Nat.mul_0_r in Hx. destruct x; [|cbn [length] in Hx; lia].
      unfold fit_from, is_design, permute_rows.
      rewrite Nat.mul_0_r, permute_length, L, Hy. cbn [seq map length].
      pose proof (is_matrix_mul n 0 ltac:(lia)) as E. rewrite Nat.mul_0_r in E. rewrite E. reflexivity.
    + apply fit_row_permutation_invariant_pos with (n := n); auto; lia.
Qed.

Corollary fit_row_permutation_invariant_fit
      (solve : list R -> list R -> option (list R)) (f : family) (alpha tol : R) (w off : option (list R))
      (x y : list R) (n p : nat) (sigma : list nat) (max_iter : nat) :
  Permutation sigma (seq 0 n) -> length x = (n * p)%nat -> length y = n ->
  (forall wv, w = Some wv -> length wv = n) -> (forall o, off = Some o -> length o = n) ->
  fit RO solve f alpha tol (option_map (fun v => permute v sigma) w) (option_map (fun v => permute v sigma) off)
      (permute_rows x p sigma) (permute y sigma) max_iter
  = fit RO solve f alpha tol w off x y max_iter.
Proof. intros. unfold fit. eapply fit_row_permutation_invariant; eassumption. Qed.

(** composed with C01: the crate's own [solve] as inner solver *)
Corollary fit_row_permutation_invariant_composed
      (f : family) (alpha tol : R) (w off : option (list R))
      (x y : list R) (n p : nat) (sigma : list nat) (max_iter : nat) :
  Permutation sigma (seq 0 n) -> length x = (n * p)%nat -> length y = n ->
  (forall wv, w = Some wv -> length wv = n) -> (forall o, off = Some o -> length o = n) ->
  fit RO (slice_solve RO) f alpha tol (option_map (fun v => permute v sigma) w)
      (option_map (fun v => permute v sigma) off) (permute_rows x p sigma) (permute y sigma) max_iter
  = fit RO (slice_solve RO) f alpha tol w off x y max_iter.
Proof. apply fit_row_permutation_invariant_fit. Qed.

(** ** the hypotheses are satisfiable on a non-trivial instance (3 observations, 2 columns, weights and
    offsets present, a 3-cycle of the rows): data of [wf_data_ex], permutation of [perm_ex] *)
Example fit_row_permutation_example :
  Permutation [2; 0; 1]%nat (seq 0 3) /\ length [1; 0; 1; 1; 1; 2] = (3 * 2)%nat /\ length [0; 1; 3] = 3%nat /\
  (forall wv, Some [1; 2; 1] = Some wv -> length wv = 3%nat) /\
  (forall o, Some [0; 0; 1] = Some o -> length o = 3%nat) /\
  permute_rows [1; 0; 1; 1; 1; 2] 2 [2; 0; 1]%nat = [1; 2; 1; 0; 1; 1] /\
  permute [0; 1; 3] [2; 0; 1]%nat = [3; 0; 1] /\
  forall solve f alpha tol max_iter start,
    fit_from RO solve f alpha tol (Some [1; 1; 2]) (Some [1; 0; 0]) [1; 2; 1; 0; 1; 1] [3; 0; 1] max_iter start
    = fit_from RO solve f alpha tol (Some [1; 2; 1]) (Some [0; 0; 1]) [1; 0; 1; 1; 1; 2] [0; 1; 3] max_iter start.
Proof.
  assert (Hw : forall wv : list R, Some [1; 2; 1] = Some wv -> length wv = 3%nat) by (intros wv [= <-]; reflexivity).
  assert (Ho : forall o : list R, Some [0; 0; 1] = Some o -> length o = 3%nat) by (intros o [= <-]; reflexivity).
  repeat split; try assumption; try reflexivity; try exact perm_ex.
  intros solve f alpha tol max_iter start.
  exact (fit_row_permutation_invariant solve f alpha tol (Some [1; 2; 1]) (Some [0; 0; 1])
           [1; 0; 1; 1; 1; 2] [0; 1; 3] 3 2 [2; 0; 1]%nat max_iter start perm_ex eq_refl eq_refl Hw Ho).
Qed.
