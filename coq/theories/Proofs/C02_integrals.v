(** C02: moments as integrals / series of the code's density / mass function, where elementary:
    Uniform (Riemann integral), Exponential (improper integral), Poisson (series).  Coquelicot. *)
From Coq Require Import Reals Lra Lia Bool ZArith.
From Coquelicot Require Import Coquelicot.
From Compute Require Import Base.Ops Model.Dists Spec.Densities Proofs.C02.
Open Scope R_scope.

(** [∫_lo^hi g(x) pdf(x) dx = F(hi) - F(lo)] when [F' = g / (hi - lo)] *)
Lemma uniform_integral (g F : R -> R) lo hi v :
  lo < hi ->
  (forall x, is_derive F x (g x * / (hi - lo))) ->
  (forall x, continuous g x) ->
  v = F hi - F lo ->
  is_RInt (fun x => g x * pdf_uniform RO lo hi x) lo hi v.
Proof.
  intros Hlt HF Hg ->.
  apply (is_RInt_ext (fun x => g x * / (hi - lo))).
  - intros x Hx. rewrite Rmin_left, Rmax_right in Hx by lra.
    rewrite pdf_uniform_textbook by lra. reflexivity.
  - apply (is_RInt_derive F (fun x => g x * / (hi - lo))).
    + intros x _. apply HF.
    + intros x _. apply (continuous_mult g (fun _ => / (hi - lo))); [apply Hg|apply continuous_const].
Qed.

Lemma uniform_mass lo hi : lo < hi -> is_RInt (pdf_uniform RO lo hi) lo hi 1.
Proof.
  intros Hlt.
  apply (is_RInt_ext (fun x => 1 * pdf_uniform RO lo hi x)); [intros x _; apply Rmult_1_l|].
  apply (uniform_integral (fun _ => 1) (fun x => x / (hi - lo))); [exact Hlt| |intros; apply continuous_const|field; lra].
  intros x. auto_derive; [exact I|field; lra].
Qed.
Lemma uniform_first_moment lo hi : lo < hi ->
  is_RInt (fun x => x * pdf_uniform RO lo hi x) lo hi ((lo + hi) / 2).
Proof.
  intros Hlt.
  apply (uniform_integral (fun x => x) (fun x => x ^ 2 / (2 * (hi - lo)))); [exact Hlt| |intros; apply continuous_id|field; lra].
  intros x. auto_derive; [exact I|field; lra].
Qed.
Lemma uniform_second_central_moment lo hi : lo < hi ->
  is_RInt (fun x => (x - (lo + hi) / 2) ^ 2 * pdf_uniform RO lo hi x) lo hi ((hi - lo) ^ 2 / 12).
Proof.
  intros Hlt. set (m := (lo + hi) / 2).
  apply (uniform_integral (fun x => (x - m) ^ 2) (fun x => (x - m) ^ 3 / (3 * (hi - lo)))); [exact Hlt| | |unfold m; field; lra].
  - intros x. auto_derive; [exact I|field; lra].
  - intros x. apply (ex_derive_continuous (fun x => (x - m) ^ 2)). auto_derive. exact I.
Qed.

(** ** Exponential: improper integrals over [0, +oo) *)

Lemma RInt_gen_antiderivative (f G : R -> R) a l :
  (forall b, a <= b -> is_RInt f a b (G b)) ->
  filterlim G (Rbar_locally p_infty) (locally l) ->
  is_RInt_gen f (at_point a) (Rbar_locally p_infty) l.
Proof.
  intros HI HL P HP. unfold filtermapi.
  apply (Filter_prod _ _ _ (fun x => x = a) (fun b => a <= b /\ P (G b))).
  - reflexivity.
  - apply filter_and; [exists a; intros; lra|apply HL, HP].
  - intros x y -> [Hy HPy]. exists (G y). split; [apply HI, Hy|exact HPy].
Qed.

Lemma exp_gt_cube y : 0 < y -> y ^ 3 / 27 < exp y.
Proof.
  intros Hy. replace y with (y / 3 + y / 3 + y / 3) at 2 by field. rewrite !exp_plus.
  pose proof (exp_ineq1 (y / 3) ltac:(lra)) as H. set (e := exp (y / 3)) in *.
  assert (He : y / 3 < e) by lra. assert (H3 : 0 < y / 3) by lra.
  replace (y ^ 3 / 27) with (y / 3 * (y / 3) * (y / 3)) by field.
  apply Rlt_trans with (e * (y / 3) * (y / 3)).
  - apply Rmult_lt_compat_r; [lra|]. apply Rmult_lt_compat_r; lra.
  - apply Rlt_trans with (e * e * (y / 3)).
    + apply Rmult_lt_compat_r; [lra|]. apply Rmult_lt_compat_l; lra.
    + apply Rmult_lt_compat_l; [|lra]. apply Rmult_lt_0_compat; lra.
Qed.
Lemma sq_exp_bound l b : 0 < l -> 0 < b -> b ^ 2 * exp (- l * b) < 27 / (l ^ 3 * b).
Proof.
  intros Hl Hb. assert (Hy : 0 < l * b) by (apply Rmult_lt_0_compat; assumption).
  pose proof (exp_gt_cube (l * b) Hy) as H.
  replace (- l * b) with (- (l * b)) by ring. rewrite exp_Ropp.
  assert (H0 : 0 < (l * b) ^ 3 / 27) by (apply Rdiv_lt_0_compat; [apply pow_lt; exact Hy|lra]).
  apply Rlt_le_trans with (b ^ 2 * / ((l * b) ^ 3 / 27)).
  - apply Rmult_lt_compat_l; [apply pow_lt; exact Hb|]. apply Rinv_lt_contravar; [|exact H].
    apply Rmult_lt_0_compat; [exact H0|apply exp_pos].
  - right. field. split; lra.
Qed.

(** [c - (A b^2 + B b + C) e^(-l b) -> c] as [b -> +oo] *)
Lemma poly_exp_lim l A B C c : 0 < l -> 0 <= A -> 0 <= B -> 0 <= C ->
  filterlim (fun b => c - (A * b ^ 2 + B * b + C) * exp (- l * b)) (Rbar_locally p_infty) (locally c).
Proof.
  intros Hl HA HB HC P [eps HP].
  set (K := (A + B + C) * (27 / l ^ 3)).
  assert (HK : 0 <= K).
  { unfold K. apply Rmult_le_pos; [lra|]. left. apply Rdiv_lt_0_compat; [lra|apply pow_lt; exact Hl]. }
  exists (Rmax 1 (K / eps)). intros b Hb. apply HP.
  assert (Hb1 : 1 < b) by (eapply Rle_lt_trans; [apply Rmax_l|exact Hb]).
  assert (Hb2 : K / eps < b) by (eapply Rle_lt_trans; [apply Rmax_r|exact Hb]).
  pose proof (cond_pos eps) as He.
  change (Rabs (c - (A * b ^ 2 + B * b + C) * exp (- l * b) - c) < eps).
  replace (c - (A * b ^ 2 + B * b + C) * exp (- l * b) - c) with (- ((A * b ^ 2 + B * b + C) * exp (- l * b))) by ring.
  pose proof (exp_pos (- l * b)) as Hexp.
  assert (Hpoly : 0 <= A * b ^ 2 + B * b + C).
  { assert (0 <= b ^ 2) by (apply pow2_ge_0). assert (0 <= A * b ^ 2) by (apply Rmult_le_pos; assumption).
    assert (0 <= B * b) by (apply Rmult_le_pos; lra). lra. }
  rewrite Rabs_Ropp, Rabs_right by (apply Rle_ge, Rmult_le_pos; lra).
  apply Rle_lt_trans with ((A + B + C) * (b ^ 2 * exp (- l * b))).
  - rewrite <- Rmult_assoc. apply Rmult_le_compat_r; [lra|].
    assert (b <= b ^ 2) by (simpl; nra). assert (1 <= b ^ 2) by (simpl; nra).
    assert (B * b <= B * b ^ 2) by (apply Rmult_le_compat_l; assumption).
    assert (C * 1 <= C * b ^ 2) by (apply Rmult_le_compat_l; assumption). lra.
  - apply Rle_lt_trans with (K / b).
    + unfold K. pose proof (sq_exp_bound l b Hl ltac:(lra)) as Hs.
      replace ((A + B + C) * (27 / l ^ 3) / b) with ((A + B + C) * (27 / (l ^ 3 * b))) by (field; split; lra).
      apply Rmult_le_compat_l; lra.
    + apply (Rmult_lt_compat_r eps) in Hb2; [|exact He].
      unfold Rdiv in Hb2 at 1. rewrite Rmult_assoc, Rinv_l, Rmult_1_r in Hb2 by lra.
      apply (Rmult_lt_reg_r b); [lra|]. unfold Rdiv. rewrite Rmult_assoc, Rinv_l, Rmult_1_r by lra. lra.
Qed.

Lemma exponential_integrand l g b : 0 <= b ->
  forall x, Rmin 0 b < x < Rmax 0 b -> g x * (l * exp (- l * x)) = g x * pdf_exponential RO l x.
Proof.
  intros Hb x Hx. rewrite Rmin_left, Rmax_right in Hx by lra.
  rewrite pdf_exponential_textbook by lra. unfold spec_pdf_exponential. f_equal. f_equal. f_equal. ring.
Qed.

Lemma exponential_mass l : 0 < l ->
  is_RInt_gen (pdf_exponential RO l) (at_point 0) (Rbar_locally p_infty) 1.
Proof.
  intros Hl.
  apply (RInt_gen_antiderivative _ (fun b => 1 - (0 * b ^ 2 + 0 * b + 1) * exp (- l * b))); [|apply poly_exp_lim; lra].
  intros b Hb.
  apply (is_RInt_ext (fun x => 1 * (l * exp (- l * x)))).
  { intros x Hx. rewrite (exponential_integrand l (fun _ => 1) b Hb x Hx). apply Rmult_1_l. }
  replace (1 - (0 * b ^ 2 + 0 * b + 1) * exp (- l * b)) with ((fun x => - exp (- l * x)) b - (fun x => - exp (- l * x)) 0).
  2:{ cbv beta. rewrite Rmult_0_r, exp_0. ring. }
  apply (is_RInt_derive (fun x => - exp (- l * x)) (fun x => 1 * (l * exp (- l * x)))).
  - intros x _. auto_derive; [exact I|ring].
  - intros x _. apply (ex_derive_continuous (fun x => 1 * (l * exp (- l * x)))). auto_derive. exact I.
Qed.
Lemma exponential_first_moment l : 0 < l ->
  is_RInt_gen (fun x => x * pdf_exponential RO l x) (at_point 0) (Rbar_locally p_infty) (/ l).
Proof.
  intros Hl.
  apply (RInt_gen_antiderivative _ (fun b => / l - (0 * b ^ 2 + 1 * b + / l) * exp (- l * b))).
  2:{ apply poly_exp_lim; try lra. left. apply Rinv_0_lt_compat. exact Hl. }
  intros b Hb.
  apply (is_RInt_ext (fun x => x * (l * exp (- l * x)))); [apply (exponential_integrand l (fun x => x) b Hb)|].
  replace (/ l - (0 * b ^ 2 + 1 * b + / l) * exp (- l * b))
    with ((fun x => - (x + / l) * exp (- l * x)) b - (fun x => - (x + / l) * exp (- l * x)) 0).
  2:{ cbv beta. rewrite Rmult_0_r, exp_0. field. lra. }
  apply (is_RInt_derive (fun x => - (x + / l) * exp (- l * x)) (fun x => x * (l * exp (- l * x)))).
  - intros x _. auto_derive; [exact I|field; lra].
  - intros x _. apply (ex_derive_continuous (fun x => x * (l * exp (- l * x)))). auto_derive. exact I.
Qed.
Lemma exponential_second_central_moment l : 0 < l ->
  is_RInt_gen (fun x => (x - / l) ^ 2 * pdf_exponential RO l x) (at_point 0) (Rbar_locally p_infty) (/ l ^ 2).
Proof.
  intros Hl. assert (Hi : 0 < / l ^ 2) by (apply Rinv_0_lt_compat, pow_lt; exact Hl).
  apply (RInt_gen_antiderivative _ (fun b => / l ^ 2 - (1 * b ^ 2 + 0 * b + / l ^ 2) * exp (- l * b))).
  2:{ apply poly_exp_lim; lra. }
  intros b Hb.
  apply (is_RInt_ext (fun x => (x - / l) ^ 2 * (l * exp (- l * x)))); [apply (exponential_integrand l (fun x => (x - / l) ^ 2) b Hb)|].
  replace (/ l ^ 2 - (1 * b ^ 2 + 0 * b + / l ^ 2) * exp (- l * b))
    with ((fun x => - (x ^ 2 + / l ^ 2) * exp (- l * x)) b - (fun x => - (x ^ 2 + / l ^ 2) * exp (- l * x)) 0).
  2:{ cbv beta. rewrite Rmult_0_r, exp_0. field. lra. }
  apply (is_RInt_derive (fun x => - (x ^ 2 + / l ^ 2) * exp (- l * x)) (fun x => (x - / l) ^ 2 * (l * exp (- l * x)))).
  - intros x _. auto_derive; [exact I|field; lra].
  - intros x _. apply (ex_derive_continuous (fun x => (x - / l) ^ 2 * (l * exp (- l * x)))). auto_derive. exact I.
Qed.

(** ** Poisson: series *)

(** Poisson: total mass, first moment and second central moment as series of the code's mass function *)
Lemma poisson_series l : is_series (fun k => spec_pmf_poisson l k) 1.
Proof.
  pose proof (is_exp_Reals l) as H. unfold is_pseries in H.
  apply (is_series_scal (exp (- l))) in H.
  replace 1 with (scal (exp (- l)) (exp l)).
  2:{ unfold scal; simpl; unfold mult; simpl. rewrite <- exp_plus. replace (- l + l) with 0 by ring. apply exp_0. }
  refine (is_series_ext _ _ _ _ H).
  intros k. unfold spec_pmf_poisson, scal; simpl; unfold mult; simpl. rewrite pow_n_pow. unfold Rdiv. ring.
Qed.

Lemma poisson_series1 l : is_series (fun k => INR k * spec_pmf_poisson l k) l.
Proof.
  apply is_series_decr_1. 
  match goal with |- is_series _ ?v => replace v with (scal l 1) end.
  2:{ unfold plus, opp, scal; simpl; unfold mult; simpl. ring. }
  refine (is_series_ext _ _ _ _ (is_series_scal l _ _ (poisson_series l))).
  intros k. unfold spec_pmf_poisson, scal, mult; cbn -[INR fact pow exp].
  rewrite fact_simpl, mult_INR. cbn [pow].
  pose proof (INR_fact_neq_0 k). assert (INR (S k) <> 0) by (apply not_0_INR; lia).
  rewrite S_INR in *. field. split; assumption.
Qed.

Lemma poisson_series2 l : is_series (fun k => INR k * (INR k - 1) * spec_pmf_poisson l k) (l ^ 2).
Proof.
  apply is_series_decr_1.
  match goal with |- is_series _ ?v => replace v with (scal l l) end.
  2:{ unfold plus, opp, scal; simpl; unfold mult; simpl. ring. }
  refine (is_series_ext _ _ _ _ (is_series_scal l _ _ (poisson_series1 l))).
  intros k. unfold spec_pmf_poisson, scal, mult; cbn -[INR fact pow exp].
  rewrite fact_simpl, mult_INR. cbn [pow].
  pose proof (INR_fact_neq_0 k). assert (INR (S k) <> 0) by (apply not_0_INR; lia).
  rewrite S_INR in *. field. split; assumption.
Qed.

Lemma poisson_central2 l : is_series (fun k => (INR k - l) ^ 2 * spec_pmf_poisson l k) l.
Proof.
  assert (E : plus (plus (l ^ 2) (scal (1 - 2 * l) l)) (scal (l ^ 2) 1) = l)
    by (unfold plus, scal, mult; cbn -[pow]; ring).
  set (f := fun k : nat => (INR k - l) ^ 2 * spec_pmf_poisson l k). rewrite <- E. unfold f.
  refine (is_series_ext _ _ _ _ (is_series_plus _ _ _ _ (is_series_plus _ _ _ _ (poisson_series2 l)
            (is_series_scal (1 - 2 * l) _ _ (poisson_series1 l))) (is_series_scal (l ^ 2) _ _ (poisson_series l)))).
  intros k. unfold plus, scal, mult; cbn -[INR fact pow exp spec_pmf_poisson]. ring.
Qed.

Lemma poisson_moments l : 0 < l ->
  is_series (fun k => pmf_poisson RO l (Z.of_nat k)) 1 /\
  is_series (fun k => INR k * pmf_poisson RO l (Z.of_nat k)) l /\
  is_series (fun k => (INR k - l) ^ 2 * pmf_poisson RO l (Z.of_nat k)) l.
Proof.
  intros Hl. repeat split.
  - refine (is_series_ext _ _ _ _ (poisson_series l)). intros k. rewrite pmf_poisson_textbook by exact Hl. reflexivity.
  - refine (is_series_ext _ _ _ _ (poisson_series1 l)). intros k. rewrite pmf_poisson_textbook by exact Hl. reflexivity.
  - refine (is_series_ext _ _ _ _ (poisson_central2 l)). intros k. rewrite pmf_poisson_textbook by exact Hl. reflexivity.
Qed.

(** ** Normal: the cdf is an antiderivative of the pdf *)

(** if [Erf] is differentiable with the error function's derivative, the code's Normal cdf is an antiderivative
    of the code's Normal pdf (so the cdf is the integral of the density, up to the constant fixed by Erf(0) = 0) *)
Lemma cdf_normal_derivative (Erf : R -> R) mu s x :
  0 < s ->
  (forall t, is_derive Erf t (2 / R_sqrt.sqrt PI * exp (- t ^ 2))) ->
  is_derive (cdf_normal RO Erf mu s) x (pdf_normal RO mu s x).
Proof.
  intros Hs HE.
  apply (is_derive_ext (fun x => (1 + Erf ((x - mu) / (s * R_sqrt.sqrt 2))) / 2)).
  { intros t. rewrite cdf_normal_formula. reflexivity. }
  rewrite pdf_normal_textbook. unfold spec_pdf_normal.
  assert (H2 : 0 < R_sqrt.sqrt 2) by (apply sqrt_lt_R0; lra).
  assert (Hpi : 0 < R_sqrt.sqrt PI) by (apply sqrt_lt_R0, PI_RGT_0).
  set (c := s * R_sqrt.sqrt 2).
  assert (Hc : c <> 0) by (unfold c; apply Rgt_not_eq, Rmult_lt_0_compat; assumption).
  assert (Hsq : R_sqrt.sqrt 2 ^ 2 = 2) by (simpl; rewrite Rmult_1_r; apply sqrt_sqrt; lra).
  auto_derive.
  { eexists. apply HE. }
  rewrite (is_derive_unique (fun x0 : R => Erf x0) _ _ (HE ((x + - mu) * / c))).
  rewrite sqrt_mult by (pose proof PI_RGT_0; lra).
  replace (- ((x + - mu) * / c) ^ 2) with (- ((x - mu) / s) ^ 2 / 2).
  2:{ unfold c. field_simplify_eq; [|repeat split; lra]. rewrite Hsq. ring. }
  unfold c. field_simplify_eq; [|repeat split; lra]. reflexivity.
Qed.


(** such an [Erf] exists: the integral of its derivative from 0 *)
Lemma erf_exists :
  exists Erf : R -> R, (forall t, is_derive Erf t (2 / R_sqrt.sqrt PI * exp (- t ^ 2))) /\ Erf 0 = 0.
Proof.
  set (f := fun u : R => 2 / R_sqrt.sqrt PI * exp (- u ^ 2)).
  assert (Hc : forall u, continuous f u).
  { intros u. apply (ex_derive_continuous f). unfold f. auto_derive. exact I. }
  exists (fun t => RInt f 0 t). split.
  - intros t. apply (is_derive_RInt f (fun y => RInt f 0 y) 0 t); [|apply Hc].
    apply filter_forall. intros y. apply (RInt_correct f 0 y).
    apply (ex_RInt_continuous f). intros z _. apply Hc.
  - exact (RInt_point 0 f).
Qed.


(** ** Pareto: improper integrals over [m, +oo) of power-law tails *)
Lemma rpower_lim L k p : 0 < p ->
  filterlim (fun b => L - k * Rpower b (- p)) (Rbar_locally p_infty) (locally L).
Proof.
  intros Hp P [eps HP].
  destruct (Req_dec k 0) as [->|Hk].
  { exists 0. intros b _. apply HP. replace (L - 0 * Rpower b (- p)) with L by ring. apply ball_center. }
  assert (He : 0 < eps / Rabs k) by (apply Rdiv_lt_0_compat; [apply cond_pos|apply Rabs_pos_lt; exact Hk]).
  exists (exp (- ln (eps / Rabs k) / p)). intros b Hb. apply HP.
  change (Rabs (L - k * Rpower b (- p) - L) < eps).
  replace (L - k * Rpower b (- p) - L) with (- (k * Rpower b (- p))) by ring.
  assert (Hb0 : 0 < b) by (eapply Rlt_trans; [apply exp_pos|exact Hb]).
  rewrite Rabs_Ropp, Rabs_mult, (Rabs_right (Rpower _ _)) by (left; unfold Rpower; apply exp_pos).
  assert (Rpower b (- p) < eps / Rabs k).
  { unfold Rpower. rewrite <- (exp_ln (eps / Rabs k)) by exact He. apply exp_increasing.
    assert (Hl : - ln (eps / Rabs k) / p < ln b).
    { rewrite <- (ln_exp (- ln (eps / Rabs k) / p)). apply ln_increasing; [apply exp_pos|exact Hb]. }
    apply (Rmult_lt_compat_r p) in Hl; [|exact Hp]. unfold Rdiv in Hl at 1. rewrite Rmult_assoc, Rinv_l in Hl by lra. lra. }
  pose proof (Rabs_pos_lt k Hk).
  apply (Rmult_lt_compat_l (Rabs k)) in H; [|assumption].
  replace (Rabs k * (eps / Rabs k)) with (eps : R) in H by (field; lra). exact H.
Qed.

Lemma power_tail f m p c : 0 < m -> 0 < p ->
  (forall x, m < x -> f x = c * Rpower x (- p - 1)) ->
  is_RInt_gen f (at_point m) (Rbar_locally p_infty) (c * Rpower m (- p) / p).
Proof.
  intros Hm Hp Hf.
  apply (RInt_gen_antiderivative _ (fun b => c * Rpower m (- p) / p - c / p * Rpower b (- p))); [|apply rpower_lim; exact Hp].
  intros b Hb.
  apply (is_RInt_ext (fun x => c * Rpower x (- p - 1))).
  { intros x Hx. rewrite Rmin_left in Hx by lra. symmetry. apply Hf. lra. }
  replace (c * Rpower m (- p) / p - c / p * Rpower b (- p))
    with ((fun x => - (c / p) * Rpower x (- p)) b - (fun x => - (c / p) * Rpower x (- p)) m) by (cbv beta; field; lra).
  apply (is_RInt_derive (fun x => - (c / p) * Rpower x (- p)) (fun x => c * Rpower x (- p - 1))).
  - intros x Hx. rewrite Rmin_left in Hx by lra. assert (0 < x) by lra.
    unfold Rpower. auto_derive; [assumption|]. replace ((- p - 1) * ln x) with (- p * ln x + - ln x) by ring.
    rewrite exp_plus, exp_Ropp, exp_ln by assumption. field. lra.
  - intros x Hx. rewrite Rmin_left in Hx by lra. assert (0 < x) by lra.
    apply (ex_derive_continuous (fun x => c * Rpower x (- p - 1))). unfold Rpower. auto_derive. assumption.
Qed.

Lemma pareto_on_support a m x : m < x -> pdf_pareto RO a m x = a * Rpower m a * Rpower x (- a - 1).
Proof.
  intros Hx. rewrite pdf_pareto_textbook by lra. unfold spec_pdf_pareto, Rdiv.
  rewrite <- Rpower_Ropp. do 2 f_equal. ring.
Qed.
Lemma Rpower_cancel m a b : 0 < m -> Rpower m a * Rpower m (b - a) = Rpower m b.
Proof. intros Hm. rewrite <- Rpower_plus. f_equal. ring. Qed.

Lemma pareto_mass a m : 0 < a -> 0 < m ->
  is_RInt_gen (pdf_pareto RO a m) (at_point m) (Rbar_locally p_infty) 1.
Proof.
  intros Ha Hm.
  replace 1 with (a * Rpower m a * Rpower m (- a) / a).
  2:{ rewrite Rmult_assoc. replace (- a) with (0 - a) by ring. rewrite (Rpower_cancel m a 0 Hm), Rpower_O by exact Hm. field. lra. }
  apply power_tail; try assumption. intros x Hx. apply pareto_on_support. exact Hx.
Qed.
Lemma pareto_raw1 a m : 1 < a -> 0 < m ->
  is_RInt_gen (fun x => x * pdf_pareto RO a m x) (at_point m) (Rbar_locally p_infty) (a * m / (a - 1)).
Proof.
  intros Ha Hm.
  replace (a * m / (a - 1)) with (a * Rpower m a * Rpower m (- (a - 1)) / (a - 1)).
  2:{ rewrite Rmult_assoc. replace (- (a - 1)) with (1 - a) by ring. rewrite (Rpower_cancel m a 1 Hm), Rpower_1 by exact Hm. reflexivity. }
  apply power_tail; try lra. intros x Hx. rewrite pareto_on_support by exact Hx. assert (0 < x) by lra.
  replace (- (a - 1) - 1) with (1 + (- a - 1)) by ring. rewrite Rpower_plus, Rpower_1 by assumption. ring.
Qed.
Lemma pareto_raw2 a m : 2 < a -> 0 < m ->
  is_RInt_gen (fun x => x ^ 2 * pdf_pareto RO a m x) (at_point m) (Rbar_locally p_infty) (a * m ^ 2 / (a - 2)).
Proof.
  intros Ha Hm.
  replace (a * m ^ 2 / (a - 2)) with (a * Rpower m a * Rpower m (- (a - 2)) / (a - 2)).
  2:{ rewrite Rmult_assoc. replace (- (a - 2)) with (2 - a) by ring. rewrite (Rpower_cancel m a 2 Hm).
      replace 2 with (INR 2) at 1 by (simpl; ring). rewrite Rpower_pow by exact Hm. reflexivity. }
  apply power_tail; try lra. intros x Hx. rewrite pareto_on_support by exact Hx. assert (0 < x) by lra.
  replace (- (a - 2) - 1) with (INR 2 + (- a - 1)) by (simpl; ring). rewrite Rpower_plus, Rpower_pow by assumption. ring.
Qed.
Lemma pareto_second_central_moment a m : 2 < a -> 0 < m ->
  is_RInt_gen (fun x => (x - a * m / (a - 1)) ^ 2 * pdf_pareto RO a m x) (at_point m) (Rbar_locally p_infty)
              (m ^ 2 * a / ((a - 1) ^ 2 * (a - 2))).
Proof.
  intros Ha Hm. set (mu := a * m / (a - 1)).
  pose proof (pareto_raw2 a m Ha Hm) as H2. pose proof (pareto_raw1 a m ltac:(lra) Hm) as H1.
  pose proof (pareto_mass a m ltac:(lra) Hm) as H0.
  pose proof (is_RInt_gen_plus _ _ _ _ (is_RInt_gen_plus _ _ _ _ H2 (is_RInt_gen_scal _ (- 2 * mu) _ H1))
                (is_RInt_gen_scal _ (mu ^ 2) _ H0)) as H.
  replace (m ^ 2 * a / ((a - 1) ^ 2 * (a - 2)))
    with (plus (plus (a * m ^ 2 / (a - 2)) (scal (- 2 * mu) (a * m / (a - 1)))) (scal (mu ^ 2) 1)).
  2:{ unfold plus, scal, mult; cbn -[pow]. unfold mu. field. lra. }
  refine (is_RInt_gen_ext _ _ _ _ H).
  apply filter_forall. intros ab x _. unfold plus, scal, mult; cbn -[pow]. ring.
Qed.


(** ** Gumbel: total mass over the whole line (the antiderivative exp(-exp(-z)) is elementary) *)
Lemma RInt_gen_antiderivative2 (f F : R -> R) l1 l2 :
  (forall a b, a <= b -> is_RInt f a b (F b - F a)) ->
  filterlim F (Rbar_locally m_infty) (locally l1) ->
  filterlim F (Rbar_locally p_infty) (locally l2) ->
  is_RInt_gen f (Rbar_locally m_infty) (Rbar_locally p_infty) (l2 - l1).
Proof.
  intros HI H1 H2 P [eps HP]. unfold filtermapi.
  set (e2 := mkposreal (eps / 2) (is_pos_div_2 eps)).
  apply (Filter_prod _ _ _ (fun a => a < 0 /\ ball l1 e2 (F a)) (fun b => 0 < b /\ ball l2 e2 (F b))).
  - apply filter_and; [exists 0; intros; lra|]. apply H1. exists e2. intros y Hy. exact Hy.
  - apply filter_and; [exists 0; intros; lra|]. apply H2. exists e2. intros y Hy. exact Hy.
  - intros a b [Ha Ba] [Hb Bb]. exists (F b - F a). split; [apply HI; lra|]. apply HP.
    change (Rabs (F b - F a - (l2 - l1)) < eps).
    change (Rabs (F a - l1) < eps / 2) in Ba. change (Rabs (F b - l2) < eps / 2) in Bb.
    replace (F b - F a - (l2 - l1)) with ((F b - l2) - (F a - l1)) by ring.
    eapply Rle_lt_trans; [apply Rabs_triang|]. rewrite Rabs_Ropp. lra.
Qed.

Lemma gumbel_cdf_lim_p mu b : 0 < b ->
  filterlim (fun x => exp (- exp (- ((x - mu) / b)))) (Rbar_locally p_infty) (locally 1).
Proof.
  intros Hb P [eps HP].
  (* 1 - exp(-t) <= t, with t = exp(-z) < eps when z > - ln eps *)
  exists (mu + b * - ln eps). intros x Hx. apply HP.
  change (Rabs (exp (- exp (- ((x - mu) / b))) - 1) < eps).
  set (t := exp (- ((x - mu) / b))).
  assert (Ht : 0 < t) by apply exp_pos.
  assert (Hte : t < eps).
  { unfold t. rewrite <- (exp_ln eps) by apply cond_pos. apply exp_increasing.
    assert ((x - mu) / b > - ln eps).
    { apply (Rmult_lt_reg_r b); [exact Hb|]. unfold Rdiv. rewrite Rmult_assoc, Rinv_l, Rmult_1_r by lra. lra. }
    lra. }
  assert (H1 : exp (- t) <= 1) by (rewrite <- exp_0; left; apply exp_increasing; lra).
  assert (H2 : 1 - t <= exp (- t)).
  { destruct (exp_ineq1_le (- t)) as [H|H]; lra. }
  rewrite Rabs_left1 by lra. lra.
Qed.
Lemma gumbel_cdf_lim_m mu b : 0 < b ->
  filterlim (fun x => exp (- exp (- ((x - mu) / b)))) (Rbar_locally m_infty) (locally 0).
Proof.
  intros Hb P [eps HP].
  (* exp(-t) < 1/t <= eps once t = exp(-z) >= 1/eps, i.e. z <= ln eps *)
  exists (mu + b * ln eps). intros x Hx. apply HP.
  change (Rabs (exp (- exp (- ((x - mu) / b))) - 0) < eps).
  set (t := exp (- ((x - mu) / b))).
  assert (Hte : / eps < t).
  { unfold t. rewrite <- (exp_ln (/ eps)) by (apply Rinv_0_lt_compat, cond_pos). apply exp_increasing.
    rewrite ln_Rinv by apply cond_pos.
    assert ((x - mu) / b < ln eps).
    { apply (Rmult_lt_reg_r b); [exact Hb|]. unfold Rdiv. rewrite Rmult_assoc, Rinv_l, Rmult_1_r by lra. lra. }
    lra. }
  assert (Hie : 0 < / eps) by (apply Rinv_0_lt_compat, cond_pos).
  assert (Ht : 0 < t) by lra.
  rewrite Rminus_0_r, Rabs_right by (left; apply exp_pos).
  rewrite exp_Ropp. 
  assert (H : t < exp t) by (pose proof (exp_ineq1 t ltac:(lra)); lra).
  apply Rlt_trans with (/ t).
  - apply Rinv_lt_contravar; [apply Rmult_lt_0_compat; [exact Ht|apply exp_pos]|exact H].
  - rewrite <- (Rinv_inv eps). apply Rinv_lt_contravar; [apply Rmult_lt_0_compat; assumption|exact Hte].
Qed.

Lemma gumbel_mass mu b : 0 < b ->
  is_RInt_gen (pdf_gumbel RO mu b) (Rbar_locally m_infty) (Rbar_locally p_infty) 1.
Proof.
  intros Hb. replace 1 with (1 - 0) by ring.
  apply (RInt_gen_antiderivative2 _ (fun x => exp (- exp (- ((x - mu) / b)))));
    [|apply gumbel_cdf_lim_m; exact Hb|apply gumbel_cdf_lim_p; exact Hb].
  intros x0 x1 Hx.
  apply (is_RInt_ext (fun x => / b * exp (- ((x - mu) / b + exp (- ((x - mu) / b)))))).
  { intros x _. rewrite pdf_gumbel_textbook. reflexivity. }
  apply (is_RInt_derive (fun x => exp (- exp (- ((x - mu) / b)))) (fun x => / b * exp (- ((x - mu) / b + exp (- ((x - mu) / b)))))).
  - intros x _. auto_derive; [exact I|].
    replace ((x + - mu) * / b) with ((x - mu) / b) by (unfold Rdiv, Rminus; ring).
    set (z := (x - mu) / b). replace (- (z + exp (- z))) with (- z + - exp (- z)) by ring.
    rewrite exp_plus. ring.
  - intros x _. apply (ex_derive_continuous (fun x => / b * exp (- ((x - mu) / b + exp (- ((x - mu) / b)))))). auto_derive. exact I.
Qed.
