(** * Tie A for C04 (third round): the hand-written model of the free function [inf_norm] IS the source.
    [Generated/norm_loops.v] is produced on every run by tools/tiea/norm_loops.py (statement-level translator
    [LoopTranslator] of tools/rsexpr.py) from src/linalg/utils.rs.  The source reads the flat row-major slice by index
    ([x[i * ncols + j]]); the model of [Model/Vops.v] folds over the rows ([row_of]).  No law of the carrier is used. *)
From Coq Require Import List ZArith Arith Bool Lia.
From Compute Require Import Base.Ops Base.ListMat Base.RsExpr Base.RsExprMut Model.Reduce Model.Shape Model.Vops
  Proofs.RsExprLemmas Proofs.RsExprFlat Proofs.C15Lists Proofs.C05 Proofs.TieA_linalg_loops Generated.norm_loops.
Import ListNotations.

Section NormTie.
  Context {T : Type} (O : Ops T).
  Local Notation z := (zero O).

  Lemma is_matrix_bind : forall {R} (m : list T) (nr : nat) (K : Z -> option R),
    (let* r1 := src_is_matrix O m (Z.of_nat nr) in let* u := r1 in K u) = (let* nc := is_matrix (length m) nr in K (Z.of_nat nc)).
  Proof.
    intros R m nr K. pose proof (tiea_is_matrix O m nr) as H.
    change (linalg_loops.src_is_matrix O m (Z.of_nat nr)) with (src_is_matrix O m (Z.of_nat nr)) in H.
    destruct (src_is_matrix O m (Z.of_nat nr)) as [[u|]|]; destruct (is_matrix (length m) nr); cbn [bind option_map] in *; congruence.
  Qed.

  (** one row: [s = 0.; for j in 0..ncols { s += x[i * ncols + j].abs() }] *)
  Lemma row_sum_src : forall (x : list T) (nc i : nat), (i + 1) * nc <= length x ->
    rs_fold_opt (fun s j => let* g3 := rs_get x (Z.add (Z.mul (Z.of_nat i) (Z.of_nat nc)) j) in Some (add O s (abs O g3)))
                (rs_range_excl 0 (Z.of_nat nc)) z
    = Some (fold_left (add O) (map (abs O) (row_of x nc i)) z).
  Proof.
    intros x nc i H. change 0%Z with (Z.of_nat 0). rewrite rs_range_excl_nat, Nat.sub_0_r. cbn [Z.of_nat].
    rewrite (rs_fold_opt_seq _ (fun s j => add O s (abs O (nth j (row_of x nc i) z)))).
    - f_equal. rewrite <- (C15Lists.length_row_of x nc i H) at 1.
      rewrite (fold_left_nth_seq (fun s v => add O s (abs O v)) (row_of x nc i) z). now rewrite fold_left_map.
    - intros s k Hk. rewrite Z.add_0_l, <- Nat2Z.inj_mul, <- Nat2Z.inj_add.
      rewrite (rs_get_some x (i * nc + k) z) by nia. cbn [bind]. now rewrite C15Lists.nth_row_of by exact Hk.
  Qed.

  Theorem tiea_inf_norm : forall (x : list T) (nrows : nat), src_inf_norm O (vmax O) x (Z.of_nat nrows) = inf_norm O x nrows.
  Proof.
    intros x nrows. unfold src_inf_norm, inf_norm. rewrite is_matrix_bind.
    destruct (is_matrix (length x) nrows) as [nc|] eqn:Hm; cbn [bind]; [|reflexivity]. cbv zeta.
    destruct (is_matrix_some _ _ _ Hm) as [Hr Hl].
    change (rs_range_excl 0 (Z.of_nat nrows)) with (rs_range_excl (Z.of_nat 0) (Z.of_nat nrows)). rewrite (rs_range_excl_nat 0 nrows), Nat.sub_0_r. cbn [Z.of_nat].
    rewrite (rs_fold_opt_seq _ (fun acc i => acc ++ [fold_left (add O) (map (abs O) (row_of x nc i)) z])).
    - cbn [bind]. do 2 f_equal. generalize (seq 0 nrows) as l. intro l.
      assert (G : forall acc, fold_left (fun acc i => acc ++ [fold_left (add O) (map (abs O) (row_of x nc i)) z]) l acc
                              = acc ++ map (fun i => fold_left (add O) (map (abs O) (row_of x nc i)) z) l).
      { induction l as [|i l IH]; intro acc; cbn [fold_left map]; [now rewrite app_nil_r|]. now rewrite IH, <- app_assoc. }
      apply (G []).
    - intros acc i Hi. rewrite Z.add_0_l. rewrite row_sum_src by nia. reflexivity.
  Qed.
End NormTie.
