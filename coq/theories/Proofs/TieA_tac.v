(** * Tactics shared by the Tie A proofs (generated term = hand-written model, for every carrier). *)
From Coq Require Import ZArith Bool.
From Compute Require Import Base.Ops.

(** case split on every atomic comparison of the carrier until both sides coincide by conversion
    (used where the source panics first, [if !ok { panic!() }], and the model writes the guard positively) *)
Ltac tiea_cases :=
  repeat match goal with
         | |- context [leb ?O ?a ?b] => destruct (leb O a b)
         | |- context [ltb ?O ?a ?b] => destruct (ltb O a b)
         | |- context [eqb ?O ?a ?b] => destruct (eqb O a b)
         | |- context [Z.ltb ?a ?b] => destruct (Z.ltb a b)
         | |- context [Z.leb ?a ?b] => destruct (Z.leb a b)
         | |- context [Z.eqb ?a ?b] => destruct (Z.eqb a b)
         end; reflexivity.
