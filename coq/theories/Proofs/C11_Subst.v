(** Proofs for C11, part 1: triangular solves ([Model/Subst.v]) in exact arithmetic. *)
From Coq Require Import List Arith Bool Lia Reals Lra Permutation.
From Compute Require Import Base.Ops Base.ListMat Model.Reduce Model.MatMul Model.Subst Spec.Factor
  Proofs.C05 Proofs.LinAlgBase.
Import ListNotations.
Local Open Scope R_scope.

(** ** [is_square] *)
Lemma is_square_some len n : is_square len = Some n -> (n * n)%nat = len.
Proof.
  unfold is_square. destruct (Nat.eqb_spec (Nat.sqrt len * Nat.sqrt len) len); intros H; inversion H; subst; auto.
Qed.

Lemma is_square_sq n : is_square (n * n) = Some n.
Proof. unfold is_square. rewrite Nat.sqrt_square, Nat.eqb_refl. reflexivity. Qed.

Lemma is_square_none len : (forall n, (n * n)%nat <> len) -> is_square len = None.
Proof.
  intros H. unfold is_square. destruct (Nat.eqb_spec (Nat.sqrt len * Nat.sqrt len) len) as [e|]; auto.
  exfalso. apply (H _ e).
Qed.

(** ** Triangular parts as truncated sums *)
Lemma rsum_lower f i n :
  (i < n)%nat -> rsum (fun k => if (k <=? i)%nat then f k else 0) n = rsum f (S i).
Proof.
  intros Hi. rewrite (rsum_trunc _ (S i) n); [|lia|].
  - apply rsum_ext. intros k Hk. destruct (Nat.leb_spec k i); auto; lia.
  - intros k Hk. destruct (Nat.leb_spec k i); auto; lia.
Qed.

Lemma rsum_upper f i n :
  (i <= n)%nat -> rsum (fun k => if (i <=? k)%nat then f k else 0) n = rsum (fun m => f (i + m)%nat) (n - i).
Proof.
  intros Hi. replace n with (i + (n - i))%nat at 1 by lia. rewrite rsum_app.
  rewrite rsum_zero; [rewrite Rplus_0_l|].
  - apply rsum_ext. intros k Hk. destruct (Nat.leb_spec i (i + k)); auto; lia.
  - intros k Hk. destruct (Nat.leb_spec i k); auto; lia.
Qed.

Lemma rsum_lower_mul f g i n :
  (i < n)%nat -> rsum (fun k => (if (k <=? i)%nat then f k else 0) * g k) n = rsum (fun k => f k * g k) (S i).
Proof.
  intros Hi. rewrite <- (rsum_lower (fun k => f k * g k) i n) by auto.
  apply rsum_ext; intros k _; destruct (k <=? i)%nat; lra.
Qed.

Lemma rsum_upper_mul f g i n :
  (i <= n)%nat ->
  rsum (fun k => (if (i <=? k)%nat then f k else 0) * g k) n = rsum (fun m => f (i + m)%nat * g (i + m)%nat) (n - i).
Proof.
  intros Hi. rewrite <- (rsum_upper (fun k => f k * g k) i n) by auto.
  apply rsum_ext; intros k _; destruct (i <=? k)%nat; lra.
Qed.

(** ** Rows level *)
Lemma forward_rows_spec L b n :
  wf L n ->
  length (forward_rows RO L b n) = n /\
  forall i, (i < n)%nat ->
    nth i (forward_rows RO L b n) 0 =
    (nth i b 0 - rsum (fun k => ent 0 L i k * nth k (forward_rows RO L b n) 0) i) / ent 0 L i i.
Proof.
  intros [Hl Hr].
  set (g := fun (i : nat) (x : list R) =>
              div RO (sub RO (nth i b (zero RO)) (dot_raw RO (firstn i (nth i L [])) x))
                     (nth i (nth i L []) (zero RO))).
  change (forward_rows RO L b n) with (build g n).
  split; [apply build_length|].
  intros i Hi. rewrite (build_nth 0 g n i Hi). unfold g at 1. cbn [div sub zero RO].
  rewrite dot_raw_RO by (rewrite firstn_length, build_length, Hr by auto; lia).
  rewrite firstn_length, Hr, Nat.min_l by (auto; lia).
  unfold ent. f_equal. f_equal. apply rsum_ext. intros k Hk.
  rewrite nth_firstn_lt by auto. f_equal.
  rewrite <- (build_firstn g n i) by lia. rewrite nth_firstn_lt by auto. reflexivity.
Qed.

Lemma backward_rows_spec U b n :
  wf U n ->
  length (backward_rows RO U b n) = n /\
  forall i, (i < n)%nat ->
    nth i (backward_rows RO U b n) 0 =
    (nth i b 0 - rsum (fun m => ent 0 U i (S i + m) * nth (S i + m) (backward_rows RO U b n) 0) (n - S i))
    / ent 0 U i i.
Proof.
  intros [Hl Hr].
  set (g := fun (i : nat) (x : list R) =>
              div RO (sub RO (nth i b (zero RO)) (dot_raw RO (skipn (S i) (nth i U [])) x))
                     (nth i (nth i U []) (zero RO))).
  change (backward_rows RO U b n) with (build_rev g 0 n).
  split; [apply build_rev_length|].
  intros i Hi. rewrite (build_rev_nth 0 g 0 n i Hi). cbn [Nat.add]. unfold g at 1. cbn [div sub zero RO].
  rewrite dot_raw_RO by (rewrite !skipn_length, build_rev_length, Hr by auto; lia).
  rewrite skipn_length, Hr by auto.
  unfold ent. f_equal. f_equal. apply rsum_ext. intros k Hk.
  rewrite !nth_skipn_plus. reflexivity.
Qed.

(** ** Flat level: the statements of [Properties/C11.v] *)
Lemma fwd_subst_shape l b :
  match is_square (length l) with
  | Some n => if (length b =? n)%nat
              then exists x, forward_substitution RO l b = Some x /\ length x = n
              else forward_substitution RO l b = None
  | None => forward_substitution RO l b = None
  end.
Proof.
  unfold forward_substitution. destruct (is_square (length l)) as [n|] eqn:Hs; cbn [bind]; auto.
  destruct (Nat.eqb_spec (length b) n); cbn [guard bind]; auto.
  eexists; split; [reflexivity|].
  apply forward_rows_spec, wf_unflatten, (is_square_some _ _ Hs).
Qed.

Lemma fwd_subst_correct l b x n :
  forward_substitution RO l b = Some x -> (n * n)%nat = length l ->
  (forall i, (i < n)%nat -> getm l n i i <> 0) ->
  length b = n /\ length x = n /\
  forall i, (i < n)%nat -> rsum (fun k => lower_part l n i k * nth k x 0) n = nth i b 0.
Proof.
  intros H Hn Hd. unfold forward_substitution in H. rewrite <- Hn, is_square_sq in H. cbn [bind] in H.
  destruct (Nat.eqb_spec (length b) n) as [Hb|]; cbn [guard bind] in H; [|discriminate].
  inversion H; subst x; clear H.
  destruct (forward_rows_spec (unflatten l n n) b n (wf_unflatten l n Hn)) as [Hlen Hx].
  repeat split; auto. intros i Hi.
  unfold lower_part. rewrite (rsum_lower_mul (fun k => getm l n i k) _ i n Hi). cbn [rsum].
  rewrite (Hx i Hi). rewrite ent_unflatten by auto.
  set (X := forward_rows RO (unflatten l n n) b n).
  rewrite (rsum_ext (fun k => ent 0 (unflatten l n n) i k * nth k X 0) (fun k => getm l n i k * nth k X 0) i)
    by (intros k Hk; rewrite ent_unflatten by lia; reflexivity).
  fold (getm l n i i). specialize (Hd i Hi). field. auto.
Qed.

Lemma fwd_subst_triangular l b x n :
  forward_substitution RO l b = Some x -> (n * n)%nat = length l ->
  (forall i, (i < n)%nat -> getm l n i i <> 0) -> lower_triangular l n ->
  forall i, (i < n)%nat -> mvec l n x i = nth i b 0.
Proof.
  intros H Hn Hd Ht i Hi. destruct (fwd_subst_correct l b x n H Hn Hd) as [_ [_ Hx]].
  rewrite <- (Hx i Hi). unfold mvec, lower_part. apply rsum_ext. intros k Hk.
  destruct (Nat.leb_spec k i); auto. rewrite (Ht i k) by lia. lra.
Qed.

Lemma bwd_subst_shape u b :
  match is_square (length u) with
  | Some n => if (length b =? n)%nat
              then exists x, backward_substitution RO u b = Some x /\ length x = n
              else backward_substitution RO u b = None
  | None => backward_substitution RO u b = None
  end.
Proof.
  unfold backward_substitution. destruct (is_square (length u)) as [n|] eqn:Hs; cbn [bind]; auto.
  destruct (Nat.eqb_spec (length b) n); cbn [guard bind]; auto.
  eexists; split; [reflexivity|].
  apply backward_rows_spec, wf_unflatten, (is_square_some _ _ Hs).
Qed.

Lemma bwd_subst_correct u b x n :
  backward_substitution RO u b = Some x -> (n * n)%nat = length u ->
  (forall i, (i < n)%nat -> getm u n i i <> 0) ->
  length b = n /\ length x = n /\
  forall i, (i < n)%nat -> rsum (fun k => upper_part u n i k * nth k x 0) n = nth i b 0.
Proof.
  intros H Hn Hd. unfold backward_substitution in H. rewrite <- Hn, is_square_sq in H. cbn [bind] in H.
  destruct (Nat.eqb_spec (length b) n) as [Hb|]; cbn [guard bind] in H; [|discriminate].
  inversion H; subst x; clear H.
  destruct (backward_rows_spec (unflatten u n n) b n (wf_unflatten u n Hn)) as [Hlen Hx].
  repeat split; auto. intros i Hi.
  unfold upper_part. rewrite (rsum_upper_mul (fun k => getm u n i k) _ i n) by lia.
  replace (n - i)%nat with (S (n - S i)) by lia. rewrite rsum_shift. rewrite Nat.add_0_r.
  rewrite (Hx i Hi). rewrite ent_unflatten by auto.
  set (X := backward_rows RO (unflatten u n n) b n).
  rewrite (rsum_ext (fun m => ent 0 (unflatten u n n) i (S i + m) * nth (S i + m) X 0)
                    (fun m => getm u n i (i + S m) * nth (i + S m) X 0))
    by (intros k Hk; rewrite ent_unflatten by lia; unfold getm; replace (i + S k)%nat with (S i + k)%nat by lia; reflexivity).
  fold (getm u n i i). specialize (Hd i Hi). field. auto.
Qed.

Lemma bwd_subst_triangular u b x n :
  backward_substitution RO u b = Some x -> (n * n)%nat = length u ->
  (forall i, (i < n)%nat -> getm u n i i <> 0) -> upper_triangular u n ->
  forall i, (i < n)%nat -> mvec u n x i = nth i b 0.
Proof.
  intros H Hn Hd Ht i Hi. destruct (bwd_subst_correct u b x n H Hn Hd) as [_ [_ Hx]].
  rewrite <- (Hx i Hi). unfold mvec, upper_part. apply rsum_ext. intros k Hk.
  destruct (Nat.leb_spec i k); auto. rewrite (Ht i k) by lia. lra.
Qed.
