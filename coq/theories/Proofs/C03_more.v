(** Proofs for C03, part 7: support of the samplers built on Gamma (Beta in (0,1), chi-squared positive), the defining
    property of the Poisson multiplication method, and the ziggurat fast path lying inside the layer's core. *)
From Coq Require Import Reals List ZArith NArith QArith Qround Qreals Lra Lia Bool Floats.
From Compute Require Import Base.Ops Base.ListMat Base.Rng Model.Samplers Spec.Samplers Proofs.C03 Proofs.C03_discrete.
From Compute Require Import Generated.ziggurat_tables Proofs.C03_zig.
Import ListNotations.
Open Scope R_scope.

Section AnySource.
  Context {S : Type} (src : source S R).

  (** ** Beta = x / (x + y) with x, y positive Gamma draws: strictly inside (0, 1) *)
  Lemma beta_sample_support fuel a b s x s' :
    0 < a -> 0 < b -> beta_sample RO src fuel a b s = Ok (x, s') -> 0 < x < 1.
  Proof.
    intros Ha Hb H. unfold beta_sample in H.
    destruct (gamma_sample RO src fuel a (one RO) s) as [[g1 s1]| |] eqn:E1; cbn [res_bind] in H; try discriminate.
    destruct (gamma_sample RO src fuel b (one RO) s1) as [[g2 s2]| |] eqn:E2; cbn [res_bind] in H; try discriminate.
    inversion H; subst. apply gamma_sample_pos in E1; [|assumption|cbn; lra]. apply gamma_sample_pos in E2; [|assumption|cbn; lra].
    cbn [div add RO]. split.
    - apply Rdiv_lt_0_compat; lra.
    - apply Rmult_lt_reg_r with (g1 + g2); [lra|]. unfold Rdiv. rewrite Rmult_assoc, Rinv_l by lra. lra.
  Qed.
  Lemma chi_squared_sample_support fuel (dof : N) s x s' :
    (0 < dof)%N -> chi_squared_sample RO src fuel dof s = Ok (x, s') -> 0 < x.
  Proof.
    intros Hd H. unfold chi_squared_sample in H. apply gamma_sample_pos in H; [exact H| |].
    - cbn [div ofZ two add one RO]. assert (0 < IZR (Z.of_N dof)) by (apply IZR_lt; lia). lra.
    - cbn [ofQ RO]. unfold Q2R. cbn. lra.
  Qed.

  (** ** Poisson, multiplication method (Knuth): the count c is the first index at which the running product of uniform
      variates drops to exp(-lambda) or below *)
  (** running product of the variates drawn from state [s]: p_0 = u_0, p_(k+1) = p_k * u_(k+1) *)
  Fixpoint nth_state (k : nat) (s : S) : S := match k with O => s | Datatypes.S j => snd (next_f64 src (nth_state j s)) end.
  Fixpoint run_prod (k : nat) (s : S) : R :=
    match k with O => fst (next_f64 src s) | Datatypes.S j => run_prod j s * fst (next_f64 src (nth_state (Datatypes.S j) s)) end.

  Lemma poisson_mult_loop_first fuel limit : forall (k : nat) (s0 : S) c s',
    (forall j, (j < k)%nat -> limit < run_prod j s0) ->
    poisson_mult_loop RO src fuel limit (INR k) (run_prod k s0) (nth_state (Datatypes.S k) s0) = Ok (c, s') ->
    exists m : nat, c = INR m /\ s' = nth_state (Datatypes.S m) s0 /\
      (forall j, (j < m)%nat -> limit < run_prod j s0) /\ run_prod m s0 <= limit.
  Proof.
    induction fuel as [|fuel IH]; intros k s0 c s' Hprev H; cbn [poisson_mult_loop] in H.
    - cbn [ltb RO] in H. unfold Rltb in H. destruct (Rlt_dec limit (run_prod k s0)); [discriminate|].
      inversion H; subst. exists k. repeat split; [assumption|lra].
    - cbn [ltb RO] in H. unfold Rltb in H. destruct (Rlt_dec limit (run_prod k s0)) as [Hgt|Hle].
      + destruct (next_f64 src (nth_state (Datatypes.S k) s0)) as [u s1] eqn:E.
        replace (add RO (INR k) (one RO)) with (INR (Datatypes.S k)) in H by (rewrite S_INR; reflexivity).
        replace (mul RO (run_prod k s0) u) with (run_prod (Datatypes.S k) s0) in H
          by (cbn [run_prod mul RO]; rewrite E; reflexivity).
        replace s1 with (nth_state (Datatypes.S (Datatypes.S k)) s0) in H by (cbn [nth_state] in *; rewrite E; reflexivity).
        apply IH in H; [exact H|]. intros j Hj. destruct (Nat.eq_dec j k) as [->|]; [assumption|apply Hprev; lia].
      + inversion H; subst. exists k. repeat split; [assumption|lra].
  Qed.
  Lemma poisson_mult_first_passage fuel lambda s c s' :
    poisson_mult RO src fuel lambda s = Ok (c, s') ->
    exists m : nat, c = INR m /\ s' = nth_state (Datatypes.S m) s /\
      (forall j, (j < m)%nat -> exp (- lambda) < run_prod j s) /\ run_prod m s <= exp (- lambda).
  Proof.
    unfold poisson_mult. destruct (next_f64 src s) as [u s1] eqn:E. intros H.
    replace u with (run_prod 0 s) in H by (cbn [run_prod]; rewrite E; reflexivity).
    replace s1 with (nth_state 1 s) in H by (cbn [nth_state]; rewrite E; reflexivity).
    change (zero RO) with (INR 0) in H.
    apply poisson_mult_loop_first in H; [exact H|]. intros j Hj. exfalso. lia.
  Qed.
End AnySource.

(** ** ziggurat: on the fast path (j < K[i], i >= 1) the abscissa j W[i] lies strictly left of x_(i-1), the right edge of the
    layer above, so the whole ordinate range [Y[i+1], Y[i]] of layer i is under the density there and accepting without a test is exact
    (given Z2: Y[i] = f(x_(i-1))).  Rational arithmetic on the regenerated tables; every j, not a sweep. *)
Lemma xq_pos (i : nat) : (i < 128)%nat -> (0 < xq i)%Q.
Proof.
  pose proof ziggurat_tables_consistent as (_ & _ & _ & _ & _ & _ & HZ6 & _). destruct HZ6 as [HXY [Hx0 _]].
  induction i as [|i IH]; intros Hi; [exact Hx0|].
  eapply Qlt_trans; [apply IH; lia|apply (HXY i); lia].
Qed.

Lemma ziggurat_fast_path_inside_core (i : nat) (j : Z) :
  (i < 127)%nat -> (0 <= j < kz (Datatypes.S i))%Z ->
  (inject_Z j * fst (nth (Datatypes.S i) zig_W (0%Q, 0%float)) < xq i)%Q.
Proof.
  intros Hi [Hj0 Hj].
  pose proof ziggurat_tables_consistent as (_ & _ & _ & HK & _ & _ & HZ6 & _).
  destruct HK as [_ HK]. destruct HZ6 as [HXY [Hx0 _]].
  rewrite (HK i Hi) in Hj.
  set (w := fst (nth (Datatypes.S i) zig_W (0%Q, 0%float))).
  assert (Hxw : (xq (Datatypes.S i) == w * (16777216 # 1))%Q) by reflexivity.
  assert (Hxpos : (0 < xq (Datatypes.S i))%Q) by (apply xq_pos; lia).
  assert (Hwpos : (0 < w)%Q).
  { rewrite Hxw in Hxpos. apply Qmult_lt_r with (16777216 # 1)%Q; [reflexivity|]. rewrite Qmult_0_l. exact Hxpos. }
  set (q := ((16777216 # 1) * xq i / xq (Datatypes.S i))%Q) in *.
  assert (Hjq : (inject_Z j < q)%Q).
  { apply Qlt_le_trans with (inject_Z (Qfloor q)); [rewrite <- Zlt_Qlt; exact Hj|apply Qfloor_le]. }
  (* j < 2^24 x_i / x_(i+1)  and  x_(i+1) = 2^24 w  give  j w < x_i *)
  assert (Hq : (q == xq i / w)%Q).
  { unfold q. rewrite Hxw. field. intros E. rewrite E in Hwpos. discriminate. }
  rewrite Hq in Hjq. apply Qmult_lt_r with (z := w) in Hjq; [|exact Hwpos].
  setoid_replace (xq i / w * w)%Q with (xq i) in Hjq by (field; intros E; rewrite E in Hwpos; discriminate).
  exact Hjq.
Qed.
