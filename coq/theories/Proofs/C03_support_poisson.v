(** Proofs for C03, part 9: SUPPORT of the Poisson sampler for every rate and every unit source, and the anatomy of an
    accepted PTRS draw: whichever of the two acceptance tests let it out (the squeeze [us >= 0.07 && V <= vr], which
    precedes the [k < 0] test in the code, or the full log-density comparison, which follows it), the returned value is
    the floor of the transformed variate of two consecutive draws of the source and is a non-negative integer. *)
From Coq Require Import Reals List ZArith NArith QArith Lra Lia Bool Psatz.
From Compute Require Import Base.Ops Base.ListMat Base.Rng Model.MatMul Model.Samplers Spec.Samplers Proofs.C03 Proofs.C03_discrete.
Import ListNotations.
Open Scope R_scope.

Section AnySource.
  Context {S : Type} (src : source S R).
  Local Notation U s := (fst (next_f64 src s)).
  Local Notation St s := (snd (next_f64 src s)).

  (** the candidate computed from the state [s0] at which an iteration of the PTRS loop starts *)
  Definition ptrs_candidate (lam b a : R) (s0 : S) : R :=
    let Uc := U s0 - 1 / 2 in
    let us := 1 / 2 - Rabs Uc in
    IZR (Int_part ((2 * a / us + b) * Uc + lam + 43 / 100)).

  (** every accepted path: the value is the candidate of some iteration's state, two variates were consumed by that
      iteration, and it left through the squeeze or — having passed [k >= 0] — through the full test *)
  Lemma ptrs_loop_accepted fuel lam loglam b a invalpha vr : forall s k s',
    ptrs_loop RO src fuel lam loglam b a invalpha vr s = Ok (k, s') ->
    exists s0, k = ptrs_candidate lam b a s0 /\ s' = St (St s0) /\
      let us := 1 / 2 - Rabs (U s0 - 1 / 2) in
      let V := U (St s0) in
      ((7 / 100 <= us /\ V <= vr) \/
       (0 <= k /\ ~ (us < 13 / 1000 /\ us < V) /\
        ln V + ln invalpha - ln (a / (us * us) + b) <= - lam + k * loglam - ln_gamma RO (k + 1))).
  Proof.
    induction fuel as [|fuel IH]; intros s k s' H; [discriminate|]. cbn [ptrs_loop] in H.
    destruct (next_f64 src s) as [u0 s1] eqn:E0. destruct (next_f64 src s1) as [V s2] eqn:E1.
    cbn [sub add mul div neg abs leb ltb ofQ two one zero f1 RO Rf1] in H. rewrite !Q2R_dec in H.
    replace (IZR 1 / IZR 2) with (1 / 2) in H by reflexivity. replace (IZR 7 / IZR 100) with (7 / 100) in H by reflexivity.
    replace (IZR 43 / IZR 100) with (43 / 100) in H by reflexivity. replace (IZR 13 / IZR 1000) with (13 / 1000) in H by reflexivity.
    replace (1 + 1) with 2 in H by ring.
    assert (Hs1 : St s = s1) by (rewrite E0; reflexivity). assert (Hu0 : U s = u0) by (rewrite E0; reflexivity).
    assert (HV : U (St s) = V) by (rewrite Hs1, E1; reflexivity).
    assert (Hs2 : St (St s) = s2) by (rewrite Hs1, E1; reflexivity).
    match type of H with (if ?c then _ else _) = _ => destruct c eqn:C1 end.
    - inversion H; subst k s'. exists s. unfold ptrs_candidate. rewrite Hu0, HV, Hs2. split; [reflexivity|]. split; [reflexivity|].
      cbv zeta. left. apply andb_true_iff in C1. destruct C1 as [Ca Cb]. apply Rleb_true in Ca. apply Rleb_true in Cb. split; assumption.
    - match type of H with (if ?c then _ else _) = _ => destruct c eqn:C2 end; [eapply IH; eassumption|].
      match type of H with (if ?c then _ else _) = _ => destruct c eqn:C3 end; [|eapply IH; eassumption].
      inversion H; subst k s'. exists s. unfold ptrs_candidate. rewrite Hu0, HV, Hs2. split; [reflexivity|]. split; [reflexivity|].
      cbv zeta. right. apply orb_false_iff in C2. destruct C2 as [Ca Cb]. apply Rltb_false in Ca. apply Rleb_true in C3.
      split; [lra|]. split; [|exact C3].
      intros [Hx Hy]. apply andb_false_iff in Cb. destruct Cb as [Cb|Cb]; apply Rltb_false in Cb; contradiction.
  Qed.

  (** PTRS proper (rate >= 10): a non-negative integer on every accepted path *)
  Lemma poisson_ptrs_support fuel lam s k s' :
    10 <= lam -> unit_source src -> poisson_ptrs RO src fuel lam s = Ok (k, s') -> exists n : nat, k = INR n.
  Proof.
    intros Hl Hu H. unfold poisson_ptrs in H. apply ptrs_loop_integer in H as Hi. destruct Hi as [z Hz].
    apply ptrs_loop_nonneg in H; [|assumption|assumption].
    subst k. apply le_IZR in H. exists (Z.to_nat z). rewrite INR_IZR_INZ, Z2Nat.id by assumption. reflexivity.
  Qed.
  (** on ANY source (variates outside [0,1) included) the path through the full test is guarded by [k < 0] *)
  Lemma poisson_ptrs_full_test_path_nonneg fuel lam s k s' :
    poisson_ptrs RO src fuel lam s = Ok (k, s') ->
    is_integer k /\
    exists s0, s' = St (St s0) /\ (7 / 100 <= 1 / 2 - Rabs (U s0 - 1 / 2) \/ 0 <= k).
  Proof.
    intros H. unfold poisson_ptrs in H. split; [eapply ptrs_loop_integer; exact H|].
    apply ptrs_loop_accepted in H. destruct H as (s0 & _ & Hs & Hc). exists s0. split; [exact Hs|].
    cbv zeta in Hc. destruct Hc as [[Hc _]|[Hc _]]; [left|right]; assumption.
  Qed.

  (** [Poisson::sample]: a count, for EVERY rate (no hypothesis on lambda: the model's own test selects the method) *)
  Lemma poisson_sample_support fuel lambda s k s' :
    unit_source src -> poisson_sample RO src fuel lambda s = Ok (k, s') -> exists n : nat, k = INR n.
  Proof.
    intros Hu H. unfold poisson_sample in H. cbn [ltb RO ofZ] in H. unfold Rltb in H.
    destruct (Rlt_dec lambda 10) as [Hs|Hb].
    - eapply poisson_mult_count; eassumption.
    - eapply poisson_ptrs_support; [|exact Hu|exact H]. lra.
  Qed.
End AnySource.
