(** Satisfiability of the hypotheses of the C13 theorems on non-trivial instances. *)
From Coq Require Import Reals List Arith ZArith Bool Lia Lra.
From Compute Require Import Base.Ops Base.ListMat Model.Reduce Model.MatMul Model.TimeSeries
  Spec.TimeSeries Proofs.C13_base Proofs.C13_acf Proofs.C13_ar.
Import ListNotations.
Local Open Scope R_scope.

(** [acf_zero_lag]: a series with nonzero variance *)
Example acov0_nonzero : acov [0; 1; 3] 0 <> 0.
Proof.
  rewrite acov0_form. unfold sqD, cen, smean. cbn [map Rsum fold_right length INR].
  intros H. field_simplify in H. lra.
Qed.

Example acf_zero_lag_instance : acf RO [0; 1; 3] 0 = 1.
Proof. apply acf_zero_lag. exact acov0_nonzero. Qed.

(** [fit_solves_yule_walker]: an inner routine that satisfies [inv_ok] (the exact inverse of
    1 x 1 matrices, panic on everything else and on a zero pivot), and a fit that succeeds with it *)
Definition inv1 (A : list R) : option (list R) :=
  match A with
  | [a] => if Req_EM_T a 0 then None else Some [/ a]
  | _ => None
  end.

Example inv1_ok : forall n A Ai, length A = (n * n)%nat -> inv1 A = Some Ai -> right_inverse n A Ai.
Proof.
  intros n A Ai Hlen H. destruct A as [|a [|b A]]; try discriminate.
  cbn [inv1] in H. destruct (Req_EM_T a 0) as [|Ha]; [discriminate|]. injection H as <-.
  assert (n = 1%nat) by (cbn [length] in Hlen; nia). subst n.
  split; [reflexivity|]. intros i j Hi Hj.
  assert (i = 0%nat) by lia. assert (j = 0%nat) by lia. subst i j.
  cbn. field. exact Ha.
Qed.

Example fit_instance : exists c, ar_new_fit RO inv1 1 [0; 1; 3] = Some (c, smean [0; 1; 3]) /\ length c = 1%nat.
Proof.
  pose proof (fit_inv_arg_length 1 [0; 1; 3]) as Hl.
  pose proof (nth_fit_inv_arg 1 [0; 1; 3] 0 0 ltac:(lia) ltac:(lia)) as Hn.
  destruct (fit_inv_arg RO 1 [0; 1; 3]) as [|a [|b A]] eqn:E; try discriminate.
  cbn in Hn.
  assert (Ha : a = 1).
  { rewrite Hn. unfold acorr. field. exact acov0_nonzero. }
  destruct (fit_accepts inv1 1 [0; 1; 3] [/ a] ltac:(lia)) as [c [Hc [Hcl _]]].
  - rewrite E. cbn [inv1]. destruct (Req_EM_T a 0); [lra | reflexivity].
  - reflexivity.
  - exists c. split; assumption.
Qed.

(** [fit_shift_invariant], [ar1_forecast_converges]: non-empty data, |phi| < 1 *)
Example ar1_instance : Rabs (1 / 2) < 1 /\ [1; 2; 5] <> [].
Proof. split; [rewrite Rabs_right; lra | discriminate]. Qed.
