(** C13, the data condition of the composed fit, for EVERY order: the p x p Toeplitz matrix of the
    autocorrelations r(|i-j|) of a series with nonzero (biased) variance is POSITIVE DEFINITE.

    Gram representation.  Let a = the mean-centred series (length n), read as a function on the naturals
    that vanishes from n on, and let [sh i] be its shift by i places ([sh i t = a(t - i)], 0 for t < i).
    For i, j < p the inner product of [sh i] and [sh j] over t < n + p is the lag-|i-j| sum of products
    [lagN a |i-j|] = n * acov(|i-j|).  Hence, D = lagN a 0 = sum of squares > 0,

        c^T R c = (1/D) * sum_{t < n+p} y(t)^2,     y(t) = sum_{i<p} c_i sh_i(t)   (the polynomial c times a),

    which is >= 0, and it is 0 only when y vanishes; looking at t = t0 + i, where t0 is the position of the
    first nonzero entry of a, gives c_i a(t0) = 0 by induction on i (the lowest-degree term), i.e. c = 0.

    Consequences: [Spec.Solve.nonsingular] of that matrix for every order, and the composed fit theorem
    without any hypothesis other than a positive order and a nonconstant series. *)
From Coq Require Import Reals List Arith ZArith Bool Lia Lra.
From Compute Require Import Base.Ops Base.ListMat Model.Reduce Model.MatMul Model.TimeSeries Model.SolveInst
  Spec.TimeSeries Proofs.C13_base Proofs.C13_acf Proofs.C13_ar Proofs.C13_compose.
From Compute Require Spec.Factor Spec.Solve Proofs.LinAlgBase Proofs.C11_SPD.
Import ListNotations.
Import Spec.Factor Proofs.LinAlgBase.
Local Open Scope R_scope.

(** ** sums of nonnegative terms *)
Lemma rsum_nonneg_zero f n :
  (forall k, (k < n)%nat -> 0 <= f k) -> rsum f n = 0 -> forall k, (k < n)%nat -> f k = 0.
Proof.
  induction n as [|n IH]; intros Hpos Hz k Hk; [lia|].
  cbn [rsum] in Hz.
  assert (H1 : 0 <= rsum f n) by (apply rsum_nonneg; intros; apply Hpos; lia).
  assert (H2 : 0 <= f n) by (apply Hpos; lia).
  destruct (Nat.eq_dec k n) as [->|Hne]; [lra|].
  apply IH; [intros; apply Hpos; lia | lra | lia].
Qed.

(** ** the shifts of a finitely supported sequence *)
Section Shifts.
  Variable a : list R.
  Definition sq (t : nat) : R := nth t a 0.
  Definition sh (i t : nat) : R := if (t <? i)%nat then 0 else sq (t - i).

  Lemma sq_beyond t : (length a <= t)%nat -> sq t = 0.
  Proof. intros H. unfold sq. apply nth_overflow. exact H. Qed.

  (** the lag-h sum of products, as an indexed sum *)
  Lemma lagN_rsum h : lagN a h = rsum (fun u => sq u * sq (h + u)) (length a - h).
  Proof.
    unfold lagN. rewrite (lag_map2_as_seq Rmult a h 0). rewrite map_seq_shift, Rsum_as_rsum.
    apply rsum_ext. intros u Hu. unfold sq. replace (h + u - h)%nat with u by lia. ring.
  Qed.

  (** inner product of two shifts = the lagged sum of products at the difference of the shifts *)
  Lemma gram_shift h j N :
    (length a + j + h <= N)%nat -> rsum (fun t => sh (j + h) t * sh j t) N = lagN a h.
  Proof.
    intros HN. rewrite lagN_rsum.
    replace N with ((j + h) + (N - (j + h)))%nat by lia. rewrite rsum_app.
    rewrite rsum_zero.
    - rewrite Rplus_0_l.
      rewrite (rsum_ext _ (fun u => sq u * sq (h + u))).
      + apply rsum_trunc; [lia|]. intros k Hk. rewrite (sq_beyond (h + k)) by lia. ring.
      + intros u Hu. unfold sh.
        destruct (Nat.ltb_spec (j + h + u) (j + h)) as [H1|H1]; [lia|].
        destruct (Nat.ltb_spec (j + h + u) j) as [H2|H2]; [lia|].
        replace (j + h + u - (j + h))%nat with u by lia.
        replace (j + h + u - j)%nat with (h + u)%nat by lia. reflexivity.
    - intros t Ht. unfold sh. destruct (Nat.ltb_spec t (j + h)) as [H1|H1]; [ring|lia].
  Qed.

  Lemma gram_shifts p i j :
    (i < p)%nat -> (j < p)%nat ->
    rsum (fun t => sh i t * sh j t) (length a + p) = lagN a (adiff i j).
  Proof.
    intros Hi Hj. unfold adiff. destruct (Nat.le_gt_cases j i) as [Hle|Hlt].
    - replace (i - j + (j - i))%nat with (i - j)%nat by lia.
      rewrite <- (gram_shift (i - j) j (length a + p)) by lia.
      replace (j + (i - j))%nat with i by lia. reflexivity.
    - replace (i - j + (j - i))%nat with (j - i)%nat by lia.
      rewrite <- (gram_shift (j - i) i (length a + p)) by lia.
      replace (i + (j - i))%nat with j by lia. apply rsum_ext. intros; ring.
  Qed.

  (** the first nonzero entry *)
  Lemma first_nonzero : sqD a <> 0 ->
    exists t0, (t0 < length a)%nat /\ sq t0 <> 0 /\ forall t, (t < t0)%nat -> sq t = 0.
  Proof.
    unfold sq, sqD. clear. induction a as [|v l IH]; intros H; [cbn in H; lra|].
    destruct (Req_dec v 0) as [Hv|Hv].
    - subst v. cbn [map Rsum fold_right] in H. fold (Rsum (map (fun v => v * v) l)) in H.
      destruct IH as (t0 & Ht0 & Hnz & Hz); [lra|].
      exists (S t0). cbn [length nth]. split; [lia|]. split; [exact Hnz|].
      intros [|t] Ht; [reflexivity|]. apply Hz. lia.
    - exists 0%nat. cbn [length nth]. split; [lia|]. split; [exact Hv|]. intros t Ht. lia.
  Qed.

  (** the quadratic form of the matrix of lagged sums is a sum of squares ... *)
  Lemma lag_form_gram (c : nat -> R) p :
    rsum (fun i => rsum (fun j => c i * lagN a (adiff i j) * c j) p) p
    = rsum (fun t => rsum (fun i => sh i t * c i) p * rsum (fun i => sh i t * c i) p) (length a + p).
  Proof.
    rewrite <- (Proofs.C11_SPD.quad_gram c sh p (length a + p)).
    apply rsum_ext. intros i Hi. apply rsum_ext. intros j Hj. rewrite gram_shifts by assumption. reflexivity.
  Qed.

  (** ... which vanishes only at c = 0 (on 0..p-1) *)
  Lemma lag_form_positive (c : nat -> R) p :
    sqD a <> 0 -> (exists i, (i < p)%nat /\ c i <> 0) ->
    0 < rsum (fun i => rsum (fun j => c i * lagN a (adiff i j) * c j) p) p.
  Proof.
    intros HD Hc. rewrite lag_form_gram.
    set (y := fun t => rsum (fun i => sh i t * c i) p).
    change (0 < rsum (fun t => y t * y t) (length a + p)).
    assert (Hnn : forall t, (t < length a + p)%nat -> 0 <= y t * y t) by (intros; apply Rle_0_sqr).
    pose proof (rsum_nonneg _ _ Hnn) as Hge.
    destruct (Req_dec (rsum (fun t => y t * y t) (length a + p)) 0) as [Hz|Hz]; [exfalso|lra].
    assert (Hy : forall t, (t < length a + p)%nat -> y t = 0).
    { intros t Ht. pose proof (rsum_nonneg_zero _ _ Hnn Hz t Ht) as H. apply Rmult_integral in H. tauto. }
    destruct (first_nonzero HD) as (t0 & Ht0 & Hnz & Hbefore).
    assert (Hall : forall i, (i < p)%nat -> c i = 0).
    { intros i. induction i as [i IH] using lt_wf_ind. intros Hi.
      specialize (Hy (t0 + i)%nat ltac:(lia)). unfold y in Hy.
      rewrite (rsum_single _ i p Hi) in Hy.
      - unfold sh in Hy. destruct (Nat.ltb_spec (t0 + i) i) as [H1|H1]; [lia|].
        replace (t0 + i - i)%nat with t0 in Hy by lia.
        apply Rmult_integral in Hy. destruct Hy; [contradiction|assumption].
      - intros q Hq Hne. destruct (Nat.lt_ge_cases q i) as [Hlt|Hgt].
        + rewrite (IH q Hlt Hq). ring.
        + unfold sh. destruct (Nat.ltb_spec (t0 + i) q) as [H1|H1]; [ring|].
          rewrite (Hbefore (t0 + i - q)%nat) by lia. ring. }
    destruct Hc as (i & Hi & Hci). exact (Hci (Hall i Hi)).
  Qed.
End Shifts.

(** ** the autocorrelations in terms of the lagged sums of the centred series *)
Lemma acov0_nonzero_sqD x : acov x 0 <> 0 -> sqD (cen (smean x) x) <> 0 /\ INR (length x) <> 0.
Proof.
  intros H. rewrite acov0_form in H. split.
  - intros E. apply H. rewrite E. unfold Rdiv. ring.
  - intros E. apply H. destruct x as [|v x]; [cbn; unfold Rdiv; ring|].
    exfalso. revert E. apply not_0_INR. cbn [length]. lia.
Qed.

Lemma acorr_as_lag x h :
  acov x 0 <> 0 -> acorr x (Z.of_nat h) = lagN (cen (smean x) x) h / sqD (cen (smean x) x).
Proof.
  intros Hv. destruct (acov0_nonzero_sqD x Hv) as [HD Hn].
  unfold acorr. rewrite acov0_form, acov_form, Zabs2Nat.id. field. split; assumption.
Qed.

(** ** the theorem *)
Theorem toeplitz_positive_definite p data :
  acov data 0 <> 0 -> Proofs.C11_SPD.positive_definite (fit_inv_arg RO p data) p.
Proof.
  intros Hv c Hc. destruct (acov0_nonzero_sqD data Hv) as [HD Hn].
  set (a := cen (smean data) data) in *.
  assert (HDpos : 0 < sqD a).
  { pose proof (Rsum_sq_nonneg a) as H. unfold sqD in *. lra. }
  rewrite (rsum_ext _ (fun i => / sqD a * rsum (fun j => c i * lagN a (adiff i j) * c j) p)).
  - rewrite rsum_scal_l. apply Rmult_lt_0_compat; [apply Rinv_0_lt_compat; exact HDpos|].
    apply lag_form_positive; assumption.
  - intros i Hi. rewrite <- rsum_scal_l. apply rsum_ext. intros j Hj.
    unfold getm. rewrite nth_fit_inv_arg by assumption. rewrite (acorr_as_lag data _ Hv). fold a.
    field. exact HD.
Qed.

Theorem toeplitz_nonsingular_every_order p data :
  (0 < p)%nat -> acov data 0 <> 0 -> toeplitz_nonsingular p data.
Proof. intros Hp Hv. apply toeplitz_pd_nonsingular; [exact Hp|]. apply toeplitz_positive_definite. exact Hv. Qed.

(** ** "nonzero variance" is "not all values equal" *)
Lemma sqD_zero_all_zero l : sqD l = 0 -> forall t, nth t l 0 = 0.
Proof.
  unfold sqD. induction l as [|v l IH]; intros H t; [destruct t; reflexivity|].
  cbn [map Rsum fold_right] in H. fold (Rsum (map (fun v => v * v) l)) in H.
  pose proof (Rsum_sq_nonneg l) as Hl. pose proof (Rle_0_sqr v) as Hv. unfold Rsqr in Hv.
  destruct t as [|t]; cbn [nth].
  - assert (E : v * v = 0) by lra. apply Rmult_integral in E. tauto.
  - apply IH. lra.
Qed.

Lemma nth_cen m x t : (t < length x)%nat -> nth t (cen m x) 0 = nth t x 0 - m.
Proof.
  intros Ht. unfold cen. rewrite (nth_indep _ 0 ((fun v => v - m) 0)) by (rewrite map_length; exact Ht).
  exact (map_nth (fun v => v - m) x 0 t).
Qed.

Lemma nonconstant_acov0 x i j :
  (i < length x)%nat -> (j < length x)%nat -> nth i x 0 <> nth j x 0 -> acov x 0 <> 0.
Proof.
  intros Hi Hj Hne Hz. rewrite acov0_form in Hz.
  assert (Hn : INR (length x) <> 0) by (apply not_0_INR; lia).
  assert (HD : sqD (cen (smean x) x) = 0).
  { unfold Rdiv in Hz. apply Rmult_integral in Hz. destruct Hz as [E|E]; [exact E|].
    exfalso. revert E. apply Rinv_neq_0_compat. exact Hn. }
  pose proof (sqD_zero_all_zero _ HD) as Hall.
  assert (E : forall t, (t < length x)%nat -> nth t x 0 = smean x).
  { intros t Ht. specialize (Hall t). rewrite nth_cen in Hall by exact Ht. lra. }
  apply Hne. rewrite (E i Hi), (E j Hj). reflexivity.
Qed.

Lemma constant_acov0 x : (forall i j, (i < length x)%nat -> (j < length x)%nat -> nth i x 0 = nth j x 0) -> acov x 0 = 0.
Proof.
  intros Hc. rewrite acov0_form.
  destruct x as [|v x]; [cbn; unfold Rdiv; ring|].
  assert (Hall : forall u, In u (v :: x) -> u = v).
  { intros u Hu. destruct (In_nth _ _ 0 Hu) as (t & Ht & <-). apply (Hc t 0%nat Ht). cbn [length]. lia. }
  assert (Hsum : forall l, (forall u, In u l -> u = v) -> Rsum l = INR (length l) * v).
  { induction l as [|u l IH]; intros H; [cbn; ring|].
    cbn [Rsum fold_right length]. fold (Rsum l). rewrite IH by (intros; apply H; right; assumption).
    rewrite (H u) by (left; reflexivity). rewrite S_INR. ring. }
  assert (Hm : smean (v :: x) = v).
  { unfold smean. rewrite (Hsum _ Hall). field. apply not_0_INR. cbn [length]. lia. }
  rewrite Hm. unfold sqD, cen. rewrite map_map.
  rewrite Rsum_map_zero; [unfold Rdiv; ring|].
  intros u Hu. rewrite (Hall u Hu). ring.
Qed.

Lemma acov0_nonzero_iff_nonconstant x :
  acov x 0 <> 0 <-> exists i j, (i < length x)%nat /\ (j < length x)%nat /\ nth i x 0 <> nth j x 0.
Proof.
  split.
  - intros Hv. apply Classical_Prop.NNPP. intros Hno. apply Hv. apply constant_acov0.
    intros i j Hi Hj. destruct (Req_dec (nth i x 0) (nth j x 0)) as [E|E]; [exact E|].
    exfalso. apply Hno. exists i, j. auto.
  - intros (i & j & Hi & Hj & Hne). exact (nonconstant_acov0 x i j Hi Hj Hne).
Qed.

(** ** the fit, with no hypothesis left but a positive order and a nonconstant series *)
Theorem fit_total_unconditional p data :
  (0 < p)%nat -> acov data 0 <> 0 ->
  exists coeffs, ar_new_fit RO (slice_invert RO) p data = Some (coeffs, smean data) /\ length coeffs = p /\
    yule_walker (fun t => acorr data (Z.of_nat t)) p (rev coeffs) /\
    forall phi, yule_walker (fun t => acorr data (Z.of_nat t)) p phi -> phi = rev coeffs.
Proof.
  intros Hp Hv. apply fit_total_composed; [exact Hp|]. apply toeplitz_nonsingular_every_order; assumption.
Qed.

Theorem fit_total_nonconstant p data i j :
  (0 < p)%nat -> (i < length data)%nat -> (j < length data)%nat -> nth i data 0 <> nth j data 0 ->
  exists coeffs, ar_new_fit RO (slice_invert RO) p data = Some (coeffs, smean data) /\ length coeffs = p /\
    yule_walker (fun t => acorr data (Z.of_nat t)) p (rev coeffs) /\
    forall phi, yule_walker (fun t => acorr data (Z.of_nat t)) p phi -> phi = rev coeffs.
Proof.
  intros Hp Hi Hj Hne. apply fit_total_unconditional; [exact Hp|]. exact (nonconstant_acov0 data i j Hi Hj Hne).
Qed.

(** a non-trivial instance: order 5 on a series of length 3 (order larger than the length) *)
Example fit_unconditional_instance :
  exists coeffs, ar_new_fit RO (slice_invert RO) 5 [0; 1; 3] = Some (coeffs, smean [0; 1; 3]) /\ length coeffs = 5%nat.
Proof.
  destruct (fit_total_nonconstant 5 [0; 1; 3] 0 1) as (c & Hc & Hl & _); cbn [length nth]; try lia; try lra.
  exists c. split; assumption.
Qed.
