(** C09 (extension): z Gamma(z) / Gamma(z+1) = 1 to 2e-16 for every real z in [20, 1706/10] ([interval]; see C09_recur_base.v). *)
From Compute Require Import Proofs.C09_base Proofs.C09_recur_base.
Open Scope R_scope.
Lemma rec_part3 : rec_ok (20) (1706/10).
Proof. rec_tac. Qed.
