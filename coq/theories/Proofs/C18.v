(** * C18 — per-distribution proofs over the GENERATED state machines (Generated/dist_setters.v).
    One tactic, [solve_ok], proves the four per-call facts of [machine_ok] for every distribution; it never
    mentions a field, a guard or a method by name (it unfolds the distribution's hint database, which the
    translator regenerates, and case-splits on whatever atomic conditions appear), so the script survives
    regeneration as long as the facts stay true.  On the unrepaired code it fails exactly for ChiSquared
    (stale sampler, D32) and for Uniform / DiscreteUniform (update validates against the old bound, D33). *)
From Coq Require Import ZArith QArith Reals List Bool Lia Lra Floats.
From Compute Require Import Base.Ops Base.DistCore Generated.dist_setters Spec.Distributions Proofs.C18_generic.
Import ListNotations.

(** ** the tactic *)
Ltac case_atom :=
  match goal with
  | |- context [if ?c then _ else _] =>
      lazymatch c with
      | context [if _ then _ else _] => fail
      | context [match _ with Some _ => _ | None => _ end] => fail
      | _ => destruct c eqn:?
      end
  | |- context [match ?c with Some _ => _ | None => _ end] =>
      lazymatch c with
      | context [if _ then _ else _] => fail
      | context [match _ with Some _ => _ | None => _ end] => fail
      | _ => destruct c eqn:?
      end
  end.

Ltac norm := cbv beta iota delta [coherent obind rbind with_param with_new state_of is_ok andb orb negb
   m_new m_step m_params m_target m_wf m_is_update m_state m_op m_param fst snd] in *.

Ltac finish :=
  intros; try discriminate; try congruence;
  repeat match goal with H : Some _ = Some _ |- _ => injection H as ?; subst end;
  repeat match goal with H : (_, _) = (_, _) |- _ => injection H as ?; subst end;
  try congruence.



Ltac prep db := norm; autounfold with db; norm.
Ltac split_all := repeat (case_atom; norm; try (intros; discriminate)).
(** [extra] closes the leaves that need a fact about a sub-constructor (only Beta has such leaves) *)
Ltac solve_ok_with M db extra :=
  split;
  [ intros th s; unfold M; prep db; try destruct th; norm; split_all; finish
  | intros s o th s'; destruct s, o; unfold M; prep db; try destruct th; norm; split_all; finish; extra
  | intros s o; destruct s, o; unfold M; prep db; split_all; intros; try discriminate; extra;
    eexists; (split; [reflexivity|split]); norm; finish; split_all; finish; extra
  | intros s o; destruct s, o; unfold M; prep db; split_all; finish; extra ].
Ltac solve_ok M db := intros T O; solve_ok_with M db idtac.

(** ** the carriers in use are sane *)
Lemma RO_sane : carrier_sane RO.
Proof. unfold carrier_sane; split; cbn [leb ltb one zero RO]; unfold Rleb, Rltb; [destruct (Rle_dec 1 0)|destruct (Rlt_dec 1 0)]; try reflexivity; lra. Qed.
Lemma QO_sane : carrier_sane QO.
Proof. unfold carrier_sane; split; reflexivity. Qed.
Lemma FO_sane : forall tbl, carrier_sane (FO tbl).
Proof. intros tbl. unfold carrier_sane; split; vm_compute; reflexivity. Qed.

(** under [carrier_sane], Gamma::new(a, 1.) cannot panic once [a <= 0.] has been excluded *)
Lemma Gamma_new_one_some : forall T (O : Ops T), carrier_sane O ->
  forall a, leb O a (zero O) = false -> Gamma_new O a (one O) <> None.
Proof.
  intros T O [S1 S2] a Ha. unfold Gamma_new, Normal_new, Uniform_new.
  rewrite Ha, S1, S2. cbv beta iota delta [orb obind]. discriminate.
Qed.

(** ** the four per-call facts, per distribution *)
Lemma Bernoulli_ok : forall T (O : Ops T), machine_ok (Bernoulli_machine O).
Proof. solve_ok @Bernoulli_machine Bernoulli_db. Qed.
Lemma Beta_ok : forall T (O : Ops T), carrier_sane O -> machine_ok (Beta_machine O).
Proof.
  intros T O Hs. pose proof (Gamma_new_one_some T O Hs) as HG.
  solve_ok_with @Beta_machine Beta_db
    ltac:(try (exfalso; match goal with
               | H : Gamma_new _ ?a (one _) = None, G : leb _ ?a (zero _) = false |- _ => exact (HG a G H)
               end)).
Qed.
Lemma Binomial_ok : forall T (O : Ops T), machine_ok (Binomial_machine O).
Proof. solve_ok @Binomial_machine Binomial_db. Qed.
Lemma ChiSquared_ok : forall T (O : Ops T), machine_ok (ChiSquared_machine O).
Proof. solve_ok @ChiSquared_machine ChiSquared_db. Qed.
Lemma DiscreteUniform_ok : forall T (O : Ops T), machine_ok (DiscreteUniform_machine O).
Proof. solve_ok @DiscreteUniform_machine DiscreteUniform_db. Qed.
Lemma Exponential_ok : forall T (O : Ops T), machine_ok (Exponential_machine O).
Proof. solve_ok @Exponential_machine Exponential_db. Qed.
Lemma Gamma_ok : forall T (O : Ops T), machine_ok (Gamma_machine O).
Proof. solve_ok @Gamma_machine Gamma_db. Qed.
Lemma Gumbel_ok : forall T (O : Ops T), machine_ok (Gumbel_machine O).
Proof. solve_ok @Gumbel_machine Gumbel_db. Qed.
Lemma Normal_ok : forall T (O : Ops T), machine_ok (Normal_machine O).
Proof. solve_ok @Normal_machine Normal_db. Qed.
Lemma Pareto_ok : forall T (O : Ops T), machine_ok (Pareto_machine O).
Proof. solve_ok @Pareto_machine Pareto_db. Qed.
Lemma Poisson_ok : forall T (O : Ops T), machine_ok (Poisson_machine O).
Proof. solve_ok @Poisson_machine Poisson_db. Qed.
Lemma T_ok : forall T (O : Ops T), machine_ok (T_machine O).
Proof. solve_ok @T_machine T_db. Qed.
Lemma Uniform_ok : forall T (O : Ops T), machine_ok (Uniform_machine O).
Proof. solve_ok @Uniform_machine Uniform_db. Qed.

(** ** the constructors accept exactly the documented domains (over R) *)
Local Open Scope R_scope.
Lemma Q2R_2 : Q2R (2 # 1) = 2. Proof. unfold Q2R; cbn; lra. Qed.
Lemma Q2R_half : Q2R (1 # 2) = / 2. Proof. unfold Q2R; cbn; lra. Qed.
Lemma of_u64_R : forall n, of_u64 RO n = IZR n.
Proof.
  intros n. unfold of_u64, two32. cbn [add mul ofZ RO].
  rewrite <- mult_IZR, <- plus_IZR. f_equal.
  rewrite Z.mul_comm. symmetry. apply Z.div_mod. apply Z.pow_nonzero; lia.
Qed.

Ltac rdec :=
  unfold Rleb, Rltb, Reqb in *;
  repeat match goal with
  | |- context [Rle_dec ?a ?b] => destruct (Rle_dec a b)
  | |- context [Rlt_dec ?a ?b] => destruct (Rlt_dec a b)
  | H : context [Rle_dec ?a ?b] |- _ => destruct (Rle_dec a b)
  | H : context [Rlt_dec ?a ?b] |- _ => destruct (Rlt_dec a b)
  end.
Ltac rnew db :=
  autounfold with db; cbv beta iota delta [m_new obind andb orb negb fst snd];
  cbn [leb ltb eqb zero one RO]; rdec; cbv beta iota;
  split; intros; try lra; try congruence; try discriminate; try (exfalso; match goal with H : _ <> _ |- _ => apply H; reflexivity end); try (exfalso; lra).

Lemma Uniform_new_R : forall th, m_new (Uniform_machine RO) th <> None <-> Uniform_dom th.
Proof. intros [a b]. unfold Uniform_machine, Uniform_dom. rnew Uniform_db. Qed.
Lemma Normal_new_R : forall th, m_new (Normal_machine RO) th <> None <-> Normal_dom th.
Proof. intros [a b]. unfold Normal_machine, Normal_dom. rnew Normal_db. Qed.
Lemma Bernoulli_new_R : forall th, m_new (Bernoulli_machine RO) th <> None <-> Bernoulli_dom th.
Proof. intros p. unfold Bernoulli_machine, Bernoulli_dom. rnew Bernoulli_db. Qed.
Lemma Binomial_new_R : forall th, m_new (Binomial_machine RO) th <> None <-> Binomial_dom th.
Proof. intros [n p]. unfold Binomial_machine, Binomial_dom. rnew Binomial_db. Qed.
Lemma Normal_01 : Normal_new RO 0 1 = Some (mk_Normal 0 1).
Proof. unfold Normal_new. cbn [ltb zero RO]. rdec; [lra|reflexivity]. Qed.
Lemma Uniform_01 : Uniform_new RO 0 1 = Some (mk_Uniform 0 1).
Proof. unfold Uniform_new. cbn [ltb zero RO]. rdec; [lra|reflexivity]. Qed.
Lemma Gamma_new_R : forall th, m_new (Gamma_machine RO) th <> None <-> Gamma_dom th.
Proof. intros [a b]. unfold Gamma_machine, Gamma_dom. autounfold with Gamma_db. cbv beta iota delta [m_new]. 
  cbn [zero one RO]. rewrite Normal_01, Uniform_01. rnew Gamma_db. Qed.

Lemma Gamma_new_R_some : forall a b, 0 < a -> 0 < b ->
  Gamma_new RO a b = Some (mk_Gamma a b (mk_Normal 0 1) (mk_Uniform 0 1)).
Proof.
  intros a b Ha Hb. unfold Gamma_new. cbn [zero one RO]. rewrite Normal_01, Uniform_01.
  cbv beta iota delta [obind orb]. cbn [leb RO]. rdec; try lra. reflexivity.
Qed.
Lemma Beta_new_R : forall th, m_new (Beta_machine RO) th <> None <-> Beta_dom th.
Proof.
  intros [a b]. unfold Beta_machine, Beta_dom. autounfold with Beta_db. cbv beta iota delta [m_new orb fst snd].
  cbn [leb zero one RO]. rdec; cbv beta iota; try (split; intros; [exfalso; match goal with H : _ <> _ |- _ => apply H; reflexivity end | lra]).
  rewrite !Gamma_new_R_some by lra. cbv beta iota delta [obind]. split; intros; [lra|discriminate].
Qed.
Lemma ChiSquared_new_R : forall th, m_new (ChiSquared_machine RO) th <> None <-> ChiSquared_dom th.
Proof.
  intros dof. unfold ChiSquared_machine, ChiSquared_dom. autounfold with ChiSquared_db. cbv beta iota delta [m_new].
  destruct (Z.ltb_spec 0 dof) as [H|H].
  - rewrite Gamma_new_R_some.
    + cbv beta iota delta [obind]. split; intros; [exact H|discriminate].
    + cbn [div ofQ RO]. rewrite of_u64_R, Q2R_2. apply IZR_lt in H. lra.
    + cbn [ofQ RO]. rewrite Q2R_half. lra.
  - split; intros; [exfalso; match goal with H : _ <> _ |- _ => apply H; reflexivity end | lia].
Qed.
Lemma DiscreteUniform_new_R : forall th, m_new (DiscreteUniform_machine RO) th <> None <-> DiscreteUniform_dom th.
Proof.
  intros [a b]. unfold DiscreteUniform_machine, DiscreteUniform_dom. autounfold with DiscreteUniform_db.
  cbv beta iota delta [m_new fst snd]. destruct (Z.ltb_spec b a); split; intros; try lia; try discriminate.
  exfalso; match goal with H : _ <> _ |- _ => apply H; reflexivity end.
Qed.
Lemma Exponential_new_R : forall th, m_new (Exponential_machine RO) th <> None <-> Exponential_dom th.
Proof.
  intros a. unfold Exponential_machine, Exponential_dom. autounfold with Exponential_db. cbv beta iota delta [m_new].
  cbn [zero one RO]. rewrite Uniform_01. rnew Exponential_db.
Qed.
Lemma Gumbel_new_R : forall th, m_new (Gumbel_machine RO) th <> None <-> Gumbel_dom th.
Proof.
  intros [a b]. unfold Gumbel_machine, Gumbel_dom. autounfold with Gumbel_db. cbv beta iota delta [m_new].
  cbn [zero one RO]. rewrite Uniform_01. rnew Gumbel_db.
Qed.
Lemma Pareto_new_R : forall th, m_new (Pareto_machine RO) th <> None <-> Pareto_dom th.
Proof. intros [a b]. unfold Pareto_machine, Pareto_dom. rnew Pareto_db. Qed.
Lemma Poisson_new_R : forall th, m_new (Poisson_machine RO) th <> None <-> Poisson_dom th.
Proof. intros a. unfold Poisson_machine, Poisson_dom. rnew Poisson_db. Qed.
Lemma T_new_R : forall th, m_new (T_machine RO) th <> None <-> T_dom th.
Proof. intros a. unfold T_machine, T_dom. rnew T_db. Qed.
