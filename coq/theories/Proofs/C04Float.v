(** Proofs for C04, part 4: on binary64 the products [x*x] and [x*x*x] of the [vpowi] chunk loop are the values of
    compiler-rt's square-and-multiply [powi x 2], [powi x 3] (as Leibniz equalities on Coq's primitive floats, which
    have a single NaN: bit-equal up to the NaN payload).  Two IEEE facts are needed: [1 * y = y] (Flocq's
    [Bmult_correct]: the product with one is exactly representable) and [x * y = y * x] (the specification
    [SFmul] is symmetric). *)
From Coq Require Import List ZArith Reals Bool Floats SpecFloat Lia Lra.
From Flocq Require Import Core.Core IEEE754.BinarySingleNaN IEEE754.PrimFloat.
Notation pfloat := Coq.Floats.PrimFloat.float.
From Compute Require Import Base.Ops Base.ListMat Model.Vops Proofs.C04.
Import ListNotations.

Local Existing Instance Flocq.IEEE754.PrimFloat.Hprec.
Local Existing Instance Flocq.IEEE754.PrimFloat.Hmax.

Lemma Bmult_one_l (y : binary_float prec emax) : Bmult mode_NE Bone y = y.
Proof.
  pose proof (Bone_correct prec emax _ _) as H1.
  pose proof (is_finite_Bone prec emax _ _) as Hf1.
  pose proof (Bsign_Bone prec emax _ _) as Hs1.
  destruct (is_finite y) eqn:Hfy.
  - pose proof (Bmult_correct prec emax _ _ mode_NE Bone y) as H.
    rewrite H1, Rmult_1_l in H.
    rewrite round_generic in H; [|apply valid_rnd_round_mode|apply generic_format_B2R].
    rewrite Rlt_bool_true in H by apply abs_B2R_lt_emax.
    destruct H as (HR & HF & HS).
    rewrite Hf1, Hfy in HF. cbn [andb] in HF.
    apply B2R_Bsign_inj; auto.
    rewrite HS.
    + rewrite Hs1. destruct (Bsign y); reflexivity.
    + destruct (Bmult mode_NE Bone y); try discriminate; reflexivity.
  - destruct (Bone (prec:=prec) (emax:=emax)) as [s|s| |s m e Hb] eqn:EB; try discriminate Hf1.
    + cbn in H1. lra.
    + destruct y as [sy|sy| |sy my ey Hy]; try discriminate Hfy; cbn [Bmult].
      * cbn [Bsign] in Hs1. rewrite Hs1. destruct sy; reflexivity.
      * reflexivity.
Qed.

Lemma fmul_one_l (y : pfloat) : (1 * y)%float = y.
Proof.
  apply Prim2B_inj. rewrite mul_equiv.
  change 1%float with Coq.Floats.PrimFloat.one. rewrite one_equiv, Prim2B_B2Prim.
  apply Bmult_one_l.
Qed.

Lemma SFmul_comm prec emax x y : SFmul prec emax x y = SFmul prec emax y x.
Proof.
  destruct x as [sx|sx| |sx mx ex], y as [sy|sy| |sy my ey]; cbn [SFmul];
    rewrite ?(xorb_comm sx sy); try reflexivity.
  rewrite (Pos.mul_comm mx my), (Z.add_comm ex ey). reflexivity.
Qed.

Lemma fmul_comm (x y : pfloat) : (x * y)%float = (y * x)%float.
Proof. apply Prim2SF_inj. rewrite !mul_spec. apply SFmul_comm. Qed.

Theorem powi2_is_mul (tbl : libm_table) (x : pfloat) : mul (FO tbl) x x = powi (FO tbl) x 2.
Proof.
  cbv [powi powi_pos]. cbn [mul one FO]. symmetry. apply fmul_one_l.
Qed.

Theorem powi3_is_mul (tbl : libm_table) (x : pfloat) :
  mul (FO tbl) (mul (FO tbl) x x) x = powi (FO tbl) x 3.
Proof.
  cbv [powi powi_pos]. cbn [mul one FO]. rewrite fmul_one_l. apply fmul_comm.
Qed.

(** hence the kernel is the point-wise scalar [powi] on binary64, for every length and every exponent *)
Theorem vpowi_F (tbl : libm_table) (v : list pfloat) (n : Z) :
  vpowi (FO tbl) v n = map (fun x => powi (FO tbl) x n) v.
Proof.
  apply vpowi_pointwise; intros _ x _; [apply powi2_is_mul|apply powi3_is_mul].
Qed.
