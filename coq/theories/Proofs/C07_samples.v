(** Proofs for C07, part 7: the sampled rule [trapezoid(y, x, dx)] — acceptance (the sum of the exact chord
    integrals) and rejection (malformed calls give [None]). *)
From Coq Require Import Reals List ZArith QArith Lra Lia Bool.
From Coquelicot Require Import Coquelicot.
From Compute Require Import Base.Ops Base.ListMat Model.Quad Spec.Quad Proofs.C07_base.
Import ListNotations.
Open Scope R_scope.

Lemma fold_left_add_R l : forall s, fold_left Rplus l s = s + fold_right Rplus 0 l.
Proof. induction l as [|x l IH]; intros s; cbn [fold_left fold_right]; [ring|]. rewrite IH. ring. Qed.

(** the terms the code adds up, for given widths *)
Definition terms (y w : list R) : list R := map2 (fun s d => s / 2 * d) (map2 Rplus (tl y) y) w.

Lemma terms_chords x : forall y, length y = length x ->
  fold_right Rplus 0 (terms y (diffs RO x)) = chord_sum x y.
Proof.
  induction x as [|x0 x IH]; intros [|y0 y] Hl; cbn [length] in Hl; try discriminate; [reflexivity|].
  destruct x as [|x1 x]; destruct y as [|y1 y]; cbn [length] in Hl; try discriminate; [reflexivity|].
  specialize (IH (y1 :: y) ltac:(cbn [length]; lia)).
  unfold terms, diffs in *. cbn [tl map2 fold_right chord_sum sub RO] in *.
  rewrite IH. reflexivity.
Qed.

(** acceptance, abscissae given: the result is the sum over the panels of (y_i + y_{i-1})/2·(x_i − x_{i-1}) *)
Lemma trapezoid_x_accept y x :
  length y = length x -> trapezoid RO y (Some x) None = Some (chord_sum x y).
Proof.
  intros Hl. unfold trapezoid. rewrite Hl, Nat.eqb_refl. cbn [guard bind].
  rewrite negzero_R. f_equal. change (add RO) with Rplus.
  rewrite fold_left_add_R, Rplus_0_l.
  change (map2 (fun s d => div RO s (two RO) * d)%R (map2 Rplus (tl y) y) (diffs RO x))
    with (map2 (fun s d => mul RO (div RO s (two RO)) d) (map2 Rplus (tl y) y) (diffs RO x)).
  rewrite <- (terms_chords x y Hl). unfold terms. f_equal.
Qed.

(** each summand is the exact integral of the chord through the two samples *)
Lemma chord_is_RInt x0 y0 x1 y1 :
  x0 <> x1 -> is_RInt (chord x0 y0 x1 y1) x0 x1 ((y1 + y0) / 2 * (x1 - x0)).
Proof.
  intros Hx.
  replace ((y1 + y0) / 2 * (x1 - x0))
    with (minus ((fun t => y0 * t + (y1 - y0) / (x1 - x0) * ((t - x0) * (t - x0) / 2)) x1)
                ((fun t => y0 * t + (y1 - y0) / (x1 - x0) * ((t - x0) * (t - x0) / 2)) x0))
    by (unfold minus, plus, opp; cbn; field; lra).
  apply (is_RInt_derive (fun t => y0 * t + (y1 - y0) / (x1 - x0) * ((t - x0) * (t - x0) / 2)) (chord x0 y0 x1 y1)).
  - intros t _. unfold chord. auto_derive; [trivial|]. field. lra.
  - intros t _. apply (ex_derive_continuous (chord x0 y0 x1 y1)). unfold chord. auto_derive. trivial.
Qed.
Lemma chord_interpolates x0 y0 x1 y1 : x0 <> x1 -> chord x0 y0 x1 y1 x0 = y0 /\ chord x0 y0 x1 y1 x1 = y1.
Proof. intros Hx. unfold chord. split; field; lra. Qed.

(** acceptance, constant spacing [dx] (or 1 when neither is given) *)
Lemma terms_const d : forall y, 
  fold_right Rplus 0 (terms y (map (fun _ => 1 * d) (tl y))) = d * fold_right Rplus 0 (map2 (fun a b => (a + b) / 2) (tl y) y).
Proof.
  unfold terms. induction y as [|y0 y IH]; [cbn; ring|].
  destruct y as [|y1 y]; [cbn; ring|].
  cbn [tl map map2 fold_right] in *. rewrite IH. ring.
Qed.
Lemma trapezoid_dx_accept y0 y dx :
  trapezoid RO (y0 :: y) None dx
  = Some (match dx with Some d => d | None => 1 end * fold_right Rplus 0 (map2 (fun a b => (a + b) / 2) y (y0 :: y))).
Proof.
  unfold trapezoid. cbn [bind]. rewrite negzero_R. f_equal. change (add RO) with Rplus.
  rewrite fold_left_add_R, Rplus_0_l.
  pose proof (terms_const (match dx with Some d => d | None => 1 end) (y0 :: y)) as E. cbn [tl] in E.
  rewrite <- E. unfold terms. reflexivity.
Qed.

(** rejection *)
Lemma trapezoid_reject_lengths y x dx : length y <> length x -> trapezoid RO y (Some x) dx = None.
Proof. intros Hl. unfold trapezoid. apply Nat.eqb_neq in Hl. rewrite Hl. reflexivity. Qed.
Lemma trapezoid_reject_both y x d : trapezoid RO y (Some x) (Some d) = None.
Proof. unfold trapezoid. destruct (length y =? length x)%nat; reflexivity. Qed.
Lemma trapezoid_reject_empty dx : trapezoid RO [] None dx = None.
Proof. reflexivity. Qed.
