(** * C15 — constructors deliver their defining pattern (any carrier). *)
From Coq Require Import List Arith ZArith Bool Lia.
From Compute Require Import Base.Ops Base.ListMat Model.Shape Spec.Shape Proofs.C15Lists Proofs.C15 Proofs.C15Step.
Import ListNotations.

Lemma nth_repeat' : forall {A} (x : A) n k, nth k (repeat x n) x = x.
Proof. intros A x n. induction n as [|n IH]; intros [|k]; simpl; auto. Qed.

Section Ctors.
  Context {T : Type} (O : Ops T).
  Local Notation d := (zero O).

  Theorem zeros_def : forall r c, 0 < r -> 0 < c -> zeros O r c = Some (mkMat r c (repeat d (r * c))).
  Proof. intros. unfold zeros. apply new_exact; auto. apply repeat_length. Qed.
  Theorem ones_def : forall r c, 0 < r -> 0 < c -> ones O r c = Some (mkMat r c (repeat (one O) (r * c))).
  Proof. intros. unfold ones. apply new_exact; auto. apply repeat_length. Qed.
  (** a zero dimension is refused -- except 0 x 0 (repaired [reshape_mut]: [zeros(0, 0)] is the empty matrix; the
      original code refused it too, and this lemma said so) *)
  Theorem zeros_ones_reject : forall r c, r = 0 \/ c = 0 -> ~ (r = 0 /\ c = 0) ->
    zeros O r c = None /\ ones O r c = None.
  Proof. intros r c H Hn. unfold zeros, ones. split; apply new_zero; auto; tauto. Qed.
  Theorem zeros_ones_empty : zeros O 0 0 = Some (mkMat 0 0 []) /\ ones O 0 0 = Some (mkMat 0 0 []).
  Proof. split; reflexivity. Qed.

  (** diagonal positions *)
  Lemma exists_diag_pos : forall n i j, i < n -> j < n ->
    existsb (fun p => p * n + p =? i * n + j) (seq 0 n) = (i =? j).
  Proof.
    intros n i j Hi Hj. destruct (Nat.eqb_spec i j) as [->|Ne].
    - apply existsb_exists. exists j. split; [apply in_seq; lia|apply Nat.eqb_refl].
    - destruct (existsb _ _) eqn:E; [|reflexivity]. apply existsb_exists in E. destruct E as (p & Hp & E).
      apply in_seq in Hp. apply Nat.eqb_eq in E. apply flat_index_inj in E; lia.
  Qed.

  Theorem eye_def : forall n, 0 < n ->
    exists a, eye O n = Some (mkMat n n a) /\ length a = n * n /\
              forall i j, i < n -> j < n -> nth (i * n + j) a d = if i =? j then one O else d.
  Proof.
    intros n Hn. unfold eye. rewrite zeros_def by auto. cbn [bind nrows ncols data].
    eexists. split; [reflexivity|]. split.
    - now rewrite (length_fold_upd (fun i => i * n + i) (fun _ => one O)), repeat_length.
    - intros i j Hi Hj.
      rewrite (nth_fold_upd (fun i => i * n + i) (fun _ => one O) (fun _ => one O)) by auto.
      rewrite exists_diag_pos, repeat_length by auto.
      pose proof (flat_lt n n i j Hi Hj) as B. apply Nat.ltb_lt in B. rewrite B, andb_true_r.
      destruct (i =? j); auto. apply nth_repeat'.
  Qed.

  (** [eye(0)] is the empty matrix (the original code panicked in [zeros(0, 0)]) *)
  Theorem eye_zero : eye O 0 = Some (mkMat 0 0 []).
  Proof. reflexivity. Qed.

  Theorem diag_matrix_def : forall a, let n := length a in
    length (diag_matrix O a) = n * n /\
    forall i j, i < n -> j < n -> nth (i * n + j) (diag_matrix O a) d = if i =? j then nth i a d else d.
  Proof.
    intros a n. unfold diag_matrix. fold n. split.
    - now rewrite (length_fold_upd (fun i => i * n + i) (fun i => nth i a d)), repeat_length.
    - intros i j Hi Hj.
      rewrite (nth_fold_upd (fun i => i * n + i) (fun i => nth i a d) (fun k => nth (k / n) a d)).
      + rewrite exists_diag_pos, repeat_length by auto.
        pose proof (flat_lt n n i j Hi Hj) as B. apply Nat.ltb_lt in B. rewrite B, andb_true_r.
        destruct (Nat.eqb_spec i j) as [->|]; [now rewrite flat_div|apply nth_repeat'].
      + intros p Hp. apply in_seq in Hp. rewrite flat_div by lia. reflexivity.
  Qed.

  Theorem toeplitz_def : forall x, let n := length x in
    length (toeplitz O x) = n * n /\
    forall i j, i < n -> j < n -> nth (i * n + j) (toeplitz O x) d = nth (absdiff i j) x d.
  Proof.
    intros x n. unfold toeplitz. fold n.
    rewrite (fold_left_ext _ (fun v (p : nat * nat) => upd v (fst p * n + snd p) (nth (absdiff (fst p) (snd p)) x d)))
      by (intros v [i j]; reflexivity).
    rewrite (fold_upd_is O (fun p : nat * nat => fst p * n + snd p) (fun p => nth (absdiff (fst p) (snd p)) x d)
                         (fun k => nth (absdiff (k / n) (k mod n)) x d)).
    - rewrite repeat_length. split; [now rewrite map_length, seq_length|].
      intros i j Hi Hj. rewrite nth_map_seq by (apply flat_lt; auto). now rewrite flat_div, flat_mod.
    - intros [i j] Hp. apply in_prod_iff in Hp. destruct Hp as [Hi Hj]. apply in_seq in Hi, Hj. cbn [fst snd].
      rewrite flat_div, flat_mod by lia. reflexivity.
    - intros k Hk. rewrite repeat_length in Hk. assert (0 < n) by (destruct n; simpl in *; lia).
      exists (k / n, k mod n). split.
      + apply in_prod_iff. split; apply in_seq; split; try lia.
        * cbn. apply Nat.div_lt_upper_bound; nia.
        * cbn. apply Nat.mod_upper_bound. lia.
      + cbn [fst snd]. rewrite (Nat.div_mod k n) at 3 by lia. lia.
  Qed.

  Lemma flat_map_as_seq : forall {B} (f : T -> list B) (x : list T),
    flat_map f x = flat_map (fun i => f (nth i x d)) (seq 0 (length x)).
  Proof.
    intros B f x. rewrite !flat_map_concat_map. f_equal.
    apply (nth_ext _ _ [] []).
    - now rewrite !map_length, seq_length.
    - intros i Hi. rewrite map_length in Hi. rewrite (nth_map' f x i d []) by auto. now rewrite nth_map_seq.
  Qed.

  Theorem vandermonde_def : forall x n,
    length (vandermonde O x n) = length x * n /\
    forall i j, i < length x -> j < n -> nth (i * n + j) (vandermonde O x n) d = powi O (nth i x d) (Z.of_nat j).
  Proof.
    intros x n. unfold vandermonde. rewrite flat_map_as_seq. split.
    - rewrite (length_flat_map_const _ _ n), seq_length; auto. intros. now rewrite map_length, seq_length.
    - intros i j Hi Hj. rewrite (nth_flat_map_const O) by (auto; intros; now rewrite map_length, seq_length).
      now rewrite nth_map_seq.
  Qed.

  Theorem design_def : forall x rows k, 0 < rows -> length x = rows * k ->
    exists out, design O x rows = Some out /\ length out = rows * (k + 1) /\
      forall i, i < rows -> nth (i * (k + 1)) out d = one O /\
                forall j, j < k -> nth (i * (k + 1) + 1 + j) out d = nth (i * k + j) x d.
  Proof.
    intros x rows k Hr L. unfold design. rewrite (is_matrix_inv _ _ k) by auto. cbn [bind].
    eexists. split; [reflexivity|].
    assert (LP : forall i, i < rows -> length (one O :: row_of x k i) = k + 1).
    { intros. simpl. rewrite length_row_of by nia. lia. }
    split.
    - rewrite (length_flat_map_const _ _ (k + 1)), seq_length; auto. intros i Hi. apply in_seq in Hi. apply LP. lia.
    - intros i Hi. split.
      + replace (i * (k + 1)) with (i * (k + 1) + 0) by lia. rewrite (nth_flat_map_const O) by (auto; lia). reflexivity.
      + intros j Hj. replace (i * (k + 1) + 1 + j) with (i * (k + 1) + S j) by lia.
        rewrite (nth_flat_map_const O) by (auto; lia). cbn [nth]. now apply nth_row_of.
  Qed.

  Theorem design_rejects : forall x rows, is_matrix (length x) rows = None -> design O x rows = None.
  Proof. intros x rows H. unfold design. now rewrite H. Qed.

  (** clockwise = counter-clockwise transposed, entry by entry, for every carrier *)
  Theorem rotation_cw_ccw_transposed : forall axis angle i j, i < 3 -> j < 3 ->
    nth (i * 3 + j) (rot_data O true axis angle) d = nth (j * 3 + i) (rot_data O false axis angle) d.
  Proof.
    intros axis angle i j Hi Hj. unfold rot_data.
    destruct axis as [|[|axis]];
    destruct i as [|[|[|i]]]; try lia; destruct j as [|[|[|j]]]; try lia; reflexivity.
  Qed.

  Theorem rotation_shape : forall cw axis angle,
    rotation O cw axis angle = Some (mkMat 3 3 (rot_data O cw axis angle)).
  Proof.
    intros. unfold rotation. change 3%Z with (Z.of_nat 3). apply new_exact; try lia.
    unfold rot_data. destruct cw, axis as [|[|axis]]; reflexivity.
  Qed.
End Ctors.
