(** Proofs for C04, part 11 (extension): ONE binary64 bound for [dot] that contains both the
    theorem with the no-underflow hypothesis and the general one: the absolute term charges 2^-1075 only to the products
    that DO underflow,
        | dot x y - Sigma x_i y_i |  <=  ((1+u)^(n+1) - 1) * Sigma |x_i y_i|  +  (Sigma_i cost(x_i y_i)) * (1+u)^n ,
    cost r = 0 when r = 0 or |r| >= 2^-1022, and 2^-1075 otherwise. *)
From Coq Require Import List Arith Bool ZArith Reals Lra Lia Floats.
From Flocq Require Import Core Relative Plus_error BinarySingleNaN PrimFloat.
From Compute Require Import Base.Ops Base.ListMat Model.Reduce Spec.Vops
  Proofs.C04Red Proofs.C04Err Proofs.C04ErrF Proofs.C04ErrDot Proofs.C04ErrNP Proofs.C04ErrGen.
Import ListNotations.
Local Open Scope R_scope.

(** ** standard model: every term carries one relative error [u] and an absolute error [cost] that depends on the term *)
Section PerturbedCost.
  Variable u : R.
  Hypothesis Hu : 0 <= u.
  Variable cost : R -> R.
  Variable F : R -> Prop.
  Variable rnd : R -> R.
  Hypothesis F0 : F 0.
  Hypothesis Hrnd : forall a b, F a -> F b ->
    F (rnd (a + b)) /\ Rabs (rnd (a + b) - (a + b)) <= u * Rabs (a + b).

  Lemma perturbed_terms_cost (c c' : list R) :
    Forall2 (fun a a' => Rabs (a' - a) <= u * Rabs a + cost a) c c' ->
    length c' = length c /\
    Rabs (Rsum c' - Rsum c) <= u * Asum c + Rsum (map cost c) /\
    Asum c' <= (1 + u) * Asum c + Rsum (map cost c).
  Proof.
    induction 1 as [|a a' c c' Ha _ IH].
    - unfold Asum. cbn. rewrite Rminus_0_r, Rabs_R0. repeat split; lra.
    - destruct IH as (Hl & Hs & Ha'). cbn [map]. rewrite !Rsum_cons, !Asum_cons. cbn [length]. split; [lia|]. split.
      + replace (a' + Rsum c' - (a + Rsum c)) with ((a' - a) + (Rsum c' - Rsum c)) by ring.
        eapply Rle_trans; [apply Rabs_triang|]. lra.
      + assert (Rabs a' <= Rabs a + Rabs (a' - a)).
        { replace a' with (a + (a' - a)) at 1 by ring. apply Rabs_triang. }
        lra.
  Qed.

  Lemma scheme_error_perturbed_cost (S : list R -> R) (c c' : list R) :
    Rabs (S c' - Rsum c') <= ((1 + u) ^ length c' - 1) * Asum c' ->
    Forall2 (fun a a' => Rabs (a' - a) <= u * Rabs a + cost a) c c' ->
    Rabs (S c' - Rsum c)
    <= ((1 + u) ^ Datatypes.S (length c) - 1) * Asum c + Rsum (map cost c) * (1 + u) ^ length c.
  Proof.
    intros He Hp. destruct (perturbed_terms_cost c c' Hp) as (Hl & Hs & Ha).
    rewrite Hl in He.
    set (e := (1 + u) ^ length c - 1) in *.
    assert (He0 : 0 <= e) by (apply (E_nonneg u Hu)).
    replace ((1 + u) ^ Datatypes.S (length c) - 1) with ((1 + u) * e + u) by (unfold e; simpl; ring).
    replace ((1 + u) ^ length c) with (e + 1) by (unfold e; ring).
    replace (S c' - Rsum c) with ((S c' - Rsum c') + (Rsum c' - Rsum c)) by ring.
    eapply Rle_trans; [apply Rabs_triang|].
    assert (e * Asum c' <= e * ((1 + u) * Asum c + Rsum (map cost c))) by (apply Rmult_le_compat_l; assumption).
    lra.
  Qed.

  Theorem sum_error_perturbed_cost (c c' : list R) :
    Forall F c' -> Forall2 (fun a a' => Rabs (a' - a) <= u * Rabs a + cost a) c c' ->
    Rabs (Reduce.sum (RndO rnd) c' - Rsum c)
    <= ((1 + u) ^ S (length c) - 1) * Rsum (map Rabs c) + Rsum (map cost c) * (1 + u) ^ length c.
  Proof.
    intros Fc Hp. apply (scheme_error_perturbed_cost (Reduce.sum (RndO rnd))); [|exact Hp].
    apply (sum_error u Hu F rnd F0 Hrnd c' Fc).
  Qed.

End PerturbedCost.

(** ** binary64: what one product costs *)
Definition underflow_cost (r : R) : R :=
  if Req_EM_T r 0 then 0 else if Rle_dec (/ 2 ^ 1022) (Rabs r) then 0 else / 2 ^ 1075.

Lemma underflow_cost_spec (r : R) :
  ((r = 0 \/ / 2 ^ 1022 <= Rabs r) -> underflow_cost r = 0) /\
  (~ (r = 0 \/ / 2 ^ 1022 <= Rabs r) -> underflow_cost r = / 2 ^ 1075).
Proof.
  unfold underflow_cost. destruct (Req_EM_T r 0) as [H0|H0]; [split; [reflexivity|intros H; exfalso; apply H; left; exact H0]|].
  destruct (Rle_dec (/ 2 ^ 1022) (Rabs r)) as [H1|H1]; [split; [reflexivity|intros H; exfalso; apply H; right; exact H1]|].
  split; [intros [H|H]; contradiction|reflexivity].
Qed.

Lemma underflow_cost_bounds (r : R) : 0 <= underflow_cost r <= / 2 ^ 1075.
Proof.
  pose proof eta64_nonneg as H. rewrite eta64_val in H.
  unfold underflow_cost. destruct (Req_EM_T r 0); [lra|]. destruct (Rle_dec _ _); lra.
Qed.

Lemma rnd64_cost (r : R) : Rabs (rnd64 r - r) <= u64 * Rabs r + underflow_cost r.
Proof.
  destruct (underflow_cost_spec r) as [H0 H1].
  destruct (Req_EM_T r 0) as [Hz|Hz].
  - rewrite H0 by (left; exact Hz). pose proof (rnd64_rel r (or_introl Hz)). lra.
  - destruct (Rle_dec (/ 2 ^ 1022) (Rabs r)) as [Hn|Hn].
    + rewrite H0 by (right; exact Hn). rewrite <- tiny_val in Hn. pose proof (rnd64_rel r (or_intror Hn)). lra.
    + rewrite H1 by (intros [H|H]; contradiction). rewrite <- eta64_val. apply rnd64_gen.
Qed.

Lemma Rsum_cost_le (c : list R) : Rsum (map underflow_cost c) <= INR (length c) * / 2 ^ 1075.
Proof.
  induction c as [|a c IH]; [cbn; lra|]. cbn [map]. rewrite Rsum_cons.
  change (length (a :: c)) with (S (length c)). rewrite S_INR. pose proof (underflow_cost_bounds a). lra.
Qed.

Lemma Rsum_cost_zero (c : list R) :
  Forall (fun r => r = 0 \/ / 2 ^ 1022 <= Rabs r) c -> Rsum (map underflow_cost c) = 0.
Proof.
  induction 1 as [|a c Ha _ IH]; [reflexivity|]. cbn [map]. rewrite Rsum_cons, IH.
  rewrite (proj1 (underflow_cost_spec a) Ha). ring.
Qed.

Lemma products_rounded_cost (tbl : libm_table) : forall (x y : list pfloat),
  Forall finite (map2 (mul (FO tbl)) x y) ->
  Forall2 (fun a a' => Rabs (a' - a) <= u64 * Rabs a + underflow_cost a)
          (map2 Rmult (map B2Rf x) (map B2Rf y)) (map B2Rf (map2 (mul (FO tbl)) x y)).
Proof.
  induction x as [|a x IH]; intros [|b y] Hall; cbn [map2 map] in *; try constructor.
  - inversion Hall as [|? ? Hab _]; subst. cbn [mul FO] in *.
    destruct (fmul_finite a b Hab) as (_ & _ & ->). apply rnd64_cost.
  - apply IH. inversion Hall; assumption.
Qed.

Theorem dot_F_error_counted (tbl : libm_table) (x y : list pfloat) (d : pfloat) :
  Reduce.dot (FO tbl) x y = Some d ->
  finite d ->
  Rabs (B2Rf d - Rdot (map B2Rf x) (map B2Rf y))
  <= ((1 + / 2 ^ 53) ^ S (length x) - 1) * Rsum (map Rabs (map2 Rmult (map B2Rf x) (map B2Rf y)))
     + Rsum (map underflow_cost (map2 Rmult (map B2Rf x) (map B2Rf y))) * (1 + / 2 ^ 53) ^ length x.
Proof.
  unfold Reduce.dot. destruct (Nat.eqb_spec (length x) (length y)) as [Hl|Hl]; [|discriminate].
  intros Hd Hfin. injection Hd as <-. rewrite dot_raw_sum in * by exact Hl.
  set (p' := map2 (mul (FO tbl)) x y) in *.
  set (c := map2 Rmult (map B2Rf x) (map B2Rf y)).
  assert (Hall : Forall finite p').
  { apply (sum_all (FO tbl) finite); [|exact Hfin]. intros a b Hab. cbn [add FO] in Hab.
    destruct (fadd_finite a b Hab) as (Ha & Hb & _). auto. }
  rewrite sum_F_sim by exact Hfin. unfold Rdot. fold c.
  assert (Hlc : length c = length x).
  { unfold c. rewrite map2_length; rewrite !map_length; auto. }
  rewrite <- Hlc, <- u64_val.
  apply (sum_error_perturbed_cost u64 u64_nonneg underflow_cost F64 rnd64 F64_0 rnd64_model).
  - apply Forall_forall. intros r Hr. apply in_map_iff in Hr. destruct Hr as (f & <- & _). apply F64_B2Rf.
  - apply products_rounded_cost. exact Hall.
Qed.
