(** * Tie A for C11, Cholesky: [try_cholesky], [cholesky], [cholesky_solve] of src/linalg/decomposition/cholesky.rs
    (text: [Generated/linalg_loops.v]) against [Model/Cholesky.v].
    The source fills ONE zero-initialised flat vector [l] of [n * n] cells in place, row by row, reading the slices
    [&l[(j*n)..(j*n+j)]] and [&l[(i*n)..(i*n+j)]] of the very vector it is writing, and leaves through [return None] from
    inside the two nested loops when a pivot is not positive.  The model builds a list of finished rows plus the prefix of
    the current row.  Invariant: [l = flatten L ++ r ++ zeros].  Every carrier, every input; no law of the carrier. *)
From Coq Require Import List ZArith Arith Bool Lia.
From Compute Require Import Base.Ops Base.ListMat Base.RsExpr Base.RsExprMut Model.Reduce Model.MatMul Model.Subst Model.Cholesky
  Generated.linalg_loops Proofs.RsExprLemmas Proofs.C15Lists Proofs.TieA_linalg_loops.
Import ListNotations.

Lemma rs_range_excl_0 : forall n : nat, rs_range_excl 0 (Z.of_nat n) = rs_seq 0 n.
Proof. intro n. unfold rs_range_excl. f_equal. lia. Qed.

(** ** a flat vector that starts with finished rows *)
Definition rows_n {A} (n : nat) (L : list (list A)) : Prop := Forall (fun r => length r = n) L.

Lemma rows_n_app : forall {A} n (L : list (list A)) r, rows_n n L -> length r = n -> rows_n n (L ++ [r]).
Proof. intros A n L r HL Hr. apply Forall_app. split; [exact HL|]. now constructor. Qed.

Lemma rows_n_nth : forall {A} n (L : list (list A)) j, rows_n n L -> j < length L -> length (nth j L []) = n.
Proof. intros A n L j HL Hj. unfold rows_n in HL. rewrite Forall_forall in HL. apply HL. now apply nth_In. Qed.

Lemma concat_rows_n_length : forall {A} n (L : list (list A)), rows_n n L -> length (concat L) = length L * n.
Proof.
  intros A n L HL. induction HL as [|r L Hr HL IH]; [reflexivity|]. cbn [concat length]. rewrite app_length, IH, Hr. lia.
Qed.

Lemma skipn_concat_row : forall {A} n (L : list (list A)) (rest : list A) j, rows_n n L -> j < length L ->
  skipn (j * n) (concat L ++ rest) = nth j L [] ++ (concat (skipn (S j) L) ++ rest).
Proof.
  intros A n L rest j HL. revert j. induction HL as [|r L Hr HL IH]; intros j Hj; [cbn in Hj; lia|].
  destruct j as [|j].
  - cbn [Nat.mul skipn nth concat]. now rewrite <- app_assoc.
  - cbn [concat nth]. rewrite <- app_assoc. replace (S j * n) with (length r + j * n) by (cbn; lia).
    rewrite C15Lists.skipn_add. rewrite skipn_app, skipn_all, Nat.sub_diag. cbn [app skipn]. apply IH. cbn in Hj. lia.
Qed.

Lemma firstn_concat_row : forall {A} n (L : list (list A)) (rest : list A) j k, rows_n n L -> j < length L -> k <= n ->
  firstn k (skipn (j * n) (concat L ++ rest)) = firstn k (nth j L []).
Proof.
  intros A n L rest j k HL Hj Hk. rewrite (skipn_concat_row n) by assumption. rewrite firstn_app.
  replace (k - length (nth j L [])) with 0 by (rewrite (rows_n_nth n) by assumption; lia). cbn [firstn]. apply app_nil_r.
Qed.

Lemma nth_concat_row : forall {A} n (L : list (list A)) (rest : list A) j k d, rows_n n L -> j < length L -> k < n ->
  nth (j * n + k) (concat L ++ rest) d = nth k (nth j L []) d.
Proof.
  intros A n L rest j k d HL Hj Hk. rewrite <- nth_skipn'. rewrite (skipn_concat_row n) by assumption.
  apply app_nth1. rewrite (rows_n_nth n) by assumption. exact Hk.
Qed.

Lemma skipn_concat_all : forall {A} n (L : list (list A)) (rest : list A), rows_n n L ->
  skipn (length L * n) (concat L ++ rest) = rest.
Proof.
  intros A n L rest HL. rewrite skipn_app, (concat_rows_n_length n) by assumption. rewrite Nat.sub_diag.
  rewrite skipn_all2 by (rewrite (concat_rows_n_length n) by assumption; lia). reflexivity.
Qed.

Section Chol.
  Context {T : Type} (O : Ops T).
  Local Notation z := (zero O).

  Lemma try_chol_step_none : forall A L n i l, fold_left (try_chol_step O false A L n i) l None = None.
  Proof. intros A L n i l. induction l as [|j l IH]; [reflexivity|]. cbn [fold_left]. exact IH. Qed.

  Lemma try_chol_step_length : forall A L n i h j r r',
    fold_left (try_chol_step O false A L n i) (seq j h) (Some r) = Some r' -> length r' = length r + h.
  Proof.
    intros A L n i h. induction h as [|h IH]; intros j r r' H; cbn [seq fold_left] in H.
    - injection H as <-. lia.
    - unfold try_chol_step at 2 in H. cbn [bind] in H.
      destruct (j =? i).
      + destruct (ltb O z (chol_pivot O false A n i r)); [|now rewrite try_chol_step_none in H].
        apply IH in H. rewrite app_length in H. cbn [length] in H. lia.
      + apply IH in H. rewrite app_length in H. cbn [length] in H. lia.
  Qed.

  (** the body of the inner loop (entry (i, j) of the factor), as generated *)
  Definition chol_body (a : list T) (n : Z) (i : Z) (l : list T) (j : Z) : rs_flow (list T) (option (list T)) :=
    match rs_slice l (Z.mul j n) (Z.add (Z.mul j n) j) with
    | Some sl4 =>
      match rs_slice l (Z.mul i n) (Z.add (Z.mul i n) j) with
      | Some sl5 =>
        match dot O sl4 sl5 with
        | Some r6 =>
          let s := r6 in
          if Z.eqb i j then
            match rs_get a (Z.add (Z.mul i n) i) with
            | Some g7 => let d := sub O g7 s in
                         if negb (ltb O z d) then rs_return None
                         else match rs_set l (Z.add (Z.mul i n) j) (sqrt O d) with
                              | Some l8 => let l := l8 in rs_next l | None => rs_panic end
            | None => rs_panic end
          else
            match rs_get a (Z.add (Z.mul i n) j) with
            | Some g9 =>
              match rs_get l (Z.add (Z.mul j n) j) with
              | Some g10 =>
                match rs_set l (Z.add (Z.mul i n) j) (div O (sub O g9 s) g10) with
                | Some l11 => let l := l11 in rs_next l | None => rs_panic end
              | None => rs_panic end
            | None => rs_panic end
        | None => rs_panic end
      | None => rs_panic end
    | None => rs_panic end.

  (** one row: columns [j .. j+h) of row [i] *)
  Lemma chol_row_src : forall (a : list T) (n i : nat) (L : list (list T)),
    n * n = length a -> i < n -> length L = i -> rows_n n L ->
    forall (h j : nat) (r : list T), length r = j -> j + h = S i ->
    rs_loop (chol_body a (Z.of_nat n) (Z.of_nat i)) (rs_seq (Z.of_nat j) h) (concat L ++ r ++ repeat z (n * n - i * n - j))
    = match fold_left (try_chol_step O false (unflatten a n n) L n i) (seq j h) (Some r) with
      | Some r' => rs_next (concat L ++ r' ++ repeat z (n * n - i * n - S i))
      | None => rs_return None
      end.
  Proof.
    intros a n i L Ha Hi HL HR. induction h as [|h IH]; intros j r Hr Hj.
    - cbn [rs_seq rs_loop seq fold_left]. replace j with (S i) by lia. reflexivity.
    - cbn [rs_seq rs_loop seq fold_left].
      assert (Hji : j <= i) by lia.
      assert (Hlen : length (concat L) = i * n) by (rewrite (concat_rows_n_length n) by exact HR; now rewrite HL).
      set (rest := repeat z (n * n - i * n - j)).
      assert (Hrest : exists rest', rest = z :: rest' /\ rest' = repeat z (n * n - i * n - S j)).
      { unfold rest. replace (n * n - i * n - j) with (S (n * n - i * n - S j)) by nia. cbn [repeat]. eauto. }
      destruct Hrest as (rest' & Erest & Erest').
      assert (Htot : length (concat L ++ r ++ rest) = n * n).
      { rewrite !app_length, Hlen, Hr. unfold rest. rewrite repeat_length. nia. }
      (* the two slices *)
      unfold chol_body at 1. znat.
      rewrite rs_slice_nat by (rewrite ?Htot; nia). replace (j * n + j - j * n) with j by lia.
      rewrite rs_slice_nat by (rewrite ?Htot; nia). replace (i * n + j - i * n) with j by lia.
      assert (Erow : firstn j (skipn (i * n) (concat L ++ r ++ rest)) = r).
      { rewrite <- HL. rewrite (skipn_concat_all n) by exact HR. rewrite <- Hr. apply firstn_app_exact. }
      rewrite Erow.
      assert (Ecol : firstn j (skipn (j * n) (concat L ++ r ++ rest))
                     = firstn j (if j =? i then r else nth j L [])).
      { destruct (Nat.eqb_spec j i) as [E|E].
        - replace (j * n) with (i * n) by (now rewrite E). rewrite Erow. rewrite <- Hr. now rewrite firstn_all.
        - apply (firstn_concat_row n); [exact HR | lia | lia]. }
      rewrite Ecol.
      assert (Hcol : length (firstn j (if j =? i then r else nth j L [])) = j).
      { rewrite firstn_length. destruct (Nat.eqb_spec j i) as [E|E]; [lia|].
        rewrite (rows_n_nth n) by (try exact HR; lia). lia. }
      rewrite dot_same_len by (rewrite Hcol; lia).
      cbv zeta. rewrite Zeqb_of_nat. rewrite (Nat.eqb_sym i j).
      unfold try_chol_step at 2. cbn [bind].
      destruct (Nat.eqb_spec j i) as [->|E].
      + (* the pivot *)
        znat. rewrite (rs_get_some a (i * n + i) z) by nia.
        unfold chol_pivot. rewrite ent_unflatten by lia.
        destruct (ltb O z (sub O (nth (i * n + i) a z) (dot_raw O (firstn i r) r))) eqn:Ed; cbn [negb].
        * rewrite Erest. rewrite (app_assoc (concat L) r (z :: rest')).
          rewrite (rs_set_mid' (concat L ++ r) rest' z _ (i * n + i)) by (rewrite app_length; lia). rewrite <- app_assoc.
          specialize (IH (S i) (r ++ [sqrt O (sub O (nth (i * n + i) a z) (dot_raw O (firstn i r) r))])).
          rewrite Zadd1_nat. rewrite <- app_assoc in IH. cbn [app] in IH. rewrite Erest'.
          apply IH; [rewrite app_length; cbn [length]; lia | lia].
        * now rewrite try_chol_step_none.
      + (* below the diagonal *)
        znat. rewrite (rs_get_some a (i * n + j) z) by nia.
        assert (Hjj : nth (j * n + j) (concat L ++ r ++ rest) z = nth j (nth j L []) z)
          by (apply (nth_concat_row n); [exact HR | lia | lia]).
        rewrite (rs_get_some (concat L ++ r ++ rest) (j * n + j) z) by (rewrite Htot; nia). rewrite Hjj.
        rewrite Erest. rewrite (app_assoc (concat L) r (z :: rest')).
        rewrite (rs_set_mid' (concat L ++ r) rest' z _ (i * n + j)) by (rewrite app_length; lia). rewrite <- app_assoc.
        unfold chol_entry. apply Nat.eqb_neq in E. rewrite E. rewrite ent_unflatten by lia.
        match goal with |- rs_loop _ _ (concat L ++ r ++ ?v :: rest') = _ => specialize (IH (S j) (r ++ [v])) end.
        rewrite Zadd1_nat. rewrite <- app_assoc in IH. cbn [app] in IH. rewrite Erest'.
        apply IH; [rewrite app_length; cbn [length]; lia | lia].
  Qed.

  (** the body of the outer loop, as generated *)
  Definition chol_outer (a : list T) (n : Z) (l : list T) (i : Z) : rs_flow (list T) (option (list T)) :=
    match rs_loop (chol_body a n i) (rs_range_excl 0%Z (Z.add i 1%Z)) l with
    | rs_next l | rs_break l => rs_next l
    | rs_return r12 => rs_return r12
    | rs_panic => rs_panic
    end.

  Lemma try_chol_rows_none : forall A n l, fold_left (try_chol_rows_step O false A n) l None = None.
  Proof. intros A n l. induction l as [|j l IH]; [reflexivity|]. cbn [fold_left]. exact IH. Qed.

  Lemma chol_rows_src : forall (a : list T) (n : nat), n * n = length a ->
    forall (h i : nat) (L : list (list T)), length L = i -> rows_n n L -> i + h = n ->
    rs_loop (chol_outer a (Z.of_nat n)) (rs_seq (Z.of_nat i) h) (concat L ++ repeat z (n * n - i * n))
    = match fold_left (try_chol_rows_step O false (unflatten a n n) n) (seq i h) (Some L) with
      | Some L' => rs_next (concat L')
      | None => rs_return None
      end.
  Proof.
    intros a n Ha. induction h as [|h IH]; intros i L HL HR Hn.
    - cbn [rs_seq rs_loop seq fold_left]. replace (n * n - i * n) with 0 by nia. cbn [repeat]. now rewrite app_nil_r.
    - cbn [rs_seq rs_loop seq fold_left]. unfold chol_outer at 1.
      rewrite Zadd1_nat. change 0%Z with (Z.of_nat 0). rewrite rs_range_excl_nat, Nat.sub_0_r.
      pose proof (chol_row_src a n i L Ha ltac:(lia) HL HR (S i) 0 [] eq_refl ltac:(lia)) as Hrow.
      cbn [app] in Hrow. rewrite Nat.sub_0_r in Hrow. rewrite Hrow. clear Hrow.
      unfold try_chol_rows_step at 2. cbn [bind]. unfold try_chol_row.
      destruct (fold_left (try_chol_step O false (unflatten a n n) L n i) (seq 0 (S i)) (Some [])) as [r'|] eqn:Er.
      + cbn [bind]. apply try_chol_step_length in Er. cbn [length] in Er.
        specialize (IH (S i) (L ++ [pad O n r'])).
        replace (concat L ++ r' ++ repeat z (n * n - i * n - S i))
          with (concat (L ++ [pad O n r']) ++ repeat z (n * n - S i * n)).
        * apply IH; [rewrite app_length; cbn [length]; lia | | lia].
          apply rows_n_app; [exact HR|]. unfold pad. rewrite app_length, repeat_length. lia.
        * rewrite concat_app. cbn [concat]. rewrite app_nil_r. unfold pad. rewrite <- !app_assoc. do 2 f_equal.
          rewrite <- repeat_app. f_equal. rewrite Er. nia.
      + cbn [bind]. now rewrite try_chol_rows_none.
  Qed.

  (** [a] fits the address space: [vec![0.; n * n]] passes the allocation's capacity check *)
  Theorem tiea_try_cholesky : forall (a : list T), (Z.of_nat (length a) <= 1152921504606846975)%Z ->
    src_try_cholesky O is_square_z (dot O) a = try_cholesky O a.
  Proof.
    intros a Hcap. unfold src_try_cholesky, try_cholesky. rewrite tiea_is_symmetric. unfold is_symmetric, is_square_z.
    destruct (is_square (length a)) as [n|] eqn:Es; [|reflexivity]. cbn [option_map bind]. cbv zeta.
    apply is_square_some in Es.
    destruct (is_symmetric_rows O (unflatten a n n) n); cbn [guard bind]; [|reflexivity].
    znat. rewrite rs_vec_alloc_nat by (rewrite Es; exact Hcap). cbn [bind].
    rewrite rs_range_excl_0.
    pose proof (chol_rows_src a n Es n 0 [] eq_refl ltac:(constructor) ltac:(lia)) as H.
    cbn [concat app Nat.mul Z.of_nat] in H. rewrite Nat.sub_0_r in H.
    unfold chol_outer, chol_body in H. cbv zeta in H. rewrite H.
    unfold try_chol_rows. destruct (fold_left _ (seq 0 n) (Some [])); reflexivity.
  Qed.

  Theorem tiea_cholesky : forall (a : list T), (Z.of_nat (length a) <= 1152921504606846975)%Z ->
    src_cholesky O is_square_z (dot O) a = cholesky O a.
  Proof.
    intros a Hcap. unfold src_cholesky, cholesky. rewrite tiea_try_cholesky by exact Hcap.
    destruct (try_cholesky O a) as [[l|]|]; reflexivity.
  Qed.

  Theorem tiea_cholesky_solve : forall (uninit : Z -> T) (l b : list T),
    src_cholesky_solve O is_square_z (dot O) uninit l b = cholesky_solve O l b.
  Proof.
    intros uninit l b. unfold src_cholesky_solve, cholesky_solve, is_square_z.
    destruct (is_square (length l)) as [n|] eqn:Es; [|reflexivity]. cbn [option_map bind]. cbv zeta.
    unfold rs_len. rewrite Zeqb_of_nat. destruct (length b =? n); cbn [guard bind]; [|reflexivity].
    fold (@is_square_z T). rewrite tiea_forward_substitution. destruct (forward_substitution O l b) as [y|]; [|reflexivity].
    cbn [bind]. rewrite tiea_transpose. destruct (transpose O l n) as [lt|]; [|reflexivity]. cbn [bind].
    rewrite tiea_backward_substitution. destruct (backward_substitution O lt y); reflexivity.
  Qed.
End Chol.
