(** Proofs for C07, part 3: polynomials — Horner = power sum, affine composition, linear functionals on
    polynomials are decided on monomials, and the closed-form integral is Coquelicot's [RInt]. *)
From Coq Require Import Reals List ZArith Lra Lia FunctionalExtensionality.
From Coquelicot Require Import Coquelicot.
From Compute Require Import Base.Ops Base.ListMat Model.Quad Spec.Quad Proofs.C07_base.
Import ListNotations.
Open Scope R_scope.

Lemma horner_cons c p x : horner RO (c :: p) x = horner RO p x * x + c.
Proof. reflexivity. Qed.
Lemma horner_nil x : horner RO [] x = 0.
Proof. reflexivity. Qed.

Lemma peval_from_shift i p x : peval_from (S i) p x = x * peval_from i p x.
Proof. revert i. induction p as [|c p IH]; intros i; cbn [peval_from]; [ring|]. rewrite IH. cbn [pow]. ring. Qed.
(** the model's integrand is the polynomial with these coefficients *)
Lemma horner_peval p x : horner RO p x = peval p x.
Proof.
  unfold peval. induction p as [|c p IH]; [reflexivity|].
  rewrite horner_cons, IH. cbn [peval_from]. rewrite peval_from_shift. cbn [pow]. ring.
Qed.

(** ** coefficient-wise operations *)
Lemma horner_padd p q x : horner RO (padd p q) x = horner RO p x + horner RO q x.
Proof.
  revert q. induction p as [|c p IH]; intros [|d q]; cbn [padd]; rewrite ?horner_cons, ?horner_nil; try ring.
  rewrite IH. ring.
Qed.
Lemma horner_pscale k p x : horner RO (pscale k p) x = k * horner RO p x.
Proof. induction p as [|c p IH]; cbn [pscale map]; rewrite ?horner_cons, ?horner_nil; [ring|]. fold (pscale k p). rewrite IH. ring. Qed.
Lemma horner_comp_aff p u v t : horner RO (comp_aff p u v) t = horner RO p (u + v * t).
Proof.
  induction p as [|c p IH]; [reflexivity|].
  cbn [comp_aff]. rewrite !horner_padd, horner_cons, !horner_pscale, horner_cons, horner_pscale, IH, horner_nil.
  rewrite (horner_cons c p). ring.
Qed.
Lemma padd_length p q : length (padd p q) = Nat.max (length p) (length q).
Proof. revert q. induction p as [|c p IH]; intros [|d q]; cbn [padd length]; try lia. rewrite IH. lia. Qed.
Lemma comp_aff_length p u v : length (comp_aff p u v) = length p.
Proof.
  induction p as [|c p IH]; [reflexivity|].
  cbn [comp_aff]. rewrite !padd_length. cbn [length]. unfold pscale. rewrite !map_length, IH. lia.
Qed.

(** ** a linear functional on integrands is decided, on polynomials, by its values on the monomials *)
Section LinFun.
  Variable L : (R -> R) -> R.
  Hypothesis L_lin : forall al be f g, L (fun x => al * f x + be * g x) = al * L f + be * L g.

  Fixpoint msum (i : nat) (p : list R) : R :=
    match p with
    | [] => 0
    | c :: p' => c * L (fun x => x ^ i) + msum (S i) p'
    end.
  Lemma L_zero : L (fun _ => 0) = 0.
  Proof.
    replace (fun _ : R => 0) with (fun x : R => 0 * 0 + 0 * 0) by (apply functional_extensionality; intros; ring).
    rewrite (L_lin 0 0 (fun _ => 0) (fun _ => 0)). ring.
  Qed.
  Lemma L_poly_from i p : L (fun x => x ^ i * horner RO p x) = msum i p.
  Proof.
    revert i. induction p as [|c p IH]; intros i.
    - cbn [msum]. rewrite <- L_zero. f_equal. apply functional_extensionality. intros x. rewrite horner_nil. ring.
    - cbn [msum]. rewrite <- IH, <- (Rmult_1_l (L (fun x => x ^ S i * horner RO p x))), <- L_lin.
      f_equal. apply functional_extensionality. intros x. rewrite horner_cons. cbn [pow]. ring.
  Qed.
  Lemma L_poly p : L (horner RO p) = msum 0 p.
  Proof.
    rewrite <- L_poly_from. f_equal. apply functional_extensionality. intros x. cbn [pow]. ring.
  Qed.
  (** two functionals that agree on the monomials below the length of [p] *)
  Lemma msum_bound i p (w : nat -> R) :
    (forall j, (i <= j < i + length p)%nat -> L (fun x => x ^ j) = w j) ->
    msum i p = fold_right Rplus 0 (map (fun cj => fst cj * w (snd cj)) (combine p (seq i (length p)))).
  Proof.
    revert i. induction p as [|c p IH]; intros i Hw; [reflexivity|].
    cbn [msum length seq combine map fold_right fst snd].
    rewrite Hw by (cbn [length]; lia). f_equal. apply IH. intros j Hj. apply Hw. cbn [length]. lia.
  Qed.
End LinFun.

(** Σ_j p_j w(i+j) *)
Definition wsum (w : nat -> R) (i : nat) (p : list R) : R :=
  fold_right Rplus 0 (map (fun cj => fst cj * w (snd cj)) (combine p (seq i (length p)))).
Lemma wsum_cons w i c p : wsum w i (c :: p) = c * w i + wsum w (S i) p.
Proof. reflexivity. Qed.

(** ** the closed form is the integral *)
Lemma is_RInt_monomial c i a b : is_RInt (fun x => c * x ^ i) a b (c * (b ^ S i - a ^ S i) / INR (S i)).
Proof.
  assert (Hn : INR (S i) <> 0) by (apply not_0_INR; lia).
  replace (c * (b ^ S i - a ^ S i) / INR (S i))
    with (minus ((fun x => c * x ^ S i / INR (S i)) b) ((fun x => c * x ^ S i / INR (S i)) a))
    by (unfold minus, plus, opp; cbn; field; exact Hn).
  apply (is_RInt_derive (fun x => c * x ^ S i / INR (S i)) (fun x => c * x ^ i)).
  - intros x _. auto_derive; [trivial|].
    change (match i with 0%nat => 1 | S _ => INR i + 1 end) with (INR (S i)). field. exact Hn.
  - intros x _. apply (ex_derive_continuous (fun x => c * x ^ i)). auto_derive. trivial.
Qed.
Lemma poly_int_from_is_RInt i p a b :
  is_RInt (fun x => x ^ i * horner RO p x) a b (poly_int_from i p a b).
Proof.
  revert i. induction p as [|c p IH]; intros i.
  - cbn [poly_int_from].
    replace 0 with (0 * (b ^ S i - a ^ S i) / INR (S i)) by (unfold Rdiv; ring).
    apply (is_RInt_ext (fun x => 0 * x ^ i)); [|apply is_RInt_monomial].
    intros x _. rewrite horner_nil, Rmult_0_r, Rmult_0_l. reflexivity.
  - cbn [poly_int_from].
    apply (is_RInt_ext (fun x => plus (c * x ^ i) (x ^ S i * horner RO p x))).
    + intros x _. rewrite horner_cons. unfold plus; cbn. ring.
    + apply (is_RInt_plus (fun x => c * x ^ i) (fun x => x ^ S i * horner RO p x)); [apply is_RInt_monomial|apply IH].
Qed.
Lemma poly_int_is_RInt p a b : is_RInt (horner RO p) a b (poly_int p a b).
Proof.
  apply (is_RInt_ext (fun x => x ^ 0 * horner RO p x)); [intros x _; cbn [pow]; apply Rmult_1_l|].
  apply poly_int_from_is_RInt.
Qed.
Lemma poly_int_RInt p a b : RInt (horner RO p) a b = poly_int p a b.
Proof. apply is_RInt_unique, poly_int_is_RInt. Qed.

(** on [0,1] and [-1,1] the closed form is the moment sum *)
Lemma poly_int_from_unit i p : poly_int_from i p 0 1 = wsum (fun j => / INR (S j)) i p.
Proof.
  revert i. induction p as [|c p IH]; intros i; [reflexivity|].
  rewrite wsum_cons. cbn [poly_int_from]. rewrite IH, pow1, pow_i by lia. unfold Rdiv. ring.
Qed.
Lemma poly_int_from_sym i p :
  poly_int_from i p (-1) 1 = wsum (fun j => (1 - (-1) ^ S j) / INR (S j)) i p.
Proof.
  revert i. induction p as [|c p IH]; intros i; [reflexivity|].
  rewrite wsum_cons. cbn [poly_int_from]. rewrite IH, pow1. unfold Rdiv. ring.
Qed.

(** change of variable x = u + v t, through Coquelicot *)
Lemma poly_int_subst p u v lo hi :
  v * poly_int (comp_aff p u v) lo hi = poly_int p (u + v * lo) (u + v * hi).
Proof.
  pose proof (poly_int_is_RInt p (v * lo + u) (v * hi + u)) as H1.
  apply (is_RInt_comp_lin (horner RO p) v u lo hi) in H1.
  pose proof (poly_int_is_RInt (comp_aff p u v) lo hi) as H2.
  apply (is_RInt_scal _ lo hi v) in H2.
  assert (H3 : is_RInt (fun y => scal v (horner RO p (v * y + u))) lo hi (scal v (poly_int (comp_aff p u v) lo hi))).
  { eapply is_RInt_ext; [|exact H2]. intros x _. cbn beta. rewrite horner_comp_aff. do 2 f_equal. ring. }
  pose proof (is_RInt_unique _ _ _ _ H1) as E1. pose proof (is_RInt_unique _ _ _ _ H3) as E3.
  assert (E : poly_int p (v * lo + u) (v * hi + u) = v * poly_int (comp_aff p u v) lo hi).
  { etransitivity; [symmetry; exact E1|]. exact E3. }
  rewrite <- E. f_equal; ring.
Qed.
