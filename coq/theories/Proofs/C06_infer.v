(** Proofs for C06, part 3: what [fit] stores; deviance, dispersion, standard-error, prediction, AIC/BIC formulas. *)
From Coq Require Import Reals List Arith ZArith Bool Lia Lra.
From Compute Require Import Base.Ops Base.ListMat Model.Reduce Model.MatMul Spec.MatMul Proofs.C05.
From Compute Require Import Generated.glm_families Model.GLM Spec.GLM Proofs.C06_base Proofs.C06.
Import ListNotations.
Local Open Scope R_scope.

(** ** what [fit] stores (any carrier) *)
Section FitInv.
  Context {T : Type} (O : Ops T) (solve : list T -> list T -> option (list T)).

  Definition weights_of (w : option (list T)) (n : nat) : list T :=
    match w with Some w => w | None => repeat (one O) n end.
  Definition initial_coef (y : list T) (p : nat) : list T :=
    div O (sum O y) (ofN O (length y)) :: repeat (zero O) (p - 1).

  Lemma fit_inv f alpha tol w off x y max_iter ft :
    fit O solve f alpha tol w off x y max_iter = Some ft ->
    exists p q,
      is_matrix (length x) (length y) = Some p /\
      is_design O x (length y) = Some true /\
      length (weights_of w (length y)) = length y /\
      fit_loop O solve f alpha tol x y (length y) p (weights_of w (length y)) off (max_iter - 1)
               (initial_coef y p) None = Some (f_ok ft, f_coef ft, q) /\
      weighted_deviance O f y (q_mu q) (weights_of w (length y)) = Some (f_dev ft) /\
      compute_ddbeta O x (q_dmu q) (q_var q) (weights_of w (length y)) = Some (f_info ft) /\
      f_p ft = p.
  Proof.
    unfold fit, fit_from.
    destruct (is_matrix (length x) (length y)) as [p|] eqn:Hp; [|discriminate]. cbn [bind].
    destruct (is_design O x (length y)) as [d|] eqn:Hd; [|discriminate]. cbn [bind].
    destruct d; [|discriminate]. cbn [guard bind].
    assert (W : (exists wts, match w with
                            | Some w0 => let* _ := guard (length w0 =? length y) in Some w0
                            | None => Some (repeat (one O) (length y))
                            end = Some wts /\ wts = weights_of w (length y) /\ length wts = length y)
                     \/ match w with
                        | Some w0 => let* _ := guard (length w0 =? length y) in Some w0
                        | None => Some (repeat (one O) (length y))
                        end = None).
    { destruct w as [w0|]; cbn [weights_of].
      - destruct (Nat.eqb_spec (length w0) (length y)); cbn [guard bind]; [left; eauto|right; auto].
      - left. eexists; split; [reflexivity|]. split; [reflexivity|apply repeat_length]. }
    destruct W as [(wts & -> & -> & Lw)| ->]; [|discriminate]. cbn [bind].
    fold (initial_coef y p).
    destruct (fit_loop O solve f alpha tol x y (length y) p (weights_of w (length y)) off (max_iter - 1) (initial_coef y p) None)
      as [[[cv c] q]|] eqn:Hl; [|discriminate]. cbn [bind].
    destruct (weighted_deviance O f y (q_mu q) (weights_of w (length y))) as [dv|] eqn:Hdv; [|discriminate]. cbn [bind].
    destruct (compute_ddbeta O x (q_dmu q) (q_var q) (weights_of w (length y))) as [info|] eqn:Hin; [|discriminate]. cbn [bind].
    intros [= <-]. cbn [f_ok f_coef f_dev f_info f_p]. exists p, q. repeat split; auto.
  Qed.
End FitInv.

(** Ok => the convergence criterion held between the last two iterations *)
Lemma fit_ok_implies_converged solve f alpha tol w off x y max_iter ft :
  fit RO solve f alpha tol w off x y max_iter = Some ft -> f_ok ft = true ->
  exists p k c lp pd' q,
    is_matrix (length x) (length y) = Some p /\ (k <= max_iter - 1)%nat /\
    run RO solve f alpha tol x y (length y) p (weights_of RO w (length y)) off k (initial_coef RO y p) None = Some (c, Some lp) /\
    step RO solve f alpha tol x y (length y) p (weights_of RO w (length y)) off c (Some lp) = Some (f_coef ft, pd', true, q) /\
    Rabs (pd' - lp) / lp < tol /\
    weighted_deviance RO f y (q_mu q) (weights_of RO w (length y)) = Some (f_dev ft).
Proof.
  intros H Hok. destruct (fit_inv RO solve f alpha tol w off x y max_iter ft H) as (p & q & Hp & _ & _ & Hl & Hd & _ & _).
  rewrite Hok in Hl. destruct (ok_implies_converged _ _ _ _ _ _ _ _ _ _ _ _ _ _ _ Hl) as (k & c & lp & pd' & Hk & Hr & Hs & L).
  exists p, k, c, lp, pd', q. repeat split; assumption.
Qed.

(** Err <=> the budget ran out with the criterion failing at every iteration; in particular a budget of
    0 or 1 iterations always returns Err *)
Lemma fit_err_iff_not_converged solve f alpha tol w off x y max_iter ft :
  fit RO solve f alpha tol w off x y max_iter = Some ft -> f_ok ft = false ->
  exists p c pd pd' q,
    is_matrix (length x) (length y) = Some p /\
    run RO solve f alpha tol x y (length y) p (weights_of RO w (length y)) off (max_iter - 1) (initial_coef RO y p) None = Some (c, pd) /\
    step RO solve f alpha tol x y (length y) p (weights_of RO w (length y)) off c pd = Some (f_coef ft, pd', false, q) /\
    (forall lp, pd = Some lp -> ~ Rabs (pd' - lp) / lp < tol).
Proof.
  intros H Hok. destruct (fit_inv RO solve f alpha tol w off x y max_iter ft H) as (p & q & Hp & _ & _ & Hl & Hd & _ & _).
  rewrite Hok in Hl. destruct (not_converged_is_err _ _ _ _ _ _ _ _ _ _ _ _ _ _ _ Hl) as (c & pd & pd' & Hr & Hs & L & _).
  exists p, c, pd, pd', q. repeat split; assumption.
Qed.

Lemma fit_small_budget_is_err {T} (O : Ops T) solve f alpha tol w off x y max_iter ft :
  (max_iter <= 1)%nat -> fit O solve f alpha tol w off x y max_iter = Some ft -> f_ok ft = false.
Proof.
  intros Hm H. destruct (fit_inv O solve f alpha tol w off x y max_iter ft H) as (p & q & _ & _ & _ & Hl & _).
  replace (max_iter - 1)%nat with 0%nat in Hl by lia.
  exact (first_iteration_not_converged O solve f alpha tol x y (length y) p _ off _ _ _ _ Hl).
Qed.

(** ** deviance formulas *)
Lemma lsum_map2_bigsum (g : R -> R -> R) a b n :
  length a = n -> length b = n ->
  lsum (map2 g a b) = bigsum (fun i => g (nth i a 0) (nth i b 0)) n.
Proof.
  intros La Lb. rewrite bigsum_lsum. f_equal.
  apply nth_ext with (d := 0) (d' := 0).
  - rewrite map2_length, map_length, seq_length. lia.
  - intros i Hi. rewrite map2_length in Hi.
    rewrite (nth_map2 _ _ _ _ _ 0 0) by lia.
    rewrite (nth_map_seq (fun i => g (nth i a 0) (nth i b 0))) by lia. reflexivity.
Qed.

Lemma isum_R l : isum RO l = lsum l.
Proof. unfold isum. change (add RO) with Rplus. rewrite fold_left_add_lsum. change (neg RO (zero RO)) with (- 0). lra. Qed.

Lemma dot8_R fuel : forall s a b, (length a < fuel)%nat -> dot8 RO fuel s a b = s + lsum (map2 Rmult a b).
Proof.
  induction fuel as [|fuel IH]; intros s a b Hl; [lia|].
  destruct a as [|a0 [|a1 [|a2 [|a3 [|a4 [|a5 [|a6 [|a7 a']]]]]]]];
    try (cbn [dot8]; change (add RO) with Rplus; change (mul RO) with Rmult; apply fold_left_add_lsum).
  destruct b as [|b0 [|b1 [|b2 [|b3 [|b4 [|b5 [|b6 [|b7 b']]]]]]]];
    try (cbn [dot8]; change (add RO) with Rplus; change (mul RO) with Rmult; apply fold_left_add_lsum).
  cbn [dot8]. rewrite IH by (cbn [length] in Hl; lia).
  change (add RO) with Rplus. change (mul RO) with Rmult. cbn [map2 lsum]. lra.
Qed.

Lemma dot_raw_R a b : dot_raw RO a b = lsum (map2 Rmult a b).
Proof. unfold dot_raw. rewrite dot8_R by lia. change (zero RO) with 0. lra. Qed.

(** the model's deviance is the family deviance Σ_i d(y_i, mu_i).  Poisson needs the domain on which
    y ln y - y ln mu = y ln(y/mu) *)
Lemma deviance_formula f y mu d :
  deviance RO f y mu = Some d ->
  (f = Poisson \/ f = QuasiPoisson -> forall i, (i < length y)%nat -> nth i y 0 = 0 \/ (0 < nth i y 0 /\ 0 < nth i mu 0)) ->
  length y = length mu /\ d = family_deviance f (length y) y (fun i => nth i mu 0).
Proof.
  unfold deviance. destruct (Nat.eqb_spec (length y) (length mu)) as [L|]; [|discriminate].
  intros [= <-] Dom. split; [exact L|]. unfold family_deviance.
  destruct f.
  - rewrite dot_raw_R.
    rewrite (lsum_map2_bigsum Rmult _ _ (length y)) by (rewrite map2_length; lia).
    apply bigsum_ext. intros i Hi. cbn [unit_deviance].
    rewrite (nth_map2 _ _ _ _ _ 0 0) by lia. reflexivity.
  - rewrite isum_R, (lsum_map2_bigsum _ _ _ (length y)) by lia.
    change (mul RO ?a (ofZ RO (-2))) with (a * -2). rewrite Rmult_comm, <- bigsum_scal.
    apply bigsum_ext. intros i Hi. reflexivity.
  - rewrite isum_R, (lsum_map2_bigsum _ _ _ (length y)) by lia.
    change (mul RO (two RO) ?a) with ((1 + 1) * a). rewrite <- bigsum_scal.
    apply bigsum_ext. intros i Hi. cbn [unit_deviance]. unfold dev_poisson, ylogy.
    change (eqb RO) with Reqb. unfold Reqb. change (zero RO) with 0.
    destruct (Dom (or_intror eq_refl) i Hi) as [Z|(Py & Pm)].
    + rewrite Z. destruct (Req_EM_T 0 0) as [_|N]; [|exfalso; apply N; reflexivity].
      change (sub RO) with Rminus; change (add RO) with Rplus; change (mul RO) with Rmult. lra.
    + destruct (Req_EM_T (nth i y 0) 0) as [E|_]; [lra|].
      change (sub RO) with Rminus; change (add RO) with Rplus; change (mul RO) with Rmult.
      change (ln_ RO ?a) with (ln a). unfold Rdiv. rewrite ln_mult by (try apply Rinv_0_lt_compat; assumption).
      rewrite ln_Rinv by assumption. lra.
  - rewrite isum_R, (lsum_map2_bigsum _ _ _ (length y)) by lia.
    change (mul RO (two RO) ?a) with ((1 + 1) * a). rewrite <- bigsum_scal.
    apply bigsum_ext. intros i Hi. cbn [unit_deviance]. unfold dev_poisson, ylogy.
    change (eqb RO) with Reqb. unfold Reqb. change (zero RO) with 0.
    destruct (Dom (or_introl eq_refl) i Hi) as [Z|(Py & Pm)].
    + rewrite Z. destruct (Req_EM_T 0 0) as [_|N]; [|exfalso; apply N; reflexivity].
      change (sub RO) with Rminus; change (add RO) with Rplus; change (mul RO) with Rmult. lra.
    + destruct (Req_EM_T (nth i y 0) 0) as [E|_]; [lra|].
      change (sub RO) with Rminus; change (add RO) with Rplus; change (mul RO) with Rmult.
      change (ln_ RO ?a) with (ln a). unfold Rdiv. rewrite ln_mult by (try apply Rinv_0_lt_compat; assumption).
      rewrite ln_Rinv by assumption. lra.
  - rewrite isum_R, (lsum_map2_bigsum _ _ _ (length y)) by lia.
    change (mul RO (two RO) ?a) with ((1 + 1) * a). rewrite <- bigsum_scal.
    apply bigsum_ext. intros i Hi. cbn [unit_deviance]. unfold dev_gamma.
    change (sub RO) with Rminus; change (div RO) with Rdiv. change (ln_ RO ?a) with (ln a). lra.
  - rewrite isum_R, (lsum_map2_bigsum _ _ _ (length y)) by lia.
    change (mul RO (two RO) ?a) with ((1 + 1) * a). rewrite <- bigsum_scal.
    apply bigsum_ext. intros i Hi. cbn [unit_deviance]. unfold dev_gamma.
    change (sub RO) with Rminus; change (div RO) with Rdiv. change (ln_ RO ?a) with (ln a). lra.
Qed.

(** the penalised deviance used by the stopping rule: deviance + alpha Σ_{j>=1} beta_j^2 *)
Lemma penalized_deviance_formula f y mu alpha b0 beta d :
  penalized_deviance RO f y mu alpha (b0 :: beta) = Some d ->
  exists dv, deviance RO f y mu = Some dv /\
             d = dv + alpha * bigsum (fun j => nth j beta 0 * nth j beta 0) (length beta).
Proof.
  unfold penalized_deviance. destruct (deviance RO f y mu) as [dv|]; [|discriminate]. cbn [bind].
  intros [= <-]. exists dv. split; [reflexivity|]. rewrite dot_raw_R.
  rewrite (lsum_map2_bigsum Rmult beta beta (length beta)) by reflexivity. reflexivity.
Qed.

(** ** dispersion, covariance, standard errors, AIC/BIC, prediction *)
Lemma dispersion_formula f ft d :
  dispersion RO f ft = Some d ->
  (has_dispersion f = true -> (Z.of_nat (f_p ft) <= f_n ft)%Z /\ d = f_dev ft / IZR (f_n ft - Z.of_nat (f_p ft))) /\
  (has_dispersion f = false -> d = 1).
Proof.
  unfold dispersion. destruct (has_dispersion f).
  - destruct (Z.ltb_spec (f_n ft) (Z.of_nat (f_p ft))); [discriminate|]. intros [= <-].
    split; [intros _; split; [lia|reflexivity]|discriminate].
  - intros [= <-]. split; [discriminate|reflexivity].
Qed.

Section Inverse.
  (** the inner inverse routine with its defining equation (to be discharged by C01) *)
  Variable inv : list R -> option (list R).
  Hypothesis inv_ok : forall a ai m, length a = (m * m)%nat -> inv a = Some ai ->
    length ai = (m * m)%nat /\
    forall j k, (j < m)%nat -> (k < m)%nat ->
      bigsum (fun l => nth (j * m + l) a 0 * nth (l * m + k) ai 0) m = if (j =? k)%nat then 1 else 0.

  (** standard errors = sqrt of the diagonal of dispersion x inverse information, where the inverse
      satisfies info . inverse = identity *)
  Lemma stderr_formula f ft se :
    length (f_info ft) = (f_p ft * f_p ft)%nat ->
    coef_standard_error RO inv f ft = Some se ->
    exists disp iv,
      dispersion RO f ft = Some disp /\ inv (f_info ft) = Some iv /\ length iv = (f_p ft * f_p ft)%nat /\
      (forall j k, (j < f_p ft)%nat -> (k < f_p ft)%nat ->
         bigsum (fun l => nth (j * f_p ft + l) (f_info ft) 0 * nth (l * f_p ft + k) iv 0) (f_p ft)
         = if (j =? k)%nat then 1 else 0) /\
      length se = f_p ft /\
      forall j, (j < f_p ft)%nat -> nth j se 0 = R_sqrt.sqrt (disp * nth (j * f_p ft + j) iv 0).
  Proof.
    intros Li. unfold coef_standard_error, coef_covariance_matrix.
    destruct (dispersion RO f ft) as [disp|]; [|discriminate]. cbn [bind].
    destruct (inv (f_info ft)) as [iv|] eqn:Hi; [|discriminate]. cbn [bind].
    destruct (inv_ok _ _ _ Li Hi) as (Liv & Eiv).
    unfold diag. rewrite map_length, Liv, Nat.sqrt_square, Nat.eqb_refl. cbn [bind].
    intros [= <-]. exists disp, iv. repeat split; auto.
    - rewrite !map_length, seq_length. reflexivity.
    - intros j Hj. rewrite (nth_map' _ _ _ _ 0) by (rewrite map_length, seq_length; exact Hj).
      rewrite nth_map_seq by exact Hj. change (zero RO) with 0.
      rewrite (nth_map' _ _ _ _ 0) by (rewrite Liv; nia). reflexivity.
  Qed.
End Inverse.

Lemma aic_bic_formula (ft : fitted (T:=R)) :
  aic RO ft = f_dev ft + 2 * INR (f_p ft) /\ bic RO ft = f_dev ft + INR (f_p ft) * ln (IZR (f_n ft)).
Proof.
  unfold aic, bic, ofN, two. change (ofZ RO) with IZR. rewrite <- INR_IZR_INZ.
  change (add RO) with Rplus. change (mul RO) with Rmult. change (one RO) with 1.
  change (ln_ RO ?a) with (ln a). split; [ring|reflexivity].
Qed.

(** predictions = inverse link of x.beta + offset, row by row *)
Lemma predict_formula f off ft xnew pr :
  length (f_coef ft) = f_p ft ->
  predict RO f off ft xnew = Some pr ->
  exists m, length xnew = (m * f_p ft)%nat /\ length pr = m /\
    forall i, (i < m)%nat ->
      nth i pr 0 = mean_fn f (bigsum (fun k => X xnew (f_p ft) i k * nth k (f_coef ft) 0) (f_p ft) + offs off i).
Proof.
  intros Lc. unfold predict.
  destruct (is_matrix (length xnew) (f_p ft)) as [m|] eqn:Hm; [|discriminate]. cbn [bind].
  destruct (is_matrix_some _ _ _ Hm) as (Hp & Hlen).
  destruct (is_design RO xnew m) as [d|] eqn:Hd; [|discriminate]. cbn [bind].
  destruct d; [|discriminate]. cbn [guard bind].
  assert (Hm0 : (0 < m)%nat).
  { unfold is_design in Hd. destruct (is_matrix (length xnew) m) as [nc|] eqn:E; [|discriminate].
    apply is_matrix_some in E. lia. }
  destruct (eta_matmul xnew (f_coef ft) m (f_p ft) Hm0 Hp ltac:(lia) Lc) as (e & He & Le & Hnth).
  rewrite He. cbn [bind]. intros Hpr. exists m. split; [lia|].
  destruct off as [o|].
  - destruct (vbin (add RO) e o) as [eo|] eqn:Hv; [|discriminate]. cbn [bind] in Hpr. injection Hpr as <-.
    apply vbin_inv in Hv. destruct Hv as (Lo & ->).
    split; [unfold inv_link; rewrite map_length, map2_length; lia|].
    intros i Hi. unfold inv_link. rewrite (nth_map' _ _ _ _ 0) by (rewrite map2_length; lia).
    rewrite inv_link1_spec, (nth_map2 _ _ _ _ _ 0 0) by lia. rewrite Hnth by exact Hi. reflexivity.
  - injection Hpr as <-. split; [unfold inv_link; rewrite map_length; exact Le|].
    intros i Hi. unfold inv_link. rewrite (nth_map' _ _ _ _ 0) by lia.
    rewrite inv_link1_spec, Hnth by exact Hi. cbn [offs]. f_equal. lra.
Qed.
