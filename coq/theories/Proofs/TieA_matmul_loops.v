(** * Tie A for C05: the hand-written models of [matmul], [matmul_blocked], [xtx] ARE the source.
    [Generated/matmul_loops.v] is produced on every run by tools/tiea/matmul_loops.py (statement-level translator
    [LoopTranslator] of tools/rsexpr.py) from src/linalg/utils.rs.  The source accumulates IN PLACE into one flat
    row-major zero vector ([c[i * n + j] += temp * b[k * n + j]] inside the i-k-j nest, resp. the jj-kk-i-k-j nest with
    [min] edges); the model of [Model/MatMul.v] works on ROWS ([map] over the rows of [op(A)], [fold_left] over [k],
    [map2] / [mapi] over the row).  The lemmas show, for EVERY carrier, operations record and input, that every index of
    the source is in bounds and that the two compute the same values in the same order.  No law of the carrier is used. *)
From Coq Require Import List ZArith Arith Bool Lia.
From Compute Require Import Base.Ops Base.ListMat Base.RsExpr Base.RsExprMut Model.Reduce Model.MatMul
  Proofs.RsExprLemmas Proofs.RsExprFlat Proofs.C15Lists Proofs.C05 Proofs.TieA_linalg_loops Generated.matmul_loops.
Import ListNotations.

Lemma rs_fold_opt_repr : forall {S S' X Y} (r : S' -> S) (P : S' -> Prop) (h : X -> Y) (f : S -> Y -> option S) (F : S' -> X -> S') (xs : list X),
  (forall s x, In x xs -> P s -> f (r s) (h x) = Some (r (F s x)) /\ P (F s x)) ->
  forall s, P s -> rs_fold_opt f (map h xs) (r s) = Some (r (fold_left F xs s)).
Proof.
  intros S S' X Y r P h f F xs. induction xs as [|x xs IH]; intros H s Hs; [reflexivity|].
  cbn [map rs_fold_opt fold_left]. destruct (H s x (or_introl eq_refl) Hs) as [E L]. rewrite E.
  apply IH; [|exact L]. intros s' x' Hin. apply H. now right.
Qed.

Lemma map2_repeat_r : forall {A B C} (h : A -> B -> C) (X : list A) (c : B), map2 h X (repeat c (length X)) = map (fun a => h a c) X.
Proof. intros A B C h X c. induction X as [|a X IH]; [reflexivity|]. cbn. now rewrite IH. Qed.
Lemma map2_map_const_r : forall {A B C D} (h : A -> B -> C) (X : list A) (c : B) (Y : list D), length Y = length X ->
  map2 h X (map (fun _ => c) Y) = map (fun a => h a c) X.
Proof. intros A B C D h X c. induction X as [|a X IH]; intros [|y Y] E; try discriminate; [reflexivity|]. cbn. f_equal. apply IH. now injection E. Qed.
Lemma Forall_map2_len : forall {A B} (h : A -> list B -> list B) (n : nat) (X : list A) (C : list (list B)),
  (forall a w, length w = n -> length (h a w) = n) -> Forall (fun r => length r = n) C -> Forall (fun r => length r = n) (map2 h X C).
Proof.
  intros A B h n X. induction X as [|a X IH]; intros C Hh HC; [constructor|]. destruct C as [|w C]; [constructor|].
  cbn [map2]. constructor; [apply Hh; exact (Forall_inv HC)|apply IH; [exact Hh|exact (Forall_inv_tail HC)]].
Qed.

Section MM.
  Context {T : Type} (O : Ops T).
  Local Notation z := (zero O).
  Definition rows_n (n : nat) (M : list (list T)) : Prop := Forall (fun r => length r = n) M.

  Lemma rows_n_nth : forall n M i, rows_n n M -> i < length M -> length (nth i M []) = n.
  Proof. intros n M i H Hi. unfold rows_n in H. rewrite Forall_forall in H. apply H. now apply nth_In. Qed.

  Lemma axpy_range_length : forall t brow crow lo hi, length (axpy_range O t brow crow lo hi) = length crow.
  Proof. intros. unfold axpy_range, mapi. apply mapi_from_length'. Qed.
  Lemma axpy_range_full : forall t brow crow n, length brow = n -> length crow = n -> axpy_range O t brow crow 0 n = axpy_row O t brow crow.
  Proof.
    intros t brow crow n Hb Hc. unfold axpy_range, axpy_row, mapi.
    rewrite (mapi_from_ext_in _ (fun j c => add O c (mul O t (nth j brow z)))).
    - rewrite (mapi_from_map2_nth (fun c b => add O c (mul O t b)) crow brow z 0) by lia. reflexivity.
    - intros k a Hk. cbn [Nat.leb andb]. replace (k <? n) with true by (symmetry; apply Nat.ltb_lt; lia). reflexivity.
  Qed.

  (** the j loop on the window [lo, hi) of row [i] of the flat accumulator *)
  Lemma jloop_range : forall (B : list (list T)) (n i k lo hi : nat) (t : T) (pre crow post : list T),
    rows_n n B -> k < length B -> length pre = i * n -> length crow = n -> lo <= hi -> hi <= n ->
    rs_fold_opt (fun c j => let* g15 := rs_get (concat B) (Z.add (Z.mul (Z.of_nat k) (Z.of_nat n)) j) in
                            let* g16 := rs_get c (Z.add (Z.mul (Z.of_nat i) (Z.of_nat n)) j) in
                            let* l17 := rs_set c (Z.add (Z.mul (Z.of_nat i) (Z.of_nat n)) j) (add O g16 (mul O t g15)) in
                            Some l17)
                (rs_range_excl (Z.of_nat lo) (Z.of_nat hi)) (pre ++ crow ++ post)
    = Some (pre ++ axpy_range O t (nth k B []) crow lo hi ++ post).
  Proof.
    intros B n i k lo hi t pre crow post HB Hk Hpre Hc Hlo Hhi.
    rewrite rs_range_excl_nat. set (mid := firstn (hi - lo) (skipn lo crow)).
    assert (Lm : length mid = hi - lo) by (unfold mid; rewrite firstn_length, skipn_length; lia).
    assert (E : pre ++ crow ++ post = (pre ++ firstn lo crow) ++ mid ++ (skipn hi crow ++ post)).
    { rewrite <- !app_assoc. f_equal. rewrite <- (firstn_skipn lo crow) at 1. rewrite <- app_assoc. f_equal.
      unfold mid. rewrite <- (firstn_skipn (hi - lo) (skipn lo crow)) at 1. rewrite <- app_assoc. do 2 f_equal.
      rewrite RsExprLemmas.skipn_add. f_equal. lia. }
    rewrite E, <- Lm.
    rewrite (inplace_loop _ (fun j x => add O x (mul O t (nth j (nth k B []) z))) (i * n) n).
    - f_equal. rewrite <- !app_assoc. f_equal. rewrite app_assoc. unfold axpy_range. rewrite <- mapi_window by lia.
      rewrite <- !app_assoc. reflexivity.
    - intros p x q j Hp Hj. rewrite (rs_get_concat_rows B n k j z) by assumption. cbn [bind].
      rewrite <- Nat2Z.inj_mul, <- Nat2Z.inj_add. rewrite rs_get_mid by exact Hp. cbn [bind].
      rewrite (rs_set_mid_k p q x) by exact Hp. reflexivity.
    - rewrite app_length, firstn_length. lia.
    - lia.
  Qed.

  (** the k loop: every pass adds one term to the same window of row [i] *)
  Lemma kloop_range : forall (A B : list (list T)) (l n i lo hi : nat) (ks : list nat) (pre crow post : list T),
    rows_n l A -> i < length A -> rows_n n B -> length B = l -> (forall k, In k ks -> k < l) ->
    length pre = i * n -> length crow = n -> lo <= hi -> hi <= n ->
    rs_fold_opt (fun c k => let* g14 := rs_get (concat A) (Z.add (Z.mul (Z.of_nat i) (Z.of_nat l)) k) in
                   let* c := rs_fold_opt (fun c j => let* g15 := rs_get (concat B) (Z.add (Z.mul k (Z.of_nat n)) j) in
                            let* g16 := rs_get c (Z.add (Z.mul (Z.of_nat i) (Z.of_nat n)) j) in
                            let* l17 := rs_set c (Z.add (Z.mul (Z.of_nat i) (Z.of_nat n)) j) (add O g16 (mul O g14 g15)) in
                            Some l17) (rs_range_excl (Z.of_nat lo) (Z.of_nat hi)) c in Some c)
                (map Z.of_nat ks) (pre ++ crow ++ post)
    = Some (pre ++ fold_left (fun c k => axpy_range O (nth k (nth i A []) z) (nth k B []) c lo hi) ks crow ++ post).
  Proof.
    intros A B l n i lo hi ks pre crow post HA Hi HB HBl Hks Hpre Hc Hlo Hhi.
    apply (window_fold _ (fun c k => axpy_range O (nth k (nth i A []) z) (nth k B []) c lo hi) n); [|exact Hc].
    intros w k Hin Hw. split; [|now rewrite axpy_range_length].
    rewrite (rs_get_concat_rows A l i k z) by (auto; apply Hks; exact Hin). cbn [bind].
    rewrite jloop_range by (auto; rewrite HBl; apply Hks; exact Hin). reflexivity.
  Qed.

  Lemma fold_axpy_range_length : forall arow B lo hi ks w,
    length (fold_left (fun c k => axpy_range O (nth k arow z) (nth k B []) c lo hi) ks w) = length w.
  Proof. intros arow B lo hi ks. induction ks as [|k ks IH]; intro w; [reflexivity|]. cbn [fold_left]. now rewrite IH, axpy_range_length. Qed.

  (** the plain k loop is [row_times] *)
  Lemma fold_axpy_full : forall arow (B : list (list T)) n ks w, (forall k, In k ks -> length (nth k B []) = n) -> length w = n ->
    fold_left (fun c k => axpy_range O (nth k arow z) (nth k B []) c 0 n) ks w = row_times O arow B ks w.
  Proof.
    intros arow B n ks. unfold row_times. induction ks as [|k ks IH]; intros w HB Hw; [reflexivity|]. cbn [fold_left].
    rewrite axpy_range_full by (auto; apply HB; now left). apply IH; [intros k' Hk'; apply HB; now right|].
    unfold axpy_row. rewrite map2_length, Hw, HB by (now left). lia.
  Qed.

  (** ** the i-k-j nest *)
  Lemma nest_plain : forall (A B : list (list T)) (m l n : nat),
    rows_n l A -> length A = m -> rows_n n B -> length B = l ->
    rs_fold_opt (fun c i => let* c := rs_fold_opt (fun c k => let* g14 := rs_get (concat A) (Z.add (Z.mul i (Z.of_nat l)) k) in
                   let* c := rs_fold_opt (fun c j => let* g15 := rs_get (concat B) (Z.add (Z.mul k (Z.of_nat n)) j) in
                            let* g16 := rs_get c (Z.add (Z.mul i (Z.of_nat n)) j) in
                            let* l17 := rs_set c (Z.add (Z.mul i (Z.of_nat n)) j) (add O g16 (mul O g14 g15)) in
                            Some l17) (rs_range_excl 0 (Z.of_nat n)) c in Some c) (rs_range_excl 0 (Z.of_nat l)) c in Some c)
                (rs_range_excl 0 (Z.of_nat m)) (repeat z (m * n))
    = Some (flatten (mm_rows O A B l n)).
  Proof.
    intros A B m l n HA HAm HB HBl.
    change 0%Z with (Z.of_nat 0) at 3. rewrite rs_range_excl_nat, Nat.sub_0_r.
    rewrite <- concat_repeat_repeat. rewrite <- (repeat_length (repeat z n) m) at 1.
    pose proof (flat_rows_loop
      (fun c i => let* c := rs_fold_opt (fun c k => let* g14 := rs_get (concat A) (Z.add (Z.mul i (Z.of_nat l)) k) in
                   let* c := rs_fold_opt (fun c j => let* g15 := rs_get (concat B) (Z.add (Z.mul k (Z.of_nat n)) j) in
                            let* g16 := rs_get c (Z.add (Z.mul i (Z.of_nat n)) j) in
                            let* l17 := rs_set c (Z.add (Z.mul i (Z.of_nat n)) j) (add O g16 (mul O g14 g15)) in
                            Some l17) (rs_range_excl 0 (Z.of_nat n)) c in Some c) (rs_range_excl 0 (Z.of_nat l)) c in Some c)
      (fun i w => row_times O (nth i A []) B (seq 0 l) w) n m) as L.
    assert (HBk : forall k, In k (seq 0 l) -> length (nth k B []) = n).
    { intros k Hk. apply in_seq in Hk. apply rows_n_nth; [exact HB|lia]. }
    assert (Hks : forall k, In k (seq 0 l) -> k < l) by (intros k Hk; apply in_seq in Hk; lia).
    assert (Hbody : forall pre w post i, length pre = i * n -> length w = n -> i < m ->
      (let* c := rs_fold_opt (fun c k => let* g14 := rs_get (concat A) (Z.add (Z.mul (Z.of_nat i) (Z.of_nat l)) k) in
                   let* c := rs_fold_opt (fun c j => let* g15 := rs_get (concat B) (Z.add (Z.mul k (Z.of_nat n)) j) in
                            let* g16 := rs_get c (Z.add (Z.mul (Z.of_nat i) (Z.of_nat n)) j) in
                            let* l17 := rs_set c (Z.add (Z.mul (Z.of_nat i) (Z.of_nat n)) j) (add O g16 (mul O g14 g15)) in
                            Some l17) (rs_range_excl 0 (Z.of_nat n)) c in Some c) (rs_range_excl 0 (Z.of_nat l)) (pre ++ w ++ post) in Some c)
      = Some (pre ++ row_times O (nth i A []) B (seq 0 l) w ++ post) /\ length (row_times O (nth i A []) B (seq 0 l) w) = n).
    { intros pre w post i Hpre Hw Hi. rewrite (rs_range_excl_0_nat l).
      change (rs_range_excl 0 (Z.of_nat n)) with (rs_range_excl (Z.of_nat 0) (Z.of_nat n)).
      rewrite (kloop_range A B l n i 0 n (seq 0 l) pre w post) by (auto; lia). cbn [bind].
      rewrite fold_axpy_full by auto. split; [reflexivity|].
      apply (row_times_nth O (nth i A []) B (seq 0 l) 0 n w); auto. }
    specialize (L Hbody).
    specialize (L (repeat (repeat z n) m) [] 0 eq_refl).
    cbn [app] in L. rewrite L.
    - f_equal. unfold flatten, mm_rows. f_equal.
      rewrite (mapi_from_map2_rows (fun arow w => row_times O arow B (seq 0 l) w) A (repeat (repeat z n) m) [] 0) by (rewrite repeat_length; lia).
      cbn [skipn]. rewrite <- HAm. apply map2_repeat_r.
    - apply Forall_forall. intros r Hr. apply repeat_spec in Hr. subst r. apply repeat_length.
    - rewrite repeat_length. lia.
  Qed.

  (** ** the jj-kk-i-k-j nest of [matmul_blocked] *)
  Lemma rs_idiv_nat : forall a b : nat, b <> 0 -> rs_idiv (Z.of_nat a) (Z.of_nat b) = Some (Z.of_nat (a / b)).
  Proof.
    intros a b Hb. unfold rs_idiv. destruct (Z.eqb_spec (Z.of_nat b) 0) as [E|_]; [lia|].
    rewrite Z.quot_div_nonneg by lia. now rewrite <- Nat2Z.inj_div.
  Qed.
  Lemma rs_idiv_0 : forall a : Z, rs_idiv a 0 = None.
  Proof. reflexivity. Qed.

  Definition krow (B : list (list T)) (l n bs jj kk : nat) (arow crow : list T) : list T :=
    fold_left (fun c k => axpy_range O (nth k arow z) (nth k B []) c (jj * bs) (Nat.min (jj * bs + bs) n)) (kblock l bs kk) crow.

  Lemma iloop_blocked : forall (A B C : list (list T)) (m l n bs jj kk : nat),
    rows_n l A -> length A = m -> rows_n n B -> length B = l -> rows_n n C -> length C = m -> jj * bs <= n ->
    rs_fold_opt (fun c i => let* c := rs_fold_opt (fun c k => let* g14 := rs_get (concat A) (Z.add (Z.mul i (Z.of_nat l)) k) in
                   let* c := rs_fold_opt (fun c j => let* g15 := rs_get (concat B) (Z.add (Z.mul k (Z.of_nat n)) j) in
                            let* g16 := rs_get c (Z.add (Z.mul i (Z.of_nat n)) j) in
                            let* l17 := rs_set c (Z.add (Z.mul i (Z.of_nat n)) j) (add O g16 (mul O g14 g15)) in
                            Some l17) (rs_range_excl (Z.mul (Z.of_nat jj) (Z.of_nat bs)) (Z.min (Z.add (Z.mul (Z.of_nat jj) (Z.of_nat bs)) (Z.of_nat bs)) (Z.of_nat n))) c in Some c)
                  (rs_range_excl (Z.mul (Z.of_nat kk) (Z.of_nat bs)) (Z.min (Z.add (Z.mul (Z.of_nat kk) (Z.of_nat bs)) (Z.of_nat bs)) (Z.of_nat l))) c in Some c)
                (rs_range_excl 0 (Z.of_nat m)) (concat C)
    = Some (concat (map2 (krow B l n bs jj kk) A C)) /\ (rows_n n (map2 (krow B l n bs jj kk) A C) /\ length (map2 (krow B l n bs jj kk) A C) = m).
  Proof.
    intros A B C m l n bs jj kk HA HAm HB HBl HC HCm Hjj.
    assert (Hlen : forall arow w, length w = n -> length (krow B l n bs jj kk arow w) = n).
    { intros arow w Hw. unfold krow. now rewrite fold_axpy_range_length. }
    split; [|split; [apply Forall_map2_len; assumption|rewrite map2_length; lia]].
    replace (Z.min (Z.add (Z.mul (Z.of_nat jj) (Z.of_nat bs)) (Z.of_nat bs)) (Z.of_nat n)) with (Z.of_nat (Nat.min (jj * bs + bs) n)) by lia.
    replace (Z.mul (Z.of_nat jj) (Z.of_nat bs)) with (Z.of_nat (jj * bs)) by lia.
    replace (Z.min (Z.add (Z.mul (Z.of_nat kk) (Z.of_nat bs)) (Z.of_nat bs)) (Z.of_nat l)) with (Z.of_nat (Nat.min (kk * bs + bs) l)) by lia.
    replace (Z.mul (Z.of_nat kk) (Z.of_nat bs)) with (Z.of_nat (kk * bs)) by lia.
    rewrite (rs_range_excl_seq (kk * bs) (Nat.min (kk * bs + bs) l)). change (seq (kk * bs) (Nat.min (kk * bs + bs) l - kk * bs)) with (kblock l bs kk).
    change 0%Z with (Z.of_nat 0). rewrite (rs_range_excl_nat 0 m), Nat.sub_0_r. rewrite <- HCm.
    pose proof (flat_rows_loop
      (fun c i => let* c := rs_fold_opt (fun c k => let* g14 := rs_get (concat A) (Z.add (Z.mul i (Z.of_nat l)) k) in
                   let* c := rs_fold_opt (fun c j => let* g15 := rs_get (concat B) (Z.add (Z.mul k (Z.of_nat n)) j) in
                            let* g16 := rs_get c (Z.add (Z.mul i (Z.of_nat n)) j) in
                            let* l17 := rs_set c (Z.add (Z.mul i (Z.of_nat n)) j) (add O g16 (mul O g14 g15)) in
                            Some l17) (rs_range_excl (Z.of_nat (jj * bs)) (Z.of_nat (Nat.min (jj * bs + bs) n))) c in Some c)
                  (map Z.of_nat (kblock l bs kk)) c in Some c)
      (fun i w => krow B l n bs jj kk (nth i A []) w) n m) as L.
    assert (Hbody : forall pre w post i, length pre = i * n -> length w = n -> i < m ->
      (let* c := rs_fold_opt (fun c k => let* g14 := rs_get (concat A) (Z.add (Z.mul (Z.of_nat i) (Z.of_nat l)) k) in
                   let* c := rs_fold_opt (fun c j => let* g15 := rs_get (concat B) (Z.add (Z.mul k (Z.of_nat n)) j) in
                            let* g16 := rs_get c (Z.add (Z.mul (Z.of_nat i) (Z.of_nat n)) j) in
                            let* l17 := rs_set c (Z.add (Z.mul (Z.of_nat i) (Z.of_nat n)) j) (add O g16 (mul O g14 g15)) in
                            Some l17) (rs_range_excl (Z.of_nat (jj * bs)) (Z.of_nat (Nat.min (jj * bs + bs) n))) c in Some c)
                  (map Z.of_nat (kblock l bs kk)) (pre ++ w ++ post) in Some c)
      = Some (pre ++ krow B l n bs jj kk (nth i A []) w ++ post) /\ length (krow B l n bs jj kk (nth i A []) w) = n).
    { intros pre w post i Hpre Hw Hi. split; [|now apply Hlen].
      rewrite (kloop_range A B l n i (jj * bs) (Nat.min (jj * bs + bs) n) (kblock l bs kk) pre w post); auto; try lia.
      intros k Hk. unfold kblock in Hk. apply in_seq in Hk. lia. }
    specialize (L Hbody C [] 0 eq_refl HC ltac:(lia)). cbn [app] in L. rewrite L. f_equal. f_equal.
    rewrite (mapi_from_map2_rows (krow B l n bs jj kk) A C [] 0) by lia. reflexivity.
  Qed.

  Lemma nest_blocked : forall (A B : list (list T)) (m l n bs : nat),
    rows_n l A -> length A = m -> rows_n n B -> length B = l -> bs <> 0 ->
    rs_fold_opt (fun c jj => let* g13 := rs_idiv (Z.of_nat l) (Z.of_nat bs) in
                   let* c := rs_fold_opt (fun c kk => let* c := rs_fold_opt (fun c i => let* c := rs_fold_opt (fun c k => let* g14 := rs_get (concat A) (Z.add (Z.mul i (Z.of_nat l)) k) in
                   let* c := rs_fold_opt (fun c j => let* g15 := rs_get (concat B) (Z.add (Z.mul k (Z.of_nat n)) j) in
                            let* g16 := rs_get c (Z.add (Z.mul i (Z.of_nat n)) j) in
                            let* l17 := rs_set c (Z.add (Z.mul i (Z.of_nat n)) j) (add O g16 (mul O g14 g15)) in
                            Some l17) (rs_range_excl (Z.mul jj (Z.of_nat bs)) (Z.min (Z.add (Z.mul jj (Z.of_nat bs)) (Z.of_nat bs)) (Z.of_nat n))) c in Some c)
                  (rs_range_excl (Z.mul kk (Z.of_nat bs)) (Z.min (Z.add (Z.mul kk (Z.of_nat bs)) (Z.of_nat bs)) (Z.of_nat l))) c in Some c)
                (rs_range_excl 0 (Z.of_nat m)) c in Some c) (rs_range_excl 0 (Z.add g13 1)) c in Some c)
                (rs_range_excl 0 (Z.add (Z.of_nat (n / bs)) 1)) (repeat z (m * n))
    = Some (flatten (mm_blocked_rows O A B l n bs)).
  Proof.
    intros A B m l n bs HA HAm HB HBl Hbs.
    replace (Z.add (Z.of_nat (n / bs)) 1) with (Z.of_nat (n / bs + 1)) by lia. rewrite (rs_range_excl_0_nat (n / bs + 1)).
    replace (repeat z (m * n)) with (concat (map (fun _ : list T => repeat z n) A)).
    2:{ rewrite <- concat_repeat_repeat, <- HAm. f_equal. clear. induction A as [|a A IH]; [reflexivity|]. cbn. now rewrite IH. }
    unfold flatten, mm_blocked_rows.
    apply (rs_fold_opt_repr (@concat T) (fun C => rows_n n C /\ length C = m) Z.of_nat).
    2:{ split; [|now rewrite map_length]. apply Forall_forall. intros r Hr. apply in_map_iff in Hr. destruct Hr as [x [<- _]]. apply repeat_length. }
    intros C jj Hjj [HC HCm]. apply in_seq in Hjj.
    assert (Hjn : jj * bs <= n). { assert (jj <= n / bs) by lia. pose proof (Nat.mul_div_le n bs Hbs). nia. }
    rewrite rs_idiv_nat by exact Hbs. cbn [bind].
    replace (Z.add (Z.of_nat (l / bs)) 1) with (Z.of_nat (l / bs + 1)) by lia. rewrite (rs_range_excl_0_nat (l / bs + 1)).
    pose proof (rs_fold_opt_repr (@concat T) (fun C => rows_n n C /\ length C = m) Z.of_nat
      (fun c kk => let* c := rs_fold_opt (fun c i => let* c := rs_fold_opt (fun c k => let* g14 := rs_get (concat A) (Z.add (Z.mul i (Z.of_nat l)) k) in
                   let* c := rs_fold_opt (fun c j => let* g15 := rs_get (concat B) (Z.add (Z.mul k (Z.of_nat n)) j) in
                            let* g16 := rs_get c (Z.add (Z.mul i (Z.of_nat n)) j) in
                            let* l17 := rs_set c (Z.add (Z.mul i (Z.of_nat n)) j) (add O g16 (mul O g14 g15)) in
                            Some l17) (rs_range_excl (Z.mul (Z.of_nat jj) (Z.of_nat bs)) (Z.min (Z.add (Z.mul (Z.of_nat jj) (Z.of_nat bs)) (Z.of_nat bs)) (Z.of_nat n))) c in Some c)
                  (rs_range_excl (Z.mul kk (Z.of_nat bs)) (Z.min (Z.add (Z.mul kk (Z.of_nat bs)) (Z.of_nat bs)) (Z.of_nat l))) c in Some c)
                (rs_range_excl 0 (Z.of_nat m)) c in Some c)
      (fun C kk => map2 (krow B l n bs jj kk) A C) (seq 0 (l / bs + 1))) as L.
    cbv beta in L. rewrite L; [cbn [bind]; split; [reflexivity|]|clear L|split; assumption].
    - clear L. revert C HC HCm. generalize (seq 0 (l / bs + 1)) as kks. induction kks as [|kk kks IH]; intros C HC HCm; [split; assumption|].
      cbn [fold_left]. destruct (iloop_blocked A B C m l n bs jj kk HA HAm HB HBl HC HCm Hjn) as (_ & H1 & H2). apply IH; assumption.
    - intros C' kk _ [HC' HCm']. destruct (iloop_blocked A B C' m l n bs jj kk HA HAm HB HBl HC' HCm' Hjn) as (E & H1 & H2).
      rewrite E. cbn [bind]. split; [reflexivity|split; assumption].
  Qed.

  (** ** [is_matrix(..).unwrap()], [transpose] (the same source text as in Generated/linalg_loops.v) *)
  Lemma is_matrix_bind : forall {R} (m : list T) (nr : nat) (K : Z -> option R),
    (let* r1 := src_is_matrix O m (Z.of_nat nr) in let* u := r1 in K u) = (let* nc := is_matrix (length m) nr in K (Z.of_nat nc)).
  Proof.
    intros R m nr K. pose proof (tiea_is_matrix O m nr) as H.
    change (linalg_loops.src_is_matrix O m (Z.of_nat nr)) with (src_is_matrix O m (Z.of_nat nr)) in H.
    destruct (src_is_matrix O m (Z.of_nat nr)) as [[u|]|]; destruct (is_matrix (length m) nr); cbn [bind option_map] in *; congruence.
  Qed.
  Lemma transpose_src : forall (a : list T) (nr : nat), src_transpose O a (Z.of_nat nr) = transpose O a nr.
  Proof. intros a nr. exact (tiea_transpose O a nr). Qed.
  Lemma is_matrix_len : forall len nr nc, is_matrix len nr = Some nc -> 0 < nr /\ nr * nc = len /\ nc = len / nr.
  Proof.
    intros len nr nc H. pose proof (is_matrix_some _ _ _ H) as [H1 H2]. repeat split; auto.
    unfold is_matrix in H. destruct nr; [discriminate|]. destruct (_ =? _); [|discriminate]. now injection H.
  Qed.
  Lemma rows_n_unflatten : forall (a : list T) nr nc, nr * nc = length a -> rows_n nc (unflatten a nr nc).
  Proof. intros. apply unflatten_rows_length. lia. Qed.
  Lemma rows_n_transpose : forall (M : list (list T)) nc, rows_n (length M) (transpose_rows z M nc).
  Proof.
    intros M nc. apply Forall_forall. intros r Hr. unfold transpose_rows in Hr. apply in_map_iff in Hr.
    destruct Hr as [j [<- _]]. unfold col_of. apply map_length.
  Qed.

  (** the operands as the source holds them after the optional [transpose]: the flattened rows of the model's operands *)
  Definition opnd (a : list T) (ra ca : nat) (t : bool) : list (list T) :=
    if t then transpose_rows z (unflatten a ra ca) ca else unflatten a ra ca.
  Lemma opnd_src : forall (a : list T) ra ca (t : bool), is_matrix (length a) ra = Some ca ->
    (if t then let* g := (let* r := src_transpose O a (Z.of_nat ra) in Some r) in Some g else Some a) = Some (concat (opnd a ra ca t)).
  Proof.
    intros a ra ca t H. destruct (is_matrix_len _ _ _ H) as (_ & Hl & _). unfold opnd. destruct t.
    - rewrite transpose_src. unfold transpose. rewrite H. reflexivity.
    - now rewrite concat_unflatten.
  Qed.
  Lemma opnd_rows : forall (a : list T) ra ca (t : bool), ra * ca = length a ->
    rows_n (if t then ra else ca) (opnd a ra ca t) /\ length (opnd a ra ca t) = (if t then ca else ra).
  Proof.
    intros a ra ca t H. unfold opnd. destruct t.
    - split; [|apply transpose_rows_length]. rewrite <- (unflatten_length a ra ca) at 1. apply rows_n_transpose.
    - split; [now apply rows_n_unflatten|apply unflatten_length].
  Qed.

  (** ** [matmul], the three paths with at most one transpose (any [matmul_]: the recursive call is not reached) *)
  Theorem tiea_matmul_nt : forall (rec_ : list T -> list T -> Z -> Z -> bool -> bool -> option (list T)) (a b : list T) (ra rb : nat) (ta tb : bool),
    ta && tb = false ->
    (Z.of_nat ((if ta then length a / ra else ra) * (if tb then rb else length b / rb)) <= 1152921504606846975)%Z ->
    src_matmul O rec_ a b (Z.of_nat ra) (Z.of_nat rb) ta tb = matmul_nt O a b ra rb ta tb.
  Proof.
    intros rec_ a b ra rb ta tb Htt Hal. unfold src_matmul, matmul_nt, operands.
    rewrite is_matrix_bind. destruct (is_matrix (length a) ra) as [ca|] eqn:Ha; cbn [bind]; [|reflexivity].
    rewrite is_matrix_bind. destruct (is_matrix (length b) rb) as [cb|] eqn:Hb; cbn [bind]; [|reflexivity].
    rewrite Htt. cbv zeta.
    destruct (is_matrix_len _ _ _ Ha) as (Hra & Hla & Eca). destruct (is_matrix_len _ _ _ Hb) as (Hrb & Hlb & Ecb).
    rewrite <- Eca, <- Ecb in Hal.
    replace (if ta then Z.of_nat ca else Z.of_nat ra) with (Z.of_nat (if ta then ca else ra)) by (now destruct ta).
    replace (if ta then Z.of_nat ra else Z.of_nat ca) with (Z.of_nat (if ta then ra else ca)) by (now destruct ta).
    replace (if tb then Z.of_nat rb else Z.of_nat cb) with (Z.of_nat (if tb then rb else cb)) by (now destruct tb).
    replace (if tb then Z.of_nat cb else Z.of_nat rb) with (Z.of_nat (if tb then cb else rb)) by (now destruct tb).
    rewrite Zeqb_of_nat. destruct (Nat.eqb_spec (if ta then ra else ca) (if tb then cb else rb)) as [Hg|Hg]; cbn [guard bind]; [|reflexivity].
    rewrite <- Nat2Z.inj_mul. rewrite rs_vec_alloc_nat by exact Hal. cbn [bind].
    rewrite (opnd_src a ra ca ta Ha). cbn [bind]. rewrite (opnd_src b rb cb tb Hb). cbn [bind].
    destruct (opnd_rows a ra ca ta Hla) as [RA LA]. destruct (opnd_rows b rb cb tb Hlb) as [RB LB].
    rewrite (nest_plain (opnd a ra ca ta) (opnd b rb cb tb)) by (auto; congruence). cbn [bind]. reflexivity.
  Qed.

  (** [matmul] with its recursive call tied back: the both-transposed path calls [matmul(b, a, rows_b, rows_a, false, false)],
      which never reaches the recursive call again, so the equality holds for an ARBITRARY [rec_] at the second level *)
  Theorem tiea_matmul : forall (rec_ : list T -> list T -> Z -> Z -> bool -> bool -> option (list T)) (a b : list T) (ra rb : nat) (ta tb : bool),
    (Z.of_nat ((if ta then length a / ra else ra) * (if tb then rb else length b / rb)) <= 1152921504606846975)%Z ->
    src_matmul O (fun a' b' ra' rb' ta' tb' => src_matmul O rec_ a' b' ra' rb' ta' tb') a b (Z.of_nat ra) (Z.of_nat rb) ta tb = matmul O a b ra rb ta tb.
  Proof.
    intros rec_ a b ra rb ta tb Hal. unfold matmul. destruct (ta && tb) eqn:Htt.
    - apply andb_true_iff in Htt. destruct Htt; subst ta tb. unfold src_matmul at 1.
      rewrite is_matrix_bind. destruct (is_matrix (length a) ra) as [ca|] eqn:Ha; cbn [bind]; [|reflexivity].
      rewrite is_matrix_bind. destruct (is_matrix (length b) rb) as [cb|] eqn:Hb; cbn [bind]; [|reflexivity].
      cbn [andb]. rewrite tiea_matmul_nt; [|reflexivity|rewrite Nat.mul_comm; exact Hal].
      destruct (matmul_nt O b a rb ra false false) as [c|]; cbn [bind]; [|reflexivity].
      rewrite transpose_src. destruct (transpose O c rb); reflexivity.
    - now apply tiea_matmul_nt.
  Qed.

  Theorem tiea_xtx : forall (rec_ : list T -> list T -> Z -> Z -> bool -> bool -> option (list T)) (x : list T) (k : nat),
    (Z.of_nat ((length x / k) * (length x / k)) <= 1152921504606846975)%Z ->
    src_xtx O rec_ x (Z.of_nat k) = xtx O x k.
  Proof.
    intros rec_ x k Hal. unfold src_xtx, xtx, matmul. cbn [andb]. rewrite tiea_matmul_nt by (auto; exact Hal).
    destruct (matmul_nt O x x k k true false); reflexivity.
  Qed.

  Theorem tiea_matmul_blocked : forall (a b : list T) (ra rb : nat) (ta tb : bool) (bs : nat),
    (Z.of_nat ((if ta then length a / ra else ra) * (if tb then rb else length b / rb)) <= 1152921504606846975)%Z ->
    src_matmul_blocked O a b (Z.of_nat ra) (Z.of_nat rb) ta tb (Z.of_nat bs) = matmul_blocked O a b ra rb ta tb bs.
  Proof.
    intros a b ra rb ta tb bs Hal. unfold src_matmul_blocked, matmul_blocked, operands.
    rewrite is_matrix_bind. destruct (is_matrix (length a) ra) as [ca|] eqn:Ha; cbn [bind]; [|reflexivity].
    rewrite is_matrix_bind. destruct (is_matrix (length b) rb) as [cb|] eqn:Hb; cbn [bind]; [|reflexivity].
    cbv zeta.
    destruct (is_matrix_len _ _ _ Ha) as (Hra & Hla & Eca). destruct (is_matrix_len _ _ _ Hb) as (Hrb & Hlb & Ecb).
    rewrite <- Eca, <- Ecb in Hal.
    replace (if ta then Z.of_nat ca else Z.of_nat ra) with (Z.of_nat (if ta then ca else ra)) by (now destruct ta).
    replace (if ta then Z.of_nat ra else Z.of_nat ca) with (Z.of_nat (if ta then ra else ca)) by (now destruct ta).
    replace (if tb then Z.of_nat rb else Z.of_nat cb) with (Z.of_nat (if tb then rb else cb)) by (now destruct tb).
    replace (if tb then Z.of_nat cb else Z.of_nat rb) with (Z.of_nat (if tb then cb else rb)) by (now destruct tb).
    rewrite Zeqb_of_nat. destruct (Nat.eqb_spec (if ta then ra else ca) (if tb then cb else rb)) as [Hg|Hg]; cbn [guard bind]; [|reflexivity].
    rewrite <- Nat2Z.inj_mul. rewrite rs_vec_alloc_nat by exact Hal. cbn [bind].
    rewrite (opnd_src a ra ca ta Ha). cbn [bind]. rewrite (opnd_src b rb cb tb Hb). cbn [bind].
    destruct (opnd_rows a ra ca ta Hla) as [RA LA]. destruct (opnd_rows b rb cb tb Hlb) as [RB LB].
    destruct bs as [|bs']; [reflexivity|]. set (bs := S bs'). assert (Hbs : bs <> 0) by (unfold bs; lia).
    rewrite rs_idiv_nat by exact Hbs. cbn [bind].
    rewrite (nest_blocked (opnd a ra ca ta) (opnd b rb cb tb)) by (auto; congruence). cbn [bind].
    replace (negb (bs =? 0)) with true by (symmetry; apply negb_true_iff, Nat.eqb_neq; exact Hbs). reflexivity.
  Qed.
End MM.
