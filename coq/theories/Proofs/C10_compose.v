(** C10 (Levenberg-Marquardt) composed with C01: the inner linear routines are C01's models of
    [Solve<Vector>::solve] ([mat_solve_vec]: always LU) for [damped.solve(jtr)] and of [Matrix::inv] ([mat_inv])
    for [jtj.inv()] (Model/SolveInst.v), and the hypothesis [solve_exact] of Proofs/C10_lm.v is DISCHARGED
    from C01's theorems.  What remains is a condition on the data along the run: the damped normal matrix
    J^T J + mu diag(J^T J) has a left inverse at each iterate ([damped_nonsingular_along]); that it is a
    well-formed square matrix is proved, not assumed.

    [solve_exact] as stated quantifies over EVERY matrix, which [mat_solve_vec RO] does not meet (a singular
    matrix yields [Some garbage] in exact arithmetic).  The parametric theorems are therefore applied to the
    solver restricted to the regular matrices ([solve_reg]; the restriction is decided classically,
    [ClassicalEpsilon.excluded_middle_informative]), and the run with the restricted solver is shown to be
    the run with the unrestricted one whenever every damped matrix met along it is nonsingular ([lm_agree]). *)
From Coq Require Import List Arith ZArith Bool Reals Lia Lra ClassicalEpsilon.
From Compute Require Import Base.Ops Base.ListMat Model.Reduce Model.MatMul Model.Subst Model.LU Model.Solve Model.SolveInst
  Model.Optim Spec.Optim Proofs.C10 Proofs.C10_lm.
From Compute Require Spec.Factor Spec.Solve Proofs.C05 Proofs.LinAlgBase Proofs.C01_Layout Proofs.C01.
Import ListNotations.
Local Open Scope R_scope.

Definition lm_solve : matrix (T:=R) -> list R -> option (list R) := mat_solve_vec RO.
Definition lm_inv (m : matrix (T:=R)) : option (list R) := option_map (@dat R) (mat_inv RO m).

Definition wfsq (A : matrix (T:=R)) : Prop := well_formed A = true /\ nr A = nc A.
(** a well-formed square matrix with a left inverse *)
Definition regular (A : matrix (T:=R)) : Prop := wfsq A /\ Spec.Solve.nonsingular (dat A) (nr A).

(** ** C01's [Matrix::solve] on a regular matrix returns a solution in the sense of Proofs/C10_lm.v *)
Lemma lm_solve_exact_at A b d : regular A -> lm_solve A b = Some d -> solves A b d.
Proof.
  intros [[Hw Hsq] Hns] Hd.
  assert (Hb : length b = nr A).
  { destruct (Nat.eq_dec (nr A) (length b)) as [E|E]; [symmetry; exact E|].
    unfold lm_solve, mat_solve_vec in Hd.
    rewrite (Proofs.C01_Layout.msolve_vec_rejects _ _ A b (or_intror E)) in Hd. discriminate. }
  destruct (Proofs.C01.matrix_solve_vec_nonsingular A b (nr A) Hw eq_refl (eq_sym Hsq) Hb Hns) as (x & Hx & [Lx Hs]).
  unfold lm_solve in Hd. rewrite Hx in Hd. injection Hd as <-.
  unfold solves, entry. rewrite <- Hsq. split; [exact Lx|]. split; [exact Hb|].
  intros i Hi. exact (Hs i Hi).
Qed.

Definition solve_reg (A : matrix (T:=R)) (b : list R) : option (list R) :=
  if excluded_middle_informative (regular A) then lm_solve A b else None.

Lemma solve_reg_exact : forall A b d, solve_reg A b = Some d -> solves A b d.
Proof.
  intros A b d. unfold solve_reg. destruct (excluded_middle_informative (regular A)) as [Hr|]; [|discriminate].
  apply lm_solve_exact_at. exact Hr.
Qed.

Lemma solve_reg_len : forall A b d, solve_reg A b = Some d -> length d = length b.
Proof.
  intros A b d H. pose proof H as H'. apply solve_reg_exact in H as (L1 & L2 & _).
  unfold solve_reg in H'. destruct (excluded_middle_informative (regular A)) as [[[_ Hsq] _]|]; [|discriminate]. lia.
Qed.

Lemma solve_reg_at A b : regular A -> solve_reg A b = lm_solve A b.
Proof. intros Hr. unfold solve_reg. destruct (excluded_middle_informative (regular A)); [reflexivity|contradiction]. Qed.

(** ** shapes: J^T J is a well-formed square matrix, and damping keeps the shape *)
Lemma bind_some' {A B} (o : option A) (f : A -> option B) b :
  bind o f = Some b -> exists a, o = Some a /\ f a = Some b.
Proof. destruct o; cbn; [eauto|discriminate]. Qed.

Lemma normal_eqs_wfsq J p r jtj jtr : normal_eqs RO J p r = Some (jtj, jtr) -> wfsq jtj.
Proof.
  unfold normal_eqs. intros H.
  apply bind_some' in H as (Jm & HJm & H). apply bind_some' in H as (G & HG & H).
  apply bind_some' in H as (v & _ & H). apply bind_some' in H as (tm & _ & H). injection H as <- _.
  unfold mat_mat_dot in HG. apply bind_some' in HG as (u1 & _ & HG). apply bind_some' in HG as (d & _ & HG).
  unfold matrix_new in HG. apply bind_some' in HG as (u2 & Hg2 & HG). injection HG as <-.
  unfold guard in Hg2. destruct (_ && _) eqn:E in Hg2; [|discriminate].
  unfold wfsq, well_formed. cbn [nr nc dat]. split; [exact E|reflexivity].
Qed.

Lemma damp_wfsq A mu : wfsq A -> wfsq (damp RO A mu).
Proof.
  intros [Hw Hsq]. unfold wfsq, well_formed, damp in *. cbn [nr nc dat].
  rewrite Proofs.LinAlgBase.mapi_length. split; assumption.
Qed.

Section Run.
  Variable resid : list R -> option (list R).
  Variable jac0 jac1 : list R -> option (list (list R)).
  Variable h : lm_hp (T:=R).

  (** the data condition: along the run (with C01's solver) from [st], for at most [fuel] iterations, the
      damped normal matrix of every state from which a step is taken has a left inverse *)
  Fixpoint damped_nonsingular_along (fuel : nat) (st : lm_state (T:=R)) : Prop :=
    match fuel with
    | 0%nat => True
    | S f =>
        if lm_stop st then True
        else Spec.Solve.nonsingular (dat (damp RO (lm_jtj st) (lm_mu st))) (nr (lm_jtj st)) /\
             match lm_step RO resid jac1 lm_solve h st with
             | Some st' => damped_nonsingular_along f st'
             | None => True
             end
    end.

  Lemma lm_step_agree st :
    wfsq (lm_jtj st) ->
    Spec.Solve.nonsingular (dat (damp RO (lm_jtj st) (lm_mu st))) (nr (lm_jtj st)) ->
    lm_step RO resid jac1 solve_reg h st = lm_step RO resid jac1 lm_solve h st.
  Proof.
    intros Hw Hns. unfold lm_step. rewrite solve_reg_at; [reflexivity|].
    split; [apply damp_wfsq; exact Hw|exact Hns].
  Qed.

  Lemma lm_step_wfsq solve st st' :
    lm_step RO resid jac1 solve h st = Some st' -> wfsq (lm_jtj st) -> wfsq (lm_jtj st').
  Proof.
    intros H Hw. unfold lm_step in H.
    apply bind_some' in H as (d & _ & H).
    destruct (leb RO (norm RO d) _); [injection H as <-; exact Hw|].
    apply bind_some' in H as (r' & _ & H). apply bind_some' in H as (pred & _ & H).
    destruct (ltb RO (zero RO) _).
    - apply bind_some' in H as (J & _ & H). apply bind_some' in H as ([jtj jtr] & Hn & H).
      injection H as <-. cbn [lm_jtj]. exact (normal_eqs_wfsq _ _ _ _ _ Hn).
    - injection H as <-. exact Hw.
  Qed.

  Lemma lm_init_wfsq ps st : lm_init RO resid jac0 h ps = Some st -> wfsq (lm_jtj st).
  Proof.
    unfold lm_init. intros H.
    apply bind_some' in H as (r & _ & H). apply bind_some' in H as (J & _ & H).
    apply bind_some' in H as ([jtj jtr] & Hn & H). injection H as <-. cbn [lm_jtj].
    exact (normal_eqs_wfsq _ _ _ _ _ Hn).
  Qed.

  Lemma lm_loop_agree fuel : forall st,
    wfsq (lm_jtj st) -> damped_nonsingular_along fuel st ->
    lm_loop RO resid jac1 solve_reg h fuel st = lm_loop RO resid jac1 lm_solve h fuel st.
  Proof.
    induction fuel as [|fuel IH]; intros st Hw Hns; [reflexivity|].
    cbn [lm_loop damped_nonsingular_along] in *.
    destruct (lm_stop st); [reflexivity|].
    destruct Hns as [Hns Hrest]. rewrite (lm_step_agree st Hw Hns).
    destruct (lm_step RO resid jac1 lm_solve h st) as [st'|] eqn:Hstep; [|reflexivity].
    cbn [bind]. apply IH; [|exact Hrest]. exact (lm_step_wfsq lm_solve st st' Hstep Hw).
  Qed.

  (** the run with the restricted solver IS the run with C01's solver *)
  Lemma lm_agree inv maxsteps ps0 :
    (forall st0, lm_init RO resid jac0 h ps0 = Some st0 -> damped_nonsingular_along maxsteps st0) ->
    lm RO resid jac0 jac1 solve_reg inv h maxsteps ps0 = lm RO resid jac0 jac1 lm_solve inv h maxsteps ps0.
  Proof.
    intros Hns. unfold lm.
    destruct (lm_init RO resid jac0 h ps0) as [st0|] eqn:Hi; [|reflexivity]. cbn [bind].
    rewrite (lm_loop_agree maxsteps st0 (lm_init_wfsq ps0 st0 Hi) (Hns st0 eq_refl)). reflexivity.
  Qed.

  (** ** composed theorems *)

  (** LM with C01's LU solve never returns parameters with a larger residual sum of squares than the start
      point, for every step budget, every residual function and every Jacobian *)
  Theorem lm_never_worse_composed maxsteps ps0 popt cov :
    0 <= l_tau h ->
    (forall st0, lm_init RO resid jac0 h ps0 = Some st0 -> damped_nonsingular_along maxsteps st0) ->
    lm RO resid jac0 jac1 lm_solve lm_inv h maxsteps ps0 = Some (popt, cov) ->
    exists r0 r, resid ps0 = Some r0 /\ resid popt = Some r /\ dot_raw RO r r <= dot_raw RO r0 r0.
  Proof.
    intros Htau Hns H. rewrite <- (lm_agree lm_inv maxsteps ps0 Hns) in H.
    exact (lm_never_worse resid jac0 jac1 solve_reg lm_inv h solve_reg_exact maxsteps ps0 popt cov Htau H).
  Qed.

  (** what is returned: the covariance is rss / (n - p) times what C01's [Matrix::inv] returns on J^T J at
      the returned point, and that is the inverse of J^T J whenever J^T J has a left inverse *)
  Theorem lm_result_composed maxsteps ps0 popt cov :
    (forall st0, lm_init RO resid jac0 h ps0 = Some st0 -> damped_nonsingular_along maxsteps st0) ->
    lm RO resid jac0 jac1 lm_solve lm_inv h maxsteps ps0 = Some (popt, cov) ->
    exists r J G g ji,
      length popt = length ps0 /\ resid popt = Some r /\
      (jac0 popt = Some J \/ jac1 popt = Some J) /\
      normal_eqs RO J (length popt) r = Some (G, g) /\
      lm_inv G = Some ji /\ (length popt <= length r)%nat /\
      cov = map (Rmult (dot_raw RO r r / IZR (Z.of_nat (length r - length popt)))) ji /\
      (Spec.Solve.nonsingular (dat G) (nr G) -> Spec.Solve.is_right_inverse (dat G) (nr G) ji).
  Proof.
    intros Hns H. rewrite <- (lm_agree lm_inv maxsteps ps0 Hns) in H.
    destruct (lm_result RO resid jac0 jac1 solve_reg lm_inv h solve_reg_len maxsteps ps0 popt cov H)
      as (r & J & G & g & ji & H1 & H2 & H3 & H4 & H5 & H6 & H7).
    exists r, J, G, g, ji. repeat (split; [assumption|]).
    intros HG. destruct (normal_eqs_wfsq _ _ _ _ _ H4) as [Hw Hsq].
    destruct (Proofs.C01.matrix_inv_nonsingular G (nr G) Hw eq_refl (eq_sym Hsq) HG) as (m & Hm & _ & _ & HR).
    unfold lm_inv in H5. rewrite Hm in H5. cbn [option_map] in H5. injection H5 as <-. exact HR.
  Qed.
End Run.

(** ** the data condition is satisfiable: for a one-parameter problem the damped normal matrix is the 1 x 1
    matrix [g + mu.g] with g = J^T J, nonsingular as soon as the Jacobian is not zero (g > 0) and mu >= 0 *)
Lemma one_by_one_nonsingular a : a <> 0 -> Spec.Solve.nonsingular [a] 1.
Proof.
  intros Ha. exists [/ a]. intros i j Hi Hj. assert (i = 0%nat) by lia. assert (j = 0%nat) by lia. subst i j.
  unfold Spec.Factor.mmul, Spec.Factor.getm, Spec.Solve.delta. cbn. field. exact Ha.
Qed.

Example damped_1x1_nonsingular g mu :
  0 < g -> 0 <= mu ->
  Spec.Solve.nonsingular (dat (damp RO {| nr := 1; nc := 1; dat := [g] |} mu)) 1.
Proof.
  intros Hg Hmu.
  change (dat (damp RO {| nr := 1; nc := 1; dat := [g] |} mu)) with [g + mu * g].
  apply one_by_one_nonsingular. nra.
Qed.

(** a run that stops at once (or has no budget) meets the condition vacuously; a run of one step needs it
    at the start state only *)
Lemma damped_nonsingular_along_one resid jac1 h st :
  Spec.Solve.nonsingular (dat (damp RO (lm_jtj st) (lm_mu st))) (nr (lm_jtj st)) ->
  damped_nonsingular_along resid jac1 h 1 st.
Proof.
  intros H. cbn [damped_nonsingular_along]. destruct (lm_stop st); [exact I|]. split; [exact H|].
  destruct (lm_step RO resid jac1 lm_solve h st); exact I.
Qed.
