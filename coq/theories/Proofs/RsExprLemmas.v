(** * Characterising lemmas for the list combinators of [Base/RsExpr.v] that the statement-level translator
    ([LoopTranslator] of tools/rsexpr.py) renders loops, slices and iterator chains into.
    They turn an index-driven loop ([rs_fold_opt] / [rs_map_opt] over [rs_seq] with [rs_get]) whose accesses are in
    bounds into the structural [fold_left] / [map] / [map2] / [combine] the hand-written models use.  No carrier law is
    used anywhere: every statement is about lists, [nat] and [Z]. *)
From Coq Require Import List ZArith Arith Bool Lia.
From Compute Require Import Base.Ops Base.ListMat Base.RsExpr.
Import ListNotations.

(** ** integers *)
Lemma Zeqb_of_nat : forall a b : nat, Z.eqb (Z.of_nat a) (Z.of_nat b) = Nat.eqb a b.
Proof.
  intros a b. destruct (Nat.eqb a b) eqn:E.
  - apply Nat.eqb_eq in E. subst. apply Z.eqb_refl.
  - apply Nat.eqb_neq in E. apply Z.eqb_neq. lia.
Qed.
Lemma Zleb_of_nat : forall a b : nat, Z.leb (Z.of_nat a) (Z.of_nat b) = Nat.leb a b.
Proof.
  intros a b. destruct (Nat.leb a b) eqn:E.
  - apply Nat.leb_le in E. apply Z.leb_le. lia.
  - apply Nat.leb_gt in E. apply Z.leb_gt. lia.
Qed.
Lemma Zltb_of_nat : forall a b : nat, Z.ltb (Z.of_nat a) (Z.of_nat b) = Nat.ltb a b.
Proof.
  intros a b. destruct (Nat.ltb a b) eqn:E.
  - apply Nat.ltb_lt in E. apply Z.ltb_lt. lia.
  - apply Nat.ltb_ge in E. apply Z.ltb_ge. lia.
Qed.
Lemma rs_usub_le : forall a b : Z, (b <= a)%Z -> rs_usub a b = (a - b)%Z.
Proof. intros a b H. unfold rs_usub. apply Z.leb_le in H. rewrite H. reflexivity. Qed.
Lemma rs_usub_nat : forall a b : nat, b <= a -> rs_usub (Z.of_nat a) (Z.of_nat b) = Z.of_nat (a - b).
Proof. intros a b H. rewrite rs_usub_le by lia. lia. Qed.
Lemma rs_usub_S_1 : forall k : nat, rs_usub (Z.of_nat (S k)) 1 = Z.of_nat k.
Proof. intro k. rewrite rs_usub_le by lia. lia. Qed.
Lemma rs_usub_0_1 : rs_usub 0 1 = 18446744073709551615%Z.
Proof. reflexivity. Qed.

(** ** [rs_seq], ranges *)
Lemma rs_seq_length : forall n lo, length (rs_seq lo n) = n.
Proof. induction n as [|n IH]; intro lo; cbn; [reflexivity|]. now rewrite IH. Qed.
Lemma rs_seq_map : forall n lo, rs_seq lo n = map (fun k => (lo + Z.of_nat k)%Z) (seq 0 n).
Proof.
  induction n as [|n IH]; intro lo; [reflexivity|].
  cbn [rs_seq seq map]. f_equal; [lia|]. rewrite IH, <- seq_shift, map_map.
  apply map_ext. intro k. lia.
Qed.
Lemma rs_seq_app : forall n m lo, rs_seq lo (n + m) = rs_seq lo n ++ rs_seq (lo + Z.of_nat n) m.
Proof.
  induction n as [|n IH]; intros m lo.
  - cbn. now rewrite Z.add_0_r.
  - cbn [Nat.add rs_seq app]. f_equal. rewrite IH. do 2 f_equal. lia.
Qed.
Lemma rs_range_excl_0_len : forall {A} (l : list A), rs_range_excl 0 (rs_len l) = rs_seq 0 (length l).
Proof. intros A l. unfold rs_range_excl, rs_len. now rewrite Z.sub_0_r, Nat2Z.id. Qed.
Lemma rs_range_excl_nat : forall a b : nat, rs_range_excl (Z.of_nat a) (Z.of_nat b) = rs_seq (Z.of_nat a) (b - a).
Proof. intros a b. unfold rs_range_excl. f_equal. lia. Qed.
Lemma rs_range_nat : forall a b : nat, rs_range (Z.of_nat a) (Z.of_nat b) = rs_seq (Z.of_nat a) (S b - a).
Proof. intros a b. unfold rs_range. f_equal. lia. Qed.

(** ** indexing *)
Lemma rs_get_nat : forall {A} (l : list A) (k : nat), rs_get l (Z.of_nat k) = nth_error l k.
Proof.
  intros A l k. unfold rs_get. destruct (Z.ltb_spec (Z.of_nat k) 0) as [H|H]; [lia|]. now rewrite Nat2Z.id.
Qed.
Lemma rs_get_some : forall {A} (l : list A) (k : nat) (d : A), k < length l -> rs_get l (Z.of_nat k) = Some (nth k l d).
Proof. intros A l k d H. rewrite rs_get_nat. now apply nth_error_nth'. Qed.
Lemma rs_get_none : forall {A} (l : list A) (k : nat), length l <= k -> rs_get l (Z.of_nat k) = None.
Proof. intros A l k H. rewrite rs_get_nat. now apply nth_error_None. Qed.
Lemma rs_get_neg : forall {A} (l : list A) (i : Z), (i < 0)%Z -> rs_get l i = None.
Proof. intros A l i H. unfold rs_get. apply Z.ltb_lt in H. now rewrite H. Qed.
Lemma rs_get_0_hd : forall {A} (l : list A) (d : A), l <> [] -> rs_get l 0 = Some (hd d l).
Proof. intros A [|a l] d H; [congruence|reflexivity]. Qed.
Lemma rs_get_off : forall {A} (l : list A) (lo k : nat) (d : A),
  lo + k < length l -> rs_get l (Z.of_nat lo + Z.of_nat k) = Some (nth (lo + k) l d).
Proof. intros A l lo k d H. rewrite <- Nat2Z.inj_add. now apply rs_get_some. Qed.
Lemma rs_set_nat : forall {A} (l : list A) (k : nat) (v : A), k < length l -> rs_set l (Z.of_nat k) v = Some (upd l k v).
Proof.
  intros A l k v H. unfold rs_set. destruct (Z.ltb_spec (Z.of_nat k) 0) as [H0|H0]; [lia|].
  rewrite Nat2Z.id. apply Nat.ltb_lt in H. now rewrite H.
Qed.
Lemma rs_slice_nat : forall {A} (l : list A) (a b : nat), a <= b -> b <= length l ->
  rs_slice l (Z.of_nat a) (Z.of_nat b) = Some (firstn (b - a) (skipn a l)).
Proof.
  intros A l a b Hab Hb. unfold rs_slice, rs_len.
  replace (0 <=? Z.of_nat a)%Z with true by (symmetry; apply Z.leb_le; lia).
  replace (Z.of_nat a <=? Z.of_nat b)%Z with true by (symmetry; apply Z.leb_le; lia).
  replace (Z.of_nat b <=? Z.of_nat (length l))%Z with true by (symmetry; apply Z.leb_le; lia).
  cbn [andb]. rewrite <- Nat2Z.inj_sub, !Nat2Z.id by lia. reflexivity.
Qed.
Lemma rs_slice_from_nat : forall {A} (l : list A) (a : nat), a <= length l -> rs_slice_from l (Z.of_nat a) = Some (skipn a l).
Proof.
  intros A l a H. unfold rs_slice_from, rs_len. rewrite rs_slice_nat by lia.
  rewrite firstn_all2; [reflexivity|]. rewrite skipn_length. lia.
Qed.
Lemma rs_slice_from_gt : forall {A} (l : list A) (a : nat), length l < a -> rs_slice_from l (Z.of_nat a) = None.
Proof.
  intros A l a H. unfold rs_slice_from, rs_slice, rs_len.
  replace (Z.of_nat a <=? Z.of_nat (length l))%Z with false by (symmetry; apply Z.leb_gt; lia).
  now rewrite andb_false_r.
Qed.
Lemma rs_slice_to_nat : forall {A} (l : list A) (b : nat), b <= length l -> rs_slice_to l (Z.of_nat b) = Some (firstn b l).
Proof.
  intros A l b H. unfold rs_slice_to. change 0%Z with (Z.of_nat 0). rewrite rs_slice_nat by lia.
  now rewrite Nat.sub_0_r.
Qed.

(** ** folds and maps in the option monad *)
Lemma rs_fold_opt_some : forall {A S} (f : S -> A -> option S) (g : S -> A -> S) (l : list A) (s : S),
  (forall s a, In a l -> f s a = Some (g s a)) -> rs_fold_opt f l s = Some (fold_left g l s).
Proof.
  intros A S f g l. induction l as [|a l IH]; intros s H; [reflexivity|].
  cbn [rs_fold_opt fold_left]. rewrite H by (left; reflexivity). apply IH.
  intros s' a' Hin. apply H. now right.
Qed.
Lemma rs_map_opt_some : forall {A B} (f : A -> option B) (g : A -> B) (l : list A),
  (forall a, In a l -> f a = Some (g a)) -> rs_map_opt f l = Some (map g l).
Proof.
  intros A B f g l. induction l as [|a l IH]; intro H; [reflexivity|].
  cbn [rs_map_opt map]. rewrite H by (left; reflexivity). rewrite IH; [reflexivity|].
  intros a' Hin. apply H. now right.
Qed.
Lemma rs_map_opt_none_hd : forall {A B} (f : A -> option B) (a : A) (l : list A), f a = None -> rs_map_opt f (a :: l) = None.
Proof. intros A B f a l H. cbn. now rewrite H. Qed.
Lemma rs_fold_opt_ext : forall {A S} (f g : S -> A -> option S) (l : list A) (s : S),
  (forall s a, In a l -> f s a = g s a) -> rs_fold_opt f l s = rs_fold_opt g l s.
Proof.
  intros A S f g l. induction l as [|a l IH]; intros s H; [reflexivity|].
  cbn [rs_fold_opt]. rewrite H by (left; reflexivity). destruct (g s a); [|reflexivity].
  apply IH. intros s' a' Hin. apply H. now right.
Qed.
Lemma fold_left_ext_in : forall {A S} (f g : S -> A -> S) (l : list A) (s : S),
  (forall s a, In a l -> f s a = g s a) -> fold_left f l s = fold_left g l s.
Proof.
  intros A S f g l. induction l as [|a l IH]; intros s H; [reflexivity|].
  cbn [fold_left]. rewrite H by (left; reflexivity). apply IH. intros s' a' Hin. apply H. now right.
Qed.
Lemma fold_left_ext : forall {A S} (f g : S -> A -> S) (l : list A) (s : S),
  (forall s a, f s a = g s a) -> fold_left f l s = fold_left g l s.
Proof. intros. apply fold_left_ext_in. auto. Qed.
Lemma fold_left_map : forall {A B S} (f : S -> B -> S) (g : A -> B) (l : list A) (s : S),
  fold_left f (map g l) s = fold_left (fun s a => f s (g a)) l s.
Proof. intros A B S f g l. induction l as [|a l IH]; intro s; [reflexivity|]. cbn. apply IH. Qed.
(** a fold whose state is seen through a function [r] (e.g. a [nat] counter seen in [Z]) *)
Lemma fold_left_rel : forall {A S S'} (r : S' -> S) (f : S -> A -> S) (g : S' -> A -> S') (l : list A) (s : S'),
  (forall s a, f (r s) a = r (g s a)) -> fold_left f l (r s) = r (fold_left g l s).
Proof.
  intros A S S' r f g l. induction l as [|a l IH]; intros s H; [reflexivity|].
  cbn [fold_left]. rewrite H. now apply IH.
Qed.

(** ** index-driven loops over [rs_seq]: in-bounds accesses turn them into structural folds over [seq] *)
Lemma rs_fold_opt_seq : forall {S} (f : S -> Z -> option S) (g : S -> nat -> S) (n : nat) (lo : Z) (s : S),
  (forall s k, k < n -> f s (lo + Z.of_nat k)%Z = Some (g s k)) ->
  rs_fold_opt f (rs_seq lo n) s = Some (fold_left g (seq 0 n) s).
Proof.
  intros S f g n lo s H. rewrite rs_seq_map.
  assert (E : forall l s, (forall k, In k l -> k < n) ->
              rs_fold_opt f (map (fun k => (lo + Z.of_nat k)%Z) l) s = Some (fold_left g l s)).
  { induction l as [|k l IH]; intros s' Hl; [reflexivity|].
    cbn [map rs_fold_opt fold_left]. rewrite H by (apply Hl; now left). apply IH. intros k' Hk'. apply Hl. now right. }
  apply E. intros k Hk. apply in_seq in Hk. lia.
Qed.
Lemma rs_map_opt_seq : forall {B} (f : Z -> option B) (g : nat -> B) (n : nat) (lo : Z),
  (forall k, k < n -> f (lo + Z.of_nat k)%Z = Some (g k)) ->
  rs_map_opt f (rs_seq lo n) = Some (map g (seq 0 n)).
Proof.
  intros B f g n lo H. rewrite rs_seq_map.
  assert (E : forall l, (forall k, In k l -> k < n) ->
              rs_map_opt f (map (fun k => (lo + Z.of_nat k)%Z) l) = Some (map g l)).
  { induction l as [|k l IH]; intros Hl; [reflexivity|].
    cbn [map rs_map_opt]. rewrite H by (apply Hl; now left). rewrite IH; [reflexivity|]. intros k' Hk'. apply Hl. now right. }
  apply E. intros k Hk. apply in_seq in Hk. lia.
Qed.
Lemma fold_left_seq_ext : forall {S} (f : S -> Z -> S) (g : S -> nat -> S) (n : nat) (lo : Z) (s : S),
  (forall s k, k < n -> f s (lo + Z.of_nat k)%Z = g s k) ->
  fold_left f (rs_seq lo n) s = fold_left g (seq 0 n) s.
Proof.
  intros S f g n lo s H. rewrite rs_seq_map, fold_left_map. apply fold_left_ext_in.
  intros s' k Hk. apply in_seq in Hk. apply H. lia.
Qed.

(** ** structural folds over [seq] with [nth] are folds over the list(s) *)
Lemma map_nth_seq : forall {A B} (h : A -> B) (x : list A) (d : A),
  map (fun k => h (nth k x d)) (seq 0 (length x)) = map h x.
Proof.
  intros A B h x d. induction x as [|a x IH]; [reflexivity|].
  cbn [length seq map nth]. f_equal. rewrite <- seq_shift, map_map. exact IH.
Qed.
Lemma map2_nth_seq : forall {A B C} (h : A -> B -> C) (x : list A) (y : list B) (da : A) (db : B),
  length x = length y ->
  map (fun k => h (nth k x da) (nth k y db)) (seq 0 (length x)) = map2 h x y.
Proof.
  intros A B C h x. induction x as [|a x IH]; intros [|b y] da db E; try discriminate; [reflexivity|].
  cbn [length seq map nth map2]. f_equal. rewrite <- seq_shift, map_map. apply IH. now injection E.
Qed.
(** the same with the second list read [off] places further on: [map2 h x (skipn off y)] *)
Lemma map2_nth_seq_off : forall {A B C} (h : A -> B -> C) (x : list A) (y : list B) (da : A) (db : B) (off n : nat),
  n <= length x -> n + off <= length y ->
  map (fun k => h (nth k x da) (nth (k + off) y db)) (seq 0 n) = map2 h (firstn n x) (skipn off y).
Proof.
  intros A B C h x y da db off n. revert x y off. induction n as [|n IH]; intros x y off Hx Hy; [reflexivity|].
  destruct x as [|a x]; [cbn in Hx; lia|].
  assert (Hs : skipn off y = nth off y db :: skipn (S off) y).
  { clear - Hy. revert y Hy. induction off as [|off IHo]; intros [|b y] Hy; cbn in Hy; try lia; [reflexivity|].
    cbn [skipn nth]. apply IHo. lia. }
  rewrite Hs. cbn [seq map firstn map2 nth Nat.add]. f_equal.
  rewrite <- seq_shift, map_map.
  rewrite (map_ext _ (fun k => h (nth k x da) (nth (k + S off) y db))) by (intro k; now rewrite Nat.add_succ_r).
  apply IH; cbn in Hx; lia.
Qed.
Lemma fold_left_nth_seq : forall {A S} (h : S -> A -> S) (x : list A) (d : A) (s : S),
  fold_left (fun s k => h s (nth k x d)) (seq 0 (length x)) s = fold_left h x s.
Proof.
  intros A S h x d. induction x as [|a x IH]; intro s; [reflexivity|].
  cbn [length seq fold_left nth]. rewrite <- seq_shift, fold_left_map. apply IH.
Qed.
Lemma fold_left_combine_nth_seq : forall {A B S} (h : S -> A -> B -> S) (x : list A) (y : list B) (da : A) (db : B) (s : S),
  length x = length y ->
  fold_left (fun s k => h s (nth k x da) (nth k y db)) (seq 0 (length x)) s
  = fold_left (fun s p => h s (fst p) (snd p)) (combine x y) s.
Proof.
  intros A B S h x. induction x as [|a x IH]; intros [|b y] da db s E; try discriminate; [reflexivity|].
  cbn [length seq fold_left nth combine fst snd]. rewrite <- seq_shift, fold_left_map. apply IH. now injection E.
Qed.

(** ** [enumerate] *)
Lemma rs_enumerate_cons : forall {A} (a : A) (l : list A),
  rs_enumerate (a :: l) = (0%Z, a) :: combine (rs_seq 1 (length l)) l.
Proof. reflexivity. Qed.

(** ** [map2] facts used by the ties *)
Lemma map2_firstn_l : forall {A B C} (h : A -> B -> C) (x : list A) (y : list B),
  map2 h (firstn (length y) x) y = map2 h x y.
Proof.
  intros A B C h x. induction x as [|a x IH]; intros [|b y]; try reflexivity. cbn [length firstn map2]. f_equal. apply IH.
Qed.

(** ** lists equal to a [map] over [seq]; [map2] by position; [repeat] *)
Lemma map_seq_eq_nth : forall {A} (g : nat -> A) (l : list A) (d : A),
  (forall k, k < length l -> nth k l d = g k) -> map g (seq 0 (length l)) = l.
Proof.
  intros A g l d H. apply (nth_ext _ _ d d).
  - now rewrite map_length, seq_length.
  - intros k Hk. rewrite map_length, seq_length in Hk.
    rewrite (nth_indep _ d (g 0)) by (now rewrite map_length, seq_length).
    rewrite (map_nth g (seq 0 (length l)) 0 k), seq_nth by exact Hk. cbn. symmetry. now apply H.
Qed.
Lemma map2_len_min : forall {A B C} (h : A -> B -> C) (x : list A) (y : list B),
  length (map2 h x y) = Nat.min (length x) (length y).
Proof. intros A B C h x. induction x as [|a x IH]; intros [|b y]; cbn; try reflexivity. now rewrite IH. Qed.
Lemma map2_nth_d : forall {A B C} (h : A -> B -> C) (x : list A) (y : list B) (k : nat) (da : A) (db : B) (dc : C),
  k < length x -> k < length y -> nth k (map2 h x y) dc = h (nth k x da) (nth k y db).
Proof.
  intros A B C h x. induction x as [|a x IH]; intros [|b y] k da db dc Hx Hy; cbn in *; try lia.
  destruct k; [reflexivity|]. apply IH; lia.
Qed.
Lemma nth_tl_S : forall {A} (l : list A) (k : nat) (d : A), nth k (tl l) d = nth (S k) l d.
Proof. intros A [|a l] k d; [destruct k; reflexivity|reflexivity]. Qed.
Lemma map_repeat_const : forall {A B C} (h : A -> B) (c : A) (l : list C),
  map h (repeat c (length l)) = map (fun _ => h c) l.
Proof. intros A B C h c l. induction l as [|x l IH]; [reflexivity|]. cbn. now rewrite IH. Qed.
Lemma rs_vec_alloc_nat : forall {A} (c : A) (n : nat), (Z.of_nat n <= 1152921504606846975)%Z ->
  rs_vec_alloc c (Z.of_nat n) = Some (repeat c n).
Proof. intros A c n H. unfold rs_vec_alloc. apply Z.leb_le in H. now rewrite H, Nat2Z.id. Qed.
Lemma rs_vec_alloc_wrapped : forall {A} (c : A), rs_vec_alloc c (rs_usub 0 1) = None.
Proof. reflexivity. Qed.

(** ** a list against itself [off] places further on ([map2 h (skipn off x) x]); slices of an append; [upd] *)
Lemma nth_skipn_add : forall {A} (x : list A) (off k : nat) (d : A), nth k (skipn off x) d = nth (off + k) x d.
Proof.
  intros A x off. revert x. induction off as [|off IH]; intros x k d; [reflexivity|].
  destruct x as [|a x]; [destruct k; reflexivity|]. cbn [skipn Nat.add nth]. apply IH.
Qed.
Lemma map2_skipn_self : forall {A C} (h : A -> A -> C) (x : list A) (off : nat) (d : A),
  map (fun k => h (nth (off + k) x d) (nth k x d)) (seq 0 (length x - off)) = map2 h (skipn off x) x.
Proof.
  intros A C h x off d.
  assert (L : length (map2 h (skipn off x) x) = length x - off) by (rewrite map2_len_min, skipn_length; lia).
  rewrite <- L.
  apply (map_seq_eq_nth _ _ (h d d)). intros k Hk. rewrite L in Hk.
  rewrite (map2_nth_d _ _ _ k d d) by (try rewrite skipn_length; lia). now rewrite nth_skipn_add.
Qed.
Lemma firstn_app_exact : forall {A} (p q : list A), firstn (length p) (p ++ q) = p.
Proof. intros A p q. rewrite firstn_app, Nat.sub_diag, firstn_all. cbn. apply app_nil_r. Qed.
Lemma upd_app_exact : forall {A} (p q : list A) (z v : A), upd (p ++ z :: q) (length p) v = p ++ v :: q.
Proof. intros A p q z v. induction p as [|a p IH]; [reflexivity|]. cbn. now rewrite IH. Qed.

(** ** [skipn] arithmetic, chunk counts *)
Lemma skipn_add : forall {A} (l : list A) (a b : nat), skipn a (skipn b l) = skipn (b + a) l.
Proof.
  intros A l a b. revert l. induction b as [|b IH]; intro l; [reflexivity|].
  destruct l as [|x l]; [now rewrite !skipn_nil|]. cbn [skipn Nat.add]. apply IH.
Qed.
Lemma nth_error_skipn_add : forall {A} (l : list A) (k j : nat), nth_error (skipn k l) j = nth_error l (k + j).
Proof.
  intros A l k. revert l. induction k as [|k IH]; intros l j; [reflexivity|].
  destruct l as [|x l]; [now destruct j|]. cbn [skipn Nat.add nth_error]. apply IH.
Qed.
(** [(n - n % 8) / 8] on [usize] *)
Lemma chunks_nat : forall n : nat, Z.quot (rs_usub (Z.of_nat n) (Z.rem (Z.of_nat n) 8)) 8 = Z.of_nat (n / 8).
Proof.
  intro n. rewrite Z.rem_mod_nonneg by lia.
  pose proof (Z.mod_pos_bound (Z.of_nat n) 8 ltac:(lia)) as Hb.
  pose proof (Z.div_mod (Z.of_nat n) 8 ltac:(lia)) as Hd.
  assert (Hq : (0 <= Z.of_nat n / 8)%Z) by (apply Z.div_pos; lia).
  rewrite rs_usub_le by lia. rewrite Z.quot_div_nonneg by lia.
  rewrite (Nat2Z.inj_div n 8). change (Z.of_nat 8) with 8%Z.
  set (q := (Z.of_nat n / 8)%Z) in *. set (r := (Z.of_nat n mod 8)%Z) in *.
  replace (Z.of_nat n - r)%Z with (q * 8)%Z by lia. apply Z.div_mul. lia.
Qed.
Lemma fold_left_map2 : forall {A B S} (f : S -> A -> S) (h : B -> B -> A) (x y : list B) (s : S),
  fold_left f (map2 h x y) s = fold_left (fun s p => f s (h (fst p) (snd p))) (combine x y) s.
Proof.
  intros A B S f h x. induction x as [|a x IH]; intros [|b y] s; try reflexivity. cbn. apply IH.
Qed.
