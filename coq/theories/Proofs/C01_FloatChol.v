(** Proofs for C01 (extension), floating point: the Cholesky branch of [solve] end to end on binary64.
    [cholesky] gives A = L L^T + dA0, |dA0| <= E(n+1) |L||L^T|  (C11_FloatChol);  [cholesky_solve] gives
    T1 (T2 x) = b with |T1 - L| <= E(n) |L|, |T2 - L^T| <= E(n) |L^T|  (C11_FloatPert).  Hence x solves EXACTLY
        A' x = b ,  A' = T1 T2 ,  | A' - A | <= ( E(n+1) + (1 + E(n))^2 - 1 ) |L||L^T|  <=  E(3n+1) |L||L^T|
    componentwise, E(k) = (1 + 2^-53)^k - 1, [b] unperturbed.  The code reads the lower triangle of A only, so A is
    the mirrored lower triangle (all of A when A is exactly symmetric). *)
From Coq Require Import List Arith Bool ZArith Reals Lra Lia Floats.
From Flocq Require Import Core BinarySingleNaN PrimFloat.
From Compute Require Import Base.Ops Base.ListMat Model.Reduce Model.MatMul Model.Subst Model.Cholesky Model.LU Model.Solve Model.SolveInst
  Spec.Vops Spec.Factor
  Proofs.C04Red Proofs.C04Err Proofs.C04ErrF Proofs.C04ErrDot Proofs.C04ErrNP Proofs.C05 Proofs.LinAlgBase Proofs.C11_Subst
  Proofs.C11_Chol Proofs.C11_FloatBase Proofs.C11_FloatSubst Proofs.C11_FloatPert Proofs.C11_FloatChol.
Import ListNotations.
Local Open Scope R_scope.

(** ** real arithmetic *)
Lemma rsum_le_compat f g n : (forall k, (k < n)%nat -> f k <= g k) -> rsum f n <= rsum g n.
Proof.
  induction n as [|n IH]; intros H; cbn [rsum]; [lra|].
  assert (rsum f n <= rsum g n) by (apply IH; intros; apply H; lia). specialize (H n ltac:(lia)). lra.
Qed.

Lemma Rabs_rsum_le f n : Rabs (rsum f n) <= rsum (fun k => Rabs (f k)) n.
Proof.
  induction n as [|n IH]; cbn [rsum]; [rewrite Rabs_R0; lra|].
  eapply Rle_trans; [apply Rabs_triang|]. lra.
Qed.

(** the product of two factors, each within [g] (relatively, entrywise) of L resp. L^T *)
Lemma product_perturbation (P : nat -> nat -> R) (T1 T2 : list R) (n : nat) (g : R) :
  0 <= g ->
  (forall i k, (i < n)%nat -> (k < n)%nat -> Rabs (getm T1 n i k - P i k) <= g * Rabs (P i k)) ->
  (forall k j, (k < n)%nat -> (j < n)%nat -> Rabs (getm T2 n k j - P j k) <= g * Rabs (P j k)) ->
  forall i j, (i < n)%nat -> (j < n)%nat ->
    Rabs (rsum (fun k => getm T1 n i k * getm T2 n k j) n - rsum (fun k => P i k * P j k) n)
    <= ((1 + g) ^ 2 - 1) * rsum (fun k => Rabs (P i k) * Rabs (P j k)) n.
Proof.
  intros Hg H1 H2 i j Hi Hj.
  rewrite <- rsum_minus, <- rsum_scal_l.
  eapply Rle_trans; [apply Rabs_rsum_le|]. apply rsum_le_compat. intros k Hk.
  specialize (H1 i k Hi Hk). specialize (H2 k j Hk Hj).
  set (a := getm T1 n i k) in *. set (b := getm T2 n k j) in *. set (p := P i k) in *. set (q := P j k) in *.
  replace (a * b - p * q) with ((a - p) * b + p * (b - q)) by ring.
  eapply Rle_trans; [apply Rabs_triang|]. rewrite !Rabs_mult.
  assert (Hb : Rabs b <= (1 + g) * Rabs q).
  { replace b with (q + (b - q)) at 1 by ring. eapply Rle_trans; [apply Rabs_triang|]. lra. }
  pose proof (Rabs_pos p). pose proof (Rabs_pos q). pose proof (Rabs_pos (a - p)). pose proof (Rabs_pos (b - q)).
  pose proof (Rabs_pos b).
  assert (Rabs (a - p) * Rabs b <= (g * Rabs p) * ((1 + g) * Rabs q)) by (apply Rmult_le_compat; lra).
  assert (Rabs p * Rabs (b - q) <= Rabs p * (g * Rabs q)) by (apply Rmult_le_compat_l; lra).
  simpl. nra.
Qed.

Lemma gamma_compose (u : R) (n : nat) :
  0 <= u -> E u (S n) + ((1 + E u n) ^ 2 - 1) <= E u (3 * n + 1).
Proof.
  intros Hu. unfold E.
  replace (1 + ((1 + u) ^ n - 1)) with ((1 + u) ^ n) by ring.
  replace (3 * n + 1)%nat with (S n + (n + n))%nat by lia. rewrite (pow_add (1 + u) (S n)), (pow_add (1 + u) n).
  assert (H1 : 1 <= (1 + u) ^ S n) by (apply pow_R1_Rle; lra).
  assert (H2 : 1 <= (1 + u) ^ n) by (apply pow_R1_Rle; lra).
  set (p := (1 + u) ^ S n) in *. set (q := (1 + u) ^ n) in *.
  replace (q ^ 2) with (q * q) by ring.
  assert (H3 : 1 <= q * q) by nra.
  assert (H4 : 0 <= (p - 1) * (q * q - 1)) by (apply Rmult_le_pos; lra).
  lra.
Qed.

(** ** factor, then solve *)
Theorem cholesky_then_solve_backward_error (tbl : libm_table) (a b l y lt x : list pfloat) (n : nat) :
  cholesky (FO tbl) a = Some l -> (n * n)%nat = length a ->
  cholesky_solve (FO tbl) l b = Some x ->
  forward_substitution (FO tbl) l b = Some y -> transpose (FO tbl) l n = Some lt ->
  Forall finite l -> Forall finite y -> Forall finite x ->
  (* the factorisation *)
  (forall i j k, (i < n)%nat -> (j <= i)%nat -> (k < j)%nat ->
     B2Rf (nth (j * n + k) l 0%float) * B2Rf (nth (i * n + k) l 0%float) = 0 \/
     / 2 ^ 1022 <= Rabs (B2Rf (nth (j * n + k) l 0%float) * B2Rf (nth (i * n + k) l 0%float))) ->
  (forall i j, (i < n)%nat -> (j < i)%nat ->
     let s := (nth (i * n + j) a 0 - dot_raw (FO tbl) (firstn j (skipn (j * n) l)) (firstn j (skipn (i * n) l)))%float in
     B2Rf s / B2Rf (nth (j * n + j) l 0%float) = 0 \/ / 2 ^ 1022 <= Rabs (B2Rf s / B2Rf (nth (j * n + j) l 0%float))) ->
  (* forward solve L y = b *)
  (forall i j, (i < n)%nat -> (j < i)%nat ->
     B2Rf (nth (i * n + j) l 0%float) * B2Rf (nth j y 0%float) = 0 \/
     / 2 ^ 1022 <= Rabs (B2Rf (nth (i * n + j) l 0%float) * B2Rf (nth j y 0%float))) ->
  (forall i, (i < n)%nat ->
     let s := (nth i b 0 - dot_raw (FO tbl) (firstn i (skipn (i * n) l)) (firstn i y))%float in
     B2Rf s / B2Rf (nth (i * n + i) l 0%float) = 0 \/ / 2 ^ 1022 <= Rabs (B2Rf s / B2Rf (nth (i * n + i) l 0%float))) ->
  (* backward solve L^T x = y *)
  (forall i j, (i < j)%nat -> (j < n)%nat ->
     B2Rf (nth (j * n + i) l 0%float) * B2Rf (nth j x 0%float) = 0 \/
     / 2 ^ 1022 <= Rabs (B2Rf (nth (j * n + i) l 0%float) * B2Rf (nth j x 0%float))) ->
  (forall i, (i < n)%nat ->
     let s := (nth i y 0 - dot_raw (FO tbl) (firstn (n - S i) (skipn (i * n + S i) lt)) (skipn (S i) x))%float in
     B2Rf s / B2Rf (nth (i * n + i) l 0%float) = 0 \/ / 2 ^ 1022 <= Rabs (B2Rf s / B2Rf (nth (i * n + i) l 0%float))) ->
  let A := map B2Rf a in let L := map B2Rf l in let B := map B2Rf b in let X := map B2Rf x in
  let gamma' := (1 + / 2 ^ 53) ^ (3 * n + 1) - 1 in
  exists A' : list R,
    length A' = (n * n)%nat /\
    (forall i, (i < n)%nat -> mvec A' n X i = nth i B 0) /\
    (forall i j, (i < n)%nat -> (j < n)%nat ->
       Rabs (getm A' n i j - getm A n (Nat.max i j) (Nat.min i j))
       <= gamma' * rsum (fun k => Rabs (getm L n i k) * Rabs (getm L n j k)) n) /\
    (symmetric A n ->
     forall i j, (i < n)%nat -> (j < n)%nat ->
       Rabs (getm A' n i j - getm A n i j) <= gamma' * rsum (fun k => Rabs (getm L n i k) * Rabs (getm L n j k)) n).
Proof.
  intros Hch Hn Hcs Hfw Htr Hfl Hfy Hfx Hcp Hcq Hp1 Hq1 Hp2 Hq2. cbv zeta.
  destruct (cholesky_backward_error tbl a l n Hch Hn Hfl Hcp Hcq) as (Hll & Hlow & Hpos & _ & Hcb & _).
  assert (Hdiag : forall i, (i < n)%nat -> finite (nth (i * n + i) l 0%float) /\ B2Rf (nth (i * n + i) l 0%float) <> 0).
  { intros i Hi. split.
    - apply (proj1 (Forall_forall finite l) Hfl). apply nth_In. rewrite Hll. nia.
    - specialize (Hpos i Hi). unfold getm in Hpos. rewrite nth_map_B2Rf in Hpos. lra. }
  destruct (cholesky_solve_backward_error tbl l b y lt x n Hcs (eq_sym Hll) Hfw Htr Hdiag Hfy Hfx Hp1 Hq1 Hp2 Hq2)
    as (T1 & T2 & Hl1 & Hl2 & _ & _ & Hb1 & Hb2 & _ & _ & Hsol).
  set (L := map B2Rf l) in *. set (A := map B2Rf a) in *. set (X := map B2Rf x) in *.
  set (g := (1 + / 2 ^ 53) ^ n - 1) in *.
  assert (Hg : 0 <= g) by apply gamma_nonneg.
  assert (HLP : forall i j, (i < n)%nat -> (j < n)%nat -> lower_part L n i j = getm L n i j).
  { intros i j Hi Hj. apply lower_part_triangular; assumption. }
  exists (flat_of n (fun i j => rsum (fun k => getm T1 n i k * getm T2 n k j) n)).
  split; [apply flat_of_length|]. split.
  { intros i Hi. rewrite <- (Hsol i Hi). unfold mvec.
    rewrite (rsum_ext _ (fun j => rsum (fun k => getm T1 n i k * getm T2 n k j * nth j X 0) n)).
    2:{ intros j Hj. rewrite getm_flat_of by assumption. rewrite <- rsum_scal_r. reflexivity. }
    rewrite rsum_swap. apply rsum_ext. intros k Hk. rewrite <- rsum_scal_l. apply rsum_ext. intros j Hj. ring. }
  assert (Hmain : forall i j, (i < n)%nat -> (j < n)%nat ->
            Rabs (getm (flat_of n (fun i j => rsum (fun k => getm T1 n i k * getm T2 n k j) n)) n i j
                  - getm A n (Nat.max i j) (Nat.min i j))
            <= ((1 + / 2 ^ 53) ^ (3 * n + 1) - 1) * rsum (fun k => Rabs (getm L n i k) * Rabs (getm L n j k)) n).
  { intros i j Hi Hj. rewrite getm_flat_of by assumption.
    assert (Hpp : Rabs (rsum (fun k => getm T1 n i k * getm T2 n k j) n - rsum (fun k => getm L n i k * getm L n j k) n)
                  <= ((1 + g) ^ 2 - 1) * rsum (fun k => Rabs (getm L n i k) * Rabs (getm L n j k)) n).
    { apply (product_perturbation (fun i k => getm L n i k) T1 T2 n g Hg); try assumption.
      - intros i' k Hi' Hk. cbv beta. rewrite <- (HLP i' k) by assumption. apply Hb1; assumption.
      - intros k j' Hk Hj'. cbv beta. rewrite <- (HLP j' k) by assumption. apply Hb2; assumption. }
    set (S := rsum (fun k => getm L n i k * getm L n j k) n) in *.
    set (AS := rsum (fun k => Rabs (getm L n i k) * Rabs (getm L n j k)) n) in *.
    assert (HAS : 0 <= AS) by (apply rsum_abs_nonneg).
    assert (Hc : Rabs (getm A n (Nat.max i j) (Nat.min i j) - S) <= ((1 + / 2 ^ 53) ^ (n + 1) - 1) * AS).
    { destruct (Nat.le_gt_cases j i) as [Hji|Hij].
      - rewrite Nat.max_l, Nat.min_r by lia. apply Hcb; assumption.
      - rewrite Nat.max_r, Nat.min_l by lia. unfold S, AS.
        rewrite (rsum_ext (fun k => getm L n i k * getm L n j k) (fun k => getm L n j k * getm L n i k)) by (intros; ring).
        rewrite (rsum_ext (fun k => Rabs (getm L n i k) * Rabs (getm L n j k))
                          (fun k => Rabs (getm L n j k) * Rabs (getm L n i k))) by (intros; ring).
        apply Hcb; lia. }
    pose proof (gamma_compose u64 n u64_nonneg) as Hgc. unfold E in Hgc. rewrite u64_val in Hgc.
    fold g in Hgc. replace (n + 1)%nat with (Datatypes.S n) in Hc by lia.
    match goal with |- Rabs (?p - ?q) <= _ => replace (p - q) with ((p - S) - (q - S)) by ring end.
    eapply Rle_trans; [apply Rabs_triang|]. rewrite Rabs_Ropp.
    assert (((1 + / 2 ^ 53) ^ Datatypes.S n - 1 + ((1 + g) ^ 2 - 1)) * AS
            <= ((1 + / 2 ^ 53) ^ (3 * n + 1) - 1) * AS) by (apply Rmult_le_compat_r; assumption).
    lra. }
  split; [exact Hmain|].
  intros Hsym i j Hi Hj. specialize (Hmain i j Hi Hj).
  destruct (Nat.le_gt_cases j i) as [Hji|Hij].
  - rewrite Nat.max_l, Nat.min_r in Hmain by lia. exact Hmain.
  - rewrite Nat.max_r, Nat.min_l in Hmain by lia. rewrite (Hsym i j Hi Hj). exact Hmain.
Qed.

(** ** the Cholesky branch of [solve] (any carrier): when the routing predicate accepts and the fallible sweep
    returns a factor, [solve] IS [cholesky_solve] with that factor *)
Lemma solve_cholesky_branch {T : Type} (O : Ops T) (a b l x : list T) :
  slice_solve O a b = Some x -> is_positive_definite O a = Some true -> try_cholesky O a = Some (Some l) ->
  length a = (length b * length b)%nat /\ cholesky O a = Some l /\ cholesky_solve O l b = Some x.
Proof.
  unfold slice_solve, solve, factor. intros H Hpd Htc.
  destruct (Nat.eqb_spec (length a) (length b * length b)) as [Hl|]; cbn [guard bind] in H; [|discriminate].
  rewrite Hpd in H. cbn [bind] in H. rewrite Htc in H. cbn [bind] in H.
  split; [exact Hl|]. split; [apply cholesky_checked_spec; exact Htc|exact H].
Qed.

Theorem solve_cholesky_branch_backward_error (tbl : libm_table) (a b l y lt x : list pfloat) (n : nat) :
  slice_solve (FO tbl) a b = Some x -> is_positive_definite (FO tbl) a = Some true ->
  try_cholesky (FO tbl) a = Some (Some l) -> length b = n ->
  forward_substitution (FO tbl) l b = Some y -> transpose (FO tbl) l n = Some lt ->
  Forall finite l -> Forall finite y -> Forall finite x ->
  (forall i j k, (i < n)%nat -> (j <= i)%nat -> (k < j)%nat ->
     B2Rf (nth (j * n + k) l 0%float) * B2Rf (nth (i * n + k) l 0%float) = 0 \/
     / 2 ^ 1022 <= Rabs (B2Rf (nth (j * n + k) l 0%float) * B2Rf (nth (i * n + k) l 0%float))) ->
  (forall i j, (i < n)%nat -> (j < i)%nat ->
     let s := (nth (i * n + j) a 0 - dot_raw (FO tbl) (firstn j (skipn (j * n) l)) (firstn j (skipn (i * n) l)))%float in
     B2Rf s / B2Rf (nth (j * n + j) l 0%float) = 0 \/ / 2 ^ 1022 <= Rabs (B2Rf s / B2Rf (nth (j * n + j) l 0%float))) ->
  (forall i j, (i < n)%nat -> (j < i)%nat ->
     B2Rf (nth (i * n + j) l 0%float) * B2Rf (nth j y 0%float) = 0 \/
     / 2 ^ 1022 <= Rabs (B2Rf (nth (i * n + j) l 0%float) * B2Rf (nth j y 0%float))) ->
  (forall i, (i < n)%nat ->
     let s := (nth i b 0 - dot_raw (FO tbl) (firstn i (skipn (i * n) l)) (firstn i y))%float in
     B2Rf s / B2Rf (nth (i * n + i) l 0%float) = 0 \/ / 2 ^ 1022 <= Rabs (B2Rf s / B2Rf (nth (i * n + i) l 0%float))) ->
  (forall i j, (i < j)%nat -> (j < n)%nat ->
     B2Rf (nth (j * n + i) l 0%float) * B2Rf (nth j x 0%float) = 0 \/
     / 2 ^ 1022 <= Rabs (B2Rf (nth (j * n + i) l 0%float) * B2Rf (nth j x 0%float))) ->
  (forall i, (i < n)%nat ->
     let s := (nth i y 0 - dot_raw (FO tbl) (firstn (n - S i) (skipn (i * n + S i) lt)) (skipn (S i) x))%float in
     B2Rf s / B2Rf (nth (i * n + i) l 0%float) = 0 \/ / 2 ^ 1022 <= Rabs (B2Rf s / B2Rf (nth (i * n + i) l 0%float))) ->
  let A := map B2Rf a in let L := map B2Rf l in let B := map B2Rf b in let X := map B2Rf x in
  let gamma' := (1 + / 2 ^ 53) ^ (3 * n + 1) - 1 in
  cholesky_solve (FO tbl) l b = Some x /\
  exists A' : list R,
    length A' = (n * n)%nat /\
    (forall i, (i < n)%nat -> mvec A' n X i = nth i B 0) /\
    (forall i j, (i < n)%nat -> (j < n)%nat ->
       Rabs (getm A' n i j - getm A n (Nat.max i j) (Nat.min i j))
       <= gamma' * rsum (fun k => Rabs (getm L n i k) * Rabs (getm L n j k)) n) /\
    (symmetric A n ->
     forall i j, (i < n)%nat -> (j < n)%nat ->
       Rabs (getm A' n i j - getm A n i j) <= gamma' * rsum (fun k => Rabs (getm L n i k) * Rabs (getm L n j k)) n).
Proof.
  intros Hs Hpd Htc Hb Hfw Htr Hfl Hfy Hfx Hcp Hcq Hp1 Hq1 Hp2 Hq2.
  destruct (solve_cholesky_branch (FO tbl) a b l x Hs Hpd Htc) as (Hla & Hch & Hcs). rewrite Hb in Hla.
  split; [exact Hcs|].
  apply (cholesky_then_solve_backward_error tbl a b l y lt x n Hch (eq_sym Hla) Hcs Hfw Htr Hfl Hfy Hfx Hcp Hcq Hp1 Hq1 Hp2 Hq2).
Qed.
