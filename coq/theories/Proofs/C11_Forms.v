(** Proofs for C11, part 6: the [Matrix] methods return what the slice functions return, on EVERY
    carrier (so bit for bit on binary64): triangular solves, [lu_solve], [solve]. *)
From Coq Require Import List Arith Bool Lia.
From Compute Require Import Base.Ops Base.ListMat Model.Reduce Model.MatMul Model.Subst Model.LU
  Proofs.C11_Subst Proofs.C11_Det.
Import ListNotations.

Section Forms.
  Context {T : Type} (O : Ops T).

  Lemma square_guard (m : matrix (T:=T)) :
    well_formed m && (nr m =? nc m) = true ->
    nr m = nc m /\ is_square (length (dat m)) = Some (nr m) /\ mrows m = unflatten (dat m) (nr m) (nr m).
  Proof.
    intros Hg. apply andb_prop in Hg. destruct Hg as [Hwf Hsq]. apply Nat.eqb_eq in Hsq.
    unfold well_formed in Hwf. apply andb_prop in Hwf. destruct Hwf as [_ Hlen]. apply Nat.eqb_eq in Hlen.
    unfold mrows. rewrite <- Hsq in *. rewrite <- Hlen, is_square_sq. auto.
  Qed.

  Lemma matrix_fwd_eq_slice (m : matrix (T:=T)) b x :
    matrix_forward_substitution O m b = Some x -> forward_substitution O (dat m) b = Some x.
  Proof.
    unfold matrix_forward_substitution, forward_substitution.
    destruct (well_formed m && (nr m =? nc m)) eqn:Hg; cbn [guard bind]; [|discriminate].
    destruct (square_guard m Hg) as (Hsq & Hs & Hrows). rewrite Hs, Hrows, <- Hsq. cbn [bind].
    destruct (is_lower_triangular_rows O _ _ _); cbn [guard bind]; [|discriminate].
    destruct (length b =? nr m); cbn [guard bind]; auto.
  Qed.

  Lemma matrix_bwd_eq_slice (m : matrix (T:=T)) b x :
    matrix_backward_substitution O m b = Some x -> backward_substitution O (dat m) b = Some x.
  Proof.
    unfold matrix_backward_substitution, backward_substitution.
    destruct (well_formed m && (nr m =? nc m)) eqn:Hg; cbn [guard bind]; [|discriminate].
    destruct (square_guard m Hg) as (Hsq & Hs & Hrows). rewrite Hs, Hrows, <- Hsq. cbn [bind].
    destruct (is_upper_triangular_rows O _ _); cbn [guard bind]; [|discriminate].
    destruct (length b =? nr m); cbn [guard bind]; auto.
  Qed.

  Lemma matrix_lu_solve_eq_slice (m : matrix (T:=T)) piv b x :
    matrix_lu_solve O m piv b = Some x -> lu_solve O (dat m) piv b = Some x.
  Proof.
    unfold matrix_lu_solve.
    destruct (well_formed m && (nr m =? nc m)); cbn [guard bind]; [|discriminate].
    destruct (nr m =? length b); cbn [guard bind]; [auto|discriminate].
  Qed.

  Lemma matrix_solve_eq_slice (m : matrix (T:=T)) b x :
    matrix_solve O m b = Some x ->
    exists l piv, lu O (dat m) = Some (l, piv) /\ lu_solve O l piv b = Some x.
  Proof.
    unfold matrix_solve. destruct (matrix_lu O m) as [[r piv]|] eqn:Hlu; cbn [bind]; [|discriminate].
    intros H. destruct (matrix_lu_eq_slice O m r piv Hlu) as (Hs & _).
    exists (dat r), piv. split; auto. apply matrix_lu_solve_eq_slice; auto.
  Qed.
End Forms.
