(** * C10 — Levenberg-Marquardt: the returned state belongs to the returned point (any carrier);
    accepted steps never increase the residual sum of squares, for every step budget (reals,
    the inner linear solve abstracted by its defining equation); the covariance formula. *)
From Coq Require Import List Arith ZArith Bool Lia Reals Lra QArith.
From Compute Require Import Base.Ops Base.ListMat Model.Reduce Model.MatMul Model.Optim Spec.MatMul Proofs.C05 Proofs.C10.
Import ListNotations.
Local Close Scope Q_scope.

(** ** Part A (any carrier): what the loop carries along *)
Section Carried.
  Context {T : Type} (O : Ops T).
  Variable resid : list T -> option (list T).
  Variable jac0 jac1 : list T -> option (list (list T)).
  Variable solve : matrix (T:=T) -> list T -> option (list T).
  Variable inv : matrix (T:=T) -> option (list T).
  Variable h : lm_hp (T:=T).

  (** the residuals, [J^T J] and [J^T r] of the state are those of the state's parameters *)
  Definition at_point (st : lm_state (T:=T)) : Prop :=
    resid (lm_ps st) = Some (lm_res st) /\
    exists J, (jac0 (lm_ps st) = Some J \/ jac1 (lm_ps st) = Some J) /\
              normal_eqs O J (length (lm_ps st)) (lm_res st) = Some (lm_jtj st, lm_jtr st).

  Lemma bind_some {A B} (o : option A) (f : A -> option B) b :
    bind o f = Some b -> exists a, o = Some a /\ f a = Some b.
  Proof. destruct o; cbn; [eauto|discriminate]. Qed.

  Lemma normal_eqs_len J p r jtj jtr : normal_eqs O J p r = Some (jtj, jtr) -> length jtr = p.
  Proof.
    unfold normal_eqs. intros Hn.
    apply bind_some in Hn as (Jm & HJm & Hn). apply bind_some in Hn as (g & Hg & Hn).
    apply bind_some in Hn as (v & Hv & Hn). apply bind_some in Hn as (tm & Htm & Hn).
    injection Hn as _ <-.
    unfold mat_vec_dot in Hv.
    apply bind_some in Hv as (o1 & Ho1 & Hv). apply bind_some in Hv as (o2 & Ho2 & Hv).
    apply bind_some in Hv as (rm & Hrm & Hv). injection Hv as <-.
    unfold mat_mat_dot in Hrm. apply bind_some in Hrm as (u & _ & Hrm).
    apply bind_some in Hrm as (dd & _ & Hrm).
    unfold matrix_new in Hrm. apply bind_some in Hrm as (u2 & Hg2 & Hrm). injection Hrm as <-. cbn.
    unfold guard in Hg2. destruct (_ && _) eqn:E in Hg2; [|discriminate].
    apply andb_prop in E as [E1 E3]. apply andb_prop in E1 as [E1 E2].
    apply Nat.eqb_eq in E3. rewrite <- E3.
    unfold matrix_new in HJm. apply bind_some in HJm as (u3 & _ & HJm). injection HJm as <-. cbn.
    unfold t_mut in Ho2. apply bind_some in Ho2 as (td & _ & Ho2). injection Ho2 as <-. cbn.
    unfold to_matrix, matrix_new in Ho1. apply bind_some in Ho1 as (u4 & _ & Ho1). injection Ho1 as <-. cbn. lia.
  Qed.

  Lemma lm_init_at_point ps st : lm_init O resid jac0 h ps = Some st -> at_point st /\ lm_ps st = ps.
  Proof.
    unfold lm_init. intros H.
    apply bind_some in H as (r & Hr & H). apply bind_some in H as (J & HJ & H).
    apply bind_some in H as ([jtj jtr] & Hn & H). injection H as <-. cbn.
    split; [|reflexivity]. split; cbn; [exact Hr|]. exists J. split; [left; exact HJ|exact Hn].
  Qed.

  (** every state produced by a step keeps the parameter count, and is at its point if the
      parameters have the length the solve returns *)
  Lemma lm_step_at_point st st' :
    lm_step O resid jac1 solve h st = Some st' -> at_point st ->
    (forall A b d, solve A b = Some d -> length d = length b) ->
    length (lm_jtr st) = length (lm_ps st) ->
    at_point st' /\ length (lm_ps st') = length (lm_ps st) /\ length (lm_jtr st') = length (lm_ps st').
  Proof.
    intros H Hat Hsl Hlen. unfold lm_step in H.
    apply bind_some in H as (d & Hd & H).
    destruct (leb O (norm O d) _).
    - injection H as <-. cbn. auto.
    - apply bind_some in H as (r' & Hr' & H). apply bind_some in H as (pred & Hp & H).
      assert (Ld : length (map2 (add O) (lm_ps st) d) = length (lm_ps st)).
      { apply map2_len. rewrite (Hsl _ _ _ Hd). exact Hlen. }
      destruct (ltb O (zero O) _).
      + apply bind_some in H as (J & HJ & H). apply bind_some in H as ([jtj jtr] & Hn & H).
        injection H as <-. cbn. split; [|split].
        * split; cbn; [exact Hr'|]. exists J. split; [right; exact HJ|]. rewrite Ld. exact Hn.
        * exact Ld.
        * rewrite Ld. exact (normal_eqs_len _ _ _ _ _ Hn).
      + injection H as <-. cbn. auto.
  Qed.

  Hypothesis solve_len : forall A b d, solve A b = Some d -> length d = length b.

  Lemma lm_loop_at_point fuel : forall st st',
    lm_loop O resid jac1 solve h fuel st = Some st' -> at_point st ->
    length (lm_jtr st) = length (lm_ps st) ->
    at_point st' /\ length (lm_ps st') = length (lm_ps st).
  Proof.
    induction fuel as [|fuel IH]; intros st st' H Hat Hl; cbn [lm_loop] in H.
    - injection H as <-. auto.
    - destruct (lm_stop st); [injection H as <-; auto|].
      apply bind_some in H as (s1 & H1 & H).
      destruct (lm_step_at_point _ _ H1 Hat solve_len Hl) as (A1 & L1 & L2).
      destruct (IH _ _ H A1 L2) as (A2 & L3). split; [exact A2|congruence].
  Qed.

  (** the complete description of what [optimize] returns *)
  Theorem lm_result maxsteps ps0 popt cov :
    lm O resid jac0 jac1 solve inv h maxsteps ps0 = Some (popt, cov) ->
    exists r J G g ji,
      length popt = length ps0 /\ resid popt = Some r /\
      (jac0 popt = Some J \/ jac1 popt = Some J) /\
      normal_eqs O J (length popt) r = Some (G, g) /\
      inv G = Some ji /\ length popt <= length r /\
      cov = map (mul O (div O (dot_raw O r r) (ofZ O (Z.of_nat (length r - length popt))))) ji.
  Proof.
    unfold lm. intros H.
    apply bind_some in H as (st0 & H0 & H). apply bind_some in H as (st & Hl & H).
    destruct (lm_init_at_point _ _ H0) as (A0 & P0).
    assert (L0 : length (lm_jtr st0) = length (lm_ps st0)).
    { destruct A0 as (_ & J & _ & Hn). exact (normal_eqs_len _ _ _ _ _ Hn). }
    destruct (lm_loop_at_point _ _ _ Hl A0 L0) as ((Hr & J & HJ & Hn) & Lp).
    unfold lm_finish in H.
    apply bind_some in H as (u1 & Hg1 & H). apply bind_some in H as (u2 & _ & H).
    apply bind_some in H as (ji & Hji & H). injection H as <- <-.
    exists (lm_res st), J, (lm_jtj st), (lm_jtr st), ji.
    split; [congruence|]. split; [exact Hr|]. split; [exact HJ|]. split; [exact Hn|]. split; [exact Hji|].
    split; [|reflexivity].
    unfold guard in Hg1. destruct (Nat.leb _ _) eqn:E in Hg1; [|discriminate]. apply Nat.leb_le in E. exact E.
  Qed.
End Carried.

(** ** Part B (reals) *)
Local Open Scope R_scope.

Fixpoint rsum (f : nat -> R) (n : nat) : R :=
  match n with O => 0 | S n' => rsum f n' + f n' end.

Lemma rsum_ext f g n : (forall k, (k < n)%nat -> f k = g k) -> rsum f n = rsum g n.
Proof. induction n; cbn; intros H; [reflexivity|]. rewrite IHn, H by (intros; try apply H; lia). reflexivity. Qed.
Lemma rsum_plus f g n : rsum (fun k => f k + g k) n = rsum f n + rsum g n.
Proof. induction n; cbn; [ring|]. rewrite IHn. ring. Qed.
Lemma rsum_scal c f n : rsum (fun k => c * f k) n = c * rsum f n.
Proof. induction n; cbn; [ring|]. rewrite IHn. ring. Qed.
Lemma rsum_scal_r c f n : rsum (fun k => f k * c) n = rsum f n * c.
Proof. induction n; cbn; [ring|]. rewrite IHn. ring. Qed.
Lemma rsum_zero n : rsum (fun _ => 0) n = 0.
Proof. induction n; cbn; [reflexivity|]. rewrite IHn. ring. Qed.
Lemma rsum_swap (f : nat -> nat -> R) n m :
  rsum (fun i => rsum (fun j => f i j) m) n = rsum (fun j => rsum (fun i => f i j) n) m.
Proof.
  induction n; cbn.
  - symmetry. apply rsum_zero.
  - rewrite IHn. symmetry. apply rsum_plus.
Qed.
Lemma rsum_nonneg f n : (forall k, (k < n)%nat -> 0 <= f k) -> 0 <= rsum f n.
Proof. induction n; cbn; intros H; [lra|]. assert (0 <= rsum f n) by (apply IHn; intros; apply H; lia). assert (0 <= f n) by (apply H; lia). lra. Qed.
Lemma rsum_mul f g n m : rsum f n * rsum g m = rsum (fun i => rsum (fun j => f i * g j) m) n.
Proof.
  transitivity (rsum (fun i => f i * rsum g m) n).
  - symmetry. apply rsum_scal_r.
  - apply rsum_ext. intros i _. symmetry. apply rsum_scal.
Qed.
Lemma rsum_delta i c n : (i < n)%nat -> rsum (fun j => if (i =? j)%nat then c else 0) n = c.
Proof.
  induction n; intros Hi; [lia|]. cbn. destruct (Nat.eq_dec i n) as [->|Hne].
  - rewrite Nat.eqb_refl. rewrite (rsum_ext _ (fun _ => 0)).
    + rewrite rsum_zero. ring.
    + intros k Hk. destruct (Nat.eqb_spec n k); [lia|reflexivity].
  - destruct (Nat.eqb_spec i n); [contradiction|]. rewrite IHn by lia. ring.
Qed.

Lemma sumk_rsum f n : sumk RO f n = rsum f n.
Proof.
  unfold sumk. induction n; [reflexivity|].
  rewrite seq_S, fold_left_app, IHn. reflexivity.
Qed.

(** left fold = [rsum] over indices *)
Lemma fold_plus_rsum (l : list R) s : fold_left Rplus l s = s + rsum (fun i => nth i l 0) (length l).
Proof.
  revert s. induction l as [|a l IH] using rev_ind; intros s; [cbn; ring|].
  rewrite fold_left_app, app_length. cbn [fold_left length]. rewrite Nat.add_1_r. cbn [rsum].
  rewrite IH. rewrite app_nth2 by lia. rewrite Nat.sub_diag. cbn [nth].
  rewrite (rsum_ext (fun i => nth i (l ++ [a]) 0) (fun i => nth i l 0)) by (intros; apply app_nth1; assumption).
  ring.
Qed.

Lemma nth_map2_R (x y : list R) i : length y = length x ->
  nth i (map2 Rmult x y) 0 = nth i x 0 * nth i y 0.
Proof.
  revert y i. induction x as [|a x IH]; intros [|b y] [|i]; cbn; intros; try lia; try ring.
  apply IH. lia.
Qed.

(** the 8-way unrolled dot product is the sum of products *)
Lemma dot8_fold fuel : forall s x y, (length x < fuel)%nat ->
  dot8 RO fuel s x y = fold_left Rplus (map2 Rmult x y) s.
Proof.
  induction fuel as [|fuel IH]; intros s x y Hl; [lia|].
  cbn [dot8].
  destruct x as [|x0 [|x1 [|x2 [|x3 [|x4 [|x5 [|x6 [|x7 x']]]]]]]]; try reflexivity;
  destruct y as [|y0 [|y1 [|y2 [|y3 [|y4 [|y5 [|y6 [|y7 y']]]]]]]]; try reflexivity.
  rewrite IH by (cbn [length] in Hl; lia).
  cbn [map2 fold_left add mul RO]. f_equal. ring.
Qed.

Lemma dot_raw_rsum x y : length y = length x ->
  dot_raw RO x y = rsum (fun i => nth i x 0 * nth i y 0) (length x).
Proof.
  intros Hl. unfold dot_raw. rewrite dot8_fold by lia. rewrite fold_plus_rsum.
  cbn [zero RO]. rewrite map2_len by exact Hl.
  rewrite (rsum_ext _ (fun i => nth i x 0 * nth i y 0)) by (intros; apply nth_map2_R; exact Hl). ring.
Qed.

Lemma dot_raw_nonneg x : 0 <= dot_raw RO x x.
Proof. rewrite dot_raw_rsum by reflexivity. apply rsum_nonneg. intros. apply Rle_0_sqr. Qed.

(** *** positive semi-definiteness of a Gram matrix *)
Definition entry (m : matrix (T:=R)) (i j : nat) : R := nth (i * nc m + j) (dat m) 0.
Definition quad (m : matrix (T:=R)) (d : nat -> R) : R :=
  rsum (fun i => d i * rsum (fun j => entry m i j * d j) (nc m)) (nr m).
Definition psd (m : matrix (T:=R)) : Prop :=
  nr m = nc m /\ (forall d, 0 <= quad m d) /\ (forall i, (i < nr m)%nat -> 0 <= entry m i i).

Lemma dims_gram n p : (0 < n)%nat -> dims (n * p) (n * p) n n true false = Some (p, p, p, n, p).
Proof.
  intros Hn. unfold dims.
  assert (E : (0 <? n)%nat = true) by (apply Nat.ltb_lt; exact Hn). rewrite E.
  rewrite Nat.mul_comm, Nat.mod_mul by lia. rewrite Nat.eqb_refl. cbn [andb].
  rewrite Nat.div_mul by lia. rewrite Nat.eqb_refl. reflexivity.
Qed.

Lemma gram_entries (Jm G : matrix (T:=R)) :
  length (dat Jm) = (nr Jm * nc Jm)%nat -> (0 < nr Jm)%nat ->
  mat_mat_dot RO DotTN Jm Jm = Some G ->
  nr G = nc Jm /\ nc G = nc Jm /\
  forall i j, (i < nc Jm)%nat -> (j < nc Jm)%nat ->
    entry G i j = rsum (fun k => nth (k * nc Jm + i) (dat Jm) 0 * nth (k * nc Jm + j) (dat Jm) 0) (nr Jm).
Proof.
  intros Hlen Hn H. unfold mat_mat_dot in H.
  apply bind_some in H as (u & _ & H). apply bind_some in H as (d & Hd & H).
  pose proof (matmul_spec RO (dat Jm) (dat Jm) (nr Jm) (nr Jm) true false) as Hs.
  rewrite Hlen, dims_gram in Hs by exact Hn. destruct Hs as (c & Hc & Hlc & Hent).
  rewrite Hd in Hc. injection Hc as <-.
  unfold matrix_new in H. apply bind_some in H as (u2 & _ & H). injection H as <-. cbn [nr nc dat].
  split; [reflexivity|]. split; [reflexivity|]. intros i j Hi Hj. unfold entry. cbn [nc dat].
  pose proof (Hent i j Hi Hj) as He. cbn [zero RO andb] in He. rewrite He.
  rewrite sumk_rsum. apply rsum_ext. intros k Hk.
  unfold opA, opB. cbn [zero mul RO]. reflexivity.
Qed.

Lemma gram_psd (Jm G : matrix (T:=R)) :
  length (dat Jm) = (nr Jm * nc Jm)%nat -> (0 < nr Jm)%nat ->
  mat_mat_dot RO DotTN Jm Jm = Some G -> psd G.
Proof.
  intros Hlen Hn H. destruct (gram_entries Jm G Hlen Hn H) as (Hr & Hc & Hent).
  set (p := nc Jm) in *. set (n := nr Jm) in *.
  set (A := fun k i => nth (k * p + i) (dat Jm) 0).
  split; [congruence|]. split.
  - intros d. unfold quad. rewrite Hr, Hc.
    (* = sum_k (sum_i A k i * d i)^2 *)
    assert (E : rsum (fun i => d i * rsum (fun j => entry G i j * d j) p) p
                = rsum (fun k => rsum (fun i => A k i * d i) p * rsum (fun j => A k j * d j) p) n).
    { transitivity (rsum (fun i => rsum (fun k => rsum (fun j => (A k i * d i) * (A k j * d j)) p) n) p).
      - apply rsum_ext. intros i Hi.
        transitivity (rsum (fun j => rsum (fun k => (A k i * d i) * (A k j * d j)) n) p).
        + rewrite <- rsum_scal. apply rsum_ext. intros j Hj. rewrite (Hent i j Hi Hj).
          rewrite <- rsum_scal_r, <- rsum_scal. apply rsum_ext. intros k _. unfold A. ring.
        + apply rsum_swap.
      - rewrite rsum_swap. apply rsum_ext. intros k _. symmetry. apply rsum_mul. }
    rewrite E. apply rsum_nonneg. intros k _. apply Rle_0_sqr.
  - intros i Hi. rewrite Hr in Hi. rewrite (Hent i i Hi Hi). apply rsum_nonneg. intros k _. apply Rle_0_sqr.
Qed.

(** *** the damped matrix *)
Lemma nth_mapi_from_R (f : nat -> R -> R) l s i : (i < length l)%nat ->
  nth i (mapi_from s f l) 0 = f (s + i)%nat (nth i l 0).
Proof.
  revert s i. induction l as [|a l IH]; intros s [|i]; cbn [length mapi_from nth]; intros; try lia.
  - rewrite Nat.add_0_r. reflexivity.
  - rewrite IH by lia. f_equal. lia.
Qed.

Lemma damp_entry (m : matrix (T:=R)) mu i j :
  length (dat m) = (nr m * nc m)%nat -> (i < nr m)%nat -> (j < nc m)%nat ->
  entry (damp RO m mu) i j = if (i =? j)%nat then entry m i j + mu * entry m i j else entry m i j.
Proof.
  intros Hl Hi Hj. unfold entry, damp. cbn [nc dat]. unfold mapi.
  rewrite nth_mapi_from_R by (rewrite Hl; nia). cbn [Nat.add].
  rewrite Nat.div_add_l, Nat.div_small, Nat.add_0_r by lia.
  rewrite Nat.add_comm, Nat.mod_add, Nat.mod_small by lia. reflexivity.
Qed.

(** [d] solves [A d = b] *)
Definition solves (A : matrix (T:=R)) (b d : list R) : Prop :=
  length d = nc A /\ length b = nr A /\
  forall i, (i < nr A)%nat -> rsum (fun j => entry A i j * nth j d 0) (nc A) = nth i b 0.

(** the predicted reduction is non-negative: [d^T (mu d + g) >= 0] when [(G + mu diag G) d = g],
    [G] positive semi-definite, [mu >= 0] *)
Lemma pred_reduction_nonneg (G : matrix (T:=R)) mu g d :
  psd G -> length (dat G) = (nr G * nc G)%nat -> 0 <= mu -> solves (damp RO G mu) g d ->
  0 <= dot_raw RO d (map2 Rplus (map (Rmult mu) d) g).
Proof.
  intros (Hsq & Hq & Hdiag) Hl Hmu (Ld & Lg & Hs). cbn [damp nr nc] in Ld, Lg, Hs.
  set (p := nc G) in *.
  assert (Lm : length (map2 Rplus (map (Rmult mu) d) g) = length d).
  { rewrite map2_len; rewrite map_length; [reflexivity|lia]. }
  rewrite dot_raw_rsum by exact Lm. rewrite Ld.
  set (dv := fun i => nth i d 0).
  assert (E : forall i, (i < p)%nat ->
            nth i d 0 * nth i (map2 Rplus (map (Rmult mu) d) g) 0 =
            mu * (dv i * dv i) + dv i * rsum (fun j => entry G i j * dv j) p + mu * (entry G i i * (dv i * dv i))).
  { intros i Hi.
    assert (N : nth i (map2 Rplus (map (Rmult mu) d) g) 0 = mu * dv i + nth i g 0).
    { clear - Hi Ld Lg Hsq. subst p. unfold dv.
      assert (Lg' : length g = length d) by lia. clear Lg Hsq. revert Hi. rewrite <- Ld. clear Ld. revert g i Lg'.
      induction d as [|a d IH]; intros [|b g] [|i]; cbn [length map map2 nth]; intros; try lia; try reflexivity.
      apply IH; lia. }
    rewrite N. rewrite <- (Hs i) by lia.
    rewrite (rsum_ext (fun j => entry (damp RO G mu) i j * nth j d 0)
                      (fun j => entry G i j * dv j + (if (i =? j)%nat then mu * entry G i i * dv i else 0))).
    - rewrite rsum_plus, rsum_delta by exact Hi. fold (dv i). ring.
    - intros j Hj. rewrite damp_entry by (try exact Hl; lia). fold (dv j).
      destruct (Nat.eqb_spec i j) as [->|_]; ring. }
  rewrite (rsum_ext _ _ p E). rewrite !rsum_plus, !rsum_scal.
  assert (0 <= rsum (fun k => dv k * dv k) p) by (apply rsum_nonneg; intros; apply Rle_0_sqr).
  assert (0 <= rsum (fun i => dv i * rsum (fun j => entry G i j * dv j) p) p).
  { pose proof (Hq dv) as Q. unfold quad in Q. rewrite Hsq in Q. exact Q. }
  assert (0 <= rsum (fun k => entry G k k * (dv k * dv k)) p).
  { apply rsum_nonneg. intros k Hk. apply Rmult_le_pos; [apply Hdiag; lia|apply Rle_0_sqr]. }
  nra.
Qed.

(** *** descent *)
Section Descent.
  Variable resid : list R -> option (list R).
  Variable jac0 jac1 : list R -> option (list (list R)).
  Variable solve : matrix (T:=R) -> list R -> option (list R).
  Variable inv : matrix (T:=R) -> option (list R).
  Variable h : lm_hp (T:=R).
  (** the inner solve is exact: whatever it returns satisfies the linear system *)
  Hypothesis solve_exact : forall A b d, solve A b = Some d -> solves A b d.

  Definition rss (st : lm_state (T:=R)) : R := dot_raw RO (lm_res st) (lm_res st).

  (** invariant: [jtj] is a Gram matrix, the damping is non-negative *)
  Definition good (st : lm_state (T:=R)) : Prop :=
    psd (lm_jtj st) /\ length (dat (lm_jtj st)) = (nr (lm_jtj st) * nc (lm_jtj st))%nat /\
    0 <= lm_mu st /\ 0 < lm_nu st.

  Lemma normal_eqs_good J p r jtj jtr :
    normal_eqs RO J p r = Some (jtj, jtr) -> psd jtj /\ length (dat jtj) = (nr jtj * nc jtj)%nat.
  Proof.
    unfold normal_eqs. intros H.
    apply bind_some in H as (Jm & HJm & H). apply bind_some in H as (G & HG & H).
    apply bind_some in H as (v & _ & H). apply bind_some in H as (tm & _ & H). injection H as <- _.
    unfold matrix_new in HJm. apply bind_some in HJm as (u & Hu & HJm).
    unfold guard in Hu. destruct (_ && _) eqn:E in Hu; [|discriminate].
    apply andb_prop in E as [E1 E3]. apply andb_prop in E1 as [E1 E2].
    apply Nat.ltb_lt in E1. apply Nat.eqb_eq in E3.
    assert (HL : length (dat Jm) = (nr Jm * nc Jm)%nat) by (injection HJm as <-; cbn; lia).
    assert (HN : (0 < nr Jm)%nat) by (injection HJm as <-; cbn; lia).
    split; [exact (gram_psd Jm G HL HN HG)|].
    unfold mat_mat_dot in HG. apply bind_some in HG as (u1 & _ & HG). apply bind_some in HG as (d & _ & HG).
    unfold matrix_new in HG. apply bind_some in HG as (u2 & Hg2 & HG). injection HG as <-. cbn.
    unfold guard in Hg2. destruct (_ && _) eqn:E' in Hg2; [|discriminate].
    apply andb_prop in E' as [_ E']. apply Nat.eqb_eq in E'. lia.
  Qed.

  Lemma Rltb_true x y : Rltb x y = true -> x < y.
  Proof. unfold Rltb. destruct (Rlt_dec x y); [auto|discriminate]. Qed.

  Lemma vmax_nonneg l : 0 <= vmax RO l.
  Proof. unfold vmax. rewrite RO_nan. destruct (fold_fmax_ge l 0) as [H _]. exact H. Qed.

  Lemma lm_step_descends st st' :
    lm_step RO resid jac1 solve h st = Some st' -> good st -> good st' /\ rss st' <= rss st.
  Proof.
    intros H (Hpsd & Hl & Hmu & Hnu). unfold lm_step in H.
    apply bind_some in H as (d & Hd & H).
    destruct (leb RO (norm RO d) _).
    { injection H as <-. unfold good, rss. cbn. repeat split; try assumption; try apply Hpsd. lra. }
    apply bind_some in H as (r' & Hr' & H). apply bind_some in H as (pred & Hp & H).
    destruct (ltb RO (zero RO) _) eqn:Hrho.
    - apply bind_some in H as (J & HJ & H). apply bind_some in H as ([jtj jtr] & Hn & H).
      injection H as <-. unfold good, rss. cbn [lm_jtj lm_mu lm_nu lm_res lm_stop lm_ps lm_jtr].
      destruct (normal_eqs_good _ _ _ _ _ Hn) as (P1 & P2).
      split.
      + split; [exact P1|]. split; [exact P2|]. split.
        * match goal with |- context [if ?c then _ else _] => destruct c end; [exact Hmu|]. cbn [mul RO]. apply Rmult_le_pos; [exact Hmu|].
          rewrite RO_fmax. eapply Rle_trans; [|apply Rmax_l]. unfold third. cbn. lra.
        * match goal with |- context [if ?c then _ else _] => destruct c end; [exact Hnu|]. unfold two. cbn. lra.
      + (* rho > 0 with a non-negative predicted reduction forces an actual reduction *)
        cbn [ltb zero RO] in Hrho. apply Rltb_true in Hrho.
        unfold dot in Hp. destruct (Nat.eqb _ _) in Hp; [|discriminate]. injection Hp as <-.
        pose proof (pred_reduction_nonneg _ _ _ _ Hpsd Hl Hmu (solve_exact _ _ _ Hd)) as Hpred.
        cbn [add mul RO] in Hpred. cbn [sub div mul RO] in Hrho.
        set (P := dot_raw RO d (map2 Rplus (map (Rmult (lm_mu st)) d) (lm_jtr st))) in *.
        set (a := dot_raw RO (lm_res st) (lm_res st)) in *. set (b := dot_raw RO r' r') in *.
        assert (Hh : half RO = / 2) by (unfold half; cbn; unfold Q2R; cbn; lra).
        rewrite Hh in Hrho.
        destruct (Req_dec P 0) as [HP0|HPn].
        * rewrite HP0 in Hrho. unfold Rdiv in Hrho. rewrite Rmult_0_r, Rinv_0, Rmult_0_r in Hrho. lra.
        * assert (HPpos : 0 < / 2 * P) by lra.
          assert (0 < a - b).
          { apply (Rmult_lt_compat_r _ _ _ HPpos) in Hrho. unfold Rdiv in Hrho.
            rewrite Rmult_0_l, Rmult_assoc, Rinv_l, Rmult_1_r in Hrho by lra. exact Hrho. }
          lra.
    - injection H as <-. unfold good, rss. cbn. split; [|lra]. split; [exact Hpsd|]. split; [exact Hl|]. split.
      + apply Rmult_le_pos; lra.
      + unfold two. cbn. lra.
  Qed.

  Lemma lm_loop_descends fuel : forall st st',
    lm_loop RO resid jac1 solve h fuel st = Some st' -> good st -> good st' /\ rss st' <= rss st.
  Proof.
    induction fuel as [|fuel IH]; intros st st' H Hg; cbn [lm_loop] in H.
    - injection H as <-. split; [exact Hg|lra].
    - destruct (lm_stop st).
      + injection H as <-. split; [exact Hg|lra].
      + apply bind_some in H as (s1 & H1 & H).
        destruct (lm_step_descends _ _ H1 Hg) as (G1 & D1).
        destruct (IH _ _ H G1) as (G2 & D2). split; [exact G2|lra].
  Qed.

  Lemma lm_init_good ps st : 0 <= l_tau h -> lm_init RO resid jac0 h ps = Some st -> good st.
  Proof.
    intros Htau H. unfold lm_init in H.
    apply bind_some in H as (r & Hr & H). apply bind_some in H as (J & HJ & H).
    apply bind_some in H as ([jtj jtr] & Hn & H). injection H as <-. unfold good. cbn.
    destruct (normal_eqs_good _ _ _ _ _ Hn) as (P1 & P2).
    split; [exact P1|]. split; [exact P2|]. split.
    - exact Htau.
    - unfold two. cbn. lra.
  Qed.

  (** ** LM never returns parameters with a larger residual sum of squares than the start point,
      for EVERY step budget; the returned residuals are those of the returned parameters *)
  Theorem lm_descends maxsteps ps0 st0 st :
    0 <= l_tau h ->
    lm_init RO resid jac0 h ps0 = Some st0 ->
    lm_loop RO resid jac1 solve h maxsteps st0 = Some st ->
    rss st <= rss st0 /\ resid ps0 = Some (lm_res st0) /\ resid (lm_ps st) = Some (lm_res st).
  Proof.
    intros Htau Hi Hl.
    destruct (lm_loop_descends _ _ _ Hl (lm_init_good _ _ Htau Hi)) as (_ & D).
    split; [exact D|].
    destruct (lm_init_at_point RO resid jac0 jac1 h ps0 st0 Hi) as ((R0 & _) & Hps).
    split; [rewrite <- Hps; exact R0|].
    (* residuals follow the parameters through every step *)
    clear D Hi Htau Hps.
    revert st0 st Hl R0. induction maxsteps as [|k IH]; intros st0 st Hl R0; cbn [lm_loop] in Hl.
    - injection Hl as <-. exact R0.
    - destruct (lm_stop st0); [injection Hl as <-; exact R0|].
      apply bind_some in Hl as (s1 & H1 & Hl). apply (IH _ _ Hl).
      unfold lm_step in H1. apply bind_some in H1 as (d & _ & H1).
      destruct (leb RO _ _); [injection H1 as <-; exact R0|].
      apply bind_some in H1 as (r' & Hr' & H1). apply bind_some in H1 as (pred & _ & H1).
      destruct (ltb RO _ _).
      + apply bind_some in H1 as (J & _ & H1). apply bind_some in H1 as ([a b] & _ & H1). injection H1 as <-. exact Hr'.
      + injection H1 as <-. exact R0.
  Qed.

  (** in terms of what [optimize] returns *)
  Theorem lm_never_worse maxsteps ps0 popt cov :
    0 <= l_tau h ->
    lm RO resid jac0 jac1 solve inv h maxsteps ps0 = Some (popt, cov) ->
    exists r0 r, resid ps0 = Some r0 /\ resid popt = Some r /\ dot_raw RO r r <= dot_raw RO r0 r0.
  Proof.
    intros Htau H. unfold lm in H.
    apply bind_some in H as (st0 & H0 & H). apply bind_some in H as (st & Hl & H).
    destruct (lm_descends _ _ _ _ Htau H0 Hl) as (D & R0 & R1).
    unfold lm_finish in H.
    apply bind_some in H as (u1 & _ & H). apply bind_some in H as (u2 & _ & H).
    apply bind_some in H as (ji & _ & H). injection H as <- _.
    exists (lm_res st0), (lm_res st). split; [exact R0|]. split; [exact R1|exact D].
  Qed.
End Descent.

(** the hypothesis [solve_exact] is satisfiable by a solver that does return solutions: one parameter *)
Definition solve1 (A : matrix (T:=R)) (b : list R) : option (list R) :=
  match nr A, nc A, dat A, b with
  | 1%nat, 1%nat, [a], [g] => if Req_EM_T a 0 then None else Some [g / a]
  | _, _, _, _ => None
  end.
Example solve1_exact : forall A b d, solve1 A b = Some d -> solves A b d.
Proof.
  intros [r c dt] b d. unfold solve1. cbn [nr nc dat].
  destruct r as [|[|r]]; try discriminate. destruct c as [|[|c]]; try discriminate.
  destruct dt as [|a [|]]; try discriminate. destruct b as [|g [|]]; try discriminate.
  destruct (Req_EM_T a 0); [discriminate|]. intros H. injection H as <-.
  unfold solves, entry. cbn [nr nc dat length]. split; [reflexivity|]. split; [reflexivity|].
  intros i Hi. assert (i = 0)%nat as -> by lia. cbn. field. exact n.
Qed.
Example solve1_nontrivial : solve1 {| nr := 1; nc := 1; dat := [2] |} [6] = Some [6 / 2].
Proof. unfold solve1. cbn. destruct (Req_EM_T 2 0); [lra|reflexivity]. Qed.
