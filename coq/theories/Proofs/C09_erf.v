(** C09 (extension): the Abramowitz-Stegun [erf] of the crate is within 1.5e-7 of the true error function
    2/sqrt(pi) int_0^x exp(-t^2) dt  for EVERY real x in [0, 6] (hence at every grid point k/64, k = 0..384). *)
From Coquelicot Require Import Coquelicot.
From Compute Require Import Proofs.C09_base Proofs.C09 Proofs.C09_erf_base.
From Compute Require Import Proofs.C09_erf1 Proofs.C09_erf2 Proofs.C09_erf3 Proofs.C09_erf4.
Open Scope R_scope.

Lemma erf_err_0_6 x : 0 <= x <= 6 -> Rabs (erf_err x) <= 15e-8.
Proof.
  intros Hx.
  destruct (Rle_dec x (1/2)); [apply erf_err_part1; lra|].
  destruct (Rle_dec x 1); [apply erf_err_part2; lra|].
  destruct (Rle_dec x 2); [apply erf_err_part3; lra|].
  destruct (Rle_dec x 4); [apply erf_err_part4; lra|].
  apply erf_err_part5; lra.
Qed.

Lemma erf_accuracy_0_6 x : 0 <= x <= 6 ->
  Rabs (erf RO x - 2 / R_sqrt.sqrt PI * RInt (fun t => exp (- (t * t))) 0 x) <= 1.5e-7.
Proof.
  intros Hx. rewrite erf_RO_nonneg by lra.
  replace 1.5e-7 with 15e-8 by lra. exact (erf_err_0_6 x Hx).
Qed.

Lemma erf_accuracy_grid :
  Forall (fun k : nat =>
            Rabs (erf RO (INR k / 64) - 2 / R_sqrt.sqrt PI * RInt (fun t => exp (- (t * t))) 0 (INR k / 64)) <= 1.5e-7)
         (seq 0 385).
Proof.
  apply Forall_forall. intros k Hk. apply in_seq in Hk. apply erf_accuracy_0_6.
  assert (H0 : 0 <= INR k) by apply pos_INR.
  assert (H1 : INR k <= 384) by (replace 384 with (INR 384) by (rewrite INR_IZR_INZ; reflexivity); apply le_INR; lia).
  lra.
Qed.
