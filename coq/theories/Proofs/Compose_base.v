(** Composition of the properties that call the linear solvers (C14, C13, C06, C10) with the theorems of
    C01: the facts about C01's models that the compositions share and that Properties/C01.v does not
    state in the needed form.  Nothing here restates a theorem of C01; everything is derived from them.

    - [spd_nonsingular]: a symmetric positive definite matrix has a left inverse (C01's [nonsingular]);
      the inverse is built column by column with C01's Cholesky route.
    - [invert_spd], [solve_spd]: [invert_matrix] / [solve] return the inverse / the solution on such matrices.
    - [only_at], [only_at2]: an inner routine restricted to ONE argument.  The parametric theorems of
      C13/C06/C10 assume the inner routine correct on EVERY argument on which it returns, which
      [slice_invert RO] / [slice_solve RO] are not (over the reals a zero pivot is divided by: [x / 0] is some
      real number, so a singular matrix yields [Some garbage]).  The restricted routine is correct
      everywhere as soon as it is correct at that argument, and the model cannot tell the difference. *)
From Coq Require Import List Arith Bool Lia Reals Lra.
From Compute Require Import Base.Ops Base.ListMat Model.Reduce Model.MatMul Model.Subst Model.Cholesky Model.LU
  Model.Solve Model.SolveInst Spec.Factor Spec.Solve Proofs.C05 Proofs.LinAlgBase Proofs.C01_Layout Proofs.C01
  Proofs.C01_SPD.
Import ListNotations.
Local Open Scope R_scope.

(** ** a flat row-major matrix given by its entries *)
Definition mk_mat (f : nat -> nat -> R) (n : nat) : list R :=
  map (fun p => f (p / n)%nat (p mod n)%nat) (seq 0 (n * n)).

Lemma mk_mat_length f n : length (mk_mat f n) = (n * n)%nat.
Proof. unfold mk_mat. rewrite map_length, seq_length. reflexivity. Qed.

Lemma getm_mk_mat f n i j : (i < n)%nat -> (j < n)%nat -> getm (mk_mat f n) n i j = f i j.
Proof.
  intros Hi Hj. unfold getm, mk_mat.
  assert (Hlt : (i * n + j < n * n)%nat) by nia.
  rewrite nth_map_seq by exact Hlt. cbn [Nat.add].
  replace ((i * n + j) / n)%nat with i.
  - replace ((i * n + j) mod n)%nat with j; [reflexivity|].
    rewrite Nat.add_comm, Nat.mod_add by lia. symmetry. apply Nat.mod_small. exact Hj.
  - rewrite Nat.add_comm, Nat.div_add by lia. rewrite (Nat.div_small j n Hj). reflexivity.
Qed.

(** the unit vector e_j of length n *)
Definition unit_vec (n j : nat) : list R := map (fun i => delta i j) (seq 0 n).
Lemma unit_vec_length n j : length (unit_vec n j) = n.
Proof. unfold unit_vec. rewrite map_length, seq_length. reflexivity. Qed.
Lemma nth_unit_vec n j i : (i < n)%nat -> nth i (unit_vec n j) 0 = delta i j.
Proof. intros Hi. unfold unit_vec. rewrite nth_map_seq by exact Hi. reflexivity. Qed.

Lemma delta_sym i j : delta i j = delta j i.
Proof. unfold delta. rewrite (Nat.eqb_sym i j). reflexivity. Qed.

(** ** a symmetric positive definite matrix is nonsingular (has a left inverse) *)
Lemma spd_nonsingular a n :
  (n * n)%nat = length a -> (0 < n)%nat -> symmetric a n -> positive_definite a n -> nonsingular a n.
Proof.
  intros Hn Hpos Hsym Hpd.
  destruct (spd_try_cholesky a n Hn Hsym Hpd) as [l Hl].
  set (row := fun i => match cholesky_solve RO l (unit_vec n i) with Some x => x | None => [] end).
  exists (mk_mat (fun i k => nth k (row i) 0) n).
  intros i j Hi Hj.
  destruct (solve_chol_correct a (unit_vec n i) l n Hn Hpos (unit_vec_length n i) Hsym Hl) as (x & Hx & [Hxl Hsx]).
  assert (Hrow : row i = x) by (unfold row; rewrite Hx; reflexivity).
  unfold mmul.
  rewrite (rsum_ext _ (fun k => getm a n j k * nth k x 0)).
  - change (mvec a n x j = delta i j). rewrite (Hsx j Hj), nth_unit_vec by exact Hj. apply delta_sym.
  - intros k Hk. rewrite getm_mk_mat by assumption. rewrite Hrow, (Hsym k j Hk Hj). ring.
Qed.

(** [invert_matrix] and [solve] on a symmetric positive definite matrix: no hypothesis on the solver left *)
Lemma invert_spd a n :
  (n * n)%nat = length a -> (0 < n)%nat -> symmetric a n -> positive_definite a n ->
  exists X, slice_invert RO a = Some X /\ is_right_inverse a n X.
Proof.
  intros Hn Hpos Hsym Hpd.
  apply (invert_nonsingular a n Hn Hpos (or_introl Hsym)). apply spd_nonsingular; assumption.
Qed.

Lemma solve_spd a b n :
  (n * n)%nat = length a -> (0 < n)%nat -> length b = n -> symmetric a n -> positive_definite a n ->
  exists x, slice_solve RO a b = Some x /\ solves a n x b /\ forall y, solves a n y b -> y = x.
Proof.
  intros Hn Hpos Hb Hsym Hpd.
  apply (solve_nonsingular a b n Hn Hpos Hb (or_introl Hsym)). apply spd_nonsingular; assumption.
Qed.

(** on a symmetric nonsingular matrix *)
Lemma invert_sym_nonsingular a n :
  (n * n)%nat = length a -> (0 < n)%nat -> symmetric a n -> nonsingular a n ->
  exists X, slice_invert RO a = Some X /\ is_right_inverse a n X.
Proof. intros Hn Hpos Hsym Hns. apply (invert_nonsingular a n Hn Hpos (or_introl Hsym) Hns). Qed.

(** [invert_matrix] never returns on the empty matrix *)
Lemma slice_invert_nil : slice_invert RO [] = None.
Proof.
  unfold slice_invert, invert_matrix. cbn [length].
  destruct (is_square 0) as [n|] eqn:E; [|reflexivity]. cbn [bind].
  apply (solve_sys_rejects_rhs RO _ _ _ _ [] (eye RO n) n E). left.
  unfold is_square in E. cbn in E. injection E as <-. reflexivity.
Qed.

(** ** inner routines restricted to one argument *)
Definition list_R_eq_dec : forall a b : list R, {a = b} + {a <> b} := list_eq_dec Req_EM_T.

Definition only_at (a0 : list R) (f : list R -> option (list R)) (a : list R) : option (list R) :=
  if list_R_eq_dec a a0 then f a else None.
Lemma only_at_same a0 f : only_at a0 f a0 = f a0.
Proof. unfold only_at. destruct (list_R_eq_dec a0 a0); [reflexivity|contradiction]. Qed.
Lemma only_at_some a0 f a r : only_at a0 f a = Some r -> a = a0 /\ f a0 = Some r.
Proof. unfold only_at. destruct (list_R_eq_dec a a0) as [->|]; [auto|discriminate]. Qed.

Definition only_at2 (a0 b0 : list R) (f : list R -> list R -> option (list R)) (a b : list R) : option (list R) :=
  if list_R_eq_dec a a0 then if list_R_eq_dec b b0 then f a b else None else None.
Lemma only_at2_same a0 b0 f : only_at2 a0 b0 f a0 b0 = f a0 b0.
Proof.
  unfold only_at2. destruct (list_R_eq_dec a0 a0); [|contradiction].
  destruct (list_R_eq_dec b0 b0); [reflexivity|contradiction].
Qed.
Lemma only_at2_some a0 b0 f a b r : only_at2 a0 b0 f a b = Some r -> a = a0 /\ b = b0 /\ f a0 b0 = Some r.
Proof.
  unfold only_at2. destruct (list_R_eq_dec a a0) as [->|]; [|discriminate].
  destruct (list_R_eq_dec b b0) as [->|]; [auto|discriminate].
Qed.
