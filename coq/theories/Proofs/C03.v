(** Proofs for C03 (samplers), part 1: inverse-CDF samplers, Bernoulli, DiscreteUniform, bulk shapes, on the real
    carrier and for EVERY random source (the source is a Section variable, never an axiom). *)
From Coq Require Import Reals List ZArith NArith Lra Lia Bool.
From Compute Require Import Base.Ops Base.ListMat Base.Rng Model.MatMul Model.Samplers Spec.Samplers.
Import ListNotations.
Open Scope R_scope.

Lemma Rltb_true x y : Rltb x y = true <-> x < y.
Proof. unfold Rltb. destruct (Rlt_dec x y); split; intros; try assumption; try reflexivity; try discriminate; contradiction. Qed.
Lemma Rltb_false x y : Rltb x y = false <-> ~ x < y.
Proof. unfold Rltb. destruct (Rlt_dec x y); split; intros; try assumption; try reflexivity; try discriminate; contradiction. Qed.
Lemma Rleb_true x y : Rleb x y = true <-> x <= y.
Proof. unfold Rleb. destruct (Rle_dec x y); split; intros; try assumption; try reflexivity; try discriminate; contradiction. Qed.
Lemma Rleb_false x y : Rleb x y = false <-> ~ x <= y.
Proof. unfold Rleb. destruct (Rle_dec x y); split; intros; try assumption; try reflexivity; try discriminate; contradiction. Qed.
Lemma Reqb_true x y : Reqb x y = true <-> x = y.
Proof. unfold Reqb. destruct (Req_EM_T x y); split; intros; try assumption; try reflexivity; try discriminate; contradiction. Qed.

Section AnySource.
  Context {S : Type} (src : source S R).
  Local Notation U s := (fst (next_f64 src s)).
  Local Notation N s := (snd (next_f64 src s)).

  (** ** Uniform *)
  Lemma uniform_sample_R lo hi s : uniform_sample RO src lo hi s = ((hi - lo) * U s + lo, N s).
  Proof. unfold uniform_sample. destruct (next_f64 src s); reflexivity. Qed.
  Lemma unit_sample_R s : uniform_sample RO src 0 1 s = (U s, N s).
  Proof. rewrite uniform_sample_R. f_equal. ring. Qed.

  Lemma uniform_inverse_cdf lo hi s :
    lo < hi ->
    uniform_cdf lo hi (fst (uniform_sample RO src lo hi s)) = U s /\
    (0 <= U s < 1 -> lo <= fst (uniform_sample RO src lo hi s) < hi) /\
    snd (uniform_sample RO src lo hi s) = N s.
  Proof.
    intros H. rewrite uniform_sample_R. cbn [fst snd]. unfold uniform_cdf. split; [field; lra|]. split; [|reflexivity].
    intros [H0 H1]. split; nra.
  Qed.
  Lemma uniform_monotone lo hi s1 s2 :
    lo < hi -> U s1 < U s2 -> fst (uniform_sample RO src lo hi s1) < fst (uniform_sample RO src lo hi s2).
  Proof. intros H Hu. rewrite !uniform_sample_R. cbn [fst]. nra. Qed.
  Lemma uniform_degenerate lo s : fst (uniform_sample RO src lo lo s) = lo.
  Proof. rewrite uniform_sample_R. cbn [fst]. ring. Qed.

  (** ** the redraw loop: zeros are skipped, the value returned is positive *)
  Lemma positive_unit_step fuel s :
    positive_unit RO src (Datatypes.S fuel) s =
    if Rlt_dec 0 (U s) then Ok (U s, N s) else positive_unit RO src fuel (N s).
  Proof.
    cbn [positive_unit]. rewrite unit_sample_R. cbn [ltb RO zero]. unfold Rltb.
    destruct (Rlt_dec 0 (U s)); reflexivity.
  Qed.
  Lemma positive_unit_first fuel s : 0 < U s -> positive_unit RO src (Datatypes.S fuel) s = Ok (U s, N s).
  Proof. intros H. rewrite positive_unit_step. destruct (Rlt_dec 0 (U s)); [reflexivity|contradiction]. Qed.
  Lemma positive_unit_skip fuel s : U s <= 0 -> positive_unit RO src (Datatypes.S fuel) s = positive_unit RO src fuel (N s).
  Proof. intros H. rewrite positive_unit_step. destruct (Rlt_dec 0 (U s)); [lra|reflexivity]. Qed.
  Lemma positive_unit_result fuel : forall s u s', positive_unit RO src fuel s = Ok (u, s') -> 0 < u /\ exists s0, u = U s0 /\ s' = N s0.
  Proof.
    induction fuel as [|fuel IH]; intros s u s' H; [discriminate|].
    rewrite positive_unit_step in H. destruct (Rlt_dec 0 (U s)) as [Hp|Hn].
    - inversion H; subst. split; [assumption|]. exists s. split; reflexivity.
    - eapply IH; eassumption.
  Qed.
  Lemma positive_f64_step fuel s :
    positive_f64 RO src (Datatypes.S fuel) s =
    if Rlt_dec 0 (U s) then Ok (U s, N s) else positive_f64 RO src fuel (N s).
  Proof.
    cbn [positive_f64]. destruct (next_f64 src s) as [u s1]. cbn [fst snd ltb RO zero]. unfold Rltb.
    destruct (Rlt_dec 0 u); reflexivity.
  Qed.
  Lemma positive_f64_first fuel s : 0 < U s -> positive_f64 RO src (Datatypes.S fuel) s = Ok (U s, N s).
  Proof. intros H. rewrite positive_f64_step. destruct (Rlt_dec 0 (U s)); [reflexivity|contradiction]. Qed.
  Lemma positive_f64_skip fuel s : U s <= 0 -> positive_f64 RO src (Datatypes.S fuel) s = positive_f64 RO src fuel (N s).
  Proof. intros H. rewrite positive_f64_step. destruct (Rlt_dec 0 (U s)); [lra|reflexivity]. Qed.
  Lemma positive_f64_result fuel : forall s u s', positive_f64 RO src fuel s = Ok (u, s') -> 0 < u /\ exists s0, u = U s0 /\ s' = N s0.
  Proof.
    induction fuel as [|fuel IH]; intros s u s' H; [discriminate|].
    rewrite positive_f64_step in H. destruct (Rlt_dec 0 (U s)) as [Hp|Hn].
    - inversion H; subst. split; [assumption|]. exists s. split; reflexivity.
    - eapply IH; eassumption.
  Qed.

  (** ** Exponential: x = -ln(u)/lambda, F(x) = 1 - u *)
  Definition exponential_quantile (lambda u : R) : R := - ln u / lambda.
  Lemma exponential_sample_R fuel lambda s :
    0 < U s -> exponential_sample RO src (Datatypes.S fuel) lambda s = Ok (exponential_quantile lambda (U s), N s).
  Proof. intros H. unfold exponential_sample. rewrite positive_unit_first by assumption. reflexivity. Qed.
  Lemma exponential_quantile_cdf lambda u :
    0 < lambda -> 0 < u < 1 ->
    exponential_cdf lambda (exponential_quantile lambda u) = 1 - u /\ 0 < exponential_quantile lambda u.
  Proof.
    intros Hl [H0 H1]. unfold exponential_cdf, exponential_quantile. split.
    - replace (- lambda * (- ln u / lambda)) with (ln u) by (field; lra). rewrite exp_ln by assumption. reflexivity.
    - assert (ln u < 0) by (rewrite <- ln_1; apply ln_increasing; lra).
      apply Rmult_lt_0_compat; [lra|apply Rinv_0_lt_compat; assumption].
  Qed.
  Lemma exponential_quantile_decreasing lambda u1 u2 :
    0 < lambda -> 0 < u1 -> u1 < u2 -> exponential_quantile lambda u2 < exponential_quantile lambda u1.
  Proof.
    intros Hl H0 H. unfold exponential_quantile. assert (ln u1 < ln u2) by (apply ln_increasing; lra).
    apply Rmult_lt_compat_r; [apply Rinv_0_lt_compat; assumption|lra].
  Qed.
  (** whatever the number of redraws: a returned value is positive (never inf) when the variates are in [0,1) *)
  Lemma exponential_support fuel lambda s x s' :
    0 < lambda -> unit_source src -> exponential_sample RO src fuel lambda s = Ok (x, s') -> 0 < x.
  Proof.
    intros Hl Hu H. unfold exponential_sample in H.
    destruct (positive_unit RO src fuel s) as [[u s1]| |] eqn:E; try discriminate.
    cbn [res_bind] in H. inversion H; subst. apply positive_unit_result in E. destruct E as [Hp (s0 & -> & _)].
    apply (exponential_quantile_cdf lambda (U s0) Hl). split; [assumption|apply Hu].
  Qed.

  (** ** Gumbel: x = mu - beta ln(-ln u), F(x) = u *)
  Definition gumbel_quantile (mu beta u : R) : R := mu - beta * ln (- ln u).
  Lemma gumbel_sample_R fuel mu beta s :
    0 < U s -> gumbel_sample RO src (Datatypes.S fuel) mu beta s = Ok (gumbel_quantile mu beta (U s), N s).
  Proof. intros H. unfold gumbel_sample. rewrite positive_unit_first by assumption. reflexivity. Qed.
  Lemma gumbel_quantile_cdf mu beta u :
    0 < beta -> 0 < u < 1 -> gumbel_cdf mu beta (gumbel_quantile mu beta u) = u.
  Proof.
    intros Hb [H0 H1]. unfold gumbel_cdf, gumbel_quantile.
    assert (Hl : ln u < 0) by (rewrite <- ln_1; apply ln_increasing; lra).
    replace (- (mu - beta * ln (- ln u) - mu) / beta) with (ln (- ln u)) by (field; lra).
    rewrite exp_ln by lra. replace (- - ln u) with (ln u) by ring. apply exp_ln. assumption.
  Qed.
  Lemma gumbel_quantile_increasing mu beta u1 u2 :
    0 < beta -> 0 < u1 -> u1 < u2 -> u2 < 1 -> gumbel_quantile mu beta u1 < gumbel_quantile mu beta u2.
  Proof.
    intros Hb H0 H H1. unfold gumbel_quantile.
    assert (ln u1 < ln u2) by (apply ln_increasing; lra).
    assert (ln u2 < 0) by (rewrite <- ln_1; apply ln_increasing; lra).
    assert (Hll : ln (- ln u2) < ln (- ln u1)) by (apply ln_increasing; lra).
    assert (beta * ln (- ln u2) < beta * ln (- ln u1)) by (apply Rmult_lt_compat_l; assumption).
    lra.
  Qed.

  (** ** Pareto: x = m / u^(1/alpha), F(x) = 1 - u *)
  Definition pareto_quantile (alpha m u : R) : R := m / Rpower u (1 / alpha).
  Lemma pareto_sample_R fuel alpha m s :
    0 < U s -> pareto_sample RO src (Datatypes.S fuel) alpha m s = Ok (pareto_quantile alpha m (U s), N s).
  Proof. intros H. unfold pareto_sample. rewrite positive_f64_first by assumption. reflexivity. Qed.
  Lemma pareto_quantile_cdf alpha m u :
    0 < alpha -> 0 < m -> 0 < u < 1 ->
    pareto_cdf alpha m (pareto_quantile alpha m u) = 1 - u /\ m < pareto_quantile alpha m u.
  Proof.
    intros Ha Hm [H0 H1]. unfold pareto_cdf, pareto_quantile.
    assert (Hp : 0 < Rpower u (1 / alpha)) by (unfold Rpower; apply exp_pos).
    assert (Hl : ln u < 0) by (rewrite <- ln_1; apply ln_increasing; lra).
    assert (Hlt : Rpower u (1 / alpha) < 1).
    { unfold Rpower.
      assert (Hia : 0 < 1 / alpha) by (apply Rdiv_lt_0_compat; lra).
      assert (Hm1 : 0 < 1 / alpha * - ln u) by (apply Rmult_lt_0_compat; lra).
      assert (He : exp (1 / alpha * ln u) < exp 0) by (apply exp_increasing; lra).
      rewrite exp_0 in He. exact He. }
    split.
    - replace (m / (m / Rpower u (1 / alpha))) with (Rpower u (1 / alpha)) by (field; lra).
      rewrite Rpower_mult. replace (1 / alpha * alpha) with 1 by (field; lra). rewrite Rpower_1 by assumption. reflexivity.
    - apply Rmult_lt_reg_r with (Rpower u (1 / alpha)); [assumption|].
      replace (m / Rpower u (1 / alpha) * Rpower u (1 / alpha)) with m by (field; lra). nra.
  Qed.
  Lemma pareto_quantile_decreasing alpha m u1 u2 :
    0 < alpha -> 0 < m -> 0 < u1 -> u1 < u2 -> pareto_quantile alpha m u2 < pareto_quantile alpha m u1.
  Proof.
    intros Ha Hm H0 H. unfold pareto_quantile.
    assert (Hp1 : 0 < Rpower u1 (1 / alpha)) by (unfold Rpower; apply exp_pos).
    assert (Hlt : Rpower u1 (1 / alpha) < Rpower u2 (1 / alpha)).
    { unfold Rpower. apply exp_increasing. assert (0 < 1 / alpha) by (apply Rdiv_lt_0_compat; lra).
      assert (ln u1 < ln u2) by (apply ln_increasing; lra). apply Rmult_lt_compat_l; assumption. }
    unfold Rdiv. apply Rmult_lt_compat_l; [assumption|]. apply Rinv_lt_contravar; [nra|assumption].
  Qed.

  (** ** Bernoulli *)
  Lemma bernoulli_spec p s :
    (p = 1 -> bernoulli_sample RO src p s = (1, s)) /\
    (p = 0 -> bernoulli_sample RO src p s = (0, s)) /\
    (p <> 1 -> p <> 0 ->
       bernoulli_sample RO src p s = ((if Rlt_dec (U s) p then 1 else 0), N s)).
  Proof.
    unfold bernoulli_sample. cbn [eqb RO one zero ltb]. unfold Reqb, Rltb. repeat split.
    - intros ->. destruct (Req_EM_T 1 1); [reflexivity|contradiction].
    - intros ->. destruct (Req_EM_T 0 1); [lra|]. destruct (Req_EM_T 0 0); [reflexivity|contradiction].
    - intros H1 H0. destruct (Req_EM_T p 1); [contradiction|]. destruct (Req_EM_T p 0); [contradiction|].
      destruct (next_f64 src s) as [u s1]. cbn [fst snd]. destruct (Rlt_dec u p); reflexivity.
  Qed.
  Lemma bernoulli_iff p s :
    0 < p < 1 -> (fst (bernoulli_sample RO src p s) = 1 <-> U s < p) /\
                 (fst (bernoulli_sample RO src p s) = 0 <-> ~ U s < p).
  Proof.
    intros [H0 H1]. destruct (bernoulli_spec p s) as (_ & _ & H). rewrite H by lra. cbn [fst].
    destruct (Rlt_dec (U s) p); split; split; intros; try assumption; try reflexivity; try lra; contradiction.
  Qed.
  Lemma bernoulli_support p s : fst (bernoulli_sample RO src p s) = 0 \/ fst (bernoulli_sample RO src p s) = 1.
  Proof.
    destruct (bernoulli_spec p s) as (H1 & H0 & H).
    destruct (Req_EM_T p 1) as [E1|E1]; [rewrite H1 by assumption; right; reflexivity|].
    destruct (Req_EM_T p 0) as [E0|E0]; [rewrite H0 by assumption; left; reflexivity|].
    rewrite H by assumption. cbn [fst]. destruct (Rlt_dec (U s) p); [right|left]; reflexivity.
  Qed.

  (** ** DiscreteUniform *)
  Lemma of_i64_R k : of_i64 RO k = IZR k.
  Proof.
    unfold of_i64. destruct (Z.eqb_spec k (-9223372036854775808)) as [->|]; [|reflexivity].
    cbn [neg mul ofZ RO]. rewrite <- mult_IZR, <- opp_IZR. reflexivity.
  Qed.
  Lemma discrete_uniform_spec lo hi s :
    discrete_uniform_sample RO src lo hi s =
    match next_range src lo hi s with Ok (k, s') => Ok (IZR k, s') | Fail => Fail | Fuel => Fuel end.
  Proof.
    unfold discrete_uniform_sample. destruct (next_range src lo hi s) as [[k s']| |]; cbn [res_bind]; try reflexivity.
    rewrite of_i64_R. reflexivity.
  Qed.
  Lemma discrete_uniform_support lo hi s x s' :
    range_source src -> discrete_uniform_sample RO src lo hi s = Ok (x, s') ->
    exists k : Z, x = IZR k /\ (lo <= k <= hi)%Z.
  Proof.
    intros Hr H. rewrite discrete_uniform_spec in H.
    destruct (next_range src lo hi s) as [[k s1]| |] eqn:E; try discriminate.
    inversion H; subst. exists k. split; [reflexivity|]. eapply Hr; eassumption.
  Qed.
End AnySource.

(** ** bulk helpers: shapes, for every carrier, source, count *)
Section Bulk.
  Context {T S : Type} (O : Ops T) (src : source S T).

  Lemma draws_length {A} (draw : S -> res (A * S)) n : forall s l s', draws draw n s = Ok (l, s') -> length l = n.
  Proof.
    induction n as [|n IH]; intros s l s' H; cbn [draws] in H.
    - inversion H; reflexivity.
    - destruct (draw s) as [[x s1]| |]; cbn [res_bind] in H; try discriminate.
      destruct (draws draw n s1) as [[l1 s2]| |] eqn:E; cbn [res_bind] in H; try discriminate.
      inversion H; subst. cbn [length]. f_equal. eapply IH; eassumption.
  Qed.
  Lemma draws_all {A} (P : A -> Prop) (draw : S -> res (A * S)) :
    (forall s x s', draw s = Ok (x, s') -> P x) ->
    forall n s l s', draws draw n s = Ok (l, s') -> Forall P l.
  Proof.
    intros Hd. induction n as [|n IH]; intros s l s' H; cbn [draws] in H.
    - inversion H; constructor.
    - destruct (draw s) as [[x s1]| |] eqn:Ex; cbn [res_bind] in H; try discriminate.
      destruct (draws draw n s1) as [[l1 s2]| |] eqn:E; cbn [res_bind] in H; try discriminate.
      inversion H; subst. constructor; [eapply Hd; eassumption|eapply IH; eassumption].
  Qed.
  Lemma sample_n_length fuel d n s l s' : sample_n O src fuel d n s = Ok (l, s') -> length l = n.
  Proof. apply draws_length. Qed.

  Lemma matrix_new_shape (d : list T) r c m : matrix_new d r c = Some m -> nr m = r /\ nc m = c /\ dat m = d /\ length d = (r * c)%nat /\ (0 < r)%nat /\ (0 < c)%nat.
  Proof.
    unfold matrix_new. destruct ((0 <? r)%nat && (0 <? c)%nat && (r * c =? length d)%nat) eqn:E; cbn [guard bind]; [|discriminate].
    intros H. inversion H; subst. cbn [nr nc dat]. apply andb_true_iff in E. destruct E as [E E3]. apply andb_true_iff in E. destruct E as [E1 E2].
    apply Nat.ltb_lt in E1, E2. apply Nat.eqb_eq in E3. repeat split; auto.
  Qed.
  Lemma matrix_new0_shape (d : list T) r c m :
    matrix_new0 d r c = Some m ->
    nr m = r /\ nc m = c /\ dat m = d /\ length d = (r * c)%nat /\ ((0 < r /\ 0 < c) \/ (r = 0 /\ c = 0))%nat.
  Proof.
    unfold matrix_new0. destruct ((r =? 0)%nat && (c =? 0)%nat && (length d =? 0)%nat) eqn:E.
    - apply andb_true_iff in E. destruct E as [E E3]. apply andb_true_iff in E. destruct E as [E1 E2].
      apply Nat.eqb_eq in E1, E2, E3. subst r c. intros H. inversion H; subst. cbn [nr nc dat]. repeat split; auto.
    - intros H. apply matrix_new_shape in H. destruct H as (? & ? & ? & ? & ? & ?). repeat split; auto.
  Qed.
  Lemma sample_matrix_shape fuel d r c s m s' :
    sample_matrix O src fuel d r c s = Ok (m, s') -> nr m = r /\ nc m = c /\ length (dat m) = (r * c)%nat.
  Proof.
    unfold sample_matrix. destruct (sample_n O src fuel d (r * c) s) as [[l s1]| |] eqn:E; cbn [res_bind]; try discriminate.
    destruct (matrix_new0 l r c) as [m1|] eqn:Em; [|discriminate]. intros H. inversion H; subst.
    apply matrix_new0_shape in Em. destruct Em as (? & ? & Hd & ? & _). rewrite Hd. auto.
  Qed.
  (** acceptance: positive dimensions and a successful bulk draw give a matrix *)
  Lemma sample_matrix_accepts fuel d r c s l s' :
    (0 < r)%nat -> (0 < c)%nat -> sample_n O src fuel d (r * c) s = Ok (l, s') ->
    sample_matrix O src fuel d r c s = Ok ({| nr := r; nc := c; dat := l |}, s').
  Proof.
    intros Hr Hc H. unfold sample_matrix. rewrite H. cbn [res_bind]. unfold matrix_new0, matrix_new.
    apply sample_n_length in H. rewrite H, Nat.eqb_refl.
    destruct (Nat.eqb_spec r 0); [lia|]. cbn [andb].
    destruct (Nat.ltb_spec 0 r); [|lia]. destruct (Nat.ltb_spec 0 c); [|lia]. reflexivity.
  Qed.
  (** a zero dimension is refused -- except 0 x 0 (restated: on the original code [Matrix::new] refused every zero
      dimension, [sample_matrix(0, 0)] included, and this lemma said so) *)
  Lemma sample_matrix_rejects_empty fuel d r c s :
    (r = 0 \/ c = 0)%nat -> ~ (r = 0 /\ c = 0)%nat -> forall m s', sample_matrix O src fuel d r c s <> Ok (m, s').
  Proof.
    intros Hz Hn m s' H. unfold sample_matrix in H.
    destruct (sample_n O src fuel d (r * c) s) as [[l s1]| |]; cbn [res_bind] in H; try discriminate.
    destruct (matrix_new0 l r c) as [m1|] eqn:Em; [|discriminate]. apply matrix_new0_shape in Em. lia.
  Qed.
  (** [sample_matrix(0, 0)] draws nothing and returns the empty matrix *)
  Lemma sample_matrix_empty fuel d s :
    sample_matrix O src fuel d 0 0 s = Ok ({| nr := 0; nc := 0; dat := [] |}, s).
  Proof. reflexivity. Qed.
End Bulk.
