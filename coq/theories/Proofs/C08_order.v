(** * C08, order statistics and bin centres.
    The extremum theorems are proved once for an abstract comparison [lt] that is a strict weak order on the
    elements satisfying [ok] (the non-NaN elements), then transported to [min]/[argmin] (lt = ltb) and
    [max]/[argmax] (lt = flipped ltb) of the model over any carrier, and instantiated on the reals.
    [fmin]/[fmax] are minNum/maxNum and the folds start from the NaN literal exactly as the code does. *)
From Coq Require Import List Arith ZArith QArith Reals Lra Lia Bool.
From Compute Require Import Base.Ops Base.ListMat Model.Reduce Model.Stats Spec.Stats.
Import ListNotations.
Local Close Scope Q_scope.

Section Generic.
  Context {T : Type}.
  Variable lt : T -> T -> bool.
  Variable ok : T -> Prop.
  Hypothesis lt_irrefl : forall x, ok x -> lt x x = false.
  Hypothesis lt_trans : forall x y z, ok x -> ok y -> ok z -> lt x y = true -> lt y z = true -> lt x z = true.
  (** transitivity of "not less than": y <= x -> z <= y -> z <= x *)
  Hypothesis le_trans : forall x y z, ok x -> ok y -> ok z -> lt x y = false -> lt y z = false -> lt x z = false.

  Lemma lt_asym : forall x y, ok x -> ok y -> lt x y = true -> lt y x = false.
  Proof.
    intros x y Hx Hy H. destruct (lt y x) eqn:E; [|reflexivity].
    pose proof (lt_trans x y x Hx Hy Hx H E) as F. rewrite lt_irrefl in F by exact Hx. discriminate.
  Qed.
  (** x < y <= z -> x < z *)
  Lemma lt_le_trans : forall x y z, ok x -> ok y -> ok z -> lt x y = true -> lt z y = false -> lt x z = true.
  Proof.
    intros x y z Hx Hy Hz H1 H2. destruct (lt x z) eqn:E; [reflexivity|].
    rewrite (le_trans x z y Hx Hz Hy E H2) in H1. discriminate.
  Qed.
  (** x <= y < z -> x < z *)
  Lemma le_lt_trans : forall x y z, ok x -> ok y -> ok z -> lt y x = false -> lt y z = true -> lt x z = true.
  Proof.
    intros x y z Hx Hy Hz H1 H2. destruct (lt x z) eqn:E; [reflexivity|].
    rewrite (le_trans y x z Hy Hx Hz H1 E) in H2. discriminate.
  Qed.

  (** *** running minimum: keep the accumulator unless the new element is strictly less *)
  Definition gmin (a y : T) : T := if lt y a then y else a.

  Lemma fold_gmin : forall l a, ok a -> Forall ok l ->
    let r := fold_left gmin l a in
    ok r /\ In r (a :: l) /\ forall x, In x (a :: l) -> lt x r = false.
  Proof.
    induction l as [|y l IH]; intros a Ha Hl.
    - cbn. split; [exact Ha|]. split; [auto|]. intros x [<-|[]]. apply lt_irrefl; exact Ha.
    - inversion Hl as [|? ? Hy Hl']; subst. cbn [fold_left].
      assert (Hm : ok (gmin a y)) by (unfold gmin; destruct (lt y a); assumption).
      destruct (IH (gmin a y) Hm Hl') as [Hr [Hin Hle]].
      set (r := fold_left gmin l (gmin a y)) in *.
      split; [exact Hr|]. split.
      + destruct Hin as [E|Hin]; [|right; right; exact Hin].
        rewrite <- E. unfold gmin. destruct (lt y a); [right; left|left]; reflexivity.
      + pose proof (Hle _ (or_introl eq_refl)) as Hmr.
        intros x [<-|[<-|Hx]].
        * apply (le_trans a (gmin a y) r); try assumption.
          unfold gmin. destruct (lt y a) eqn:E; [apply lt_asym; assumption|apply lt_irrefl; assumption].
        * apply (le_trans y (gmin a y) r); try assumption.
          unfold gmin. destruct (lt y a) eqn:E; [apply lt_irrefl; assumption|exact E].
        * apply Hle. right. exact Hx.
  Qed.

  (** *** index of the running minimum: state (index, value) *)
  Fixpoint amin_go (i : nat) (acc : nat * T) (l : list T) : nat * T :=
    match l with
    | [] => acc
    | x :: l' => amin_go (S i) (if lt x (snd acc) then (i, x) else acc) l'
    end.

  (** [v ~ w]: neither is less than the other *)
  Definition equiv (v w : T) : Prop := lt v w = false /\ lt w v = false.

  Definition amin_inv (d : T) (pre : list T) (acc : nat * T) : Prop :=
    ok (snd acc) /\ fst acc < length pre /\ equiv (snd acc) (nth (fst acc) pre d) /\
    (forall j, j < length pre -> lt (nth j pre d) (snd acc) = false) /\
    (forall j, j < fst acc -> lt (snd acc) (nth j pre d) = true).

  Lemma amin_step : forall d pre acc x, Forall ok pre -> ok x -> amin_inv d pre acc ->
    amin_inv d (pre ++ [x]) (if lt x (snd acc) then (length pre, x) else acc).
  Proof.
    intros d pre [i v] x Hpre Hx (Hv & Hi & [Hvi Hiv] & Hall & Hfirst). cbn [fst snd] in *.
    assert (Hnth : forall j, j < length pre -> ok (nth j pre d)).
    { intros j Hj. eapply Forall_forall; [exact Hpre|]. apply nth_In. exact Hj. }
    assert (Hlast : nth (length pre) (pre ++ [x]) d = x) by (rewrite app_nth2, Nat.sub_diag by lia; reflexivity).
    destruct (lt x v) eqn:E; unfold amin_inv; cbn [fst snd]; rewrite app_length; cbn [length].
    - assert (Hlt : forall j, j < length pre -> lt x (nth j pre d) = true).
      { intros j Hj. apply (lt_le_trans x v (nth j pre d)); auto. }
      split; [exact Hx|]. split; [lia|]. split.
      { rewrite Hlast. split; apply lt_irrefl; exact Hx. }
      split.
      + intros j Hj. destruct (Nat.eq_dec j (length pre)) as [->|Hne].
        * rewrite Hlast. apply lt_irrefl; exact Hx.
        * assert (Hj' : j < length pre) by lia. rewrite app_nth1 by exact Hj'.
          apply lt_asym; auto.
      + intros j Hj. rewrite app_nth1 by exact Hj. auto.
    - split; [exact Hv|]. split; [lia|]. split.
      { rewrite app_nth1 by exact Hi. split; assumption. }
      split.
      + intros j Hj. destruct (Nat.eq_dec j (length pre)) as [->|Hne].
        * rewrite Hlast. exact E.
        * rewrite app_nth1 by lia. apply Hall. lia.
      + intros j Hj. rewrite app_nth1 by lia. auto.
  Qed.

  Lemma amin_go_inv : forall d l pre acc, Forall ok pre -> Forall ok l -> amin_inv d pre acc ->
    amin_inv d (pre ++ l) (amin_go (length pre) acc l).
  Proof.
    induction l as [|x l IH]; intros pre acc Hpre Hl Hinv.
    - rewrite app_nil_r. exact Hinv.
    - inversion Hl as [|? ? Hx Hl']; subst. cbn [amin_go].
      replace (pre ++ x :: l) with ((pre ++ [x]) ++ l) by (rewrite <- app_assoc; reflexivity).
      replace (S (length pre)) with (length (pre ++ [x])) by (rewrite app_length; cbn; lia).
      apply IH; [apply Forall_app; split; [exact Hpre|constructor; [exact Hx|constructor]]|exact Hl'|].
      apply amin_step; assumption.
  Qed.

  (** the fold started from a seed that the first element does not exceed returns the first index at
      which the minimum is attained *)
  Theorem amin_first : forall d seed l, l <> [] -> Forall ok l -> ok seed -> lt seed (hd d l) = false ->
    let i := fst (amin_go 0 (0, seed) l) in
    i < length l /\
    (forall j, j < length l -> lt (nth j l d) (nth i l d) = false) /\
    (forall j, j < i -> lt (nth i l d) (nth j l d) = true).
  Proof.
    intros d seed [|x0 l] Hne Hl Hseed Hhd; [congruence|]. cbn [hd] in Hhd.
    inversion Hl as [|? ? Hx0 Hl']; subst. cbn [amin_go snd].
    assert (Hinv : amin_inv d [x0] (if lt x0 seed then (0, x0) else (0, seed))).
    { destruct (lt x0 seed) eqn:E; unfold amin_inv; cbn [fst snd length nth].
      - split; [exact Hx0|]. split; [lia|]. split; [split; apply lt_irrefl; exact Hx0|].
        split; [|intros j Hj; lia]. intros j Hj. destruct j; [|lia]. apply lt_irrefl; exact Hx0.
      - split; [exact Hseed|]. split; [lia|]. split; [split; assumption|].
        split; [|intros j Hj; lia]. intros j Hj. destruct j; [|lia]. exact E. }
    pose proof (amin_go_inv d l [x0] _ (Forall_cons _ Hx0 (Forall_nil _)) Hl' Hinv) as H.
    cbn [length app] in H.
    destruct (amin_go 1 (if lt x0 seed then (0, x0) else (0, seed)) l) as [i v].
    destruct H as (Hv & Hi & [Hvi Hiv] & Hall & Hfirst). cbn [fst snd] in *.
    assert (Hnth : forall j, j < length (x0 :: l) -> ok (nth j (x0 :: l) d)).
    { intros j Hj. eapply Forall_forall; [exact Hl|]. apply nth_In. exact Hj. }
    split; [exact Hi|]. split.
    - intros j Hj. apply (le_trans _ v _); auto.
    - intros j Hj. apply (le_lt_trans _ v _); auto. apply Hnth. cbn [length] in *. lia.
  Qed.
End Generic.

(** ** transport to the model, on any carrier *)
Section Carrier.
  Context {T : Type} (O : Ops T).
  (** [ok x]: x is not a NaN; [ltb] is a strict weak order on such elements *)
  Variable ok : T -> Prop.
  Hypothesis ok_eqb : forall x, ok x -> eqb O x x = true.
  Hypothesis lt_irrefl : forall x, ok x -> ltb O x x = false.
  Hypothesis lt_trans : forall x y z, ok x -> ok y -> ok z -> ltb O x y = true -> ltb O y z = true -> ltb O x z = true.
  Hypothesis le_trans : forall x y z, ok x -> ok y -> ok z -> ltb O x y = false -> ltb O y z = false -> ltb O x z = false.
  Hypothesis nan_is_nan : is_nan O (f64_nan O) = true.

  Let gt (x y : T) : bool := ltb O y x.
  Lemma gt_irrefl : forall x, ok x -> gt x x = false.
  Proof. exact lt_irrefl. Qed.
  Lemma gt_trans : forall x y z, ok x -> ok y -> ok z -> gt x y = true -> gt y z = true -> gt x z = true.
  Proof. unfold gt. intros x y z Hx Hy Hz H1 H2. apply (lt_trans z y x); assumption. Qed.
  Lemma ge_trans : forall x y z, ok x -> ok y -> ok z -> gt x y = false -> gt y z = false -> gt x z = false.
  Proof. unfold gt. intros x y z Hx Hy Hz H1 H2. apply (le_trans z y x); assumption. Qed.

  Lemma is_nan_ok : forall x, ok x -> is_nan O x = false.
  Proof. intros x Hx. unfold is_nan. rewrite ok_eqb by exact Hx. reflexivity. Qed.

  Lemma fold_fmin_gmin : forall l a, ok a -> Forall ok l ->
    fold_left (fmin O) l a = fold_left (gmin (ltb O)) l a.
  Proof.
    induction l as [|y l IH]; intros a Ha Hl; [reflexivity|]. inversion Hl as [|? ? Hy Hl']; subst. cbn [fold_left].
    assert (E : fmin O a y = gmin (ltb O) a y) by (unfold fmin, gmin; rewrite !is_nan_ok by assumption; reflexivity).
    rewrite E. apply IH; [|exact Hl']. unfold gmin. destruct (ltb O y a); assumption.
  Qed.
  Lemma fold_fmax_gmin : forall l a, ok a -> Forall ok l ->
    fold_left (fmax O) l a = fold_left (gmin gt) l a.
  Proof.
    induction l as [|y l IH]; intros a Ha Hl; [reflexivity|]. inversion Hl as [|? ? Hy Hl']; subst. cbn [fold_left].
    assert (E : fmax O a y = gmin gt a y) by (unfold fmax, gmin, gt; rewrite !is_nan_ok by assumption; reflexivity).
    rewrite E. apply IH; [|exact Hl']. unfold gmin. destruct (gt y a); assumption.
  Qed.

  (** on a non-empty NaN-free list, [min] returns an element of the list that no element is less than *)
  Theorem min_is_min_gen : forall l, l <> [] -> Forall ok l ->
    ok (min O l) /\ In (min O l) l /\ forall x, In x l -> ltb O x (min O l) = false.
  Proof.
    intros [|a l] Hne Hl; [congruence|]. inversion Hl as [|? ? Ha Hl']; subst.
    unfold min. cbn [fold_left].
    assert (E0 : fmin O (f64_nan O) a = a) by (unfold fmin; rewrite nan_is_nan; reflexivity). rewrite !E0.
    rewrite fold_fmin_gmin by assumption.
    apply (fold_gmin (ltb O) ok lt_irrefl lt_trans le_trans); assumption.
  Qed.
  Theorem max_is_max_gen : forall l, l <> [] -> Forall ok l ->
    ok (max O l) /\ In (max O l) l /\ forall x, In x l -> ltb O (max O l) x = false.
  Proof.
    intros [|a l] Hne Hl; [congruence|]. inversion Hl as [|? ? Ha Hl']; subst.
    unfold max. cbn [fold_left].
    assert (E0 : fmax O (f64_nan O) a = a) by (unfold fmax; rewrite nan_is_nan; reflexivity). rewrite !E0.
    rewrite fold_fmax_gmin by assumption.
    apply (fold_gmin gt ok gt_irrefl gt_trans ge_trans); assumption.
  Qed.
  (** with no data both return the NaN seed *)
  Theorem min_max_empty : is_nan O (min O []) = true /\ is_nan O (max O []) = true.
  Proof. split; exact nan_is_nan. Qed.

  Lemma argmin_go_amin : forall l i acc, argmin_go O i acc l = amin_go (ltb O) i acc l.
  Proof. induction l as [|x l IH]; intros i acc; [reflexivity|]. cbn [argmin_go amin_go]. apply IH. Qed.
  Lemma argmax_go_amin : forall l i acc, argmax_go O i acc l = amin_go gt i acc l.
  Proof. induction l as [|x l IH]; intros i acc; [reflexivity|]. cbn [argmax_go amin_go]. apply IH. Qed.

  (** [argmin]: the first index attaining the minimum, provided the first element does not exceed the seed
      [f64::MAX] (every finite datum qualifies) *)
  Theorem argmin_first_gen : forall d l, l <> [] -> Forall ok l -> ok (f64_max O) -> ltb O (f64_max O) (hd d l) = false ->
    argmin O l < length l /\
    (forall j, j < length l -> ltb O (nth j l d) (nth (argmin O l) l d) = false) /\
    (forall j, j < argmin O l -> ltb O (nth (argmin O l) l d) (nth j l d) = true).
  Proof.
    intros d l Hne Hl Hs Hhd. unfold argmin. rewrite argmin_go_amin.
    apply (amin_first (ltb O) ok lt_irrefl lt_trans le_trans d (f64_max O) l); assumption.
  Qed.
  Theorem argmax_first_gen : forall d l, l <> [] -> Forall ok l -> ok (f64_min O) -> ltb O (hd d l) (f64_min O) = false ->
    argmax O l < length l /\
    (forall j, j < length l -> ltb O (nth (argmax O l) l d) (nth j l d) = false) /\
    (forall j, j < argmax O l -> ltb O (nth j l d) (nth (argmax O l) l d) = true).
  Proof.
    intros d l Hne Hl Hs Hhd. unfold argmax. rewrite argmax_go_amin.
    apply (amin_first gt ok gt_irrefl gt_trans ge_trans d (f64_min O) l); assumption.
  Qed.
End Carrier.

(** ** instances on the reals *)
Local Open Scope R_scope.

Lemma Rltb_true : forall x y, Rltb x y = true <-> x < y.
Proof. intros x y. unfold Rltb. destruct (Rlt_dec x y); split; intros; auto; discriminate. Qed.
Lemma Rltb_false : forall x y, Rltb x y = false <-> y <= x.
Proof. intros x y. unfold Rltb. destruct (Rlt_dec x y); split; intros; auto; try discriminate; lra. Qed.

(** [argmin]/[argmax] never produce a NaN themselves: the real carrier suffices *)
Theorem argmin_first : forall l, l <> [] -> hd 0 l <= f64_max RO -> first_argmin l (argmin RO l).
Proof.
  intros l Hne Hhd. unfold first_argmin.
  destruct (argmin_first_gen RO (fun _ => True)) with (d := 0) (l := l) as (H1 & H2 & H3); auto.
  - intros x _. apply Rltb_false. lra.
  - intros x y z _ _ _ A B. apply Rltb_true in A, B. apply Rltb_true. lra.
  - intros x y z _ _ _ A B. apply Rltb_false in A, B. apply Rltb_false. lra.
  - apply Forall_forall. auto.
  - apply Rltb_false. exact Hhd.
  - split; [exact H1|]. split.
    + intros j Hj. apply Rltb_false. apply H2. exact Hj.
    + intros j Hj. apply Rltb_true. apply H3. exact Hj.
Qed.
Theorem argmax_first : forall l, l <> [] -> f64_min RO <= hd 0 l -> first_argmax l (argmax RO l).
Proof.
  intros l Hne Hhd. unfold first_argmax.
  destruct (argmax_first_gen RO (fun _ => True)) with (d := 0) (l := l) as (H1 & H2 & H3); auto.
  - intros x _. apply Rltb_false. lra.
  - intros x y z _ _ _ A B. apply Rltb_true in A, B. apply Rltb_true. lra.
  - intros x y z _ _ _ A B. apply Rltb_false in A, B. apply Rltb_false. lra.
  - apply Forall_forall. auto.
  - apply Rltb_false. exact Hhd.
  - split; [exact H1|]. split.
    + intros j Hj. apply Rltb_false. apply H2. exact Hj.
    + intros j Hj. apply Rltb_true. apply H3. exact Hj.
Qed.

(** [min]/[max] start from NaN: stated on the reals extended with a NaN ([XO]) for data without NaN *)
From Compute Require Import Base.XReal.

Definition xok (a : XR) : Prop := a <> None.
Lemma Forall_xok : forall l : list R, Forall xok (map Some l).
Proof. intros l. apply Forall_forall. intros a Ha. apply in_map_iff in Ha. destruct Ha as [x [<- _]]. discriminate. Qed.

Lemma XO_min_max : forall l : list R, l <> [] ->
  (exists m, min XO (map Some l) = Some m /\ is_min l m) /\
  (exists m, max XO (map Some l) = Some m /\ is_max l m).
Proof.
  intros l Hne.
  assert (Hne' : map Some l <> []) by (destruct l; [congruence|discriminate]).
  assert (A1 : forall x, xok x -> eqb XO x x = true).
  { intros [x|] Hx; [|exfalso; apply Hx; reflexivity]. cbn. unfold Reqb. destruct (Req_EM_T x x); congruence. }
  assert (A2 : forall x, xok x -> ltb XO x x = false).
  { intros [x|] Hx; [|exfalso; apply Hx; reflexivity]. cbn. apply Rltb_false. lra. }
  assert (A3 : forall x y z, xok x -> xok y -> xok z -> ltb XO x y = true -> ltb XO y z = true -> ltb XO x z = true).
  { intros [x|] [y|] [z|] Hx Hy Hz; try (exfalso; solve [apply Hx; reflexivity | apply Hy; reflexivity | apply Hz; reflexivity]).
    cbn. intros A B. apply Rltb_true in A, B. apply Rltb_true. lra. }
  assert (A4 : forall x y z, xok x -> xok y -> xok z -> ltb XO x y = false -> ltb XO y z = false -> ltb XO x z = false).
  { intros [x|] [y|] [z|] Hx Hy Hz; try (exfalso; solve [apply Hx; reflexivity | apply Hy; reflexivity | apply Hz; reflexivity]).
    cbn. intros A B. apply Rltb_false in A, B. apply Rltb_false. lra. }
  assert (A5 : is_nan XO (f64_nan XO) = true) by reflexivity.
  split.
  - destruct (min_is_min_gen XO xok A1 A2 A3 A4 A5 (map Some l) Hne' (Forall_xok l)) as (Hok & Hin & Hle).
    destruct (min XO (map Some l)) as [m|] eqn:E; [|exfalso; apply Hok; reflexivity].
    exists m. split; [reflexivity|]. split.
    + apply in_map_iff in Hin. destruct Hin as [x [Hx Hin]]. inversion Hx; subst. exact Hin.
    + intros x Hx. specialize (Hle (Some x) (in_map Some l x Hx)). cbn in Hle. apply Rltb_false in Hle. exact Hle.
  - destruct (max_is_max_gen XO xok A1 A2 A3 A4 A5 (map Some l) Hne' (Forall_xok l)) as (Hok & Hin & Hle).
    destruct (max XO (map Some l)) as [m|] eqn:E; [|exfalso; apply Hok; reflexivity].
    exists m. split; [reflexivity|]. split.
    + apply in_map_iff in Hin. destruct Hin as [x [Hx Hin]]. inversion Hx; subst. exact Hin.
    + intros x Hx. specialize (Hle (Some x) (in_map Some l x Hx)). cbn in Hle. apply Rltb_false in Hle. exact Hle.
Qed.

Theorem min_is_min : forall l : list R, l <> [] -> exists m, min XO (map Some l) = Some m /\ is_min l m.
Proof. intros l H. apply (XO_min_max l H). Qed.
Theorem max_is_max : forall l : list R, l <> [] -> exists m, max XO (map Some l) = Some m /\ is_max l m.
Proof. intros l H. apply (XO_min_max l H). Qed.
(** NaN entries are skipped (minNum): inserting NaNs anywhere does not change the result *)
Lemma fmin_nan_r : forall a, fmin XO a None = a.
Proof. intros [a|]; [|reflexivity]. unfold fmin, is_nan. cbn. unfold Reqb. destruct (Req_EM_T a a); [reflexivity|congruence]. Qed.
Lemma fmax_nan_r : forall a, fmax XO a None = a.
Proof. intros [a|]; [|reflexivity]. unfold fmax, is_nan. cbn. unfold Reqb. destruct (Req_EM_T a a); [reflexivity|congruence]. Qed.
Theorem min_max_skip_nan : forall pre post : list XR,
  min XO (pre ++ None :: post) = min XO (pre ++ post) /\ max XO (pre ++ None :: post) = max XO (pre ++ post).
Proof.
  intros pre post. unfold min, max. rewrite !fold_left_app. cbn [fold_left]. rewrite fmin_nan_r, fmax_nan_r. auto.
Qed.

(** ** bin centres (any carrier, hence bit for bit on binary64) *)
Local Close Scope R_scope.
Lemma map2_length : forall {A B C} (f : A -> B -> C) x y, length (map2 f x y) = Nat.min (length x) (length y).
Proof. induction x as [|a x IH]; intros [|b y]; cbn; try reflexivity. rewrite IH. reflexivity. Qed.
Lemma map2_nth : forall {A B C} (f : A -> B -> C) x y i da db dc,
  i < length x -> i < length y -> nth i (map2 f x y) dc = f (nth i x da) (nth i y db).
Proof.
  induction x as [|a x IH]; intros [|b y] i da db dc Hx Hy; cbn in *; try lia.
  destruct i; [reflexivity|]. apply IH; lia.
Qed.
Lemma nth_tl : forall {A} (l : list A) i d, nth i (tl l) d = nth (S i) l d.
Proof. intros A [|a l] i d; [destruct i; reflexivity|reflexivity]. Qed.

Theorem hist_bin_centers_spec : forall {T} (O : Ops T) (e : list T),
  if 2 <=? length e then
    exists c, hist_bin_centers O e = Some c /\
              is_midpoints (add O) (fun s => div O s (ofZ O 2)) e c
  else hist_bin_centers O e = None.
Proof.
  intros T O e. unfold hist_bin_centers. destruct (2 <=? length e) eqn:E; [|reflexivity].
  apply Nat.leb_le in E. eexists. split; [reflexivity|]. split.
  - rewrite map2_length. destruct e as [|a e]; [cbn in E; lia|]. cbn [tl length]. lia.
  - intros i d Hi. rewrite (map2_nth _ _ _ i d d d).
    + rewrite nth_tl. reflexivity.
    + lia.
    + destruct e as [|a e]; [cbn in E; lia|]. cbn [tl length] in *. lia.
Qed.

(** ** Matrix::argmin / argmax: flat first index converted to (row, column) *)
Lemma matrix_index_spec : forall nc am,
  match matrix_index nc am with
  | None => nc = 0
  | Some (r, c) => 0 < nc /\ c < nc /\ am = r * nc + c
  end.
Proof.
  intros nc am. unfold matrix_index. destruct (Nat.eqb_spec nc 0) as [->|Hnc]; [reflexivity|].
  split; [lia|]. split; [apply Nat.mod_upper_bound; exact Hnc|].
  rewrite (Nat.div_mod am nc Hnc) at 1. lia.
Qed.

Local Open Scope R_scope.
Theorem matrix_argmin_spec : forall (l : list R) (nc : nat), l <> [] -> hd 0 l <= f64_max RO ->
  match matrix_argmin RO l nc with
  | None => nc = 0%nat
  | Some (r, c) => (0 < nc)%nat /\ (c < nc)%nat /\ first_argmin l (r * nc + c)
  end.
Proof.
  intros l nc Hne Hhd. unfold matrix_argmin. pose proof (matrix_index_spec nc (argmin RO l)) as H.
  destruct (matrix_index nc (argmin RO l)) as [[r c]|]; [|exact H].
  destruct H as (H1 & H2 & H3). split; [exact H1|]. split; [exact H2|]. rewrite <- H3. apply argmin_first; assumption.
Qed.
Theorem matrix_argmax_spec : forall (l : list R) (nc : nat), l <> [] -> f64_min RO <= hd 0 l ->
  match matrix_argmax RO l nc with
  | None => nc = 0%nat
  | Some (r, c) => (0 < nc)%nat /\ (c < nc)%nat /\ first_argmax l (r * nc + c)
  end.
Proof.
  intros l nc Hne Hhd. unfold matrix_argmax. pose proof (matrix_index_spec nc (argmax RO l)) as H.
  destruct (matrix_index nc (argmax RO l)) as [[r c]|]; [|exact H].
  destruct H as (H1 & H2 & H3). split; [exact H1|]. split; [exact H2|]. rewrite <- H3. apply argmax_first; assumption.
Qed.
