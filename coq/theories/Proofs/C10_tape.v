(** * C10 (tape, part 1) — the reverse sweep of [Base/Tape.v] computes adjoints.

    For a tape (nodes newest first) and a node index [k], [tanf nds k j] is the TANGENT of node [j]
    when node [k] is taken as the independent variable: 1 at [k], 0 at every other leaf, and
    [w1 * tangent(d1) + w2 * tangent(d2)] at every other node (forward-mode propagation along the
    recorded partial derivatives).  The theorem [grad_adjoint] says that on the reals the vector
    returned by [Var::grad] ([grad RO tp v], the reverse sweep from the seed [derivs[loc v] = 1])
    holds at EVERY position [k] the tangent of the output node with respect to node [k] — for every
    well-formed tape (each node is a leaf [(idx, idx, 0, 0)] or depends on older nodes only), of any
    length, with any sharing (a node used several times: its adjoint accumulates). *)
From Coq Require Import List Arith ZArith Bool Lia Reals Lra.
From Compute Require Import Base.Ops Base.ListMat Base.Tape.
Import ListNotations.
Local Open Scope R_scope.

Notation rnode := (@node R).
Notation rtape := (@tape R).
Notation rvar := (@var R).

(** ** tangents *)
Fixpoint tanf (nds : list rnode) (k j : nat) : R :=
  match nds with
  | [] => 0
  | nd :: nds' =>
      let idx := length nds' in
      if (j =? idx)%nat then
        (if (idx =? k)%nat then 1
         else if (nd1 nd =? idx)%nat then 0
         else nw1 nd * tanf nds' k (nd1 nd) + nw2 nd * tanf nds' k (nd2 nd))
      else tanf nds' k j
  end.

(** well-formed tapes: leaves are [(idx, idx, 0., 0.)] ([add_var]), other nodes depend on older ones *)
Fixpoint nodes_wf (nds : list rnode) : Prop :=
  match nds with
  | [] => True
  | nd :: nds' =>
      let idx := length nds' in
      ((nd1 nd = idx /\ nd2 nd = idx /\ nw1 nd = 0 /\ nw2 nd = 0) \/ (nd1 nd < idx /\ nd2 nd < idx)%nat)
      /\ nodes_wf nds'
  end.
Definition tape_wf (tp : rtape) : Prop := tlen tp = length (nodes tp) /\ nodes_wf (nodes tp).

Lemma tanf_out nds k j : (length nds <= j)%nat -> tanf nds k j = 0.
Proof.
  induction nds as [|nd nds IH]; cbn [tanf length]; intros H; [reflexivity|].
  destruct (Nat.eqb_spec j (length nds)); [lia|]. apply IH. lia.
Qed.

Lemma tanf_cut_out nds k : (length nds <= k)%nat -> forall j, tanf nds k j = 0.
Proof.
  induction nds as [|nd nds IH]; cbn [tanf length]; intros H j; [reflexivity|].
  destruct (Nat.eqb_spec j (length nds)).
  - destruct (Nat.eqb_spec (length nds) k); [lia|].
    destruct (Nat.eqb_spec (nd1 nd) (length nds)); [reflexivity|].
    rewrite !IH by lia. ring.
  - apply IH. lia.
Qed.

(** tangents of old nodes do not change when the tape grows *)
Lemma tanf_app new old k j : (j < length old)%nat -> tanf (new ++ old) k j = tanf old k j.
Proof.
  intros Hj. induction new as [|nd new IH]; [reflexivity|].
  cbn [app tanf]. rewrite app_length.
  destruct (Nat.eqb_spec j (length new + length old)); [lia|]. exact IH.
Qed.

(** ** the weighted sum [sum_i derivs[i] * tangent(i)] over aligned newest-first lists *)
Fixpoint wsum (nds : list rnode) (drv : list R) (k : nat) : R :=
  match nds, drv with
  | nd :: nds', g :: drv' => g * tanf nds k (length nds') + wsum nds' drv' k
  | _, _ => 0
  end.

Lemma wsum_cut_out nds k : (length nds <= k)%nat -> forall drv, wsum nds drv k = 0.
Proof.
  induction nds as [|nd nds IH]; intros H drv; [reflexivity|].
  destruct drv as [|g drv]; [reflexivity|]. cbn [wsum].
  rewrite (tanf_cut_out (nd :: nds) k H). cbn [length] in H. rewrite IH by lia. ring.
Qed.

Lemma tanf_older nd nds k j : (j < length nds)%nat -> tanf (nd :: nds) k j = tanf nds k j.
Proof. intros H. exact (tanf_app [nd] nds k j H). Qed.

Lemma wsum_bump nds k x : forall drv p,
  length drv = length nds -> (p < length nds)%nat ->
  wsum nds (bump RO drv p x) k = wsum nds drv k + x * tanf nds k (length nds - 1 - p).
Proof.
  induction nds as [|nd nds IH]; intros drv p Hl Hp; cbn [length] in *; [lia|].
  destruct drv as [|g drv]; cbn [length] in Hl; [lia|].
  destruct p as [|p]; cbn [bump wsum].
  - cbn [add RO]. replace (S (length nds) - 1 - 0)%nat with (length nds) by lia. ring.
  - rewrite IH by lia.
    replace (S (length nds) - 1 - S p)%nat with (length nds - 1 - p)%nat by lia.
    rewrite (tanf_older nd nds k (length nds - 1 - p)) by lia. ring.
Qed.

Lemma bump_length x : forall (drv : list R) p, length (bump RO drv p x) = length drv.
Proof. induction drv as [|g drv IH]; intros [|p]; cbn [bump length]; auto. Qed.

(** one dependency update [derivs[d] += w * derivs[idx]] of a non-leaf node *)
Lemma upd1_older nds k idx d w g rest :
  idx = length nds -> length rest = length nds -> (d < idx)%nat ->
  exists rest', upd1 RO idx d w g rest = (g, rest') /\ length rest' = length nds /\
                wsum nds rest' k = wsum nds rest k + w * g * tanf nds k d.
Proof.
  intros -> Hl Hd. unfold upd1.
  destruct (Nat.eqb_spec d (length nds)); [lia|].
  destruct (Nat.ltb_spec d (length nds)); [|lia].
  eexists; split; [reflexivity|]. split; [rewrite bump_length; exact Hl|].
  rewrite wsum_bump by lia. cbn [mul RO].
  replace (length nds - 1 - (length nds - 1 - d))%nat with d by lia. ring.
Qed.

(** ** the sweep *)
Lemma sweep_adjoint k : forall nds drv acc,
  nodes_wf nds -> length drv = length nds ->
  exists fr, sweep RO nds drv acc = rev fr ++ acc /\ length fr = length nds /\
             ((k < length nds)%nat -> nth k (rev fr) 0 = wsum nds drv k).
Proof.
  induction nds as [|nd nds IH]; intros drv acc Hwf Hl.
  - destruct drv; cbn in Hl; [|lia]. exists []. cbn. repeat split; auto. intros; lia.
  - destruct drv as [|g drv]; cbn [length] in Hl; [lia|].
    cbn [nodes_wf] in Hwf. destruct Hwf as [Hnd Hwf].
    cbn [sweep].
    destruct Hnd as [(H1 & H2 & W1 & W2)|[H1 H2]].
    + (* leaf *)
      rewrite H1, H2, W1, W2. unfold upd1. rewrite Nat.eqb_refl. cbn [add mul RO].
      destruct (IH drv ((g + 0 * g + 0 * (g + 0 * g)) :: acc) Hwf ltac:(lia)) as (fr & Hs & Hfl & Hk).
      exists ((g + 0 * g + 0 * (g + 0 * g)) :: fr). split; [|split].
      * rewrite Hs. cbn [rev]. rewrite <- app_assoc. reflexivity.
      * cbn [length]. lia.
      * cbn [length rev wsum tanf]. intros Hlt. rewrite Nat.eqb_refl.
        destruct (Nat.eqb_spec (length nds) k) as [E|E].
        -- subst k. rewrite app_nth2 by (rewrite rev_length; lia).
           rewrite rev_length, Hfl, Nat.sub_diag. cbn [nth].
           rewrite (wsum_cut_out nds (length nds)) by lia. ring.
        -- rewrite app_nth1 by (rewrite rev_length; lia). rewrite Hk by lia.
           rewrite H1, Nat.eqb_refl. ring.
    + (* interior node *)
      destruct (upd1_older nds k (length nds) (nd1 nd) (nw1 nd) g drv eq_refl ltac:(lia) H1)
        as (r1 & E1 & L1 & S1).
      rewrite E1.
      destruct (upd1_older nds k (length nds) (nd2 nd) (nw2 nd) g r1 eq_refl L1 H2)
        as (r2 & E2 & L2 & S2).
      rewrite E2.
      destruct (IH r2 (g :: acc) Hwf L2) as (fr & Hs & Hfl & Hk).
      exists (g :: fr). split; [|split].
      * rewrite Hs. cbn [rev]. rewrite <- app_assoc. reflexivity.
      * cbn [length]. lia.
      * cbn [length rev wsum tanf]. intros Hlt. rewrite Nat.eqb_refl.
        destruct (Nat.eqb_spec (length nds) k) as [E|E].
        -- subst k. rewrite app_nth2 by (rewrite rev_length; lia).
           rewrite rev_length, Hfl, Nat.sub_diag. cbn [nth].
           rewrite (wsum_cut_out nds (length nds)) by lia. ring.
        -- rewrite app_nth1 by (rewrite rev_length; lia). rewrite Hk by lia.
           destruct (Nat.eqb_spec (nd1 nd) (length nds)); [lia|].
           rewrite S2, S1. ring.
Qed.

(** the seed [derivs[loc] = 1.] *)
Lemma seed_S n loc :
  seed RO (S n) loc = (if (n =? loc)%nat then 1 else 0) :: seed RO n loc.
Proof. unfold seed. rewrite seq_S, rev_app_distr. reflexivity. Qed.

Lemma seed_length n loc : length (seed RO n loc) = n.
Proof. unfold seed. rewrite map_length, rev_length, seq_length. reflexivity. Qed.

Lemma wsum_seed k loc : forall nds, wsum nds (seed RO (length nds) loc) k = tanf nds k loc.
Proof.
  induction nds as [|nd nds IH]; [reflexivity|].
  cbn [length]. rewrite seed_S. cbn [wsum]. rewrite IH.
  destruct (Nat.eqb_spec (length nds) loc) as [E|E].
  - subst loc. rewrite (tanf_out nds k (length nds)) by lia. ring.
  - destruct (Nat.lt_ge_cases loc (length nds)) as [Hlt|Hge].
    + rewrite (tanf_older nd nds k loc Hlt). ring.
    + rewrite (tanf_out (nd :: nds) k loc) by (cbn [length]; lia).
      rewrite (tanf_out nds k loc) by lia. ring.
Qed.

(** ** [Var::grad] returns, at every position, the tangent of the output with respect to that node *)
Theorem grad_adjoint (tp : rtape) (v : rvar) (k : nat) :
  tape_wf tp -> (k < tlen tp)%nat ->
  nth k (grad RO tp v) 0 = tanf (nodes tp) k (snd v).
Proof.
  intros [Hlen Hwf] Hk. unfold grad. rewrite Hlen in *.
  destruct (sweep_adjoint k (nodes tp) (seed RO (length (nodes tp)) (snd v)) [] Hwf (seed_length _ _))
    as (fr & Hs & Hfl & Hnth).
  rewrite Hs, app_nil_r, Hnth by exact Hk. apply wsum_seed.
Qed.

Lemma grad_length (tp : rtape) (v : rvar) : tape_wf tp -> length (grad RO tp v) = tlen tp.
Proof.
  intros [Hlen Hwf]. unfold grad. rewrite Hlen.
  destruct (sweep_adjoint 0 (nodes tp) (seed RO (length (nodes tp)) (snd v)) [] Hwf (seed_length _ _))
    as (fr & Hs & Hfl & _).
  rewrite Hs, app_nil_r, rev_length. exact Hfl.
Qed.
