(** Proofs for C13, part 1: sums on the reals ([RO] carrier), reductions, list facts. *)
From Coq Require Import Reals List Arith ZArith Bool Lia Lra.
From Compute Require Import Base.Ops Base.ListMat Model.Reduce Model.MatMul Model.TimeSeries Spec.TimeSeries.
Import ListNotations.
Local Open Scope R_scope.

(** ** [Rsum] *)
Lemma Rsum_app l1 l2 : Rsum (l1 ++ l2) = Rsum l1 + Rsum l2.
Proof. induction l1 as [|a l1 IH]; simpl; [lra | rewrite IH; lra]. Qed.

Lemma Rsum_rev l : Rsum (rev l) = Rsum l.
Proof. induction l as [|a l IH]; simpl; [reflexivity | rewrite Rsum_app, IH; simpl; lra]. Qed.

Lemma fold_left_Rplus l s : fold_left Rplus l s = s + Rsum l.
Proof. revert s; induction l as [|a l IH]; intros s; simpl; [lra | rewrite IH; lra]. Qed.

Lemma Rsum_map_ext {A} (f g : A -> R) l :
  (forall a, In a l -> f a = g a) -> Rsum (map f l) = Rsum (map g l).
Proof.
  induction l as [|a l IH]; simpl; intros H; [reflexivity|].
  rewrite (H a) by auto. rewrite IH; auto.
Qed.

Lemma Rsum_map_mult_l {A} (c : R) (f : A -> R) l : Rsum (map (fun a => c * f a) l) = c * Rsum (map f l).
Proof. induction l as [|a l IH]; simpl; [lra | rewrite IH; lra]. Qed.

Lemma Rsum_map_plus {A} (f g : A -> R) l :
  Rsum (map (fun a => f a + g a) l) = Rsum (map f l) + Rsum (map g l).
Proof. induction l as [|a l IH]; simpl; [lra | rewrite IH; lra]. Qed.

Lemma Rsum_map_zero {A} (f : A -> R) l : (forall a, In a l -> f a = 0) -> Rsum (map f l) = 0.
Proof.
  induction l as [|a l IH]; simpl; intros H; [reflexivity|].
  rewrite (H a) by auto. rewrite IH by auto. lra.
Qed.

(** exchange of two finite sums *)
Lemma Rsum_swap {A B} (f : A -> B -> R) l1 l2 :
  Rsum (map (fun a => Rsum (map (fun b => f a b) l2)) l1)
  = Rsum (map (fun b => Rsum (map (fun a => f a b) l1)) l2).
Proof.
  induction l1 as [|a l1 IH]; simpl.
  - symmetry. apply Rsum_map_zero. reflexivity.
  - rewrite IH. rewrite <- Rsum_map_plus. reflexivity.
Qed.

(** Σ_k δ(i,k) f(k) over 0..p-1 *)
Lemma Rsum_delta (f : nat -> R) i s p :
  (s <= i < s + p)%nat ->
  Rsum (map (fun k => (if Nat.eqb i k then 1 else 0) * f k) (seq s p)) = f i.
Proof.
  revert s; induction p as [|p IH]; intros s H; [lia|].
  simpl. destruct (Nat.eqb_spec i s) as [->|Hne].
  - rewrite Rsum_map_zero; [lra|].
    intros k Hk. apply in_seq in Hk. destruct (Nat.eqb_spec s k); [lia | lra].
  - rewrite IH by lia. lra.
Qed.

(** ** list facts: [map2], [skipn], [seq] *)
Lemma map2_len {A B C} (f : A -> B -> C) l1 l2 :
  length (map2 f l1 l2) = Nat.min (length l1) (length l2).
Proof. revert l2; induction l1 as [|a l1 IH]; intros [|b l2]; simpl; auto. Qed.

Lemma map2_app_l {A B C} (f : A -> B -> C) a a' b :
  (length b <= length a)%nat -> map2 f (a ++ a') b = map2 f a b.
Proof.
  revert b; induction a as [|u a IH]; intros [|v b]; simpl; intros H; try lia; auto.
  - destruct a'; reflexivity.
  - f_equal. apply IH. lia.
Qed.

Lemma map2_app_r {A B C} (f : A -> B -> C) a b b' :
  (length a <= length b)%nat -> map2 f a (b ++ b') = map2 f a b.
Proof.
  revert b; induction a as [|u a IH]; intros [|v b]; simpl; intros H; try lia; auto.
  f_equal. apply IH. lia.
Qed.

Lemma map2_app {A B C} (f : A -> B -> C) a a' b b' :
  length a = length b -> map2 f (a ++ a') (b ++ b') = map2 f a b ++ map2 f a' b'.
Proof.
  revert b; induction a as [|u a IH]; intros [|v b]; simpl; intros H; try lia; auto.
  f_equal. apply IH. lia.
Qed.

Lemma map2_rev {A B C} (f : A -> B -> C) a b :
  length a = length b -> map2 f (rev a) (rev b) = rev (map2 f a b).
Proof.
  revert b; induction a as [|u a IH]; intros [|v b]; simpl; intros H; try lia; auto.
  rewrite map2_app by (rewrite !rev_length; lia). rewrite IH by lia. reflexivity.
Qed.

Lemma map2_comm {A C} (f : A -> A -> C) a b :
  (forall u v, f u v = f v u) -> map2 f a b = map2 f b a.
Proof. intros Hc. revert b; induction a as [|u a IH]; intros [|v b]; simpl; auto. rewrite Hc, IH. reflexivity. Qed.

Lemma map2_map_l {A A' B C} (f : A' -> B -> C) (g : A -> A') a b :
  map2 f (map g a) b = map2 (fun u v => f (g u) v) a b.
Proof. revert b; induction a as [|u a IH]; intros [|v b]; simpl; auto. rewrite IH. reflexivity. Qed.

Lemma map2_map_r {A B B' C} (f : A -> B' -> C) (g : B -> B') a b :
  map2 f a (map g b) = map2 (fun u v => f u (g v)) a b.
Proof. revert b; induction a as [|u a IH]; intros [|v b]; simpl; auto. rewrite IH. reflexivity. Qed.

Lemma map_map2 {A B C D} (g : C -> D) (f : A -> B -> C) a b :
  map g (map2 f a b) = map2 (fun u v => g (f u v)) a b.
Proof. revert b; induction a as [|u a IH]; intros [|v b]; simpl; auto. rewrite IH. reflexivity. Qed.

Lemma map2_ext {A B C} (f g : A -> B -> C) a b :
  (forall u v, f u v = g u v) -> map2 f a b = map2 g a b.
Proof. intros H. revert b; induction a as [|u a IH]; intros [|v b]; simpl; auto. rewrite H, IH. reflexivity. Qed.

Lemma nth_skipn_add {A} (l : list A) h j d : nth j (skipn h l) d = nth (h + j) l d.
Proof.
  revert l; induction h as [|h IH]; intros l; [reflexivity|].
  destruct l as [|a l]; simpl; [destruct j; reflexivity | apply IH].
Qed.

(** [map2] as an indexed map *)
Lemma map2_as_seq {A B C} (f : A -> B -> C) a b da db :
  map2 f a b = map (fun j => f (nth j a da) (nth j b db)) (seq 0 (Nat.min (length a) (length b))).
Proof.
  revert b; induction a as [|u a IH]; intros [|v b]; simpl; auto.
  f_equal. rewrite IH. rewrite <- seq_shift, map_map. reflexivity.
Qed.

Lemma map_seq_shift {A} (g : nat -> A) h len :
  map g (seq h len) = map (fun j => g (h + j)%nat) (seq 0 len).
Proof.
  revert g; induction h as [|h IH]; intros g; [reflexivity|].
  rewrite <- seq_shift, map_map. rewrite IH. apply map_ext. intros j. f_equal.
Qed.

(** the lagged products of the code are the index form of the definition *)
Lemma lag_map2_as_seq {A C} (f : A -> A -> C) (x : list A) h d :
  map2 f (skipn h x) x
  = map (fun i => f (nth i x d) (nth (i - h) x d)) (seq h (length x - h)).
Proof.
  rewrite (map2_as_seq f _ _ d d). rewrite skipn_length.
  replace (Nat.min (length x - h) (length x)) with (length x - h)%nat by lia.
  rewrite (map_seq_shift _ h). apply map_ext. intros j.
  rewrite nth_skipn_add. f_equal. f_equal. lia.
Qed.

(** ** the carrier [RO]: reductions are sums *)
Lemma ofN_RO n : ofN RO n = INR n.
Proof. unfold ofN. cbn [ofZ RO]. symmetry. apply INR_IZR_INZ. Qed.

Lemma isum_RO l : isum RO l = Rsum l.
Proof. unfold isum. change (add RO) with Rplus. change (neg RO (zero RO)) with (- 0). rewrite fold_left_Rplus. lra. Qed.

Lemma sum8_RO fuel s x : (length x < 8 * fuel)%nat -> sum8 RO fuel s x = s + Rsum x.
Proof.
  revert s x; induction fuel as [|fuel IH]; intros s x H; [lia|].
  cbn [sum8].
  destruct x as [|x0 [|x1 [|x2 [|x3 [|x4 [|x5 [|x6 [|x7 x']]]]]]]];
    try (change (add RO) with Rplus; rewrite fold_left_Rplus; reflexivity).
  rewrite IH by (simpl in H; lia). unfold Rsum. cbn [add RO fold_right]. lra.
Qed.

Lemma sum_RO x : sum RO x = Rsum x.
Proof. unfold sum. rewrite sum8_RO by lia. cbn [zero RO]. lra. Qed.

Lemma ts_mean_RO x : ts_mean RO x = smean x.
Proof. unfold ts_mean, smean. rewrite sum_RO, ofN_RO. reflexivity. Qed.

Lemma dot8_RO fuel s x y :
  (length x < 8 * fuel)%nat -> dot8 RO fuel s x y = s + Rsum (map2 Rmult x y).
Proof.
  revert s x y; induction fuel as [|fuel IH]; intros s x y H; [lia|].
  cbn [dot8].
  destruct x as [|x0 [|x1 [|x2 [|x3 [|x4 [|x5 [|x6 [|x7 x']]]]]]]];
    try (change (add RO) with Rplus; change (mul RO) with Rmult; rewrite fold_left_Rplus; reflexivity).
  destruct y as [|y0 [|y1 [|y2 [|y3 [|y4 [|y5 [|y6 [|y7 y']]]]]]]];
    try (change (add RO) with Rplus; change (mul RO) with Rmult; rewrite fold_left_Rplus; reflexivity).
  rewrite IH by (simpl in H; lia). unfold Rsum. cbn [add mul RO fold_right map2]. lra.
Qed.

Lemma dot_RO x y :
  dot RO x y = if Nat.eqb (length x) (length y) then Some (Rsum (map2 Rmult x y)) else None.
Proof.
  unfold dot, dot_raw. destruct (Nat.eqb _ _); [|reflexivity].
  rewrite dot8_RO by lia. cbn [zero RO]. f_equal. lra.
Qed.

Lemma powi2_RO a : powi RO a 2 = a * a.
Proof. cbn. lra. Qed.

(** squares *)
Lemma Rsum_sq_nonneg l : 0 <= Rsum (map (fun v => v * v) l).
Proof. induction l as [|a l IH]; simpl; [lra | nra]. Qed.

Lemma Rsum_sq_skipn k l : Rsum (map (fun v => v * v) (skipn k l)) <= Rsum (map (fun v => v * v) l).
Proof.
  revert l; induction k as [|k IH]; intros l; [simpl; lra|].
  destruct l as [|a l]; simpl; [lra|]. specialize (IH l). nra.
Qed.

(** 2|Σ u_j v_j| <= Σ u_j^2 + Σ v_j^2 (from 2|ab| <= a^2 + b^2, term by term; the lists may have
    different lengths: [map2] stops at the shorter one) *)
Lemma two_abs_dot_le u v :
  2 * Rabs (Rsum (map2 Rmult u v)) <= Rsum (map (fun a => a * a) u) + Rsum (map (fun a => a * a) v).
Proof.
  revert v; induction u as [|a u IH]; intros [|b v]; cbn [map2 map Rsum fold_right].
  - rewrite Rabs_R0. lra.
  - rewrite Rabs_R0. pose proof (Rsum_sq_nonneg v). fold (Rsum (map (fun a => a * a) v)). nra.
  - rewrite Rabs_R0. pose proof (Rsum_sq_nonneg u). fold (Rsum (map (fun a => a * a) u)). nra.
  - specialize (IH v).
    fold (Rsum (map2 Rmult u v)). fold (Rsum (map (fun a => a * a) u)). fold (Rsum (map (fun a => a * a) v)).
    pose proof (Rabs_triang (a * b) (Rsum (map2 Rmult u v))) as Ht.
    assert (Hab : 2 * Rabs (a * b) <= a * a + b * b).
    { pose proof (Rle_0_sqr (a + b)) as H1. pose proof (Rle_0_sqr (a - b)) as H2. unfold Rsqr in H1, H2.
      unfold Rabs. destruct (Rcase_abs (a * b)); lra. }
    lra.
Qed.

(** the lag-k sum of products of a sequence with itself is bounded by its sum of squares *)
Lemma lag_dot_le_sq a k :
  Rabs (Rsum (map2 Rmult (skipn k a) a)) <= Rsum (map (fun v => v * v) a).
Proof.
  pose proof (two_abs_dot_le (skipn k a) a). pose proof (Rsum_sq_skipn k a). lra.
Qed.
