(** * Tie A for C16: the hand-written bracketing [scan] of [Model/Interp.v] IS the source's loop
    [let mut idx = 0; for j in 0..n - 1 { if x[j] > tgt[i] { break; } idx += 1; }].
    [Generated/interp_loops.v] is produced on every run by tools/tiea/interp_loops.py (statement-level translator,
    [LoopTranslator.fragment] of tools/rsexpr.py) from src/functions/interpolate.rs: the loop is [rs_loop] (a fold with
    [break]) over [0 .. n - 1] with checked reads.  For every carrier, abscissae [x] (at least one) and target in bounds
    the generated loop returns the model's [scan]; with no abscissa the wrapped [0 - 1] leads to the out-of-bounds read
    [x[0]]: a panic, as in the model's [interp1].  Induction on the number of passes; nothing about the carrier. *)
From Coq Require Import List ZArith Arith Bool Lia.
From Compute Require Import Base.Ops Base.ListMat Base.RsExpr Model.Interp Generated.interp_loops Proofs.RsExprLemmas.
Import ListNotations.

(** the state a loop ends with (normally or by [break]); [None] if it returned or panicked *)
Definition flow_state {S R : Type} (f : rs_flow S R) : option S :=
  match f with rs_next s | rs_break s => Some s | rs_return _ => None | rs_panic => None end.

Section TieA.
  Context {T : Type} (O : Ops T).

  Lemma scan_loop : forall (x tgt : list T) (i : nat) (t : T), nth_error tgt i = Some t ->
    forall (m j : nat), j + m <= length x ->
    flow_state (rs_loop (R := unit)
      (fun idx j => match rs_get x j with
                    | Some g1 => match rs_get tgt (Z.of_nat i) with
                                 | Some g2 => if ltb O g2 g1 then rs_break idx else let idx := Z.add idx 1 in rs_next idx
                                 | None => rs_panic end
                    | None => rs_panic end)
      (rs_seq (Z.of_nat j) m) (Z.of_nat j))
    = Some (Z.of_nat (j + scan O (skipn j x) m t)).
  Proof.
    intros x tgt i t Ht.
    match goal with |- context [rs_loop ?f] => set (F := f) end.
    induction m as [|m IH]; intros j Hj.
    - cbn [rs_seq rs_loop flow_state]. destruct (skipn j x); cbn [scan]; now rewrite Nat.add_0_r.
    - cbn [rs_seq rs_loop].
      destruct (skipn j x) as [|xj rest] eqn:Es.
      { assert (E := f_equal (@length T) Es). rewrite skipn_length in E. cbn in E. lia. }
      assert (Ej : nth_error x j = Some xj).
      { rewrite <- (Nat.add_0_r j), <- nth_error_skipn_add, Es. reflexivity. }
      assert (EF : F (Z.of_nat j) (Z.of_nat j) = if ltb O t xj then rs_break (Z.of_nat j) else rs_next (Z.of_nat (S j))).
      { unfold F. rewrite !rs_get_nat, Ht, Ej. destruct (ltb O t xj); [reflexivity|]. cbv zeta. f_equal. lia. }
      rewrite EF. cbn [scan]. destruct (ltb O t xj).
      + cbn [flow_state]. now rewrite Nat.add_0_r.
      + replace (Z.of_nat j + 1)%Z with (Z.of_nat (S j)) by lia.
        rewrite (IH (S j)) by lia.
        assert (Er : skipn (S j) x = rest).
        { replace (S j) with (j + 1) by lia. rewrite <- skipn_add, Es. reflexivity. }
        rewrite Er. f_equal. lia.
  Qed.

  Lemma tiea_scan : forall (x tgt : list T) (i : nat) (t : T), nth_error tgt i = Some t -> 1 <= length x ->
    src_scan O x tgt (Z.of_nat i) (Z.of_nat (length x)) = Some (Z.of_nat (scan O x (length x - 1) t)).
  Proof.
    intros x tgt i t Ht Hx. unfold src_scan. cbv zeta.
    destruct (length x) as [|m] eqn:El; [lia|]. rewrite rs_usub_S_1.
    change 0%Z with (Z.of_nat 0). rewrite rs_range_excl_nat, Nat.sub_0_r.
    pose proof (scan_loop x tgt i t Ht m 0 ltac:(lia)) as H. cbn [skipn Nat.add] in H.
    replace (S m - 1) with m by lia. rewrite <- H. reflexivity.
  Qed.
  (** no abscissa: [0 - 1] wraps, the first pass reads [x[0]] out of bounds *)
  Lemma tiea_scan_empty : forall (tgt : list T) (i : Z), src_scan O [] tgt i 0 = None.
  Proof.
    intros tgt i. unfold src_scan, rs_range_excl. cbv zeta. rewrite rs_usub_0_1.
    destruct (Z.to_nat (18446744073709551615 - 0)) as [|m] eqn:E; [lia|]. reflexivity.
  Qed.
End TieA.
