(** * Tie A for C11: the hand-written models of the linear-algebra kernels ARE the source.
    [Generated/linalg_loops.v] is produced on every run by tools/tiea/linalg_loops.py (statement-level translator
    [LoopTranslator] of tools/rsexpr.py) from src/linalg/decomposition/{substitution,cholesky,lu}.rs and
    src/linalg/utils.rs.  The source works IN PLACE on one flat row-major [Vec<f64>] ([x[i] = ..], [l[i * n + j] = ..],
    slices [&l[(i*n)..(i*n+i)]] handed to [dot]); the models of [Model/Subst.v], [Model/Cholesky.v], [Model/LU.v] work on
    ROWS ([unflatten] at the boundary) and grow their results by appending.  The lemmas show, for EVERY carrier, operations
    record and input, that every index and slice of the source is in bounds, that no cell exposed by
    [unsafe { x.set_len(n) }] is read before it is written (the equalities hold for every content [uninit] of those
    cells), and that the two compute the same values in the same order.  No law of the carrier is used. *)
From Coq Require Import List ZArith Arith Bool Lia.
From Compute Require Import Base.Ops Base.ListMat Base.RsExpr Base.RsExprMut Model.Shape Model.Reduce Model.MatMul Model.Subst Model.LU
  Generated.linalg_loops Proofs.RsExprLemmas Proofs.C15Lists Proofs.LinAlgBase.
Import ListNotations.

(** [is_square] as the generated text sees it: the [Result<usize, String>] of the crate's [is_square] as an option in [Z] *)
Definition is_square_z {A : Type} (l : list A) : option Z := option_map Z.of_nat (is_square (length l)).

Lemma is_square_some : forall len n, is_square len = Some n -> n * n = len.
Proof.
  intros len n H. unfold is_square in H. destruct (Nat.eqb_spec (Nat.sqrt len * Nat.sqrt len) len) as [E|E]; [|discriminate].
  injection H as <-. exact E.
Qed.

(** index arithmetic of the generated text, back in [nat] *)
Ltac znat := repeat first [rewrite <- Nat2Z.inj_mul | rewrite <- Nat2Z.inj_add | rewrite <- Nat2Z.inj_succ].

Lemma Zadd1_nat : forall k : nat, (Z.of_nat k + 1)%Z = Z.of_nat (S k).
Proof. intro k. lia. Qed.

Lemma rs_set_len_nil : forall {A} (n : nat) (u : Z -> A), rs_set_len [] (Z.of_nat n) u = map u (rs_seq 0 n).
Proof. intros A n u. unfold rs_set_len, rs_len. rewrite firstn_nil, Nat2Z.id. cbn [length app Z.of_nat]. now rewrite Nat.sub_0_r. Qed.

Lemma rs_set_mid : forall {A} (p q : list A) (z v : A), rs_set (p ++ z :: q) (Z.of_nat (length p)) v = Some (p ++ v :: q).
Proof. intros A p q z v. rewrite rs_set_nat by (rewrite app_length; cbn [length]; lia). now rewrite upd_app_exact. Qed.

Lemma rs_set_mid' : forall {A} (p q : list A) (z v : A) (k : nat), length p = k ->
  rs_set (p ++ z :: q) (Z.of_nat k) v = Some (p ++ v :: q).
Proof. intros A p q z v k <-. apply rs_set_mid. Qed.

Lemma dot_same_len : forall {T} (O : Ops T) (x y : list T), length x = length y -> dot O x y = Some (dot_raw O x y).
Proof. intros T O x y H. unfold dot. apply Nat.eqb_eq in H. now rewrite H. Qed.

Lemma firstn_row_of : forall {A} (a : list A) n i k, k <= n -> firstn k (row_of a n i) = firstn k (skipn (i * n) a).
Proof. intros A a n i k H. unfold row_of. rewrite firstn_firstn. f_equal. lia. Qed.

Lemma skipn_row_of : forall {A} (a : list A) n i k, k <= n -> skipn k (row_of a n i) = firstn (n - k) (skipn (i * n + k) a).
Proof.
  intros A a n i k H. unfold row_of. rewrite skipn_firstn_comm. f_equal. rewrite RsExprLemmas.skipn_add. reflexivity.
Qed.

(** a loop whose body either goes on or returns [false]: a [forallb] *)
Lemma rs_loop_forallb : forall {A} (f : unit -> A -> rs_flow unit bool) (g : A -> bool) (l : list A),
  (forall a, In a l -> f tt a = if g a then rs_next tt else rs_return false) ->
  rs_loop f l tt = if forallb g l then rs_next tt else rs_return false.
Proof.
  intros A f g l. induction l as [|a l IH]; intro H; [reflexivity|].
  cbn [rs_loop forallb]. rewrite H by (now left). destruct (g a); [|reflexivity]. cbn [andb].
  apply IH. intros a' Ha'. apply H. now right.
Qed.
Lemma rs_loop_forallb_seq : forall (f : unit -> Z -> rs_flow unit bool) (g : nat -> bool) (n lo : nat),
  (forall k, lo <= k < lo + n -> f tt (Z.of_nat k) = if g k then rs_next tt else rs_return false) ->
  rs_loop f (rs_seq (Z.of_nat lo) n) tt = if forallb g (seq lo n) then rs_next tt else rs_return false.
Proof.
  intros f g n. induction n as [|n IH]; intros lo H; [reflexivity|].
  cbn [rs_seq rs_loop seq forallb]. rewrite H by lia. destruct (g lo); [|reflexivity]. cbn [andb].
  rewrite Zadd1_nat. apply IH. intros k Hk. apply H. lia.
Qed.

(** [is_matrix] followed by [.unwrap()] *)
Lemma tiea_is_matrix : forall {T} (O : Ops T) (m : list T) (nr : nat),
  (let* r := src_is_matrix O m (Z.of_nat nr) in r) = option_map Z.of_nat (is_matrix (length m) nr).
Proof.
  intros T O m nr. unfold src_is_matrix, is_matrix, rs_idiv, rs_len. destruct nr as [|nr']; [reflexivity|].
  set (nr := S nr'). assert (Hnr : nr <> 0) by (unfold nr; lia).
  destruct (Z.eqb_spec (Z.of_nat nr) 0) as [E|_]; [lia|]. cbn [bind]. cbv zeta.
  rewrite Z.quot_div_nonneg by lia. rewrite <- Nat2Z.inj_div. znat. rewrite Zeqb_of_nat.
  destruct (nr * (length m / nr) =? length m); reflexivity.
Qed.

(** ** ipiv_parity (no arithmetic on the carrier): the pivot vector is [list nat] in the model, [&[i32]] = [list Z] in the source *)
Lemma map_upd : forall {A B} (f : A -> B) (l : list A) (i : nat) (v : A), map f (upd l i v) = upd (map f l) i (f v).
Proof. intros A B f l. induction l as [|a l IH]; intros [|i] v; cbn; try reflexivity. now rewrite IH. Qed.

Lemma rs_get_map_nat : forall (perm : list nat) (i : nat),
  rs_get (map Z.of_nat perm) (Z.of_nat i) = if i <? length perm then Some (Z.of_nat (nth i perm 0)) else None.
Proof.
  intros perm i. destruct (Nat.ltb_spec i (length perm)) as [H|H].
  - rewrite (rs_get_some _ i (Z.of_nat 0)) by (now rewrite map_length). now rewrite map_nth.
  - apply rs_get_none. now rewrite map_length.
Qed.

Definition pz (s : list nat * nat) : list Z * Z := (map Z.of_nat (fst s), Z.of_nat (snd s)).

Lemma fix_position_src : forall (fuel : nat) (perm : list nat) (i par : nat), i < length perm ->
  rs_while fuel (fun '(perm, par) =>
      let* g1 := rs_get perm (Z.of_nat i) in
      if negb (Z.eqb g1 (Z.of_nat i)) then
        let* g2 := rs_get perm (Z.of_nat i) in let j := g2 in
        let* g3 := rs_get perm j in let* g4 := rs_get perm (Z.of_nat i) in
        if negb (Z.eqb g3 g4) then
          let* l5 := rs_swap perm (Z.of_nat i) j in let perm := l5 in let par := Z.add par 1%Z in Some (inl (perm, par))
        else None
      else Some (inr (perm, par))) (pz (perm, par))
  = option_map pz (fix_position fuel perm i par).
Proof.
  intros fuel perm i par Hi. match goal with |- rs_while _ ?f _ = _ => set (step := f) end.
  revert perm par Hi. induction fuel as [|fuel IH]; intros perm par Hi; [reflexivity|].
  cbn [rs_while fix_position]. unfold step at 1. cbn [pz fst snd]. rewrite rs_get_map_nat. apply Nat.ltb_lt in Hi. rewrite Hi. apply Nat.ltb_lt in Hi.
  cbn [bind]. rewrite Zeqb_of_nat. set (j := nth i perm 0).
  destruct (Nat.eqb_spec j i) as [E|E]; cbn [negb]; [reflexivity|].
  cbv zeta. rewrite rs_get_map_nat. destruct (Nat.ltb_spec j (length perm)) as [Hj|Hj].
  2:{ apply Nat.leb_le in Hj. now rewrite Hj. }
  cbn [bind]. replace (length perm <=? j) with false by (symmetry; apply Nat.leb_gt; lia).
  rewrite Zeqb_of_nat. destruct (Nat.eqb_spec (nth j perm 0) j) as [E2|E2]; cbn [negb]; [reflexivity|].
  unfold rs_swap. rewrite !rs_get_map_nat. apply Nat.ltb_lt in Hi, Hj. rewrite Hi, Hj. apply Nat.ltb_lt in Hi, Hj.
  cbn [bind]. rewrite !Nat2Z.id, <- !map_upd. rewrite Zadd1_nat.
  change (upd (upd perm i (nth j perm 0)) j (nth i perm 0)) with (swap 0 perm i j).
  apply (IH (swap 0 perm i j) (S par)). now rewrite swap_length.
Qed.

Lemma fix_position_length : forall fuel perm i par p k, fix_position fuel perm i par = Some (p, k) -> length p = length perm.
Proof.
  induction fuel as [|fuel IH]; intros perm i par p k H; [discriminate|]. cbn [fix_position] in H.
  destruct (nth i perm 0 =? i); [now injection H as <- _|].
  destruct (length perm <=? nth i perm 0); [discriminate|].
  destruct (nth (nth i perm 0) perm 0 =? nth i perm 0); [discriminate|].
  apply IH in H. now rewrite swap_length in H.
Qed.

Lemma pow_m1_nat : forall p : nat, Z.pow (Z.opp 1) (Z.of_nat p) = if Nat.even p then 1%Z else (-1)%Z.
Proof.
  induction p as [|p IH]; [reflexivity|]. rewrite Nat2Z.inj_succ, Z.pow_succ_r by lia. rewrite IH, Nat.even_succ, <- Nat.negb_even.
  destruct (Nat.even p); reflexivity.
Qed.

(** with the model's fuel (one more than the number of entries; enough by [C11_ipiv_parity_total]) *)
Theorem tiea_ipiv_parity : forall {T} (O : Ops T) (ipiv : list nat),
  src_ipiv_parity O (S (length ipiv)) (map Z.of_nat ipiv) = ipiv_parity ipiv.
Proof.
  intros T O ipiv. unfold src_ipiv_parity, ipiv_parity, parity_loop. cbv zeta. unfold rs_len. rewrite map_length.
  change 0%Z with (Z.of_nat 0). rewrite rs_range_excl_nat, Nat.sub_0_r, rs_seq_map. cbn [Z.of_nat].
  set (fuel := S (length ipiv)). set (n := length ipiv).
  assert (G : forall l perm par, (forall i, In i l -> i < n) -> length perm = n ->
    rs_fold_opt (fun '(perm, par) i => let* (perm, par) := rs_while fuel (fun '(perm, par) =>
        let* g1 := rs_get perm i in
        if negb (Z.eqb g1 i) then
          let* g2 := rs_get perm i in let j := g2 in
          let* g3 := rs_get perm j in let* g4 := rs_get perm i in
          if negb (Z.eqb g3 g4) then
            let* l5 := rs_swap perm i j in let perm := l5 in let par := Z.add par 1%Z in Some (inl (perm, par))
          else None
        else Some (inr (perm, par))) (perm, par) in Some (perm, par))
      (map (fun k => (0 + Z.of_nat k)%Z) l) (pz (perm, par))
    = option_map pz (fold_left (fun st i => let* (perm, par) := st in fix_position fuel perm i par) l (Some (perm, par)))).
  { match goal with |- forall l perm par, _ -> _ -> rs_fold_opt ?f _ _ = _ => set (F := f) end.
    assert (HF : forall perm par i, i < length perm ->
              F (pz (perm, par)) (Z.of_nat i) = option_map pz (fix_position fuel perm i par)).
    { intros perm par i Hi. unfold F. cbn [pz fst snd]. change (map Z.of_nat perm, Z.of_nat par) with (pz (perm, par)).
      pose proof (fix_position_src fuel perm i par Hi) as H. cbv zeta in H. rewrite H. destruct (fix_position fuel perm i par) as [[p k]|]; reflexivity. }
    induction l as [|i l IH]; intros perm par Hl Hp; [reflexivity|].
    cbn [map rs_fold_opt fold_left]. rewrite Z.add_0_l. rewrite HF by (rewrite Hp; apply Hl; now left).
    cbn [bind]. destruct (fix_position fuel perm i par) as [[p k]|] eqn:Ef; cbn [option_map].
    - apply (IH p k); [intros i' Hi'; apply Hl; now right|]. apply fix_position_length in Ef. lia.
    - clear. induction l as [|i' l IHl]; [reflexivity|]. cbn [fold_left bind]. exact IHl. }
  specialize (G (seq 0 n) ipiv 0 ltac:(intros i Hi; apply in_seq in Hi; lia) eq_refl).
  change (pz (ipiv, 0)) with (map Z.of_nat ipiv, 0%Z) in G. cbv zeta in G. rewrite G.
  destruct (fold_left _ (seq 0 n) (Some (ipiv, 0))) as [[p k]|]; [|reflexivity].
  cbn [option_map pz fst snd bind]. now rewrite pow_m1_nat.
Qed.

Section TieA.
  Context {T : Type} (O : Ops T).
  Local Notation z := (zero O).

  (** ** forward_substitution: the source overwrites cell [i] of the (uninitialised) vector; the model appends *)
  Lemma forward_loop_src : forall (l b : list T) (n h : nat) (p q : list T),
    n * n = length l -> length b = n -> length q = h -> length p + h = n ->
    rs_fold_opt (fun x i => let* g2 := rs_get b i in
                            let* sl3 := rs_slice l (Z.mul i (Z.of_nat n)) (Z.add (Z.mul i (Z.of_nat n)) i) in
                            let* sl4 := rs_slice_to x i in
                            let* r5 := dot O sl3 sl4 in
                            let* g6 := rs_get l (Z.add (Z.mul i (Z.of_nat n)) i) in
                            let* l7 := rs_set x i (div O (sub O g2 r5) g6) in let x := l7 in Some x)
                (rs_seq (Z.of_nat (length p)) h) (p ++ q)
    = Some (fold_left (fun x i => let r := nth i (unflatten l n n) [] in
                                  x ++ [div O (sub O (nth i b z) (dot_raw O (firstn i r) x)) (nth i r z)])
                      (seq (length p) h) p).
  Proof.
    intros l b n h. induction h as [|h IH]; intros p q Hl Hb Hq Hn.
    - destruct q; [|discriminate]. cbn. now rewrite app_nil_r.
    - destruct q as [|q0 q]; [discriminate|]. cbn [rs_seq rs_fold_opt seq fold_left].
      assert (Hi : length p < n) by lia.
      rewrite (rs_get_some b (length p) z) by lia. cbn [bind]. znat.
      rewrite rs_slice_nat by nia. replace (length p * n + length p - length p * n) with (length p) by lia. cbn [bind].
      rewrite rs_slice_to_nat by (rewrite app_length; lia). rewrite firstn_app_exact. cbn [bind].
      rewrite dot_same_len by (rewrite firstn_length, skipn_length; nia). cbn [bind].
      rewrite (rs_get_some l (length p * n + length p) z) by nia. cbn [bind].
      rewrite rs_set_mid. cbn [bind]. cbv zeta.
      rewrite nth_unflatten by exact Hi. rewrite firstn_row_of by lia. rewrite nth_row_of by exact Hi.
      set (v := div O _ _).
      specialize (IH (p ++ [v]) q Hl Hb). rewrite app_length in IH. cbn [length] in IH.
      replace (length p + 1) with (S (length p)) in IH by lia. rewrite Nat2Z.inj_succ in IH. unfold Z.succ in IH.
      rewrite <- app_assoc in IH. cbn [app] in IH. apply IH; [now injection Hq | lia].
  Qed.

  Theorem tiea_forward_substitution : forall (uninit : Z -> T) (l b : list T),
    src_forward_substitution O is_square_z (dot O) uninit l b = forward_substitution O l b.
  Proof.
    intros uninit l b. unfold src_forward_substitution, forward_substitution, is_square_z.
    destruct (is_square (length l)) as [n|] eqn:Es; [|reflexivity]. cbn [option_map bind].
    apply is_square_some in Es. unfold rs_len. rewrite Zeqb_of_nat.
    destruct (Nat.eqb_spec (length b) n) as [Eb|Eb]; [|reflexivity]. cbn [guard bind]. cbv zeta.
    rewrite rs_set_len_nil. change 0%Z with (Z.of_nat 0). rewrite rs_range_excl_nat, Nat.sub_0_r.
    pose proof (forward_loop_src l b n n [] (map uninit (rs_seq (Z.of_nat 0) n)) Es Eb) as H.
    cbn [length app] in H. rewrite H; [reflexivity | now rewrite map_length, rs_seq_length | lia].
  Qed.
  (** ** backward_substitution: cells [n-1], [n-2], .. are overwritten; the model conses *)
  Lemma backward_loop_src : forall (u b : list T) (n m : nat) (q p : list T),
    n * n = length u -> length b = n -> length q = m -> m + length p = n ->
    rs_fold_opt (fun x i => let* g2 := rs_get b i in
                            let* sl3 := rs_slice u (Z.add (Z.add (Z.mul i (Z.of_nat n)) i) 1%Z) (Z.add (Z.mul i (Z.of_nat n)) (Z.of_nat n)) in
                            let* sl4 := rs_slice_from x (Z.add i 1%Z) in
                            let* r5 := dot O sl3 sl4 in
                            let* g6 := rs_get u (Z.add (Z.mul i (Z.of_nat n)) i) in
                            let* l7 := rs_set x i (div O (sub O g2 r5) g6) in let x := l7 in Some x)
                (rev (rs_seq 0%Z m)) (q ++ p)
    = Some (fold_left (fun x i => let r := nth i (unflatten u n n) [] in
                                  div O (sub O (nth i b z) (dot_raw O (skipn (S i) r) x)) (nth i r z) :: x)
                      (rev (seq 0 m)) p).
  Proof.
    intros u b n m. induction m as [|m IH]; intros q p Hu Hb Hq Hn.
    - destruct q; [|discriminate]. reflexivity.
    - destruct (@exists_last _ q) as (q' & q0 & ->); [intro E; subst q; discriminate|].
      rewrite app_length in Hq. cbn [length] in Hq. assert (Hq' : length q' = m) by lia.
      replace (S m) with (m + 1) by lia. rewrite rs_seq_app, seq_app, !rev_app_distr. cbn [rs_seq seq rev app].
      rewrite Z.add_0_l, Nat.add_0_l. cbn [rs_fold_opt fold_left].
      assert (Hm : m < n) by lia.
      rewrite (rs_get_some b m z) by lia. cbn [bind]. znat. rewrite !Zadd1_nat.
      rewrite rs_slice_nat by nia. cbn [bind]. rewrite <- app_assoc. cbn [app].
      rewrite rs_slice_from_nat by (rewrite app_length; cbn [length]; lia).
      replace (skipn (S m) (q' ++ q0 :: p)) with p
        by (rewrite skipn_app, Hq', skipn_all2 by lia; replace (S m - m) with 1 by lia; reflexivity).
      cbn [bind].
      rewrite dot_same_len by (rewrite firstn_length, skipn_length; nia). cbn [bind].
      rewrite (rs_get_some u (m * n + m) z) by nia. cbn [bind].
      rewrite (rs_set_mid' q' p q0 _ m Hq'). cbn [bind]. cbv zeta.
      rewrite nth_unflatten by exact Hm. rewrite skipn_row_of by lia. rewrite nth_row_of by exact Hm.
      replace (m * n + n - S (m * n + m)) with (n - S m) by lia.
      replace (S (m * n + m)) with (m * n + S m) by lia.
      set (v := div O _ _).
      specialize (IH q' (v :: p) Hu Hb Hq'). apply IH. cbn [length]. lia.
  Qed.

  Theorem tiea_backward_substitution : forall (uninit : Z -> T) (u b : list T),
    src_backward_substitution O is_square_z (dot O) uninit u b = backward_substitution O u b.
  Proof.
    intros uninit u b. unfold src_backward_substitution, backward_substitution, is_square_z.
    destruct (is_square (length u)) as [n|] eqn:Es; [|reflexivity]. cbn [option_map bind].
    apply is_square_some in Es. unfold rs_len. rewrite Zeqb_of_nat.
    destruct (Nat.eqb_spec (length b) n) as [Eb|Eb]; [|reflexivity]. cbn [guard bind]. cbv zeta.
    rewrite rs_set_len_nil. change 0%Z with (Z.of_nat 0). rewrite rs_range_excl_nat, Nat.sub_0_r.
    pose proof (backward_loop_src u b n n (map uninit (rs_seq (Z.of_nat 0) n)) [] Es Eb) as H.
    rewrite app_nil_r in H. cbn [Z.of_nat] in *. rewrite H; [reflexivity | now rewrite map_length, rs_seq_length | cbn [length]; lia].
  Qed.
  (** ** utils.rs: transpose, diag, is_symmetric, is_positive_definite *)
  Lemma transpose_inner_src : forall (a : list T) (nc j nr : nat) (acc : list T),
    nr * nc <= length a -> j < nc ->
    rs_fold_opt (fun at_ i => let* g3 := rs_get a (Z.add (Z.mul i (Z.of_nat nc)) (Z.of_nat j)) in let at_ := at_ ++ [g3] in Some at_)
                (rs_seq 0%Z nr) acc
    = Some (acc ++ map (fun i => nth (i * nc + j) a z) (seq 0 nr)).
  Proof.
    intros a nc j nr acc Ha Hj.
    rewrite (rs_fold_opt_seq _ (fun at_ i => at_ ++ [nth (i * nc + j) a z])).
    - f_equal. generalize (seq 0 nr) as l. intro l. revert acc. induction l as [|i l IH]; intro acc; cbn [fold_left map].
      + now rewrite app_nil_r.
      + rewrite IH, <- app_assoc. reflexivity.
    - intros s k Hk. rewrite Z.add_0_l. znat. rewrite (rs_get_some a (k * nc + j) z) by nia. reflexivity.
  Qed.

  Theorem tiea_transpose_flat : forall (a : list T) (nr : nat),
    src_transpose O a (Z.of_nat nr) = Model.Shape.transpose_flat O a nr.
  Proof.
    intros a nr. unfold src_transpose, Model.Shape.transpose_flat.
    pose proof (tiea_is_matrix O a nr) as Hm. destruct (src_is_matrix O a (Z.of_nat nr)) as [r|]; cbn [bind] in Hm |- *.
    2:{ destruct (is_matrix (length a) nr); [discriminate|reflexivity]. }
    rewrite Hm. destruct (is_matrix (length a) nr) as [nc|] eqn:Em; [|reflexivity]. cbn [option_map bind]. cbv zeta.
    assert (Ha : nr * nc = length a).
    { unfold is_matrix in Em. destruct nr as [|nr']; [discriminate|].
      destruct (Nat.eqb_spec (S nr' * (length a / S nr')) (length a)) as [E|E]; [|discriminate]. now injection Em as <-. }
    change 0%Z with (Z.of_nat 0). rewrite !rs_range_excl_nat, !Nat.sub_0_r. cbn [Z.of_nat].
    rewrite (rs_fold_opt_seq _ (fun at_ j => at_ ++ map (fun i => nth (i * nc + j) a z) (seq 0 nr))).
    - cbn [bind]. f_equal. generalize (seq 0 nc) as l. intro l.
      assert (G : forall acc, fold_left (fun at_ j => at_ ++ map (fun i => nth (i * nc + j) a z) (seq 0 nr)) l acc
                              = acc ++ flat_map (fun j => map (fun i => nth (i * nc + j) a z) (seq 0 nr)) l).
      { induction l as [|j l IH]; intro acc; cbn [fold_left flat_map]; [now rewrite app_nil_r|]. now rewrite IH, app_assoc. }
      apply (G []).
    - intros s j Hj. rewrite Z.add_0_l. rewrite transpose_inner_src by (try lia). reflexivity.
  Qed.

  Lemma transpose_flat_rows : forall (a : list T) (nr : nat), Model.Shape.transpose_flat O a nr = transpose O a nr.
  Proof.
    intros a nr. unfold Model.Shape.transpose_flat, transpose. destruct (is_matrix (length a) nr) as [nc|]; [|reflexivity].
    cbn [bind]. f_equal. unfold flatten, transpose_rows. rewrite flat_map_concat_map. f_equal.
    apply map_ext_in. intros j Hj. apply in_seq in Hj. unfold col_of, unflatten. rewrite map_map.
    apply map_ext. intro i. symmetry. apply nth_row_of. lia.
  Qed.

  Theorem tiea_transpose : forall (a : list T) (nr : nat), src_transpose O a (Z.of_nat nr) = transpose O a nr.
  Proof. intros a nr. rewrite tiea_transpose_flat. apply transpose_flat_rows. Qed.

  Theorem tiea_diag : forall (a : list T), src_diag O is_square_z a = Model.Shape.diag_u O a.
  Proof.
    intro a. unfold src_diag, Model.Shape.diag_u, is_square_z, Model.Shape.is_square_u, is_square.
    destruct (Nat.eqb_spec (Nat.sqrt (length a) * Nat.sqrt (length a)) (length a)) as [E|E]; [|reflexivity].
    set (n := Nat.sqrt (length a)) in *. cbn [option_map bind]. cbv zeta.
    change 0%Z with (Z.of_nat 0). rewrite rs_range_excl_nat, Nat.sub_0_r. cbn [Z.of_nat].
    rewrite (rs_fold_opt_seq _ (fun r i => r ++ [nth (i * n + i) a z])).
    - cbn [bind]. f_equal. generalize (seq 0 n) as l. intro l.
      assert (G : forall acc, fold_left (fun r i => r ++ [nth (i * n + i) a z]) l acc = acc ++ map (fun i => nth (i * n + i) a z) l).
      { induction l as [|i l IH]; intro acc; cbn [fold_left map]; [now rewrite app_nil_r|]. now rewrite IH, <- app_assoc. }
      apply (G []).
    - intros s k Hk. rewrite Z.add_0_l. znat. rewrite (rs_get_some a (k * n + k) z) by nia. reflexivity.
  Qed.

  Theorem tiea_is_symmetric : forall (m : list T), src_is_symmetric O is_square_z m = is_symmetric O m.
  Proof.
    intro m. unfold src_is_symmetric, is_symmetric, is_square_z.
    destruct (is_square (length m)) as [n|] eqn:Es; [|reflexivity]. cbn [option_map bind]. cbv zeta.
    apply is_square_some in Es. unfold is_symmetric_rows.
    change 0%Z with (Z.of_nat 0). rewrite rs_range_excl_nat, Nat.sub_0_r.
    rewrite (rs_loop_forallb_seq _ (fun i => forallb (fun j => sym_entry_ok O (ent z (unflatten m n n) i j) (ent z (unflatten m n n) j i)) (seq i (n - i)))).
    - destruct (forallb _ (seq 0 n)); reflexivity.
    - intros i Hi. rewrite rs_range_excl_nat.
      rewrite (rs_loop_forallb_seq _ (fun j => sym_entry_ok O (ent z (unflatten m n n) i j) (ent z (unflatten m n n) j i))).
      + destruct (forallb _ (seq i (n - i))); reflexivity.
      + intros j Hj. znat. rewrite (rs_get_some m (i * n + j) z) by nia. rewrite (rs_get_some m (j * n + i) z) by nia.
        rewrite !ent_unflatten by lia. unfold sym_entry_ok, eps, rs_f64_epsilon.
        destruct (ltb O _ _); reflexivity.
  Qed.

  Theorem tiea_is_positive_definite : forall (m : list T), src_is_positive_definite O is_square_z m = is_positive_definite O m.
  Proof.
    intro m. unfold src_is_positive_definite. rewrite tiea_is_symmetric. unfold is_symmetric, is_positive_definite, is_square_z.
    destruct (is_square (length m)) as [n|] eqn:Es; [|reflexivity]. cbn [option_map bind]. cbv zeta.
    apply is_square_some in Es.
    destruct (is_symmetric_rows O (unflatten m n n) n); cbn [negb andb]; [|reflexivity].
    unfold diag_positive_rows. change 0%Z with (Z.of_nat 0). rewrite rs_range_excl_nat, Nat.sub_0_r.
    rewrite (rs_loop_forallb_seq _ (fun i => negb (leb O (ent z (unflatten m n n) i i) z))).
    - destruct (forallb _ (seq 0 n)); reflexivity.
    - intros i Hi. znat. rewrite (rs_get_some m (i * n + i) z) by nia. rewrite ent_unflatten by lia.
      destruct (leb O _ _); reflexivity.
  Qed.
End TieA.
