(** Proofs for C04, part 7 (extension): rounding error of the unrolled [dot], of [norm] and of [prod] on binary64.

    [dot]: the model's operation tree IS the unrolled [sum] applied to the rounded products
    ([dot8 s x y = sum8 s (map2 mul x y)], any carrier).  In the standard model a sum of [n] terms, each of which
    already carries one relative rounding error, obeys
        | sum c' - Sigma c_i |  <=  ((1+u)^(n+1) - 1) * Sigma |c_i| ,
    hence for every pair of slices of doubles of equal length whose computed dot product is finite (no overflow
    anywhere) and none of whose products underflows (each exact product is 0 or at least 2^-1022 in magnitude)
        | dot x y - Sigma x_i y_i |  <=  ((1 + 2^-53)^(n+1) - 1) * Sigma |x_i y_i| .
    [norm] = sqrt (dot x x): relative error (1+2^-53)^(n+2) - 1.
    [prod]: relative error (1+2^-53)^n - 1 when no partial product underflows. *)
From Coq Require Import List Arith Bool ZArith Reals Lra Lia Floats.
From Flocq Require Import Core Relative Plus_error BinarySingleNaN PrimFloat.
From Compute Require Import Base.Ops Base.ListMat Model.Reduce Spec.Vops Proofs.C04Red Proofs.C04Err Proofs.C04ErrF.
Import ListNotations.
Local Open Scope R_scope.
Local Existing Instance Flocq.IEEE754.PrimFloat.Hprec.
Local Existing Instance Flocq.IEEE754.PrimFloat.Hmax.

(** ** the operation tree of [dot] is that of [sum] on the products (every carrier, every pair of lengths) *)
Section DotSum.
  Context {T : Type} (O : Ops T).
  Lemma dot8_sum8 fuel : forall (s : T) (x y : list T),
    dot8 O fuel s x y = sum8 O fuel s (map2 (mul O) x y).
  Proof.
    induction fuel as [|fuel IH]; intros s x y; [reflexivity|].
    destruct x as [|x0 [|x1 [|x2 [|x3 [|x4 [|x5 [|x6 [|x7 x']]]]]]]];
      destruct y as [|y0 [|y1 [|y2 [|y3 [|y4 [|y5 [|y6 [|y7 y']]]]]]]]; try reflexivity.
    cbn [dot8 sum8 map2]. apply IH.
  Qed.
  Lemma map2_length {A B C} (f : A -> B -> C) (x : list A) : forall y, length x = length y -> length (map2 f x y) = length x.
  Proof. induction x as [|a x IH]; intros [|b y] H; cbn in *; try lia. rewrite IH; lia. Qed.
  Lemma dot_raw_sum (x y : list T) : length x = length y -> dot_raw O x y = Reduce.sum O (map2 (mul O) x y).
  Proof. intros H. unfold dot_raw, Reduce.sum. rewrite dot8_sum8, map2_length by exact H. reflexivity. Qed.
End DotSum.

(** ** standard model: a sum of terms that already carry one rounding error *)
Section Perturbed.
  Variable u : R.
  Hypothesis Hu : 0 <= u.
  Variable F : R -> Prop.
  Variable rnd : R -> R.
  Hypothesis F0 : F 0.
  Hypothesis Hrnd : forall a b, F a -> F b ->
    F (rnd (a + b)) /\ Rabs (rnd (a + b) - (a + b)) <= u * Rabs (a + b).

  Lemma perturbed_terms (c c' : list R) :
    Forall2 (fun a a' => Rabs (a' - a) <= u * Rabs a) c c' ->
    length c' = length c /\ Rabs (Rsum c' - Rsum c) <= u * Asum c /\ Asum c' <= (1 + u) * Asum c.
  Proof.
    induction 1 as [|a a' c c' Ha _ IH].
    - unfold Asum. cbn. rewrite Rminus_0_r, Rabs_R0. repeat split; lra.
    - destruct IH as (Hl & Hs & Ha'). rewrite !Rsum_cons, !Asum_cons. cbn [length]. split; [lia|]. split.
      + replace (a' + Rsum c' - (a + Rsum c)) with ((a' - a) + (Rsum c' - Rsum c)) by ring.
        eapply Rle_trans; [apply Rabs_triang|]. lra.
      + assert (Rabs a' <= Rabs a + Rabs (a' - a)).
        { replace a' with (a + (a' - a)) at 1 by ring. apply Rabs_triang. }
        lra.
  Qed.

  Theorem sum_error_perturbed (c c' : list R) :
    Forall F c' -> Forall2 (fun a a' => Rabs (a' - a) <= u * Rabs a) c c' ->
    Rabs (Reduce.sum (RndO rnd) c' - Rsum c) <= ((1 + u) ^ S (length c) - 1) * Rsum (map Rabs c).
  Proof.
    intros Fc Hp. destruct (perturbed_terms c c' Hp) as (Hl & Hs & Ha).
    pose proof (sum_error u Hu F rnd F0 Hrnd c' Fc) as He. rewrite Hl in He.
    fold (Asum c') in He. fold (Asum c).
    set (e := (1 + u) ^ length c - 1) in *.
    assert (He0 : 0 <= e) by (apply (E_nonneg u Hu)).
    replace ((1 + u) ^ S (length c) - 1) with ((1 + u) * e + u) by (unfold e; simpl; ring).
    replace (Reduce.sum (RndO rnd) c' - Rsum c) with ((Reduce.sum (RndO rnd) c' - Rsum c') + (Rsum c' - Rsum c)) by ring.
    eapply Rle_trans; [apply Rabs_triang|].
    assert (e * Asum c' <= e * ((1 + u) * Asum c)) by (apply Rmult_le_compat_l; assumption).
    lra.
  Qed.
End Perturbed.

(** ** binary64 *)

(** every element of a finite unrolled sum is finite *)
Section AllP.
  Context {A : Type} (O1 : Ops A) (P : A -> Prop).
  Hypothesis Hadd : forall a b, P (add O1 a b) -> P a /\ P b.
  Lemma fold_all (l : list A) : forall s, P (fold_left (add O1) l s) -> P s /\ Forall P l.
  Proof.
    induction l as [|a l IH]; intros s H; cbn [fold_left] in *; [auto|].
    destruct (IH _ H) as [Hp Hl]. destruct (Hadd _ _ Hp) as [Hs Ha]. auto.
  Qed.
  Lemma sum8_all fuel : forall (x : list A) (s : A), (length x < 8 * fuel)%nat ->
    P (sum8 O1 fuel s x) -> P s /\ Forall P x.
  Proof.
    induction fuel as [|fuel IH]; intros x s Hl H; [lia|].
    destruct x as [|x0 [|x1 [|x2 [|x3 [|x4 [|x5 [|x6 [|x7 x']]]]]]]];
      try (cbn [sum8] in H; apply (fold_all _ s H)).
    cbn [sum8] in H. assert (Hl' : (length x' < 8 * fuel)%nat) by (cbn [length] in Hl; lia).
    destruct (IH x' _ Hl' H) as [Hp Hx'].
    destruct (Hadd _ _ Hp) as [Hs Hc].
    change (add O1 (add O1 (add O1 (add O1 (add O1 (add O1 (add O1 x0 x1) x2) x3) x4) x5) x6) x7)
      with (fold_left (add O1) [x1; x2; x3; x4; x5; x6; x7] x0) in Hc.
    destruct (fold_all _ _ Hc) as [H0 Hr]. split; [exact Hs|]. constructor; [exact H0|].
    repeat (inversion Hr as [|? ? ?Hh Hr']; subst; clear Hr; rename Hr' into Hr; constructor; [assumption|]).
    exact Hx'.
  Qed.
  Lemma sum_all (x : list A) : P (Reduce.sum O1 x) -> Forall P x.
  Proof.
    intros H. unfold Reduce.sum in H.
    assert (Hl : (length x < 8 * S (length x))%nat) by lia.
    destruct (sum8_all _ _ _ Hl H) as [_ Hx]. exact Hx.
  Qed.
End AllP.

(** a finite product of two doubles has finite operands and is the rounded exact product *)
Lemma fmul_finite (x y : pfloat) :
  finite (x * y)%float -> finite x /\ finite y /\ B2Rf (x * y)%float = rnd64 (B2Rf x * B2Rf y).
Proof.
  unfold finite, B2Rf. rewrite mul_equiv. intros H.
  pose proof (Bmult_correct prec emax _ _ mode_NE (Prim2B x) (Prim2B y)) as HB.
  destruct (Rlt_bool _ _) in HB.
  - destruct HB as (HR & HF & _). rewrite H in HF. symmetry in HF. apply andb_prop in HF.
    destruct HF as [Fx Fy]. split; [exact Fx|]. split; [exact Fy|]. exact HR.
  - exfalso. destruct (Bmult mode_NE (Prim2B x) (Prim2B y)); try discriminate H;
      cbn [B2SF] in HB; unfold binary_overflow in HB; cbn [overflow_to_inf] in HB; discriminate HB.
Qed.

Definition tiny : R := bpow radix2 (-1022).
(** "this exact product does not underflow": it is zero or at least the smallest normal number 2^-1022 *)
Definition no_underflow (r : R) : Prop := r = 0 \/ tiny <= Rabs r.

Lemma tiny_val : tiny = / 2 ^ 1022.
Proof.
  unfold tiny. change (bpow radix2 (-1022)) with (/ IZR (Z.pow_pos 2 1022)).
  f_equal. rewrite (pow_IZR 2 1022). f_equal.
Qed.

Lemma rnd64_rel (r : R) : no_underflow r -> Rabs (rnd64 r - r) <= u64 * Rabs r.
Proof.
  intros [->|Hr].
  - unfold rnd64. rewrite round_0 by apply valid_rnd_N. rewrite Rminus_0_r, Rabs_R0. lra.
  - unfold rnd64, u64, u_ro. apply relative_error_N_FLT; [reflexivity|exact Hr].
Qed.

Lemma Forall2_map2_l {A B C} (P : C -> B -> Prop) (f : A -> A -> C) (g : A -> A -> B) :
  forall x y : list A, length x = length y ->
    Forall2 (fun a b => P (f a b) (g a b)) x y -> Forall2 P (map2 f x y) (map2 g x y).
Proof.
  induction x as [|a x IH]; intros [|b y] Hl H; cbn in *; try discriminate; [constructor|].
  inversion H; subst. constructor; [assumption|apply IH; [lia|assumption]].
Qed.

Lemma map_map2 {A B C} (h : C -> B) (f : A -> A -> C) : forall x y : list A,
  map h (map2 f x y) = map2 (fun a b => h (f a b)) x y.
Proof. induction x as [|a x IH]; intros [|b y]; cbn; try reflexivity. rewrite IH. reflexivity. Qed.

Lemma map2_map {A B C} (h : A -> B) (f : B -> B -> C) : forall x y : list A,
  map2 f (map h x) (map h y) = map2 (fun a b => f (h a) (h b)) x y.
Proof. induction x as [|a x IH]; intros [|b y]; cbn; try reflexivity. rewrite IH. reflexivity. Qed.

Theorem dot_F_error (tbl : libm_table) (x y : list pfloat) :
  length x = length y ->
  finite (dot_raw (FO tbl) x y) ->
  Forall2 (fun a b => no_underflow (B2Rf a * B2Rf b)) x y ->
  Rabs (B2Rf (dot_raw (FO tbl) x y) - Rdot (map B2Rf x) (map B2Rf y))
  <= ((1 + / 2 ^ 53) ^ S (length x) - 1) * Rsum (map Rabs (map2 Rmult (map B2Rf x) (map B2Rf y))).
Proof.
  intros Hl Hfin Hnu. rewrite dot_raw_sum in * by exact Hl.
  set (p' := map2 (mul (FO tbl)) x y) in *.
  set (c := map2 Rmult (map B2Rf x) (map B2Rf y)).
  assert (Hall : Forall finite p').
  { apply (sum_all (FO tbl) finite); [|exact Hfin]. intros a b Hab. cbn [add FO] in Hab.
    destruct (fadd_finite a b Hab) as (Ha & Hb & _). auto. }
  rewrite sum_F_sim by exact Hfin. unfold Rdot. fold c.
  assert (Hlc : length c = length x) by (unfold c; rewrite map2_length; rewrite !map_length; auto).
  rewrite <- Hlc, <- u64_val.
  apply (sum_error_perturbed u64 u64_nonneg F64 rnd64 F64_0 rnd64_model).
  - apply Forall_forall. intros r Hr. apply in_map_iff in Hr. destruct Hr as (f & <- & _). apply F64_B2Rf.
  - unfold c, p'. rewrite map2_map, map_map2.
    apply (Forall2_map2_l (fun a a' => Rabs (a' - a) <= u64 * Rabs a)
             (fun a b => B2Rf a * B2Rf b) (fun a b => B2Rf (mul (FO tbl) a b))); [exact Hl|].
    (* each product: finite, hence the rounded exact product; no underflow, hence relative error u *)
    assert (Hfp : Forall2 (fun a b => finite (mul (FO tbl) a b)) x y).
    { clear - Hall Hl. subst p'. revert y Hl Hall. induction x as [|a x IH]; intros [|b y] Hl Hall; cbn in *; try discriminate; constructor.
      - inversion Hall; assumption.
      - apply IH; [lia|inversion Hall; assumption]. }
    clear - Hfp Hnu. induction Hnu as [|a b x y Hab Hnu IH]; [constructor|].
    inversion Hfp; subst. constructor; [|apply IH; assumption].
    cbn [mul FO] in *. destruct (fmul_finite a b H2) as (_ & _ & ->). apply rnd64_rel. exact Hab.
Qed.

(** the no-underflow condition written out: zero, or at least 2^-1022 in magnitude *)
Lemma no_underflow_explicit (r : R) : (r = 0 \/ / 2 ^ 1022 <= Rabs r) <-> no_underflow r.
Proof. unfold no_underflow. rewrite tiny_val. tauto. Qed.

Lemma Forall2_impl {A B} (P Q : A -> B -> Prop) (x : list A) (y : list B) :
  (forall a b, P a b -> Q a b) -> Forall2 P x y -> Forall2 Q x y.
Proof. intros H. induction 1; constructor; auto. Qed.

Theorem dot_F_error_explicit (tbl : libm_table) (x y : list pfloat) (d : pfloat) :
  Reduce.dot (FO tbl) x y = Some d ->
  finite d ->
  Forall2 (fun a b => B2Rf a * B2Rf b = 0 \/ / 2 ^ 1022 <= Rabs (B2Rf a * B2Rf b)) x y ->
  Rabs (B2Rf d - Rdot (map B2Rf x) (map B2Rf y))
  <= ((1 + / 2 ^ 53) ^ S (length x) - 1) * Rsum (map Rabs (map2 Rmult (map B2Rf x) (map B2Rf y))).
Proof.
  unfold Reduce.dot. destruct (Nat.eqb_spec (length x) (length y)) as [Hl|Hl]; [|discriminate].
  intros Hd Hf Hnu. injection Hd as <-. apply dot_F_error; [exact Hl|exact Hf|].
  revert Hnu. apply Forall2_impl. intros a b. apply no_underflow_explicit.
Qed.

(** concrete doubles as reals (for the examples) *)
Lemma B2Rf_SF x : B2Rf x = SF2R radix2 (Prim2SF x).
Proof. unfold B2Rf, Prim2B. apply B2R_SF2B. Qed.
Ltac b2rf_compute :=
  rewrite ?B2Rf_SF;
  repeat match goal with |- context [Prim2SF ?f] => let a := eval vm_compute in (Prim2SF f) in change (Prim2SF f) with a end;
  unfold SF2R, F2R; cbn [Fnum Fexp cond_Zopp Z.opp]; unfold bpow;
  repeat match goal with |- context [Z.pow_pos ?r ?n] => let v := eval vm_compute in (Z.pow_pos r n) in change (Z.pow_pos r n) with v end.
