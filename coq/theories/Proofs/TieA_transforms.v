(** * Tie A for C17: the hand-written model [Model/Transforms.v] IS the source.
    [Generated/transforms.v] is produced on every run by tools/tiea/transforms.py (expression translator
    tools/rsexpr.py) from src/functions/statistical.rs.  Each lemma states that the generated term and the model's
    function are the same function for EVERY carrier and operations record (conversion and case splits on the
    booleans only; no algebraic law).  The model shares the two Box-Cox branches (and the [let]s of the source) in [boxcox_body] and writes the
    guards positively ([if ok then Some .. else None]); the source panics first ([if !ok { panic!() }]). *)
From Coq Require Import List Bool.
From Compute Require Import Base.Ops Base.RsExpr Model.Transforms Generated.transforms Proofs.TieA_tac.

Section TieA.
  Context {T : Type} (O : Ops T).
  Lemma tiea_logistic : forall x, src_logistic O x = logistic O x.
  Proof. reflexivity. Qed.
  Lemma tiea_logit : forall p, src_logit O p = logit O p.
  Proof. intro p. unfold src_logit, logit. tiea_cases. Qed.
  Lemma tiea_boxcox : forall x lambda, src_boxcox O x lambda = boxcox O x lambda.
  Proof. intros x lambda. unfold src_boxcox, boxcox, boxcox_body, ln_. cbv zeta. tiea_cases. Qed.
  Lemma tiea_boxcox_shifted : forall x lambda alpha, src_boxcox_shifted O x lambda alpha = boxcox_shifted O x lambda alpha.
  Proof. intros x lambda alpha. unfold src_boxcox_shifted, boxcox_shifted, boxcox_body, ln_. cbv zeta. tiea_cases. Qed.
End TieA.
