(** * C10 (tape, part 6) — the Jacobian rows Levenberg-Marquardt reads off the tape are the TRUE Jacobian.

    [Model/LMTape.v] is how [optimize/lm.rs] obtains its residuals and Jacobian from the [reverse] tape: ONE
    tape shared by all the data points (it keeps growing: each point's evaluation, the [y - val] node, and on
    accepted steps the [x + d] nodes and the trial evaluations stay on it), one sweep per point over the
    whole tape.  On the reals, for every covered program (no [f64 / Var]) and every point at which the model
    function is smooth for every abscissa:
    - [eval_row]: on ANY well-formed tape whose parameter nodes have unit tangents (leaves, or the [x + d]
      nodes), whatever is pushed afterwards, [val.grad().wrt(&params)] is the gradient of the denotation;
    - [lm_jac0_true], [lm_jac1_true]: both Jacobian functions of the LM model return the matrix whose row i is
      the gradient of params |-> f(params, x_i): the true Jacobian, equal to [model_jacobian] (Coquelicot's
      [Derive]); [lm_resid_true]: the residual function returns y_i - f(params, x_i);
    - composition with the LM theorems of Proofs/C10_compose.v / C10_damped.v: the hypotheses on "every
      Jacobian returned" become hypotheses on the mathematical Jacobian, and the covariance is
      rss/(n-p) (J^T J)^-1 with J the true Jacobian at the returned point. *)
From Coq Require Import List Arith ZArith Bool Lia Reals Lra.
From Coquelicot Require Import Coquelicot.
From Compute Require Import Base.Ops Base.ListMat Base.Tape Spec.Autodiff Model.Reduce Model.MatMul Model.Optim Model.LMTape
  Proofs.C10_tape Proofs.C10_tape_den Proofs.C10_tape_grad Proofs.C10_tape_la
  Proofs.C10 Proofs.C10_lm Proofs.C10_compose Proofs.C10_damped.
From Compute Require Spec.Factor Spec.Solve.
Import ListNotations.
Local Open Scope R_scope.

(** ** parameter nodes with unit tangents *)
(** the nodes [pv] carry the values [xs], and the tangent of node j with respect to node i is delta_ij:
    true of leaves and of the [x + d] nodes of an accepted step, on every extension of the tape *)
Definition unit_vars (nds : list rnode) (pv : list rvar) (xs : list R) : Prop :=
  length pv = length xs /\
  forall j v, nth_error pv j = Some v ->
    (snd v < length nds)%nat /\ fst v = nth j xs 0 /\
    forall i u, nth_error pv i = Some u -> tanf nds (snd u) (snd v) = if (j =? i)%nat then 1 else 0.

Lemma unit_vars_text tp tp' pv xs : text tp tp' -> unit_vars (nodes tp) pv xs -> unit_vars (nodes tp') pv xs.
Proof.
  intros [_ [new H]] [L U]. split; [exact L|]. intros j v Hj. destruct (U j v Hj) as (H1 & H2 & H3).
  rewrite H. split; [rewrite app_length; lia|]. split; [exact H2|].
  intros i u Hi. rewrite tanf_app by exact H1. exact (H3 i u Hi).
Qed.

Lemma nth_error_nth_R {A} (l : list A) i d : (i < length l)%nat -> nth_error l i = Some (nth i l d).
Proof. revert i; induction l as [|a l IH]; intros [|i] H; cbn [length] in H; try lia; cbn [nth nth_error]; auto. apply IH. lia. Qed.

(** the gradient row read after ANY further growth of the tape *)
Definition is_row (e : expr R) (data : list (list R)) (xs row : list R) : Prop := true_grad e data xs row.

Lemma eval_row (data : list (list R)) (e : expr R) (pv : list rvar) (xs : list R) (tp : rtape) :
  covered e -> tape_wf tp -> unit_vars (nodes tp) pv xs -> smooth_at e data xs [] ->
  exists r tp', eval RO e pv [] data tp = Some (r, tp') /\ text tp tp' /\
    fst r = den e data xs [] /\ (snd r < tlen tp')%nat /\
    forall tp'', text tp' tp'' -> true_grad e data xs (wrt RO (grad RO tp'' r) pv).
Proof.
  intros Hc W [Lpv U] Hs.
  destruct (eval_sound data 0 0 0 e Hc pv [] tp (fun _ => xs) (fun _ => []) W ltac:(lia))
    as (r & tp' & Ee & T & Hr).
  { split; [exact Lpv|]. intros j v Hj. destruct (U j v Hj) as (H1 & H2 & _).
    split; [exact H1|]. split; [exact H2|]. intros; lia. }
  { split; [reflexivity|]. intros [|j] v Hj; discriminate. }
  { exact Hs. }
  exists r, tp'. split; [exact Ee|]. split; [exact T|].
  destruct Hr as (Hr1 & Hr2 & _). split; [exact Hr2|].
  assert (Lr : (snd r < tlen tp')%nat) by (rewrite (proj1 (proj1 T)); exact Hr1).
  split; [exact Lr|].
  intros tp'' T2. split; [unfold wrt; rewrite map_length; exact Lpv|].
  intros i Hi.
  assert (Hu : nth_error pv i = Some (nth i pv (0, 0%nat))) by (apply nth_error_nth_R; lia).
  set (u := nth i pv (0, 0%nat)) in *.
  destruct (U i u Hu) as (Hu1 & Hu2 & _).
  assert (Ltp : tlen tp = length (nodes tp)) by exact (proj1 W).
  destruct (eval_sound data (snd u) (tlen tp) (nth i xs 0) e Hc pv [] tp (fun s => upd xs i s) (fun _ => []) W ltac:(lia))
    as (r' & tp1 & Ee' & T' & Hr').
  { split; [rewrite upd_length; exact Lpv|].
    intros j v Hj. destruct (U j v Hj) as (H1 & H2 & H3).
    split; [exact H1|]. split; [rewrite upd_same; exact H2|].
    intros _. rewrite (H3 i u Hu).
    destruct (Nat.eqb_spec j i) as [->|Hne].
    - eapply is_derive_ext; [intros t; symmetry; apply nth_upd_eq; exact Hi|]. apply @is_derive_id.
    - eapply is_derive_ext; [intros t; symmetry; apply nth_upd_ne; exact Hne|]. apply @is_derive_const. }
  { split; [reflexivity|]. intros [|j] v Hj; discriminate. }
  { rewrite upd_same. exact Hs. }
  rewrite Ee in Ee'. injection Ee' as <- <-.
  destruct Hr' as (_ & _ & Hd). specialize (Hd ltac:(lia)).
  unfold wrt. rewrite (nth_map_lt _ pv i (0, 0%nat)) by lia. fold u. cbn [zero RO].
  pose proof (text_tlen _ _ W T) as L1. pose proof (text_tlen _ _ (proj1 T) T2) as L2.
  rewrite grad_adjoint; [|exact (proj1 T2)|lia].
  rewrite (tanf_text tp' tp'' (snd u) (snd r) (proj1 T) T2 Lr). exact Hd.
Qed.

(** ** the row loops of [lm_jac0] / [lm_jac1] *)
Lemma lm_jac0_go_sound (e : expr R) (pv : list rvar) (ps : list R) : covered e ->
  forall (xs : list R) (tp : rtape),
  tape_wf tp -> unit_vars (nodes tp) pv ps -> smooth_on e xs ps ->
  exists J, lm_jac0_go RO e pv xs tp = Some J /\ true_jacobian e xs ps J.
Proof.
  intros Hc. induction xs as [|x xs IH]; intros tp W U Hs; cbn [lm_jac0_go].
  - exists []. split; [reflexivity|]. split; [reflexivity|]. cbn [length]. intros; lia.
  - destruct (eval_row [[x]] e pv ps tp Hc W U (Hs x (or_introl eq_refl)))
      as (r & tp1 & Ee & T1 & _ & Lr & Hrow).
    rewrite Ee. cbn [bind].
    change (push tp1 (snd r) (snd r) (zero RO) (m1 RO))
      with (tlen tp1, pushed tp1 (snd r) (snd r) 0 (m1 RO)). cbv beta iota.
    pose proof (pushed_text tp1 (snd r) (snd r) 0 (m1 RO) (proj1 T1) Lr Lr) as T2.
    destruct (IH (pushed tp1 (snd r) (snd r) 0 (m1 RO)) (proj1 T2)) as (J & EJ & LJ & HJ).
    { eapply unit_vars_text; [exact (text_trans _ _ _ T1 T2)|exact U]. }
    { intros x' Hx'. apply Hs. right. exact Hx'. }
    rewrite EJ. cbn [bind]. eexists. split; [reflexivity|].
    split; [cbn [length]; rewrite LJ; reflexivity|].
    intros [|i] Hi; cbn [nth length] in *.
    + exact (Hrow _ T2).
    + apply HJ. lia.
Qed.

Lemma lm_trial_sound (e : expr R) (pv : list rvar) (ps : list R) : covered e ->
  forall (xs : list R) (tp : rtape),
  tape_wf tp -> unit_vars (nodes tp) pv ps -> smooth_on e xs ps ->
  exists tp', lm_trial RO e pv xs tp = Some tp' /\ text tp tp'.
Proof.
  intros Hc. induction xs as [|x xs IH]; intros tp W U Hs; cbn [lm_trial].
  - exists tp. split; [reflexivity|apply text_refl; exact W].
  - destruct (eval_row [[x]] e pv ps tp Hc W U (Hs x (or_introl eq_refl)))
      as (r & tp1 & Ee & T1 & _).
    rewrite Ee. cbn [bind].
    destruct (IH tp1 (proj1 T1)) as (tp2 & E2 & T2).
    { eapply unit_vars_text; [exact T1|exact U]. }
    { intros x' Hx'. apply Hs. right. exact Hx'. }
    exists tp2. split; [exact E2|exact (text_trans _ _ _ T1 T2)].
Qed.

Lemma lm_jac1_go_sound (e : expr R) (pv : list rvar) (ps : list R) : covered e ->
  forall (xs : list R) (tp : rtape),
  tape_wf tp -> unit_vars (nodes tp) pv ps -> smooth_on e xs ps ->
  exists J, lm_jac1_go RO e pv xs tp = Some J /\ true_jacobian e xs ps J.
Proof.
  intros Hc. induction xs as [|x xs IH]; intros tp W U Hs; cbn [lm_jac1_go].
  - exists []. split; [reflexivity|]. split; [reflexivity|]. cbn [length]. intros; lia.
  - destruct (eval_row [[x]] e pv ps tp Hc W U (Hs x (or_introl eq_refl)))
      as (r & tp1 & Ee & T1 & _ & Lr & Hrow).
    rewrite Ee. cbn [bind].
    destruct (IH tp1 (proj1 T1)) as (J & EJ & LJ & HJ).
    { eapply unit_vars_text; [exact T1|exact U]. }
    { intros x' Hx'. apply Hs. right. exact Hx'. }
    rewrite EJ. cbn [bind]. eexists. split; [reflexivity|].
    split; [cbn [length]; rewrite LJ; reflexivity|].
    intros [|i] Hi; cbn [nth length] in *.
    + exact (Hrow _ (text_refl _ (proj1 T1))).
    + apply HJ. lia.
Qed.

(** ** the parameter nodes of the two Jacobian functions have unit tangents *)
Lemma leaves_unit_vars (xs : list R) :
  let pt := add_vars RO empty_tape xs in
  tape_wf (snd pt) /\ unit_vars (nodes (snd pt)) (fst pt) xs.
Proof.
  destruct (add_vars_spec xs empty_tape eq_refl I) as (Hps & HL & HA & Hn).
  destruct (add_vars RO empty_tape xs) as [ps tp]. cbn [fst snd tlen empty_tape Nat.add] in *.
  split; [split; [exact HL|apply all_leaf_wf; exact HA]|].
  assert (Lps : length ps = length xs) by (rewrite Hps; unfold var; rewrite combine_length, seq_length; lia).
  split; [exact Lps|].
  intros j v Hj. rewrite Hps in Hj. destruct (nth_error_combine_seq _ _ _ _ Hj) as [Hlt ->].
  cbn [fst snd Nat.add]. split; [lia|]. split; [reflexivity|].
  intros i u Hi. rewrite Hps in Hi. destruct (nth_error_combine_seq _ _ _ _ Hi) as [Hlti ->].
  cbn [snd Nat.add]. apply tanf_leaf; [exact HA|lia].
Qed.

Lemma la_nodes_unit_vars (xs : list R) :
  let pt := add_vars RO empty_tape xs in
  let st := fold_left (fun (st : list rvar * rtape) (pv : rvar) =>
                         let (l, t') := push (snd st) (snd pv) (snd pv) (one RO) (zero RO) in
                         (fst st ++ [(fst pv, l)], t')) (fst pt) ([], snd pt) in
  tape_wf (snd st) /\ unit_vars (nodes (snd st)) (fst st) xs.
Proof.
  destruct (add_vars_spec xs empty_tape eq_refl I) as (Hps & HL & HA & Hn).
  destruct (add_vars RO empty_tape xs) as [ps tp]. cbn [fst snd tlen empty_tape Nat.add] in *.
  assert (W : tape_wf tp) by (split; [exact HL|apply all_leaf_wf; exact HA]).
  assert (Lps : length ps = length xs) by (rewrite Hps; unfold var; rewrite combine_length, seq_length; lia).
  assert (Hsnd : forall j pv, nth_error ps j = Some pv -> (j < length xs)%nat /\ pv = (nth j xs 0, j)).
  { intros j pv Hj. rewrite Hps in Hj. apply nth_error_combine_seq in Hj. exact Hj. }
  pose proof (la_fold ps [] tp) as HF. unfold la_step in HF. rewrite HF. clear HF. cbn [app].
  destruct (la_push_spec ps tp W) as (T1 & L1 & F1 & H1).
  { intros pv Hin. apply In_nth_error in Hin. destruct Hin as [j Hj]. destruct (Hsnd j pv Hj) as [Hlt ->]. cbn [snd]. lia. }
  destruct (la_push tp ps) as [fps tp1]. cbn [fst snd] in *.
  assert (Hmf : map fst ps = xs) by (rewrite Hps; apply map_fst_combine_seq).
  rewrite Hmf, Lps, Hn in F1. rewrite Lps, Hn in L1. rewrite Hn in H1.
  split; [exact (proj1 T1)|].
  assert (Lf : length fps = length xs) by (rewrite F1; unfold var; rewrite combine_length, seq_length; lia).
  split; [exact Lf|].
  intros j v Hj. rewrite F1 in Hj. destruct (nth_error_combine_seq _ _ _ _ Hj) as [Hlt ->].
  cbn [fst snd]. split; [destruct T1 as [[LL _] _]; rewrite <- LL; lia|]. split; [reflexivity|].
  intros i u Hi. rewrite F1 in Hi. destruct (nth_error_combine_seq _ _ _ _ Hi) as [Hlti ->].
  cbn [snd].
  assert (Hjn : nth_error ps j = Some (nth j xs 0, j)).
  { rewrite Hps. exact (nth_error_combine_seq_lt xs 0 j Hlt). }
  rewrite (H1 j _ (length xs + i)%nat Hjn). cbn [snd].
  rewrite tanf_leaf by (auto; lia).
  destruct (Nat.eqb_spec (length xs + j) (length xs + i)) as [Heq|Hne].
  - destruct (Nat.eqb_spec j i); [reflexivity|lia].
  - destruct (Nat.eqb_spec j (length xs + i)); [lia|].
    destruct (Nat.eqb_spec j i); [lia|reflexivity].
Qed.

(** ** the true Jacobian is unique and has the closed form [model_jacobian] *)
Lemma true_grad_is_Derive e data ps g :
  true_grad e data ps g ->
  g = map (fun j => Derive (fun t => den e data (upd ps j t) []) (nth j ps 0)) (seq 0 (length ps)).
Proof.
  intros [L H]. apply nth_ext with (d := 0) (d' := 0); [rewrite map_length, seq_length; exact L|].
  intros j Hj. rewrite L in Hj.
  rewrite (nth_map_lt _ (seq 0 (length ps)) j 0%nat) by (rewrite seq_length; exact Hj).
  rewrite seq_nth by exact Hj. cbn [Nat.add].
  symmetry. apply is_derive_unique. exact (H j Hj).
Qed.

Lemma true_jacobian_is_model e xs ps J : true_jacobian e xs ps J -> J = model_jacobian e xs ps.
Proof.
  intros [L H]. unfold model_jacobian.
  apply nth_ext with (d := []) (d' := []); [rewrite map_length; exact L|].
  intros i Hi. rewrite L in Hi.
  rewrite (nth_map_lt _ xs i 0) by exact Hi. apply true_grad_is_Derive. exact (H i Hi).
Qed.

Section Model.
  Variable e : expr R.
  Variable xs : list R.
  Hypothesis Hc : covered e.

  Theorem lm_jac0_true ps : smooth_on e xs ps ->
    lm_jac0 RO e xs ps = Some (model_jacobian e xs ps) /\ true_jacobian e xs ps (model_jacobian e xs ps).
  Proof.
    intros Hs. unfold lm_jac0. pose proof (leaves_unit_vars ps) as [W U]. cbv zeta in W, U.
    destruct (add_vars RO empty_tape ps) as [pv tp0]. cbn [fst snd] in W, U.
    destruct (lm_jac0_go_sound e pv ps Hc xs tp0 W U Hs) as (J & EJ & HJ).
    rewrite <- (true_jacobian_is_model e xs ps J HJ). split; [exact EJ|exact HJ].
  Qed.

  Theorem lm_jac1_true ps : smooth_on e xs ps ->
    lm_jac1 RO e xs ps = Some (model_jacobian e xs ps).
  Proof.
    intros Hs. unfold lm_jac1. pose proof (la_nodes_unit_vars ps) as [W U]. cbv zeta in W, U.
    destruct (add_vars RO empty_tape ps) as [pv tp0]. cbn [fst snd] in W, U.
    destruct (fold_left _ pv ([], tp0)) as [nv tp1]. cbn [fst snd] in W, U.
    destruct (lm_trial_sound e nv ps Hc xs tp1 W U Hs) as (tp2 & E2 & T2).
    rewrite E2. cbn [bind].
    destruct (lm_jac1_go_sound e nv ps Hc xs tp2 (proj1 T2) (unit_vars_text _ _ _ _ T2 U) Hs) as (J & EJ & HJ).
    rewrite <- (true_jacobian_is_model e xs ps J HJ). exact EJ.
  Qed.

  Theorem lm_resid_true ys ps : smooth_on e xs ps ->
    lm_resid RO e xs ys ps = Some (model_residuals e xs ys ps).
  Proof.
    intros Hs. unfold lm_resid, model_residuals.
    assert (Hin : forall xy, In xy (combine xs ys) -> smooth_at e [[fst xy]] ps []).
    { intros [x y] H. apply Hs. exact (in_combine_l _ _ _ _ H). }
    induction (combine xs ys) as [|[x y] l IH]; cbn [lm_resid_go map]; [reflexivity|].
    rewrite (tape_val_sound e [[x]] ps Hc (Hin (x, y) (or_introl eq_refl))). cbn [bind].
    rewrite IH by (intros xy H; apply Hin; right; exact H). reflexivity.
  Qed.
End Model.

(** ** the value computed by [eval] is the denotation whenever [eval] returns (no smoothness needed: on the
    reals every operation is total) *)
Lemma eval_value (data : list (list R)) : forall e, covered e -> forall ps env tp xs E r tp',
  (forall j v, nth_error ps j = Some v -> fst v = nth j xs 0) ->
  (forall k v, nth_error env k = Some v -> fst v = nth k E 0) ->
  eval RO e ps env data tp = Some (r, tp') -> fst r = den e data xs E.
Proof.
  induction e as [i|j|a IHa b IHb|a IHa b IHb|a IHa c|a IHa b IHb|a IHa c|c a IHa|a IHa b IHb|a IHa c
                 |a IHa b IHb|a IHa c|c a IHa|a IHa|a IHa n|f a IHa];
    intros Hc ps env tp xs E r tp' Hps Henv H; cbn [covered] in Hc; cbn [eval] in H; cbn [den].
  - apply bind_some' in H as (v & Hv & H). injection H as <- _. exact (Hps i v Hv).
  - apply bind_some' in H as (v & Hv & H). injection H as <- _. exact (Henv j v Hv).
  - destruct Hc as [Hca Hcb]. apply bind_some' in H as ([va tp1] & Ha & H).
    apply (IHb Hcb ps (va :: env) tp1 xs (den a data xs E :: E) r tp' Hps); [|exact H].
    intros [|k] v Hk; cbn [nth_error nth] in *.
    + injection Hk as <-. exact (IHa Hca _ _ _ _ _ _ _ Hps Henv Ha).
    + exact (Henv k v Hk).
  - destruct Hc as [Hca Hcb]. apply bind_some' in H as ([va tp1] & Ha & H). apply bind_some' in H as ([vb tp2] & Hb & H).
    rewrite v_add_eq in H. injection H as <- _. cbn [fst].
    rewrite (IHa Hca _ _ _ _ _ _ _ Hps Henv Ha), (IHb Hcb _ _ _ _ _ _ _ Hps Henv Hb). reflexivity.
  - apply bind_some' in H as ([va tp1] & Ha & H). apply bind_some' in H as (x & Hx & H).
    unfold v_addc in H. rewrite un_eq in H. injection H as <- _. cbn [fst].
    rewrite (IHa Hc _ _ _ _ _ _ _ Hps Henv Ha), (cden_some data c x Hx). reflexivity.
  - destruct Hc as [Hca Hcb]. apply bind_some' in H as ([va tp1] & Ha & H). apply bind_some' in H as ([vb tp2] & Hb & H).
    unfold v_mulc in H. rewrite un_eq in H. rewrite v_add_eq in H. injection H as <- _. cbn [fst].
    rewrite (IHa Hca _ _ _ _ _ _ _ Hps Henv Ha), (IHb Hcb _ _ _ _ _ _ _ Hps Henv Hb). cbn [add mul RO]. ring.
  - apply bind_some' in H as ([va tp1] & Ha & H). apply bind_some' in H as (x & Hx & H).
    unfold v_addc in H. rewrite un_eq in H. injection H as <- _. cbn [fst].
    rewrite (IHa Hc _ _ _ _ _ _ _ Hps Henv Ha), (cden_some data c x Hx). cbn [add neg RO]. ring.
  - apply bind_some' in H as (x & Hx & H). apply bind_some' in H as ([va tp1] & Ha & H).
    cbn [push] in H. injection H as <- _. cbn [fst].
    rewrite (IHa Hc _ _ _ _ _ _ _ Hps Henv Ha), (cden_some data c x Hx). reflexivity.
  - destruct Hc as [Hca Hcb]. apply bind_some' in H as ([va tp1] & Ha & H). apply bind_some' in H as ([vb tp2] & Hb & H).
    rewrite v_mul_eq in H. injection H as <- _. cbn [fst].
    rewrite (IHa Hca _ _ _ _ _ _ _ Hps Henv Ha), (IHb Hcb _ _ _ _ _ _ _ Hps Henv Hb). reflexivity.
  - apply bind_some' in H as ([va tp1] & Ha & H). apply bind_some' in H as (x & Hx & H).
    unfold v_mulc in H. rewrite un_eq in H. injection H as <- _. cbn [fst].
    rewrite (IHa Hc _ _ _ _ _ _ _ Hps Henv Ha), (cden_some data c x Hx). reflexivity.
  - destruct Hc as [Hca Hcb]. apply bind_some' in H as ([va tp1] & Ha & H). apply bind_some' in H as ([vb tp2] & Hb & H).
    unfold v_recip in H. rewrite un_eq in H. rewrite v_mul_eq in H. injection H as <- _. cbn [fst].
    rewrite (IHa Hca _ _ _ _ _ _ _ Hps Henv Ha), (IHb Hcb _ _ _ _ _ _ _ Hps Henv Hb). cbn [div mul one RO]. unfold Rdiv. ring.
  - apply bind_some' in H as ([va tp1] & Ha & H). apply bind_some' in H as (x & Hx & H).
    unfold v_mulc in H. rewrite un_eq in H. injection H as <- _. cbn [fst].
    rewrite (IHa Hc _ _ _ _ _ _ _ Hps Henv Ha), (cden_some data c x Hx). cbn [div mul one RO]. unfold Rdiv. ring.
  - contradiction.
  - apply bind_some' in H as ([va tp1] & Ha & H).
    unfold v_mulc in H. rewrite un_eq in H. injection H as <- _. cbn [fst].
    rewrite (IHa Hc _ _ _ _ _ _ _ Hps Henv Ha). cbn [mul RO]. ring.
  - destruct Hc as [Hca Hn]. apply bind_some' in H as ([va tp1] & Ha & H).
    rewrite un_eq in H. injection H as <- _. cbn [fst].
    rewrite (IHa Hca _ _ _ _ _ _ _ Hps Henv Ha). apply powi_powerRZ. lia.
  - apply bind_some' in H as ([va tp1] & Ha & H).
    rewrite v_fn_eq in H. injection H as <- _. cbn [fst].
    rewrite (IHa Hc _ _ _ _ _ _ _ Hps Henv Ha). destruct f; cbn [uden]; try reflexivity. unfold Rdiv. ring.
Qed.

Lemma tape_val_value (e : expr R) (data : list (list R)) (ps : list R) v :
  covered e -> tape_val RO e data ps = Some v -> v = den e data ps [].
Proof.
  intros Hc H. unfold tape_val in H.
  destruct (add_vars_spec ps empty_tape eq_refl I) as (Hps & _).
  destruct (add_vars RO empty_tape ps) as [pv tp]. cbn [fst snd tlen empty_tape] in Hps.
  apply bind_some' in H as ([r tp'] & He & H). injection H as <-.
  apply (eval_value data e Hc pv [] tp ps [] r tp'); [| |exact He].
  - intros j w Hj. rewrite Hps in Hj. destruct (nth_error_combine_seq _ _ _ _ Hj) as [_ ->]. reflexivity.
  - intros [|k] w Hk; discriminate.
Qed.

(** whenever the residual function returns, it returns the residuals of the denotation *)
Lemma lm_resid_value (e : expr R) (xs ys ps r : list R) :
  covered e -> lm_resid RO e xs ys ps = Some r -> r = model_residuals e xs ys ps.
Proof.
  intros Hc. unfold lm_resid, model_residuals. revert r.
  induction (combine xs ys) as [|[x y] l IH]; intros r H; cbn [lm_resid_go map] in *.
  - injection H as <-. reflexivity.
  - apply bind_some' in H as (v & Hv & H). apply bind_some' in H as (r' & Hr' & H). injection H as <-.
    rewrite (tape_val_value e [[x]] ps v Hc Hv), (IH r' Hr'). reflexivity.
Qed.

(** ** the run stays in the sublevel set of its start point: the condition "no zero column" is only needed there

    (any residual / Jacobian functions; strengthens [damped_nonsingular_along_holds], whose hypothesis
    quantifies over every point at which a Jacobian is returned) *)
Lemma lm_step_cases resid jac1 solve h (st st' : lm_state (T:=R)) :
  lm_step RO resid jac1 solve h st = Some st' ->
  (lm_ps st' = lm_ps st /\ lm_res st' = lm_res st /\ lm_jtj st' = lm_jtj st /\ lm_jtr st' = lm_jtr st) \/
  (exists d J', solve (damp RO (lm_jtj st) (lm_mu st)) (lm_jtr st) = Some d /\
                lm_ps st' = map2 (add RO) (lm_ps st) d /\ resid (lm_ps st') = Some (lm_res st') /\
                jac1 (lm_ps st') = Some J' /\
                normal_eqs RO J' (length (lm_ps st)) (lm_res st') = Some (lm_jtj st', lm_jtr st')).
Proof.
  intros H. unfold lm_step in H. apply bind_some' in H as (d & Hd & H).
  destruct (leb RO (norm RO d) _); [injection H as <-; left; cbn; auto|].
  apply bind_some' in H as (r' & Hr' & H). apply bind_some' in H as (pred & _ & H).
  destruct (ltb RO (zero RO) _).
  - apply bind_some' in H as (J' & HJ' & H). apply bind_some' in H as ([jtj jtr] & Hn' & H).
    injection H as <-. right. exists d, J'. cbn [lm_ps lm_res lm_jtj lm_jtr]. auto.
  - injection H as <-. left. cbn. auto.
Qed.

Section Sublevel.
  Variable resid : list R -> option (list R).
  Variable jac0 jac1 : list R -> option (list (list R)).
  Variable h : lm_hp (T:=R).
  Variable ps0 r0 : list R.
  Hypothesis Hr0 : resid ps0 = Some r0.

  (** parameter vectors of the start point's dimension whose residual sum of squares is at most the start's *)
  Definition sublevel (ps : list R) : Prop :=
    length ps = length ps0 /\ exists r, resid ps = Some r /\ dot_raw RO r r <= dot_raw RO r0 r0.

  Hypothesis Hjac : forall ps J, sublevel ps -> jac0 ps = Some J \/ jac1 ps = Some J -> cols_nonzero J (length ps).

  Definition inv_sub (st : lm_state (T:=R)) : Prop :=
    length (lm_ps st) = length ps0 /\ resid (lm_ps st) = Some (lm_res st) /\
    dot_raw RO (lm_res st) (lm_res st) <= dot_raw RO r0 r0 /\ inv_state st.

  Lemma inv_sub_init st : 0 < l_tau h -> lm_init RO resid jac0 h ps0 = Some st -> inv_sub st.
  Proof.
    intros Htau H. unfold lm_init in H. rewrite Hr0 in H. cbn [bind] in H.
    apply bind_some' in H as (J & HJ & H).
    apply bind_some' in H as ([jtj jtr] & Hn & H). injection H as <-.
    unfold inv_sub, inv_state. cbn [lm_mu lm_nu lm_ps lm_jtj lm_jtr lm_res].
    split; [reflexivity|]. split; [exact Hr0|]. split; [lra|].
    assert (Hc : cols_nonzero J (length ps0)).
    { apply Hjac; [|left; exact HJ]. split; [reflexivity|]. exists r0. split; [exact Hr0|lra]. }
    split; [exact Htau|split; [apply two_pos|exists J, r0; split; assumption]].
  Qed.

  Lemma inv_state_good st : inv_state st -> good st.
  Proof.
    intros (Hmu & Hnu & J & r & Hn & _). destruct (normal_eqs_good _ _ _ _ _ Hn) as [P1 P2].
    split; [exact P1|]. split; [exact P2|]. split; [lra|exact Hnu].
  Qed.

  Lemma inv_sub_step st st' :
    inv_sub st -> lm_step RO resid jac1 lm_solve h st = Some st' -> inv_sub st'.
  Proof.
    intros (Lp & Hres & Hle & Hinv) H.
    pose proof (inv_state_nonsingular st Hinv) as Hns.
    destruct (lm_step_damping_positive _ _ _ _ _ _ H (proj1 Hinv) (proj1 (proj2 Hinv))) as [Hmu' Hnu'].
    assert (Hw : wfsq (lm_jtj st)).
    { destruct Hinv as (_ & _ & J & r & Hn & _). exact (normal_eqs_wfsq _ _ _ _ _ Hn). }
    (* the residual sum of squares does not increase *)
    assert (Hdesc : rss st' <= rss st).
    { pose proof H as Hreg. rewrite <- (lm_step_agree resid jac1 h st Hw Hns) in Hreg.
      exact (proj2 (lm_step_descends resid jac1 solve_reg h solve_reg_exact st st' Hreg (inv_state_good st Hinv))). }
    unfold rss in Hdesc.
    destruct (lm_step_cases _ _ _ _ _ _ H) as [(E1 & E2 & E3 & E4)|(d & J' & Hd & E1 & Hr' & HJ' & Hn')].
    - unfold inv_sub. rewrite E1, E2. split; [exact Lp|]. split; [exact Hres|]. split; [exact Hle|].
      destruct Hinv as (_ & _ & J & r & Hn & Hc). split; [exact Hmu'|]. split; [exact Hnu'|].
      exists J, r. rewrite E1, E3, E4. split; assumption.
    - (* the step has the length of the parameters *)
      assert (Hreg : regular (damp RO (lm_jtj st) (lm_mu st))) by (split; [apply damp_wfsq; exact Hw|exact Hns]).
      destruct (lm_solve_exact_at _ _ _ Hreg Hd) as (Ld & _ & _).
      assert (Lp' : length (lm_ps st') = length (lm_ps st)).
      { rewrite E1. apply map2_len. rewrite Ld. cbn [damp nc].
        destruct Hinv as (_ & _ & J & r & Hn & _).
        destruct (normal_eqs_entries _ _ _ _ _ Hn) as (_ & Hcn & _). exact Hcn. }
      unfold inv_sub. split; [lia|]. split; [exact Hr'|]. split; [lra|].
      split; [exact Hmu'|]. split; [exact Hnu'|].
      exists J', (lm_res st'). rewrite Lp'. split; [exact Hn'|].
      rewrite <- Lp'. apply Hjac; [|right; exact HJ'].
      split; [lia|]. exists (lm_res st'). split; [exact Hr'|lra].
  Qed.

  Lemma inv_sub_along fuel : forall st, inv_sub st -> damped_nonsingular_along resid jac1 h fuel st.
  Proof.
    induction fuel as [|fuel IH]; intros st Hinv; cbn [damped_nonsingular_along]; [exact I|].
    destruct (lm_stop st); [exact I|]. split; [exact (inv_state_nonsingular st (proj2 (proj2 (proj2 Hinv))))|].
    destruct (lm_step RO resid jac1 lm_solve h st) as [st'|] eqn:Hs; [|exact I].
    apply IH. exact (inv_sub_step st st' Hinv Hs).
  Qed.

  (** the data condition of the composed theorems holds on every run: hypothesis on the sublevel set only *)
  Theorem damped_nonsingular_along_sublevel maxsteps st0 :
    0 < l_tau h -> lm_init RO resid jac0 h ps0 = Some st0 -> damped_nonsingular_along resid jac1 h maxsteps st0.
  Proof. intros Htau Hi. apply inv_sub_along. exact (inv_sub_init st0 Htau Hi). Qed.

  Theorem lm_never_worse_sublevel maxsteps popt cov :
    0 < l_tau h ->
    lm RO resid jac0 jac1 lm_solve lm_inv h maxsteps ps0 = Some (popt, cov) ->
    exists r, resid popt = Some r /\ dot_raw RO r r <= dot_raw RO r0 r0.
  Proof.
    intros Htau H.
    destruct (lm_never_worse_composed resid jac0 jac1 h maxsteps ps0 popt cov) as (r0' & r & E0 & E1 & Hle);
      [lra| |exact H|].
    - intros st0 Hi. exact (damped_nonsingular_along_sublevel maxsteps st0 Htau Hi).
    - rewrite Hr0 in E0. injection E0 as <-. exists r. split; assumption.
  Qed.

  Theorem lm_result_sublevel maxsteps popt cov :
    0 < l_tau h ->
    lm RO resid jac0 jac1 lm_solve lm_inv h maxsteps ps0 = Some (popt, cov) ->
    exists r J G g ji,
      length popt = length ps0 /\ resid popt = Some r /\ dot_raw RO r r <= dot_raw RO r0 r0 /\
      (jac0 popt = Some J \/ jac1 popt = Some J) /\
      normal_eqs RO J (length popt) r = Some (G, g) /\
      lm_inv G = Some ji /\ (length popt <= length r)%nat /\
      cov = map (Rmult (dot_raw RO r r / IZR (Z.of_nat (length r - length popt)))) ji /\
      (Spec.Solve.nonsingular (dat G) (nr G) -> Spec.Solve.is_right_inverse (dat G) (nr G) ji).
  Proof.
    intros Htau H.
    destruct (lm_never_worse_sublevel maxsteps popt cov Htau H) as (r' & Er' & Hle).
    destruct (lm_result_composed resid jac0 jac1 h maxsteps ps0 popt cov) as (r & J & G & g & ji & H1 & H2 & H3 & H4 & H5 & H6 & H7 & H8);
      [|exact H|].
    - intros st0 Hi. exact (damped_nonsingular_along_sublevel maxsteps st0 Htau Hi).
    - rewrite Er' in H2. injection H2 as <-.
      exists r', J, G, g, ji. repeat (split; [assumption|]). exact H8.
  Qed.
End Sublevel.

(** ** Levenberg-Marquardt on the tape: J is the true Jacobian *)
Lemma model_jacobian_length e xs ps : length (model_jacobian e xs ps) = length xs.
Proof. unfold model_jacobian. apply map_length. Qed.

Lemma model_jacobian_rows e xs ps row : In row (model_jacobian e xs ps) -> length row = length ps.
Proof.
  unfold model_jacobian. intros H. apply in_map_iff in H as (x & <- & _). rewrite map_length, seq_length. reflexivity.
Qed.

Lemma model_jacobian_entry e xs ps i j : (i < length xs)%nat -> (j < length ps)%nat ->
  nth j (nth i (model_jacobian e xs ps) []) 0 = Derive (fun t => den e [[nth i xs 0]] (upd ps j t) []) (nth j ps 0).
Proof.
  intros Hi Hj. unfold model_jacobian. rewrite (nth_map_lt _ xs i 0) by exact Hi.
  rewrite (nth_map_lt _ (seq 0 (length ps)) j 0%nat) by (rewrite seq_length; exact Hj).
  rewrite seq_nth by exact Hj. reflexivity.
Qed.

(** no column of the Jacobian vanishes: for every parameter some data point's model value depends on it *)
Definition jacobian_cols_nonzero (e : expr R) (xs ps : list R) : Prop :=
  forall j, (j < length ps)%nat ->
    exists i, (i < length xs)%nat /\ Derive (fun t => den e [[nth i xs 0]] (upd ps j t) []) (nth j ps 0) <> 0.

Lemma model_cols_nonzero e xs ps :
  jacobian_cols_nonzero e xs ps -> cols_nonzero (model_jacobian e xs ps) (length ps).
Proof.
  intros H. split; [intros row; apply model_jacobian_rows|].
  intros j Hj. destruct (H j Hj) as (i & Hi & Hne).
  exists (nth i (model_jacobian e xs ps) []). split.
  - apply nth_In. rewrite model_jacobian_length. exact Hi.
  - rewrite model_jacobian_entry by assumption. exact Hne.
Qed.

(** J^T J as the code builds it from the true Jacobian: entry (a, b) = sum_i dF_i/dp_a * dF_i/dp_b *)
Lemma gram_of_model_jacobian e xs ps r G g :
  normal_eqs RO (model_jacobian e xs ps) (length ps) r = Some (G, g) ->
  nr G = length ps /\ nc G = length ps /\
  forall a b, (a < length ps)%nat -> (b < length ps)%nat ->
    entry G a b = rsum (fun i => nth a (nth i (model_jacobian e xs ps) []) 0 *
                                 nth b (nth i (model_jacobian e xs ps) []) 0) (length xs).
Proof.
  intros Hn. destruct (normal_eqs_entries _ _ _ _ _ Hn) as (Hr & Hcn & Hp & HJ & Hent).
  split; [exact Hr|]. split; [exact Hcn|]. intros a b Ha Hb. rewrite (Hent a b Ha Hb).
  rewrite model_jacobian_length. apply rsum_ext. intros k Hk.
  rewrite !(nth_flatten_rows (model_jacobian e xs ps) (length ps)); auto;
    try (rewrite model_jacobian_length; exact Hk); intros row; apply model_jacobian_rows.
Qed.

Section TapeLM.
  Variable e : expr R.
  Variable xs ys : list R.
  Hypothesis Hc : covered e.
  Variable h : lm_hp (T:=R).

  Local Notation resid := (lm_resid RO e xs ys).
  Local Notation jac0 := (lm_jac0 RO e xs).
  Local Notation jac1 := (lm_jac1 RO e xs).
  Local Notation rssm ps := (dot_raw RO (model_residuals e xs ys ps) (model_residuals e xs ys ps)).

  (** what the Jacobian functions return at a smooth point *)
  Lemma jac_at_smooth ps J : smooth_on e xs ps -> jac0 ps = Some J \/ jac1 ps = Some J -> J = model_jacobian e xs ps.
  Proof.
    intros Hs [H|H].
    - rewrite (proj1 (lm_jac0_true e xs Hc ps Hs)) in H. injection H as <-. reflexivity.
    - rewrite (lm_jac1_true e xs Hc ps Hs) in H. injection H as <-. reflexivity.
  Qed.

  (** the covariance formula with the true Jacobian, from the description of the returned state *)
  Lemma result_at_true_jacobian (popt cov : list R) (n0 : nat) :
    smooth_on e xs popt ->
    (exists r J G g ji,
      length popt = n0 /\ resid popt = Some r /\
      (jac0 popt = Some J \/ jac1 popt = Some J) /\
      normal_eqs RO J (length popt) r = Some (G, g) /\
      lm_inv G = Some ji /\ (length popt <= length r)%nat /\
      cov = map (Rmult (dot_raw RO r r / IZR (Z.of_nat (length r - length popt)))) ji /\
      (Spec.Solve.nonsingular (dat G) (nr G) -> Spec.Solve.is_right_inverse (dat G) (nr G) ji)) ->
    let J := model_jacobian e xs popt in
    let r := model_residuals e xs ys popt in
    exists G g ji,
      length popt = n0 /\ true_jacobian e xs popt J /\
      normal_eqs RO J (length popt) r = Some (G, g) /\
      (nr G = length popt /\ nc G = length popt /\
       forall a b, (a < length popt)%nat -> (b < length popt)%nat ->
         entry G a b = rsum (fun i => nth a (nth i J []) 0 * nth b (nth i J []) 0) (length xs)) /\
      lm_inv G = Some ji /\ (length popt <= length r)%nat /\
      cov = map (Rmult (dot_raw RO r r / IZR (Z.of_nat (length r - length popt)))) ji /\
      (Spec.Solve.nonsingular (dat G) (nr G) -> Spec.Solve.is_right_inverse (dat G) (nr G) ji).
  Proof.
    intros Hs (r & J & G & g & ji & H1 & H2 & H3 & H4 & H5 & H6 & H7 & H8). cbv zeta.
    rewrite (lm_resid_true e xs Hc ys popt Hs) in H2. injection H2 as <-.
    rewrite (jac_at_smooth popt J Hs H3) in H4.
    exists G, g, ji. split; [exact H1|]. split; [exact (proj2 (lm_jac0_true e xs Hc popt Hs))|].
    split; [exact H4|]. split; [exact (gram_of_model_jacobian e xs popt _ G g H4)|].
    repeat (split; [assumption|]). exact H8.
  Qed.

  (** run-local form: the data condition of the composed theorems along the run, smoothness at the
      returned point only *)
  Theorem lm_tape_covariance_true_jacobian maxsteps (ps0 popt cov : list R) :
    (forall st0, lm_init RO resid jac0 h ps0 = Some st0 -> damped_nonsingular_along resid jac1 h maxsteps st0) ->
    lm RO resid jac0 jac1 lm_solve lm_inv h maxsteps ps0 = Some (popt, cov) ->
    smooth_on e xs popt ->
    let J := model_jacobian e xs popt in
    let r := model_residuals e xs ys popt in
    exists G g ji,
      length popt = length ps0 /\ true_jacobian e xs popt J /\
      normal_eqs RO J (length popt) r = Some (G, g) /\
      (nr G = length popt /\ nc G = length popt /\
       forall a b, (a < length popt)%nat -> (b < length popt)%nat ->
         entry G a b = rsum (fun i => nth a (nth i J []) 0 * nth b (nth i J []) 0) (length xs)) /\
      lm_inv G = Some ji /\ (length popt <= length r)%nat /\
      cov = map (Rmult (dot_raw RO r r / IZR (Z.of_nat (length r - length popt)))) ji /\
      (Spec.Solve.nonsingular (dat G) (nr G) -> Spec.Solve.is_right_inverse (dat G) (nr G) ji).
  Proof.
    intros Hns H Hs. apply result_at_true_jacobian; [exact Hs|].
    exact (lm_result_composed resid jac0 jac1 h maxsteps ps0 popt cov Hns H).
  Qed.

  (** unconditional form: on the sublevel set of the start point (parameter vectors of the start's dimension
      whose TRUE residual sum of squares is at most the start's) the model function is smooth and no column of
      the TRUE Jacobian vanishes *)
  Section Unconditional.
    Variable ps0 : list R.
    Hypothesis Htau : 0 < l_tau h.
    Hypothesis Hsmooth : forall ps, length ps = length ps0 -> rssm ps <= rssm ps0 -> smooth_on e xs ps.
    Hypothesis Hcols : forall ps, length ps = length ps0 -> rssm ps <= rssm ps0 -> jacobian_cols_nonzero e xs ps.

    Lemma smooth_start : smooth_on e xs ps0.
    Proof. apply Hsmooth; [reflexivity|lra]. Qed.

    Lemma tape_sublevel_cols ps J :
      sublevel resid ps0 (model_residuals e xs ys ps0) ps -> jac0 ps = Some J \/ jac1 ps = Some J ->
      cols_nonzero J (length ps).
    Proof.
      intros (L & r & Er & Hle) HJ. rewrite (lm_resid_value e xs ys ps r Hc Er) in Hle.
      pose proof (Hsmooth ps L Hle) as Hs.
      rewrite (jac_at_smooth ps J Hs HJ). apply model_cols_nonzero. apply Hcols; [exact L|exact Hle].
    Qed.

    Theorem lm_tape_damped_nonsingular_along maxsteps st0 :
      lm_init RO resid jac0 h ps0 = Some st0 -> damped_nonsingular_along resid jac1 h maxsteps st0.
    Proof.
      intros Hi.
      exact (damped_nonsingular_along_sublevel resid jac0 jac1 h ps0 (model_residuals e xs ys ps0)
               (lm_resid_true e xs Hc ys ps0 smooth_start) tape_sublevel_cols maxsteps st0 Htau Hi).
    Qed.

    Theorem lm_tape_unconditional maxsteps (popt cov : list R) :
      lm RO resid jac0 jac1 lm_solve lm_inv h maxsteps ps0 = Some (popt, cov) ->
      let J := model_jacobian e xs popt in
      let r := model_residuals e xs ys popt in
      dot_raw RO r r <= rssm ps0 /\
      exists G g ji,
        length popt = length ps0 /\ true_jacobian e xs popt J /\
        normal_eqs RO J (length popt) r = Some (G, g) /\
        (nr G = length popt /\ nc G = length popt /\
         forall a b, (a < length popt)%nat -> (b < length popt)%nat ->
           entry G a b = rsum (fun i => nth a (nth i J []) 0 * nth b (nth i J []) 0) (length xs)) /\
        lm_inv G = Some ji /\ (length popt <= length r)%nat /\
        cov = map (Rmult (dot_raw RO r r / IZR (Z.of_nat (length r - length popt)))) ji /\
        (Spec.Solve.nonsingular (dat G) (nr G) -> Spec.Solve.is_right_inverse (dat G) (nr G) ji).
    Proof.
      intros H. cbv zeta.
      destruct (lm_result_sublevel resid jac0 jac1 h ps0 (model_residuals e xs ys ps0)
                  (lm_resid_true e xs Hc ys ps0 smooth_start) tape_sublevel_cols maxsteps popt cov Htau H)
        as (r & J & G & g & ji & H1 & H2 & Hle & H3 & H4 & H5 & H6 & H7 & H8).
      pose proof Hle as Hle'. rewrite (lm_resid_value e xs ys popt r Hc H2) in Hle'.
      pose proof (Hsmooth popt H1 Hle') as Hs.
      split.
      - exact Hle'.
      - apply (result_at_true_jacobian popt cov (length ps0) Hs).
        exists r, J, G, g, ji. repeat (split; [assumption|]). exact H8.
    Qed.
  End Unconditional.
End TapeLM.

(** ** the headline statement, written out *)
Theorem lm_jacobian_is_true_jacobian (e : expr R) (xs ps : list R) :
  covered e -> smooth_on e xs ps ->
  lm_jac0 RO e xs ps = Some (model_jacobian e xs ps) /\
  lm_jac1 RO e xs ps = Some (model_jacobian e xs ps) /\
  length (model_jacobian e xs ps) = length xs /\
  forall i, (i < length xs)%nat ->
    length (nth i (model_jacobian e xs ps) []) = length ps /\
    forall j, (j < length ps)%nat ->
      is_derive (fun t => den e [[nth i xs 0]] (upd ps j t) []) (nth j ps 0)
                (nth j (nth i (model_jacobian e xs ps) []) 0) /\
      forall y : R, is_derive (fun t => y - den e [[nth i xs 0]] (upd ps j t) []) (nth j ps 0)
                              (- nth j (nth i (model_jacobian e xs ps) []) 0).
Proof.
  intros Hc Hs. destruct (lm_jac0_true e xs Hc ps Hs) as [E0 [LJ HJ]].
  split; [exact E0|]. split; [exact (lm_jac1_true e xs Hc ps Hs)|]. split; [exact LJ|].
  intros i Hi. destruct (HJ i Hi) as [Lr Hr]. split; [exact Lr|].
  intros j Hj. split; [exact (Hr j Hj)|].
  intros y. eapply is_derive_val.
  - apply (@is_derive_minus _ _ (fun _ => y) (fun t => den e [[nth i xs 0]] (upd ps j t) []) (nth j ps 0) 0
             (nth j (nth i (model_jacobian e xs ps) []) 0)).
    + apply @is_derive_const.
    + exact (Hr j Hj).
  - change (minus 0 ?l) with (0 - l). ring.
Qed.

(** ** Example: the two-parameter exponential model  f((a, b), x) = a * exp(b * x) *)
Definition exp_model : expr R := EMul (EPar 0) (EFn UExp (EMulC (EPar 1) (CDat 0 0))).

Lemma exp_model_den x ps : den exp_model [[x]] ps [] = nth 0 ps 0 * exp (nth 1 ps 0 * x).
Proof. reflexivity. Qed.

Lemma exp_model_covered : covered exp_model.
Proof. cbn. auto. Qed.

Lemma exp_model_smooth xs ps : length ps = 2%nat -> smooth_on exp_model xs ps.
Proof.
  intros L x _. cbn [exp_model smooth_at usmooth]. rewrite L. repeat split; try lia. cbn. discriminate.
Qed.

(** its true Jacobian: row of the point x = (exp(b x), a x exp(b x)) *)
Lemma exp_model_jacobian xs a b :
  model_jacobian exp_model xs [a; b] = map (fun x => [exp (b * x); a * (x * exp (b * x))]) xs.
Proof.
  unfold model_jacobian. apply map_ext. intros x. cbn [length seq map].
  f_equal; [|f_equal]; apply is_derive_unique.
  - eapply is_derive_ext; [intros t; symmetry; apply exp_model_den|]. cbn [upd nth]. auto_derive; [exact I|ring].
  - eapply is_derive_ext; [intros t; symmetry; apply exp_model_den|]. cbn [upd nth]. auto_derive; [exact I|ring].
Qed.

Lemma rss3 (a b c : R) : dot_raw RO [a; b; c] [a; b; c] = a * a + b * b + c * c.
Proof. rewrite dot_raw_rsum by reflexivity. cbn [length rsum nth]. ring. Qed.

Lemma exp_model_residuals a b :
  model_residuals exp_model [0; 1; 2] [1; 2; 4] [a; b]
  = [1 - a * exp (b * 0); 2 - a * exp (b * 1); 4 - a * exp (b * 2)].
Proof. reflexivity. Qed.

(** data (0, 1), (1, 2), (2, 4), start (a, b) = (1, 0) (rss 10): on the sublevel set a <> 0 (at a = 0 the rss is 21),
    so no column of the Jacobian vanishes there - although the column of b does vanish at a = 0 *)
Lemma exp_example_cols ps :
  length ps = 2%nat ->
  dot_raw RO (model_residuals exp_model [0; 1; 2] [1; 2; 4] ps) (model_residuals exp_model [0; 1; 2] [1; 2; 4] ps)
  <= dot_raw RO (model_residuals exp_model [0; 1; 2] [1; 2; 4] [1; 0]) (model_residuals exp_model [0; 1; 2] [1; 2; 4] [1; 0]) ->
  jacobian_cols_nonzero exp_model [0; 1; 2] ps.
Proof.
  destruct ps as [|a [|b [|? ?]]]; try discriminate. intros _.
  rewrite !exp_model_residuals, !rss3.
  rewrite ?Rmult_0_r, ?Rmult_0_l, ?exp_0, ?Rmult_1_r. intros Hle.
  assert (Ha : a <> 0).
  { intros ->. rewrite !Rmult_0_l in Hle. lra. }
  pose proof (exp_model_jacobian [0; 1; 2] a b) as HJ.
  intros j Hj. exists 1%nat. split; [cbn; lia|].
  rewrite <- (model_jacobian_entry exp_model [0; 1; 2] [a; b] 1 j) by (cbn [length] in *; lia).
  rewrite HJ. cbn [map nth]. destruct j as [|[|j]]; cbn [nth length] in *; try lia.
  - pose proof (exp_pos (b * 1)). lra.
  - pose proof (exp_pos (b * 1)). rewrite Rmult_1_l. apply Rmult_integral_contrapositive_currified; lra.
Qed.

Lemma exp_example_col_vanishes : ~ jacobian_cols_nonzero exp_model [0; 1; 2] [0; 0].
Proof.
  intros H. destruct (H 1%nat ltac:(cbn; lia)) as (i & Hi & Hne). apply Hne.
  rewrite <- (model_jacobian_entry exp_model [0; 1; 2] [0; 0] i 1) by (cbn [length] in *; lia).
  rewrite exp_model_jacobian. cbn [length] in Hi. destruct i as [|[|[|i]]]; [| | |lia]; cbn [map nth]; ring.
Qed.

Example lm_exponential_example (h : lm_hp (T:=R)) maxsteps (popt cov : list R) :
  0 < l_tau h ->
  lm RO (lm_resid RO exp_model [0; 1; 2] [1; 2; 4]) (lm_jac0 RO exp_model [0; 1; 2]) (lm_jac1 RO exp_model [0; 1; 2])
     lm_solve lm_inv h maxsteps [1; 0] = Some (popt, cov) ->
  exists a b, popt = [a; b] /\
    dot_raw RO (model_residuals exp_model [0; 1; 2] [1; 2; 4] popt) (model_residuals exp_model [0; 1; 2] [1; 2; 4] popt) <= 10 /\
    model_jacobian exp_model [0; 1; 2] popt
      = [[exp (b * 0); a * (0 * exp (b * 0))]; [exp (b * 1); a * (1 * exp (b * 1))]; [exp (b * 2); a * (2 * exp (b * 2))]] /\
    exists G g ji,
      normal_eqs RO (model_jacobian exp_model [0; 1; 2] popt) 2 (model_residuals exp_model [0; 1; 2] [1; 2; 4] popt) = Some (G, g) /\
      lm_inv G = Some ji /\
      cov = map (Rmult (dot_raw RO (model_residuals exp_model [0; 1; 2] [1; 2; 4] popt)
                                   (model_residuals exp_model [0; 1; 2] [1; 2; 4] popt) / IZR (Z.of_nat (3 - 2)))) ji.
Proof.
  intros Htau H.
  destruct (lm_tape_unconditional exp_model [0; 1; 2] [1; 2; 4] exp_model_covered h [1; 0] Htau
              (fun ps L _ => exp_model_smooth [0; 1; 2] ps L) (fun ps L => exp_example_cols ps L) maxsteps popt cov H)
    as (Hle & G & g & ji & L & _ & Hn & _ & Hi & _ & Hcov & _).
  destruct popt as [|a [|b [|? ?]]]; try discriminate L. exists a, b. split; [reflexivity|].
  split; [|split; [apply exp_model_jacobian|]].
  - rewrite (exp_model_residuals 1 0), (rss3 (1 - 1 * exp (0 * 0))) in Hle.
    rewrite !Rmult_0_l, exp_0, !Rmult_1_r in Hle.
    replace ((1 - 1) * (1 - 1) + (2 - 1) * (2 - 1) + (4 - 1) * (4 - 1)) with 10 in Hle by ring.
    exact Hle.
  - exists G, g, ji. split; [exact Hn|]. split; [exact Hi|exact Hcov].
Qed.
