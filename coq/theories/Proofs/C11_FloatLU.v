(** Proofs for C11 (extension), floating point, part 7: backward error of the LU factorisation with partial pivoting of
    [linalg/decomposition/lu.rs] on binary64 (Higham, Accuracy and Stability, Thm 9.3, applied to the row-permuted input):
        | P A - L U |_ij  <=  ((1+2^-53)^n - 1) (|L| |U|)_ij        (P the returned pivot vector).
    The sweep of [Model/LU.v] is the column-oriented (left-looking) Doolittle elimination
        u_ij = fl( a'_ij - s_ij )            (i <= j),        l_ij = fl( fl( a'_ij - s_ij ) / u_jj )     (i > j),
        s_ij = the plain left-to-right loop  s = 0; for k in 0..min(i,j) { s += l_ik * u_kj }   (NOT the unrolled dot),
    with a' = A with its rows permuted by the pivot vector.  Part 1 proves this recurrence for the exchange-free
    sweep (the returned vector is the identity), part 1b for EVERY run (rows of the array and entries of the vector are
    exchanged together; rows above the current column are frozen; a row below it is updated with the same operands in
    the same order wherever it sits), both on every carrier.  Part 2 is the accumulation loop on binary64, part 3 the
    entries, then the theorems.  Hypotheses: finite factors, nonzero pivots (a zero pivot skips the scaling; with
    partial pivoting the column is then zero: not treated), no underflowing product or quotient. *)
From Coq Require Import List Arith Bool ZArith Reals Lra Lia Floats Permutation.
From Flocq Require Import Core Relative Plus_error BinarySingleNaN PrimFloat.
From Compute Require Import Base.Ops Base.ListMat Model.Reduce Model.MatMul Model.Subst Model.LU Spec.Vops Spec.Factor
  Proofs.C04Red Proofs.C04Err Proofs.C04ErrF Proofs.C04ErrDot Proofs.C04ErrNP Proofs.C05 Proofs.LinAlgBase Proofs.C11_Subst
  Proofs.C11_LU Proofs.C11_Det Proofs.C11_FloatBase Proofs.C11_FloatSubst.
Import ListNotations.
Local Open Scope R_scope.
Local Existing Instance Flocq.IEEE754.PrimFloat.Hprec.
Local Existing Instance Flocq.IEEE754.PrimFloat.Hmax.

(** ** Part 1: the sweep without exchanges, on every carrier *)
Lemma fold_left_ext_in {A B} (f g : A -> B -> A) (l : list B) :
  (forall s x, In x l -> f s x = g s x) -> forall s, fold_left f l s = fold_left g l s.
Proof.
  induction l as [|x l IH]; intros H s; cbn [fold_left]; [reflexivity|].
  rewrite (H s x (or_introl eq_refl)). apply IH. intros s' y Hy. apply H. right. exact Hy.
Qed.

Section NoSwap.
  Context {T : Type} (O : Ops T).
  Local Notation z := (zero O).
  Local Notation E := (ent z).

  (** the loop [s = 0; for k in 0..m { s += x k * y k }] *)
  Definition lu_acc (x y : nat -> T) (m : nat) : T :=
    fold_left (fun s k => add O s (mul O (x k) (y k))) (seq 0 m) z.

  Lemma lu_acc_ext x y x' y' m :
    (forall k, (k < m)%nat -> x k = x' k) -> (forall k, (k < m)%nat -> y k = y' k) -> lu_acc x y m = lu_acc x' y' m.
  Proof.
    intros Hx Hy. unfold lu_acc. apply fold_left_ext_in. intros s k Hk. apply in_seq in Hk.
    rewrite Hx, Hy by lia. reflexivity.
  Qed.

  Lemma gcol_update_spec (M : list (list T)) j n :
    length (col_update O M j n) = n /\
    forall i, (i < n)%nat ->
      nth i (col_update O M j n) z =
      sub O (E M i j) (lu_acc (fun k => E M i k) (fun k => nth k (col_update O M j n) z) (Nat.min i j)).
  Proof.
    set (g := fun (i : nat) (v : list T) => col_entry O M j i v).
    change (col_update O M j n) with (build g n).
    split; [apply build_length|].
    intros i Hi. rewrite (build_nth z g n i Hi). unfold g at 1, col_entry. unfold ent. f_equal.
    unfold lu_acc. apply fold_left_ext_in. intros s k Hk. apply in_seq in Hk. f_equal. f_equal.
    rewrite <- (build_firstn g n i) by lia. apply nth_firstn_lt. lia.
  Qed.

  Lemma gset_col_wf (M : list (list T)) j (v : list T) n : wf M n -> length v = n -> wf (set_col M j v) n.
  Proof.
    intros [Hl Hr] Hv. unfold set_col. split.
    - rewrite C05.map2_length. lia.
    - intros i Hi. rewrite (nth_map2 _ M v i [] [] z) by lia. rewrite upd_length. auto.
  Qed.

  Lemma gent_set_col (M : list (list T)) j (v : list T) n i c :
    wf M n -> length v = n -> (i < n)%nat -> (j < n)%nat ->
    E (set_col M j v) i c = if (c =? j)%nat then nth i v z else E M i c.
  Proof.
    intros [Hl Hr] Hv Hi Hj. unfold set_col, ent.
    rewrite (nth_map2 _ M v i [] [] z) by lia. rewrite nth_upd, Hr by auto.
    apply Nat.ltb_lt in Hj. rewrite Hj, andb_true_r. reflexivity.
  Qed.

  Lemma gscale_col_wf (M : list (list T)) j n : wf M n -> wf (scale_col O M j) n.
  Proof.
    intros [Hl Hr]. unfold scale_col. destruct (eqb O _ _); [split; auto|].
    split; [rewrite mapi_length; auto|].
    intros i Hi. rewrite (nth_mapi _ M i [] []) by lia.
    destruct (j <? i)%nat; [rewrite upd_length|]; auto.
  Qed.

  Lemma gent_scale_col (M : list (list T)) j n i c :
    wf M n -> (i < n)%nat -> (j < n)%nat ->
    E (scale_col O M j) i c =
    if eqb O (E M j j) z then E M i c
    else if (j <? i)%nat && (c =? j)%nat then div O (E M i j) (E M j j) else E M i c.
  Proof.
    intros [Hl Hr] Hi Hj. unfold scale_col.
    destruct (eqb O (E M j j) z); [reflexivity|].
    unfold ent at 1. rewrite (nth_mapi _ M i [] []) by lia.
    destruct (j <? i)%nat; cbn [andb]; [|reflexivity].
    rewrite nth_upd, Hr by auto. apply Nat.ltb_lt in Hj. rewrite Hj, andb_true_r. reflexivity.
  Qed.

  Lemma gfind_pivot_range (v : list T) j n : (j < n)%nat -> (j <= find_pivot O v j n < n)%nat.
  Proof.
    intros Hj. unfold find_pivot.
    assert (H : forall m, (j <= fold_left (fun p i => if ltb O (abs O (nth p v z)) (abs O (nth i v z)) then i else p)
                                          (seq (S j) m) j <= j + m)%nat).
    { induction m as [|m IH]; [cbn; lia|]. rewrite seq_S, fold_left_app. cbn [fold_left].
      destruct (ltb O _ _); lia. }
    specialize (H (n - S j)%nat). lia.
  Qed.

  (** one step without exchange *)
  Definition ns_step (n : nat) (M : list (list T)) (j : nat) : list (list T) :=
    scale_col O (set_col M j (col_update O M j n)) j.

  (** the pivot vector: length, and positions below the current column are frozen *)
  Lemma lu_step_piv n M piv j :
    (j < n)%nat -> length piv = n ->
    length (snd (lu_step O n (M, piv) j)) = n /\
    forall i, (i < j)%nat -> nth i (snd (lu_step O n (M, piv) j)) 0%nat = nth i piv 0%nat.
  Proof.
    intros Hj Hl. unfold lu_step.
    pose proof (gfind_pivot_range (col_update O M j n) j n Hj) as Hp.
    destruct (Nat.eqb_spec (find_pivot O (col_update O M j n) j n) j) as [Hpj|Hpj]; cbn [snd]; [auto|].
    split; [rewrite swap_length; exact Hl|].
    intros i Hi. rewrite nth_swap by lia. unfold transp.
    destruct (Nat.eqb_spec i (find_pivot O (col_update O M j n) j n)); [lia|].
    destruct (Nat.eqb_spec i j); [lia|]. reflexivity.
  Qed.

  Lemma lu_fold_piv n : forall (js : list nat) (st : list (list T) * list nat) (k : nat),
    (forall j, In j js -> (k <= j < n)%nat) -> length (snd st) = n ->
    length (snd (fold_left (lu_step O n) js st)) = n /\
    forall i, (i < k)%nat -> nth i (snd (fold_left (lu_step O n) js st)) 0%nat = nth i (snd st) 0%nat.
  Proof.
    induction js as [|j js IH]; intros [M piv] k Hjs Hl; cbn [fold_left]; [auto|].
    cbn [snd] in Hl. assert (Hj : (k <= j < n)%nat) by (apply Hjs; left; reflexivity).
    destruct (lu_step_piv n M piv j ltac:(lia) Hl) as (Hl' & Hfr).
    destruct (IH (lu_step O n (M, piv) j) k) as (Hl2 & Hfr2).
    - intros j' Hj'. apply Hjs. right. exact Hj'.
    - exact Hl'.
    - split; [exact Hl2|]. intros i Hi. rewrite Hfr2 by exact Hi. cbn [snd]. apply Hfr. lia.
  Qed.

  (** an identity pivot vector at the end means no exchange at any step *)
  Lemma lu_rows_no_swap n (M0 M' : list (list T)) :
    lu_rows O M0 n = (M', seq 0 n) -> M' = fold_left (ns_step n) (seq 0 n) M0.
  Proof.
    unfold lu_rows. intros H.
    assert (Hk : forall k, (k <= n)%nat ->
              fold_left (lu_step O n) (seq 0 k) (M0, seq 0 n) = (fold_left (ns_step n) (seq 0 k) M0, seq 0 n)).
    { induction k as [|k IH]; intros Hkn; [reflexivity|].
      rewrite seq_S, !fold_left_app, IH by lia. cbn [Nat.add fold_left].
      set (Mk := fold_left (ns_step n) (seq 0 k) M0) in *.
      (* the remaining steps freeze position k *)
      assert (Hsplit : seq 0 n = seq 0 (S k) ++ seq (S k) (n - S k)).
      { rewrite <- seq_app. f_equal. lia. }
      rewrite Hsplit in H at 1. rewrite fold_left_app, seq_S, fold_left_app, IH in H by lia.
      cbn [Nat.add fold_left] in H. fold Mk in H.
      destruct (lu_step_piv n Mk (seq 0 n) k ltac:(lia) (seq_length _ _)) as (Hl1 & _).
      destruct (lu_fold_piv n (seq (S k) (n - S k)) (lu_step O n (Mk, seq 0 n) k) (S k)) as (_ & Hfr).
      { intros j Hj. apply in_seq in Hj. lia. }
      { exact Hl1. }
      specialize (Hfr k ltac:(lia)). rewrite H in Hfr. cbn [snd] in Hfr.
      rewrite seq_nth in Hfr by lia. cbn [Nat.add] in Hfr.
      unfold lu_step in Hfr |- *.
      pose proof (gfind_pivot_range (col_update O Mk k n) k n ltac:(lia)) as Hp.
      destruct (Nat.eqb_spec (find_pivot O (col_update O Mk k n) k n) k) as [Hpk|Hpk].
      - reflexivity.
      - exfalso. cbn [snd] in Hfr. rewrite nth_swap in Hfr by (rewrite seq_length; lia).
        unfold transp in Hfr. rewrite Nat.eqb_refl in Hfr.
        destruct (Nat.eqb_spec k (find_pivot O (col_update O Mk k n) k n)); [lia|].
        rewrite seq_nth in Hfr by lia. cbn [Nat.add] in Hfr. lia. }
    rewrite (Hk n (le_n n)) in H. inversion H. reflexivity.
  Qed.

  (** the invariant of the sweep without exchanges: columns [c >= j] untouched, columns [c < j] final *)
  Definition ns_inv (n : nat) (M0 M : list (list T)) (j : nat) : Prop :=
    wf M n /\
    (forall i c, (i < n)%nat -> (j <= c)%nat -> (c < n)%nat -> E M i c = E M0 i c) /\
    (forall i c, (i < n)%nat -> (c < j)%nat -> (c < n)%nat -> eqb O (E M c c) z = false ->
       let s := sub O (E M0 i c) (lu_acc (fun k => E M i k) (fun k => E M k c) (Nat.min i c)) in
       E M i c = if (c <? i)%nat then div O s (E M c c) else s) /\
    (forall c, (c < j)%nat -> (c < n)%nat ->
       E M c c = sub O (E M0 c c) (lu_acc (fun k => E M c k) (fun k => E M k c) c)).

  Lemma ns_step_inv n M0 M j :
    ns_inv n M0 M j -> (j < n)%nat -> ns_inv n M0 (ns_step n M j) (S j) /\
    (forall i c, (i < n)%nat -> (c < j)%nat -> E (ns_step n M j) i c = E M i c).
  Proof.
    intros (Hw & Hun & Hfi & Hdg) Hj. unfold ns_step.
    destruct (gcol_update_spec M j n) as (Hvl & Hv).
    set (v := col_update O M j n) in *.
    pose proof (gset_col_wf M j v n Hw Hvl) as Hw1.
    set (M1 := set_col M j v) in *.
    assert (HM1 : forall i c, (i < n)%nat -> E M1 i c = if (c =? j)%nat then nth i v z else E M i c).
    { intros i c Hi. apply (gent_set_col M j v n i c); assumption. }
    pose proof (gscale_col_wf M1 j n Hw1) as Hw2.
    set (M2 := scale_col O M1 j) in *.
    assert (HM2 : forall i c, (i < n)%nat ->
              E M2 i c = if eqb O (E M1 j j) z then E M1 i c
                         else if (j <? i)%nat && (c =? j)%nat then div O (E M1 i j) (E M1 j j) else E M1 i c).
    { intros i c Hi. apply (gent_scale_col M1 j n i c); assumption. }
    (* columns other than j are unchanged *)
    assert (Hother : forall i c, (i < n)%nat -> c <> j -> E M2 i c = E M i c).
    { intros i c Hi Hc. rewrite HM2 by exact Hi. apply Nat.eqb_neq in Hc. rewrite Hc, andb_false_r.
      destruct (eqb O (E M1 j j) z); rewrite HM1 by exact Hi; rewrite Hc; reflexivity. }
    (* rows i <= j of column j hold v *)
    assert (Hup : forall i, (i <= j)%nat -> E M2 i j = nth i v z).
    { intros i Hi. rewrite HM2 by lia. destruct (Nat.ltb_spec j i); [lia|]. cbn [andb].
      destruct (eqb O (E M1 j j) z); rewrite HM1 by lia; rewrite Nat.eqb_refl; reflexivity. }
    (* the accumulations of column j read finished data only *)
    assert (Hacc : forall i, (i < n)%nat ->
              lu_acc (fun k => E M i k) (fun k => nth k v z) (Nat.min i j)
              = lu_acc (fun k => E M2 i k) (fun k => E M2 k j) (Nat.min i j)).
    { intros i Hi. apply lu_acc_ext; intros k Hk.
      - symmetry. apply Hother; lia.
      - symmetry. apply Hup. lia. }
    split; [|intros i c Hi Hc; apply Hother; lia].
    split; [exact Hw2|]. split; [|split].
    - intros i c Hi Hjc Hc. rewrite Hother by lia. apply Hun; lia.
    - intros i c Hi Hcj Hc Hnz. cbv zeta.
      destruct (Nat.eq_dec c j) as [->|Hne].
      + (* the new column *)
        rewrite (Hup j (le_n j)) in Hnz.
        assert (Hd1 : E M1 j j = nth j v z) by (rewrite HM1 by lia; rewrite Nat.eqb_refl; reflexivity).
        rewrite <- Hacc by exact Hi. rewrite <- (Hun i j Hi (le_n j) Hj). rewrite <- (Hv i Hi).
        rewrite HM2 by exact Hi. rewrite Hd1, Hnz, Nat.eqb_refl, andb_true_r.
        rewrite (HM1 i j Hi), Nat.eqb_refl. rewrite (Hup j (le_n j)).
        destruct (j <? i)%nat; reflexivity.
      + (* an old column *)
        assert (Hc' : (c < j)%nat) by lia.
        rewrite !Hother by lia. rewrite !Hother in Hnz by lia.
        rewrite (Hfi i c Hi Hc' Hc Hnz). cbv zeta.
        rewrite (lu_acc_ext (fun k => E M2 i k) (fun k => E M2 k c) (fun k => E M i k) (fun k => E M k c)); [reflexivity| |];
          intros k Hk; apply Hother; lia.
    - intros c Hcj Hc. destruct (Nat.eq_dec c j) as [->|Hne].
      + rewrite (Hup j (le_n j)), (Hv j Hj), (Hun j j Hj (le_n j) Hj), Nat.min_id.
        pose proof (Hacc j Hj) as Ha. rewrite Nat.min_id in Ha. rewrite Ha. reflexivity.
      + assert (Hc' : (c < j)%nat) by lia. rewrite !Hother by lia. rewrite (Hdg c Hc' Hc). f_equal.
        apply lu_acc_ext; intros k Hk; symmetry; apply Hother; lia.
  Qed.

  Lemma ns_fold_inv n M0 : wf M0 n -> forall k, (k <= n)%nat -> ns_inv n M0 (fold_left (ns_step n) (seq 0 k) M0) k.
  Proof.
    intros Hw. induction k as [|k IH]; intros Hk.
    - cbn [seq fold_left]. split; [exact Hw|]. split; [reflexivity|]. split; intros; lia.
    - rewrite seq_S, fold_left_app. cbn [Nat.add fold_left]. apply ns_step_inv; [apply IH; lia|lia].
  Qed.

  (** the recurrence satisfied by the factors when no exchange happened, flat form *)
  Lemma lu_no_swap_recurrence (a m : list T) (n : nat) :
    lu O a = Some (m, seq 0 n) -> (n * n)%nat = length a ->
    length m = (n * n)%nat /\
    forall i j, (i < n)%nat -> (j < n)%nat -> eqb O (nth (j * n + j) m z) z = false ->
      let s := sub O (nth (i * n + j) a z)
                     (lu_acc (fun k => nth (i * n + k) m z) (fun k => nth (k * n + j) m z) (Nat.min i j)) in
      nth (i * n + j) m z = if (j <? i)%nat then div O s (nth (j * n + j) m z) else s.
  Proof.
    intros H Hn. unfold lu in H. rewrite <- Hn, is_square_sq in H. cbn [bind] in H.
    destruct (lu_rows O (unflatten a n n) n) as [M piv] eqn:EL. inversion H; subst m piv; clear H.
    apply lu_rows_no_swap in EL.
    pose proof (ns_fold_inv n (unflatten a n n) (wf_unflatten a n Hn) n (le_n n)) as (Hw & _ & Hfi & _).
    rewrite <- EL in Hw, Hfi.
    split; [apply (wf_flatten_length M n Hw)|].
    assert (Hnth : forall i j, (i < n)%nat -> (j < n)%nat -> nth (i * n + j) (flatten M) z = E M i j).
    { intros i j Hi Hj. apply (nth_flatten z M n i j Hw Hi Hj). }
    intros i j Hi Hj Hnz. cbv zeta. rewrite !Hnth in * by assumption.
    rewrite (Hfi i j Hi Hj Hj Hnz). cbv zeta. rewrite ent_unflatten by assumption.
    rewrite (lu_acc_ext (fun k => nth (i * n + k) (flatten M) z) (fun k => nth (k * n + j) (flatten M) z)
                        (fun k => E M i k) (fun k => E M k j)); [reflexivity| |]; intros k Hk; apply Hnth; lia.
  Qed.
End NoSwap.

(** ** Part 1b: the sweep WITH exchanges, on every carrier.  The rows of the array and the entries of the pivot vector
    are exchanged together, rows above the current column are never moved again, and a row below it is updated with the
    same operands in the same order wherever it sits: the factors satisfy the recurrence of the exchange-free sweep
    applied to the row-permuted input [a[piv[i]*n + j]] (bit for bit, on any carrier). *)
Section Pivoted.
  Context {T : Type} (O : Ops T).
  Local Notation z := (zero O).
  Local Notation E := (ent z).

  (** the invariant before column [j], with the current pivot vector *)
  Definition pv_inv (n : nat) (M0 M : list (list T)) (piv : list nat) (j : nat) : Prop :=
    wf M n /\ is_perm piv n /\
    (forall i c, (i < n)%nat -> (j <= c)%nat -> (c < n)%nat -> E M i c = E M0 (nth i piv 0%nat) c) /\
    (forall i c, (i < n)%nat -> (c < j)%nat -> (c < n)%nat -> eqb O (E M c c) z = false ->
       let s := sub O (E M0 (nth i piv 0%nat) c) (lu_acc O (fun k => E M i k) (fun k => E M k c) (Nat.min i c)) in
       E M i c = if (c <? i)%nat then div O s (E M c c) else s).

  Lemma transp_low p q i : (i < p)%nat -> (i < q)%nat -> transp p q i = i.
  Proof. intros Hp Hq. apply transp_fix; lia. Qed.
  Lemma transp_ge p q i j : (j <= p)%nat -> (j <= q)%nat -> (j <= i)%nat -> (j <= transp p q i)%nat.
  Proof. intros Hp Hq Hi. unfold transp. destruct (i =? p)%nat; [lia|]. destruct (i =? q)%nat; lia. Qed.

  Lemma pv_step_inv n M0 M piv j :
    pv_inv n M0 M piv j -> (j < n)%nat ->
    let st := lu_step O n (M, piv) j in pv_inv n M0 (fst st) (snd st) (S j).
  Proof.
    intros (Hw & Hperm & Hun & Hfi) Hj. cbv zeta. unfold lu_step.
    destruct (gcol_update_spec O M j n) as (Hvl & Hv).
    set (v := col_update O M j n) in *.
    pose proof (gset_col_wf O M j v n Hw Hvl) as Hw1.
    set (M1 := set_col M j v) in *.
    assert (HM1 : forall i c, (i < n)%nat -> E M1 i c = if (c =? j)%nat then nth i v z else E M i c).
    { intros i c Hi. apply (gent_set_col O M j v n i c); assumption. }
    pose proof (gfind_pivot_range O v j n Hj) as Hp.
    set (p := find_pivot O v j n) in *.
    pose proof (is_perm_length _ _ Hperm) as Hpl.
    (* the state after the (possible) exchange, described through the transposition sigma *)
    set (st2 := if (p =? j)%nat then (M1, piv) else (swap [] M1 p j, swap 0%nat piv p j)).
    assert (H2 : wf (fst st2) n /\ is_perm (snd st2) n /\
                 (forall i c, (i < n)%nat -> E (fst st2) i c = E M1 (transp p j i) c) /\
                 (forall i, (i < n)%nat -> nth i (snd st2) 0%nat = nth (transp p j i) piv 0%nat)).
    { unfold st2. destruct (Nat.eqb_spec p j) as [Hpj|Hpj]; cbn [fst snd].
      - rewrite Hpj. split; [exact Hw1|]. split; [exact Hperm|].
        split; intros; rewrite transp_same; reflexivity.
      - split; [apply wf_swap; auto; lia|]. split; [apply is_perm_swap; auto; lia|]. split.
        + intros i c Hi. apply (ent_swap z M1 n p j i c Hw1); lia.
        + intros i Hi. apply nth_swap; lia. }
    destruct st2 as [M2 piv2]. cbn [fst snd] in H2. destruct H2 as (Hw2 & Hperm2 & HM2 & Hpv2).
    cbn [fst snd].
    pose proof (gscale_col_wf O M2 j n Hw2) as Hw3.
    set (M3 := scale_col O M2 j) in *.
    assert (HM3 : forall i c, (i < n)%nat ->
              E M3 i c = if eqb O (E M2 j j) z then E M2 i c
                         else if (j <? i)%nat && (c =? j)%nat then div O (E M2 i j) (E M2 j j) else E M2 i c).
    { intros i c Hi. apply (gent_scale_col O M2 j n i c); assumption. }
    assert (Hsl : forall i, (i < j)%nat -> transp p j i = i) by (intros i Hi; apply transp_low; lia).
    assert (Hsg : forall i, (j <= i)%nat -> (j <= transp p j i)%nat) by (intros i Hi; apply transp_ge; lia).
    assert (Hsn : forall i, (i < n)%nat -> (transp p j i < n)%nat) by (intros i Hi; apply transp_lt; lia).
    (* columns other than j after the three operations *)
    assert (Hother : forall i c, (i < n)%nat -> c <> j -> E M3 i c = E M (transp p j i) c).
    { intros i c Hi Hc. rewrite HM3 by exact Hi. apply Nat.eqb_neq in Hc. rewrite Hc, andb_false_r.
      destruct (eqb O (E M2 j j) z); rewrite HM2 by exact Hi; rewrite HM1 by (apply Hsn; exact Hi); rewrite Hc; reflexivity. }
    assert (Hup : forall i, (i <= j)%nat -> E M3 i j = nth (transp p j i) v z).
    { intros i Hi. rewrite HM3 by lia. destruct (Nat.ltb_spec j i); [lia|]. cbn [andb].
      destruct (eqb O (E M2 j j) z); rewrite HM2 by lia; rewrite HM1 by (apply Hsn; lia); rewrite Nat.eqb_refl; reflexivity. }
    (* rows above the diagonal are not moved *)
    assert (Hmin : forall i c, (c <= j)%nat -> Nat.min (transp p j i) c = Nat.min i c).
    { intros i c Hc. destruct (Nat.lt_ge_cases i j) as [Hi|Hi]; [rewrite Hsl by exact Hi; reflexivity|].
      specialize (Hsg i Hi). lia. }
    assert (Hlt : forall i c, (c < j)%nat -> (c <? transp p j i)%nat = (c <? i)%nat).
    { intros i c Hc. destruct (Nat.lt_ge_cases i j) as [Hi|Hi]; [rewrite Hsl by exact Hi; reflexivity|].
      specialize (Hsg i Hi). destruct (Nat.ltb_spec c (transp p j i)), (Nat.ltb_spec c i); try reflexivity; lia. }
    split; [exact Hw3|]. split; [exact Hperm2|]. split.
    - intros i c Hi Hjc Hc. rewrite Hother by lia. rewrite Hpv2 by exact Hi. apply Hun; [apply Hsn; exact Hi|lia|exact Hc].
    - intros i c Hi Hcj Hc Hnz. cbv zeta. rewrite Hpv2 by exact Hi.
      destruct (Nat.eq_dec c j) as [->|Hne].
      + (* the new column *)
        assert (Hjj : E M3 j j = E M2 j j).
        { rewrite HM3 by exact Hj. rewrite Nat.ltb_irrefl. cbn [andb]. destruct (eqb O (E M2 j j) z); reflexivity. }
        rewrite Hjj in Hnz |- *.
        assert (Hacc : lu_acc O (fun k => E M3 i k) (fun k => E M3 k j) (Nat.min i j)
                       = lu_acc O (fun k => E M (transp p j i) k) (fun k => nth k v z) (Nat.min (transp p j i) j)).
        { rewrite Hmin by lia. apply lu_acc_ext; intros k Hk.
          - apply Hother; lia.
          - rewrite Hup by lia. rewrite Hsl by lia. reflexivity. }
        rewrite Hacc. rewrite <- (Hun (transp p j i) j (Hsn i Hi) (le_n j) Hj). rewrite <- (Hv _ (Hsn i Hi)).
        rewrite HM3 by exact Hi. rewrite Hnz, Nat.eqb_refl, andb_true_r.
        rewrite (HM2 i j Hi), (HM1 _ j (Hsn i Hi)), Nat.eqb_refl.
        destruct (j <? i)%nat; reflexivity.
      + (* an old column *)
        assert (Hc' : (c < j)%nat) by lia.
        rewrite (Hother i c Hi Hne), (Hother c c Hc Hne), (Hsl c Hc').
        rewrite (Hother c c Hc Hne), (Hsl c Hc') in Hnz.
        rewrite (Hfi (transp p j i) c (Hsn i Hi) Hc' Hc Hnz). cbv zeta.
        rewrite Hlt, Hmin by lia.
        rewrite (lu_acc_ext O (fun k => E M3 i k) (fun k => E M3 k c) (fun k => E M (transp p j i) k) (fun k => E M k c)); [reflexivity| |].
        * intros k Hk. apply Hother; lia.
        * intros k Hk. rewrite Hother by lia. rewrite Hsl by lia. reflexivity.
  Qed.

  Lemma pv_fold_inv n M0 : wf M0 n -> forall k, (k <= n)%nat ->
    let st := fold_left (lu_step O n) (seq 0 k) (M0, seq 0 n) in pv_inv n M0 (fst st) (snd st) k.
  Proof.
    intros Hw. induction k as [|k IH]; intros Hk; cbv zeta.
    - cbn [seq fold_left fst snd]. split; [exact Hw|]. split; [apply is_perm_id|]. split.
      + intros i c Hi _ Hc. rewrite seq_nth by exact Hi. reflexivity.
      + intros; lia.
    - rewrite seq_S, fold_left_app. cbn [Nat.add fold_left].
      specialize (IH ltac:(lia)). cbv zeta in IH.
      destruct (fold_left (lu_step O n) (seq 0 k) (M0, seq 0 n)) as [Mk pk]. cbn [fst snd] in IH.
      apply (pv_step_inv n M0 Mk pk k IH). lia.
  Qed.

  Lemma lu_pivoted_recurrence (a m : list T) (piv : list nat) (n : nat) :
    lu O a = Some (m, piv) -> (n * n)%nat = length a ->
    length m = (n * n)%nat /\ is_perm piv n /\
    forall i j, (i < n)%nat -> (j < n)%nat -> eqb O (nth (j * n + j) m z) z = false ->
      let s := sub O (nth (nth i piv 0%nat * n + j) a z)
                     (lu_acc O (fun k => nth (i * n + k) m z) (fun k => nth (k * n + j) m z) (Nat.min i j)) in
      nth (i * n + j) m z = if (j <? i)%nat then div O s (nth (j * n + j) m z) else s.
  Proof.
    intros H Hn. unfold lu in H. rewrite <- Hn, is_square_sq in H. cbn [bind] in H.
    pose proof (pv_fold_inv n (unflatten a n n) (wf_unflatten a n Hn) n (le_n n)) as Hinv. cbv zeta in Hinv.
    unfold lu_rows in H.
    destruct (fold_left (lu_step O n) (seq 0 n) (unflatten a n n, seq 0 n)) as [M pv] eqn:EL.
    inversion H; subst m piv; clear H. cbn [fst snd] in Hinv. destruct Hinv as (Hw & Hperm & _ & Hfi).
    split; [apply (wf_flatten_length M n Hw)|]. split; [exact Hperm|].
    assert (Hnth : forall i j, (i < n)%nat -> (j < n)%nat -> nth (i * n + j) (flatten M) z = E M i j).
    { intros i j Hi Hj. apply (nth_flatten z M n i j Hw Hi Hj). }
    intros i j Hi Hj Hnz. cbv zeta. rewrite !Hnth in * by assumption.
    rewrite (Hfi i j Hi Hj Hj Hnz). cbv zeta.
    rewrite ent_unflatten by (try assumption; apply is_perm_lt; assumption).
    rewrite (lu_acc_ext O (fun k => nth (i * n + k) (flatten M) z) (fun k => nth (k * n + j) (flatten M) z)
                        (fun k => E M i k) (fun k => E M k j)); [reflexivity| |]; intros k Hk; apply Hnth; lia.
  Qed.
End Pivoted.

(** ** Part 2: the accumulation loop on binary64 *)
Lemma Rabs_rsum_le' f n : Rabs (rsum f n) <= rsum (fun k => Rabs (f k)) n.
Proof.
  induction n as [|n IH]; cbn [rsum]; [rewrite Rabs_R0; lra|].
  eapply Rle_trans; [apply Rabs_triang|]. lra.
Qed.

Lemma lu_acc_S {T} (O : Ops T) x y m : lu_acc O x y (S m) = add O (lu_acc O x y m) (mul O (x m) (y m)).
Proof. unfold lu_acc. rewrite seq_S, fold_left_app. reflexivity. Qed.

Lemma acc_F_error (tbl : libm_table) (x y : nat -> pfloat) : forall m,
  finite (lu_acc (FO tbl) x y m) ->
  (forall k, (k < m)%nat -> no_underflow (B2Rf (x k) * B2Rf (y k))) ->
  Rabs (B2Rf (lu_acc (FO tbl) x y m) - rsum (fun k => B2Rf (x k) * B2Rf (y k)) m)
  <= E u64 (S m) * rsum (fun k => Rabs (B2Rf (x k) * B2Rf (y k))) m.
Proof.
  induction m as [|m IH]; intros Hf Hnu.
  - cbn [rsum]. unfold lu_acc. cbn [seq fold_left zero FO]. rewrite B2Rf_zero, Rminus_0_r, Rabs_R0. lra.
  - rewrite lu_acc_S in *. cbn [add mul FO] in *.
    destruct (fadd_finite _ _ Hf) as (Hfs & Hfp & Hv).
    destruct (fmul_finite _ _ Hfp) as (_ & _ & Hpv).
    specialize (IH Hfs ltac:(intros k Hk; apply Hnu; lia)).
    set (c := B2Rf (x m) * B2Rf (y m)) in *.
    assert (Hp : Rabs (B2Rf (x m * y m)%float - c) <= E u64 (S m) * Rabs c).
    { rewrite Hpv. eapply Rle_trans; [apply rnd64_rel; apply Hnu; lia|].
      apply Rmult_le_compat_r; [apply Rabs_pos|].
      replace u64 with (E u64 1) at 1 by (unfold E; ring). apply (E_mono u64 u64_nonneg). lia. }
    destruct (step_err u64 u64_nonneg F64 rnd64 rnd64_model
                (rsum (fun k => B2Rf (x k) * B2Rf (y k)) m) (B2Rf (lu_acc (FO tbl) x y m)) c (B2Rf (x m * y m)%float)
                (rsum (fun k => Rabs (B2Rf (x k) * B2Rf (y k))) m) (Rabs c) (S m)) as (_ & _ & Hs).
    + apply F64_B2Rf.
    + apply F64_B2Rf.
    + apply Rabs_rsum_le'.
    + apply Rle_refl.
    + exact IH.
    + exact Hp.
    + cbn [rsum]. rewrite Hv. cbn [add RndO] in Hs. exact Hs.
Qed.

(** [x != 0.] on binary64 for a finite double with a nonzero real value *)
Lemma feqb_nonzero (x : pfloat) : finite x -> B2Rf x <> 0 -> PrimFloat.eqb x 0%float = false.
Proof.
  intros Hf Hx. rewrite eqb_equiv.
  assert (H0 : Prim2B 0%float = B754_zero false) by (apply B2SF_inj; rewrite B2SF_Prim2B; reflexivity).
  rewrite H0, Beqb_correct by (auto; reflexivity). cbn [B2R]. apply Req_bool_false. exact Hx.
Qed.

(** ** Part 3: the factorisation, entry by entry *)
Section LUFloat.
  (** [ae i j]: the entry of the (row-permuted) input that position (i,j) started from *)
  Variables (tbl : libm_table) (ae : nat -> nat -> pfloat) (m : list pfloat) (n : nat).
  Hypothesis Hlen : length m = (n * n)%nat.
  Hypothesis Hrecur : forall i j, (i < n)%nat -> (j < n)%nat -> PrimFloat.eqb (nth (j * n + j) m 0%float) 0%float = false ->
    let s := (ae i j - lu_acc (FO tbl) (fun k => nth (i * n + k) m 0) (fun k => nth (k * n + j) m 0) (Nat.min i j))%float in
    nth (i * n + j) m 0%float = if (j <? i)%nat then (s / nth (j * n + j) m 0)%float else s.
  Hypothesis Hfin : Forall finite m.
  Hypothesis Hpiv : forall j, (j < n)%nat -> B2Rf (nth (j * n + j) m 0%float) <> 0.
  Hypothesis Hprod : forall i j k, (i < n)%nat -> (j < n)%nat -> (k < Nat.min i j)%nat ->
    no_underflow (B2Rf (nth (i * n + k) m 0%float) * B2Rf (nth (k * n + j) m 0%float)).
  Hypothesis Hquot : forall i j, (i < n)%nat -> (j < i)%nat ->
    no_underflow (B2Rf (ae i j
                        - lu_acc (FO tbl) (fun k => nth (i * n + k) m 0) (fun k => nth (k * n + j) m 0) j)%float
                  / B2Rf (nth (j * n + j) m 0%float)).

  Local Notation Mr := (map B2Rf m).

  Lemma luF_fin i j : (i < n)%nat -> (j < n)%nat -> finite (nth (i * n + j) m 0%float).
  Proof. intros Hi Hj. apply (proj1 (Forall_forall finite m) Hfin). apply nth_In. rewrite Hlen. nia. Qed.

  Lemma luF_rec i j :
    (i < n)%nat -> (j < n)%nat ->
    let s := (ae i j
              - lu_acc (FO tbl) (fun k => nth (i * n + k) m 0) (fun k => nth (k * n + j) m 0) (Nat.min i j))%float in
    nth (i * n + j) m 0%float = if (j <? i)%nat then (s / nth (j * n + j) m 0)%float else s.
  Proof.
    intros Hi Hj. apply (Hrecur i j Hi Hj). apply feqb_nonzero; [apply luF_fin; assumption|apply Hpiv; exact Hj].
  Qed.

  Lemma luF_entry i j :
    (i < n)%nat -> (j < n)%nat ->
    finite (ae i j) /\
    Rabs (B2Rf (ae i j)
          - (rsum (fun k => getm Mr n i k * getm Mr n k j) (Nat.min i j)
             + (if (i <=? j)%nat then getm Mr n i j else getm Mr n i j * getm Mr n j j)))
    <= E u64 (S (Nat.min i j))
       * (rsum (fun k => Rabs (getm Mr n i k) * Rabs (getm Mr n k j)) (Nat.min i j)
          + (if (i <=? j)%nat then Rabs (getm Mr n i j) else Rabs (getm Mr n i j) * Rabs (getm Mr n j j))).
  Proof.
    intros Hi Hj. pose proof (luF_rec i j Hi Hj) as Hrec. cbv zeta in Hrec.
    set (mm := Nat.min i j) in *.
    set (S' := lu_acc (FO tbl) (fun k => nth (i * n + k) m 0%float) (fun k => nth (k * n + j) m 0%float) mm) in *.
    pose proof (luF_fin i j Hi Hj) as Hfe.
    unfold getm. rewrite !nth_map_B2Rf.
    rewrite (rsum_ext (fun k => nth (i * n + k) Mr 0 * nth (k * n + j) Mr 0)
                      (fun k => B2Rf (nth (i * n + k) m 0%float) * B2Rf (nth (k * n + j) m 0%float)))
      by (intros; rewrite !nth_map_B2Rf; reflexivity).
    rewrite (rsum_ext (fun k => Rabs (nth (i * n + k) Mr 0) * Rabs (nth (k * n + j) Mr 0))
                      (fun k => Rabs (B2Rf (nth (i * n + k) m 0%float) * B2Rf (nth (k * n + j) m 0%float))))
      by (intros; rewrite !nth_map_B2Rf, Rabs_mult; reflexivity).
    set (C := rsum (fun k => B2Rf (nth (i * n + k) m 0%float) * B2Rf (nth (k * n + j) m 0%float)) mm).
    set (A := rsum (fun k => Rabs (B2Rf (nth (i * n + k) m 0%float) * B2Rf (nth (k * n + j) m 0%float))) mm).
    assert (HA : 0 <= A) by (apply rsum_nonneg; intros; apply Rabs_pos).
    assert (Hacc : finite S' -> Rabs (B2Rf S' - C) <= E u64 (S mm) * A).
    { intros HfS. apply acc_F_error; [exact HfS|]. intros k Hk. apply Hprod; assumption. }
    pose proof u64_nonneg as Hu.
    pose proof (E_nonneg u64 Hu (S mm)) as HE.
    destruct (Nat.ltb_spec j i) as [Hlt|Hge].
    - (* below the diagonal: a multiplier *)
      destruct (Nat.leb_spec i j) as [Hc|_]; [lia|].
      assert (Hmm : mm = j) by (unfold mm; lia).
      set (t := nth (j * n + j) m 0%float) in *.
      assert (Ht : B2Rf t <> 0) by (apply Hpiv; exact Hj).
      rewrite Hrec in Hfe. destruct (fdiv_finite _ _ Ht Hfe) as (Hfs & Hx).
      destruct (fsub_finite _ _ Hfs) as (Hfa & HfS & Hs).
      split; [exact Hfa|].
      assert (Hq : no_underflow (B2Rf (ae i j - S')%float / B2Rf t)).
      { unfold S'. rewrite Hmm. apply Hquot; assumption. }
      pose proof (rnd64_rel_round _ Hq) as Hxe. rewrite <- Hx, <- Hrec in Hxe.
      rewrite <- Rabs_mult.
      replace (B2Rf (nth (i * n + j) m 0%float) * B2Rf t) with (B2Rf t * B2Rf (nth (i * n + j) m 0%float)) by ring.
      destruct mm as [|m'] eqn:Em.
      + (* first column: no accumulation, the subtraction is exact *)
        assert (HS0 : B2Rf S' = 0) by (unfold S', lu_acc; cbn [seq fold_left zero FO]; apply B2Rf_zero).
        assert (Hsb : B2Rf (ae i j - S')%float = B2Rf (ae i j)).
        { rewrite Hs, HS0, Rminus_0_r. apply rnd64_F64, F64_B2Rf. }
        rewrite Hsb in Hxe. unfold C, A. cbn [rsum]. rewrite !Rplus_0_l.
        unfold E. rewrite pow_1. replace (1 + u64 - 1) with u64 by ring.
        apply row_step_first; assumption.
      + pose proof (rnd64_sub_round (B2Rf (ae i j)) (B2Rf S') (F64_B2Rf _) (F64_B2Rf _)) as Hse.
        rewrite <- Hs in Hse.
        apply (row_step_err u64 _ (B2Rf (ae i j)) (B2Rf S') (B2Rf t) (B2Rf (ae i j - S')%float));
          try assumption.
        * apply (E_mono u64 Hu 2). lia.
        * apply Hacc; exact HfS.
    - (* on or above the diagonal: an entry of U *)
      destruct (Nat.leb_spec i j) as [_|Hc]; [|lia].
      rewrite Hrec in Hfe. destruct (fsub_finite _ _ Hfe) as (Hfa & HfS & Hs).
      split; [exact Hfa|].
      pose proof (rnd64_sub_round (B2Rf (ae i j)) (B2Rf S') (F64_B2Rf _) (F64_B2Rf _)) as Hse.
      rewrite <- Hs, <- Hrec in Hse. specialize (Hacc HfS).
      set (av := B2Rf (ae i j)) in *. set (uv := B2Rf (nth (i * n + j) m 0%float)) in *.
      replace (av - (C + uv)) with (- (uv - (av - B2Rf S')) + (B2Rf S' - C)) by ring.
      eapply Rle_trans; [apply Rabs_triang|]. rewrite Rabs_Ropp.
      assert (u64 <= E u64 (S mm)).
      { replace u64 with (E u64 1) at 1 by (unfold E; ring). apply (E_mono u64 Hu). lia. }
      pose proof (Rabs_pos uv). nra.
  Qed.
End LUFloat.

(** [|Lof|], [|Uof|] are the factors of the array of absolute values *)
Lemma getm_map_Rabs (M : list R) n i j : getm (map Rabs M) n i j = Rabs (getm M n i j).
Proof.
  unfold getm. transitivity (nth (i * n + j) (map Rabs M) (Rabs 0)); [f_equal; symmetry; apply Rabs_R0|apply map_nth].
Qed.
Lemma Lof_abs (M : list R) n i k : Lof (map Rabs M) n i k = Rabs (Lof M n i k).
Proof.
  unfold Lof. rewrite getm_map_Rabs. destruct (k <? i)%nat; [reflexivity|].
  destruct (k =? i)%nat; [rewrite Rabs_R1|rewrite Rabs_R0]; reflexivity.
Qed.
Lemma Uof_abs (M : list R) n k j : Uof (map Rabs M) n k j = Rabs (Uof M n k j).
Proof. unfold Uof. rewrite getm_map_Rabs. destruct (k <=? j)%nat; [reflexivity|rewrite Rabs_R0; reflexivity]. Qed.

(** from the entrywise bound to the statement with [Lof], [Uof] *)
Lemma lu_bound_LofUof (tbl : libm_table) (ae : nat -> nat -> pfloat) (m : list pfloat) (n : nat) :
  (forall i j, (i < n)%nat -> (j < n)%nat ->
     Rabs (B2Rf (ae i j)
           - (rsum (fun k => getm (map B2Rf m) n i k * getm (map B2Rf m) n k j) (Nat.min i j)
              + (if (i <=? j)%nat then getm (map B2Rf m) n i j else getm (map B2Rf m) n i j * getm (map B2Rf m) n j j)))
     <= E u64 (S (Nat.min i j))
        * (rsum (fun k => Rabs (getm (map B2Rf m) n i k) * Rabs (getm (map B2Rf m) n k j)) (Nat.min i j)
           + (if (i <=? j)%nat then Rabs (getm (map B2Rf m) n i j)
              else Rabs (getm (map B2Rf m) n i j) * Rabs (getm (map B2Rf m) n j j)))) ->
  forall i j, (i < n)%nat -> (j < n)%nat ->
    Rabs (B2Rf (ae i j) - rsum (fun k => Lof (map B2Rf m) n i k * Uof (map B2Rf m) n k j) n)
    <= ((1 + / 2 ^ 53) ^ n - 1) * rsum (fun k => Rabs (Lof (map B2Rf m) n i k) * Rabs (Uof (map B2Rf m) n k j)) n.
Proof.
  intros Hent i j Hi Hj. specialize (Hent i j Hi Hj).
  rewrite (LU_sum_full (map B2Rf m) n i j Hi Hj).
  rewrite (rsum_ext (fun k => Rabs (Lof (map B2Rf m) n i k) * Rabs (Uof (map B2Rf m) n k j))
                    (fun k => Lof (map Rabs (map B2Rf m)) n i k * Uof (map Rabs (map B2Rf m)) n k j))
    by (intros; rewrite Lof_abs, Uof_abs; reflexivity).
  rewrite (LU_sum_full (map Rabs (map B2Rf m)) n i j Hi Hj).
  rewrite (rsum_ext (fun k => getm (map Rabs (map B2Rf m)) n i k * getm (map Rabs (map B2Rf m)) n k j)
                    (fun k => Rabs (getm (map B2Rf m) n i k) * Rabs (getm (map B2Rf m) n k j)))
    by (intros; rewrite !getm_map_Rabs; reflexivity).
  rewrite !getm_map_Rabs.
  eapply Rle_trans; [exact Hent|]. rewrite <- u64_val. fold (E u64 n).
  apply Rmult_le_compat_r.
  - apply Rplus_le_le_0_compat; [apply rsum_abs_nonneg|].
    destruct (i <=? j)%nat; [apply Rabs_pos|apply Rmult_le_pos; apply Rabs_pos].
  - apply (E_mono u64 u64_nonneg). lia.
Qed.

(** ** the theorem: LU with partial pivoting, every run *)
Theorem lu_backward_error (tbl : libm_table) (a m : list pfloat) (piv : list nat) (n : nat) :
  lu (FO tbl) a = Some (m, piv) -> (n * n)%nat = length a ->
  Forall finite m ->
  (forall j, (j < n)%nat -> B2Rf (nth (j * n + j) m 0%float) <> 0) ->
  (forall i j k, (i < n)%nat -> (j < n)%nat -> (k < Nat.min i j)%nat ->
     B2Rf (nth (i * n + k) m 0%float) * B2Rf (nth (k * n + j) m 0%float) = 0 \/
     / 2 ^ 1022 <= Rabs (B2Rf (nth (i * n + k) m 0%float) * B2Rf (nth (k * n + j) m 0%float))) ->
  (forall i j, (i < n)%nat -> (j < i)%nat ->
     let s := (nth (nth i piv 0%nat * n + j) a 0
               - lu_acc (FO tbl) (fun k => nth (i * n + k) m 0) (fun k => nth (k * n + j) m 0) j)%float in
     B2Rf s / B2Rf (nth (j * n + j) m 0%float) = 0 \/ / 2 ^ 1022 <= Rabs (B2Rf s / B2Rf (nth (j * n + j) m 0%float))) ->
  let A := map B2Rf a in let M := map B2Rf m in
  let gamma := (1 + / 2 ^ 53) ^ n - 1 in
  length m = (n * n)%nat /\ is_perm piv n /\ Forall finite a /\
  forall i j, (i < n)%nat -> (j < n)%nat ->
    Rabs (getm A n (nth i piv 0%nat) j - rsum (fun k => Lof M n i k * Uof M n k j) n)
    <= gamma * rsum (fun k => Rabs (Lof M n i k) * Rabs (Uof M n k j)) n.
Proof.
  intros Hrun Hn Hfin Hpiv Hprod Hquot. cbv zeta.
  destruct (lu_pivoted_recurrence (FO tbl) a m piv n Hrun Hn) as (Hlen & Hperm & Hrec).
  cbn [zero eqb sub div FO] in Hrec.
  set (ae := fun i j : nat => nth (nth i piv 0%nat * n + j) a 0%float).
  assert (Hprod' : forall i j k, (i < n)%nat -> (j < n)%nat -> (k < Nat.min i j)%nat ->
            no_underflow (B2Rf (nth (i * n + k) m 0%float) * B2Rf (nth (k * n + j) m 0%float))).
  { intros i j k Hi Hj Hk. apply no_underflow_explicit. apply Hprod; assumption. }
  assert (Hquot' : forall i j, (i < n)%nat -> (j < i)%nat ->
            no_underflow (B2Rf (ae i j
                                - lu_acc (FO tbl) (fun k => nth (i * n + k) m 0) (fun k => nth (k * n + j) m 0) j)%float
                          / B2Rf (nth (j * n + j) m 0%float))).
  { intros i j Hi Hj. apply no_underflow_explicit. apply (Hquot i j Hi Hj). }
  pose proof (luF_entry tbl ae m n Hlen Hrec Hfin Hpiv Hprod' Hquot') as Hent.
  split; [exact Hlen|]. split; [exact Hperm|]. split.
  - apply Forall_forall. intros f Hf. destruct (In_nth a f 0%float Hf) as (q & Hq & <-).
    rewrite <- Hn in Hq.
    assert (Hn0 : (0 < n)%nat) by (destruct n; [cbn in Hq; lia|lia]).
    assert (Hr : (q / n < n)%nat) by (apply Nat.div_lt_upper_bound; lia).
    destruct (is_perm_surj piv n (q / n)%nat Hperm Hr) as (i & Hi & Hpi).
    replace q with (nth i piv 0%nat * n + q mod n)%nat
      by (rewrite Hpi, Nat.mul_comm; symmetry; apply Nat.div_mod; lia).
    apply (Hent i (q mod n)%nat Hi). apply Nat.mod_upper_bound. lia.
  - intros i j Hi Hj.
    replace (getm (map B2Rf a) n (nth i piv 0%nat) j) with (B2Rf (ae i j))
      by (unfold getm, ae; rewrite nth_map_B2Rf; reflexivity).
    apply (lu_bound_LofUof tbl ae m n); [|exact Hi|exact Hj].
    intros i' j' Hi' Hj'. apply (Hent i' j' Hi' Hj').
Qed.

(** ** the case without any exchange (the returned pivot vector is the identity) *)
Theorem lu_backward_error_no_row_swap (tbl : libm_table) (a m : list pfloat) (n : nat) :
  lu (FO tbl) a = Some (m, seq 0 n) -> (n * n)%nat = length a ->
  Forall finite m ->
  (forall j, (j < n)%nat -> B2Rf (nth (j * n + j) m 0%float) <> 0) ->
  (forall i j k, (i < n)%nat -> (j < n)%nat -> (k < Nat.min i j)%nat ->
     B2Rf (nth (i * n + k) m 0%float) * B2Rf (nth (k * n + j) m 0%float) = 0 \/
     / 2 ^ 1022 <= Rabs (B2Rf (nth (i * n + k) m 0%float) * B2Rf (nth (k * n + j) m 0%float))) ->
  (forall i j, (i < n)%nat -> (j < i)%nat ->
     let s := (nth (i * n + j) a 0
               - lu_acc (FO tbl) (fun k => nth (i * n + k) m 0) (fun k => nth (k * n + j) m 0) j)%float in
     B2Rf s / B2Rf (nth (j * n + j) m 0%float) = 0 \/ / 2 ^ 1022 <= Rabs (B2Rf s / B2Rf (nth (j * n + j) m 0%float))) ->
  let A := map B2Rf a in let M := map B2Rf m in
  let gamma := (1 + / 2 ^ 53) ^ n - 1 in
  length m = (n * n)%nat /\ Forall finite a /\
  forall i j, (i < n)%nat -> (j < n)%nat ->
    Rabs (getm A n i j - rsum (fun k => Lof M n i k * Uof M n k j) n)
    <= gamma * rsum (fun k => Rabs (Lof M n i k) * Rabs (Uof M n k j)) n.
Proof.
  intros Hrun Hn Hfin Hpiv Hprod Hquot. cbv zeta.
  destruct (lu_backward_error tbl a m (seq 0 n) n Hrun Hn Hfin Hpiv Hprod) as (Hlen & _ & Hfa & Hb).
  - intros i j Hi Hj. rewrite seq_nth by exact Hi. apply (Hquot i j Hi Hj).
  - split; [exact Hlen|]. split; [exact Hfa|].
    intros i j Hi Hj. specialize (Hb i j Hi Hj). rewrite seq_nth in Hb by exact Hi. exact Hb.
Qed.

(** ** [Matrix::lu] runs the same model (identical factors on every carrier) *)
Theorem matrix_lu_backward_error (tbl : libm_table) (mm r : matrix (T:=pfloat)) (piv : list nat) :
  matrix_lu (FO tbl) mm = Some (r, piv) ->
  let n := nr mm in let a := dat mm in let m := dat r in
  Forall finite m ->
  (forall j, (j < n)%nat -> B2Rf (nth (j * n + j) m 0%float) <> 0) ->
  (forall i j k, (i < n)%nat -> (j < n)%nat -> (k < Nat.min i j)%nat ->
     B2Rf (nth (i * n + k) m 0%float) * B2Rf (nth (k * n + j) m 0%float) = 0 \/
     / 2 ^ 1022 <= Rabs (B2Rf (nth (i * n + k) m 0%float) * B2Rf (nth (k * n + j) m 0%float))) ->
  (forall i j, (i < n)%nat -> (j < i)%nat ->
     let s := (nth (nth i piv 0%nat * n + j) a 0
               - lu_acc (FO tbl) (fun k => nth (i * n + k) m 0) (fun k => nth (k * n + j) m 0) j)%float in
     B2Rf s / B2Rf (nth (j * n + j) m 0%float) = 0 \/ / 2 ^ 1022 <= Rabs (B2Rf s / B2Rf (nth (j * n + j) m 0%float))) ->
  let A := map B2Rf a in let M := map B2Rf m in
  let gamma := (1 + / 2 ^ 53) ^ n - 1 in
  nr r = n /\ nc r = n /\ length m = (n * n)%nat /\ is_perm piv n /\ Forall finite a /\
  forall i j, (i < n)%nat -> (j < n)%nat ->
    Rabs (getm A n (nth i piv 0%nat) j - rsum (fun k => Lof M n i k * Uof M n k j) n)
    <= gamma * rsum (fun k => Rabs (Lof M n i k) * Rabs (Uof M n k j)) n.
Proof.
  intros H. destruct (matrix_lu_eq_slice (FO tbl) mm r piv H) as (Hs & Hnr & Hnc & Hsq & Hlen).
  cbv zeta. intros Hfin Hpiv Hprod Hquot.
  destruct (lu_backward_error tbl (dat mm) (dat r) piv (nr mm) Hs Hlen Hfin Hpiv Hprod Hquot) as (Hl & Hp & Hfa & Hb).
  split; [exact Hnr|]. split; [rewrite Hnc; symmetry; exact Hsq|]. auto.
Qed.
