(** * Tie A for C06, [has_converged] on binary64: [loss_previous.is_infinite()] — [(x == inf) | (x == -inf)] — and the model's test
    [x == x && x - x != x - x] are the same function of a double (zeros, infinities and NaN by computation; for a finite [x] the
    difference [x - x] is a zero: Flocq's [Bminus_correct]), so the generated [has_converged] IS the model's on the carrier the
    correspondence runs on, for every previous loss; the initial [f64::INFINITY] is the model's [None]. *)
From Coq Require Import ZArith Reals Floats List Bool Lia Lra.
From Flocq Require Import Core BinarySingleNaN.
From Flocq Require PrimFloat.
Import Flocq.IEEE754.PrimFloat.
From Compute Require Import Base.Ops Base.RsExpr Base.RsExprFour Model.GLM Generated.glm_loops Proofs.TieA_glm_loops.
Local Open Scope float_scope.

Lemma is_inf_agree_binary64 : forall (tbl : libm_table) (x : PrimFloat.float), rs_is_infinite (FO tbl) x = is_inf (FO tbl) x.
Proof.
  intros tbl x. unfold rs_is_infinite, is_inf, rs_f64_infinity, rs_f64_neg_infinity. cbn [eqb sub div neg one zero FO].
  change (1 / 0)%float with infinity. change (- infinity)%float with neg_infinity.
  rewrite !eqb_equiv, sub_equiv.
  change (Prim2B infinity) with (B754_infinity false : binary_float prec emax).
  change (Prim2B neg_infinity) with (B754_infinity true : binary_float prec emax).
  destruct (Prim2B x) as [s|s| |s m e He] eqn:E.
  - destruct s; reflexivity.
  - destruct s; reflexivity.
  - reflexivity.
  - (* finite: x - x is a zero *)
    pose proof (Bminus_correct prec emax Hprec Hmax mode_NE (B754_finite s m e He) (B754_finite s m e He) eq_refl eq_refl) as HB.
    replace (B2R (B754_finite s m e He) - B2R (B754_finite s m e He))%R with 0%R in HB by ring.
    rewrite round_0 in HB by apply valid_rnd_round_mode. rewrite Rabs_R0 in HB.
    destruct (Rlt_bool_spec 0 (bpow radix2 emax)) as [_|Hc]; [|exfalso; pose proof (bpow_gt_0 radix2 emax); lra].
    destruct HB as (HR & HF & _).
    destruct (Bminus mode_NE (B754_finite s m e He) (B754_finite s m e He)) as [s'|s'| |s' m' e' He'] eqn:Em; try discriminate HF.
    + cbn. destruct s'; cbn; rewrite ?andb_false_r; unfold Beqb, SFeqb, SFcompare; cbn; rewrite ?Z.compare_refl, ?Pos.compare_refl; cbn; try reflexivity.
    + exfalso. unfold B2R in HR. apply eq_0_F2R in HR. cbn in HR. destruct s'; discriminate HR.
Qed.

Theorem tiea_has_converged_binary64 : forall (tbl : libm_table) (loss lp tol : PrimFloat.float),
  src_has_converged (FO tbl) loss lp tol = has_converged (FO tbl) loss (Some lp) tol.
Proof. intros. apply tiea_has_converged. apply is_inf_agree_binary64. Qed.

Theorem tiea_has_converged_first_binary64 : forall (tbl : libm_table) (loss tol : PrimFloat.float),
  src_has_converged (FO tbl) loss infinity tol = has_converged (FO tbl) loss None tol.
Proof. intros. exact (tiea_has_converged_first (FO tbl) loss tol eq_refl). Qed.
