(** * Tie A for C08: the hand-written model [Model/Stats.v] IS the source.
    [Generated/stats_loops.v] is produced on every run by tools/tiea/stats_loops.py (statement-level translator
    [LoopTranslator] of tools/rsexpr.py) from src/statistics/{moments,covariance,order,hist}.rs: loops are folds over
    lists, [usize] values live in [Z], a panic is [None].  Each lemma states that the generated function and the model's
    function agree on EVERY data list for EVERY carrier and operations record.  Where the two are written with different
    combinators (index-driven loops with checked [x[i]] against structural folds over [combine]; a [Z] counter against a
    [nat] counter) the proof is by induction through the lemmas of [Proofs/RsExprLemmas.v]; no law of the carrier is used.
    The one exception is stated as a hypothesis: the source writes the literal [2.] ([two O] = 1 + 1 under the
    translator's literal rule), the model of [hist_bin_centers] writes [ofZ O 2]; the three carriers in use satisfy
    [ofZ O 2 = two O] by computation.  [linalg::sum] is the abstract parameter of the generated [mean]; it is
    instantiated by the C04 model [Reduce.sum]. *)
From Coq Require Import List ZArith QArith Reals Arith Bool Lia Lra Floats.
From Compute Require Import Base.Ops Base.ListMat Base.RsExpr Model.Reduce Model.Stats Generated.stats_loops
  Proofs.RsExprLemmas.
Import ListNotations.
Local Close Scope Q_scope.

(** an aggregate / an index pair of the model ([nat] counter) seen by the source ([usize] in [Z]) *)
Definition zagg {T : Type} (a : nat * T * T) : Z * T * T := let '(c, m, s) := a in (Z.of_nat c, m, s).
Definition zidx {T : Type} (a : nat * T) : Z * T := (Z.of_nat (fst a), snd a).

Section TieA.
  Context {T : Type} (O : Ops T).

  (** ** moments.rs *)
  Lemma tiea_welford_update : forall (a : nat * T * T) (x : T),
    src_welford_update O (zagg a) x = zagg (welford_update O a x).
  Proof.
    intros [[c m] s] x. unfold src_welford_update, welford_update, zagg, ofN.
    rewrite Nat2Z.inj_succ, <- Z.add_1_r. reflexivity.
  Qed.
  Lemma tiea_welford_statistics : forall data : list T,
    src_welford_statistics O data = zagg (welford_statistics O data).
  Proof.
    intro data. unfold src_welford_statistics, welford_statistics.
    change (0%Z, zero O, zero O) with (zagg (0%nat, zero O, zero O)).
    apply (fold_left_rel zagg (fun aggregate i => src_welford_update O aggregate i)).
    intros s a. apply tiea_welford_update.
  Qed.
  Lemma tiea_mean : forall data : list T, src_mean O (sum O) data = mean O data.
  Proof. reflexivity. Qed.
  Lemma tiea_welford_mean : forall data : list T, src_welford_mean O data = welford_mean O data.
  Proof.
    intro data. unfold src_welford_mean, welford_mean. rewrite tiea_welford_statistics.
    destruct (welford_statistics O data) as [[c m] s]. reflexivity.
  Qed.
  Lemma tiea_var : forall data : list T, src_var O data = var O data.
  Proof.
    intro data. unfold src_var, var. rewrite tiea_welford_statistics.
    destruct (welford_statistics O data) as [[c m] s]. reflexivity.
  Qed.
  Lemma usize_pred_usub : forall c : nat, rs_usub (Z.of_nat c) 1 = usize_pred c.
  Proof. intros [|k]; [reflexivity|]. cbn [usize_pred]. apply rs_usub_S_1. Qed.
  Lemma tiea_sample_var : forall data : list T, src_sample_var O data = sample_var O data.
  Proof.
    intro data. unfold src_sample_var, sample_var. rewrite tiea_welford_statistics.
    destruct (welford_statistics O data) as [[c m] s]. unfold zagg. now rewrite usize_pred_usub.
  Qed.
  Lemma tiea_std : forall data : list T, src_std O data = std O data.
  Proof. intro data. unfold src_std, std. now rewrite tiea_var. Qed.
  Lemma tiea_sample_std : forall data : list T, src_sample_std O data = sample_std O data.
  Proof. intro data. unfold src_sample_std, sample_std. now rewrite tiea_sample_var. Qed.

  (** ** covariance.rs *)
  Lemma centred_products_src : forall (x y : list T) (mx my : T), length x = length y ->
    rs_map_opt (fun i => let* g1 := rs_get x i in let* g2 := rs_get y i in
                         Some (mul O (sub O g1 mx) (sub O g2 my))) (rs_range_excl 0 (rs_len x))
    = Some (map2 (fun a b => mul O (sub O a mx) (sub O b my)) x y).
  Proof.
    intros x y mx my E. rewrite rs_range_excl_0_len.
    rewrite (rs_map_opt_seq _ (fun k => mul O (sub O (nth k x (zero O)) mx) (sub O (nth k y (zero O)) my))).
    - now rewrite (map2_nth_seq (fun a b => mul O (sub O a mx) (sub O b my))).
    - intros k Hk. rewrite Z.add_0_l.
      rewrite (rs_get_some x k (zero O)) by lia. rewrite (rs_get_some y k (zero O)) by lia. reflexivity.
  Qed.
  Lemma tiea_covariance : forall x y : list T, src_covariance O (sum O) x y = covariance O x y.
  Proof.
    intros x y. unfold src_covariance, covariance, rs_len at 1 2. rewrite Zeqb_of_nat.
    destruct (length x =? length y) eqn:E; [|reflexivity]. apply Nat.eqb_eq in E.
    cbv zeta. rewrite centred_products_src by exact E. reflexivity.
  Qed.
  Lemma tiea_sample_covariance : forall x y : list T, src_sample_covariance O (sum O) x y = sample_covariance O x y.
  Proof.
    intros x y. unfold src_sample_covariance, sample_covariance, rs_len at 1 2. rewrite Zeqb_of_nat.
    destruct (length x =? length y) eqn:E; [|reflexivity]. apply Nat.eqb_eq in E.
    cbv zeta. rewrite centred_products_src by exact E. unfold rs_len. rewrite usize_pred_usub. reflexivity.
  Qed.

  Lemma tiea_sample_covariance_onepass : forall x y : list T,
    src_sample_covariance_onepass O x y = sample_covariance_onepass O x y.
  Proof.
    intros x y. unfold src_sample_covariance_onepass, sample_covariance_onepass, rs_len at 1 2. rewrite Zeqb_of_nat.
    destruct (length x =? length y) eqn:E; [|reflexivity]. apply Nat.eqb_eq in E.
    cbv zeta. rewrite rs_range_excl_0_len.
    rewrite (rs_fold_opt_seq _
      (fun s k => onepass_step O (hd (zero O) x) (hd (zero O) y) s (nth k x (zero O), nth k y (zero O)))).
    - rewrite (fold_left_combine_nth_seq
                 (fun s a b => onepass_step O (hd (zero O) x) (hd (zero O) y) s (a, b)) x y (zero O) (zero O)) by exact E.
      unfold onepass_sums. cbn [bind].
      rewrite (fold_left_ext (fun s p => onepass_step O (hd (zero O) x) (hd (zero O) y) s (fst p, snd p))
                             (onepass_step O (hd (zero O) x) (hd (zero O) y)))
        by (intros s [a b]; reflexivity).
      destruct (fold_left _ _ _) as [[sdx sdy] sdxdy]. unfold rs_len. rewrite usize_pred_usub. reflexivity.
    - intros [[sdx sdy] sdxdy] k Hk. rewrite Z.add_0_l.
      rewrite (rs_get_some x k (zero O)) by lia. rewrite (rs_get_some y k (zero O)) by lia.
      rewrite (rs_get_0_hd x (zero O)) by (intro H0; subst x; cbn in Hk; lia).
      rewrite (rs_get_0_hd y (zero O)) by (intro H0; subst y; cbn in E; lia).
      reflexivity.
  Qed.

  Lemma tiea_sample_covariance_online : forall x y : list T,
    src_sample_covariance_online O x y = sample_covariance_online O x y.
  Proof.
    intros x y. unfold src_sample_covariance_online, sample_covariance_online, rs_len. rewrite Zeqb_of_nat.
    destruct (length x =? length y) eqn:E; [|reflexivity].
    cbv zeta. unfold online_state.
    match goal with |- context [fold_left ?f (combine x y) ?s] =>
      rewrite (fold_left_ext f (online_step O) (combine x y) s) by (intros [[[mx my] c] n] [a b]; reflexivity) end.
    destruct (fold_left _ _ _) as [[[mx my] c] n]. reflexivity.
  Qed.

  (** ** order.rs *)
  Lemma tiea_min : forall data : list T, src_min O data = min O data.
  Proof. reflexivity. Qed.
  Lemma tiea_max : forall data : list T, src_max O data = max O data.
  Proof. reflexivity. Qed.

  Lemma argmin_go_src : forall (l : list T) (i : nat) (acc : nat * T),
    fold_left (fun acc '(i, j) => if ltb O j (snd acc) then (i, j) else acc)
              (combine (rs_seq (Z.of_nat i) (length l)) l) (zidx acc)
    = zidx (argmin_go O i acc l).
  Proof.
    induction l as [|x l IH]; intros i acc; [reflexivity|].
    cbn [length rs_seq combine fold_left argmin_go].
    replace (Z.of_nat i + 1)%Z with (Z.of_nat (S i)) by lia.
    change (snd (zidx acc)) with (snd acc).
    destruct (ltb O x (snd acc)).
    - change (Z.of_nat i, x) with (zidx (i, x)). apply IH.
    - apply IH.
  Qed.
  Lemma tiea_argmin : forall data : list T, src_argmin O data = Z.of_nat (argmin O data).
  Proof.
    intro data. unfold src_argmin, argmin, rs_enumerate.
    change (0%Z, rs_f64_max O) with (zidx (0%nat, f64_max O)). change 0%Z with (Z.of_nat 0).
    rewrite argmin_go_src. reflexivity.
  Qed.
  Lemma argmax_go_src : forall (l : list T) (i : nat) (acc : nat * T),
    fold_left (fun acc '(i, j) => if ltb O (snd acc) j then (i, j) else acc)
              (combine (rs_seq (Z.of_nat i) (length l)) l) (zidx acc)
    = zidx (argmax_go O i acc l).
  Proof.
    induction l as [|x l IH]; intros i acc; [reflexivity|].
    cbn [length rs_seq combine fold_left argmax_go].
    replace (Z.of_nat i + 1)%Z with (Z.of_nat (S i)) by lia.
    change (snd (zidx acc)) with (snd acc).
    destruct (ltb O (snd acc) x).
    - change (Z.of_nat i, x) with (zidx (i, x)). apply IH.
    - apply IH.
  Qed.
  Lemma tiea_argmax : forall data : list T, src_argmax O data = Z.of_nat (argmax O data).
  Proof.
    intro data. unfold src_argmax, argmax, rs_enumerate.
    change (0%Z, rs_f64_min O) with (zidx (0%nat, f64_min O)). change 0%Z with (Z.of_nat 0).
    rewrite argmax_go_src. reflexivity.
  Qed.

  (** ** hist.rs *)
  Lemma tiea_hist_bin_centers : ofZ O 2 = two O ->
    forall edges : list T, src_hist_bin_centers O edges = hist_bin_centers O edges.
  Proof.
    intros H2 edges. unfold src_hist_bin_centers, hist_bin_centers, rs_len.
    change 2%Z with (Z.of_nat 2). rewrite Zleb_of_nat.
    destruct (2 <=? length edges) eqn:E; [|reflexivity]. apply Nat.leb_le in E.
    change (Z.of_nat 2) with 2%Z. rewrite H2.
    change 1%Z with (Z.of_nat 1) at 2. rewrite rs_range_excl_nat.
    rewrite (rs_map_opt_seq _ (fun k => div O (add O (nth k edges (zero O)) (nth (k + 1) (edges) (zero O))) (two O))).
    - cbn [bind]. f_equal.
      rewrite (map2_nth_seq_off (fun a b => div O (add O a b) (two O)) edges edges (zero O) (zero O) 1 (length edges - 1)) by lia.
      destruct edges as [|e0 edges]; [cbn in E; lia|]. cbn [tl skipn].
      replace (length (e0 :: edges) - 1) with (length edges) by (cbn; lia).
      apply map2_firstn_l.
    - intros k Hk. replace (Z.of_nat 1 + Z.of_nat k)%Z with (Z.of_nat (S k)) by lia.
      rewrite rs_usub_S_1. rewrite (rs_get_some edges k (zero O)) by lia.
      rewrite (rs_get_some edges (S k) (zero O)) by lia. replace (k + 1) with (S k) by lia. reflexivity.
  Qed.
End TieA.

(** the hypothesis of [tiea_hist_bin_centers] holds on the three carriers in use *)
Lemma ofZ_two_RO : ofZ RO 2 = two RO. Proof. unfold two. cbn. lra. Qed.
Lemma ofZ_two_QO : ofZ QO 2 = two QO. Proof. reflexivity. Qed.
Lemma ofZ_two_FO : forall t, ofZ (FO t) 2 = two (FO t). Proof. reflexivity. Qed.
