(** Proofs for C11, part 3: pivoted LU ([Model/LU.v]) in exact arithmetic.
    Invariant before column [j] (DESIGN Appendix A.1), with [a] the input, [pi] the pivot vector:
    (I1) columns [c < j] already satisfy (L.U)[i][c] = a[pi i][c];
    (I2) columns [c >= j] still hold the permuted input;
    (I3) [pi] is a permutation;   (I4) the multipliers of columns [c < j] are bounded by 1. *)
From Coq Require Import List Arith Bool Lia Reals Lra Permutation.
From Compute Require Import Base.Ops Base.ListMat Model.Reduce Model.MatMul Model.Subst Model.LU
  Spec.Factor Proofs.C05 Proofs.LinAlgBase Proofs.C11_Subst.
Import ListNotations.
Local Open Scope R_scope.

Local Notation E := (ent 0).

(** ** The pieces of one step *)

Lemma col_update_spec M j n :
  wf M n ->
  length (col_update RO M j n) = n /\
  forall i, (i < n)%nat ->
    nth i (col_update RO M j n) 0 =
    E M i j - rsum (fun k => E M i k * nth k (col_update RO M j n) 0) (Nat.min i j).
Proof.
  intros [Hl Hr].
  set (g := fun (i : nat) (v : list R) => col_entry RO M j i v).
  change (col_update RO M j n) with (build g n).
  split; [apply build_length|].
  intros i Hi. rewrite (build_nth 0 g n i Hi). unfold g at 1, col_entry. cbn [sub add mul zero RO].
  rewrite (fold_left_rsum (fun k => nth k (nth i M []) 0 * nth k (build g i) 0)).
  unfold ent. f_equal. apply rsum_ext. intros k Hk. f_equal.
  rewrite <- (build_firstn g n i) by lia. apply nth_firstn_lt. lia.
Qed.

Lemma set_col_wf M j (v : list R) n : wf M n -> length v = n -> wf (set_col M j v) n.
Proof.
  intros [Hl Hr] Hv. unfold set_col. split.
  - rewrite map2_length. lia.
  - intros i Hi. rewrite (nth_map2 _ M v i [] [] 0) by lia. rewrite upd_length. auto.
Qed.

Lemma ent_set_col M j (v : list R) n i c :
  wf M n -> length v = n -> (i < n)%nat -> (j < n)%nat ->
  E (set_col M j v) i c = if (c =? j)%nat then nth i v 0 else E M i c.
Proof.
  intros [Hl Hr] Hv Hi Hj. unfold set_col, ent.
  rewrite (nth_map2 _ M v i [] [] 0) by lia. rewrite nth_upd, Hr by auto.
  apply Nat.ltb_lt in Hj. rewrite Hj, andb_true_r. reflexivity.
Qed.

Lemma find_pivot_spec (v : list R) j n :
  (j < n)%nat ->
  (j <= find_pivot RO v j n < n)%nat /\
  forall i, (j <= i < n)%nat -> Rabs (nth i v 0) <= Rabs (nth (find_pivot RO v j n) v 0).
Proof.
  intros Hj. unfold find_pivot.
  assert (H : forall m,
    let p := fold_left (fun p i => if ltb RO (abs RO (nth p v (zero RO))) (abs RO (nth i v (zero RO))) then i else p)
                       (seq (S j) m) j in
    (j <= p <= j + m)%nat /\ forall i, (j <= i <= j + m)%nat -> Rabs (nth i v 0) <= Rabs (nth p v 0)).
  { induction m as [|m IH]; cbn zeta.
    - simpl. split; [lia|]. intros i Hi. assert (i = j) by lia. subst. lra.
    - rewrite seq_S, fold_left_app. cbn [fold_left].
      set (p := fold_left _ (seq (S j) m) j) in *. cbn zeta in IH. destruct IH as [Hp Hmax].
      cbn [ltb abs zero RO]. replace (S j + m)%nat with (j + S m)%nat by lia.
      destruct (Rltb (Rabs (nth p v 0)) (Rabs (nth (j + S m) v 0))) eqn:Hlt.
      + apply Rltb_true in Hlt. split; [lia|]. intros i Hi.
        destruct (Nat.eq_dec i (j + S m)) as [->|Hne]; [lra|].
        specialize (Hmax i ltac:(lia)). lra.
      + apply Rltb_false in Hlt. split; [lia|]. intros i Hi.
        destruct (Nat.eq_dec i (j + S m)) as [->|Hne]; [lra|].
        apply Hmax. lia. }
  specialize (H (n - S j)%nat). cbn zeta in H. destruct H as [Hp Hmax].
  split; [lia|]. intros i Hi. apply Hmax. lia.
Qed.

Lemma scale_col_wf M j n : wf M n -> wf (scale_col RO M j) n.
Proof.
  intros [Hl Hr]. unfold scale_col. destruct (eqb RO _ _); [split; auto|].
  split; [rewrite mapi_length; auto|].
  intros i Hi. rewrite (nth_mapi _ M i [] []) by lia.
  destruct (j <? i)%nat; [rewrite upd_length|]; auto.
Qed.

Lemma ent_scale_col M j n i c :
  wf M n -> (i < n)%nat -> (j < n)%nat ->
  E (scale_col RO M j) i c =
  if Reqb (E M j j) 0 then E M i c
  else if (j <? i)%nat && (c =? j)%nat then E M i j / E M j j else E M i c.
Proof.
  intros [Hl Hr] Hi Hj. unfold scale_col. cbn [eqb zero div RO].
  destruct (Reqb (E M j j) 0); [reflexivity|].
  unfold ent at 1. rewrite (nth_mapi _ M i [] []) by lia.
  destruct (j <? i)%nat; cbn [andb]; [|reflexivity].
  rewrite nth_upd, Hr by auto. apply Nat.ltb_lt in Hj. rewrite Hj, andb_true_r. reflexivity.
Qed.

(** ** The invariant *)
Definition Ssum (M : list (list R)) (i c : nat) : R := rsum (fun k => E M i k * E M k c) (Nat.min i c).

Definition lu_inv (a : nat -> nat -> R) (n j : nat) (M : list (list R)) (piv : list nat) : Prop :=
  wf M n /\ is_perm piv n /\
  (forall i c, (i < n)%nat -> (c < j)%nat -> (c < n)%nat ->
     Ssum M i c + (if (i <=? c)%nat then E M i c else E M i c * E M c c) = a (nth i piv 0%nat) c) /\
  (forall i c, (i < n)%nat -> (j <= c)%nat -> (c < n)%nat -> E M i c = a (nth i piv 0%nat) c) /\
  (forall i c, (i < n)%nat -> (c < j)%nat -> (c < i)%nat -> Rabs (E M i c) <= 1).

(** the state between the column update and the scaling: column [j] holds the unnormalised values *)
Definition mid_inv (a : nat -> nat -> R) (n j : nat) (M : list (list R)) (piv : list nat) : Prop :=
  wf M n /\ is_perm piv n /\
  (forall i c, (i < n)%nat -> (c < j)%nat -> (c < n)%nat ->
     Ssum M i c + (if (i <=? c)%nat then E M i c else E M i c * E M c c) = a (nth i piv 0%nat) c) /\
  (forall i, (i < n)%nat -> Ssum M i j + E M i j = a (nth i piv 0%nat) j) /\
  (forall i c, (i < n)%nat -> (j < c)%nat -> (c < n)%nat -> E M i c = a (nth i piv 0%nat) c) /\
  (forall i c, (i < n)%nat -> (c < j)%nat -> (c < i)%nat -> Rabs (E M i c) <= 1).

Lemma Ssum_ext M M' i c i' :
  Nat.min i c = Nat.min i' c ->
  (forall k, (k < Nat.min i c)%nat -> E M' i k = E M i' k) ->
  (forall k, (k < Nat.min i c)%nat -> E M' k c = E M k c) ->
  Ssum M' i c = Ssum M i' c.
Proof.
  intros Hm H1 H2. unfold Ssum. rewrite <- Hm. apply rsum_ext. intros k Hk. rewrite H1, H2 by auto. reflexivity.
Qed.

(** (A) the column update *)
Lemma step_update a n j M piv :
  lu_inv a n j M piv -> (j < n)%nat ->
  mid_inv a n j (set_col M j (col_update RO M j n)) piv /\
  (forall i, (i < n)%nat -> E (set_col M j (col_update RO M j n)) i j = nth i (col_update RO M j n) 0).
Proof.
  intros (Hw & Hp & I1 & I2 & I4) Hj.
  destruct (col_update_spec M j n Hw) as [Hvl Hv].
  set (v := col_update RO M j n) in *.
  pose proof (set_col_wf M j v n Hw Hvl) as Hw1.
  assert (He : forall i c, (i < n)%nat -> E (set_col M j v) i c = if (c =? j)%nat then nth i v 0 else E M i c)
    by (intros; apply (ent_set_col M j v n); auto).
  assert (Hne : forall i c, (i < n)%nat -> c <> j -> E (set_col M j v) i c = E M i c).
  { intros i c Hi Hc. rewrite He by auto. apply Nat.eqb_neq in Hc. rewrite Hc. reflexivity. }
  assert (Hej : forall i, (i < n)%nat -> E (set_col M j v) i j = nth i v 0).
  { intros i Hi. rewrite He by auto. rewrite Nat.eqb_refl. reflexivity. }
  split; [|exact Hej].
  split; [auto|]. split; [auto|]. split; [|split; [|split]].
  - intros i c Hi Hc Hcn. rewrite <- (I1 i c Hi Hc Hcn).
    rewrite (Ssum_ext M (set_col M j v) i c i) by (auto; intros k Hk; apply Hne; lia).
    rewrite !Hne by lia. reflexivity.
  - intros i Hi. rewrite Hej by auto. rewrite (Hv i Hi).
    rewrite (I2 i j Hi) by lia.
    assert (Hs : Ssum (set_col M j v) i j = rsum (fun k => E M i k * nth k v 0) (Nat.min i j)).
    { unfold Ssum. apply rsum_ext. intros k Hk. rewrite Hne, Hej by lia. reflexivity. }
    rewrite Hs. lra.
  - intros i c Hi Hc Hcn. rewrite Hne by lia. apply I2; auto; lia.
  - intros i c Hi Hc Hci. rewrite Hne by lia. apply I4; auto.
Qed.

(** (B) a row exchange between [j] and a later row [p] *)
Lemma step_swap a n j M piv p M2 piv2 :
  mid_inv a n j M piv -> (j <= p < n)%nat ->
  wf M2 n -> is_perm piv2 n ->
  (forall i c, (i < n)%nat -> E M2 i c = E M (transp p j i) c) ->
  (forall i, (i < n)%nat -> nth i piv2 0%nat = nth (transp p j i) piv 0%nat) ->
  mid_inv a n j M2 piv2.
Proof.
  intros (Hw & Hp & I1 & I1j & I2 & I4) Hpj Hw2 Hp2 HE Hpiv.
  assert (Hlow : forall i, (i < j)%nat -> transp p j i = i) by (intros; apply transp_fix; lia).
  assert (Hhigh : forall i, (j <= i < n)%nat -> (j <= transp p j i < n)%nat).
  { intros i Hi. unfold transp. destruct (i =? p)%nat, (i =? j)%nat; lia. }
  assert (Htn : forall i, (i < n)%nat -> (transp p j i < n)%nat) by (intros; apply transp_lt; lia).
  assert (HS : forall i c, (i < n)%nat -> (c <= j)%nat -> Ssum M2 i c = Ssum M (transp p j i) c).
  { intros i c Hi Hc. apply Ssum_ext.
    - destruct (Nat.lt_ge_cases i j); [rewrite Hlow by auto; reflexivity|].
      pose proof (Hhigh i ltac:(lia)). lia.
    - intros k Hk. apply HE; auto.
    - intros k Hk. rewrite HE by lia. rewrite Hlow by lia. reflexivity. }
  split; [auto|]. split; [auto|]. split; [|split; [|split]].
  - intros i c Hi Hc Hcn. rewrite HS, Hpiv by (auto; lia).
    rewrite <- (I1 (transp p j i) c) by auto.
    rewrite (HE i c Hi), (HE c c) by lia. rewrite (Hlow c Hc).
    destruct (Nat.lt_ge_cases i j) as [Hij|Hij].
    + rewrite Hlow by auto. reflexivity.
    + pose proof (Hhigh i ltac:(lia)).
      destruct (Nat.leb_spec i c), (Nat.leb_spec (transp p j i) c); try lia. reflexivity.
  - intros i Hi. rewrite HS, Hpiv, HE by (auto; lia). apply I1j; auto.
  - intros i c Hi Hc Hcn. rewrite HE, Hpiv by auto. apply I2; auto.
  - intros i c Hi Hc Hci. rewrite HE by auto.
    destruct (Nat.lt_ge_cases i j) as [Hij|Hij].
    + rewrite Hlow by auto. apply I4; auto.
    + pose proof (Hhigh i ltac:(lia)). apply I4; auto; lia.
Qed.

(** (C) scaling by a pivot of maximal magnitude *)
Lemma step_scale a n j M piv :
  mid_inv a n j M piv -> (j < n)%nat ->
  (forall i, (j <= i < n)%nat -> Rabs (E M i j) <= Rabs (E M j j)) ->
  lu_inv a n (S j) (scale_col RO M j) piv.
Proof.
  intros (Hw & Hp & I1 & I1j & I2 & I4) Hj Hmax.
  pose proof (scale_col_wf M j n Hw) as Hw3.
  assert (He : forall i c, (i < n)%nat ->
            E (scale_col RO M j) i c =
            if Reqb (E M j j) 0 then E M i c
            else if (j <? i)%nat && (c =? j)%nat then E M i j / E M j j else E M i c)
    by (intros; apply (ent_scale_col M j n); auto).
  assert (Hcol : forall i c, (i < n)%nat -> c <> j -> E (scale_col RO M j) i c = E M i c).
  { intros i c Hi Hc. rewrite He by auto. apply Nat.eqb_neq in Hc. rewrite Hc, andb_false_r.
    destruct (Reqb _ _); reflexivity. }
  assert (Hrow : forall i c, (i <= j)%nat -> E (scale_col RO M j) i c = E M i c).
  { intros i c Hi. rewrite He by lia. destruct (Nat.ltb_spec j i); [lia|]. cbn [andb].
    destruct (Reqb _ _); reflexivity. }
  assert (HS : forall i c, (i < n)%nat -> (c <= j)%nat -> Ssum (scale_col RO M j) i c = Ssum M i c).
  { intros i c Hi Hc. apply Ssum_ext; auto.
    - intros k Hk. apply Hcol; auto; lia.
    - intros k Hk. apply Hrow. lia. }
  split; [auto|]. split; [auto|]. split; [|split].
  - intros i c Hi Hc Hcn. rewrite HS by (auto; lia).
    destruct (Nat.eq_dec c j) as [->|Hcj].
    + (* the new column *)
      rewrite <- (I1j i Hi). f_equal.
      destruct (Nat.leb_spec i j) as [Hij|Hij]; [apply Hrow; auto|].
      rewrite (Hrow j j) by lia. rewrite He by auto.
      destruct (Reqb (E M j j) 0) eqn:Hd.
      * apply Reqb_true in Hd. specialize (Hmax i ltac:(lia)). rewrite Hd, Rabs_R0 in Hmax.
        assert (E M i j = 0) by (destruct (Req_dec (E M i j) 0); auto; pose proof (Rabs_pos_lt _ H); lra).
        rewrite H, Hd. lra.
      * apply Reqb_false in Hd. destruct (Nat.ltb_spec j i); [|lia]. rewrite Nat.eqb_refl. cbn [andb].
        field. auto.
    + rewrite <- (I1 i c Hi) by (auto; lia). rewrite !Hcol by (auto; lia). reflexivity.
  - intros i c Hi Hc Hcn. rewrite Hcol by (auto; lia). apply I2; auto; lia.
  - intros i c Hi Hc Hci. destruct (Nat.eq_dec c j) as [->|Hcj].
    + rewrite He by auto. specialize (Hmax i ltac:(lia)).
      destruct (Reqb (E M j j) 0) eqn:Hd.
      * apply Reqb_true in Hd. rewrite Hd, Rabs_R0 in Hmax. pose proof (Rabs_pos (E M i j)). lra.
      * apply Reqb_false in Hd. destruct (Nat.ltb_spec j i); [|lia]. rewrite Nat.eqb_refl. cbn [andb].
        unfold Rdiv. rewrite Rabs_mult, Rabs_inv by auto.
        assert (0 < Rabs (E M j j)) by (apply Rabs_pos_lt; auto).
        apply (Rmult_le_reg_r (Rabs (E M j j))); auto.
        rewrite Rmult_assoc, Rinv_l by lra. lra.
    + rewrite Hcol by (auto; lia). apply I4; auto; lia.
Qed.

(** one whole step *)
Lemma lu_step_inv a n j M piv :
  lu_inv a n j M piv -> (j < n)%nat ->
  lu_inv a n (S j) (fst (lu_step RO n (M, piv) j)) (snd (lu_step RO n (M, piv) j)).
Proof.
  intros Hinv Hj.
  destruct (step_update a n j M piv Hinv Hj) as [Hmid Hcolj].
  pose proof Hinv as (Hw & Hp & _).
  destruct (col_update_spec M j n Hw) as [Hvl _].
  unfold lu_step.
  set (v := col_update RO M j n) in *.
  set (M1 := set_col M j v) in *.
  destruct (find_pivot_spec v j n Hj) as [Hpr Hpmax].
  set (p := find_pivot RO v j n) in *.
  pose proof Hmid as (Hw1 & _).
  pose proof (is_perm_length _ _ Hp) as Hpl.
  assert (Hmid2 : forall M2 piv2,
            (if (p =? j)%nat then (M1, piv) else (swap [] M1 p j, swap 0%nat piv p j)) = (M2, piv2) ->
            mid_inv a n j M2 piv2 /\ (forall i, (i < n)%nat -> E M2 i j = nth (transp p j i) v 0)).
  { intros M2 piv2 Heq. destruct (Nat.eqb_spec p j) as [Hpj|Hpj]; inversion Heq; subst M2 piv2; clear Heq.
    - split; [exact Hmid|]. intros i Hi. rewrite Hpj, transp_same. apply Hcolj; auto.
    - split.
      + apply (step_swap a n j M1 piv p); auto.
        * apply wf_swap; auto; lia.
        * apply is_perm_swap; auto; lia.
        * intros i c Hi. apply (ent_swap 0 M1 n); auto; lia.
        * intros i Hi. apply nth_swap; lia.
      + intros i Hi. rewrite (ent_swap 0 M1 n) by (auto; lia). apply Hcolj. apply transp_lt; lia. }
  destruct (if (p =? j)%nat then (M1, piv) else (swap [] M1 p j, swap 0%nat piv p j)) as [M2 piv2] eqn:Heq.
  destruct (Hmid2 M2 piv2 eq_refl) as [Hm2 Hc2]. cbn [fst snd].
  apply step_scale; auto.
  intros i Hi. rewrite !Hc2 by lia.
  assert (Hj' : transp p j j = p) by (unfold transp; destruct (Nat.eqb_spec j p); [auto|rewrite Nat.eqb_refl; auto]).
  rewrite Hj'. apply Hpmax.
  unfold transp. destruct (i =? p)%nat, (i =? j)%nat; lia.
Qed.

Lemma lu_rows_inv a n M0 :
  wf M0 n -> (forall i c, (i < n)%nat -> (c < n)%nat -> E M0 i c = a i c) ->
  forall m, (m <= n)%nat ->
    lu_inv a n m (fst (fold_left (lu_step RO n) (seq 0 m) (M0, seq 0 n)))
                 (snd (fold_left (lu_step RO n) (seq 0 m) (M0, seq 0 n))).
Proof.
  intros Hw Ha. induction m as [|m IH]; intros Hm.
  - cbn [seq fold_left fst snd]. split; [auto|]. split; [apply is_perm_id|]. split; [|split].
    + intros; lia.
    + intros i c Hi _ Hc. rewrite seq_nth by auto. apply Ha; auto.
    + intros; lia.
  - rewrite seq_S, fold_left_app. cbn [fold_left Nat.add].
    specialize (IH ltac:(lia)).
    destruct (fold_left (lu_step RO n) (seq 0 m) (M0, seq 0 n)) as [M piv]. cbn [fst snd] in IH.
    apply lu_step_inv; auto.
Qed.

(** ** Flat level *)
Lemma lu_shape a :
  match is_square (length a) with
  | None => lu RO a = None
  | Some n => exists m piv, lu RO a = Some (m, piv) /\ length m = (n * n)%nat /\ length piv = n
  end.
Proof.
  unfold lu. destruct (is_square (length a)) as [n|] eqn:Hs; cbn [bind]; auto.
  pose proof (is_square_some _ _ Hs) as Hn.
  pose proof (lu_rows_inv (fun i c => E (unflatten a n n) i c) n (unflatten a n n)
                (wf_unflatten a n Hn) ltac:(auto) n (le_n n)) as Hinv.
  unfold lu_rows. destruct (fold_left _ _ _) as [M piv]. cbn [fst snd] in Hinv.
  destruct Hinv as (Hw & Hp & _).
  exists (flatten M), piv. split; [reflexivity|]. split.
  - apply (wf_flatten_length _ n Hw).
  - apply (is_perm_length _ _ Hp).
Qed.

Lemma lu_not_square a : (forall n, (n * n)%nat <> length a) -> lu RO a = None.
Proof. intros H. unfold lu. rewrite is_square_none by auto. reflexivity. Qed.

(** sum over all k of L[i][k].U[k][c] from the two truncated forms of the invariant *)
Lemma LU_sum_full (m : list R) n i c :
  (i < n)%nat -> (c < n)%nat ->
  rsum (fun k => Lof m n i k * Uof m n k c) n =
  rsum (fun k => getm m n i k * getm m n k c) (Nat.min i c)
  + (if (i <=? c)%nat then getm m n i c else getm m n i c * getm m n c c).
Proof.
  intros Hi Hc. unfold Lof, Uof.
  destruct (Nat.leb_spec i c) as [Hic|Hic].
  - rewrite Nat.min_l by lia.
    rewrite (rsum_upto _ i n Hi).
    + rewrite Nat.ltb_irrefl, Nat.eqb_refl. destruct (Nat.leb_spec i c); [|lia]. rewrite Rmult_1_l. f_equal.
      apply rsum_ext. intros k Hk. destruct (Nat.ltb_spec k i); [|lia]. destruct (Nat.leb_spec k c); [|lia]. reflexivity.
    + intros k Hk. destruct (Nat.ltb_spec k i); [lia|]. destruct (Nat.eqb_spec k i); [lia|]. lra.
  - rewrite Nat.min_r by lia.
    rewrite (rsum_upto _ c n Hc).
    + destruct (Nat.ltb_spec c i); [|lia]. rewrite Nat.leb_refl. f_equal.
      apply rsum_ext. intros k Hk. destruct (Nat.ltb_spec k i); [|lia]. destruct (Nat.leb_spec k c); [|lia]. reflexivity.
    + intros k Hk. destruct (Nat.leb_spec k c); [lia|]. lra.
Qed.

Lemma lu_reconstructs a m piv n :
  lu RO a = Some (m, piv) -> (n * n)%nat = length a ->
  length m = (n * n)%nat /\ is_perm piv n /\
  (forall i c, (i < n)%nat -> (c < n)%nat ->
     rsum (fun k => Lof m n i k * Uof m n k c) n = getm a n (nth i piv 0%nat) c) /\
  (forall i k, (i < n)%nat -> (k < i)%nat -> Rabs (getm m n i k) <= 1).
Proof.
  intros H Hn. unfold lu in H. rewrite <- Hn, is_square_sq in H. cbn [bind] in H.
  pose proof (lu_rows_inv (fun i c => E (unflatten a n n) i c) n (unflatten a n n)
                (wf_unflatten a n Hn) ltac:(auto) n (le_n n)) as Hinv.
  unfold lu_rows in H. destruct (fold_left _ _ _) as [M pv]. cbn [fst snd] in Hinv.
  inversion H; subst m piv; clear H.
  destruct Hinv as (Hw & Hp & I1 & _ & I4).
  assert (Hg : forall i j, (i < n)%nat -> (j < n)%nat -> getm (flatten M) n i j = E M i j)
    by (intros; apply nth_flatten; auto).
  split; [apply (wf_flatten_length _ n Hw)|]. split; [auto|]. split.
  - intros i c Hi Hc. rewrite LU_sum_full by auto.
    pose proof (is_perm_lt _ _ i Hp Hi) as Hpi.
    replace (getm a n (nth i pv 0%nat) c) with (E (unflatten a n n) (nth i pv 0%nat) c)
      by (apply ent_unflatten; auto).
    rewrite <- (I1 i c Hi Hc Hc). unfold Ssum. f_equal.
    + apply rsum_ext. intros k Hk. rewrite !Hg by lia. reflexivity.
    + rewrite !Hg by lia. reflexivity.
  - intros i k Hi Hk. rewrite Hg by lia. apply I4; auto. lia.
Qed.

Lemma lu_L_bounded a m piv n :
  lu RO a = Some (m, piv) -> (n * n)%nat = length a ->
  forall i k, (i < n)%nat -> (k < i)%nat -> Rabs (getm m n i k) <= 1.
Proof. intros H Hn. exact (proj2 (proj2 (proj2 (lu_reconstructs a m piv n H Hn)))). Qed.

Lemma lu_pivots_perm a m piv n :
  lu RO a = Some (m, piv) -> (n * n)%nat = length a -> Permutation piv (seq 0 n).
Proof. intros H Hn. exact (proj1 (proj2 (lu_reconstructs a m piv n H Hn))). Qed.

(** a column whose pivot is exactly zero is left unscaled (no division by zero is ever performed) *)
Lemma scale_col_skips M j : E M j j = 0 -> scale_col RO M j = M.
Proof. intros H. unfold scale_col. cbn [eqb zero RO]. rewrite H. rewrite (proj2 (Reqb_true 0 0) eq_refl). reflexivity. Qed.
