(** * C03 on BINARY64: the supports of `Uniform::sample` and `Exponential::sample` as the crate computes them
    (Flocq's specification of the primitive floats; the random source is ANY source whose unit variates are finite
    doubles of [0, 1 - 2^-53] — the executable `alea` model is one, by C19).

    Uniform: `(upper - lower) * alea::f64() + lower` — three roundings.  For finite lower <= upper whose difference does
    not overflow, every draw is a finite double of [lower, upper].  The upper end is INCLUDED (the final addition can
    round up to `upper`; the real-carrier theorem has `< upper`), and it is never exceeded: that is not a consequence of
    monotone rounding alone (the rounded width d = RN(upper - lower) may exceed upper - lower), it uses u <= 1 - 2^-53.

    Exponential: `-ln(u) / lambda` with u the first strictly positive `Uniform(0,1)` draw — the argument handed to ln is a
    finite double of (0, 1 - 2^-53], and under the NAMED hypothesis that the recorded table's ln is finite and <= 0 there
    the draw compares >= 0 (a finite double, or +inf when the quotient overflows). *)
From Coq Require Import Reals Floats List Lra Lia Bool ZArith NArith.
From Flocq Require Import Core Plus_error BinarySingleNaN.
From Flocq Require PrimFloat.
From Compute Require Import Base.Ops Base.Rng Model.Samplers.
From Compute Require Import Model.Resample Proofs.C19Rng.
From Compute Require Import Proofs.C17_softmax_f64 Proofs.C19F64.
From Compute Require Proofs.C03.
Import ListNotations.
Local Open Scope R_scope.
Local Existing Instance Flocq.IEEE754.PrimFloat.Hprec.
Local Existing Instance Flocq.IEEE754.PrimFloat.Hmax.

(** ** real-number level: the format is FLT(-1074, 53), rounding to nearest even *)
Local Notation fx := (FLT_exp (-1074) 53).
Local Notation F := (generic_format radix2 fx).
Local Notation RN := (round radix2 fx ZnearestE).
Local Notation DN := (round radix2 fx Zfloor).
Local Notation UP := (round radix2 fx Zceil).

Lemma rnd_is_RN q : rnd q = RN q.
Proof. reflexivity. Qed.

Lemma RN_le a b : a <= b -> RN a <= RN b.
Proof. apply round_le; [apply FLT_exp_valid; reflexivity|apply valid_rnd_N]. Qed.
Lemma RN_F a : F a -> RN a = a.
Proof. apply round_generic. apply valid_rnd_N. Qed.
Lemma F_RN a : F (RN a).
Proof. apply generic_format_round; [apply FLT_exp_valid; reflexivity|apply valid_rnd_N]. Qed.
Lemma RN_0 : RN 0 = 0.
Proof. apply round_0. apply valid_rnd_N. Qed.

(** the width: d = RN(hi - lo), the scaled variate p = RN(d * u) never carries lo past hi *)
Lemma uniform_width_real (lo hi u : R) :
  F lo -> F hi -> lo <= hi -> 0 <= u <= 1 - / 2 ^ 53 ->
  0 <= RN (RN (hi - lo) * u) <= RN (hi - lo) /\ RN (RN (hi - lo) * u) <= hi - lo.
Proof.
  intros Flo Fhi Hle Hu.
  assert (P : 0 < / 2 ^ 53) by (apply Rinv_0_lt_compat, pow_lt; lra).
  set (x := hi - lo). assert (Hx : 0 <= x) by (unfold x; lra).
  set (d := RN x).
  assert (Hd : 0 <= d) by (unfold d; rewrite <- RN_0; apply RN_le; exact Hx).
  assert (Fd : F d) by apply F_RN.
  set (y := d * u).
  assert (Hy : 0 <= y <= d * (1 - / 2 ^ 53)).
  { unfold y. split; [apply Rmult_le_pos; lra|apply Rmult_le_compat_l; lra]. }
  assert (Hyd : y <= d) by nra.
  set (p := RN y).
  assert (Hp : 0 <= p <= d).
  { unfold p. split; [rewrite <- RN_0; apply RN_le; lra|]. rewrite <- (RN_F d Fd). apply RN_le. exact Hyd. }
  split; [exact Hp|].
  (* p <= x *)
  destruct (Req_dec d x) as [E|NE]; [lra|].
  assert (NF : ~ F x).
  { intros Fx. apply NE. unfold d. apply RN_F. exact Fx. }
  (* inexact difference: x is in the normal range *)
  assert (Hbig : bpow radix2 (-1021) < x).
  { destruct (Rle_or_lt x (bpow radix2 (-1021))) as [S|S]; [exfalso|exact S].
    apply NF. unfold x, Rminus. apply (FLT_format_plus_small radix2 (-1074) 53); [exact Fhi|apply generic_format_opp; exact Flo|].
    fold (Rminus hi lo). fold x. rewrite Rabs_pos_eq by exact Hx. exact S. }
  assert (V : Valid_exp fx) by (apply FLT_exp_valid; reflexivity).
  pose proof (round_UP_DN_ulp radix2 fx x NF) as UD.
  destruct (round_DN_pt radix2 fx x) as (FD & LD & _).
  destruct (round_UP_pt radix2 fx x) as (FU & LU & MU).
  assert (Hulp : ulp radix2 fx x <= x * bpow radix2 (1 - 53)).
  { pose proof (ulp_FLT_le radix2 (-1074) 53 x) as U. rewrite (Rabs_pos_eq x Hx) in U. apply U.
    apply Rle_trans with (bpow radix2 (-1021)); [apply bpow_le; lia|lra]. }
  assert (B52 : bpow radix2 (1 - 53) = 2 * / 2 ^ 53).
  { change (bpow radix2 (1 - 53)) with (/ IZR (2 ^ 52)).
    rewrite (pow_IZR 2 53). change (Z.of_nat 53) with 53%Z.
    replace (IZR (2 ^ 53)) with (2 * IZR (2 ^ 52)) by (rewrite <- mult_IZR; reflexivity).
    assert (IZR (2 ^ 52) <> 0) by (apply IZR_neq; lia). field. assumption. }
  rewrite B52 in Hulp.
  destruct (round_DN_or_UP radix2 fx ZnearestE x) as [E|E]; fold d in E.
  - (* rounded down: p <= d <= x *) lra.
  - (* rounded up: d = UP x > x *)
    assert (Hxd : x < d).
    { destruct (Rle_lt_or_eq_dec x d) as [L|L]; [rewrite E; exact LU|exact L|]. exfalso. apply NE. symmetry. exact L. }
    destruct (Rle_or_lt p x) as [Done|Hpx]; [exact Done|exfalso].
    assert (Fp : F p) by apply F_RN.
    assert (Epd : p = d).
    { apply Rle_antisym; [apply Hp|]. rewrite E. apply MU; [exact Fp|lra]. }
    (* p = RN y is nearest to y: not farther than DN x *)
    destruct (round_N_pt radix2 fx (fun z => negb (Z.even z)) y) as (_ & Near).
    fold p in Near. specialize (Near _ FD). rewrite Epd in Near.
    assert (DNlt : DN x < d) by lra.
    assert (UDd : d = DN x + ulp radix2 fx x) by (rewrite <- UD; exact E).
    rewrite (Rabs_pos_eq (d - y)) in Near by lra.
    unfold Rabs in Near. destruct (Rcase_abs (DN x - y)) as [C|C]; nra.
Qed.

Lemma uniform_real (lo hi u : R) :
  F lo -> F hi -> lo <= hi -> 0 <= u <= 1 - / 2 ^ 53 ->
  lo <= RN (RN (RN (hi - lo) * u) + lo) <= hi.
Proof.
  intros Flo Fhi Hle Hu. destruct (uniform_width_real lo hi u Flo Fhi Hle Hu) as ((P0 & _) & P1).
  split.
  - rewrite <- (RN_F lo Flo) at 1. apply RN_le. lra.
  - rewrite <- (RN_F hi Fhi) at 2. apply RN_le. lra.
Qed.

(** ** binary64 level *)
Lemma F_val (a : f64) : F (val a).
Proof. unfold val. apply (generic_format_B2R prec emax). Qed.
Lemma val_lt_emax (a : f64) : Rabs (val a) < bpow radix2 emax.
Proof. unfold val. apply abs_B2R_lt_emax. Qed.
Lemma val_one : val 1%float = 1.
Proof. unfold val. change 1%float with Coq.Floats.PrimFloat.one. rewrite FP.one_equiv, FP.Prim2B_B2Prim. apply Bone_correct. Qed.
Lemma fin_one : fin 1%float.
Proof. unfold fin. change 1%float with Coq.Floats.PrimFloat.one. rewrite FP.one_equiv, FP.Prim2B_B2Prim. apply is_finite_Bone. Qed.
Lemma val_zero : val 0%float = 0.
Proof. unfold val. rewrite Prim2B_zero. reflexivity. Qed.
Lemma fin_zero : fin 0%float.
Proof. unfold fin. rewrite Prim2B_zero. reflexivity. Qed.

(** a source of unit variates on binary64: every `f64()` is a finite double of [0, 1 - 2^-53] (= of [0, 1): 1 - 2^-53 is
    the largest double below 1) *)
Definition unit_source64 {S : Type} (src : source S f64) : Prop :=
  forall s, fin (fst (next_f64 src s)) /\ 0 <= val (fst (next_f64 src s)) <= 1 - / 2 ^ 53.

(** the executable `alea` model is one (C19), whatever the libm table and the range fuel *)
Lemma alea_unit_source64 (t : libm_table) (range_fuel : nat) : unit_source64 (alea_source (FO t) range_fuel).
Proof.
  intros s. cbn [next_f64 alea_source].
  destruct (alea_f64_binary64 t s) as (_ & Ff & _ & R & _). split; assumption.
Qed.

(** the three operations of `(hi - lo) * u + lo` *)
Lemma uniform_ops (lo hi u : f64) :
  fin lo -> fin hi -> val lo <= val hi -> Rabs (RN (val hi - val lo)) < bpow radix2 emax ->
  fin u -> 0 <= val u <= 1 - / 2 ^ 53 ->
  fin ((hi - lo) * u + lo)%float /\
  val ((hi - lo) * u + lo)%float = RN (RN (RN (val hi - val lo) * val u) + val lo) /\
  val lo <= val ((hi - lo) * u + lo)%float <= val hi.
Proof.
  intros Flo Fhi Hle Hov Fu Hu.
  pose proof (uniform_width_real _ _ _ (F_val lo) (F_val hi) Hle Hu) as ((P0 & P1) & P2).
  pose proof (uniform_real _ _ _ (F_val lo) (F_val hi) Hle Hu) as R.
  (* hi - lo *)
  pose proof (Bminus_correct prec emax FP.Hprec FP.Hmax mode_NE _ _ Fhi Flo) as Hs.
  fold (val hi) (val lo) in Hs. rewrite rnd_is_RN in Hs. rewrite Rlt_bool_true in Hs by exact Hov.
  destruct Hs as (Vd & Fd & _). rewrite <- FP.sub_equiv in Vd, Fd. fold (val (hi - lo)%float) in Vd.
  (* * u *)
  pose proof (Bmult_correct prec emax FP.Hprec FP.Hmax mode_NE (FP.Prim2B (hi - lo)%float) (FP.Prim2B u)) as Hm.
  fold (val (hi - lo)%float) (val u) in Hm. rewrite rnd_is_RN, Vd in Hm.
  rewrite Rlt_bool_true in Hm.
  2:{ rewrite Rabs_pos_eq by lra. apply Rle_lt_trans with (RN (val hi - val lo)); [exact P1|].
      apply Rle_lt_trans with (2 := Hov). apply Rle_abs. }
  destruct Hm as (Vp & Fp & _). rewrite <- FP.mul_equiv in Vp, Fp. fold (val ((hi - lo) * u)%float) in Vp.
  rewrite Fd in Fp. unfold fin in Fu. rewrite Fu in Fp. cbn [andb] in Fp.
  (* + lo *)
  pose proof (Bplus_correct prec emax FP.Hprec FP.Hmax mode_NE _ _ Fp Flo) as Ha.
  fold (val ((hi - lo) * u)%float) (val lo) in Ha. rewrite rnd_is_RN, Vp in Ha.
  rewrite Rlt_bool_true in Ha.
  2:{ pose proof (val_lt_emax lo) as Blo. pose proof (val_lt_emax hi) as Bhi.
      apply Rabs_def1.
      - apply Rle_lt_trans with (val hi); [apply R|]. apply Rle_lt_trans with (2 := Bhi). apply Rle_abs.
      - apply Rlt_le_trans with (val lo); [|apply R]. apply Rabs_def2 in Blo. lra. }
  destruct Ha as (Vr & Fr & _). rewrite <- FP.add_equiv in Vr, Fr. fold (val ((hi - lo) * u + lo)%float) in Vr.
  split; [exact Fr|]. split; [exact Vr|]. rewrite Vr. exact R.
Qed.

(** `Uniform::sample` on binary64, every source of unit variates *)
Lemma uniform_support_f64 {S : Type} (t : libm_table) (src : source S f64) (lo hi : f64) (s : S) :
  unit_source64 src ->
  fin lo -> fin hi -> val lo <= val hi -> Rabs (rnd (val hi - val lo)) < bpow radix2 emax ->
  fin (fst (uniform_sample (FO t) src lo hi s)) /\
  val lo <= val (fst (uniform_sample (FO t) src lo hi s)) <= val hi /\
  val (fst (uniform_sample (FO t) src lo hi s))
    = rnd (rnd (rnd (val hi - val lo) * val (fst (next_f64 src s))) + val lo) /\
  snd (uniform_sample (FO t) src lo hi s) = snd (next_f64 src s).
Proof.
  intros U Flo Fhi Hle Hov. destruct (U s) as (Fu & Hu).
  unfold uniform_sample. destruct (next_f64 src s) as [u s']. cbn [fst snd add sub mul FO] in *.
  destruct (uniform_ops lo hi u Flo Fhi Hle Hov Fu Hu) as (A & B & C).
  split; [exact A|]. split; [exact C|]. split; [exact B|reflexivity].
Qed.

(** `Uniform(0,1).sample()` = `(1 - 0) * u + 0` returns the variate itself (as a real number; a zero comes back as +0) *)
Lemma unit_uniform_f64 (u : f64) :
  fin u -> 0 <= val u <= 1 - / 2 ^ 53 ->
  fin ((1 - 0) * u + 0)%float /\ val ((1 - 0) * u + 0)%float = val u.
Proof.
  intros Fu Hu.
  assert (P : 0 < / 2 ^ 53) by (apply Rinv_0_lt_compat, pow_lt; lra).
  assert (Hov : Rabs (RN (val 1%float - val 0%float)) < bpow radix2 emax).
  { rewrite val_one, val_zero, Rminus_0_r. rewrite RN_F by (rewrite <- val_one; apply F_val).
    rewrite Rabs_R1. change 1 with (bpow radix2 0). apply bpow_lt. unfold emax. lia. }
  destruct (uniform_ops 0%float 1%float u fin_zero fin_one ltac:(rewrite val_one, val_zero; lra) Hov Fu Hu) as (A & B & _).
  split; [exact A|]. rewrite B, val_one, val_zero, Rminus_0_r, Rplus_0_r.
  rewrite (RN_F 1) by (rewrite <- val_one; apply F_val). rewrite Rmult_1_l.
  rewrite (RN_F (val u)) by apply F_val. apply RN_F, F_val.
Qed.

(** the rejection loop `loop { let u = Uniform(0,1).sample(); if u > 0. { break u } }`: what it returns is a finite double
    of (0, 1 - 2^-53] *)
Lemma positive_unit_f64 {S : Type} (t : libm_table) (src : source S f64) :
  unit_source64 src ->
  forall (fuel : nat) (s : S) (u : f64) (s' : S),
    positive_unit (FO t) src fuel s = Ok (u, s') -> fin u /\ 0 < val u <= 1 - / 2 ^ 53.
Proof.
  intros U fuel. induction fuel as [|fuel IH]; intros s u s' H; [discriminate H|].
  cbn [positive_unit] in H. unfold uniform_sample in H.
  destruct (U s) as (Fu & Hu). destruct (next_f64 src s) as [u0 s0]. cbn [fst] in Fu, Hu.
  cbn [add sub mul one zero ltb FO] in H.
  destruct (unit_uniform_f64 u0 Fu Hu) as (A & B).
  destruct (PrimFloat.ltb 0 ((1 - 0) * u0 + 0)) eqn:L.
  - injection H as <- <-. split; [exact A|]. rewrite (ltb_fin _ _ fin_zero A), val_zero, B in L.
    destruct (Rlt_bool_spec 0 (val u0)) as [Pos|]; [|discriminate L].
    change (1 * u0 + 0)%float with ((1 - 0) * u0 + 0)%float. rewrite B. lra.
  - eapply IH. exact H.
Qed.

(** ** the NAMED hypothesis on the recorded libm table: on the arguments [args], the table's ln of a finite double of
    (0, 1] is a finite double <= 0 *)
Definition tln (t : libm_table) (a : f64) : f64 := f1 (FO t) Ln a.
Definition ln_tbl_nonpos_on_unit (t : libm_table) (args : list f64) : Prop :=
  forall a, In a args -> fin a -> 0 < val a <= 1 -> fin (tln t a) /\ val (tln t a) <= 0.

(** [- l / lambda] for a finite l <= 0 and a finite lambda > 0 compares >= 0: a finite non-negative double, or +inf when
    the quotient overflows *)
Lemma neg_div_nonneg (l lambda : f64) :
  fin l -> val l <= 0 -> fin lambda -> 0 < val lambda ->
  PrimFloat.leb 0 (- l / lambda)%float = true /\
  (Rabs (rnd (- val l / val lambda)) < bpow radix2 emax ->
     fin (- l / lambda)%float /\ val (- l / lambda)%float = rnd (- val l / val lambda) /\ 0 <= val (- l / lambda)%float).
Proof.
  intros Fl Hl Fla Hla.
  assert (Fn : fin (- l)%float) by (unfold fin; rewrite FP.opp_equiv, is_finite_Bopp; exact Fl).
  assert (Vn : val (- l)%float = - val l) by (unfold val; rewrite FP.opp_equiv; apply B2R_Bopp).
  assert (Hla0 : val lambda <> 0) by lra.
  pose proof (Bdiv_correct prec emax FP.Hprec FP.Hmax mode_NE (FP.Prim2B (- l)%float) (FP.Prim2B lambda) Hla0) as H.
  fold (val (- l)%float) (val lambda) in H. rewrite Vn in H.
  assert (Hq : 0 <= - val l / val lambda).
  { apply Rmult_le_pos; [lra|]. apply Rlt_le, Rinv_0_lt_compat. exact Hla. }
  assert (Hr : 0 <= rnd (- val l / val lambda)).
  { rewrite rnd_is_RN, <- RN_0. apply RN_le. exact Hq. }
  destruct (Rlt_bool_spec (Rabs (rnd (- val l / val lambda))) (bpow radix2 emax)) as [E|E].
  - destruct H as (HR & HF & _). rewrite <- FP.div_equiv in HR, HF. fold (val (- l / lambda)%float) in HR.
    assert (Fv : fin (- l / lambda)%float) by (unfold fin; rewrite HF; exact Fn).
    split.
    + rewrite FP.leb_equiv, (Bleb_correct _ _ _ _ fin_zero Fv). fold (val 0%float) (val (- l / lambda)%float).
      rewrite val_zero, HR. apply Rle_bool_true. exact Hr.
    + intros _. split; [exact Fv|]. split; [exact HR|]. rewrite HR. exact Hr.
  - split; [|intros C; exfalso; lra].
    (* overflow: the quotient is +inf (both operands are non-negative, -l is not a zero) *)
    assert (Sla : Bsign (FP.Prim2B lambda) = false).
    { pose proof (sign_val _ Fla) as P. fold (val lambda) in P. destruct (Bsign (FP.Prim2B lambda)); [lra|reflexivity]. }
    assert (Sn : Bsign (FP.Prim2B (- l)%float) = false).
    { pose proof (sign_val _ Fn) as P. fold (val (- l)%float) in P. rewrite Vn in P.
      destruct (Bsign (FP.Prim2B (- l)%float)); [|reflexivity]. exfalso.
      assert (Z0 : - val l / val lambda = 0) by (replace (val l) with 0 by lra; unfold Rdiv; ring).
      rewrite Z0, rnd_is_RN, RN_0, Rabs_R0 in E. pose proof (bpow_gt_0 radix2 emax). lra. }
    rewrite Sla, Sn in H. cbn in H.
    rewrite FP.leb_equiv, Prim2B_zero, FP.div_equiv.
    destruct (Bdiv mode_NE (FP.Prim2B (- l)%float) (FP.Prim2B lambda)) as [s0|s0| |s0 m0 e0 H0]; cbn in H; try discriminate H.
    injection H as ->. reflexivity.
Qed.

(** `Exponential::sample` on binary64, every source of unit variates *)
Lemma exponential_support_f64 {S : Type} (t : libm_table) (src : source S f64) (fuel : nat) (lambda : f64) (s : S) (v : f64) (s' : S) :
  unit_source64 src -> fin lambda -> 0 < val lambda ->
  exponential_sample (FO t) src fuel lambda s = Ok (v, s') ->
  exists u : f64,
    positive_unit (FO t) src fuel s = Ok (u, s') /\ fin u /\ 0 < val u <= 1 - / 2 ^ 53 /\
    v = (- tln t u / lambda)%float /\
    (ln_tbl_nonpos_on_unit t [u] ->
       PrimFloat.leb 0 v = true /\ is_nan (FO t) v = false /\
       (Rabs (rnd (- val (tln t u) / val lambda)) < bpow radix2 emax ->
          fin v /\ val v = rnd (- val (tln t u) / val lambda) /\ 0 <= val v)).
Proof.
  intros U Fla Hla H. unfold exponential_sample in H.
  destruct (positive_unit (FO t) src fuel s) as [[u s1]| |] eqn:PU; cbn [res_bind] in H; try discriminate H.
  injection H as <- <-. destruct (positive_unit_f64 t src U fuel s u s1 PU) as (Fu & Hu).
  exists u. split; [reflexivity|]. split; [exact Fu|]. split; [exact Hu|]. split; [reflexivity|].
  intros L. destruct (L u (or_introl eq_refl) Fu) as (Fl & Hl).
  { assert (P : 0 < / 2 ^ 53) by (apply Rinv_0_lt_compat, pow_lt; lra). lra. }
  cbn [neg div f1 FO]. fold (tln t u) in *. change (lookup1 (tbl1 t) Ln u) with (tln t u).
  destruct (neg_div_nonneg (tln t u) lambda Fl Hl Fla Hla) as (A & B).
  split; [exact A|]. split; [|exact B].
  unfold is_nan. cbn [eqb FO]. rewrite FP.eqb_equiv. rewrite FP.leb_equiv in A.
  destruct (FP.Prim2B (- tln t u / lambda)%float) as [s0|s0| |s0 m0 e0 H0].
  - destruct s0; reflexivity.
  - destruct s0; reflexivity.
  - rewrite Prim2B_zero in A. discriminate A.
  - unfold Beqb, SFeqb. cbn. rewrite Z.compare_refl, Pos.compare_cont_refl. destruct s0; reflexivity.
Qed.

(** ** decidable forms of the hypotheses *)
(** "the difference does not overflow" = the binary64 difference is finite *)
Lemma sub_fin_no_overflow (hi lo : f64) :
  fin hi -> fin lo -> fin (hi - lo)%float -> Rabs (rnd (val hi - val lo)) < bpow radix2 emax.
Proof.
  intros Fhi Flo Fd.
  pose proof (Bminus_correct prec emax FP.Hprec FP.Hmax mode_NE _ _ Fhi Flo) as Hs.
  fold (val hi) (val lo) in Hs.
  destruct (Rlt_bool_spec (Rabs (rnd (val hi - val lo))) (bpow radix2 emax)) as [E|E]; [exact E|exfalso].
  destruct Hs as (HS & _). unfold fin in Fd. rewrite FP.sub_equiv in Fd.
  destruct (Bminus mode_NE (FP.Prim2B hi) (FP.Prim2B lo)) as [s0|s0| |s0 m0 e0 H0]; try discriminate Fd.
  - cbn in HS. destruct (Bsign (FP.Prim2B hi)); discriminate HS.
  - cbn in HS. destruct (Bsign (FP.Prim2B hi)); discriminate HS.
Qed.
Lemma leb_val (a b : f64) : fin a -> fin b -> PrimFloat.leb a b = true -> val a <= val b.
Proof.
  intros Fa Fb H. rewrite FP.leb_equiv, (Bleb_correct _ _ _ _ Fa Fb) in H.
  destruct (Rle_bool_spec (B2R (FP.Prim2B a)) (B2R (FP.Prim2B b))); [assumption|discriminate].
Qed.
Lemma ltb_val (a b : f64) : fin a -> fin b -> PrimFloat.ltb a b = true -> val a < val b.
Proof.
  intros Fa Fb H. rewrite (ltb_fin _ _ Fa Fb) in H. destruct (Rlt_bool_spec (val a) (val b)); [assumption|discriminate].
Qed.

(** the pinned form of the Uniform theorem: the no-overflow hypothesis as finiteness of the binary64 difference *)
Lemma uniform_support_f64_pin {S : Type} (t : libm_table) (src : source S f64) (lo hi : f64) (s : S) :
  unit_source64 src ->
  fin lo -> fin hi -> val lo <= val hi -> fin (hi - lo)%float ->
  fin (fst (uniform_sample (FO t) src lo hi s)) /\
  val lo <= val (fst (uniform_sample (FO t) src lo hi s)) <= val hi /\
  val (fst (uniform_sample (FO t) src lo hi s))
    = rnd (rnd (rnd (val hi - val lo) * val (fst (next_f64 src s))) + val lo) /\
  snd (uniform_sample (FO t) src lo hi s) = snd (next_f64 src s).
Proof.
  intros U Flo Fhi Hle Fd. apply uniform_support_f64; try assumption. apply sub_fin_no_overflow; assumption.
Qed.

(** ** examples: the hypotheses are satisfiable, on the executable generator *)
Example uniform_f64_hyps_ex :
  fin (-1.5)%float /\ fin 2.25%float /\ val (-1.5)%float <= val 2.25%float /\ fin (2.25 - -1.5)%float /\
  uniform_sample (FO empty_tbl) (alea_source (FO empty_tbl) 0) (-1.5)%float 2.25%float (set_seed 42)
    = (0x1.0d9753cf7f3c6p+0%float, 11562461410679940185%N).
Proof.
  assert (A : fin (-1.5)%float) by (vm_compute; reflexivity).
  assert (B : fin 2.25%float) by (vm_compute; reflexivity).
  split; [exact A|]. split; [exact B|]. split; [apply (leb_val _ _ A B); vm_compute; reflexivity|].
  split; vm_compute; reflexivity.
Qed.
(** the upper end IS attained on binary64 (so the support clause is the closed interval): between 1 and the next double,
    every variate above 1/2 rounds the sum up to `upper` *)
Example uniform_f64_upper_attained_ex :
  fin 1%float /\ fin 0x1.0000000000001p+0%float /\ val 1%float <= val 0x1.0000000000001p+0%float /\
  fin (0x1.0000000000001p+0 - 1)%float /\
  fst (uniform_sample (FO empty_tbl) (alea_source (FO empty_tbl) 0) 1%float 0x1.0000000000001p+0%float (set_seed 42))
    = 0x1.0000000000001p+0%float.
Proof.
  assert (B : fin 0x1.0000000000001p+0%float) by (vm_compute; reflexivity).
  split; [exact fin_one|]. split; [exact B|]. split; [apply (leb_val _ _ fin_one B); vm_compute; reflexivity|].
  split; vm_compute; reflexivity.
Qed.

Definition exponential_ex_tbl : libm_table :=
  {| tbl1 := [(Ln, 0x1.5c94f97fbb536p-1%float, (-0x1.89ad9b925a81ap-2)%float)]; tbl2 := [] |}.
Example exponential_f64_hyps_ex :
  fin 2%float /\ 0 < val 2%float /\
  exponential_sample (FO exponential_ex_tbl) (alea_source (FO exponential_ex_tbl) 0) 1 2%float (set_seed 42)
    = Ok (0x1.89ad9b925a81ap-3%float, 11562461410679940185%N) /\
  positive_unit (FO exponential_ex_tbl) (alea_source (FO exponential_ex_tbl) 0) 1 (set_seed 42)
    = Ok (0x1.5c94f97fbb536p-1%float, 11562461410679940185%N) /\
  ln_tbl_nonpos_on_unit exponential_ex_tbl [0x1.5c94f97fbb536p-1%float].
Proof.
  assert (A : fin 2%float) by (vm_compute; reflexivity).
  split; [exact A|]. split; [rewrite <- val_zero; apply (ltb_val _ _ fin_zero A); vm_compute; reflexivity|].
  split; [vm_compute; reflexivity|]. split; [vm_compute; reflexivity|].
  intros a [<-|[]] _ _.
  change (tln exponential_ex_tbl 0x1.5c94f97fbb536p-1%float) with (-0x1.89ad9b925a81ap-2)%float.
  assert (L : fin (-0x1.89ad9b925a81ap-2)%float) by (vm_compute; reflexivity).
  split; [exact L|]. rewrite <- val_zero. apply (leb_val _ _ L fin_zero). vm_compute. reflexivity.
Qed.

(** ** the same on the executable `alea` model (no hypothesis on the source left) *)
Lemma uniform_support_alea (t : libm_table) (rf : nat) (lo hi : f64) (s : rng) :
  fin lo -> fin hi -> val lo <= val hi -> fin (hi - lo)%float ->
  fin (fst (uniform_sample (FO t) (alea_source (FO t) rf) lo hi s)) /\
  val lo <= val (fst (uniform_sample (FO t) (alea_source (FO t) rf) lo hi s)) <= val hi /\
  snd (uniform_sample (FO t) (alea_source (FO t) rf) lo hi s) = snd (u64 s).
Proof.
  intros Flo Fhi Hle Fd.
  destruct (uniform_support_f64_pin t (alea_source (FO t) rf) lo hi s (alea_unit_source64 t rf) Flo Fhi Hle Fd) as (A & B & _ & D).
  split; [exact A|]. split; [exact B|]. rewrite D. cbn [next_f64 alea_source].
  destruct (alea_f64_binary64 t s) as (_ & _ & _ & _ & _ & _ & _ & E). exact E.
Qed.
Lemma exponential_support_alea (t : libm_table) (rf fuel : nat) (lambda : f64) (s : rng) (v : f64) (s' : rng) :
  fin lambda -> 0 < val lambda ->
  exponential_sample (FO t) (alea_source (FO t) rf) fuel lambda s = Ok (v, s') ->
  exists u : f64,
    positive_unit (FO t) (alea_source (FO t) rf) fuel s = Ok (u, s') /\ fin u /\ 0 < val u <= 1 - / 2 ^ 53 /\
    v = (- tln t u / lambda)%float /\
    (ln_tbl_nonpos_on_unit t [u] -> PrimFloat.leb 0 v = true /\ is_nan (FO t) v = false).
Proof.
  intros Fla Hla H.
  destruct (exponential_support_f64 t (alea_source (FO t) rf) fuel lambda s v s' (alea_unit_source64 t rf) Fla Hla H)
    as (u & A & B & C & D & E).
  exists u. repeat (split; [assumption|]). intros L. destruct (E L) as (E1 & E2 & _). split; assumption.
Qed.


(** ** DiscreteUniform on binary64: `(lower + i64_less_than(..)) as f64` is exact for bounds below 2^53 in magnitude *)
Lemma float_ofZ_neg p : float_ofZ (Zneg p) = (- float_ofZ (Zpos p))%float.
Proof. unfold float_ofZ. exact (eq_refl (- PrimFloat.of_uint63 (Uint63.of_Z (Z.pos p)))%float). Qed.
Lemma float_ofZ_exact_neg p : (Zpos p < 2 ^ 53)%Z -> fin (float_ofZ (Zneg p)) /\ val (float_ofZ (Zneg p)) = - IZR (Zpos p).
Proof.
  intros H. rewrite float_ofZ_neg. destruct (float_ofZ_exact (Zpos p)) as (A & B); [lia|].
  generalize dependent (float_ofZ (Zpos p)). intros f A B.
  unfold fin, val in *. rewrite FP.opp_equiv, is_finite_Bopp, B2R_Bopp, B. split; [exact A|reflexivity].
Qed.
Lemma float_ofZ_exact_signed (z : Z) : (- 2 ^ 53 < z < 2 ^ 53)%Z -> fin (float_ofZ z) /\ val (float_ofZ z) = IZR z.
Proof.
  intros Hz. destruct z as [|p|p].
  - apply float_ofZ_exact. lia.
  - apply float_ofZ_exact. lia.
  - destruct (float_ofZ_exact_neg p) as (A & B); [lia|]. split; [exact A|]. rewrite B. 
    change (Zneg p) with (- Zpos p)%Z. rewrite opp_IZR. reflexivity.
Qed.

Lemma discrete_uniform_support_f64 {S : Type} (t : libm_table) (src : source S f64) (lo hi : Z) (s : S) (v : f64) (s' : S) :
  (- 2 ^ 53 < lo)%Z -> (hi < 2 ^ 53)%Z ->
  (forall k s1, next_range src lo hi s = Ok (k, s1) -> (lo <= k <= hi)%Z) ->
  discrete_uniform_sample (FO t) src lo hi s = Ok (v, s') ->
  exists k : Z, next_range src lo hi s = Ok (k, s') /\ (lo <= k <= hi)%Z /\
                fin v /\ val v = IZR k /\ IZR lo <= val v <= IZR hi.
Proof.
  intros Hlo Hhi R H. unfold discrete_uniform_sample in H.
  destruct (next_range src lo hi s) as [[k s1]| |] eqn:E; cbn [res_bind] in H; try discriminate H.
  injection H as <- <-. pose proof (R k s1 eq_refl) as Hk.
  exists k. split; [reflexivity|]. split; [exact Hk|].
  unfold of_i64. destruct (Z.eqb_spec k (-9223372036854775808)) as [Ek|_]; [lia|].
  cbn [ofZ FO]. destruct (float_ofZ_exact_signed k ltac:(lia)) as (A & B).
  split; [exact A|]. split; [exact B|]. rewrite B. split; apply IZR_le; lia.
Qed.

Lemma discrete_uniform_support_alea (t : libm_table) (rf : nat) (lo hi : Z) (s : rng) (v : f64) (s' : rng) :
  (- 2 ^ 53 < lo)%Z -> (lo <= hi)%Z -> (hi < 2 ^ 53)%Z ->
  discrete_uniform_sample (FO t) (alea_source (FO t) rf) lo hi s = Ok (v, s') ->
  exists k : Z, (lo <= k <= hi)%Z /\ fin v /\ val v = IZR k /\ IZR lo <= val v <= IZR hi.
Proof.
  intros Hlo Hle Hhi H.
  destruct (discrete_uniform_support_f64 t (alea_source (FO t) rf) lo hi s v s' Hlo Hhi) as (k & _ & A & B & C & D); [|exact H|].
  - intros k s1 E. cbn [next_range alea_source] in E.
    change (alea_range rf lo hi s) with (du_sample_i64 rf (lo, hi) s) in E.
    apply du_sample_i64_in_range in E; unfold is_i64, M64; try lia.
  - exists k. repeat (split; [assumption|]). assumption.
Qed.

Example discrete_uniform_f64_ex :
  discrete_uniform_sample (FO empty_tbl) (alea_source (FO empty_tbl) 64) (-3) 5 (set_seed 42)
    = Ok (3%float, 11562461410679940185%N).
Proof. vm_compute. reflexivity. Qed.


(** 1 - 2^-53 is the largest double below 1: "a finite double of [0, 1)" and "of [0, 1 - 2^-53]" are the same thing *)
Lemma below_one_f64 (u : f64) : val u < 1 -> val u <= 1 - / 2 ^ 53.
Proof.
  intros H.
  assert (V : Valid_exp (FLT_exp (-1074) 53)) by (apply FLT_exp_valid; reflexivity).
  pose proof (pred_ge_gt radix2 (FLT_exp (-1074) 53) (val u) 1) as P.
  assert (F1 : generic_format radix2 (FLT_exp (-1074) 53) 1).
  { change 1 with (bpow radix2 0). apply generic_format_bpow. cbn. lia. }
  specialize (P (F_val u) F1 H).
  change 1 with (bpow radix2 0) in P at 1. rewrite pred_bpow in P.
  change (FLT_exp (-1074) 53 0) with (-53)%Z in P.
  change (bpow radix2 0) with 1 in P. change (bpow radix2 (-53)) with (/ IZR (2 ^ 53)) in P.
  rewrite (pow_IZR 2 53). exact P.
Qed.


(** ** bulk: every entry of `sample_n` (hence of `sample_matrix`) of a Uniform is a finite double of [lower, upper] *)
Lemma uniform_sample_n_support_f64 {S : Type} (t : libm_table) (src : source S f64) (lo hi : f64) (fuel n : nat) (s : S)
      (l : list f64) (s' : S) :
  unit_source64 src -> fin lo -> fin hi -> val lo <= val hi -> fin (hi - lo)%float ->
  sample_n (FO t) src fuel (DUniform lo hi) n s = Ok (l, s') ->
  length l = n /\ Forall (fun v => fin v /\ val lo <= val v <= val hi) l.
Proof.
  intros U Flo Fhi Hle Fd H. split; [eapply Proofs.C03.sample_n_length; exact H|].
  unfold sample_n in H. revert H. apply Proofs.C03.draws_all.
  intros s0 x s1 E. cbn [sample] in E. injection E as E.
  destruct (uniform_support_f64_pin t src lo hi s0 U Flo Fhi Hle Fd) as (A & B & _).
  rewrite E in A, B. cbn [fst] in A, B. split; assumption.
Qed.

Example uniform_sample_n_f64_ex :
  sample_n (FO empty_tbl) (alea_source (FO empty_tbl) 0) 0 (DUniform (-1.5)%float 2.25%float) 3 (set_seed 42)
  = Ok ([0x1.0d9753cf7f3c6p+0%float; 0x1.ecbd24d825952p+0%float; 0x1.7a8783b063684p+0%float], 16240640158330268855%N).
Proof. vm_compute. reflexivity. Qed.
