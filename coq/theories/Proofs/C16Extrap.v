(** * C16 on binary64 (extension): rounding error of the two extrapolation formulas (Extrapolate mode), in the form
    they have after the repair "distance ratio instead of slope":

    left  (t < x_0):      v = fl( y_0     - fl( ratio * fl(y_1 - y_0) ) ),           ratio = fl( fl(x_0 - t) / fl(x_1 - x_0) )
    right (t > x_{n-1}):  v = fl( y_{n-1} + fl( ratio * fl(y_{n-1} - y_{n-2}) ) ),   ratio = fl( fl(t - x_{n-1}) / fl(x_{n-1} - x_{n-2}) )

    Against the REAL straight line through the two end knots ([line] of Spec/Interp.v) at the target, with u = 2^-53,
    Y the ordinate of the nearer end knot, dy the rise of the end segment and T = (distance / dx) * dy the exact
    extrapolation term:

        | v - line |  <=  u |Y| + ((1+u)^6 - 1) |T| + (1+u)^3 2^-1075 |dy| + (1+u) 2^-1075          (v finite)
        | v - line |  <=  u |Y| + ((1+u)^6 - 1) |T|          when neither the quotient nor the product underflows.

    Six roundings lie on the path from the data to the result through T (two differences, the quotient, the rise, the
    product, the final sum / difference), one on the path from Y.  The subtractions need no underflow condition (a
    subnormal difference of two doubles is exact). *)
From Coq Require Import ZArith Reals Floats List Lia Lra Psatz Bool Arith.
From Flocq Require Import Core Relative Plus_error BinarySingleNaN.
From Flocq Require IEEE754.PrimFloat.
From Compute Require Import Base.Ops Base.ListMat Model.Interp Spec.InterpBinary64 Proofs.C16 Proofs.C16Float Proofs.C16Err.
From Compute Require Spec.Interp Proofs.C04ErrF Proofs.C11_FloatBase.
Import ListNotations.
Local Existing Instance FP.Hprec.
Local Existing Instance FP.Hmax.
Local Open Scope R_scope.

(** ** real arithmetic *)
Lemma prod_step (u x d : R) (k : nat) :
  0 <= u -> Rabs (x - 1) <= (1 + u) ^ k - 1 -> Rabs d <= u -> Rabs (x * (1 + d) - 1) <= (1 + u) ^ S k - 1.
Proof.
  intros Hu Hx Hd. replace (x * (1 + d) - 1) with ((x - 1) * (1 + d) + d) by ring.
  eapply Rle_trans; [apply Rabs_triang|]. rewrite Rabs_mult.
  assert (H1 : Rabs (1 + d) <= 1 + u).
  { eapply Rle_trans; [apply Rabs_triang|]. rewrite Rabs_R1. lra. }
  assert (H2 : Rabs (x - 1) * Rabs (1 + d) <= ((1 + u) ^ k - 1) * (1 + u)).
  { apply Rmult_le_compat; try apply Rabs_pos; assumption. }
  simpl. lra.
Qed.

Lemma inv_err (u d : R) : 0 <= u -> Rabs d <= u / (1 + u) -> exists d', Rabs d' <= u /\ / (1 + d) = 1 + d'.
Proof.
  intros Hu Hd. set (w := u / (1 + u)) in *.
  assert (Hw : 0 <= w /\ w * (1 + u) = u) by (unfold w; split; [apply Rmult_le_pos; [lra|left; apply Rinv_0_lt_compat; lra]|field; lra]).
  destruct Hw as [Hw0 Hw1]. apply Rabs_le_inv in Hd.
  assert (Hp : 0 < 1 + d) by nra.
  exists (/ (1 + d) - 1). split; [|ring].
  replace (/ (1 + d) - 1) with (- d * / (1 + d)) by (field; lra).
  rewrite Rabs_mult, Rabs_Ropp, (Rabs_pos_eq (/ (1 + d))) by (left; apply Rinv_0_lt_compat; exact Hp).
  apply (Rmult_le_reg_r (1 + d)); [exact Hp|]. rewrite Rmult_assoc, Rinv_l, Rmult_1_r by lra.
  apply Rabs_le. nra.
Qed.

Lemma abs_1p (u d : R) : Rabs d <= u -> Rabs (1 + d) <= 1 + u.
Proof. intros H. eapply Rle_trans; [apply Rabs_triang|]. rewrite Rabs_R1. lra. Qed.

(** the shape [v = fl( fl( sg * q' * c ) + Y0 )] with [q'] a rounded quotient of two rounded differences and [c] a rounded
    difference, [sg] = -1 (left) or +1 (right) *)
Lemma extrap_real (u h sg Y0 dY dX C d1 d2 d3 d4 d5 d6 n3 n5 a b s' c p v : R) :
  0 <= u -> 0 <= h -> Rabs sg = 1 -> dX <> 0 ->
  Rabs d1 <= u -> Rabs d2 <= u -> Rabs d3 <= u -> Rabs d4 <= u -> Rabs d5 <= u -> Rabs d6 <= u ->
  Rabs n3 <= h -> Rabs n5 <= h ->
  a = dY * (1 + d1) -> / b = / dX * (1 + d2) ->
  s' = a / b * (1 + d3) + n3 -> c = C * (1 + d4) ->
  p = sg * s' * c * (1 + d5) + n5 -> v = (p + Y0) * (1 + d6) ->
  Rabs (v - (Y0 + sg * (dY / dX * C)))
  <= u * Rabs Y0 + ((1 + u) ^ 6 - 1) * Rabs (dY / dX * C) + (1 + u) ^ 3 * h * Rabs C + (1 + u) * h.
Proof.
  intros Hu Hh Hsg HdX H1 H2 H3 H4 H5 H6 Hn3 Hn5 Ea Eb Es Ec Ep Ev.
  set (S := dY / dX * C).
  set (P6 := (1 + d1) * (1 + d2) * (1 + d3) * (1 + d4) * (1 + d5) * (1 + d6)).
  assert (E : v - (Y0 + sg * S) = Y0 * d6 + sg * S * (P6 - 1) + (sg * n3 * C * ((1 + d4) * (1 + d5) * (1 + d6)) + n5 * (1 + d6))).
  { rewrite Ev, Ep, Es, Ec. unfold Rdiv. rewrite Eb, Ea. unfold S, P6, Rdiv. ring. }
  rewrite E. clear E.
  assert (HP : Rabs (P6 - 1) <= (1 + u) ^ 6 - 1).
  { unfold P6.
    assert (K1 : Rabs ((1 + d1) - 1) <= (1 + u) ^ 1 - 1) by (replace (1 + d1 - 1) with d1 by ring; simpl; lra).
    pose proof (prod_step u _ d2 1 Hu K1 H2) as K2. pose proof (prod_step u _ d3 2 Hu K2 H3) as K3.
    pose proof (prod_step u _ d4 3 Hu K3 H4) as K4. pose proof (prod_step u _ d5 4 Hu K4 H5) as K5.
    exact (prod_step u _ d6 5 Hu K5 H6). }
  pose proof (abs_1p u d4 H4) as A4. pose proof (abs_1p u d5 H5) as A5. pose proof (abs_1p u d6 H6) as A6.
  assert (A456 : Rabs ((1 + d4) * (1 + d5) * (1 + d6)) <= (1 + u) ^ 3).
  { rewrite !Rabs_mult. replace ((1 + u) ^ 3) with ((1 + u) * (1 + u) * (1 + u)) by ring.
    apply Rmult_le_compat; try (apply Rmult_le_pos; apply Rabs_pos); try apply Rabs_pos; [|exact A6].
    apply Rmult_le_compat; try apply Rabs_pos; assumption. }
  eapply Rle_trans; [apply Rabs_triang|]. eapply Rle_trans; [apply Rplus_le_compat_r, Rabs_triang|].
  eapply Rle_trans; [apply Rplus_le_compat_l, Rabs_triang|].
  rewrite !Rabs_mult, Hsg, !Rmult_1_l.
  assert (T1 : Rabs Y0 * Rabs d6 <= u * Rabs Y0) by (rewrite Rmult_comm; apply Rmult_le_compat_r; [apply Rabs_pos|exact H6]).
  assert (T2 : Rabs S * Rabs (P6 - 1) <= ((1 + u) ^ 6 - 1) * Rabs S) by (rewrite Rmult_comm; apply Rmult_le_compat_r; [apply Rabs_pos|exact HP]).
  assert (T3 : Rabs n3 * Rabs C * Rabs ((1 + d4) * (1 + d5) * (1 + d6)) <= (1 + u) ^ 3 * h * Rabs C).
  { replace ((1 + u) ^ 3 * h * Rabs C) with (h * Rabs C * (1 + u) ^ 3) by ring.
    apply Rmult_le_compat; try apply Rabs_pos; [apply Rmult_le_pos; apply Rabs_pos| |exact A456].
    apply Rmult_le_compat_r; [apply Rabs_pos|exact Hn3]. }
  assert (T4 : Rabs n5 * Rabs (1 + d6) <= (1 + u) * h).
  { rewrite (Rmult_comm (1 + u)). apply Rmult_le_compat; try apply Rabs_pos; assumption. }
  rewrite !Rabs_mult in T3. lra.
Qed.

(** ** binary64 *)
Lemma fin_opp (s : flt) : fin (- s)%float <-> fin s.
Proof. rewrite !fin_B, FP.opp_equiv, is_finite_Bopp. tauto. Qed.
Lemma FR_opp (s : flt) : FR (- s)%float = - FR s.
Proof. unfold FR. rewrite FP.opp_equiv. apply B2R_Bopp. Qed.

Lemma fin_sub_inv (a b : flt) : fin (a - b)%float -> fin a /\ fin b.
Proof.
  rewrite !fin_B. intros H. destruct (Proofs.C11_FloatBase.fsub_finite a b H) as (Fa & Fb & _). split; assumption.
Qed.

Lemma uw_le_53 : uw <= / 2 ^ 53.
Proof. pose proof uw_le_uu as H. rewrite uu_val in H. exact H. Qed.

Lemma rnd_sub_err (a b : flt) :
  exists d, Rabs d <= / 2 ^ 53 /\ rnd (FR a - FR b) = (FR a - FR b) * (1 + d).
Proof.
  destruct (rnd_add_err (FR a) (- FR b) (fmt_FR a) (generic_format_opp _ _ _ (fmt_FR b))) as (d & Hd & E).
  exists d. split; [pose proof uw_le_53; lra|exact E].
Qed.

(** the common shape: [v = Y + sg * (ratio * (yb - ya))] with ratio = (p - q) / (xb - xa); how [v] decomposes (a rounded
    difference on the left, a rounded sum on the right) is the hypothesis [Hv] *)
Lemma extrap_core (sg : R) (xa xb ya yb p q Y v : flt) :
  Rabs sg = 1 ->
  (forall z, generic_format radix2 (FLT_exp (-1074) 53) z -> generic_format radix2 (FLT_exp (-1074) 53) (sg * z)) ->
  fin xa -> fin xb -> fin p -> fin q -> FR xa <> FR xb -> fin (xb - xa)%float ->
  let ratio := ((p - q) / (xb - xa))%float in
  let pr := (ratio * (yb - ya))%float in
  (fin v -> fin Y /\ fin pr /\ FR v = rnd (FR Y + sg * FR pr)) ->
  fin v ->
  let T := (FR p - FR q) / (FR xb - FR xa) * (FR yb - FR ya) in
  fin ya /\ fin yb /\ fin Y /\ fin ratio /\
  Rabs (FR v - (FR Y + sg * T))
    <= / 2 ^ 53 * Rabs (FR Y) + ((1 + / 2 ^ 53) ^ 6 - 1) * Rabs T
       + (1 + / 2 ^ 53) ^ 3 * / 2 ^ 1075 * Rabs (FR yb - FR ya) + (1 + / 2 ^ 53) * / 2 ^ 1075 /\
  (no_uflow (FR (p - q) / FR (xb - xa)) -> no_uflow (FR ratio * FR (yb - ya)) ->
   Rabs (FR v - (FR Y + sg * T)) <= / 2 ^ 53 * Rabs (FR Y) + ((1 + / 2 ^ 53) ^ 6 - 1) * Rabs T).
Proof.
  intros Hsg Hfmt Fxa Fxb Fp Fq Hne Fw ratio pr Hv Fv T.
  pose proof u53_small as Hu.
  destruct (Hv Fv) as (FY & Fpr & Ev).
  destruct (fin_mul _ _ Fpr) as (Fr & Fdy & Epr).
  destruct (fin_sub_inv _ _ Fdy) as (Fyb & Fya).
  pose proof (fin_sub yb ya Fyb Fya Fdy) as Edy.
  pose proof (fin_sub xb xa Fxb Fxa Fw) as Eb.
  destruct (rnd_add_err (FR xb) (- FR xa) (fmt_FR xb) (generic_format_opp _ _ _ (fmt_FR xa))) as (d2 & Hd2 & Eb2).
  fold (FR xb - FR xa) in Eb2. rewrite Eb2 in Eb.
  assert (Hd2' : Rabs d2 <= / 2 ^ 53 / (1 + / 2 ^ 53)) by (unfold uw in Hd2; rewrite uu_val in Hd2; exact Hd2).
  pose proof uw_le_53 as Hw.
  assert (Hb0 : FR (xb - xa) <> 0).
  { rewrite Eb. assert (Rabs d2 <= / 2 ^ 53) by (unfold uw in Hd2; rewrite uu_val in Hd2; fold uw in Hd2; lra).
    apply Rabs_le_inv in H. apply Rmult_integral_contrapositive_currified; lra. }
  destruct (fin_div _ _ Fr Hb0) as (Fa & Er).
  pose proof (fin_sub p q Fp Fq Fa) as Ea.
  destruct (rnd_sub_err p q) as (d1 & Hd1 & Ea2). rewrite Ea2 in Ea.
  destruct (rnd_sub_err yb ya) as (d4 & Hd4 & Edy2). rewrite Edy2 in Edy.
  destruct (rnd_mul_err (FR (p - q) / FR (xb - xa))) as (d3 & n3 & Hd3 & Hn3 & Z3 & Er2). rewrite Er2 in Er.
  destruct (rnd_mul_err (FR ratio * FR (yb - ya))) as (d5 & n5 & Hd5 & Hn5 & Z5 & Epr2). rewrite Epr2 in Epr.
  destruct (rnd_add_err (FR Y) (sg * FR pr) (fmt_FR Y) (Hfmt _ (fmt_FR pr))) as (d6 & Hd6 & Ev2). rewrite Ev2 in Ev.
  destruct (inv_err (/ 2 ^ 53) d2 ltac:(lra) Hd2') as (d2' & Hd2'' & Einv).
  assert (Eb' : / FR (xb - xa) = / (FR xb - FR xa) * (1 + d2')).
  { rewrite Eb, Rinv_mult, Einv. reflexivity. }
  assert (Hsn5 : Rabs (sg * n5) = Rabs n5) by (rewrite Rabs_mult, Hsg; ring).
  assert (Ep' : sg * FR pr = sg * FR ratio * FR (yb - ya) * (1 + d5) + sg * n5) by (unfold pr; rewrite Epr; ring).
  assert (Ev' : FR v = (sg * FR pr + FR Y) * (1 + d6)) by (rewrite Ev; ring).
  split; [exact Fya|]. split; [exact Fyb|]. split; [exact FY|]. split; [exact Fr|].
  rewrite <- eta_val'. split.
  - apply (extrap_real (/ 2 ^ 53) eta sg (FR Y) (FR p - FR q) (FR xb - FR xa) (FR yb - FR ya)
             d1 d2' d3 d4 d5 d6 n3 (sg * n5) (FR (p - q)) (FR (xb - xa)) (FR ratio) (FR (yb - ya)) (sg * FR pr) (FR v));
      try assumption; try lra. apply eta_pos.
  - intros U3 U5. rewrite (Z3 U3) in *. rewrite (Z5 U5) in *.
    pose proof (extrap_real (/ 2 ^ 53) 0 sg (FR Y) (FR p - FR q) (FR xb - FR xa) (FR yb - FR ya)
             d1 d2' d3 d4 d5 d6 0 0 (FR (p - q)) (FR (xb - xa)) (FR ratio) (FR (yb - ya)) (sg * FR pr) (FR v)) as H.
    rewrite Rabs_R0 in H. rewrite !Rmult_0_r, Rmult_0_l, !Rplus_0_r in H.
    apply H; try assumption; try lra.
    unfold ratio. rewrite Er. ring.
Qed.

Definition gam6 : R := (1 + / 2 ^ 53) ^ 6 - 1.

Lemma fin_sub_full (a b : flt) : fin (a - b)%float -> fin a /\ fin b /\ FR (a - b)%float = rnd (FR a - FR b).
Proof.
  intros H. destruct (fin_sub_inv _ _ H) as (Fa & Fb). split; [exact Fa|]. split; [exact Fb|]. apply fin_sub; assumption.
Qed.

(** left of the range: [y0 - ratio * (y1 - y0)], ratio = (x0 - t) / (x1 - x0), against the line through (x0,y0), (x1,y1) *)
Theorem extrap_left_error (x0 x1 y0 y1 t : flt) :
  fin x0 -> fin x1 -> fin t -> FR x0 <> FR x1 -> fin (x1 - x0)%float ->
  let ratio := ((x0 - t) / (x1 - x0))%float in
  let v := (y0 - ratio * (y1 - y0))%float in
  fin v ->
  let T := (FR x0 - FR t) / (FR x1 - FR x0) * (FR y1 - FR y0) in
  fin y0 /\ fin y1 /\
  Rabs (FR v - Spec.Interp.line (FR x0) (FR y0) (FR x1) (FR y1) (FR t))
    <= / 2 ^ 53 * Rabs (FR y0) + gam6 * Rabs T
       + (1 + / 2 ^ 53) ^ 3 * / 2 ^ 1075 * Rabs (FR y1 - FR y0) + (1 + / 2 ^ 53) * / 2 ^ 1075 /\
  (no_uflow (FR (x0 - t) / FR (x1 - x0)) -> no_uflow (FR ratio * FR (y1 - y0)) ->
   Rabs (FR v - Spec.Interp.line (FR x0) (FR y0) (FR x1) (FR y1) (FR t))
     <= / 2 ^ 53 * Rabs (FR y0) + gam6 * Rabs T).
Proof.
  intros F0 F1 Ft Hne Fw ratio v Fv T.
  destruct (extrap_core (-1) x0 x1 y0 y1 x0 t y0 v) as (Fy0 & Fy1 & _ & _ & H1 & H2); auto.
  - unfold Rabs. destruct (Rcase_abs (-1)); lra.
  - intros z Fz. replace (-1 * z) with (- z) by ring. apply generic_format_opp. exact Fz.
  - intros Fv'. destruct (fin_sub_full _ _ Fv') as (A & B & E). split; [exact A|]. split; [exact B|].
    unfold v. rewrite E. f_equal. unfold ratio. cbv zeta. lra.
  - assert (E : Spec.Interp.line (FR x0) (FR y0) (FR x1) (FR y1) (FR t) = FR y0 + -1 * T).
    { unfold Spec.Interp.line, T. field. lra. }
    rewrite E. split; [exact Fy0|]. split; [exact Fy1|]. split; [exact H1|exact H2].
Qed.

(** right of the range: [yb + ratio * (yb - ya)], ratio = (t - xb) / (xb - xa), against the line through (xa,ya), (xb,yb) *)
Theorem extrap_right_error (xa xb ya yb t : flt) :
  fin xa -> fin xb -> fin t -> FR xa <> FR xb -> fin (xb - xa)%float ->
  let ratio := ((t - xb) / (xb - xa))%float in
  let v := (yb + ratio * (yb - ya))%float in
  fin v ->
  let T := (FR t - FR xb) / (FR xb - FR xa) * (FR yb - FR ya) in
  fin ya /\ fin yb /\
  Rabs (FR v - Spec.Interp.line (FR xa) (FR ya) (FR xb) (FR yb) (FR t))
    <= / 2 ^ 53 * Rabs (FR yb) + gam6 * Rabs T
       + (1 + / 2 ^ 53) ^ 3 * / 2 ^ 1075 * Rabs (FR yb - FR ya) + (1 + / 2 ^ 53) * / 2 ^ 1075 /\
  (no_uflow (FR (t - xb) / FR (xb - xa)) -> no_uflow (FR ratio * FR (yb - ya)) ->
   Rabs (FR v - Spec.Interp.line (FR xa) (FR ya) (FR xb) (FR yb) (FR t))
     <= / 2 ^ 53 * Rabs (FR yb) + gam6 * Rabs T).
Proof.
  intros Fa Fb Ft Hne Fw ratio v Fv T.
  destruct (extrap_core 1 xa xb ya yb t xb yb v) as (Fya & Fyb & _ & _ & H1 & H2); auto.
  - apply Rabs_R1.
  - intros z Fz. rewrite Rmult_1_l. exact Fz.
  - intros Fv'. destruct (fin_add _ _ Fv') as (A & B & E). split; [exact A|]. split; [exact B|].
    unfold v. rewrite E. f_equal. unfold ratio. cbv zeta. lra.
  - assert (E : Spec.Interp.line (FR xa) (FR ya) (FR xb) (FR yb) (FR t) = FR yb + 1 * T).
    { unfold Spec.Interp.line, T. field. lra. }
    rewrite E. split; [exact Fya|]. split; [exact Fyb|]. split; [exact H1|exact H2].
Qed.

(** ** through the model: Extrapolate mode, finite targets outside the range *)
Section ModelExtrap.
  Context (tbl : libm_table) (x y : list flt).
  Local Notation n := (length x).
  Local Notation "l '[[' i ']]'" := (nth i l 0%float) (at level 9).
  Context (Hn : (2 <= n)%nat)
          (Fx : forall i, (i < n)%nat -> fin x[[i]])
          (Sx : forall i, (S i < n)%nat -> PF.ltb x[[i]] x[[S i]] = true)
          (Fw : forall i, (S i < n)%nat -> fin (x[[S i]] - x[[i]])%float).

  Theorem extrapolate_left_error_binary64 : forall t,
      fin t -> FR t < FR x[[0]] ->
      let ratio := ((x[[0]] - t) / (x[[1]] - x[[0]]))%float in
      let v := (y[[0]] - ratio * (y[[1]] - y[[0]]))%float in
      interp1 (FO tbl) x y n MExtrap t = Some v /\
      (fin v ->
       let T := (FR x[[0]] - FR t) / (FR x[[1]] - FR x[[0]]) * (FR y[[1]] - FR y[[0]]) in
       Rabs (FR v - Spec.Interp.line (FR x[[0]]) (FR y[[0]]) (FR x[[1]]) (FR y[[1]]) (FR t))
         <= / 2 ^ 53 * Rabs (FR y[[0]]) + gam6 * Rabs T
            + (1 + / 2 ^ 53) ^ 3 * / 2 ^ 1075 * Rabs (FR y[[1]] - FR y[[0]]) + (1 + / 2 ^ 53) * / 2 ^ 1075 /\
       (no_uflow (FR (x[[0]] - t) / FR (x[[1]] - x[[0]])) -> no_uflow (FR ratio * FR (y[[1]] - y[[0]])) ->
        Rabs (FR v - Spec.Interp.line (FR x[[0]]) (FR y[[0]]) (FR x[[1]]) (FR y[[1]]) (FR t))
          <= / 2 ^ 53 * Rabs (FR y[[0]]) + gam6 * Rabs T)).
  Proof.
    intros t Ft Hlt ratio v.
    split; [exact (below_range_binary64 tbl x y MExtrap Hn Fx t Ft Hlt)|].
    intros Fv T.
    assert (Hne : FR x[[0]] <> FR x[[1]]) by (pose proof (fx_adjacent x Hn Fx Sx 0 ltac:(lia)); lra).
    destruct (extrap_left_error x[[0]] x[[1]] y[[0]] y[[1]] t (Fx 0%nat ltac:(lia)) (Fx 1%nat ltac:(lia)) Ft Hne
                (Fw 0%nat ltac:(lia)) Fv) as (_ & _ & H1 & H2).
    split; [exact H1|exact H2].
  Qed.

  Theorem extrapolate_right_error_binary64 : forall t,
      fin t -> FR x[[n - 1]] < FR t ->
      let ratio := ((t - x[[n - 1]]) / (x[[n - 1]] - x[[n - 2]]))%float in
      let v := (y[[n - 1]] + ratio * (y[[n - 1]] - y[[n - 2]]))%float in
      interp1 (FO tbl) x y n MExtrap t = Some v /\
      (fin v ->
       let T := (FR t - FR x[[n - 1]]) / (FR x[[n - 1]] - FR x[[n - 2]]) * (FR y[[n - 1]] - FR y[[n - 2]]) in
       Rabs (FR v - Spec.Interp.line (FR x[[n - 2]]) (FR y[[n - 2]]) (FR x[[n - 1]]) (FR y[[n - 1]]) (FR t))
         <= / 2 ^ 53 * Rabs (FR y[[n - 1]]) + gam6 * Rabs T
            + (1 + / 2 ^ 53) ^ 3 * / 2 ^ 1075 * Rabs (FR y[[n - 1]] - FR y[[n - 2]]) + (1 + / 2 ^ 53) * / 2 ^ 1075 /\
       (no_uflow (FR (t - x[[n - 1]]) / FR (x[[n - 1]] - x[[n - 2]])) -> no_uflow (FR ratio * FR (y[[n - 1]] - y[[n - 2]])) ->
        Rabs (FR v - Spec.Interp.line (FR x[[n - 2]]) (FR y[[n - 2]]) (FR x[[n - 1]]) (FR y[[n - 1]]) (FR t))
          <= / 2 ^ 53 * Rabs (FR y[[n - 1]]) + gam6 * Rabs T)).
  Proof.
    intros t Ft Hgt ratio v.
    split; [exact (above_range_binary64 tbl x y MExtrap Hn Fx Sx t Ft Hgt)|].
    intros Fv T.
    assert (Hs : S (n - 2) = (n - 1)%nat) by lia.
    assert (Hne : FR x[[n - 2]] <> FR x[[n - 1]]).
    { pose proof (fx_adjacent x Hn Fx Sx (n - 2) ltac:(lia)) as H. rewrite Hs in H. lra. }
    assert (Fww : fin (x[[n - 1]] - x[[n - 2]])%float).
    { pose proof (Fw (n - 2)%nat ltac:(lia)) as H. rewrite Hs in H. exact H. }
    destruct (extrap_right_error x[[n - 2]] x[[n - 1]] y[[n - 2]] y[[n - 1]] t (Fx (n - 2)%nat ltac:(lia)) (Fx (n - 1)%nat ltac:(lia)) Ft Hne
                Fww Fv) as (_ & _ & H1 & H2).
    split; [exact H1|exact H2].
  Qed.
End ModelExtrap.

(** ** the hypotheses are satisfiable: three knots with an inexact ordinate, one target on each side; both results are
    finite and neither the quotient nor the product underflows *)
From Compute Require Proofs.C04ErrDot Proofs.C04ErrEx.
Lemma extrapolate_example :
  let x := [0; 1; 3]%float in let y := [1; 0x1.999999999999ap-4; 2.5]%float in
  let tl := (-0.75)%float in let tr := 4.25%float in
  (2 <= length x)%nat /\
  (forall i, (i < length x)%nat -> fin (nth i x 0%float)) /\
  (forall i, (S i < length x)%nat -> PF.ltb (nth i x 0%float) (nth (S i) x 0%float) = true) /\
  (forall i, (S i < length x)%nat -> fin (nth (S i) x 0%float - nth i x 0%float)%float) /\
  fin tl /\ FR tl < FR (nth 0 x 0%float) /\ fin tr /\ FR (nth (length x - 1) x 0%float) < FR tr /\
  (exists v, interp1 FO0 x y (length x) MExtrap tl = Some v /\ fin v) /\
  (exists v, interp1 FO0 x y (length x) MExtrap tr = Some v /\ fin v) /\
  no_uflow (FR (nth 0 x 0%float - tl) / FR (nth 1 x 0%float - nth 0 x 0%float)) /\
  no_uflow (FR ((nth 0 x 0%float - tl) / (nth 1 x 0%float - nth 0 x 0%float))%float * FR (nth 1 y 0%float - nth 0 y 0%float)) /\
  no_uflow (FR (tr - nth 2 x 0%float) / FR (nth 2 x 0%float - nth 1 x 0%float)) /\
  no_uflow (FR ((tr - nth 2 x 0%float) / (nth 2 x 0%float - nth 1 x 0%float))%float * FR (nth 2 y 0%float - nth 1 y 0%float)).
Proof.
  cbv zeta. cbn [length nth Nat.sub].
  split; [lia|]. split; [intros [|[|[|i]]] Hi; try lia; reflexivity|].
  split; [intros [|[|i]] Hi; try lia; reflexivity|]. split; [intros [|[|i]] Hi; try lia; reflexivity|].
  split; [reflexivity|]. split; [change FR with C04ErrF.B2Rf; C04ErrDot.b2rf_compute; lra|].
  split; [reflexivity|]. split; [change FR with C04ErrF.B2Rf; C04ErrDot.b2rf_compute; lra|].
  split; [eexists; split; vm_compute; reflexivity|]. split; [eexists; split; vm_compute; reflexivity|].
  unfold no_uflow.
  repeat match goal with |- context [FR ?r] =>
    lazymatch r with
    | (_ - _)%float => let a := eval vm_compute in r in change r with a
    | (_ / _)%float => let a := eval vm_compute in r in change r with a
    end end.
  change FR with C04ErrF.B2Rf.
  repeat (split; [C04ErrEx.nu_tac|]). C04ErrEx.nu_tac.
Qed.
