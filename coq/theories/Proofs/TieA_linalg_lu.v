(** * Tie A for C11, LU: [lu_solve] and [lu] of src/linalg/decomposition/lu.rs (text: [Generated/linalg_loops.v]) against
    [Model/LU.v].  The source updates one flat vector in place, cell by cell ([x[i] -= x[k] * lu[i * n + k]],
    [lu[i * n + j] -= s], [lu.swap(p * n + k, j * n + k)]); the model describes each sweep by what it does to every
    position ([mapi]) resp. builds the new column out of place.  Every carrier, every input; no law of the carrier. *)
From Coq Require Import List ZArith Arith Bool Lia.
From Compute Require Import Base.Ops Base.ListMat Base.RsExpr Base.RsExprMut Model.Reduce Model.MatMul Model.Subst Model.LU
  Generated.linalg_loops Proofs.RsExprLemmas Proofs.C15Lists Proofs.LinAlgBase Proofs.TieA_linalg_loops.
Import ListNotations.

(** ** generic: folds in the option monad over an append; with an invariant; over [nat] indices seen in [Z] *)
Lemma rs_fold_opt_app : forall {A S} (f : S -> A -> option S) (l1 l2 : list A) (s : S),
  rs_fold_opt f (l1 ++ l2) s = match rs_fold_opt f l1 s with Some s' => rs_fold_opt f l2 s' | None => None end.
Proof.
  intros A S f l1. induction l1 as [|a l1 IH]; intros l2 s; [reflexivity|].
  cbn [app rs_fold_opt]. destruct (f s a); [apply IH|reflexivity].
Qed.

Lemma rs_fold_opt_inv : forall {S} (P : S -> Prop) (f : S -> Z -> option S) (g : S -> nat -> S) (l : list nat) (s : S),
  P s -> (forall s k, In k l -> P s -> f s (Z.of_nat k) = Some (g s k) /\ P (g s k)) ->
  rs_fold_opt f (map Z.of_nat l) s = Some (fold_left g l s) /\ P (fold_left g l s).
Proof.
  intros S P f g l. induction l as [|k l IH]; intros s Hs H; [now split|].
  cbn [map rs_fold_opt fold_left]. destruct (H s k (or_introl eq_refl) Hs) as [E Hs']. rewrite E.
  apply IH; [exact Hs'|]. intros s' k' Hk'. apply H. now right.
Qed.

Lemma rs_seq_nat : forall lo n : nat, rs_seq (Z.of_nat lo) n = map Z.of_nat (seq lo n).
Proof.
  intros lo n. revert lo. induction n as [|n IH]; intro lo; [reflexivity|].
  cbn [rs_seq seq map]. f_equal. rewrite Zadd1_nat. apply IH.
Qed.
Lemma rs_seq_0_nat : forall n : nat, rs_seq 0 n = map Z.of_nat (seq 0 n).
Proof. intro n. apply (rs_seq_nat 0 n). Qed.
Lemma rs_range_excl_0m : forall n : nat, rs_range_excl 0 (Z.of_nat n) = map Z.of_nat (seq 0 n).
Proof. intro n. unfold rs_range_excl. rewrite <- rs_seq_0_nat. f_equal. lia. Qed.
Lemma rs_range_excl_nat' : forall a b : nat, rs_range_excl (Z.of_nat a) (Z.of_nat b) = map Z.of_nat (seq a (b - a)).
Proof. intros a b. rewrite rs_range_excl_nat. apply rs_seq_nat. Qed.

Lemma mapi_ext_in : forall {A B} (f g : nat -> A -> B) (l : list A) (d : A),
  (forall i, i < length l -> f i (nth i l d) = g i (nth i l d)) -> mapi f l = mapi g l.
Proof.
  intros A B f g l d H. destruct l as [|a0 l0] eqn:El; [reflexivity|]. rewrite <- El in *.
  apply (nth_ext _ _ (f 0 d) (f 0 d)); [now rewrite !mapi_length|].
  intros i Hi. rewrite mapi_length in Hi. rewrite (nth_mapi f l i _ d), (nth_mapi g l i _ d) by exact Hi. now apply H.
Qed.

Lemma mapi_id : forall {A} (l : list A), mapi (fun _ a => a) l = l.
Proof. intros A l. unfold mapi. generalize 0. induction l as [|a l IH]; intro s; [reflexivity|]. cbn. f_equal. apply IH. Qed.

Lemma upd_mapi_step : forall {A} (F : nat -> A -> A) (P : nat -> bool) (x : list A) (m : nat) (d : A),
  m < length x -> P m = false ->
  upd (mapi (fun i xi => if P i then F i xi else xi) x) m (F m (nth m x d))
  = mapi (fun i xi => if P i || (i =? m) then F i xi else xi) x.
Proof.
  intros A F P x m d Hm HP. apply (nth_ext _ _ d d); [now rewrite upd_length, !mapi_length|].
  intros i Hi. rewrite upd_length, mapi_length in Hi.
  rewrite nth_upd, mapi_length. rewrite !(nth_mapi _ x i d d) by exact Hi.
  apply Nat.ltb_lt in Hm. rewrite Hm, andb_true_r.
  destruct (Nat.eqb_spec i m) as [->|E]; [now rewrite HP|]. now rewrite orb_false_r.
Qed.

(** rewrite with a lemma stated over the generated text (which keeps its [let]s) in a goal that is zeta-normal *)
Ltac rewrite_z H := let h := fresh "Hz" in pose proof H as h; cbv zeta in h; rewrite h; clear h.

Section LUSolve.
  Context {T : Type} (O : Ops T).
  Local Notation z := (zero O).

  (** [for i in lo..lo+h { x[i] -= x[k] * lu[i * n + k] }] with [k] outside the range *)
  Lemma axpy_col_src : forall (lu : list T) (n k : nat) (x : list T), n * n = length lu -> length x = n -> k < n ->
    forall (h lo : nat), lo + h <= n -> (k < lo \/ lo + h <= k) ->
    rs_fold_opt (fun x i => let* g5 := rs_get x (Z.of_nat k) in
                            let* g6 := rs_get lu (Z.add (Z.mul i (Z.of_nat n)) (Z.of_nat k)) in
                            let* g7 := rs_get x i in
                            let* l8 := rs_set x i (sub O g7 (mul O g5 g6)) in let x := l8 in Some x)
                (rs_seq (Z.of_nat lo) h) x
    = Some (mapi (fun i xi => if (lo <=? i) && (i <? lo + h) then sub O xi (mul O (nth k x z) (nth (i * n + k) lu z)) else xi) x).
  Proof.
    intros lu n k x Hlu Hx Hk. induction h as [|h IH]; intros lo Hlo Hout.
    - cbn [rs_seq rs_fold_opt]. f_equal. rewrite <- (mapi_id x) at 1. apply (mapi_ext_in _ _ x z).
      intros i Hi. replace (i <? lo + 0) with (i <? lo) by (f_equal; lia).
      destruct (Nat.leb_spec lo i), (Nat.ltb_spec i lo); try reflexivity; lia.
    - replace (S h) with (h + 1) by lia. rewrite rs_seq_app, rs_fold_opt_app. rewrite IH by lia. clear IH.
      cbn [rs_seq rs_fold_opt]. znat.
      set (F := fun i xi => sub O xi (mul O (nth k x z) (nth (i * n + k) lu z))).
      set (x' := mapi _ x).
      assert (Lx' : length x' = n) by (unfold x'; now rewrite mapi_length).
      rewrite (rs_get_some x' k z) by lia. cbn [bind].
      rewrite (rs_get_some lu ((lo + h) * n + k) z) by nia. cbn [bind].
      rewrite (rs_get_some x' (lo + h) z) by lia. cbn [bind].
      rewrite rs_set_nat by lia. cbn [bind]. cbv zeta. f_equal.
      assert (E1 : nth k x' z = nth k x z).
      { unfold x'. rewrite (nth_mapi _ x k z z) by lia.
        destruct (Nat.leb_spec lo k), (Nat.ltb_spec k (lo + h)); cbn [andb]; try reflexivity; lia. }
      assert (E2 : nth (lo + h) x' z = nth (lo + h) x z).
      { unfold x'. rewrite (nth_mapi _ x (lo + h) z z) by lia.
        destruct (Nat.ltb_spec (lo + h) (lo + h)); [lia|]. now rewrite andb_false_r. }
      rewrite E1, E2. change (sub O (nth (lo + h) x z) (mul O (nth k x z) (nth ((lo + h) * n + k) lu z))) with (F (lo + h) (nth (lo + h) x z)).
      unfold x'.
      change (mapi (fun i xi => if (lo <=? i) && (i <? lo + h) then sub O xi (mul O (nth k x z) (nth (i * n + k) lu z)) else xi) x)
        with (mapi (fun i xi => if (lo <=? i) && (i <? lo + h) then F i xi else xi) x).
      assert (HP : (fun i => (lo <=? i) && (i <? lo + h)) (lo + h) = false).
      { cbv beta. destruct (Nat.ltb_spec (lo + h) (lo + h)); [lia|]. now rewrite andb_false_r. }
      rewrite (upd_mapi_step F (fun i => (lo <=? i) && (i <? lo + h)) x (lo + h) z ltac:(lia) HP).
      apply (mapi_ext_in _ _ x z). intros i Hi.
      replace ((lo <=? i) && (i <? lo + h) || (i =? lo + h)) with ((lo <=? i) && (i <? lo + (h + 1))); [reflexivity|].
      destruct (Nat.leb_spec lo i), (Nat.ltb_spec i (lo + h)), (Nat.ltb_spec i (lo + (h + 1))), (Nat.eqb_spec i (lo + h)); cbn; try reflexivity; lia.
  Qed.

  (** forward elimination *)
  Lemma fwd_elim_src : forall (lu : list T) (n : nat) (x : list T), n * n = length lu -> length x = n ->
    rs_fold_opt (fun x k => let* x := rs_fold_opt (fun x i =>
                               let* g5 := rs_get x k in
                               let* g6 := rs_get lu (Z.add (Z.mul i (Z.of_nat n)) k) in
                               let* g7 := rs_get x i in
                               let* l8 := rs_set x i (sub O g7 (mul O g5 g6)) in let x := l8 in Some x)
                             (rs_range_excl (Z.add k 1%Z) (Z.of_nat n)) x in Some x)
                (map Z.of_nat (seq 0 n)) x
    = Some (fwd_elim O (unflatten lu n n) n x).
  Proof.
    intros lu n x Hlu Hx. unfold fwd_elim.
    apply (rs_fold_opt_inv (fun x => length x = n)); [exact Hx|].
    intros s k Hk Hs. apply in_seq in Hk. rewrite Zadd1_nat, rs_range_excl_nat.
    rewrite (axpy_col_src lu n k s Hlu Hs) by lia. cbn [bind]. split; [|now rewrite mapi_length].
    f_equal. apply (mapi_ext_in _ _ s z). intros i Hi. rewrite ent_unflatten by lia.
    destruct (Nat.leb_spec (S k) i), (Nat.ltb_spec i (S k + (n - S k))), (Nat.ltb_spec k i); cbn [andb]; try reflexivity; lia.
  Qed.

  (** back substitution *)
  Lemma back_elim_src : forall (lu : list T) (n : nat) (x : list T), n * n = length lu -> length x = n ->
    rs_fold_opt (fun x k => let* g9 := rs_get lu (Z.add (Z.mul k (Z.of_nat n)) k) in
                            let* g10 := rs_get x k in
                            let* l11 := rs_set x k (div O g10 g9) in let x := l11 in
                            let* x := rs_fold_opt (fun x i =>
                               let* g12 := rs_get x k in
                               let* g13 := rs_get lu (Z.add (Z.mul i (Z.of_nat n)) k) in
                               let* g14 := rs_get x i in
                               let* l15 := rs_set x i (sub O g14 (mul O g12 g13)) in let x := l15 in Some x)
                             (rs_range_excl 0%Z k) x in Some x)
                (map Z.of_nat (rev (seq 0 n))) x
    = Some (back_elim O (unflatten lu n n) n x).
  Proof.
    intros lu n x Hlu Hx. unfold back_elim.
    apply (rs_fold_opt_inv (fun x => length x = n)); [exact Hx|].
    intros s k Hk Hs. apply in_rev, in_seq in Hk. znat.
    rewrite (rs_get_some lu (k * n + k) z) by nia. cbn [bind].
    rewrite (rs_get_some s k z) by lia. cbn [bind]. rewrite rs_set_nat by lia. cbn [bind]. cbv zeta.
    change 0%Z with (Z.of_nat 0). rewrite rs_range_excl_nat, Nat.sub_0_r.
    set (xk := div O (nth k s z) (nth (k * n + k) lu z)).
    rewrite (axpy_col_src lu n k (upd s k xk) Hlu) by (try rewrite upd_length; lia). cbn [bind].
    split; [|now rewrite mapi_length].
    f_equal. apply (nth_ext _ _ z z); [now rewrite !mapi_length, upd_length|].
    intros i Hi. rewrite mapi_length, upd_length in Hi.
    rewrite (nth_mapi _ (upd s k xk) i z z) by (rewrite upd_length; exact Hi).
    rewrite (nth_mapi _ s i z z) by exact Hi.
    rewrite nth_upd_eq by lia. rewrite !ent_unflatten by lia. fold xk.
    rewrite nth_upd. cbn [Nat.add].
    destruct (Nat.ltb_spec i k), (Nat.eqb_spec i k); cbn [andb]; try lia.
    - reflexivity.
    - subst i. apply Nat.ltb_lt in Hi. rewrite <- Hs at 1. now rewrite Hi.
    - reflexivity.
  Qed.

  (** the right-hand side permuted into place: [for i in 0..pivots.len() { x[i] = b[pivots[i] as usize] }] *)
  Lemma pivot_gather_src : forall (piv : list nat) (b : list T) (n : nat), length b = n ->
    forall m, m <= length piv ->
    rs_fold_opt (fun x i => let* g2 := rs_get (map Z.of_nat piv) i in
                            let* g3 := rs_get b g2 in
                            let* l4 := rs_set x i g3 in let x := l4 in Some x)
                (rs_seq 0%Z m) (repeat z n)
    = if (m <=? n) && forallb (fun p => p <? n) (firstn m piv)
      then Some (map (fun p => nth p b z) (firstn m piv) ++ repeat z (n - m)) else None.
  Proof.
    intros piv b n Hb. induction m as [|m IH]; intro Hm.
    - cbn. now rewrite Nat.sub_0_r.
    - replace (S m) with (m + 1) at 1 by lia. rewrite rs_seq_app, rs_fold_opt_app, IH by lia. clear IH.
      assert (Ef : firstn (S m) piv = firstn m piv ++ [nth m piv 0]).
      { clear - Hm. revert piv Hm. induction m as [|m IHm]; intros [|p piv] Hm; cbn [length] in Hm; try lia; [reflexivity|].
        cbn [firstn nth app]. f_equal. apply IHm. lia. }
      rewrite Ef, forallb_app. cbn [forallb]. rewrite andb_true_r.
      destruct (Nat.leb_spec m n) as [Hmn|Hmn]; cbn [andb].
      2:{ destruct (Nat.leb_spec (S m) n); [lia|reflexivity]. }
      destruct (forallb (fun p => p <? n) (firstn m piv)) eqn:Efa; cbn [andb].
      2:{ now rewrite andb_false_r. }
      cbn [rs_seq rs_fold_opt]. rewrite Z.add_0_l.
      rewrite rs_get_map_nat. replace (m <? length piv) with true by (symmetry; apply Nat.ltb_lt; lia). cbn [bind].
      destruct (Nat.ltb_spec (nth m piv 0) n) as [Hp|Hp].
      + rewrite (rs_get_some b (nth m piv 0) z) by lia. cbn [bind].
        destruct (Nat.leb_spec (S m) n) as [Hsm|Hsm]; cbn [andb].
        * replace (n - m) with (S (n - S m)) by lia. cbn [repeat].
          rewrite (rs_set_mid' _ _ _ _ m) by (rewrite map_length, firstn_length; lia). cbn [bind]. cbv zeta.
          rewrite map_app, <- app_assoc. reflexivity.
        * replace (n - m) with 0 by lia. cbn [repeat]. rewrite app_nil_r.
          unfold rs_set. destruct (Z.ltb_spec (Z.of_nat m) 0); [reflexivity|]. rewrite Nat2Z.id, map_length, firstn_length.
          replace (m <? Nat.min m (length piv)) with false by (symmetry; apply Nat.ltb_ge; lia). reflexivity.
      + rewrite rs_get_none by lia. cbn [bind]. now rewrite andb_false_r.
  Qed.

  Lemma fwd_elim_length : forall M n x, length (fwd_elim O M n x) = length x.
  Proof.
    intros M n x. unfold fwd_elim. generalize (seq 0 n) as l. intro l. revert x. induction l as [|k l IHl]; intro x; [reflexivity|].
    cbn [fold_left]. rewrite IHl. now rewrite mapi_length.
  Qed.

  (** the right-hand side fits the address space: [vec![0.; n]] passes the allocation's capacity check *)
  Theorem tiea_lu_solve : forall (lu : list T) (piv : list nat) (b : list T), (Z.of_nat (length b) <= 1152921504606846975)%Z ->
    src_lu_solve O lu (map Z.of_nat piv) b = lu_solve O lu piv b.
  Proof.
    intros lu piv b Hcap. unfold src_lu_solve, lu_solve, rs_len. cbv zeta. znat. rewrite Zeqb_of_nat.
    set (n := length b) in *.
    destruct (Nat.eqb_spec (length lu) (n * n)) as [Hlu|Hlu]; cbn [guard bind]; [|reflexivity].
    rewrite rs_vec_alloc_nat by exact Hcap. cbn [bind]. rewrite map_length.
    change 0%Z with (Z.of_nat 0). rewrite (rs_range_excl_nat 0 (length piv)), Nat.sub_0_r. cbn [Z.of_nat].
    rewrite_z (pivot_gather_src piv b n eq_refl (length piv) (le_n _)). rewrite firstn_all.
    destruct (length piv <=? n) eqn:Elp; cbn [andb guard bind]; [|reflexivity].
    destruct (forallb (fun p => p <? n) piv); cbn [guard bind]; [|reflexivity].
    set (x0 := map (fun p => nth p b z) piv ++ repeat z (n - length piv)).
    assert (Lx0 : length x0 = n).
    { unfold x0. rewrite app_length, map_length, repeat_length. apply Nat.leb_le in Elp. lia. }
    rewrite !rs_range_excl_0m.
    rewrite_z (fwd_elim_src lu n x0 (eq_sym Hlu) Lx0). cbn [bind].
    rewrite <- map_rev.
    assert (Lf : length (fwd_elim O (unflatten lu n n) n x0) = n).
    { now rewrite fwd_elim_length. }
    rewrite_z (back_elim_src lu n _ (eq_sym Hlu) Lf). reflexivity.
  Qed.
End LUSolve.

(** ** [lu]: the flat vector is [concat M] for a list [M] of [n] rows of length [n] *)
From Compute Require Import Proofs.TieA_linalg_chol.

Lemma rs_fold_opt_rel : forall {S S'} (R : S -> S' -> Prop) (f : S -> Z -> option S) (g : S' -> nat -> S') (l : list nat) (s : S) (s' : S'),
  R s s' -> (forall s s' k, In k l -> R s s' -> exists t, f s (Z.of_nat k) = Some t /\ R t (g s' k)) ->
  exists t, rs_fold_opt f (map Z.of_nat l) s = Some t /\ R t (fold_left g l s').
Proof.
  intros S S' R f g l. induction l as [|k l IH]; intros s s' Hs H; [exists s; now split|].
  cbn [map rs_fold_opt fold_left]. destruct (H s s' k (or_introl eq_refl) Hs) as (t & E & Ht). rewrite E.
  apply IH; [exact Ht|]. intros u u' k' Hk'. apply H. now right.
Qed.

Section RowsFlat.
  Context {A : Type} (d : A).

  Definition setM (M : list (list A)) (i k : nat) (x : A) : list (list A) := upd M i (upd (nth i M []) k x).

  Lemma setM_length : forall M i k x, length (setM M i k x) = length M.
  Proof. intros. unfold setM. apply upd_length. Qed.

  Lemma rows_n_upd : forall n (M : list (list A)) i r, rows_n n M -> length r = n -> rows_n n (upd M i r).
  Proof.
    intros n M i r HM Hr. revert i. induction HM as [|r0 M Hr0 HM IH]; intros [|i]; cbn [upd]; unfold rows_n in *.
    - constructor. - constructor. - now constructor. - constructor; [exact Hr0 | apply IH].
  Qed.

  Lemma setM_rows : forall n M i k x, rows_n n M -> i < length M -> rows_n n (setM M i k x).
  Proof. intros n M i k x HM Hi. unfold setM. apply rows_n_upd; [exact HM|]. rewrite upd_length. now apply rows_n_nth. Qed.

  Lemma ent_setM : forall n M i k x i' k', rows_n n M -> i < length M -> k < n ->
    ent d (setM M i k x) i' k' = if (i' =? i) && (k' =? k) then x else ent d M i' k'.
  Proof.
    intros n M i k x i' k' HM Hi Hk. unfold ent, setM. rewrite nth_upd.
    destruct (Nat.eqb_spec i' i) as [->|E]; cbn [andb]; [|reflexivity].
    apply Nat.ltb_lt in Hi. rewrite Hi. rewrite nth_upd. apply Nat.ltb_lt in Hi. rewrite (rows_n_nth n) by assumption.
    apply Nat.ltb_lt in Hk. now rewrite Hk, andb_true_r.
  Qed.

  Lemma get_concat : forall n (M : list (list A)) i k, rows_n n M -> i < length M -> k < n ->
    rs_get (concat M) (Z.of_nat (i * n + k)) = Some (ent d M i k).
  Proof.
    intros n M i k HM Hi Hk. rewrite (rs_get_some _ _ d) by (rewrite (concat_rows_n_length n) by exact HM; nia).
    f_equal. rewrite <- (app_nil_r (concat M)). now apply (nth_concat_row n).
  Qed.

  Lemma concat_upd_row : forall (M : list (list A)) i r, i < length M ->
    concat (upd M i r) = concat (firstn i M) ++ r ++ concat (skipn (S i) M).
  Proof.
    induction M as [|r0 M IH]; intros i r Hi; [cbn in Hi; lia|]. destruct i as [|i]; [reflexivity|].
    cbn [upd concat firstn skipn]. rewrite IH by (cbn in Hi; lia). now rewrite app_assoc.
  Qed.

  Lemma upd_app_mid : forall (a b c : list A) k x, k < length b -> upd (a ++ b ++ c) (length a + k) x = a ++ upd b k x ++ c.
  Proof.
    induction a as [|a0 a IH]; intros b c k x Hk.
    - cbn [app length Nat.add]. revert k Hk. induction b as [|b0 b IHb]; intros k Hk; [cbn in Hk; lia|].
      destruct k; [reflexivity|]. cbn [app upd]. f_equal. apply IHb. cbn in Hk. lia.
    - cbn [app length Nat.add upd]. f_equal. now apply IH.
  Qed.

  Lemma set_concat : forall n (M : list (list A)) i k x, rows_n n M -> i < length M -> k < n ->
    rs_set (concat M) (Z.of_nat (i * n + k)) x = Some (concat (setM M i k x)).
  Proof.
    intros n M i k x HM Hi Hk. rewrite rs_set_nat by (rewrite (concat_rows_n_length n) by exact HM; nia). f_equal.
    unfold setM. rewrite concat_upd_row by exact Hi.
    rewrite <- (firstn_skipn i M) at 1. rewrite concat_app.
    assert (Es : skipn i M = nth i M [] :: skipn (S i) M).
    { clear - Hi. revert i Hi. induction M as [|r M IH]; intros [|i] Hi; cbn in Hi; try lia; [reflexivity|]. cbn [skipn nth]. apply IH. lia. }
    rewrite Es. cbn [concat].
    assert (Lf : length (concat (firstn i M)) = i * n).
    { rewrite (concat_rows_n_length n); [rewrite firstn_length; f_equal; lia|]. unfold rows_n in *. rewrite Forall_forall in *. intros r Hr. apply HM. rewrite <- (firstn_skipn i M). apply in_or_app. now left. }
    rewrite <- Lf. apply upd_app_mid. now rewrite (rows_n_nth n).
  Qed.
End RowsFlat.

Section ListSurgery.
  Context {A : Type}.
  Lemma skipn_cons_nth : forall (M : list A) i d, i < length M -> skipn i M = nth i M d :: skipn (S i) M.
  Proof. induction M as [|r M IH]; intros [|i] d Hi; cbn in Hi; try lia; [reflexivity|]. cbn [skipn nth]. apply IH. lia. Qed.
  Lemma firstn_S_snoc : forall (M : list A) i d, i < length M -> firstn (S i) M = firstn i M ++ [nth i M d].
  Proof. induction M as [|r M IH]; intros [|i] d Hi; cbn in Hi; try lia; [reflexivity|]. cbn [firstn nth app]. f_equal. apply IH. lia. Qed.
  Lemma upd_app_r : forall (a b : list A) i r, length a = i -> upd (a ++ b) i r = a ++ upd b 0 r.
  Proof. induction a as [|a0 a IH]; intros b i r <-; [reflexivity|]. cbn [app length upd]. f_equal. now apply IH. Qed.
  Lemma nth_app_r0 : forall (a b : list A) i d, length a = i -> nth i (a ++ b) d = nth 0 b d.
  Proof. intros a b i d <-. rewrite app_nth2 by lia. now rewrite Nat.sub_diag. Qed.
  Lemma map2_app : forall {B C} (f : A -> B -> C) (a a' : list A) (v v' : list B), length a = length v ->
    map2 f (a ++ a') (v ++ v') = map2 f a v ++ map2 f a' v'.
  Proof. intros B C f a. induction a as [|a0 a IH]; intros a' [|v0 v] v' E; cbn in E; try lia; [reflexivity|]. cbn. f_equal. apply IH. lia. Qed.
End ListSurgery.

Section LU.
  Context {T : Type} (O : Ops T).
  Local Notation z := (zero O).

  (** the pieces of the generated loop body (zeta-normal) *)
  Definition lu_sum (lu : list T) (n i j : Z) : option T :=
    rs_fold_opt (fun s k => let* g2 := rs_get lu (Z.add (Z.mul i n) k) in let* g3 := rs_get lu (Z.add (Z.mul k n) j) in Some (add O s (mul O g2 g3)))
                (rs_range_excl 0%Z (Z.min i j)) z.
  Definition lu_phaseA (lu : list T) (n j : Z) : option (list T) :=
    rs_fold_opt (fun lu i => let* s := lu_sum lu n i j in
                             let* g4 := rs_get lu (Z.add (Z.mul i n) j) in
                             let* l5 := rs_set lu (Z.add (Z.mul i n) j) (sub O g4 s) in Some l5)
                (rs_range_excl 0%Z n) lu.
  Definition lu_phaseB (lu : list T) (n j : Z) : option Z :=
    rs_fold_opt (fun p i => let* g6 := rs_get lu (Z.add (Z.mul i n) j) in let* g7 := rs_get lu (Z.add (Z.mul p n) j) in
                            if ltb O (abs O g7) (abs O g6) then Some i else Some p)
                (rs_range_excl (Z.add j 1%Z) n) j.
  Definition lu_phaseC (lu : list T) (pivots : list Z) (n j p : Z) : option (list T * list Z) :=
    if negb (Z.eqb p j) then
      let* lu := rs_fold_opt (fun lu k => let* l8 := rs_swap lu (Z.add (Z.mul p n) k) (Z.add (Z.mul j n) k) in Some l8) (rs_range_excl 0%Z n) lu in
      let* l9 := rs_swap pivots p j in Some (lu, l9)
    else Some (lu, pivots).
  Definition lu_phaseD (lu : list T) (n j : Z) : option (list T) :=
    rs_fold_opt (fun lu i => let* g12 := rs_get lu (Z.add (Z.mul j n) j) in let* g13 := rs_get lu (Z.add (Z.mul i n) j) in
                             let* l14 := rs_set lu (Z.add (Z.mul i n) j) (div O g13 g12) in Some l14)
                (rs_range_excl (Z.add j 1%Z) n) lu.

  (** *** phase A: column [j] recomputed in place = the model's out-of-place column *)
  Definition A_step (j : nat) (M : list (list T)) (i : nat) : list (list T) :=
    setM M i j (sub O (ent z M i j) (fold_left (fun s k => add O s (mul O (ent z M i k) (ent z M k j))) (seq 0 (Nat.min i j)) z)).

  Lemma phaseA_src : forall (n j : nat) (M : list (list T)), rows_n n M -> length M = n -> j < n ->
    lu_phaseA (concat M) (Z.of_nat n) (Z.of_nat j) = Some (concat (fold_left (A_step j) (seq 0 n) M))
    /\ rows_n n (fold_left (A_step j) (seq 0 n) M) /\ length (fold_left (A_step j) (seq 0 n) M) = n.
  Proof.
    intros n j M HM HL Hj. unfold lu_phaseA. rewrite rs_range_excl_0m.
    destruct (rs_fold_opt_rel (fun lu M' => lu = concat M' /\ rows_n n M' /\ length M' = n)
               (fun lu i => let* s := lu_sum lu (Z.of_nat n) i (Z.of_nat j) in
                            let* g4 := rs_get lu (Z.add (Z.mul i (Z.of_nat n)) (Z.of_nat j)) in
                            let* l5 := rs_set lu (Z.add (Z.mul i (Z.of_nat n)) (Z.of_nat j)) (sub O g4 s) in Some l5)
               (A_step j) (seq 0 n) (concat M) M) as (t & E & -> & R2 & R3); [now split| |now rewrite E].
    intros lu M' i Hi (-> & HM' & HL'). apply in_seq in Hi.
    assert (Es : lu_sum (concat M') (Z.of_nat n) (Z.of_nat i) (Z.of_nat j)
                 = Some (fold_left (fun s k => add O s (mul O (ent z M' i k) (ent z M' k j))) (seq 0 (Nat.min i j)) z)).
    { unfold lu_sum. rewrite <- Nat2Z.inj_min, rs_range_excl_0m.
      apply (rs_fold_opt_inv (fun _ => True)); [exact I|]. intros s k Hk _. apply in_seq in Hk. split; [|exact I]. znat.
      rewrite (get_concat z n) by (try assumption; lia). rewrite (get_concat z n) by (try assumption; lia). reflexivity. }
    rewrite Es. cbn [bind]. znat. rewrite (get_concat z n) by (try assumption; lia). cbn [bind].
    rewrite (set_concat n) by (try assumption; lia). cbn [bind].
    eexists. split; [reflexivity|]. unfold A_step. split; [reflexivity|]. split; [apply setM_rows; [assumption|lia] | now rewrite setM_length].
  Qed.

  Lemma A_steps_col_update : forall (n j : nat) (M : list (list T)), rows_n n M -> length M = n -> j < n ->
    forall i, i <= n ->
    fold_left (A_step j) (seq 0 i) M
    = map2 (fun r x => upd r j x) (firstn i M) (build (fun i v => col_entry O M j i v) i) ++ skipn i M.
  Proof.
    intros n j M HM HL Hj. induction i as [|i IH]; intro Hi; [reflexivity|].
    rewrite seq_S, fold_left_app, IH by lia. cbn [fold_left Nat.add]. clear IH.
    set (g := fun i v => col_entry O M j i v). set (vi := build g i).
    assert (Lv : length vi = i) by apply build_length.
    set (P := map2 (fun r x => upd r j x) (firstn i M) vi).
    assert (LP : length P = i) by (unfold P; rewrite map2_len_min, firstn_length, Lv; lia).
    assert (Erow : forall k, k < i -> nth k (P ++ skipn i M) [] = upd (nth k M []) j (nth k vi z)).
    { intros k Hk. rewrite app_nth1 by lia. unfold P. rewrite (map2_nth_d _ _ _ k [] z []) by (rewrite ?firstn_length; lia).
      now rewrite nth_firstn' by lia. }
    assert (Ei : nth i (P ++ skipn i M) [] = nth i M []).
    { rewrite (nth_app_r0 P _ i [] LP). rewrite (skipn_cons_nth M i []) by lia. reflexivity. }
    unfold A_step at 1. unfold setM, ent. rewrite Ei.
    assert (Esum : fold_left (fun s k => add O s (mul O (nth k (nth i M []) z) (nth j (nth k (P ++ skipn i M) []) z))) (seq 0 (Nat.min i j)) z
                   = fold_left (fun s k => add O s (mul O (nth k (nth i M []) z) (nth k vi z))) (seq 0 (Nat.min i j)) z).
    { apply fold_left_ext_in. intros s k Hk. apply in_seq in Hk. rewrite Erow by lia.
      rewrite nth_upd_eq by (rewrite (rows_n_nth n) by (try assumption; lia); lia). reflexivity. }
    rewrite Esum.
    change (sub O (nth j (nth i M []) z) (fold_left (fun s k => add O s (mul O (nth k (nth i M []) z) (nth k vi z))) (seq 0 (Nat.min i j)) z))
      with (col_entry O M j i vi).
    rewrite (upd_app_r P _ i _ LP). rewrite (skipn_cons_nth M i []) by lia. cbn [upd].
    rewrite build_S. fold g vi. rewrite (firstn_S_snoc M i []) by lia.
    rewrite map2_app by (rewrite firstn_length; lia). cbn [map2]. fold P. rewrite <- app_assoc. reflexivity.
  Qed.

  Lemma phaseA_model : forall (n j : nat) (M : list (list T)), rows_n n M -> length M = n -> j < n ->
    fold_left (A_step j) (seq 0 n) M = set_col M j (col_update O M j n).
  Proof.
    intros n j M HM HL Hj. rewrite (A_steps_col_update n j M HM HL Hj n (le_n _)).
    rewrite <- HL at 1 3. rewrite firstn_all, skipn_all, app_nil_r. reflexivity.
  Qed.

  (** *** phase B: the pivot search reads column [j] *)
  Lemma phaseB_src : forall (n j : nat) (M : list (list T)) (v : list T), rows_n n M -> length M = n -> j < n ->
    (forall i, i < n -> ent z M i j = nth i v z) ->
    lu_phaseB (concat M) (Z.of_nat n) (Z.of_nat j) = Some (Z.of_nat (find_pivot O v j n)) /\ find_pivot O v j n < n.
  Proof.
    intros n j M v HM HL Hj Hv. unfold lu_phaseB, find_pivot. rewrite Zadd1_nat, rs_range_excl_nat'.
    destruct (rs_fold_opt_rel (fun p p' => p = Z.of_nat p' /\ p' < n)
               (fun p i => let* g6 := rs_get (concat M) (Z.add (Z.mul i (Z.of_nat n)) (Z.of_nat j)) in
                           let* g7 := rs_get (concat M) (Z.add (Z.mul p (Z.of_nat n)) (Z.of_nat j)) in
                           if ltb O (abs O g7) (abs O g6) then Some i else Some p)
               (fun p i => if ltb O (abs O (nth p v z)) (abs O (nth i v z)) then i else p)
               (seq (S j) (n - S j)) (Z.of_nat j) j) as (t & E & -> & R2); [now split| |now rewrite E].
    intros p p' i Hi (-> & Hp'). apply in_seq in Hi. znat.
    rewrite (get_concat z n) by (try assumption; lia). rewrite (get_concat z n) by (try assumption; lia). cbn [bind].
    rewrite !Hv by lia. destruct (ltb O _ _); eexists; (split; [reflexivity|]); split; (reflexivity || lia).
  Qed.

  (** *** rows with the same entries *)
  Lemma rows_ext : forall (n : nat) (M M' : list (list T)), length M = length M' -> rows_n n M -> rows_n n M' ->
    (forall i c, i < length M -> c < n -> ent z M i c = ent z M' i c) -> M = M'.
  Proof.
    intros n M M' HL HM HM' H. apply (nth_ext _ _ [] []); [exact HL|]. intros i Hi.
    apply (nth_ext _ _ z z); [rewrite !(rows_n_nth n) by (try assumption; lia); reflexivity|].
    intros c Hc. rewrite (rows_n_nth n) in Hc by assumption. now apply H.
  Qed.

  Lemma upd_concat : forall (n : nat) (M : list (list T)) i k x, rows_n n M -> i < length M -> k < n ->
    upd (concat M) (i * n + k) x = concat (setM M i k x).
  Proof.
    intros n M i k x HM Hi Hk. pose proof (set_concat n M i k x HM Hi Hk) as H.
    rewrite rs_set_nat in H by (rewrite (concat_rows_n_length n) by exact HM; nia). now injection H.
  Qed.

  (** *** phase C: the exchange of rows [p] and [j], one [swap] per column *)
  Definition C_step (p j : nat) (M : list (list T)) (k : nat) : list (list T) :=
    setM (setM M p k (ent z M j k)) j k (ent z M p k).

  Lemma C_steps_ent : forall (n p j : nat) (M : list (list T)), rows_n n M -> length M = n -> p < n -> j < n -> p <> j ->
    forall m, m <= n ->
    let Mm := fold_left (C_step p j) (seq 0 m) M in
    rows_n n Mm /\ length Mm = n /\
    forall i c, i < n -> c < n -> ent z Mm i c = if c <? m then ent z M (transp p j i) c else ent z M i c.
  Proof.
    intros n p j M HM HL Hp Hj Hpj. induction m as [|m IH]; intro Hm; cbn zeta.
    - cbn [seq fold_left]. repeat split; auto.
    - rewrite seq_S, fold_left_app. cbn [fold_left Nat.add]. destruct (IH ltac:(lia)) as (R1 & R2 & R3). clear IH.
      set (Mm := fold_left (C_step p j) (seq 0 m) M) in *. unfold C_step.
      assert (R1' : rows_n n (setM Mm p m (ent z Mm j m))) by (apply setM_rows; [assumption|lia]).
      assert (R2' : length (setM Mm p m (ent z Mm j m)) = n) by now rewrite setM_length.
      split; [apply setM_rows; [assumption|lia]|]. split; [now rewrite setM_length|].
      intros i c Hi Hc. rewrite (ent_setM z n) by (try assumption; lia). rewrite (ent_setM z n) by (try assumption; lia).
      rewrite !R3 by lia. unfold transp.
      destruct (Nat.eqb_spec i j), (Nat.eqb_spec i p), (Nat.eqb_spec c m), (Nat.ltb_spec c m), (Nat.ltb_spec c (S m)), (Nat.ltb_spec m m);
        cbn [andb]; subst; try lia; try reflexivity;
        repeat match goal with |- context [?a =? ?b] => destruct (Nat.eqb_spec a b); try lia end; reflexivity.
  Qed.

  Lemma C_steps_swap : forall (n p j : nat) (M : list (list T)), rows_n n M -> length M = n -> p < n -> j < n -> p <> j ->
    fold_left (C_step p j) (seq 0 n) M = swap [] M p j.
  Proof.
    intros n p j M HM HL Hp Hj Hpj. destruct (C_steps_ent n p j M HM HL Hp Hj Hpj n (le_n _)) as (R1 & R2 & R3).
    assert (Wf : wf M n) by (split; [exact HL | intros i Hi; apply (rows_n_nth n); [exact HM | lia]]).
    apply (rows_ext n); [now rewrite swap_length, R2 | exact R1 | | ].
    - unfold swap. apply rows_n_upd; [apply rows_n_upd; [exact HM|]|]; apply (rows_n_nth n); (assumption || lia).
    - intros i c Hi Hc. rewrite R2 in Hi. rewrite R3 by lia. apply Nat.ltb_lt in Hc. rewrite Hc.
      symmetry. apply (ent_swap z M n); assumption.
  Qed.

  Lemma rs_swap_concat : forall (n p j k : nat) (M : list (list T)), rows_n n M -> length M = n -> p < n -> j < n -> k < n ->
    rs_swap (concat M) (Z.of_nat (p * n + k)) (Z.of_nat (j * n + k)) = Some (concat (C_step p j M k)).
  Proof.
    intros n p j k M HM HL Hp Hj Hk. unfold rs_swap.
    rewrite (get_concat z n) by (try assumption; lia). rewrite (get_concat z n) by (try assumption; lia). cbn [bind].
    rewrite !Nat2Z.id. rewrite (upd_concat n) by (try assumption; lia).
    rewrite (upd_concat n) by (try (apply setM_rows); try rewrite setM_length; try assumption; lia). reflexivity.
  Qed.

  Lemma rs_swap_piv : forall (piv : list nat) (p j : nat), p < length piv -> j < length piv ->
    rs_swap (map Z.of_nat piv) (Z.of_nat p) (Z.of_nat j) = Some (map Z.of_nat (swap 0 piv p j)).
  Proof.
    intros piv p j Hp Hj. unfold rs_swap. rewrite !rs_get_map_nat.
    apply Nat.ltb_lt in Hp, Hj. rewrite Hp, Hj. cbn [bind]. rewrite !Nat2Z.id, <- !map_upd. reflexivity.
  Qed.

  Lemma phaseC_src : forall (n j p : nat) (M : list (list T)) (piv : list nat), rows_n n M -> length M = n -> j < n -> p < n -> length piv = n ->
    lu_phaseC (concat M) (map Z.of_nat piv) (Z.of_nat n) (Z.of_nat j) (Z.of_nat p)
    = Some (let (M2, piv2) := if p =? j then (M, piv) else (swap [] M p j, swap 0 piv p j) in (concat M2, map Z.of_nat piv2)).
  Proof.
    intros n j p M piv HM HL Hj Hp Hpiv. unfold lu_phaseC. rewrite Zeqb_of_nat.
    destruct (Nat.eqb_spec p j) as [E|E]; cbn [negb]; [reflexivity|].
    rewrite rs_range_excl_0m.
    destruct (rs_fold_opt_rel (fun lu M' => lu = concat M' /\ rows_n n M' /\ length M' = n)
               (fun lu k => let* l8 := rs_swap lu (Z.add (Z.mul (Z.of_nat p) (Z.of_nat n)) k) (Z.add (Z.mul (Z.of_nat j) (Z.of_nat n)) k) in Some l8)
               (C_step p j) (seq 0 n) (concat M) M) as (t & Et & -> & _); [now split| |].
    - intros lu M' k Hk (-> & HM' & HL'). apply in_seq in Hk. znat. rewrite (rs_swap_concat n) by (try assumption; lia). cbn [bind].
      eexists. split; [reflexivity|]. split; [reflexivity|]. unfold C_step.
      split; [apply setM_rows; [apply setM_rows|rewrite setM_length]; (assumption || lia) | now rewrite !setM_length].
    - rewrite Et. cbn [bind]. rewrite rs_swap_piv by lia. cbn [bind]. rewrite (C_steps_swap n) by assumption. reflexivity.
  Qed.

  (** *** phase D: the multipliers below the pivot *)
  Definition D_step (j : nat) (M : list (list T)) (i : nat) : list (list T) := setM M i j (div O (ent z M i j) (ent z M j j)).

  Lemma D_steps_ent : forall (n j : nat) (M : list (list T)), rows_n n M -> length M = n -> j < n ->
    forall m, S j + m <= n ->
    let Mm := fold_left (D_step j) (seq (S j) m) M in
    rows_n n Mm /\ length Mm = n /\
    forall i c, i < n -> c < n ->
      ent z Mm i c = if (j <? i) && (i <? S j + m) && (c =? j) then div O (ent z M i j) (ent z M j j) else ent z M i c.
  Proof.
    intros n j M HM HL Hj. induction m as [|m IH]; intro Hm; cbn zeta.
    - cbn [seq fold_left]. repeat split; auto. intros i c Hi Hc.
      destruct (Nat.ltb_spec j i), (Nat.ltb_spec i (S j + 0)); cbn [andb]; try reflexivity; lia.
    - rewrite seq_S, fold_left_app. cbn [fold_left]. destruct (IH ltac:(lia)) as (R1 & R2 & R3). clear IH.
      set (Mm := fold_left (D_step j) (seq (S j) m) M) in *. unfold D_step.
      split; [apply setM_rows; [assumption|lia]|]. split; [now rewrite setM_length|].
      intros i c Hi Hc. rewrite (ent_setM z n) by (try assumption; lia). rewrite !R3 by lia.
      destruct (Nat.eqb_spec i (S j + m)), (Nat.eqb_spec c j), (Nat.ltb_spec j i), (Nat.ltb_spec i (S j + m)), (Nat.ltb_spec i (S j + S m));
        cbn [andb]; subst; try lia; try reflexivity;
        repeat match goal with |- context [?a <? ?b] => destruct (Nat.ltb_spec a b); try lia end;
        repeat match goal with |- context [?a =? ?b] => destruct (Nat.eqb_spec a b); try lia end; cbn [andb]; reflexivity.
  Qed.

  Lemma D_steps_scale : forall (n j : nat) (M : list (list T)), rows_n n M -> length M = n -> j < n ->
    fold_left (D_step j) (seq (S j) (n - S j)) M
    = mapi (fun i r => if j <? i then upd r j (div O (nth j r z) (ent z M j j)) else r) M.
  Proof.
    intros n j M HM HL Hj. destruct (D_steps_ent n j M HM HL Hj (n - S j) ltac:(lia)) as (R1 & R2 & R3).
    set (F := fun i r => if j <? i then upd r j (div O (nth j r z) (ent z M j j)) else r).
    assert (RF : rows_n n (mapi F M)).
    { unfold rows_n. rewrite Forall_forall. intros r Hr. destruct (In_nth _ _ [] Hr) as (i & Hi & <-). rewrite mapi_length in Hi.
      rewrite (nth_mapi F M i [] []) by exact Hi. unfold F. destruct (j <? i); rewrite ?upd_length; apply (rows_n_nth n); (assumption || lia). }
    apply (rows_ext n); [now rewrite mapi_length, R2 | exact R1 | exact RF |].
    intros i c Hi Hc. rewrite R2 in Hi. rewrite R3 by lia.
    replace (ent z (mapi F M) i c) with (nth c (F i (nth i M [])) z) by (unfold ent; now rewrite (nth_mapi F M i [] []) by lia).
    unfold F.
    destruct (Nat.ltb_spec j i), (Nat.ltb_spec i (S j + (n - S j))); cbn [andb]; try lia; [|destruct (c =? j); reflexivity].
    rewrite nth_upd. rewrite (rows_n_nth n) by (try assumption; lia).
    replace (j <? n) with true by (symmetry; apply Nat.ltb_lt; lia). rewrite andb_true_r.
    destruct (c =? j); reflexivity.
  Qed.

  Lemma phaseD_src : forall (n j : nat) (M : list (list T)), rows_n n M -> length M = n -> j < n ->
    lu_phaseD (concat M) (Z.of_nat n) (Z.of_nat j)
    = Some (concat (mapi (fun i r => if j <? i then upd r j (div O (nth j r z) (ent z M j j)) else r) M)).
  Proof.
    intros n j M HM HL Hj. unfold lu_phaseD. rewrite Zadd1_nat, rs_range_excl_nat'.
    destruct (rs_fold_opt_rel (fun lu M' => lu = concat M' /\ rows_n n M' /\ length M' = n)
               (fun lu i => let* g12 := rs_get lu (Z.add (Z.mul (Z.of_nat j) (Z.of_nat n)) (Z.of_nat j)) in
                            let* g13 := rs_get lu (Z.add (Z.mul i (Z.of_nat n)) (Z.of_nat j)) in
                            let* l14 := rs_set lu (Z.add (Z.mul i (Z.of_nat n)) (Z.of_nat j)) (div O g13 g12) in Some l14)
               (D_step j) (seq (S j) (n - S j)) (concat M) M) as (t & Et & -> & _); [now split| |].
    - intros lu M' i Hi (-> & HM' & HL'). apply in_seq in Hi. znat.
      rewrite (get_concat z n) by (try assumption; lia). rewrite (get_concat z n) by (try assumption; lia). cbn [bind].
      rewrite (set_concat n) by (try assumption; lia). cbn [bind]. eexists. split; [reflexivity|]. unfold D_step.
      split; [reflexivity|]. split; [apply setM_rows; (assumption || lia) | now rewrite setM_length].
    - rewrite Et. now rewrite (D_steps_scale n) by assumption.
  Qed.

  (** *** the loop body and the whole factorisation *)
  Definition lu_body (n : Z) : list T * list Z -> Z -> option (list T * list Z) :=
    fun '(lu, pivots) j =>
    let* lu := lu_phaseA lu n j in
    let* p := lu_phaseB lu n j in
    let* (lu, pivots) := lu_phaseC lu pivots n j p in
    let* g11 := (if Z.ltb j n then let* g10 := rs_get lu (Z.add (Z.mul j n) j) in Some (negb (eqb O g10 z)) else Some false) in
    if g11 then let* lu := lu_phaseD lu n j in Some (lu, pivots) else Some (lu, pivots).

  Lemma src_lu_unfold : forall (isq : list T -> option Z) (a : list T),
    src_lu O isq a
    = let* n := isq a in
      let* (lu, pivots) := rs_fold_opt (lu_body n) (rs_range_excl 0%Z n) (a, map (fun x => x) (rs_range_excl 0%Z n)) in
      Some (lu, pivots).
  Proof. reflexivity. Qed.

  Lemma rows_n_mapi_upd : forall (n j : nat) (M : list (list T)) (f : list T -> T), rows_n n M ->
    rows_n n (mapi (fun i r => if j <? i then upd r j (f r) else r) M).
  Proof.
    intros n j M f HM. unfold rows_n. rewrite Forall_forall. intros r Hr. destruct (In_nth _ _ [] Hr) as (i & Hi & <-).
    rewrite mapi_length in Hi. rewrite (nth_mapi _ M i [] []) by exact Hi.
    destruct (j <? i); rewrite ?upd_length; apply (rows_n_nth n); (assumption || lia).
  Qed.

  Definition lu_inv (n : nat) (s : list T * list Z) (s' : list (list T) * list nat) : Prop :=
    fst s = concat (fst s') /\ snd s = map Z.of_nat (snd s') /\ rows_n n (fst s') /\ length (fst s') = n /\ length (snd s') = n.

  Lemma lu_body_src : forall (n j : nat) (s : list T * list Z) (s' : list (list T) * list nat), j < n -> lu_inv n s s' ->
    exists t, lu_body (Z.of_nat n) s (Z.of_nat j) = Some t /\ lu_inv n t (lu_step O n s' j).
  Proof.
    intros n j [lu pivots] [M piv] Hj (E1 & E2 & HM & HL & Hpiv). cbn [fst snd] in *. subst lu pivots.
    unfold lu_body, lu_step.
    destruct (phaseA_src n j M HM HL Hj) as (EA & HM1 & HL1). rewrite EA. cbn [bind].
    rewrite (phaseA_model n j M HM HL Hj) in *.
    set (v := col_update O M j n) in *. set (M1 := set_col M j v) in *.
    assert (Lv : length v = n) by (unfold v, col_update; apply (build_length (fun i v => col_entry O M j i v) n)).
    assert (Hv : forall i, i < n -> ent z M1 i j = nth i v z).
    { intros i Hi. unfold ent, M1, set_col. rewrite (map2_nth_d _ _ _ i [] z []) by lia.
      apply nth_upd_eq. rewrite (rows_n_nth n) by (try assumption; lia). exact Hj. }
    destruct (phaseB_src n j M1 v HM1 HL1 Hj Hv) as (EB & Hp). rewrite EB. cbn [bind].
    set (p := find_pivot O v j n) in *.
    rewrite (phaseC_src n j p M1 piv HM1 HL1 Hj Hp Hpiv). cbn [bind].
    set (st2 := if p =? j then (M1, piv) else (swap [] M1 p j, swap 0 piv p j)).
    assert (H2 : rows_n n (fst st2) /\ length (fst st2) = n /\ length (snd st2) = n).
    { unfold st2. destruct (p =? j); cbn [fst snd]; [auto|]. rewrite !swap_length. repeat split; auto.
      unfold swap. apply rows_n_upd; [apply rows_n_upd; [exact HM1|]|]; apply (rows_n_nth n); (assumption || lia). }
    destruct st2 as [M2 piv2]. cbn [fst snd] in H2. destruct H2 as (HM2 & HL2 & Hpiv2).
    rewrite Zltb_of_nat. replace (j <? n) with true by (symmetry; apply Nat.ltb_lt; lia). znat.
    rewrite (get_concat z n) by (try assumption; lia). cbn [bind]. unfold scale_col. cbv zeta.
    destruct (eqb O (ent z M2 j j) z); cbn [negb].
    - eexists. split; [reflexivity|]. repeat split; auto.
    - rewrite (phaseD_src n j M2 HM2 HL2 Hj). cbn [bind]. eexists. split; [reflexivity|].
      repeat split; cbn [fst snd]; auto; [apply rows_n_mapi_upd; exact HM2 | now rewrite mapi_length].
  Qed.

  Theorem tiea_lu : forall (a : list T),
    src_lu O is_square_z a = option_map (fun '(f, piv) => (f, map Z.of_nat piv)) (lu O a).
  Proof.
    intro a. rewrite src_lu_unfold. unfold lu, is_square_z.
    destruct (is_square (length a)) as [n|] eqn:Es; [|reflexivity]. cbn [option_map bind]. apply is_square_some in Es.
    rewrite !rs_range_excl_0m. rewrite map_id. unfold lu_rows.
    set (M := unflatten a n n).
    assert (HM : rows_n n M).
    { unfold rows_n. rewrite Forall_forall. intros r Hr. destruct (In_nth _ _ [] Hr) as (i & Hi & <-).
      unfold M in *. rewrite length_unflatten in Hi. rewrite nth_unflatten by exact Hi. apply length_row_of. nia. }
    assert (HL : length M = n) by apply length_unflatten.
    destruct (rs_fold_opt_rel (lu_inv n) (lu_body (Z.of_nat n)) (lu_step O n) (seq 0 n)
               (a, map Z.of_nat (seq 0 n)) (M, seq 0 n)) as ([lu' piv'] & Et & R1 & R2 & _).
    - repeat split; cbn [fst snd]; auto; [symmetry; apply concat_unflatten; lia | apply seq_length].
    - intros s s' k Hk Hs. apply in_seq in Hk. apply lu_body_src; [lia | exact Hs].
    - rewrite Et. cbn [bind]. cbn [fst snd] in R1, R2. destruct (fold_left (lu_step O n) (seq 0 n) (M, seq 0 n)) as [M' pv'].
      cbn [fst snd option_map] in *. unfold flatten. now rewrite R1, R2.
  Qed.
End LU.
