(** Proofs for C13, part 4 (ext): forecasts converge to the intercept for every order p when the
    coefficients are contracting (Σ|phi_i| < 1), with the explicit rate rho^(k/p + 1).
    The full clause of the property ("stationary fit": all roots of 1 - Σ phi_i z^i outside the
    unit circle) needs a spectral argument and is NOT proved; see Properties/C13.v. *)
From Coq Require Import Reals List Arith ZArith Bool Lia Lra.
From Compute Require Import Base.Ops Base.ListMat Model.TimeSeries Spec.TimeSeries
  Proofs.C13_base Proofs.C13_acf Proofs.C13_ar.
Import ListNotations.
Local Open Scope R_scope.

Definition l1 (phi : list R) : R := Rsum (map Rabs phi).

Lemma l1_nonneg phi : 0 <= l1 phi.
Proof. unfold l1. induction phi as [|a phi IH]; cbn; [lra | pose proof (Rabs_pos a); fold (Rsum (map Rabs phi)); lra]. Qed.

Lemma l1_rev phi : l1 (rev phi) = l1 phi.
Proof. unfold l1. rewrite map_rev. apply Rsum_rev. Qed.

Lemma In_firstn_In {A} (v : A) n l : In v (firstn n l) -> In v l.
Proof.
  revert l; induction n as [|n IH]; intros [|a l]; cbn; try tauto.
  intros [H|H]; [left; exact H | right; apply IH; exact H].
Qed.

Lemma In_firstn_S {A} (v : A) n l : In v (firstn n l) -> In v (firstn (S n) l).
Proof.
  revert l; induction n as [|n IH]; intros [|a l]; cbn; try tauto.
  intros [H|H]; [left; exact H | right; apply (IH l); exact H].
Qed.

Lemma abs_dot_le a : forall b B,
  0 <= B -> (forall v, In v (firstn (length a) b) -> Rabs v <= B) ->
  Rabs (Rsum (map2 Rmult a b)) <= l1 a * B.
Proof.
  induction a as [|u a IH]; intros b B HB Hb.
  - cbn. rewrite Rabs_R0. unfold l1. cbn. lra.
  - destruct b as [|v b].
    + cbn [map2 Rsum fold_right]. rewrite Rabs_R0. pose proof (l1_nonneg (u :: a)). nra.
    + cbn [map2 Rsum fold_right]. fold (Rsum (map2 Rmult a b)).
      unfold l1. cbn [map Rsum fold_right]. fold (Rsum (map Rabs a)). fold (l1 a).
      pose proof (Rabs_triang (u * v) (Rsum (map2 Rmult a b))) as Ht.
      rewrite Rabs_mult in Ht.
      assert (Hv : Rabs v <= B) by (apply Hb; cbn; left; reflexivity).
      assert (Hr : Rabs (Rsum (map2 Rmult a b)) <= l1 a * B).
      { apply IH; [exact HB|]. intros w Hw. apply Hb. cbn. right. exact Hw. }
      pose proof (Rabs_pos u). pose proof (Rabs_pos v). nra.
Qed.

Section Contraction.
  Context (phi : list R).
  Let p := length phi.
  Let rho := l1 phi.

  (** the last p entries of the history are bounded by B *)
  Definition window_le (hist : list R) (B : R) : Prop :=
    forall v, In v (firstn p (rev hist)) -> Rabs v <= B.

  Lemma ar_next_le hist B : 0 <= B -> window_le hist B -> Rabs (ar_next phi hist) <= rho * B.
  Proof. intros HB H. unfold ar_next. apply abs_dot_le; assumption. Qed.

  Lemma window_le_snoc hist B zv : window_le hist B -> Rabs zv <= B -> window_le (hist ++ [zv]) B.
  Proof.
    intros H Hz v Hv. rewrite rev_app_distr in Hv. cbn [rev app] in Hv.
    destruct p as [|q] eqn:Ep; [destruct Hv|].
    cbn [firstn] in Hv. destruct Hv as [<-|Hv]; [exact Hz|].
    apply H. rewrite Ep. apply In_firstn_S. exact Hv.
  Qed.

  Hypothesis rho_le_1 : rho <= 1.

  Lemma forecast_all_le h : forall hist B,
    0 <= B -> window_le hist B ->
    forall v, In v (ar_forecast phi hist h) -> Rabs v <= rho * B.
  Proof.
    induction h as [|h IH]; intros hist B HB Hw v Hv; [destruct Hv|].
    cbn [ar_forecast] in Hv.
    pose proof (ar_next_le hist B HB Hw) as Hn.
    destruct Hv as [<-|Hv]; [exact Hn|].
    apply (IH (hist ++ [ar_next phi hist]) B HB); [|exact Hv].
    apply window_le_snoc; [exact Hw|]. pose proof (l1_nonneg phi). fold rho in H. nra.
  Qed.

  Lemma ar_forecast_split a : forall hist b,
    ar_forecast phi hist (a + b)
    = ar_forecast phi hist a ++ ar_forecast phi (hist ++ ar_forecast phi hist a) b.
  Proof.
    induction a as [|a IH]; intros hist b.
    - cbn [Nat.add ar_forecast app]. rewrite app_nil_r. reflexivity.
    - cbn [Nat.add ar_forecast app]. rewrite IH. rewrite <- app_assoc. reflexivity.
  Qed.

  Hypothesis p_pos : (0 < p)%nat.

  Lemma window_after_block hist B :
    0 <= B -> window_le hist B -> window_le (hist ++ ar_forecast phi hist p) (rho * B).
  Proof.
    intros HB Hw v Hv. rewrite rev_app_distr in Hv.
    rewrite firstn_app, rev_length, ar_forecast_length, Nat.sub_diag in Hv.
    cbn [firstn] in Hv. rewrite app_nil_r in Hv.
    apply In_firstn_In in Hv. apply in_rev in Hv.
    apply (forecast_all_le p hist B HB Hw v Hv).
  Qed.

  (** forecast number k (from 0) is bounded by rho^(m+1) B as soon as k >= m p *)
  Lemma forecast_block_bound m : forall hist B,
    0 <= B -> window_le hist B ->
    forall h k, (m * p <= k < h)%nat -> Rabs (nth k (ar_forecast phi hist h) 0) <= rho ^ (S m) * B.
  Proof.
    induction m as [|m IH]; intros hist B HB Hw h k Hk.
    - rewrite pow_1. apply (forecast_all_le h hist B HB Hw).
      apply nth_In. rewrite ar_forecast_length. lia.
    - assert (Hp : (p <= k)%nat) by nia.
      replace h with (p + (h - p))%nat by lia.
      rewrite ar_forecast_split.
      rewrite app_nth2 by (rewrite ar_forecast_length; exact Hp).
      rewrite ar_forecast_length.
      pose proof (l1_nonneg phi) as Hr. fold rho in Hr.
      specialize (IH (hist ++ ar_forecast phi hist p) (rho * B) ltac:(nra)
                    (window_after_block hist B HB Hw) (h - p)%nat (k - p)%nat ltac:(nia)).
      replace (rho ^ S (S m) * B) with (rho ^ S m * (rho * B)) by (simpl; ring).
      exact IH.
  Qed.
End Contraction.

Lemma In_le_sumabs v l : In v l -> Rabs v <= Rsum (map Rabs l).
Proof.
  induction l as [|a l IH]; [intros []|].
  assert (0 <= Rsum (map Rabs l)) by apply (l1_nonneg l).
  cbn [map Rsum fold_right]. fold (Rsum (map Rabs l)).
  intros [<-|H1]; [lra | specialize (IH H1); pose proof (Rabs_pos a); lra].
Qed.

(** quantitative form: forecast k+1 is within rho^(k/p + 1) * (Σ|x_i - mu|) of the intercept *)
Lemma forecast_contraction_bound c mu data h k f :
  c <> [] -> l1 c <= 1 ->
  (k < h)%nat -> predict RO c mu data h = Some f ->
  Rabs (nth k f 0 - mu)
  <= l1 c ^ (S (k / length c)) * Rsum (map Rabs (map (fun v => v - mu) data)).
Proof.
  intros Hc Hrho Hk. rewrite forecast_is_centred_recursion.
  destruct (_ <=? _)%nat; [|discriminate]. intros Hf. injection Hf as <-.
  rewrite (nth_map_in _ _ _ _ 0) by (rewrite ar_forecast_length; exact Hk).
  replace (nth k (ar_forecast (rev c) (map (fun v => v - mu) data) h) 0 + mu - mu)
    with (nth k (ar_forecast (rev c) (map (fun v => v - mu) data) h) 0) by lra.
  set (hist := map (fun v => v - mu) data).
  assert (Hp : (0 < length c)%nat) by (destruct c; [congruence | simpl; lia]).
  pose proof (forecast_block_bound (rev c) ltac:(rewrite l1_rev; exact Hrho)
                ltac:(rewrite rev_length; exact Hp) (k / length c) hist (Rsum (map Rabs hist))
                (l1_nonneg hist)) as H.
  rewrite l1_rev, rev_length in H. apply H.
  - intros v Hv. apply In_le_sumabs. apply in_rev. apply In_firstn_In in Hv. exact Hv.
  - split; [|exact Hk]. rewrite Nat.mul_comm. apply Nat.mul_div_le. lia.
Qed.

(** convergence to the intercept when Σ|phi_i| < 1, every order *)
Lemma forecast_converges_contraction c mu data :
  c <> [] -> l1 c < 1 ->
  forall eps, 0 < eps -> exists N, forall h k f,
    (N <= k < h)%nat -> predict RO c mu data h = Some f -> Rabs (nth k f 0 - mu) < eps.
Proof.
  intros Hc Hrho eps Heps.
  set (B := Rsum (map Rabs (map (fun v => v - mu) data))).
  assert (HB : 0 <= B) by apply l1_nonneg.
  pose proof (l1_nonneg c) as Hr0.
  assert (Habs : Rabs (l1 c) < 1) by (rewrite Rabs_right; lra).
  destruct (pow_lt_1_zero (l1 c) Habs (eps / (B + 1))) as [N0 HN0].
  { apply Rdiv_lt_0_compat; lra. }
  assert (Hp : (0 < length c)%nat) by (destruct c; [congruence | simpl; lia]).
  exists (N0 * length c)%nat. intros h k f [HNk Hkh] Hf.
  pose proof (forecast_contraction_bound c mu data h k f Hc ltac:(lra) Hkh Hf) as Hb. fold B in Hb.
  assert (Hm : (N0 <= k / length c)%nat).
  { apply Nat.div_le_lower_bound; lia. }
  specialize (HN0 (S (k / length c)) ltac:(lia)).
  rewrite Rabs_right in HN0 by (apply Rle_ge, pow_le; exact Hr0).
  apply Rle_lt_trans with (1 := Hb).
  apply Rle_lt_trans with (l1 c ^ S (k / length c) * (B + 1)).
  - assert (0 <= l1 c ^ S (k / length c)) by (apply pow_le; exact Hr0). nra.
  - apply Rlt_le_trans with (eps / (B + 1) * (B + 1)); [nra|]. right. field. lra.
Qed.

Example contraction_instance : [1 / 4; - (1 / 2)] <> [] /\ l1 [1 / 4; - (1 / 2)] < 1.
Proof.
  split; [discriminate|]. unfold l1. cbn.
  rewrite (Rabs_right (1 / 4)) by lra. rewrite (Rabs_left (- (1 / 2))) by lra. lra.
Qed.
