(** * C16, Tie A: the hand-written per-target function of Model/Interp.v against the dispatch
    regenerated from src/functions/interpolate.rs (Generated/interp_dispatch.v).
    The scripts below do not depend on the shape of the generated decision tree: they split on
    whatever tests it contains and decide the bounds checks by [lia]. *)
From Coq Require Import List Arith Bool Lia.
From Compute Require Import Base.Ops Base.ListMat Model.Interp Generated.interp_dispatch Proofs.C16.
Import ListNotations.

Definition to_xmode {T} (m : mode T) : xmode T :=
  match m with MPanic => XPanic | MFill l r => XFill l r | MExtrap => XExtrapolate end.

Definition step_of_option {T} (o : option T) : step T :=
  match o with Some v => Push v | None => Abort end.

Ltac split_nat_tests :=
  repeat match goal with
  | |- context [?a <=? ?b] =>
      first [ replace (a <=? b) with true by (symmetry; apply Nat.leb_le; lia)
            | replace (a <=? b) with false by (symmetry; apply Nat.leb_gt; lia)
            | let E := fresh "E" in destruct (a <=? b) eqn:E; [apply Nat.leb_le in E | apply Nat.leb_gt in E] ]
  | |- context [?a <? ?b] =>
      first [ replace (a <? b) with true by (symmetry; apply Nat.ltb_lt; lia)
            | replace (a <? b) with false by (symmetry; apply Nat.ltb_ge; lia)
            | let E := fresh "E" in destruct (a <? b) eqn:E; [apply Nat.ltb_lt in E | apply Nat.ltb_ge in E] ]
  | |- context [?a =? ?b] =>
      first [ replace (a =? b) with true by (symmetry; apply Nat.eqb_eq; lia)
            | replace (a =? b) with false by (symmetry; apply Nat.eqb_neq; lia)
            | let E := fresh "E" in destruct (a =? b) eqn:E; [apply Nat.eqb_eq in E | apply Nat.eqb_neq in E] ]
  end.

(** the regenerated dispatch, fed with the scan's index, is the model's per-target function *)
Lemma dispatch_agrees : forall {T} (O : Ops T) (x y : list T) (n : nat) (m : mode T) (t : T),
    1 <= n ->
    target_step O x y n (scan O x (n - 1) t) t (to_xmode m) = step_of_option (interp1 O x y n m t).
Proof.
  intros T O x y n m t Hn. rewrite interp1_unfold by lia.
  pose proof (scan_le O x (n - 1) t) as Hle.
  set (idx := scan O x (n - 1) t) in *. clearbody idx.
  unfold target_step, step_of_option, segment_value, extrap_left, extrap_right. cbv zeta.
  destruct (ltb O (nth (n - 1) x (zero O)) t) eqn:Eab; destruct m; cbn [to_xmode];
    split_nat_tests; cbn [andb orb]; split_nat_tests; try reflexivity; try lia.
Qed.

(** every path of the regenerated dispatch pushes one value or panics: no target is skipped *)
Lemma dispatch_never_skips : forall {T} (O : Ops T) (x y : list T) (n idx : nat) (t : T) (xm : xmode T),
    target_step O x y n idx t xm <> Skip.
Proof.
  intros T O x y n idx t xm. unfold target_step. cbv zeta.
  destruct xm;
    repeat match goal with
    | |- context [if ?c then _ else _] => let E := fresh "E" in destruct c eqn:E
    end; try discriminate;
    repeat match goal with H : _ = _ |- _ => progress cbn [orb andb] in H end; congruence.
Qed.
