(** * C18 — the two clauses the ORIGINAL code (before the `fix:` commits) does not satisfy, with witnesses.
    The definitions below are the translator's output on the original chi_squared.rs / uniform.rs / discreteuniform.rs
    (kept by hand, since Generated/dist_setters.v now follows the repaired code).  Witnesses are computed on the
    rational carrier.  On the original tree, Proofs/C18.v fails exactly at ChiSquared_ok, Uniform_ok, DiscreteUniform_ok. *)
From Coq Require Import ZArith QArith List Bool.
From Compute Require Import Base.Ops Base.DistCore Generated.dist_setters.
Import ListNotations.

Section Original.
  Context {T : Type} (O : Ops T).
  (** D32: `set_dof` stored the new dof only *)
  Definition ChiSquared_set_dof_orig (self : @ChiSquared_state T) (dof : Z) : result (@ChiSquared_state T) :=
    if (Z.ltb 0%Z dof) then
    let self := ChiSquared_with_dof self dof in
    Ok self
    else Panicked self.
  (** D33: `update` = set_lower(params[0]).set_upper(params[1]) *)
  Definition Uniform_update_orig (self : @Uniform_state T) (params : list T) : result (@Uniform_state T) :=
    with_param params 0 self (fun p1 =>
    rbind (Uniform_set_lower O self p1) (fun self =>
    with_param params 1 self (fun p2 =>
    rbind (Uniform_set_upper O self p2) (fun self =>
    Ok self)))).
  Definition DiscreteUniform_update_orig (self : DiscreteUniform_state) (params : list T) : result DiscreteUniform_state :=
    with_param params 0 self (fun p1 =>
    rbind (DiscreteUniform_set_lower self (cast_i64 O p1)) (fun self =>
    with_param params 1 self (fun p2 =>
    rbind (DiscreteUniform_set_upper self (cast_i64 O p2)) (fun self =>
    Ok self)))).
End Original.

(** D32: ChiSquared::new(4), then set_dof(9): the call returns, but the object is not the fresh ChiSquared(9)
    (its sampler is still Gamma(2, 1/2) instead of Gamma(9/2, 1/2)) *)
Lemma D32_stale_sampler_on_original :
  exists s0 s1, ChiSquared_new QO 4 = Some s0 /\ ChiSquared_set_dof_orig s0 9 = Ok s1 /\
                ChiSquared_new QO (ChiSquared_params s1) <> Some s1 /\
                Gamma_alpha (ChiSquared_sampler s1) = 2%Q /\
                option_map (fun s => Gamma_alpha (ChiSquared_sampler s)) (ChiSquared_new QO 9) = Some (9 # 2)%Q.
Proof.
  eexists. eexists. split; [vm_compute; reflexivity|]. split; [vm_compute; reflexivity|].
  split; [|split; vm_compute; reflexivity].
  intro H. vm_compute in H. discriminate H.
Qed.

(** D33: Uniform::new(0,1), then update([2,3]): the constructor accepts (2,3), the update panics *)
Lemma D33_valid_move_rejected_on_original_Uniform :
  exists s0, Uniform_new QO 0%Q 1%Q = Some s0 /\ Uniform_new QO 2%Q 3%Q <> None /\
             is_ok (Uniform_update_orig QO s0 [2%Q; 3%Q]) = false.
Proof. eexists. split; [vm_compute; reflexivity|]. split; [vm_compute; discriminate|vm_compute; reflexivity]. Qed.

Lemma D33_valid_move_rejected_on_original_DiscreteUniform :
  exists s0, DiscreteUniform_new 0%Z 1%Z = Some s0 /\ DiscreteUniform_new 5%Z 9%Z <> None /\
             is_ok (DiscreteUniform_update_orig QO s0 [5%Q; 9%Q]) = false.
Proof. eexists. split; [vm_compute; reflexivity|]. split; [vm_compute; discriminate|vm_compute; reflexivity]. Qed.

(** and the repaired code on the same inputs *)
Lemma D32_D33_repaired_on_the_same_inputs :
  (exists s0 s1, ChiSquared_new QO 4 = Some s0 /\ ChiSquared_set_dof QO s0 9 = Ok s1 /\ ChiSquared_new QO 9 = Some s1) /\
  (exists s0 s1, Uniform_new QO 0%Q 1%Q = Some s0 /\ Uniform_update QO s0 [2%Q; 3%Q] = Ok s1 /\ Uniform_new QO 2%Q 3%Q = Some s1) /\
  (exists s0 s1, DiscreteUniform_new 0%Z 1%Z = Some s0 /\ DiscreteUniform_update QO s0 [5%Q; 9%Q] = Ok s1 /\ DiscreteUniform_new 5%Z 9%Z = Some s1).
Proof. repeat split; eexists; eexists; repeat split; vm_compute; reflexivity. Qed.
