(** Proofs for C11, part 9: the number returned by the determinant routines of [Model/LU.v]
    (sign of the pivot permutation times the product of U's diagonal) IS the determinant of the input,
    [Spec.Determinant.determinant] (cofactor expansion), for every order and every matrix.
    Route: P.A = L.U ([lu_reconstructs]); det (P.A) = sign P * det A ([det_perm_rows]);
    det (L.U) = det U ([det_unit_lower_mul]) = product of the diagonal ([det_upper]); sign P is a unit. *)
From Coq Require Import List Arith Bool Lia ZArith Reals Lra Permutation.
From Compute Require Import Base.Ops Base.ListMat Model.Reduce Model.MatMul Model.Subst Model.LU
  Spec.Factor Spec.Determinant Proofs.C05 Proofs.LinAlgBase Proofs.C11_Subst Proofs.C11_LU Proofs.C11_Det
  Proofs.C11_Sign Proofs.C11_DetLaplace.
Import ListNotations.
Local Open Scope R_scope.

(** the list-of-rows determinant of a flat array *)
Lemma determinant_unflatten (a : list R) n :
  determinant (unflatten a n n) = det_n n (fun i j => getm a n i j).
Proof.
  unfold determinant. rewrite unflatten_length. apply det_ext. intros r c Hr Hc.
  change (ent 0 (unflatten a n n) r c = getm a n r c). apply ent_unflatten; auto.
Qed.

Lemma determinant_wf_flatten (A : list (list R)) n :
  wf A n -> determinant A = det_n n (fun i j => getm (flatten A) n i j).
Proof.
  intros Hw. unfold determinant. rewrite (proj1 Hw). apply det_ext. intros r c Hr Hc.
  unfold getm. rewrite (nth_flatten 0 A n r c Hw Hr Hc). reflexivity.
Qed.

(** slice level: the factors returned by [lu] determine the determinant of the input *)
Lemma lu_determinant (a m : list R) (piv : list nat) n :
  lu RO a = Some (m, piv) -> (n * n)%nat = length a ->
  determinant (unflatten a n n) = rprod (fun i => getm m n i i) n * IZR (sign_inv piv).
Proof.
  intros Hlu Hn. destruct (lu_reconstructs a m piv n Hlu Hn) as (_ & Hp & Hrec & _).
  rewrite determinant_unflatten.
  pose proof (det_perm_rows n (fun i j => getm a n i j) piv Hp) as Hperm.
  assert (HU : det_n n (fun r c => getm a n (nth r piv 0%nat) c) = rprod (fun i => getm m n i i) n).
  { rewrite (det_ext n _ (fun i c => rsum (fun k => Lof m n i k * Uof m n k c) n))
      by (intros r c Hr Hc; symmetry; apply Hrec; auto).
    rewrite (det_unit_lower_mul n (fun i k => Lof m n i k) (fun k c => Uof m n k c)).
    - rewrite det_upper.
      + apply rprod_ext. intros k _. unfold Uof. rewrite Nat.leb_refl. reflexivity.
      + intros i j _ _ Hji. unfold Uof. destruct (Nat.leb_spec i j); [lia|reflexivity].
    - intros i _. unfold Lof. rewrite Nat.ltb_irrefl, Nat.eqb_refl. reflexivity.
    - intros i k _ _ Hik. unfold Lof. destruct (Nat.ltb_spec k i); [lia|].
      destruct (Nat.eqb_spec k i); [lia|reflexivity]. }
  cbv beta in Hperm. rewrite HU in Hperm.
  pose proof (sign_inv_sq piv n Hp) as Hsq. apply (f_equal IZR) in Hsq. rewrite mult_IZR in Hsq.
  rewrite Hperm. rewrite Rmult_comm, <- Rmult_assoc, Hsq. ring.
Qed.

(** singular input: the determinant vanishes exactly when some pivot u_ii is zero *)
Lemma lu_determinant_zero_iff (a m : list R) (piv : list nat) n :
  lu RO a = Some (m, piv) -> (n * n)%nat = length a ->
  (determinant (unflatten a n n) = 0 <-> exists i, (i < n)%nat /\ getm m n i i = 0).
Proof.
  intros Hlu Hn. rewrite (lu_determinant a m piv n Hlu Hn).
  destruct (lu_reconstructs a m piv n Hlu Hn) as (_ & Hp & _).
  pose proof (sign_inv_sq piv n Hp) as Hsq. apply (f_equal IZR) in Hsq. rewrite mult_IZR in Hsq.
  rewrite <- rprod_zero_iff. split.
  - intros H. apply Rmult_integral in H. destruct H as [H|H]; [auto|]. rewrite H in Hsq. lra.
  - intros H. rewrite H. ring.
Qed.

(** [Matrix::det] *)
Lemma matrix_det_is_determinant (m : matrix (T:=R)) :
  well_formed m = true -> nr m = nc m -> matrix_det RO m = Some (determinant (mrows m)).
Proof.
  intros Hwf Hsq.
  destruct (det_formula_inversions m (nr m) Hwf eq_refl (eq_sym Hsq)) as (lum & piv & Hlu & _ & Hdet).
  destruct (matrix_lu_eq_slice RO m lum piv Hlu) as (Hslice & _ & _ & _ & Hlen).
  rewrite Hdet. f_equal. unfold mrows. rewrite <- Hsq.
  symmetry. apply (lu_determinant (dat m) (dat lum) piv (nr m) Hslice Hlen).
Qed.

(** [Matrix::lu] followed by [Matrix::lu_det] *)
Lemma matrix_lu_det_is_determinant (m l : matrix (T:=R)) (piv : list nat) :
  matrix_lu RO m = Some (l, piv) -> matrix_lu_det RO l piv = Some (determinant (mrows m)).
Proof.
  intros Hlu.
  assert (Hg : well_formed m = true /\ nr m = nc m).
  { unfold matrix_lu in Hlu. destruct (well_formed m && (nr m =? nc m)%nat) eqn:Hg; cbn [guard bind] in Hlu; [|discriminate].
    apply andb_prop in Hg. destruct Hg as [H1 H2]. apply Nat.eqb_eq in H2. auto. }
  destruct Hg as [Hwf Hsq].
  rewrite <- (matrix_det_is_determinant m Hwf Hsq). unfold matrix_det. rewrite Hlu. reflexivity.
Qed.

(** the list-of-rows form: every square matrix of order n >= 1 given by its rows *)
Lemma det_is_determinant n (A : list (list R)) :
  (0 < n)%nat -> length A = n -> (forall r, In r A -> length r = n) ->
  matrix_det RO {| nr := n; nc := n; dat := flatten A |} = Some (determinant A).
Proof.
  intros Hn Hl Hr.
  assert (Hw : wf A n) by (split; auto; intros i Hi; apply Hr, nth_In; lia).
  pose proof (wf_flatten_length A n Hw) as Hfl.
  set (m := {| nr := n; nc := n; dat := flatten A |}).
  assert (Hwf : well_formed m = true).
  { unfold well_formed, m. cbn [nr nc dat]. rewrite Hfl, Nat.eqb_refl.
    destruct (Nat.ltb_spec 0 n); [reflexivity|lia]. }
  rewrite (matrix_det_is_determinant m Hwf eq_refl). f_equal.
  unfold mrows, m. cbn [nr nc dat]. rewrite determinant_unflatten. symmetry. apply determinant_wf_flatten; auto.
Qed.

(** integer matrices: the routine returns, on the reals, the exact integer determinant *)
Lemma determinant_IZR (A : list (list Z)) :
  determinant (map (map IZR) A) = IZR (zdeterminant A).
Proof.
  unfold determinant, zdeterminant. rewrite map_length, <- det_n_IZR. apply det_ext. intros r c _ _.
  change (@nil R) with (map IZR []). rewrite map_nth. change 0 with (IZR 0). rewrite map_nth. reflexivity.
Qed.

Lemma det_integer_exact n (A : list (list Z)) :
  (0 < n)%nat -> length A = n -> (forall r, In r A -> length r = n) ->
  matrix_det RO {| nr := n; nc := n; dat := flatten (map (map IZR) A) |} = Some (IZR (zdeterminant A)).
Proof.
  intros Hn Hl Hr. rewrite <- determinant_IZR. apply det_is_determinant; auto.
  - rewrite map_length. auto.
  - intros r Hin. apply in_map_iff in Hin. destruct Hin as [r0 [<- Hin0]]. rewrite map_length. auto.
Qed.

(** ** The definition at small orders (sanity of the spec) *)
Lemma determinant_2x2 a b c d : determinant [[a; b]; [c; d]] = a * d - b * c.
Proof. unfold determinant. cbn. ring. Qed.

Lemma determinant_3x3 a b c d e f g h i :
  determinant [[a; b; c]; [d; e; f]; [g; h; i]] = a * e * i + b * f * g + c * d * h - c * e * g - b * d * i - a * f * h.
Proof. unfold determinant. cbn. ring. Qed.
