(** * Tie A for C14: the hand-written model of [PolynomialRegressor] IS the source.
    [Generated/poly_loops.v] is produced on every run by tools/tiea/poly_loops.py (statement-level translator
    [LoopTranslator] of tools/rsexpr.py) from src/predict/polynomial.rs.  The routines of other files that [fit] calls are
    abstract parameters of the generated text, instantiated here by their models ([vandermonde], [xtx], [matmul] — each tied
    to its own source by C15 / C05 — and [inv], in which the model of [Model/Poly.v] is parametric as well).
    No law of the carrier is used. *)
From Coq Require Import List ZArith Arith Bool Lia.
From Compute Require Import Base.Ops Base.ListMat Base.RsExpr Base.RsExprMut Model.Reduce Model.MatMul Model.Poly
  Proofs.RsExprLemmas Generated.poly_loops.
Import ListNotations.

Section PolyTie.
  Context {T : Type} (O : Ops T).
  (** the abstract parameters as the generated text sees them (sizes in [Z]) *)
  Definition vandermonde_z (x : list T) (n : Z) : list T := vandermonde O x (Z.to_nat n).
  Definition xtx_z (x : list T) (k : Z) : option (list T) := xtx O x (Z.to_nat k).
  Definition matmul_z (a b : list T) (ra rb : Z) (ta tb : bool) : option (list T) := matmul O a b (Z.to_nat ra) (Z.to_nat rb) ta tb.

  (** [vec![0.; deg + 1]] below the allocation limit *)
  Theorem tiea_poly_new : forall deg : nat, (Z.of_nat (deg + 1) <= 1152921504606846975)%Z -> src_new O (Z.of_nat deg) = Some (new O deg).
  Proof.
    intros deg H. unfold src_new, new. replace (Z.add (Z.of_nat deg) 1) with (Z.of_nat (deg + 1)) by lia.
    now rewrite rs_vec_alloc_nat by exact H.
  Qed.
  Theorem tiea_poly_update : forall coef params : list T, src_update O coef params = params.
  Proof. reflexivity. Qed.
  (** Horner's rule over the reversed coefficients, for every [x] *)
  Theorem tiea_poly_predict : forall coef x : list T, src_predict O coef x = predict O coef x.
  Proof. reflexivity. Qed.
  (** [fit]: the length assertion, the Gram matrix of the Vandermonde matrix, its inverse, X^T y, the product, [update] *)
  Theorem tiea_poly_fit : forall (inv : list T -> option (list T)) (coef x y : list T),
    src_fit O vandermonde_z xtx_z inv matmul_z coef x y = fit O inv (length coef) x y.
  Proof.
    intros inv coef x y. unfold src_fit, fit, fit_gram, vandermonde_z, xtx_z, matmul_z, rs_len, src_update. cbv zeta.
    rewrite Zeqb_of_nat, !Nat2Z.id. destruct (length x =? length y); cbn [guard bind]; [|reflexivity].
    destruct (xtx O (vandermonde O x (length coef)) (length x)) as [g|]; cbn [bind]; [|reflexivity].
    destruct (inv g) as [gi|]; cbn [bind]; [|reflexivity].
    destruct (matmul O (vandermonde O x (length coef)) y (length x) (length y) true false) as [xty|]; cbn [bind]; [|reflexivity].
    destruct (matmul O gi xty (length coef) (length coef) false false); reflexivity.
  Qed.
End PolyTie.
