(** * Tie A, fourth round, for C06: the helpers and accessors of [impl GLM] ARE the source.  [Generated/glm_loops.v] is produced
    on every run by tools/tiea/glm_loops.py (statement-level translator [LoopTranslator] of tools/rsexpr.py) from
    src/predict/glms/glm.rs.  The source accumulates IN PLACE ([dbeta[i_p] -= ..] inside the [i_n] loop, [weighted_x[i_n * p +
    i_p] *= ..], [ddbeta[i * p + i] += alpha]); the models of Model/GLM.v are written per cell ([map] / [mapi] / one
    [fold_left] per cell).  The lemmas show that every index of the source is in bounds and that every cell sees the same
    operations in the same order.  Routines of other files are parameters of the generated text, instantiated here by their
    models.  No law of the carrier. *)
From Coq Require Import List ZArith Arith Bool Lia.
From Compute Require Import Base.Ops Base.ListMat Base.RsExpr Base.RsExprMut Base.RsExprMore Base.RsExprFour
  Model.Reduce Model.MatMul Model.GLM Generated.glm_families Generated.glm_loops
  Proofs.RsExprLemmas Proofs.RsExprFlat Proofs.C15Lists Proofs.TieA_linalg_loops Proofs.TieA_linalg_lu Proofs.LinAlgBase.
Import ListNotations.

(** ** in-place loops that rewrite one cell per pass *)
Lemma ptwise_loop : forall {A} (d : A) (f : list A -> Z -> option (list A)) (ix : nat -> nat) (h : nat -> A -> A) (ks : list nat) (s : list A),
  (forall s' k, In k ks -> length s' = length s -> f s' (Z.of_nat k) = Some (upd s' (ix k) (h k (nth (ix k) s' d)))) ->
  rs_fold_opt f (map Z.of_nat ks) s = Some (fold_left (fun s k => upd s (ix k) (h k (nth (ix k) s d))) ks s).
Proof.
  intros A d f ix h ks s H.
  destruct (rs_fold_opt_inv (fun s' => length s' = length s) f (fun s k => upd s (ix k) (h k (nth (ix k) s d))) ks s eq_refl) as [E _]; [|exact E].
  intros s' k Hk Hs. split; [now apply H|]. now rewrite upd_length.
Qed.

Lemma fold_upd_length : forall {A} (d : A) (ix : nat -> nat) (h : nat -> A -> A) (ks : list nat) (s : list A),
  length (fold_left (fun s k => upd s (ix k) (h k (nth (ix k) s d))) ks s) = length s.
Proof. intros A d ix h ks. induction ks as [|k ks IH]; intro s; cbn [fold_left]; [reflexivity|]. now rewrite IH, upd_length. Qed.

(** cell [j] after the loop: the passes that hit [j], in order *)
Lemma nth_fold_upd : forall {A} (d : A) (ix : nat -> nat) (h : nat -> A -> A) (ks : list nat) (s : list A) (j : nat),
  j < length s ->
  nth j (fold_left (fun s k => upd s (ix k) (h k (nth (ix k) s d))) ks s) d
  = fold_left (fun v k => if ix k =? j then h k v else v) ks (nth j s d).
Proof.
  intros A d ix h ks. induction ks as [|k ks IH]; intros s j Hj; cbn [fold_left]; [reflexivity|].
  rewrite IH by (now rewrite upd_length). f_equal. rewrite nth_upd.
  destruct (Nat.eqb_spec j (ix k)) as [->|E].
  - rewrite Nat.eqb_refl. apply Nat.ltb_lt in Hj. now rewrite Hj.
  - cbn [andb]. destruct (Nat.eqb_spec (ix k) j); [congruence|reflexivity].
Qed.

Lemma fold_hit_none : forall {V} (hit : nat -> bool) (h : nat -> V -> V) (ks : list nat) (v : V),
  (forall k, In k ks -> hit k = false) -> fold_left (fun v k => if hit k then h k v else v) ks v = v.
Proof.
  intros V hit h ks. induction ks as [|k ks IH]; intros v H; cbn [fold_left]; [reflexivity|].
  rewrite (H k (or_introl eq_refl)). apply IH. intros k' Hk'. apply H. now right.
Qed.
Lemma fold_hit_one : forall {V} (hit : nat -> bool) (h : nat -> V -> V) (ks : list nat) (k0 : nat) (v : V),
  NoDup ks -> In k0 ks -> hit k0 = true -> (forall k, In k ks -> hit k = true -> k = k0) ->
  fold_left (fun v k => if hit k then h k v else v) ks v = h k0 v.
Proof.
  intros V hit h ks. induction ks as [|k ks IH]; intros k0 v Hnd Hin H0 Hu; [destruct Hin|].
  cbn [fold_left]. inversion Hnd as [|? ? Hnk Hnd']; subst. destruct Hin as [->|Hin].
  - rewrite H0. apply fold_hit_none. intros k' Hk'. destruct (hit k') eqn:Ek; [|reflexivity].
    exfalso. apply Hnk. rewrite <- (Hu k' (or_intror Hk') Ek). exact Hk'.
  - destruct (hit k) eqn:Ek.
    + exfalso. apply Hnk. rewrite (Hu k (or_introl eq_refl) Ek). exact Hin.
    + apply IH; auto. intros k' Hk'. apply Hu. now right.
Qed.

(** an outer loop whose passes act cell by cell *)
Lemma nth_fold_left_ptwise : forall {A} (d : A) (g : list A -> nat -> list A) (c : nat -> A -> nat -> A) (n : nat) (l : list nat) (s : list A),
  (forall s i, In i l -> length s = n -> length (g s i) = n /\ forall j, j < n -> nth j (g s i) d = c j (nth j s d) i) ->
  length s = n ->
  length (fold_left g l s) = n /\ forall j, j < n -> nth j (fold_left g l s) d = fold_left (c j) l (nth j s d).
Proof.
  intros A d g c n l. induction l as [|i l IH]; intros s H Hs; cbn [fold_left]; [now split|].
  destruct (H s i (or_introl eq_refl) Hs) as [L E].
  destruct (IH (g s i)) as [L' E']; [intros s' i' Hi'; apply H; now right|exact L|].
  split; [exact L'|]. intros j Hj. now rewrite E', E.
Qed.

Lemma rs_map_opt_none_in : forall {A B} (f : A -> option B) (a : A) (l : list A), In a l -> f a = None -> rs_map_opt f l = None.
Proof.
  intros A B f a l. induction l as [|b l IH]; intros Hin Ha; [destruct Hin|]. cbn [rs_map_opt].
  destruct Hin as [->|Hin]; [now rewrite Ha|]. destruct (f b); [|reflexivity]. now rewrite IH.
Qed.

Section TieA.
  Context {T : Type} (O : Ops T).
  Local Notation z := (zero O).

  (** the routines of other files as the generated text sees them (integers in [Z]) *)
  Definition is_matrix_z (l : list T) (n : Z) : option Z := option_map Z.of_nat (is_matrix (length l) (Z.to_nat n)).
  Definition matmul_z (a b : list T) (r c : Z) (ta tb : bool) : option (list T) := matmul O a b (Z.to_nat r) (Z.to_nat c) ta tb.

  (** ** [has_converged]: the source tests [loss_previous.is_infinite()]; the model keeps "no previous loss" as [None] and writes
      the test as [x == x && x - x != x - x].  The two tests agree on binary64 (and differ on the reals, where [1 / 0 = 0]):
      the tie is stated for the values on which they agree. *)
  Theorem tiea_has_converged_unfold : forall loss lp tol : T,
    src_has_converged O loss lp tol = if rs_is_infinite O lp then false else ltb O (div O (abs O (sub O loss lp)) lp) tol.
  Proof. reflexivity. Qed.
  Theorem tiea_has_converged : forall loss lp tol : T, rs_is_infinite O lp = is_inf O lp ->
    src_has_converged O loss lp tol = has_converged O loss (Some lp) tol.
  Proof. intros loss lp tol H. unfold src_has_converged, has_converged. rewrite H. reflexivity. Qed.
  (** the first pass: [penalized_deviance = f64::INFINITY] *)
  Theorem tiea_has_converged_first : forall loss tol : T, eqb O (rs_f64_infinity O) (rs_f64_infinity O) = true ->
    src_has_converged O loss (rs_f64_infinity O) tol = has_converged O loss None tol.
  Proof. intros loss tol H. unfold src_has_converged, rs_is_infinite. rewrite H. reflexivity. Qed.

  (** ** the ridge penalties *)
  Lemma fold_seq_hit : forall {V} (h : nat -> V -> V) (a n j : nat) (v : V),
    fold_left (fun v k => if k =? j then h k v else v) (seq a n) v = if (a <=? j) && (j <? a + n) then h j v else v.
  Proof.
    intros V h a n j v. destruct ((a <=? j) && (j <? a + n)) eqn:E.
    - apply andb_prop in E. destruct E as [E1 E2]. apply Nat.leb_le in E1. apply Nat.ltb_lt in E2.
      apply (fold_hit_one (fun k => k =? j) h (seq a n) j v); [apply seq_NoDup|apply in_seq; lia|apply Nat.eqb_refl|].
      intros k _ Hk. now apply Nat.eqb_eq in Hk.
    - apply (fold_hit_none (fun k => k =? j) h). intros k Hk. apply in_seq in Hk. apply Nat.eqb_neq. intros ->.
      apply andb_false_iff in E. destruct E as [E|E]; [apply Nat.leb_gt in E|apply Nat.ltb_ge in E]; lia.
  Qed.

  Theorem tiea_apply_dbeta_penalty : forall (alpha : T) (dbeta coef : list T), length coef = length dbeta ->
    src_apply_dbeta_penalty O alpha dbeta coef = Some (apply_dbeta_penalty O alpha dbeta coef).
  Proof.
    intros alpha dbeta coef L. unfold src_apply_dbeta_penalty, apply_dbeta_penalty, rs_len.
    change 1%Z with (Z.of_nat 1). rewrite rs_range_excl_nat'.
    set (ix := fun k : nat => k). set (h := fun (k : nat) (v : T) => add O v (mul O alpha (nth k coef z))).
    rewrite (ptwise_loop z _ ix h).
    - cbn [bind]. f_equal. apply (nth_ext _ _ z z); [now rewrite (fold_upd_length z ix h), mapi_length|].
      intros j Hj. rewrite (fold_upd_length z ix h) in Hj. rewrite (nth_fold_upd z ix h) by exact Hj. rewrite (nth_mapi _ dbeta j z z) by exact Hj.
      unfold ix. rewrite (fold_seq_hit h). unfold h.
      destruct (Nat.leb_spec 1 j); cbn [andb]; [|reflexivity].
      replace (j <? 1 + (length coef - 1)) with true by (symmetry; apply Nat.ltb_lt; lia). reflexivity.
    - intros s' k Hk Hs. apply in_seq in Hk. rewrite (rs_get_some coef k z), (rs_get_some s' k z) by lia. cbn [bind].
      rewrite rs_set_nat by lia. reflexivity.
  Qed.

  Lemma diag_hit : forall p k j : nat, 0 < p -> k < p -> (k * p + k =? j) = (j / p =? k) && (j mod p =? k).
  Proof.
    intros p k j Hp Hk. destruct (Nat.eqb_spec (k * p + k) j) as [<-|E].
    - rewrite Nat.div_add_l, Nat.div_small, Nat.add_0_r by lia. rewrite Nat.add_comm, Nat.mod_add, Nat.mod_small by lia.
      now rewrite !Nat.eqb_refl.
    - symmetry. apply andb_false_iff. destruct (Nat.eqb_spec (j / p) k) as [E1|E1]; [right|now left].
      apply Nat.eqb_neq. intro E2. apply E. pose proof (Nat.div_mod j p ltac:(lia)). nia.
  Qed.

  Theorem tiea_apply_ddbeta_penalty : forall (alpha : T) (ddbeta : list T) (p : nat), length ddbeta = p * p ->
    src_apply_ddbeta_penalty O alpha ddbeta (Z.of_nat p) = Some (apply_ddbeta_penalty O alpha ddbeta p).
  Proof.
    intros alpha dd p L. unfold src_apply_ddbeta_penalty, apply_ddbeta_penalty.
    change 1%Z with (Z.of_nat 1). rewrite rs_range_excl_nat'.
    set (ix := fun k : nat => k * p + k). set (h := fun (_ : nat) (v : T) => add O v alpha).
    rewrite (ptwise_loop z _ ix h).
    - cbn [bind]. f_equal. apply (nth_ext _ _ z z); [now rewrite (fold_upd_length z ix h), mapi_length|].
      intros j Hj. rewrite (fold_upd_length z ix h) in Hj. rewrite (nth_fold_upd z ix h) by exact Hj. rewrite (nth_mapi _ dd j z z) by exact Hj.
      unfold ix, h.
      assert (Hp : 0 < p) by nia. assert (Hq : j / p < p) by (apply Nat.div_lt_upper_bound; nia).
      destruct ((1 <=? j / p) && (j / p =? j mod p)) eqn:E.
      + apply andb_prop in E. destruct E as [E1 E2]. apply Nat.leb_le in E1. apply Nat.eqb_eq in E2.
        apply (fold_hit_one (fun k => k * p + k =? j) (fun _ v => add O v alpha) (seq 1 (p - 1)) (j / p) (nth j dd z));
          [apply seq_NoDup|apply in_seq; lia| |].
        * rewrite diag_hit by lia. rewrite <- E2. now rewrite !Nat.eqb_refl.
        * intros k Hk Hh. apply in_seq in Hk. rewrite diag_hit in Hh by lia. apply andb_prop in Hh. destruct Hh as [Hh _].
          apply Nat.eqb_eq in Hh. now symmetry.
      + apply (fold_hit_none (fun k => k * p + k =? j) (fun _ v => add O v alpha)). intros k Hk. apply in_seq in Hk.
        rewrite diag_hit by lia. apply andb_false_iff in E. destruct E as [E|E].
        * apply Nat.leb_gt in E. apply andb_false_iff. left. apply Nat.eqb_neq. lia.
        * apply Nat.eqb_neq in E. apply andb_false_iff. destruct (Nat.eqb_spec (j / p) k) as [E1|E1]; [right|now left].
          apply Nat.eqb_neq. lia.
    - intros s' k Hk Hs. apply in_seq in Hk. znat. assert (k * p + k < length s') by nia.
      rewrite (rs_get_some s' (k * p + k) z) by lia. cbn [bind]. rewrite rs_set_nat by lia. reflexivity.
  Qed.
  (** ** gradient and information *)
  Lemma vbin_some : forall (f : T -> T -> T) (a b c : list T), vbin f a b = Some c -> length c = length a /\ length b = length a.
  Proof.
    intros f a b c H. unfold vbin in H. destruct (Nat.eqb_spec (length a) (length b)) as [E|E]; [|discriminate].
    injection H as <-. rewrite map2_len_min. lia.
  Qed.
  Lemma is_matrix_some : forall len nr nc, is_matrix len nr = Some nc -> nr * nc = len /\ 0 < nr.
  Proof.
    intros len [|nr] nc H; [discriminate|]. cbn [is_matrix] in H.
    destruct (Nat.eqb_spec (S nr * (len / S nr)) len) as [E|E]; [|discriminate]. injection H as <-. split; [exact E|lia].
  Qed.
  Lemma nth_map_seq0 : forall {B} (h : nat -> B) (p j : nat) (d : B), j < p -> nth j (map h (seq 0 p)) d = h j.
  Proof.
    intros B h p j d H. rewrite (nth_indep _ d (h 0)) by (now rewrite map_length, seq_length). now rewrite map_nth, seq_nth.
  Qed.
  Lemma nth_repeat_in : forall {A} (a d : A) (n i : nat), i < n -> nth i (repeat a n) d = a.
  Proof. intros A a d n. induction n as [|n IH]; intros [|i] H; cbn [repeat nth]; try lia; [reflexivity|]. apply IH. lia. Qed.

  (** [for i_n in 0..n { for i_p in 0..p { dbeta[i_p] -= x[i_n * p + i_p] * wr[i_n]; } }] *)
  Lemma dbeta_nest : forall (x wr : list T) (n p : nat) (f : list T -> Z -> option (list T)), n * p <= length x -> n <= length wr ->
    (f = fun dbeta i_n => let* dbeta := rs_fold_opt (fun dbeta i_p =>
            let* g7 := rs_get x (Z.add (Z.mul i_n (Z.of_nat p)) i_p) in let* g8 := rs_get wr i_n in let* g9 := rs_get dbeta i_p in
            let* l10 := rs_set dbeta i_p (sub O g9 (mul O g7 g8)) in let dbeta := l10 in Some dbeta) (map Z.of_nat (seq 0 p)) dbeta in Some dbeta) ->
    rs_fold_opt f (map Z.of_nat (seq 0 n)) (repeat z p) = Some (map (dbeta_cell O x wr n p) (seq 0 p)).
  Proof.
    intros x wr n p f Hx Hw ->.
    set (h := fun (i k : nat) (v : T) => sub O v (mul O (nth (i * p + k) x z) (nth i wr z))).
    set (ix := fun k : nat => k).
    set (g := fun (s : list T) (i : nat) => fold_left (fun s k => upd s (ix k) (h i k (nth (ix k) s z))) (seq 0 p) s).
    match goal with |- rs_fold_opt ?f _ _ = _ =>
      destruct (rs_fold_opt_inv (fun s => length s = p) f g (seq 0 n) (repeat z p) (repeat_length z p)) as [E _]; [|rewrite E] end.
    - intros s i Hi Hs. apply in_seq in Hi. rewrite (ptwise_loop z _ ix (h i)).
      + cbn [bind]. split; [reflexivity|]. unfold g. now rewrite (fold_upd_length z ix (h i)).
      + intros s' k Hk Hs'. apply in_seq in Hk. znat. rewrite (rs_get_some x (i * p + k) z) by nia. cbn [bind].
        rewrite (rs_get_some wr i z) by lia. cbn [bind]. rewrite (rs_get_some s' k z) by lia. cbn [bind].
        rewrite rs_set_nat by lia. reflexivity.
    - f_equal.
      destruct (nth_fold_left_ptwise z g (fun j v i => h i j v) p (seq 0 n) (repeat z p)) as [L N]; [|apply repeat_length|].
      + intros s i _ Hs. unfold g. split; [now rewrite (fold_upd_length z ix (h i))|].
        intros j Hj. rewrite (nth_fold_upd z ix (h i)) by lia. unfold ix. rewrite (fold_seq_hit (h i)).
        replace ((0 <=? j) && (j <? 0 + p)) with true by (symmetry; apply andb_true_intro; split; [apply Nat.leb_le|apply Nat.ltb_lt]; lia).
        reflexivity.
      + apply (nth_ext _ _ z z); [now rewrite L, map_length, seq_length|].
        intros j Hj. rewrite L in Hj. rewrite N by exact Hj. rewrite nth_map_seq0 by exact Hj. rewrite nth_repeat_in by exact Hj.
        reflexivity.
  Qed.

  Theorem tiea_compute_dbeta : forall (x y mu dmu var w : list T), (Z.of_nat (length x) <= 1152921504606846975)%Z ->
    src_compute_dbeta O is_matrix_z (vbin (mul O)) (vbin (sub O)) (vbin (div O)) x y mu dmu var w
    = compute_dbeta O x y mu dmu var w.
  Proof.
    intros x y mu dmu var w Hcap. unfold src_compute_dbeta, compute_dbeta, is_matrix_z, rs_len. rewrite Nat2Z.id.
    destruct (is_matrix (length x) (length y)) as [p|] eqn:Ep; cbn [option_map bind]; [|reflexivity]. cbv zeta.
    unfold working_residuals.
    destruct (vbin (sub O) y mu) as [r|] eqn:Er; cbn [bind]; [|reflexivity].
    destruct (vbin (mul O) w r) as [wr0|] eqn:Ewr; cbn [bind]; [|reflexivity].
    destruct (vbin (div O) dmu var) as [q|] eqn:Eq; cbn [bind]; [|reflexivity].
    destruct (vbin (mul O) wr0 q) as [wr|] eqn:Eres; cbn [bind]; [|reflexivity].
    apply vbin_some in Er, Ewr, Eres. apply is_matrix_some in Ep.
    assert (Lw : length wr = length y) by lia. rewrite Lw, Z.eqb_refl.
    rewrite rs_vec_alloc_nat by nia. cbn [bind]. rewrite !rs_range_excl_0_nat.
    rewrite (dbeta_nest x wr (length y) p _) by (try reflexivity; lia). reflexivity.
  Qed.

  (** [for i_n in 0..n { for i_p in 0..p { weighted_x[i_n * p + i_p] *= ww[i_n]; } }] *)
  Lemma row_hit : forall p i j k : nat, j < p -> (i * p + j =? k) = ((i * p <=? k) && (k <? i * p + p)) && (j =? k - i * p).
  Proof.
    intros p i j k Hj. destruct (Nat.eqb_spec (i * p + j) k) as [<-|E].
    - replace (i * p <=? i * p + j) with true by (symmetry; apply Nat.leb_le; lia).
      replace (i * p + j <? i * p + p) with true by (symmetry; apply Nat.ltb_lt; lia). cbn [andb]. symmetry. apply Nat.eqb_eq. lia.
    - symmetry. apply andb_false_iff. destruct (Nat.leb_spec (i * p) k); [|now left; cbn]. right. apply Nat.eqb_neq. lia.
  Qed.

  Lemma weighted_x_nest : forall (x ww : list T) (n p : nat) (f : list T -> Z -> option (list T)), n * p = length x -> n <= length ww ->
    (f = fun wx i_n => let* wx := rs_fold_opt (fun wx i_p =>
            let* g5 := rs_get ww i_n in let* g6 := rs_get wx (Z.add (Z.mul i_n (Z.of_nat p)) i_p) in
            let* l7 := rs_set wx (Z.add (Z.mul i_n (Z.of_nat p)) i_p) (mul O g6 g5) in let wx := l7 in Some wx) (map Z.of_nat (seq 0 p)) wx in Some wx) ->
    rs_fold_opt f (map Z.of_nat (seq 0 n)) x = Some (weighted_x O x ww p).
  Proof.
    intros x ww n p f Hx Hw ->.
    set (h := fun (i : nat) (_ : nat) (v : T) => mul O v (nth i ww z)).
    set (ix := fun (i k : nat) => i * p + k).
    set (g := fun (s : list T) (i : nat) => fold_left (fun s k => upd s (ix i k) (h i k (nth (ix i k) s z))) (seq 0 p) s).
    match goal with |- rs_fold_opt ?f _ _ = _ =>
      destruct (rs_fold_opt_inv (fun s => length s = length x) f g (seq 0 n) x eq_refl) as [E _]; [|rewrite E] end.
    - intros s i Hi Hs. apply in_seq in Hi. rewrite (ptwise_loop z _ (ix i) (h i)).
      + cbn [bind]. split; [reflexivity|]. unfold g. now rewrite (fold_upd_length z (ix i) (h i)).
      + intros s' k Hk Hs'. apply in_seq in Hk. rewrite (rs_get_some ww i z) by lia. cbn [bind]. znat. unfold ix.
        rewrite (rs_get_some s' (i * p + k) z) by nia. cbn [bind]. rewrite rs_set_nat by nia. reflexivity.
    - f_equal. unfold weighted_x.
      set (c := fun (k : nat) (v : T) (i : nat) => if (i * p <=? k) && (k <? i * p + p) then mul O v (nth i ww z) else v).
      destruct (nth_fold_left_ptwise z g c (length x) (seq 0 n) x) as [L N]; [|reflexivity|].
      + intros s i _ Hs. unfold g. split; [now rewrite (fold_upd_length z (ix i) (h i))|].
        intros k Hk. rewrite (nth_fold_upd z (ix i) (h i)) by lia. unfold c, ix.
        destruct ((i * p <=? k) && (k <? i * p + p)) eqn:Erow.
        * apply andb_prop in Erow. destruct Erow as [E1 E2]. apply Nat.leb_le in E1. apply Nat.ltb_lt in E2.
          apply (fold_hit_one (fun j => i * p + j =? k) (h i) (seq 0 p) (k - i * p) (nth k s z)); [apply seq_NoDup|apply in_seq; lia| |].
          -- apply Nat.eqb_eq. lia.
          -- intros j _ Hh. apply Nat.eqb_eq in Hh. lia.
        * apply (fold_hit_none (fun j => i * p + j =? k) (h i)). intros j Hj. apply in_seq in Hj. rewrite row_hit by lia.
          now rewrite Erow.
      + apply (nth_ext _ _ z z); [now rewrite L, mapi_length|].
        intros k Hk. rewrite L in Hk. rewrite N by exact Hk. rewrite (nth_mapi _ x k z z) by exact Hk.
        assert (Hp : 0 < p) by nia. assert (Hq : k / p < n) by (apply Nat.div_lt_upper_bound; nia).
        pose proof (Nat.div_mod k p ltac:(lia)) as Hdm. pose proof (Nat.mod_upper_bound k p ltac:(lia)) as Hmb.
        apply (fold_hit_one (fun i => (i * p <=? k) && (k <? i * p + p)) (fun i v => mul O v (nth i ww z)) (seq 0 n) (k / p) (nth k x z));
          [apply seq_NoDup|apply in_seq; lia| |].
        * apply andb_true_intro. split; [apply Nat.leb_le|apply Nat.ltb_lt]; nia.
        * intros i _ Hh. apply andb_prop in Hh. destruct Hh as [H1 H2]. apply Nat.leb_le in H1. apply Nat.ltb_lt in H2.
          apply (Nat.div_unique k p i (k - i * p)); lia.
  Qed.

  Theorem tiea_compute_ddbeta : forall (x dmu var w : list T),
    src_compute_ddbeta O is_matrix_z (vbin (mul O)) (vbin (div O)) matmul_z x dmu var w = compute_ddbeta O x dmu var w.
  Proof.
    intros x dmu var w. unfold src_compute_ddbeta, compute_ddbeta, is_matrix_z, rs_len. rewrite Nat2Z.id.
    destruct (is_matrix (length x) (length dmu)) as [p|] eqn:Ep; cbn [option_map bind]; [|reflexivity]. cbv zeta.
    unfold working_weights.
    destruct (vbin (mul O) w dmu) as [wd|] eqn:Ewd; cbn [bind]; [|reflexivity].
    destruct (vbin (div O) dmu var) as [q|] eqn:Eq; cbn [bind]; [|reflexivity].
    destruct (vbin (mul O) wd q) as [ww|] eqn:Eww; cbn [bind]; [|reflexivity].
    apply vbin_some in Ewd, Eww. apply is_matrix_some in Ep.
    rewrite !rs_range_excl_0_nat. rewrite (weighted_x_nest x ww (length dmu) p _) by (try reflexivity; lia). cbn [bind].
    unfold matmul_z. rewrite Nat2Z.id. destruct (matmul O x _ _ _ true false); reflexivity.
  Qed.
  (** ** deviances with prior weights *)
  Lemma firstn_1_skipn : forall {A} (l : list A) (k : nat) (d : A), k < length l -> firstn 1 (skipn k l) = [nth k l d].
  Proof.
    intros A l. induction l as [|a l IH]; intros [|k] d H; cbn [length skipn nth firstn] in *; try lia; [reflexivity|].
    apply IH. lia.
  Qed.
  Lemma rs_slice_one : forall {A} (l : list A) (k : nat) (d : A), k < length l -> rs_slice l (Z.of_nat k) (Z.of_nat k + 1) = Some [nth k l d].
  Proof.
    intros A l k d H. rewrite Zadd1_nat. rewrite rs_slice_nat by lia. replace (S k - k) with 1 by lia. now rewrite (firstn_1_skipn l k d).
  Qed.
  Lemma rs_slice_one_none : forall {A} (l : list A) (k : nat), length l <= k -> rs_slice l (Z.of_nat k) (Z.of_nat k + 1) = None.
  Proof.
    intros A l k H. unfold rs_slice, rs_len. replace (Z.of_nat k + 1 <=? Z.of_nat (length l))%Z with false by (symmetry; apply Z.leb_gt; lia).
    now rewrite andb_false_r.
  Qed.
  Lemma unit_dev_some : forall (f : family) (yi mi : T), deviance O f [yi] [mi] = Some (unit_dev O f yi mi).
  Proof. intros f yi mi. unfold unit_dev, deviance. cbn [length Nat.eqb]. reflexivity. Qed.

  Theorem tiea_weighted_deviance : forall (f : family) (y mu w : list T),
    src_weighted_deviance O (deviance O f) y mu w = weighted_deviance O f y mu w.
  Proof.
    intros f y mu w. unfold src_weighted_deviance, weighted_deviance, unit_weights.
    destruct (forallb (fun wi => eqb O wi (one O)) w); [destruct (deviance O f y mu); reflexivity|].
    rewrite rs_range_excl_0_len.
    destruct ((length y <=? length mu) && (length y <=? length w)) eqn:E.
    - apply andb_prop in E. destruct E as [E1 E2]. apply Nat.leb_le in E1. apply Nat.leb_le in E2.
      rewrite (rs_map_opt_seq _ (fun i => mul O (nth i w z) (unit_dev O f (nth i y z) (nth i mu z)))).
      + cbn [bind]. reflexivity.
      + intros k Hk. rewrite Z.add_0_l. rewrite (rs_get_some w k z) by lia. cbn [bind].
        rewrite (rs_slice_one y k z), (rs_slice_one mu k z) by lia. cbn [bind]. rewrite unit_dev_some. reflexivity.
    - change 0%Z with (Z.of_nat 0). rewrite rs_seq_nat.
      set (k0 := Nat.min (length mu) (length w)).
      assert (Hk0 : k0 < length y).
      { apply andb_false_iff in E. destruct E as [E|E]; apply Nat.leb_gt in E; unfold k0; lia. }
      rewrite (rs_map_opt_none_in _ (Z.of_nat k0)); [reflexivity|apply in_map, in_seq; lia|].
      destruct (Nat.le_gt_cases (length w) k0) as [Hw|Hw].
      + rewrite rs_get_none by exact Hw. reflexivity.
      + rewrite (rs_get_some w k0 z) by exact Hw. cbn [bind]. rewrite (rs_slice_one y k0 z) by exact Hk0. cbn [bind].
        rewrite rs_slice_one_none by (unfold k0 in *; lia). reflexivity.
  Qed.

  Theorem tiea_weighted_penalized_deviance : forall (f : family) (alpha : T) (y mu w coef : list T),
    src_weighted_penalized_deviance O (dot O) (deviance O f) alpha y mu w coef = weighted_penalized_deviance O f y mu w alpha coef.
  Proof.
    intros f alpha y mu w coef. unfold src_weighted_penalized_deviance, weighted_penalized_deviance. rewrite tiea_weighted_deviance.
    destruct (weighted_deviance O f y mu w) as [dv|]; cbn [bind]; [|reflexivity].
    destruct coef as [|c0 c].
    - unfold rs_slice_from, rs_slice, rs_len. cbn. reflexivity.
    - change 1%Z with (Z.of_nat 1). rewrite rs_slice_from_nat by (cbn [length]; lia). cbn [bind skipn].
      rewrite dot_same_len by reflexivity. reflexivity.
  Qed.

  (** ** accessors of a fitted model ([ft]: the fields [fit] stores; before [fit] they are [None] and every accessor returns [Err]) *)
  Theorem tiea_coef : forall (c : list T), src_coef O (Some c) = Some c /\ src_coef O (@None (list T)) = None.
  Proof. split; reflexivity. Qed.
  Theorem tiea_deviance_accessor : forall (dv : T), src_deviance O (Some dv) = Some dv /\ src_deviance O (@None T) = None.
  Proof. split; reflexivity. Qed.

  Theorem tiea_aic : forall (ft : fitted (T := T)),
    src_aic O (Some (f_dev ft)) (Some (Z.of_nat (f_p ft))) = Some (Some (aic O ft)).
  Proof. reflexivity. Qed.
  Theorem tiea_aic_unfitted : forall p : option Z, src_aic O (@None T) p = Some None.
  Proof. reflexivity. Qed.
  Theorem tiea_bic : forall (ft : fitted (T := T)),
    src_bic O (Some (f_dev ft)) (Some (f_n ft)) (Some (Z.of_nat (f_p ft))) = Some (Some (bic O ft)).
  Proof. reflexivity. Qed.

  (** [(n - p) as f64] on [usize]: the release build wraps ([rs_usub]), the model follows the debug build (panic): equal for [p <= n] *)
  Theorem tiea_dispersion : forall (f : family) (ft : fitted (T := T)), (Z.of_nat (f_p ft) <= f_n ft)%Z \/ has_dispersion f = false ->
    src_dispersion O (has_dispersion f) (Some (f_dev ft)) (Some (f_n ft)) (Some (Z.of_nat (f_p ft))) = option_map Some (dispersion O f ft).
  Proof.
    intros f ft H. unfold src_dispersion, dispersion. cbn [src_deviance]. destruct (has_dispersion f); [|reflexivity].
    destruct H as [H|H]; [|discriminate]. cbn [bind]. rewrite rs_usub_le by exact H.
    replace (f_n ft <? Z.of_nat (f_p ft))%Z with false by (symmetry; apply Z.ltb_ge; exact H). reflexivity.
  Qed.

  Section Inv.
    Context (solve : list T -> list T -> option (list T)) (inv : list T -> option (list T)).

    Theorem tiea_coef_covariance_matrix : forall (f : family) (ft : fitted (T := T)), (Z.of_nat (f_p ft) <= f_n ft)%Z \/ has_dispersion f = false ->
      src_coef_covariance_matrix O (fun s v => map (mul O s) v) inv (has_dispersion f) (Some (f_dev ft)) (Some (f_info ft)) (Some (f_n ft)) (Some (Z.of_nat (f_p ft)))
      = option_map Some (coef_covariance_matrix O inv f ft).
    Proof.
      intros f ft H. unfold src_coef_covariance_matrix, coef_covariance_matrix. rewrite (tiea_dispersion f ft H).
      destruct (dispersion O f ft) as [disp|]; cbn [option_map bind]; [|reflexivity].
      destruct (inv (f_info ft)); reflexivity.
    Qed.

    Theorem tiea_coef_standard_error : forall (f : family) (ft : fitted (T := T)), (Z.of_nat (f_p ft) <= f_n ft)%Z \/ has_dispersion f = false ->
      src_coef_standard_error O (fun s v => map (mul O s) v) (map (sqrt O)) (diag O) inv (has_dispersion f) (Some (f_dev ft)) (Some (f_info ft)) (Some (f_n ft)) (Some (Z.of_nat (f_p ft)))
      = option_map Some (coef_standard_error O inv f ft).
    Proof.
      intros f ft H. unfold src_coef_standard_error, coef_standard_error. rewrite (tiea_coef_covariance_matrix f ft H).
      destruct (coef_covariance_matrix O inv f ft) as [c|]; cbn [option_map bind]; [|reflexivity].
      destruct (diag O c); reflexivity.
    Qed.
  End Inv.

  Definition is_design_z (l : list T) (n : Z) : option bool := is_design O l (Z.to_nat n).

  Theorem tiea_predict : forall (f : family) (off : option (list T)) (ft : fitted (T := T)) (x : list T),
    src_predict O is_matrix_z is_design_z (vbin (add O)) matmul_z (inv_link O f) off (Some (f_coef ft)) (Some (Z.of_nat (f_p ft))) x
    = option_map Some (predict O f off ft x).
  Proof.
    intros f off ft x. unfold src_predict, predict, is_matrix_z, is_design_z, matmul_z. cbn [src_coef bind]. rewrite !Nat2Z.id.
    destruct (is_matrix (length x) (f_p ft)) as [n|]; cbn [option_map bind]; [|reflexivity]. rewrite !Nat2Z.id.
    destruct (is_design O x n) as [[|]|]; cbn [bind guard]; try reflexivity.
    destruct (matmul O x (f_coef ft) n (f_p ft) false false) as [r|]; cbn [bind]; [|reflexivity].
    destruct off as [o|]; [|reflexivity]. destruct (vbin (add O) r o); reflexivity.
  Qed.
  Theorem tiea_predict_unfitted : forall (f : family) (off : option (list T)) (p : option Z) (x : list T),
    src_predict O is_matrix_z is_design_z (vbin (add O)) matmul_z (inv_link O f) off None p x = Some None.
  Proof. reflexivity. Qed.

  (** [score] = the family's deviance of the responses against the predictions (no model of its own: stated against the composition) *)
  Theorem tiea_score : forall (f : family) (off : option (list T)) (ft : fitted (T := T)) (x y : list T),
    src_score O is_matrix_z is_design_z (vbin (add O)) matmul_z (deviance O f) (inv_link O f) off (Some (f_coef ft)) (Some (Z.of_nat (f_p ft))) x y
    = let* mu := predict O f off ft x in deviance O f y mu.
  Proof.
    intros f off ft x y. unfold src_score. rewrite tiea_predict. destruct (predict O f off ft x) as [mu|]; cbn [option_map bind]; [|reflexivity].
    destruct (deviance O f y mu); reflexivity.
  Qed.
End TieA.
