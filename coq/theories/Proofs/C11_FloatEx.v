(** Proofs for C11 (extension), floating point, part 4: the hypotheses of the binary64 backward-error theorems are
    satisfiable on systems whose quotients are not representable (1/3, (1 - 1/3)/3, ...). *)
From Coq Require Import List Arith Bool ZArith Reals Lra Lia Floats.
From Flocq Require Import Core BinarySingleNaN PrimFloat.
From Compute Require Import Base.Ops Base.ListMat Model.Reduce Model.MatMul Model.Subst Model.Cholesky Spec.Vops Spec.Factor
  Proofs.C04Red Proofs.C04Err Proofs.C04ErrF Proofs.C04ErrDot Proofs.C04ErrNP Proofs.C04ErrEx
  Proofs.C11_FloatBase Proofs.C11_FloatSubst Proofs.C11_FloatPert.
Import ListNotations.
Local Open Scope R_scope.

(** evaluate the double under every [B2Rf] (the model runs inside Coq on primitive floats) *)
Ltac fcompute :=
  repeat match goal with |- context [B2Rf ?f] =>
    let v := eval vm_compute in f in progress (change (B2Rf f) with (B2Rf v)) end.
(** [r = 0 \/ / 2 ^ 1022 <= Rabs r] for a product or quotient [r] of two concrete doubles *)
Ltac nuq_tac := first [ left; b2rf_compute; lra
                      | right; tiny_compute; b2rf_compute; apply Rabs_ge; first [right; lra | left; lra] ].
Ltac cases3 i := destruct i as [|[|[|i]]]; try lia.
Ltac fin_diag := split; [vm_compute; reflexivity|fcompute; b2rf_compute; lra].

Lemma forward_example :
  let l := [3; 0; 0;  1; 3; 0;  1; 1; 3]%float in let b := [1; 1; 1]%float in
  exists x,
    forward_substitution FO0 l b = Some x /\ (3 * 3)%nat = length l /\
    (forall i, (i < 3)%nat -> finite (nth (i * 3 + i) l 0%float) /\ B2Rf (nth (i * 3 + i) l 0%float) <> 0) /\
    Forall finite x /\
    (forall i j, (i < 3)%nat -> (j < i)%nat ->
       B2Rf (nth (i * 3 + j) l 0%float) * B2Rf (nth j x 0%float) = 0 \/
       / 2 ^ 1022 <= Rabs (B2Rf (nth (i * 3 + j) l 0%float) * B2Rf (nth j x 0%float))) /\
    (forall i, (i < 3)%nat ->
       let s := (nth i b 0 - dot_raw FO0 (firstn i (skipn (i * 3) l)) (firstn i x))%float in
       B2Rf s / B2Rf (nth (i * 3 + i) l 0%float) = 0 \/ / 2 ^ 1022 <= Rabs (B2Rf s / B2Rf (nth (i * 3 + i) l 0%float))) /\
    (* the computed solution is not the exact one: 3 * x_0 <> 1 *)
    3 * B2Rf (nth 0 x 0%float) <> 1.
Proof.
  cbv zeta. eexists. split; [vm_compute; reflexivity|]. split; [reflexivity|].
  split; [intros i Hi; cases3 i; fin_diag|].
  split; [repeat constructor|].
  split; [intros i j Hi Hj; cases3 i; cases3 j; fcompute; nuq_tac|].
  split; [intros i Hi; cases3 i; fcompute; nuq_tac|].
  fcompute. b2rf_compute. lra.
Qed.

Lemma backward_example :
  let u := [3; 1; 1;  0; 3; 1;  0; 0; 3]%float in let b := [1; 1; 1]%float in
  exists x,
    backward_substitution FO0 u b = Some x /\ (3 * 3)%nat = length u /\
    (forall i, (i < 3)%nat -> finite (nth (i * 3 + i) u 0%float) /\ B2Rf (nth (i * 3 + i) u 0%float) <> 0) /\
    Forall finite x /\
    (forall i j, (i < j)%nat -> (j < 3)%nat ->
       B2Rf (nth (i * 3 + j) u 0%float) * B2Rf (nth j x 0%float) = 0 \/
       / 2 ^ 1022 <= Rabs (B2Rf (nth (i * 3 + j) u 0%float) * B2Rf (nth j x 0%float))) /\
    (forall i, (i < 3)%nat ->
       let s := (nth i b 0 - dot_raw FO0 (firstn (3 - S i) (skipn (i * 3 + S i) u)) (skipn (S i) x))%float in
       B2Rf s / B2Rf (nth (i * 3 + i) u 0%float) = 0 \/ / 2 ^ 1022 <= Rabs (B2Rf s / B2Rf (nth (i * 3 + i) u 0%float))) /\
    3 * B2Rf (nth 2 x 0%float) <> 1.
Proof.
  cbv zeta. eexists. split; [vm_compute; reflexivity|]. split; [reflexivity|].
  split; [intros i Hi; cases3 i; fin_diag|].
  split; [repeat constructor|].
  split; [intros i j Hi Hj; cases3 j; cases3 i; fcompute; nuq_tac|].
  split; [intros i Hi; cases3 i; fcompute; nuq_tac|].
  fcompute. b2rf_compute. lra.
Qed.

Lemma cholesky_solve_example :
  let l := [3; 0; 0;  1; 3; 0;  1; 1; 3]%float in let b := [1; 1; 1]%float in
  exists y lt x,
    cholesky_solve FO0 l b = Some x /\ (3 * 3)%nat = length l /\
    forward_substitution FO0 l b = Some y /\ transpose FO0 l 3 = Some lt /\
    (forall i, (i < 3)%nat -> finite (nth (i * 3 + i) l 0%float) /\ B2Rf (nth (i * 3 + i) l 0%float) <> 0) /\
    Forall finite y /\ Forall finite x /\
    (forall i j, (i < 3)%nat -> (j < i)%nat ->
       B2Rf (nth (i * 3 + j) l 0%float) * B2Rf (nth j y 0%float) = 0 \/
       / 2 ^ 1022 <= Rabs (B2Rf (nth (i * 3 + j) l 0%float) * B2Rf (nth j y 0%float))) /\
    (forall i, (i < 3)%nat ->
       let s := (nth i b 0 - dot_raw FO0 (firstn i (skipn (i * 3) l)) (firstn i y))%float in
       B2Rf s / B2Rf (nth (i * 3 + i) l 0%float) = 0 \/ / 2 ^ 1022 <= Rabs (B2Rf s / B2Rf (nth (i * 3 + i) l 0%float))) /\
    (forall i j, (i < j)%nat -> (j < 3)%nat ->
       B2Rf (nth (j * 3 + i) l 0%float) * B2Rf (nth j x 0%float) = 0 \/
       / 2 ^ 1022 <= Rabs (B2Rf (nth (j * 3 + i) l 0%float) * B2Rf (nth j x 0%float))) /\
    (forall i, (i < 3)%nat ->
       let s := (nth i y 0 - dot_raw FO0 (firstn (3 - S i) (skipn (i * 3 + S i) lt)) (skipn (S i) x))%float in
       B2Rf s / B2Rf (nth (i * 3 + i) l 0%float) = 0 \/ / 2 ^ 1022 <= Rabs (B2Rf s / B2Rf (nth (i * 3 + i) l 0%float))).
Proof.
  cbv zeta. eexists. eexists. eexists. split; [vm_compute; reflexivity|]. split; [reflexivity|].
  split; [vm_compute; reflexivity|]. split; [vm_compute; reflexivity|].
  split; [intros i Hi; cases3 i; fin_diag|].
  split; [repeat constructor|]. split; [repeat constructor|].
  split; [intros i j Hi Hj; cases3 i; cases3 j; fcompute; nuq_tac|].
  split; [intros i Hi; cases3 i; fcompute; nuq_tac|].
  split; [intros i j Hi Hj; cases3 j; cases3 i; fcompute; nuq_tac|].
  intros i Hi; cases3 i; fcompute; nuq_tac.
Qed.

(** an order-10 system: the dot products of rows 8 and 9 go through the 8-way unrolled chunk and the remainder loop *)
Ltac cases10 i tac := do 10 (destruct i as [|i]; [tac|]); lia.

Lemma forward_example_10 :
  let l := flat_map (fun i => map (fun j => if (j <? i)%nat then 1%float else if (j =? i)%nat then 3%float else 0%float)
                                  (seq 0 10)) (seq 0 10) in
  let b := repeat 1%float 10 in
  exists x,
    forward_substitution FO0 l b = Some x /\ (10 * 10)%nat = length l /\
    (forall i, (i < 10)%nat -> finite (nth (i * 10 + i) l 0%float) /\ B2Rf (nth (i * 10 + i) l 0%float) <> 0) /\
    Forall finite x /\
    (forall i j, (i < 10)%nat -> (j < i)%nat ->
       B2Rf (nth (i * 10 + j) l 0%float) * B2Rf (nth j x 0%float) = 0 \/
       / 2 ^ 1022 <= Rabs (B2Rf (nth (i * 10 + j) l 0%float) * B2Rf (nth j x 0%float))) /\
    (forall i, (i < 10)%nat ->
       let s := (nth i b 0 - dot_raw FO0 (firstn i (skipn (i * 10) l)) (firstn i x))%float in
       B2Rf s / B2Rf (nth (i * 10 + i) l 0%float) = 0 \/ / 2 ^ 1022 <= Rabs (B2Rf s / B2Rf (nth (i * 10 + i) l 0%float))).
Proof.
  cbv zeta. eexists. split; [vm_compute; reflexivity|]. split; [reflexivity|].
  split; [intros i Hi; cases10 i ltac:(fin_diag)|].
  split; [repeat constructor|].
  split; [intros i j Hi Hj; cases10 i ltac:(cases10 j ltac:(first [lia|fcompute; nuq_tac]))|].
  intros i Hi; cases10 i ltac:(fcompute; nuq_tac).
Qed.
