(** Proofs for C11, part 10: the cofactor determinant equals the Leibniz sum
    sum_{p in {0..n-1}^n} sgn(p) * prod_i a[i][p_i]  with sgn = [sign_inv] (inversion sign on
    permutations, 0 on vectors with a repeated entry) — over R and over Z. *)
From Coq Require Import List Arith Bool Lia ZArith Reals Lra Permutation Classical FinFun.
From Compute Require Import Base.Ops Base.ListMat Model.MatMul Model.Subst Model.LU Spec.Factor Spec.Determinant
  Proofs.LinAlgBase Proofs.C11_Det Proofs.C11_Sign Proofs.C11_DetLaplace Proofs.C11_DetLU.
Import ListNotations.
Local Open Scope R_scope.

(** ** n-ary linearity in a row *)
Lemma det_row_zero n (a : nat -> nat -> R) i :
  (i < n)%nat -> det_n n (fun r c => if (r =? i)%nat then 0 else a r c) = 0.
Proof.
  intros Hi.
  rewrite (det_ext n _ (fun r c => if (r =? i)%nat then 0 * 0 + 0 * 0 else a r c))
    by (intros r c _ _; destruct (r =? i)%nat; lra).
  rewrite (det_row_lin n a i (fun _ => 0) (fun _ => 0) 0 0 Hi). ring.
Qed.

Lemma det_row_sum n (a : nat -> nat -> R) i (x : nat -> R) (u : nat -> nat -> R) : forall t,
  (i < n)%nat ->
  det_n n (fun r c => if (r =? i)%nat then rsum (fun j => x j * u j c) t else a r c) =
  rsum (fun j => x j * det_n n (fun r c => if (r =? i)%nat then u j c else a r c)) t.
Proof.
  induction t as [|t IH]; intros Hi.
  - cbn [rsum]. apply det_row_zero; auto.
  - cbn [rsum]. rewrite <- IH by auto.
    etransitivity.
    { apply (det_ext n _ (fun r c => if (r =? i)%nat then 1 * rsum (fun j => x j * u j c) t + x t * u t c else a r c)).
      intros r c _ _. destruct (r =? i)%nat; [ring|reflexivity]. }
    rewrite (det_row_lin n a i (fun c => rsum (fun j => x j * u j c) t) (fun c => u t c) 1 (x t) Hi). ring.
Qed.

(** ** Sums over lists *)
Lemma lsum_app l1 l2 : lsum (l1 ++ l2) = lsum l1 + lsum l2.
Proof.
  unfold lsum. induction l1 as [|x l1 IH]; cbn [app fold_right]; [symmetry; apply Rplus_0_l|].
  rewrite IH. apply eq_sym, Rplus_assoc.
Qed.

Lemma lsum_flat_map {A B} (f : B -> R) (g : A -> list B) l :
  lsum (map f (flat_map g l)) = lsum (map (fun q => lsum (map f (g q))) l).
Proof.
  induction l as [|q l IH]; [reflexivity|]. cbn [flat_map map]. rewrite map_app, lsum_app, IH. reflexivity.
Qed.

Lemma lsum_map_seq (f : nat -> R) n : lsum (map f (seq 0 n)) = rsum f n.
Proof.
  induction n as [|n IH]; [reflexivity|]. rewrite seq_S, map_app, lsum_app, IH. cbn. lra.
Qed.

Lemma lsum_map_ext {A} (f g : A -> R) l : (forall q, In q l -> f q = g q) -> lsum (map f l) = lsum (map g l).
Proof. intros H. rewrite (map_ext_in f g l H). reflexivity. Qed.

(** ** Index vectors *)
Lemma vectors_spec n k p : In p (vectors n k) -> length p = k /\ forall i, (i < k)%nat -> (nth i p 0 < n)%nat.
Proof.
  revert p. induction k as [|k IH]; intros p Hin.
  - destruct Hin as [<-|[]]. split; [reflexivity|]. intros; lia.
  - cbn [vectors] in Hin. apply in_flat_map in Hin. destruct Hin as [q [Hq Hin]].
    apply in_map_iff in Hin. destruct Hin as [j [<- Hj]]. apply in_seq in Hj.
    destruct (IH q Hq) as [Hl Hb]. split; [rewrite app_length, Hl; simpl; lia|].
    intros i Hi. destruct (Nat.eq_dec i k) as [->|Hne].
    + rewrite app_nth2, Hl, Nat.sub_diag by lia. simpl. lia.
    + rewrite app_nth1 by lia. apply Hb. lia.
Qed.

(** ** Expanding the first [k] rows over the unit vectors *)
Definition unit_rows (a : nat -> nat -> R) (k : nat) (q : list nat) : nat -> nat -> R :=
  fun r c => if (r <? k)%nat then (if (nth r q 0%nat =? c)%nat then 1 else 0) else a r c.

Lemma det_expand n (a : nat -> nat -> R) : forall k, (k <= n)%nat ->
  det_n n a = lsum (map (fun q => rprod (fun i => a i (nth i q 0%nat)) k * det_n n (unit_rows a k q)) (vectors n k)).
Proof.
  induction k as [|k IH]; intros Hk.
  - cbn [vectors map lsum fold_right rprod]. rewrite Rmult_1_l, Rplus_0_r. apply det_ext. reflexivity.
  - rewrite IH by lia. cbn [vectors]. rewrite lsum_flat_map. apply lsum_map_ext. intros q Hq.
    destruct (vectors_spec n k q Hq) as [Hl _].
    rewrite map_map, lsum_map_seq.
    (* row k of [unit_rows a k q] is [a k] = sum_j a[k][j] * e_j *)
    rewrite (det_ext n (unit_rows a k q)
               (fun r c => if (r =? k)%nat then rsum (fun j => a k j * (if (j =? c)%nat then 1 else 0)) n
                           else unit_rows a k q r c)).
    2:{ intros r c Hr Hc. destruct (Nat.eqb_spec r k) as [->|]; [|reflexivity].
        unfold unit_rows. rewrite Nat.ltb_irrefl.
        rewrite (rsum_single _ c n Hc) by (intros j _ Hj; destruct (Nat.eqb_spec j c); [lia|ring]).
        rewrite Nat.eqb_refl. ring. }
    rewrite (det_row_sum n (unit_rows a k q) k (fun j => a k j) (fun j c => if (j =? c)%nat then 1 else 0) n) by lia.
    rewrite <- rsum_scal_l. apply rsum_ext. intros j Hj. cbn [rprod].
    rewrite app_nth2, Hl, Nat.sub_diag by lia. cbn [nth].
    rewrite (rprod_ext (fun i => a i (nth i (q ++ [j]) 0%nat)) (fun i => a i (nth i q 0%nat)) k)
      by (intros i Hi; rewrite app_nth1 by lia; reflexivity).
    rewrite Rmult_assoc. f_equal. f_equal.
    apply det_ext. intros r c _ _. unfold unit_rows.
    destruct (Nat.eqb_spec r k) as [->|Hrk].
    + destruct (Nat.ltb_spec k (S k)); [|lia]. rewrite app_nth2, Hl, Nat.sub_diag by lia. reflexivity.
    + destruct (Nat.ltb_spec r k), (Nat.ltb_spec r (S k)); try lia; [|reflexivity].
      rewrite app_nth1 by lia. reflexivity.
Qed.

(** ** The determinant of rows of unit vectors is the generalised sign *)
Lemma zprod_zero f k n : (k < n)%nat -> f k = 0%Z -> zprod f n = 0%Z.
Proof.
  induction n as [|n IH]; intros Hk Hz; [lia|]. cbn [zprod].
  destruct (Nat.eq_dec k n) as [->|Hne]; [rewrite Hz; ring|]. rewrite IH by (auto; lia). ring.
Qed.

Lemma sign_inv_repeat (p : list nat) i j :
  (i < j)%nat -> (j < length p)%nat -> nth i p 0%nat = nth j p 0%nat -> sign_inv p = 0%Z.
Proof.
  intros Hij Hj He. unfold sign_inv, sprod. apply (zprod_zero _ j); auto.
  unfold srow. apply (zprod_zero _ i); auto. rewrite He, Z.sub_diag. reflexivity.
Qed.

Lemma det_unit_vectors n (p : list nat) :
  length p = n -> (forall i, (i < n)%nat -> (nth i p 0 < n)%nat) ->
  det_n n (fun r c => if (nth r p 0%nat =? c)%nat then 1 else 0) = IZR (sign_inv p).
Proof.
  intros Hl Hb.
  destruct (classic (exists i j, (i < j)%nat /\ (j < n)%nat /\ nth i p 0%nat = nth j p 0%nat)) as [[i [j (Hij & Hj & He)]]|Hno].
  - rewrite (sign_inv_repeat p i j) by (auto; lia).
    apply (det_eq_rows n _ i j); try lia. intros c _. rewrite He. reflexivity.
  - assert (Hp : is_perm p n).
    { apply is_perm_intro; auto. intros i j Hi Hj He.
      destruct (Nat.lt_trichotomy i j) as [H|[H|H]]; auto; exfalso; apply Hno.
      - exists i, j. auto.
      - exists j, i. auto. }
    pose proof (det_perm_rows n (fun i j => if (i =? j)%nat then 1 else 0) p Hp) as H.
    cbv beta in H. rewrite H, det_identity. ring.
Qed.

(** ** Leibniz *)
Lemma det_leibniz n (a : nat -> nat -> R) : det_n n a = leibniz sign_inv n a.
Proof.
  rewrite (det_expand n a n (le_n n)). unfold leibniz. fold (lsum (map (fun p => IZR (sign_inv p) * rprod (fun i => a i (nth i p 0%nat)) n) (vectors n n))).
  apply lsum_map_ext. intros q Hq. destruct (vectors_spec n n q Hq) as [Hl Hb].
  rewrite (det_ext n (unit_rows a n q) (fun r c => if (nth r q 0%nat =? c)%nat then 1 else 0)).
  - rewrite det_unit_vectors by auto. ring.
  - intros r c Hr _. unfold unit_rows. destruct (Nat.ltb_spec r n); [reflexivity|lia].
Qed.

Lemma determinant_leibniz (A : list (list R)) :
  determinant A = leibniz sign_inv (length A) (fun i j => nth j (nth i A []) 0).
Proof. apply det_leibniz. Qed.

(** ** The same over Z *)
Lemma zpi_IZR f n : IZR (zpi f n) = rprod (fun k => IZR (f k)) n.
Proof. induction n as [|n IH]; [reflexivity|]. cbn [zpi rprod]. rewrite mult_IZR, IH. reflexivity. Qed.

Lemma zleibniz_IZR sgn n (a : nat -> nat -> Z) :
  IZR (zleibniz sgn n a) = leibniz sgn n (fun i j => IZR (a i j)).
Proof.
  unfold zleibniz, leibniz. induction (vectors n n) as [|p l IH]; [reflexivity|].
  cbn [map fold_right]. rewrite plus_IZR, mult_IZR, zpi_IZR, IH. reflexivity.
Qed.

Lemma zdet_leibniz n (a : nat -> nat -> Z) : zdet_n n a = zleibniz sign_inv n a.
Proof. apply eq_IZR. rewrite <- det_n_IZR, zleibniz_IZR. apply det_leibniz. Qed.

Lemma zdeterminant_leibniz (A : list (list Z)) :
  zdeterminant A = zleibniz sign_inv (length A) (fun i j => nth j (nth i A []) 0%Z).
Proof. apply zdet_leibniz. Qed.

(** the routine on an integer matrix returns the integer Leibniz sum *)
Lemma det_integer_leibniz n (A : list (list Z)) :
  (0 < n)%nat -> length A = n -> (forall r, In r A -> length r = n) ->
  matrix_det RO {| nr := n; nc := n; dat := flatten (map (map IZR) A) |} =
  Some (IZR (zleibniz sign_inv n (fun i j => nth j (nth i A []) 0%Z))).
Proof.
  intros Hn Hl Hr. rewrite (det_integer_exact n A Hn Hl Hr), zdeterminant_leibniz, Hl. reflexivity.
Qed.

(** ** [vectors n k] lists every vector of length [k] over {0..n-1}, exactly once *)
Lemma vectors_complete n : forall k p,
  length p = k -> (forall x, In x p -> (x < n)%nat) -> In p (vectors n k).
Proof.
  induction k as [|k IH]; intros p Hl Hb.
  - destruct p; [left; reflexivity|discriminate].
  - destruct (exists_last (l := p)) as [q [j ->]]; [intros ->; discriminate|].
    rewrite app_length in Hl. cbn [length] in Hl.
    cbn [vectors]. apply in_flat_map. exists q. split.
    + apply IH; [lia|]. intros x Hx. apply Hb, in_or_app. auto.
    + apply in_map_iff. exists j. split; [reflexivity|]. apply in_seq.
      assert (j < n)%nat by (apply Hb, in_or_app; right; left; reflexivity). lia.
Qed.

Lemma vectors_iff n k p :
  In p (vectors n k) <-> length p = k /\ forall x, In x p -> (x < n)%nat.
Proof.
  split.
  - intros Hin. destruct (vectors_spec n k p Hin) as [Hl Hb]. split; auto.
    intros x Hx. destruct (In_nth _ _ 0%nat Hx) as [i [Hi <-]]. apply Hb. lia.
  - intros [Hl Hb]. apply vectors_complete; auto.
Qed.

Lemma NoDup_app_intro {A} (l1 l2 : list A) :
  NoDup l1 -> NoDup l2 -> (forall x, In x l1 -> ~ In x l2) -> NoDup (l1 ++ l2).
Proof.
  induction l1 as [|a l1 IH]; intros H1 H2 Hd; [exact H2|].
  inversion H1 as [|? ? Ha H1']; subst. cbn [app]. constructor.
  - intros Hin. apply in_app_or in Hin. destruct Hin as [Hin|Hin]; [auto|]. apply (Hd a); [left; reflexivity|auto].
  - apply IH; auto. intros x Hx. apply Hd. right. auto.
Qed.

Lemma vectors_NoDup n k : NoDup (vectors n k).
Proof.
  induction k as [|k IH]; [repeat constructor; intros []|]. cbn [vectors].
  induction (vectors n k) as [|q l IHl]; [constructor|].
  inversion IH as [|? ? Hq Hl]; subst. cbn [flat_map]. apply NoDup_app_intro.
  - apply Injective_map_NoDup; [|apply seq_NoDup]. intros j j' He. apply app_inj_tail in He. tauto.
  - apply IHl. auto.
  - intros x Hx Hx'. apply in_map_iff in Hx. destruct Hx as [j [<- _]].
    apply in_flat_map in Hx'. destruct Hx' as [q' [Hq' Hx']]. apply in_map_iff in Hx'.
    destruct Hx' as [j' [He _]]. apply app_inj_tail in He. destruct He as [-> _]. contradiction.
Qed.
