(** * C15 — consequences of the refinement: which shape requests are accepted. *)
From Coq Require Import List Arith ZArith Bool Lia QArith.
From Compute Require Import Base.Ops Base.ListMat Model.Shape Spec.Shape Proofs.C15Lists Proofs.C15 Proofs.C15Step.
Local Close Scope Q_scope.
Import ListNotations.

Section Top.
  Context {T : Type}.
  Local Notation mat := (mat T).

  Definition accepted (a : list T) (r c : Z) (m' : mat) : Prop :=
    data m' = a /\ nrows m' * ncols m' = length a /\
    (r = Z.of_nat (nrows m') \/ r = (-1)%Z) /\ (c = Z.of_nat (ncols m') \/ c = (-1)%Z) /\ ~ (r = (-1)%Z /\ c = (-1)%Z).

  Lemma want_accepted : forall (a : list T) r c m', 0 < length a ->
    (option_map (fun p => mkMat (fst p) (snd p) a) (want_shape (length a) r c) = Some m' <-> accepted a r c m').
  Proof.
    intros a r c [r' c' a'] Ha. unfold accepted. cbn [nrows ncols data]. split.
    - destruct (want_shape (length a) r c) as [[r1 c1]|] eqn:W; cbn [option_map fst snd]; [|discriminate].
      intros E. inversion E; subst. apply want_shape_iff in W; [tauto|exact Ha].
    - intros (-> & M & Hr & Hc & Hn).
      assert (W : want_shape (length a) r c = Some (r', c')) by (apply want_shape_iff; auto).
      now rewrite W.
  Qed.

  Theorem shape_requests : forall (m : mat) (r c : Z), Inv m ->
    (forall m', reshape_mut m r c = Some m' <-> accepted (data m) r c m') /\
    reshape m r c = reshape_mut m r c /\ new (data m) r c = reshape_mut m r c.
  Proof.
    intros m r c I. pose proof I as (L & Hr & Hc).
    assert (Hs : size m = length (data m)) by exact L.
    assert (0 < length (data m)) by (rewrite <- L; nia).
    split; [|split].
    - intros m'. rewrite reshape_mut_want, Hs. now apply want_accepted.
    - now rewrite reshape_want, reshape_mut_want.
    - now rewrite new_want, reshape_mut_want, Hs.
  Qed.

  Theorem new_inv : forall (a : list T) r c m, a <> [] -> new a r c = Some m -> Inv m /\ accepted a r c m.
  Proof.
    intros a r c m Ha E. assert (0 < length a) by (destruct a; [congruence|simpl; lia]).
    rewrite new_want in E. pose proof (proj1 (want_accepted a r c m H) E) as Acc. split; auto.
    destruct (want_shape (length a) r c) as [[r1 c1]|] eqn:W; cbn [option_map fst snd] in E; [|discriminate].
    inversion E; subst. now apply (want_result a r c).
  Qed.

  Theorem new_rejects : forall (a : list T) r c, a <> [] ->
    (new a r c = None <-> forall m', ~ accepted a r c m').
  Proof.
    intros a r c Ha. assert (H : 0 < length a) by (destruct a; [congruence|simpl; lia]).
    rewrite new_want. split.
    - intros E m' Acc. apply (want_accepted a r c m' H) in Acc. congruence.
    - intros N. destruct (option_map _ _) as [m'|] eqn:E; [|reflexivity].
      exfalso. apply (N m'). now apply (want_accepted a r c m' H).
  Qed.
End Top.

(** the hypotheses are satisfiable: a 2 x 3 matrix, a program with a non-trivial inferred reshape *)
Example inv_example : Inv (mkMat 2 3 [1; 2; 3; 4; 5; 6]).
Proof. unfold Inv; cbn; lia. Qed.
Example run_example :
  run QO (mkMat 2 3 [1; 2; 3; 4; 5; 6]%Q) [OT; OReshapeMut (-1) 2; ODiag; OHrepeat 2; OGetCol 3]
  = Some (mkMat 3 4 [1; 4; 1; 4; 2; 5; 2; 5; 3; 6; 3; 6]%Q, [[]; []; [1; 5]; []; [4; 5; 6]]%Q).
Proof. vm_compute. reflexivity. Qed.
Example reject_example : reshape_mut (mkMat 2 3 [1; 2; 3; 4; 5; 6]) (-1) 4 = None.
Proof. reflexivity. Qed.
