(** * Tie A for C03: the inverse-CDF formulas and [ln_gamma] of [Model/Samplers.v] ARE the source.
    [Generated/samplers.v] is produced on every run by tools/tiea/samplers.py (expression translator tools/rsexpr.py)
    from src/distributions/{uniform,exponential,gumbel,pareto}.rs and src/functions/gamma.rs.
    Randomness is abstract in the generated terms: [U] is the value of [alea::f64()]; for a rejection loop
    [let u = loop { let u = <draw>; if u > 0. { break u; } }] the accepted draw is the last argument of
    [<Law>_sample] and the loop condition is [<Law>_sample_accept].  The lemmas hold for EVERY carrier, operations
    record and random source, by conversion (plus induction on the coefficient list for the Lanczos loop). *)
From Coq Require Import List ZArith QArith Floats Bool.
From Compute Require Import Base.Ops Base.RsExpr Base.Rng Model.Special Model.Samplers Generated.special_consts Generated.sampler_consts Generated.samplers.
Import ListNotations.

Section TieA.
  Context {T : Type} (O : Ops T) {S : Type} (src : source S T).

  Lemma tiea_Uniform_sample :
    forall lo hi s, uniform_sample O src lo hi s = let (u, s') := next_f64 src s in (Uniform_sample O u lo hi, s').
  Proof. reflexivity. Qed.

  (** the formulas applied to the accepted draw *)
  Lemma tiea_Exponential_sample :
    forall fuel lambda s,
      exponential_sample O src fuel lambda s =
      res_bind (positive_unit O src fuel s) (fun p => let (u, s') := p in Ok (Exponential_sample O lambda u, s')).
  Proof. reflexivity. Qed.
  Lemma tiea_Gumbel_sample :
    forall fuel mu beta s,
      gumbel_sample O src fuel mu beta s =
      res_bind (positive_unit O src fuel s) (fun p => let (u, s') := p in Ok (Gumbel_sample O mu beta u, s')).
  Proof. reflexivity. Qed.
  Lemma tiea_Pareto_sample :
    forall fuel alpha minval s,
      pareto_sample O src fuel alpha minval s =
      res_bind (positive_f64 O src fuel s) (fun p => let (u, s') := p in Ok (Pareto_sample O alpha minval u, s')).
  Proof. reflexivity. Qed.

  (** the rejection loops: one iteration of the model's loop tests the source's condition *)
  Lemma tiea_Exponential_sample_accept :
    forall lambda fuel s,
      positive_unit O src (Datatypes.S fuel) s =
      let (u, s') := uniform_sample O src (zero O) (one O) s in
      if Exponential_sample_accept O lambda u then Ok (u, s') else positive_unit O src fuel s'.
  Proof. reflexivity. Qed.
  Lemma tiea_Gumbel_sample_accept :
    forall mu beta fuel s,
      positive_unit O src (Datatypes.S fuel) s =
      let (u, s') := uniform_sample O src (zero O) (one O) s in
      if Gumbel_sample_accept O mu beta u then Ok (u, s') else positive_unit O src fuel s'.
  Proof. reflexivity. Qed.
  Lemma tiea_Pareto_sample_accept :
    forall alpha minval fuel s,
      positive_f64 O src (Datatypes.S fuel) s =
      let (u, s') := next_f64 src s in
      if Pareto_sample_accept O alpha minval u then Ok (u, s') else positive_f64 O src fuel s'.
  Proof. reflexivity. Qed.

  (** Bernoulli: the value drawn ([u] is the value of [alea::f64()]; it is consulted only when [p] is neither 0 nor 1) *)
  Lemma tiea_Bernoulli_sample :
    forall p s, fst (bernoulli_sample O src p s) = Bernoulli_sample O (fst (next_f64 src s)) p.
  Proof.
    intros p s. unfold bernoulli_sample, Bernoulli_sample.
    destruct (eqb O p (one O)); [reflexivity|]. destruct (eqb O p (zero O)); [reflexivity|].
    destruct (next_f64 src s) as [u s']. reflexivity.
  Qed.
End TieA.

Section LnGamma.
  Context {T : Type} (O : Ops T).
  Lemma lanczos_sum_fold' :
    forall (z : T) (cs : list (Q * float)) (idx : nat) (x : T),
      lanczos_sum O z idx cs x =
      rs_fold_enum_from (fun (x : T) (idx : nat) (val : Q * float) =>
                           add O x (div O (ofLit O val) (add O (add O (sub O z (one O)) (ofZ O (Z.of_nat idx))) (one O))))
                        idx cs x.
  Proof. intros z cs. induction cs as [|c cs IH]; intros idx x; cbn [lanczos_sum rs_fold_enum_from]; [reflexivity | apply IH]. Qed.
  (** the body of [ln_gamma], recursive call abstracted *)
  Lemma tiea_ln_gamma_body :
    forall (LnGam : T -> T) (z : T),
      src_ln_gamma O LnGam z =
      if ltb O z (ofQ O (1 # 2))
      then sub O (f1 O Ln (div O (pi O) (abs O (f1 O Sin (mul O (pi O) z))))) (LnGam (sub O (one O) z))
      else ln_gamma_pos O z.
  Proof. intros LnGam z. unfold src_ln_gamma, ln_gamma_pos, rs_fold_enum. rewrite lanczos_sum_fold'. reflexivity. Qed.
  (** the model = the body with the reflected call [ln_gamma(1. - z)] taking the [else] branch *)
  Lemma tiea_ln_gamma : forall z, src_ln_gamma O (ln_gamma_pos O) z = ln_gamma O z.
  Proof. intro z. rewrite tiea_ln_gamma_body. reflexivity. Qed.
End LnGamma.
