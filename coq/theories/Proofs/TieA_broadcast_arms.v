(** * Tie A for C12: the hand-written model of the ten arms of [broadcast_op!] IS the source.
    [Generated/broadcast_arms.v] is produced on every run by tools/tiea/broadcast_arms.py (statement-level translator
    [LoopTranslator] of tools/rsexpr.py) from the macro body in src/linalg/array/broadcast.rs and the [Matrix] methods it
    uses ([Index<usize>], [IndexMut<usize>] read as a window of [data], [shape], [apply_along_row]).  The source mutates the
    flat row-major [data] of a clone / of a zero matrix row by row ([rs_slice] / [rs_put_slice] on one flat list, index
    arithmetic in [Z]); the model of [Model/Broadcast.v] works on the ROWS ([unflatten] at the boundary, [upd] of one row per
    pass).  A [Matrix] of the generated text is the triple [(nrows, ncols, data)] with the dimensions in [Z]; the enum
    [Broadcast] is [rs_Broadcast] (payload in [Z]).  Hypothesis: the struct invariant [data.len() = nrows * ncols] of both
    operands (what every constructor of the crate establishes).  No law of the carrier or of [op] is used. *)
From Coq Require Import List ZArith Arith Bool Lia.
From Compute Require Import Base.Ops Base.ListMat Base.RsExpr Base.RsExprMut Base.RsExprMore Model.Broadcast
  Proofs.RsExprLemmas Proofs.RsExprFlat Proofs.C15Lists Generated.broadcast_arms.
Import ListNotations.

(** a loop whose state is seen through a representation [r] and whose model step can fail *)
Lemma rs_fold_opt_for_opt : forall {S S'} (r : S' -> S) (P : S' -> Prop) (f : S -> Z -> option S) (F : S' -> nat -> option S') (xs : list nat),
  (forall s x, In x xs -> P s -> f (r s) (Z.of_nat x) = option_map r (F s x) /\ (forall s', F s x = Some s' -> P s')) ->
  forall s, P s -> rs_fold_opt f (map Z.of_nat xs) (r s) = option_map r (for_opt xs F s).
Proof.
  intros S S' r P f F xs. induction xs as [|x xs IH]; intros H s Hs; [reflexivity|].
  cbn [map rs_fold_opt for_opt]. destruct (H s x (or_introl eq_refl) Hs) as [E L]. rewrite E.
  destruct (F s x) as [s'|]; cbn [option_map bind]; [|reflexivity].
  apply IH; [|now apply L]. intros s0 x0 Hin. apply H. now right.
Qed.

Lemma rs_map_opt_mapM : forall {A B} (f : A -> option B) (l : list A), rs_map_opt f l = mapM f l.
Proof.
  intros A B f l. induction l as [|a l IH]; [reflexivity|]. cbn [rs_map_opt mapM]. destruct (f a); cbn [bind]; [|reflexivity].
  rewrite IH. destruct (mapM f l); reflexivity.
Qed.
Lemma rs_map_opt_ext : forall {A B} (f g : A -> option B) (l : list A), (forall a, f a = g a) -> rs_map_opt f l = rs_map_opt g l.
Proof. intros A B f g l H. induction l as [|a l IH]; [reflexivity|]. cbn. now rewrite H, IH. Qed.
Lemma mapM_length : forall {A B} (f : A -> option B) (l : list A) (r : list B), mapM f l = Some r -> length r = length l.
Proof.
  intros A B f l. induction l as [|a l IH]; intros r H; cbn [mapM] in H; [now injection H as <-|].
  destruct (f a); cbn [bind] in H; [|discriminate]. destruct (mapM f l) as [bs|] eqn:E; cbn [bind] in H; [|discriminate].
  injection H as <-. cbn [length]. now rewrite (IH bs eq_refl).
Qed.
Lemma rs_zip_assign_model : forall {A} (f : A -> A -> A) (xs ys : list A), rs_zip_assign f xs ys = zip_assign f xs ys.
Proof. intros A f xs. induction xs as [|x xs IH]; intros [|y ys]; try reflexivity. cbn. now rewrite IH. Qed.
Lemma zip_assign_length : forall {A} (f : A -> A -> A) (xs ys : list A), length (zip_assign f xs ys) = length xs.
Proof. intros A f xs. induction xs as [|x xs IH]; intros [|y ys]; try reflexivity. cbn. now rewrite IH. Qed.

Section Arms.
  Context {T : Type} (O : Ops T) (op : T -> T -> T).

  (** a model matrix as the generated text sees it, and back; the abstract parameters instantiated by the models *)
  Definition zm (m : mat T) : Z * Z * list T := (Z.of_nat (nr m), Z.of_nat (nc m), dat m).
  Definition unz (t : Z * Z * list T) : mat T := let '(r, c, d) := t in mkmat (Z.to_nat r) (Z.to_nat c) d.
  Definition bz (b : Broadcast) : rs_Broadcast :=
    match b with
    | BHstack n => rs_Broadcast_Hstack (Z.of_nat n) | BVstack n => rs_Broadcast_Vstack (Z.of_nat n)
    | BIsScalar => rs_Broadcast_IsScalar | BNone => rs_Broadcast_None | BInvalid => rs_Broadcast_Invalid
    end.
  Definition calc_z (a b : Z * Z * list T) : option (rs_Broadcast * rs_Broadcast) :=
    let '(r1, c1, _) := a in let '(r2, c2, _) := b in
    option_map (fun p => (bz (fst p), bz (snd p))) (calc_broadcast_shape (Z.to_nat r1) (Z.to_nat c1) (Z.to_nat r2) (Z.to_nat c2)).
  Definition zeros_z (r c : Z) : option (Z * Z * list T) :=
    option_map zm (matrix_new (repeat (zero O) (Z.to_nat r * Z.to_nat c)) (Z.to_nat r) (Z.to_nat c)).
  Definition matmat_z (a b : Z * Z * list T) : option (Z * Z * list T) := option_map zm (matmat op (unz a) (unz b)).
  Definition scalar_mat_z (s : T) (b : Z * Z * list T) : option (Z * Z * list T) := option_map zm (scalar_mat op s (unz b)).
  Definition mat_scalar_z (a : Z * Z * list T) (s : T) : option (Z * Z * list T) := option_map zm (mat_scalar op (unz a) s).

  Definition rows_ok (nr nc : nat) (R : list (list T)) : Prop := Forall (fun r => length r = nc) R /\ length R = nr.

  Lemma rows_ok_unflatten : forall (d : list T) nr nc, length d = nr * nc -> rows_ok nr nc (unflatten d nr nc).
  Proof. intros d nr nc H. split; [apply unflatten_rows_length; lia|apply length_unflatten]. Qed.
  Lemma unflatten_concat_ok : forall nr nc R, rows_ok nr nc R -> unflatten (concat R) nr nc = R.
  Proof. intros nr nc R [H1 H2]. rewrite <- H2. now apply unflatten_concat. Qed.
  Lemma concat_len_ok : forall nr nc R, rows_ok nr nc R -> length (concat R) = nr * nc.
  Proof. intros nr nc R [H1 H2]. rewrite (concat_length_rows R nc H1). now rewrite H2. Qed.
  Lemma rows_ok_upd : forall nr nc R i r', rows_ok nr nc R -> length r' = nc -> rows_ok nr nc (upd R i r').
  Proof. intros nr nc R i r' [H1 H2] H. split; [now apply Forall_upd|now rewrite length_upd]. Qed.
  Lemma rows_ok_nth : forall nr nc R i r, rows_ok nr nc R -> nth_error R i = Some r -> length r = nc /\ i < nr.
  Proof.
    intros nr nc R i r [H1 H2] H. split.
    - rewrite Forall_forall in H1. apply H1. eapply nth_error_In; eauto.
    - rewrite <- H2. apply nth_error_Some. congruence.
  Qed.

  (** the window [data[i * ncols .. (i + 1) * ncols]] guarded by [i < nrows] is row [i] *)
  Lemma window_read : forall (d : list T) (nr nc i : nat), length d = nr * nc ->
    (if Z.ltb (Z.of_nat i) (Z.of_nat nr) then rs_slice d (Z.mul (Z.of_nat i) (Z.of_nat nc)) (Z.mul (Z.add (Z.of_nat i) 1) (Z.of_nat nc)) else None)
    = nth_error (unflatten d nr nc) i.
  Proof.
    intros d nr nc i H. rewrite Zltb_of_nat. destruct (Nat.ltb_spec i nr) as [Hi|Hi].
    - replace (Z.add (Z.of_nat i) 1) with (Z.of_nat (S i)) by lia. rewrite <- !Nat2Z.inj_mul.
      rewrite rs_slice_nat by nia. unfold unflatten. rewrite nth_error_map.
      replace (nth_error (seq 0 nr) i) with (Some i).
      2:{ symmetry. rewrite (nth_error_nth' _ 0) by (now rewrite seq_length). now rewrite seq_nth. }
      cbn [option_map]. unfold row_of. do 2 f_equal. nia.
    - symmetry. apply nth_error_None. now rewrite length_unflatten.
  Qed.
  Lemma index_rows : forall (d : list T) (nr nc i : nat), length d = nr * nc ->
    src_index O d (Z.of_nat nr) (Z.of_nat nc) (Z.of_nat i) = nth_error (unflatten d nr nc) i.
  Proof.
    intros d nr nc i H. rewrite <- window_read by exact H. unfold src_index.
    destruct (Z.ltb (Z.of_nat i) (Z.of_nat nr)); [|reflexivity]. destruct (rs_slice _ _ _); reflexivity.
  Qed.

  (** writing a row back *)
  Lemma put_row : forall (R : list (list T)) (nc i : nat) (r' : list T), Forall (fun r => length r = nc) R -> i < length R -> length r' = nc ->
    rs_put_slice (concat R) (Z.mul (Z.of_nat i) (Z.of_nat nc)) r' = concat (upd R i r').
  Proof.
    intros R nc. induction R as [|r R IH]; intros i r' HR Hi Hr; cbn [length] in Hi; [lia|].
    pose proof (Forall_inv HR) as Hr0. pose proof (Forall_inv_tail HR) as HR'. cbn beta in Hr0.
    unfold rs_put_slice in *. rewrite <- Nat2Z.inj_mul, Nat2Z.id. destruct i as [|i]; cbn [upd concat].
    - cbn [Nat.mul firstn app Nat.add]. rewrite Hr, <- Hr0. now rewrite C15Lists.skipn_app_exact.
    - specialize (IH i r' HR' ltac:(lia) Hr). rewrite <- Nat2Z.inj_mul, Nat2Z.id in IH.
      replace (S i * nc) with (length r + i * nc) by (cbn; lia).
      rewrite firstn_app_2. rewrite <- app_assoc. f_equal.
      replace (length r + i * nc + length r') with (length r + (i * nc + length r')) by lia.
      rewrite C15Lists.skipn_add, C15Lists.skipn_app_exact. exact IH.
  Qed.

  Lemma bind_some_eta : forall {A} (o : option A), (let* r := o in Some r) = o.
  Proof. intros A [a|]; reflexivity. Qed.
  Lemma nth_error_upd_eq : forall {A} (l : list A) i v, i < length l -> nth_error (upd l i v) i = Some v.
  Proof. intros A l. induction l as [|a l IH]; intros [|i] v H; cbn in *; try lia; [reflexivity|]. apply IH. lia. Qed.
  Lemma upd_upd : forall {A} (l : list A) i v w, upd (upd l i v) i w = upd l i w.
  Proof. intros A l. induction l as [|a l IH]; intros [|i] v w; cbn; try reflexivity. now rewrite IH. Qed.

  (** ** the loop of the two [apply_along_row] arms *)
  Lemma apply_loop_src : forall (nr nc : nat) (g : Z -> T -> option T) (h : nat -> T -> option T) (n : nat) (R : list (list T)),
    (forall i x, g (Z.of_nat i) x = h i x) -> rows_ok nr nc R ->
    rs_fold_opt (fun '(new_nrows, new_ncols, new_data) i =>
        let* r5 := src_apply_along_row O new_data new_nrows new_ncols i (g i) in
        let '(new_data, new_nrows, new_ncols) := r5 in Some (new_nrows, new_ncols, new_data))
      (rs_range_excl 0 (Z.of_nat n)) (Z.of_nat nr, Z.of_nat nc, concat R)
    = option_map (fun R' => (Z.of_nat nr, Z.of_nat nc, concat R')) (for_opt (seq 0 n) (fun new i => apply_along_row new i (h i)) R).
  Proof.
    intros nr nc g h n R Hg HR. rewrite rs_range_excl_0_nat.
    apply (rs_fold_opt_for_opt (fun R' => (Z.of_nat nr, Z.of_nat nc, concat R')) (rows_ok nr nc)); [|exact HR].
    intros R' i _ HR'. unfold src_apply_along_row, apply_along_row.
    rewrite window_read by (now apply concat_len_ok). rewrite (unflatten_concat_ok nr nc R' HR').
    destruct (nth_error R' i) as [r|] eqn:Er; cbn [bind option_map]; [|split; [reflexivity|discriminate]].
    destruct (rows_ok_nth nr nc R' i r HR' Er) as [Lr Hi].
    rewrite (rs_map_opt_ext _ (h i)) by (intro a; rewrite bind_some_eta; apply Hg). rewrite rs_map_opt_mapM.
    destruct (mapM (h i) r) as [r'|] eqn:Em; cbn [bind option_map]; [|split; [reflexivity|discriminate]].
    pose proof (mapM_length _ _ _ Em) as Lr'. destruct HR' as [H1 H2].
    rewrite put_row by (auto; lia). split; [reflexivity|]. intros s' Hs'. injection Hs' as <-. apply rows_ok_upd; [now split|lia].
  Qed.

  (** ** the loop of the two [iter_mut().zip(..).for_each(..)] arms *)
  Lemma zip_loop_src : forall (nr nc : nat) (f : T -> T -> T) (ysrc : option (list T)) (Other : list (list T)) (n : nat) (R : list (list T)),
    ysrc = nth_error Other 0 -> rows_ok nr nc R ->
    rs_fold_opt (fun new_data i =>
        let* w6 := (if Z.ltb i (Z.of_nat nr) then rs_slice new_data (Z.mul i (Z.of_nat nc)) (Z.mul (Z.add i 1) (Z.of_nat nc)) else None) in
        let* r7 := ysrc in Some (rs_put_slice new_data (Z.mul i (Z.of_nat nc)) (rs_zip_assign f w6 r7)))
      (rs_range_excl 0 (Z.of_nat n)) (concat R)
    = option_map (@concat T) (for_opt (seq 0 n) (fun new i => zip_row new i Other f) R).
  Proof.
    intros nr nc f ysrc Other n R Hy HR. rewrite rs_range_excl_0_nat.
    apply (rs_fold_opt_for_opt (@concat T) (rows_ok nr nc)); [|exact HR].
    intros R' i _ HR'. unfold zip_row.
    rewrite window_read by (now apply concat_len_ok). rewrite (unflatten_concat_ok nr nc R' HR').
    destruct (nth_error R' i) as [r|] eqn:Er; cbn [bind option_map]; [|split; [reflexivity|discriminate]].
    destruct (rows_ok_nth nr nc R' i r HR' Er) as [Lr Hi]. rewrite Hy.
    destruct (nth_error Other 0) as [y|]; cbn [bind option_map]; [|split; [reflexivity|discriminate]].
    rewrite rs_zip_assign_model. destruct HR' as [H1 H2].
    rewrite put_row by (auto; try lia; now rewrite zip_assign_length). split; [reflexivity|].
    intros s' Hs'. injection Hs' as <-. apply rows_ok_upd; [now split|now rewrite zip_assign_length].
  Qed.

  (** ** the double loop [new[i][j] = v i j] of the two arms that start from [Matrix::zeros] *)
  Lemma fill_row_src : forall (nr nc : nat) (B : list T -> Z -> option (list T)) (val : nat -> option T) (i : nat),
    (forall d j, B d (Z.of_nat j) =
       let* v := val j in
       let* w := (if Z.ltb (Z.of_nat i) (Z.of_nat nr) then rs_slice d (Z.mul (Z.of_nat i) (Z.of_nat nc)) (Z.mul (Z.add (Z.of_nat i) 1) (Z.of_nat nc)) else None) in
       let* l := rs_set w (Z.of_nat j) v in Some (rs_put_slice d (Z.mul (Z.of_nat i) (Z.of_nat nc)) l)) ->
    forall (m k : nat) (R : list (list T)) (pre rest : list T), rows_ok nr nc R -> nth_error R i = Some (pre ++ rest) -> length pre = k -> length rest = m ->
    rs_fold_opt B (map Z.of_nat (seq k m)) (concat R) = option_map (fun vs => concat (upd R i (pre ++ vs))) (mapM val (seq k m)).
  Proof.
    intros nr nc B val i HB m. induction m as [|m IH]; intros k R pre rest HR Er Lp Lr.
    - destruct rest; [|discriminate]. cbn [seq map rs_fold_opt mapM option_map]. f_equal.
      rewrite app_nil_r in *. clear - Er. revert i Er. induction R as [|r R IHR]; intros [|i] Er; cbn in *; try discriminate; [now injection Er as ->|].
      f_equal. now apply IHR.
    - destruct rest as [|x rest]; [discriminate|]. cbn [seq map rs_fold_opt mapM]. rewrite HB.
      destruct (val k) as [v|]; cbn [bind option_map]; [|reflexivity].
      rewrite window_read by (now apply (concat_len_ok nr nc)). rewrite (unflatten_concat_ok nr nc R HR), Er. cbn [bind].
      destruct (rows_ok_nth nr nc R i _ HR Er) as [Lrow Hi].
      rewrite (rs_set_mid_k pre rest x v k Lp). cbn [bind]. destruct HR as [H1 H2].
      rewrite put_row by (auto; try lia; rewrite app_length in *; cbn [length] in *; lia).
      replace (pre ++ v :: rest) with ((pre ++ [v]) ++ rest) by (now rewrite <- app_assoc).
      rewrite (IH (S k) (upd R i ((pre ++ [v]) ++ rest)) (pre ++ [v]) rest).
      + destruct (mapM val (seq (S k) m)) as [vs|]; cbn [bind option_map]; [|reflexivity].
        rewrite upd_upd, <- app_assoc. reflexivity.
      + apply rows_ok_upd; [now split|]. rewrite !app_length in *. cbn [length] in *. lia.
      + apply nth_error_upd_eq. lia.
      + rewrite app_length. cbn [length]. lia.
      + cbn [length] in Lr. lia.
  Qed.

  Lemma fill_src : forall (nr nc : nat) (B : list T -> Z -> Z -> option (list T)) (val : nat -> nat -> option T),
    (forall d i j, B d (Z.of_nat i) (Z.of_nat j) =
       let* v := val i j in
       let* w := (if Z.ltb (Z.of_nat i) (Z.of_nat nr) then rs_slice d (Z.mul (Z.of_nat i) (Z.of_nat nc)) (Z.mul (Z.add (Z.of_nat i) 1) (Z.of_nat nc)) else None) in
       let* l := rs_set w (Z.of_nat j) v in Some (rs_put_slice d (Z.mul (Z.of_nat i) (Z.of_nat nc)) l)) ->
    forall (m : nat) (done rest : list (list T)), rows_ok nr nc (done ++ rest) -> length rest = m ->
    rs_fold_opt (fun d i => let* d := rs_fold_opt (fun d j => B d i j) (map Z.of_nat (seq 0 nc)) d in Some d)
                (map Z.of_nat (seq (length done) m)) (concat (done ++ rest))
    = option_map (fun rows' => concat (done ++ rows')) (mapM (fun i => mapM (val i) (seq 0 nc)) (seq (length done) m)).
  Proof.
    intros nr nc B val HB m. induction m as [|m IH]; intros done rest HR Lr.
    - destruct rest; [|discriminate]. reflexivity.
    - destruct rest as [|r rest]; [discriminate|]. cbn [seq map rs_fold_opt mapM].
      assert (Er : nth_error (done ++ r :: rest) (length done) = Some ([] ++ r)) by (rewrite nth_error_app2 by lia; now rewrite Nat.sub_diag).
      destruct (rows_ok_nth nr nc _ _ _ HR Er) as [Lrow Hi]. cbn [app] in Lrow.
      rewrite (fill_row_src nr nc (fun d j => B d (Z.of_nat (length done)) j) (val (length done)) (length done) (fun d j => HB d (length done) j)
                 nc 0 (done ++ r :: rest) [] r HR Er eq_refl Lrow).
      destruct (mapM (val (length done)) (seq 0 nc)) as [vs|] eqn:Ev; cbn [bind option_map app]; [|reflexivity].
      pose proof (mapM_length _ _ _ Ev) as Lvs. rewrite seq_length in Lvs.
      rewrite upd_app_exact.
      replace (done ++ vs :: rest) with ((done ++ [vs]) ++ rest) by (now rewrite <- app_assoc).
      replace (S (length done)) with (length (done ++ [vs])) by (rewrite app_length; cbn; lia).
      rewrite IH.
      + destruct (mapM _ (seq (length (done ++ [vs])) m)) as [rows'|]; cbn [bind option_map]; [|reflexivity]. now rewrite <- app_assoc.
      + destruct HR as [H1 H2]. split.
        * rewrite <- app_assoc. cbn [app]. apply Forall_app in H1. destruct H1 as [Ha Hb]. apply Forall_app. split; [exact Ha|].
          constructor; [exact Lvs|exact (Forall_inv_tail Hb)].
        * rewrite !app_length in *. cbn [length] in *. lia.
      + cbn [length] in Lr. lia.
  Qed.

  Ltac use_loop L :=
    match type of L with _ = ?rhs =>
      match goal with |- context [rs_fold_opt ?f ?l ?s] =>
        let E := fresh "E" in assert (E : rs_fold_opt f l s = rhs) by exact L; rewrite E; clear E end end.

  Lemma rs_get_0 : forall {A} (l : list A), rs_get l 0 = nth_error l 0.
  Proof. intros A l. exact (rs_get_nat l 0). Qed.

  (** the element [m[i][j]] read through the translated [Index<usize>] *)
  Lemma at2_src : forall {R} (d : list T) (nr nc i j : nat) (K : T -> option R), length d = nr * nc ->
    (let* r := src_index O d (Z.of_nat nr) (Z.of_nat nc) (Z.of_nat i) in let* g := rs_get r (Z.of_nat j) in K g)
    = (let* a := at2 (unflatten d nr nc) i j in K a).
  Proof.
    intros R d nr nc i j K H. rewrite index_rows by exact H. unfold at2.
    destruct (nth_error (unflatten d nr nc) i) as [r|]; cbn [bind]; [|reflexivity]. now rewrite rs_get_nat.
  Qed.

  Ltac scalar_l_ d1 r1 c1 W1 :=
    change 1%Z with (Z.of_nat 1); rewrite !Zeqb_of_nat;
    match goal with |- context [(?a =? 1) && (?b =? 1)] => destruct ((a =? 1) && (b =? 1)) end; cbn [guard bind]; [|reflexivity];
    change 0%Z with (Z.of_nat 0); rewrite (at2_src d1 r1 c1 0 0) by exact W1;
    match goal with |- context [at2 ?R 0 0] => destruct (at2 R 0 0) end; cbn [bind]; [|reflexivity];
    rewrite bind_some_eta; unfold scalar_mat_z, mat_scalar_z, unz; rewrite !Nat2Z.id; reflexivity.

  Theorem tiea_broadcast : forall (m1 m2 : mat T), length (dat m1) = nr m1 * nc m1 -> length (dat m2) = nr m2 * nc m2 ->
    src_broadcast O calc_z zeros_z matmat_z op scalar_mat_z mat_scalar_z (zm m1) (zm m2) = option_map zm (broadcast op m1 m2).
  Proof.
    intros [r1 c1 d1] [r2 c2 d2] W1 W2. cbn [nr nc dat] in W1, W2.
    unfold src_broadcast, broadcast, zm, calc_z, rows. cbn [nr nc dat]. rewrite !Nat2Z.id.
    pose proof (rows_ok_unflatten d1 r1 c1 W1) as RO1. pose proof (rows_ok_unflatten d2 r2 c2 W2) as RO2.
    pose proof (concat_unflatten r1 c1 d1 W1) as CU1. pose proof (concat_unflatten r2 c2 d2 W2) as CU2.
    destruct (calc_broadcast_shape r1 c1 r2 c2) as [[b1 b2]|]; cbn [option_map bind fst snd]; [|reflexivity].
    destruct b1 as [h1|v1| | |], b2 as [h2|v2| | |]; cbn [bz]; lazy beta iota zeta; try reflexivity.
    - (* Hstack, Vstack: zeros, new[i][j] = m1[i][0] op m2[0][j] *)
      rewrite !Zeqb_of_nat.
      destruct (c2 =? h1); cbn [andb guard bind]; [|reflexivity]. destruct (r1 =? v2); cbn [andb guard bind]; [|reflexivity].
      change 1%Z with (Z.of_nat 1). rewrite !Zeqb_of_nat.
      destruct (r2 =? 1); cbn [andb guard bind]; [|reflexivity]. destruct (c1 =? 1); cbn [andb guard bind]; [|reflexivity].
      unfold zeros_z, matrix_new. rewrite !Nat2Z.id, repeat_length.
      destruct (new_ok (r1 * c2) r1 c2); cbn [guard bind option_map]; [|reflexivity]. unfold zm. cbn [nr nc dat].
      rewrite (rs_range_excl_0_nat c2), (rs_range_excl_0_nat r1).
      pose proof (fill_src r1 c2
        (fun d i j => let* r14 := src_index O d1 (Z.of_nat r1) (Z.of_nat c1) i in let* g15 := rs_get r14 0 in
                      let* r16 := src_index O d2 (Z.of_nat r2) (Z.of_nat c2) 0 in let* g17 := rs_get r16 j in
                      let* w18 := (if Z.ltb i (Z.of_nat r1) then rs_slice d (Z.mul i (Z.of_nat c2)) (Z.mul (Z.add i 1) (Z.of_nat c2)) else None) in
                      let* l19 := rs_set w18 j (op g15 g17) in Some (rs_put_slice d (Z.mul i (Z.of_nat c2)) l19))
        (fun i j => let* a := at2 (unflatten d1 r1 c1) i 0 in let* b := at2 (unflatten d2 r2 c2) 0 j in Some (op a b))) as L.
      assert (HB : forall d i j,
        (let* r14 := src_index O d1 (Z.of_nat r1) (Z.of_nat c1) (Z.of_nat i) in let* g15 := rs_get r14 0 in
         let* r16 := src_index O d2 (Z.of_nat r2) (Z.of_nat c2) 0 in let* g17 := rs_get r16 (Z.of_nat j) in
         let* w18 := (if Z.ltb (Z.of_nat i) (Z.of_nat r1) then rs_slice d (Z.mul (Z.of_nat i) (Z.of_nat c2)) (Z.mul (Z.add (Z.of_nat i) 1) (Z.of_nat c2)) else None) in
         let* l19 := rs_set w18 (Z.of_nat j) (op g15 g17) in Some (rs_put_slice d (Z.mul (Z.of_nat i) (Z.of_nat c2)) l19))
        = (let* v := (let* a := at2 (unflatten d1 r1 c1) i 0 in let* b := at2 (unflatten d2 r2 c2) 0 j in Some (op a b)) in
           let* w := (if Z.ltb (Z.of_nat i) (Z.of_nat r1) then rs_slice d (Z.mul (Z.of_nat i) (Z.of_nat c2)) (Z.mul (Z.add (Z.of_nat i) 1) (Z.of_nat c2)) else None) in
           let* l := rs_set w (Z.of_nat j) v in Some (rs_put_slice d (Z.mul (Z.of_nat i) (Z.of_nat c2)) l))).
      { intros d i j. change 0%Z with (Z.of_nat 0). rewrite (at2_src d1 r1 c1 i 0) by exact W1.
        destruct (at2 (unflatten d1 r1 c1) i 0) as [a|]; cbn [bind]; [|reflexivity].
        rewrite (at2_src d2 r2 c2 0 j) by exact W2. destruct (at2 (unflatten d2 r2 c2) 0 j) as [b|]; reflexivity. }
      specialize (L HB r1 [] (repeat (repeat (zero O) c2) r1)). cbn [app length] in L. rewrite concat_repeat_repeat in L.
      specialize (L ltac:(split; [apply Forall_forall; intros r Hr; apply repeat_spec in Hr; subst r; apply repeat_length|apply repeat_length]) (repeat_length _ _)).
      use_loop L. unfold flatten.
      destruct (mapM _ (seq 0 r1)); reflexivity.
    - (* _, IsScalar: m1 op m2[0][0] *) scalar_l_ d2 r2 c2 W2.
    - (* Hstack, None: new = m2.clone(); new.apply_along_row(i, |x| m1[i][0] op x) *)
      rewrite Zeqb_of_nat. destruct (h1 =? c2); cbn [guard bind]; [|reflexivity].
      pose proof (apply_loop_src r2 c2
        (fun i x => let* r3 := src_index O d1 (Z.of_nat r1) (Z.of_nat c1) i in let* g4 := rs_get r3 0 in Some (op g4 x))
        (fun i x => let* a := at2 (unflatten d1 r1 c1) i 0 in Some (op a x)) r1 (unflatten d2 r2 c2)) as L.
      specialize (L ltac:(intros i x; change 0%Z with (Z.of_nat 0); apply (at2_src d1 r1 c1 i 0 (fun a => Some (op a x)) W1)) RO2).
      rewrite CU2 in L. use_loop L. unfold flatten.
      destruct (for_opt (seq 0 r1) _ (unflatten d2 r2 c2)); reflexivity.
    - (* Vstack, Hstack: zeros, new[i][j] = m1[0][j] op m2[i][0] *)
      rewrite !Zeqb_of_nat.
      destruct (c1 =? h2); cbn [andb guard bind]; [|reflexivity]. destruct (r2 =? v1); cbn [andb guard bind]; [|reflexivity].
      change 1%Z with (Z.of_nat 1). rewrite !Zeqb_of_nat.
      destruct (r1 =? 1); cbn [andb guard bind]; [|reflexivity]. destruct (c2 =? 1); cbn [andb guard bind]; [|reflexivity].
      unfold zeros_z, matrix_new. rewrite !Nat2Z.id, repeat_length.
      destruct (new_ok (r2 * c1) r2 c1); cbn [guard bind option_map]; [|reflexivity]. unfold zm. cbn [nr nc dat].
      rewrite (rs_range_excl_0_nat c1), (rs_range_excl_0_nat r2).
      pose proof (fill_src r2 c1
        (fun d i j => let* r21 := src_index O d1 (Z.of_nat r1) (Z.of_nat c1) 0 in let* g22 := rs_get r21 j in
                      let* r23 := src_index O d2 (Z.of_nat r2) (Z.of_nat c2) i in let* g24 := rs_get r23 0 in
                      let* w25 := (if Z.ltb i (Z.of_nat r2) then rs_slice d (Z.mul i (Z.of_nat c1)) (Z.mul (Z.add i 1) (Z.of_nat c1)) else None) in
                      let* l26 := rs_set w25 j (op g22 g24) in Some (rs_put_slice d (Z.mul i (Z.of_nat c1)) l26))
        (fun i j => let* a := at2 (unflatten d1 r1 c1) 0 j in let* b := at2 (unflatten d2 r2 c2) i 0 in Some (op a b))) as L.
      assert (HB : forall d i j,
        (let* r21 := src_index O d1 (Z.of_nat r1) (Z.of_nat c1) 0 in let* g22 := rs_get r21 (Z.of_nat j) in
         let* r23 := src_index O d2 (Z.of_nat r2) (Z.of_nat c2) (Z.of_nat i) in let* g24 := rs_get r23 0 in
         let* w25 := (if Z.ltb (Z.of_nat i) (Z.of_nat r2) then rs_slice d (Z.mul (Z.of_nat i) (Z.of_nat c1)) (Z.mul (Z.add (Z.of_nat i) 1) (Z.of_nat c1)) else None) in
         let* l26 := rs_set w25 (Z.of_nat j) (op g22 g24) in Some (rs_put_slice d (Z.mul (Z.of_nat i) (Z.of_nat c1)) l26))
        = (let* v := (let* a := at2 (unflatten d1 r1 c1) 0 j in let* b := at2 (unflatten d2 r2 c2) i 0 in Some (op a b)) in
           let* w := (if Z.ltb (Z.of_nat i) (Z.of_nat r2) then rs_slice d (Z.mul (Z.of_nat i) (Z.of_nat c1)) (Z.mul (Z.add (Z.of_nat i) 1) (Z.of_nat c1)) else None) in
           let* l := rs_set w (Z.of_nat j) v in Some (rs_put_slice d (Z.mul (Z.of_nat i) (Z.of_nat c1)) l))).
      { intros d i j. change 0%Z with (Z.of_nat 0). rewrite (at2_src d1 r1 c1 0 j) by exact W1.
        destruct (at2 (unflatten d1 r1 c1) 0 j) as [a|]; cbn [bind]; [|reflexivity].
        rewrite (at2_src d2 r2 c2 i 0) by exact W2. destruct (at2 (unflatten d2 r2 c2) i 0) as [b|]; reflexivity. }
      specialize (L HB r2 [] (repeat (repeat (zero O) c1) r2)). cbn [app length] in L. rewrite concat_repeat_repeat in L.
      specialize (L ltac:(split; [apply Forall_forall; intros r Hr; apply repeat_spec in Hr; subst r; apply repeat_length|apply repeat_length]) (repeat_length _ _)).
      use_loop L. unfold flatten.
      destruct (mapM _ (seq 0 r2)); reflexivity.
    - (* _, IsScalar: m1 op m2[0][0] *) scalar_l_ d2 r2 c2 W2.
    - (* Vstack, None: new = m2.clone(); new[i].zip(&m1[0]): *x = y op *x *)
      rewrite Zeqb_of_nat. destruct (v1 =? r2); cbn [guard bind]; [|reflexivity].
      pose proof (zip_loop_src r2 c2 (fun x y => op y x) (src_index O d1 (Z.of_nat r1) (Z.of_nat c1) 0) (unflatten d1 r1 c1) r2 (unflatten d2 r2 c2)
                    (index_rows d1 r1 c1 0 W1) RO2) as L.
      rewrite CU2 in L. use_loop L. unfold flatten.
      destruct (for_opt (seq 0 r2) _ (unflatten d2 r2 c2)); reflexivity.
    - (* IsScalar, _: m1[0][0] op m2 *) scalar_l_ d1 r1 c1 W1.
    - (* IsScalar, _: m1[0][0] op m2 *) scalar_l_ d1 r1 c1 W1.
    - (* IsScalar, _: m1[0][0] op m2 *) scalar_l_ d1 r1 c1 W1.
    - (* IsScalar, _: m1[0][0] op m2 *) scalar_l_ d1 r1 c1 W1.
    - (* IsScalar, _: m1[0][0] op m2 *) scalar_l_ d1 r1 c1 W1.
    - (* None, Hstack: new = m1.clone(); new.apply_along_row(i, |x| x op m2[i][0]) *)
      rewrite Zeqb_of_nat. destruct (h2 =? c1); cbn [guard bind]; [|reflexivity].
      pose proof (apply_loop_src r1 c1
        (fun i x => let* r8 := src_index O d2 (Z.of_nat r2) (Z.of_nat c2) i in let* g9 := rs_get r8 0 in Some (op x g9))
        (fun i x => let* a := at2 (unflatten d2 r2 c2) i 0 in Some (op x a)) r2 (unflatten d1 r1 c1)) as L.
      specialize (L ltac:(intros i x; change 0%Z with (Z.of_nat 0); apply (at2_src d2 r2 c2 i 0 (fun a => Some (op x a)) W2)) RO1).
      rewrite CU1 in L. use_loop L. unfold flatten.
      destruct (for_opt (seq 0 r2) _ (unflatten d1 r1 c1)); reflexivity.
    - (* None, Vstack: new = m1.clone(); new[i].zip(&m2[0]): *x = *x op y *)
      rewrite Zeqb_of_nat. destruct (v2 =? r1); cbn [guard bind]; [|reflexivity].
      pose proof (zip_loop_src r1 c1 (fun x y => op x y) (src_index O d2 (Z.of_nat r2) (Z.of_nat c2) 0) (unflatten d2 r2 c2) r1 (unflatten d1 r1 c1)
                    (index_rows d2 r2 c2 0 W2) RO1) as L.
      rewrite CU1 in L. use_loop L. unfold flatten.
      destruct (for_opt (seq 0 r1) _ (unflatten d1 r1 c1)); reflexivity.
    - (* _, IsScalar: m1 op m2[0][0] *) scalar_l_ d2 r2 c2 W2.
    - (* None, None: assert_eq!(m1.shape(), m2.shape()); $matmatfn(m1, m2) *)
      unfold src_shape. cbn [rs_zlist_eqb]. rewrite !Zeqb_of_nat, andb_true_r.
      destruct ((r1 =? r2) && (c1 =? c2)); cbn [guard bind]; [|reflexivity].
      unfold matmat_z, unz. rewrite !Nat2Z.id, bind_some_eta. reflexivity.
    - (* _, IsScalar: m1 op m2[0][0] *) scalar_l_ d2 r2 c2 W2.
  Qed.
End Arms.
