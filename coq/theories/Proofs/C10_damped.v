(** C10 (Levenberg-Marquardt), the data condition of the composed theorems discharged from a condition on the
    PROBLEM: if the Jacobian met at every point has rows of the right length and no zero column, and tau > 0,
    then along every run

      - the damping parameter mu stays > 0 (mu0 = tau > 0; an accepted step multiplies it by
        max(1/3, 1 - (2 rho - 1)^3) >= 1/3, a rejected one by nu >= 2; nu stays > 0), and
      - the damped normal matrix J^T J + mu diag(J^T J) is symmetric POSITIVE DEFINITE:
          x^T (G + mu diag G) x = x^T G x + mu sum_i G_ii x_i^2 >= mu G_kk x_k^2 > 0   (G = J^T J is positive
        semi-definite, G_kk = |column k of J|^2 > 0),
        hence has a left inverse (through C01's Cholesky route, [Compose_base.spd_nonsingular]),

    so [damped_nonsingular_along] holds and [lm_never_worse_composed] / [lm_result_composed] apply with no
    hypothesis on the run. *)
From Coq Require Import List Arith ZArith Bool Reals Lia Lra.
From Compute Require Import Base.Ops Base.ListMat Model.Reduce Model.MatMul Model.Subst Model.LU Model.Solve Model.SolveInst
  Model.Optim Spec.Optim Proofs.C10 Proofs.C10_lm Proofs.C10_compose.
From Compute Require Spec.Factor Spec.Solve Proofs.LinAlgBase Proofs.C11_SPD Proofs.Compose_base.
Import ListNotations.
Local Open Scope R_scope.

(** ** the two finite-sum vocabularies agree *)
Lemma rsum_bridge f n : rsum f n = Spec.Factor.rsum f n.
Proof. induction n as [|n IH]; cbn [rsum Spec.Factor.rsum]; [reflexivity|]. rewrite IH. reflexivity. Qed.

Lemma rsum_pos f n k :
  (forall j, (j < n)%nat -> 0 <= f j) -> (k < n)%nat -> 0 < f k -> 0 < rsum f n.
Proof.
  induction n as [|n IH]; intros Hnn Hk Hpos; [lia|]. cbn [rsum].
  assert (H1 : 0 <= rsum f n) by (apply rsum_nonneg; intros; apply Hnn; lia).
  assert (H2 : 0 <= f n) by (apply Hnn; lia).
  destruct (Nat.eq_dec k n) as [->|Hne]; [lra|].
  assert (0 < rsum f n) by (apply IH; [intros; apply Hnn; lia|lia|exact Hpos]). lra.
Qed.

(** ** the condition on the problem: a Jacobian (list of rows) with p columns, none of them zero *)
Definition cols_nonzero (J : list (list R)) (p : nat) : Prop :=
  (forall row, In row J -> length row = p) /\
  (forall i, (i < p)%nat -> exists row, In row J /\ nth i row 0 <> 0).

Lemma nth_flatten_rows (J : list (list R)) p k i :
  (forall row, In row J -> length row = p) -> (k < length J)%nat -> (i < p)%nat ->
  nth (k * p + i) (flatten J) 0 = nth i (nth k J []) 0.
Proof.
  unfold flatten. revert k. induction J as [|row J IH]; intros k Hrows Hk Hi; [cbn in Hk; lia|].
  cbn [concat]. assert (Hl : length row = p) by (apply Hrows; left; reflexivity).
  destruct k as [|k].
  - cbn [Nat.mul Nat.add nth]. apply app_nth1. lia.
  - cbn [nth]. rewrite app_nth2 by (rewrite Hl; nia).
    replace (S k * p + i - length row)%nat with (k * p + i)%nat by (rewrite Hl; nia).
    apply IH; [intros; apply Hrows; right; assumption|cbn [length] in Hk; lia|exact Hi].
Qed.

(** ** J^T J as the code builds it: entries, symmetry, diagonal *)
Lemma normal_eqs_entries J p r G g :
  normal_eqs RO J p r = Some (G, g) ->
  nr G = p /\ nc G = p /\ (0 < p)%nat /\ (0 < length J)%nat /\
  forall i j, (i < p)%nat -> (j < p)%nat ->
    entry G i j = rsum (fun k => nth (k * p + i) (flatten J) 0 * nth (k * p + j) (flatten J) 0) (length J).
Proof.
  unfold normal_eqs. intros H.
  apply bind_some' in H as (Jm & HJm & H). apply bind_some' in H as (G' & HG & H).
  apply bind_some' in H as (v & _ & H). apply bind_some' in H as (tm & _ & H). injection H as <- _.
  unfold matrix_new in HJm. apply bind_some' in HJm as (u & Hu & HJm).
  unfold guard in Hu. destruct (_ && _) eqn:E in Hu; [|discriminate].
  apply andb_prop in E as [E1 E3]. apply andb_prop in E1 as [E1 E2].
  apply Nat.ltb_lt in E1. apply Nat.ltb_lt in E2. apply Nat.eqb_eq in E3.
  injection HJm as <-.
  destruct (gram_entries {| nr := length J; nc := p; dat := flatten J |} G') as (Hr & Hc & Hent);
    cbn [nr nc dat]; [lia|exact E1|exact HG|].
  cbn [nr nc dat] in Hr, Hc, Hent.
  split; [exact Hr|]. split; [exact Hc|]. split; [exact E2|]. split; [exact E1|exact Hent].
Qed.

Lemma gram_diag_positive J p r G g :
  normal_eqs RO J p r = Some (G, g) -> cols_nonzero J p -> forall i, (i < p)%nat -> 0 < entry G i i.
Proof.
  intros Hn [Hrows Hcols] i Hi.
  destruct (normal_eqs_entries J p r G g Hn) as (_ & _ & _ & _ & Hent).
  rewrite (Hent i i Hi Hi).
  destruct (Hcols i Hi) as (row & Hin & Hnz).
  destruct (In_nth _ _ [] Hin) as (k & Hk & Hrow).
  apply (rsum_pos _ _ k); [intros; apply Rle_0_sqr|exact Hk|].
  rewrite (nth_flatten_rows J p k i Hrows Hk Hi), Hrow.
  pose proof (Rle_0_sqr (nth i row 0)) as H0. unfold Rsqr in H0.
  destruct (Req_dec (nth i row 0 * nth i row 0) 0) as [E|E]; [|lra].
  apply Rmult_integral in E. tauto.
Qed.

Lemma gram_symmetric J p r G g :
  normal_eqs RO J p r = Some (G, g) -> forall i j, (i < p)%nat -> (j < p)%nat -> entry G i j = entry G j i.
Proof.
  intros Hn i j Hi Hj. destruct (normal_eqs_entries J p r G g Hn) as (_ & _ & _ & _ & Hent).
  rewrite (Hent i j Hi Hj), (Hent j i Hj Hi). apply rsum_ext. intros; ring.
Qed.

(** ** the damped matrix G + mu diag(G) *)
Lemma getm_entry (m : matrix (T:=R)) i j : Spec.Factor.getm (dat m) (nc m) i j = entry m i j.
Proof. reflexivity. Qed.

(** positive definite as soon as G is positive semi-definite with a positive diagonal and mu > 0 *)
Theorem damped_positive_definite (G : matrix (T:=R)) mu :
  psd G -> length (dat G) = (nr G * nc G)%nat -> 0 < mu ->
  (forall i, (i < nr G)%nat -> 0 < entry G i i) ->
  Proofs.C11_SPD.positive_definite (dat (damp RO G mu)) (nr G).
Proof.
  intros (Hsq & Hq & _) Hl Hmu Hdiag x (i0 & Hi0 & Hx0).
  rewrite <- rsum_bridge.
  rewrite (rsum_ext _ (fun a => x a * rsum (fun b => entry G a b * x b) (nc G)
                                + mu * (entry G a a * (x a * x a)))).
  - rewrite rsum_plus, rsum_scal.
    pose proof (Hq x) as Q. unfold quad in Q.
    assert (0 < rsum (fun a => entry G a a * (x a * x a)) (nr G)).
    { apply (rsum_pos _ _ i0); [|exact Hi0|].
      - intros j Hj. apply Rmult_le_pos; [left; apply Hdiag; exact Hj|apply Rle_0_sqr].
      - apply Rmult_lt_0_compat; [apply Hdiag; exact Hi0|].
        pose proof (Rle_0_sqr (x i0)) as H0. unfold Rsqr in H0.
        destruct (Req_dec (x i0 * x i0) 0) as [E|E]; [|lra]. apply Rmult_integral in E. tauto. }
    nra.
  - intros a Ha. rewrite <- rsum_bridge. rewrite Hsq.
    rewrite (rsum_ext _ (fun b => x a * (entry G a b * x b)
                                  + (if (a =? b)%nat then mu * (entry G a a * (x a * x a)) else 0))).
    + rewrite rsum_plus, rsum_scal, rsum_delta by lia. reflexivity.
    + intros b Hb.
      change (Spec.Factor.getm (dat (damp RO G mu)) (nc G) a b) with (entry (damp RO G mu) a b).
      rewrite damp_entry by (try exact Hl; lia).
      destruct (Nat.eqb_spec a b) as [->|_]; ring.
Qed.

Lemma damped_symmetric (G : matrix (T:=R)) mu :
  nr G = nc G -> length (dat G) = (nr G * nc G)%nat ->
  (forall i j, (i < nr G)%nat -> (j < nr G)%nat -> entry G i j = entry G j i) ->
  Spec.Factor.symmetric (dat (damp RO G mu)) (nr G).
Proof.
  intros Hsq Hl Hsym i j Hi Hj. rewrite Hsq.
  change (entry (damp RO G mu) i j = entry (damp RO G mu) j i).
  rewrite !damp_entry by (try exact Hl; lia). rewrite (Nat.eqb_sym j i), (Hsym i j Hi Hj).
  destruct (Nat.eqb_spec i j) as [->|_]; reflexivity.
Qed.

(** ... hence nonsingular: at a Gram matrix of a Jacobian without zero column, for every mu > 0 *)
Theorem damped_gram_nonsingular J p r G g mu :
  normal_eqs RO J p r = Some (G, g) -> cols_nonzero J p -> 0 < mu ->
  Proofs.C11_SPD.positive_definite (dat (damp RO G mu)) (nr G) /\
  Spec.Factor.symmetric (dat (damp RO G mu)) (nr G) /\
  Spec.Solve.nonsingular (dat (damp RO G mu)) (nr G).
Proof.
  intros Hn Hcols Hmu.
  destruct (normal_eqs_entries J p r G g Hn) as (Hr & Hc & Hp & _ & _).
  destruct (normal_eqs_good J p r G g Hn) as (Hpsd & Hl).
  assert (Hpd : Proofs.C11_SPD.positive_definite (dat (damp RO G mu)) (nr G)).
  { apply damped_positive_definite; try assumption. intros i Hi.
    apply (gram_diag_positive J p r G g Hn Hcols). lia. }
  assert (Hsym : Spec.Factor.symmetric (dat (damp RO G mu)) (nr G)).
  { apply damped_symmetric; [lia|exact Hl|]. intros i j Hi Hj. apply (gram_symmetric J p r G g Hn); lia. }
  split; [exact Hpd|]. split; [exact Hsym|].
  apply Proofs.Compose_base.spd_nonsingular; try assumption; [|lia].
  unfold damp. cbn [dat]. rewrite Proofs.LinAlgBase.mapi_length. rewrite Hl, Hc, Hr. reflexivity.
Qed.

(** ** the mu / nu schedule: positivity is invariant, whatever the solver, the residuals and the Jacobian *)
Lemma third_pos : 0 < third RO.
Proof. unfold third. cbn. lra. Qed.
Lemma two_pos : 0 < two RO.
Proof. unfold two. cbn. lra. Qed.

Lemma lm_step_damping_positive resid jac1 solve h st st' :
  lm_step RO resid jac1 solve h st = Some st' ->
  0 < lm_mu st -> 0 < lm_nu st -> 0 < lm_mu st' /\ 0 < lm_nu st'.
Proof.
  intros H Hmu Hnu. unfold lm_step in H.
  apply bind_some' in H as (d & _ & H).
  destruct (leb RO (norm RO d) _); [injection H as <-; cbn; auto|].
  apply bind_some' in H as (r' & _ & H). apply bind_some' in H as (pred & _ & H).
  destruct (ltb RO (zero RO) _).
  - apply bind_some' in H as (J & _ & H). apply bind_some' in H as ([jtj jtr] & _ & H).
    injection H as <-. cbn [lm_mu lm_nu]. split.
    + match goal with |- context [if ?c then _ else _] => destruct c end; [exact Hmu|].
      cbn [mul RO]. apply Rmult_lt_0_compat; [exact Hmu|].
      rewrite RO_fmax. eapply Rlt_le_trans; [apply third_pos|apply Rmax_l].
    + match goal with |- context [if ?c then _ else _] => destruct c end; [exact Hnu|apply two_pos].
  - injection H as <-. cbn [lm_mu lm_nu mul RO]. pose proof two_pos.
    split; apply Rmult_lt_0_compat; assumption.
Qed.

Lemma lm_loop_damping_positive resid jac1 solve h fuel : forall st st',
  lm_loop RO resid jac1 solve h fuel st = Some st' ->
  0 < lm_mu st -> 0 < lm_nu st -> 0 < lm_mu st' /\ 0 < lm_nu st'.
Proof.
  induction fuel as [|fuel IH]; intros st st' H Hmu Hnu; cbn [lm_loop] in H.
  - injection H as <-. auto.
  - destruct (lm_stop st); [injection H as <-; auto|].
    apply bind_some' in H as (s1 & H1 & H).
    destruct (lm_step_damping_positive _ _ _ _ _ _ H1 Hmu Hnu) as [M N]. exact (IH _ _ H M N).
Qed.

(** the start value: mu0 = tau > 0 (the repaired code: the damping is relative to diag(J^T J) already) *)

(** ** the run *)
Section Run.
  Variable resid : list R -> option (list R).
  Variable jac0 jac1 : list R -> option (list (list R)).
  Variable h : lm_hp (T:=R).

  (** the condition on the problem: wherever a Jacobian is returned it has one column per parameter, rows of
      that length, and no zero column *)
  Definition jac_cols_nonzero : Prop :=
    forall ps J, jac0 ps = Some J \/ jac1 ps = Some J -> cols_nonzero J (length ps).

  Hypothesis Hjac : jac_cols_nonzero.

  (** invariant of the run: positive damping, and J^T J is that of a Jacobian without zero column *)
  Definition inv_state (st : lm_state (T:=R)) : Prop :=
    0 < lm_mu st /\ 0 < lm_nu st /\
    exists J r, normal_eqs RO J (length (lm_ps st)) r = Some (lm_jtj st, lm_jtr st) /\
                cols_nonzero J (length (lm_ps st)).

  Lemma inv_state_nonsingular st :
    inv_state st -> Spec.Solve.nonsingular (dat (damp RO (lm_jtj st) (lm_mu st))) (nr (lm_jtj st)).
  Proof.
    intros (Hmu & _ & J & r & Hn & Hc). exact (proj2 (proj2 (damped_gram_nonsingular _ _ _ _ _ _ Hn Hc Hmu))).
  Qed.

  Lemma inv_state_init ps st : 0 < l_tau h -> lm_init RO resid jac0 h ps = Some st -> inv_state st.
  Proof.
    intros Htau H. unfold lm_init in H.
    apply bind_some' in H as (r & _ & H). apply bind_some' in H as (J & HJ & H).
    apply bind_some' in H as ([jtj jtr] & Hn & H). injection H as <-.
    unfold inv_state. cbn [lm_mu lm_nu lm_ps lm_jtj lm_jtr].
    pose proof (Hjac ps J (or_introl HJ)) as Hc.
    split; [|split; [apply two_pos|exists J, r; split; assumption]].
    exact Htau.
  Qed.

  Lemma inv_state_step st st' :
    inv_state st -> lm_step RO resid jac1 lm_solve h st = Some st' -> inv_state st'.
  Proof.
    intros Hinv H.
    destruct (lm_step_damping_positive _ _ _ _ _ _ H (proj1 Hinv) (proj1 (proj2 Hinv))) as [Hmu' Hnu'].
    pose proof (inv_state_nonsingular st Hinv) as Hns.
    destruct Hinv as (Hmu & Hnu & J & r & Hn & Hc).
    split; [exact Hmu'|]. split; [exact Hnu'|]. clear Hmu' Hnu'.
    unfold lm_step in H. apply bind_some' in H as (d & Hd & H).
    destruct (leb RO (norm RO d) _); [injection H as <-; cbn [lm_ps lm_jtj lm_jtr]; exists J, r; auto|].
    apply bind_some' in H as (r' & _ & H). apply bind_some' in H as (pred & _ & H).
    destruct (ltb RO (zero RO) _).
    - apply bind_some' in H as (J' & HJ' & H). apply bind_some' in H as ([jtj jtr] & Hn' & H).
      injection H as <-. cbn [lm_ps lm_jtj lm_jtr].
      (* the step has the length of the parameters *)
      assert (Hreg : regular (damp RO (lm_jtj st) (lm_mu st))).
      { split; [apply damp_wfsq; exact (normal_eqs_wfsq _ _ _ _ _ Hn)|exact Hns]. }
      destruct (lm_solve_exact_at _ _ _ Hreg Hd) as (Ld & _ & _).
      destruct (normal_eqs_entries _ _ _ _ _ Hn) as (_ & Hcn & _ & _ & _).
      assert (Lp : length (map2 (add RO) (lm_ps st) d) = length (lm_ps st)).
      { apply map2_len. rewrite Ld. cbn [damp nc]. exact Hcn. }
      exists J', r'. change (map2 Rplus (lm_ps st) d) with (map2 (add RO) (lm_ps st) d). rewrite Lp. split; [exact Hn'|].
      rewrite <- Lp. apply Hjac. right. exact HJ'.
    - injection H as <-. cbn [lm_ps lm_jtj lm_jtr]. exists J, r. auto.
  Qed.

  Lemma inv_state_along fuel : forall st, inv_state st -> damped_nonsingular_along resid jac1 h fuel st.
  Proof.
    induction fuel as [|fuel IH]; intros st Hinv; cbn [damped_nonsingular_along]; [exact I|].
    destruct (lm_stop st); [exact I|]. split; [exact (inv_state_nonsingular st Hinv)|].
    destruct (lm_step RO resid jac1 lm_solve h st) as [st'|] eqn:Hs; [|exact I].
    apply IH. exact (inv_state_step st st' Hinv Hs).
  Qed.

  (** the data condition of the composed theorems holds on every run *)
  Theorem damped_nonsingular_along_holds maxsteps ps0 st0 :
    0 < l_tau h -> lm_init RO resid jac0 h ps0 = Some st0 -> damped_nonsingular_along resid jac1 h maxsteps st0.
  Proof. intros Htau Hi. apply inv_state_along. exact (inv_state_init ps0 st0 Htau Hi). Qed.

  (** the damped matrix of every state met along the run (with C01's solver) is positive definite, mu > 0 *)
  Theorem lm_run_damped_positive_definite maxsteps ps0 st0 st :
    0 < l_tau h -> lm_init RO resid jac0 h ps0 = Some st0 ->
    lm_loop RO resid jac1 lm_solve h maxsteps st0 = Some st ->
    0 < lm_mu st /\ 0 < lm_nu st /\
    Proofs.C11_SPD.positive_definite (dat (damp RO (lm_jtj st) (lm_mu st))) (nr (lm_jtj st)).
  Proof.
    intros Htau Hi Hl. pose proof (inv_state_init ps0 st0 Htau Hi) as H0.
    assert (Hinv : inv_state st).
    { clear Hi. revert st0 Hl H0. induction maxsteps as [|k IH]; intros st0 Hl H0; cbn [lm_loop] in Hl.
      - injection Hl as <-. exact H0.
      - destruct (lm_stop st0); [injection Hl as <-; exact H0|].
        apply bind_some' in Hl as (s1 & H1 & Hl). exact (IH s1 Hl (inv_state_step st0 s1 H0 H1)). }
    destruct Hinv as (Hmu & Hnu & J & r & Hn & Hc). split; [exact Hmu|]. split; [exact Hnu|].
    exact (proj1 (damped_gram_nonsingular _ _ _ _ _ _ Hn Hc Hmu)).
  Qed.

  (** LM with C01's LU solve never returns parameters with a larger residual sum of squares than the start
      point; hypotheses only on the Jacobian's columns and tau > 0 *)
  Theorem lm_never_worse_unconditional maxsteps ps0 popt cov :
    0 < l_tau h ->
    lm RO resid jac0 jac1 lm_solve lm_inv h maxsteps ps0 = Some (popt, cov) ->
    exists r0 r, resid ps0 = Some r0 /\ resid popt = Some r /\ dot_raw RO r r <= dot_raw RO r0 r0.
  Proof.
    intros Htau H.
    apply (lm_never_worse_composed resid jac0 jac1 h maxsteps ps0 popt cov); [lra| |exact H].
    intros st0 Hi. exact (damped_nonsingular_along_holds maxsteps ps0 st0 Htau Hi).
  Qed.

  Theorem lm_result_unconditional maxsteps ps0 popt cov :
    0 < l_tau h ->
    lm RO resid jac0 jac1 lm_solve lm_inv h maxsteps ps0 = Some (popt, cov) ->
    exists r J G g ji,
      length popt = length ps0 /\ resid popt = Some r /\
      (jac0 popt = Some J \/ jac1 popt = Some J) /\
      normal_eqs RO J (length popt) r = Some (G, g) /\
      lm_inv G = Some ji /\ (length popt <= length r)%nat /\
      cov = map (Rmult (dot_raw RO r r / IZR (Z.of_nat (length r - length popt)))) ji /\
      (Spec.Solve.nonsingular (dat G) (nr G) -> Spec.Solve.is_right_inverse (dat G) (nr G) ji).
  Proof.
    intros Htau H.
    apply (lm_result_composed resid jac0 jac1 h maxsteps ps0 popt cov); [|exact H].
    intros st0 Hi. exact (damped_nonsingular_along_holds maxsteps ps0 st0 Htau Hi).
  Qed.
End Run.

(** ** the condition on the problem is satisfiable on a non-trivial instance: a two-parameter problem whose
    Jacobian is the constant matrix [[1;2];[0;3]] (a model linear in its parameters) *)
Definition jac_example (ps : list R) : option (list (list R)) :=
  if (length ps =? 2)%nat then Some [[1; 2]; [0; 3]] else None.

Example jac_example_cols_nonzero : jac_cols_nonzero jac_example jac_example.
Proof.
  intros ps J HJ. assert (H : jac_example ps = Some J) by tauto. clear HJ.
  unfold jac_example in H. destruct (Nat.eqb_spec (length ps) 2) as [E|E]; [|discriminate].
  injection H as <-. rewrite E. split.
  - intros row [<-|[<-|[]]]; reflexivity.
  - intros i Hi. destruct i as [|[|i]]; [| |lia].
    + exists [1; 2]. split; [left; reflexivity|cbn; lra].
    + exists [1; 2]. split; [left; reflexivity|cbn; lra].
Qed.

(** ... and the hypotheses of [damped_gram_nonsingular] on it: [normal_eqs] returns J^T J = [[1;2];[2;13]]
    (entries as the unrolled sums the code forms), and J^T J + 1.diag(J^T J) has a left inverse *)
Example damped_instance :
  exists G g, normal_eqs RO [[1; 2]; [0; 3]] 2 [1; 1] = Some (G, g) /\
              Spec.Solve.nonsingular (dat (damp RO G 1)) (nr G).
Proof.
  assert (H : exists G g, normal_eqs RO [[1; 2]; [0; 3]] 2 [1; 1] = Some (G, g)).
  { eexists. eexists. unfold normal_eqs.
    cbv -[Rplus Rmult Rminus Ropp Rinv Rdiv IZR R0 R1 Rabs sqrt Rltb Rleb Reqb]. reflexivity. }
  destruct H as (G & g & H). exists G, g. split; [exact H|].
  refine (proj2 (proj2 (damped_gram_nonsingular _ _ _ _ _ 1 H _ _))); [|lra].
  exact (jac_example_cols_nonzero [0; 0] [[1; 2]; [0; 3]] (or_introl eq_refl)).
Qed.
