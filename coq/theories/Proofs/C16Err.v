(** * C16 on binary64 (extension): the in-segment value is between the two ordinates UP TO ROUNDING, and within 3 units
    roundoff (u = 2^-53) of the real chord evaluated at the computed ratio.

    The code computes  v = fl( fl(r * y1) + fl( fl(1 - r) * y0 ) )  with the binary64 ratio r, 0 <= r <= 1
    (C16_ratio_unit_interval_binary64).  Each of the four operations commits a relative error of at most
    u' = u / (1 + u); a product that underflows commits instead an absolute error of at most 2^-1075; an addition or a
    subtraction of doubles never suffers from underflow.  Hence, whenever v is finite (no overflow),
        | v - (r y1 + (1 - r) y0) |  <=  ((1 + u')^3 - 1) max(|y0|,|y1|) + 2^-1074 (1 + u')
                                      <=  3 u max(|y0|,|y1|) + 2^-1073 ,
    the absolute term being absent when neither product underflows.  Rounding to nearest is monotone, so v is at
    least the value w the same formula returns with both ordinates replaced by min(y0,y1), and
    |w - min(y0,y1)| <= 3 u |min(y0,y1)| + 2^-1073 by the same analysis; likewise above. *)
From Coq Require Import ZArith Reals Floats List Lia Lra Psatz Bool Arith.
From Flocq Require Import Core Relative Plus_error BinarySingleNaN.
From Flocq Require IEEE754.PrimFloat.
From Compute Require Import Base.Ops Base.ListMat Model.Interp Spec.InterpBinary64 Proofs.C16 Proofs.C16Float.
From Compute Require Spec.Interp.
Import ListNotations.
Local Existing Instance FP.Hprec.
Local Existing Instance FP.Hmax.
Local Open Scope R_scope.

(** ** real arithmetic *)
Lemma chord_real (w h M r s y0 y1 p1 p0 v e1 e2 e3 e4 n2 n3 : R) :
  0 <= w -> 0 <= h -> 0 <= r <= 1 ->
  Rabs y0 <= M -> Rabs y1 <= M ->
  Rabs e1 <= w -> Rabs e2 <= w -> Rabs e3 <= w -> Rabs e4 <= w ->
  Rabs n2 <= h -> Rabs n3 <= h ->
  s = (1 - r) * (1 + e1) ->
  p1 = r * y1 * (1 + e2) + n2 ->
  p0 = s * y0 * (1 + e3) + n3 ->
  v = (p1 + p0) * (1 + e4) ->
  Rabs (v - (r * y1 + (1 - r) * y0)) <= ((1 + w) ^ 3 - 1) * M + 2 * h * (1 + w).
Proof.
  intros Hw Hh Hr Hy0 Hy1 He1 He2 He3 He4 Hn2 Hn3 Es Ep1 Ep0 Ev.
  assert (HM : 0 <= M) by (pose proof (Rabs_pos y0); lra).
  set (c := r * y1 + (1 - r) * y0).
  set (g := (1 + e1) * (1 + e3) - 1).
  assert (Hg : Rabs g <= 2 * w + w * w).
  { unfold g. replace ((1 + e1) * (1 + e3) - 1) with (e1 + e3 + e1 * e3) by ring.
    eapply Rle_trans; [apply Rabs_triang|]. eapply Rle_trans; [apply Rplus_le_compat_r; apply Rabs_triang|].
    rewrite Rabs_mult. pose proof (Rabs_pos e1). pose proof (Rabs_pos e3).
    assert (Rabs e1 * Rabs e3 <= w * w) by (apply Rmult_le_compat; lra). lra. }
  set (D := M * (2 * w + w * w) + 2 * h).
  assert (Hd : Rabs (p1 + p0 - c) <= D).
  { replace (p1 + p0 - c) with (r * (y1 * e2) + (1 - r) * (y0 * g) + n2 + n3) by (rewrite Ep1, Ep0, Es; unfold c, g; ring).
    assert (A1 : Rabs (r * (y1 * e2)) <= r * (M * (2 * w + w * w))).
    { rewrite Rabs_mult, (Rabs_pos_eq r) by lra. apply Rmult_le_compat_l; [lra|].
      rewrite Rabs_mult. pose proof (Rabs_pos y1). pose proof (Rabs_pos e2).
      apply Rmult_le_compat; try lra. nra. }
    assert (A0 : Rabs ((1 - r) * (y0 * g)) <= (1 - r) * (M * (2 * w + w * w))).
    { rewrite Rabs_mult, (Rabs_pos_eq (1 - r)) by lra. apply Rmult_le_compat_l; [lra|].
      rewrite Rabs_mult. pose proof (Rabs_pos y0). pose proof (Rabs_pos g).
      apply Rmult_le_compat; lra. }
    eapply Rle_trans; [apply Rabs_triang|]. eapply Rle_trans; [apply Rplus_le_compat_r; apply Rabs_triang|].
    eapply Rle_trans; [apply Rplus_le_compat_r; apply Rplus_le_compat_r; apply Rabs_triang|].
    unfold D. lra. }
  assert (Hc : Rabs c <= M).
  { unfold c. eapply Rle_trans; [apply Rabs_triang|]. rewrite !Rabs_mult, (Rabs_pos_eq r), (Rabs_pos_eq (1 - r)) by lra.
    assert (r * Rabs y1 <= r * M) by (apply Rmult_le_compat_l; lra).
    assert ((1 - r) * Rabs y0 <= (1 - r) * M) by (apply Rmult_le_compat_l; lra). lra. }
  assert (HS : Rabs (p1 + p0) <= M + D).
  { replace (p1 + p0) with (c + (p1 + p0 - c)) by ring. eapply Rle_trans; [apply Rabs_triang|]. lra. }
  assert (HD : 0 <= D) by (pose proof (Rabs_pos (p1 + p0 - c)); lra).
  replace (v - c) with ((p1 + p0) * e4 + (p1 + p0 - c)) by (rewrite Ev; ring).
  eapply Rle_trans; [apply Rabs_triang|]. rewrite Rabs_mult.
  assert (Rabs (p1 + p0) * Rabs e4 <= (M + D) * w).
  { apply Rmult_le_compat; try apply Rabs_pos; lra. }
  unfold D in *. nra.
Qed.

Lemma cube_bound (u w : R) : 0 <= u -> w = u / (1 + u) -> (1 + w) ^ 3 - 1 <= 3 * u.
Proof.
  intros Hu ->. assert (E : 1 + u / (1 + u) = (1 + 2 * u) / (1 + u)) by (field; lra). rewrite E.
  unfold Rdiv. rewrite Rpow_mult_distr.
  assert (P : 0 < (1 + u) ^ 3) by (apply pow_lt; lra).
  rewrite pow_inv.
  apply (Rmult_le_reg_r ((1 + u) ^ 3)); [exact P|].
  replace (((1 + 2 * u) ^ 3 * / (1 + u) ^ 3 - 1) * (1 + u) ^ 3) with ((1 + 2 * u) ^ 3 - (1 + u) ^ 3) by (field; lra).
  nra.
Qed.

(** ** the constants: u = 2^-53, u' = u / (1 + u), eta = 2^-1075 *)
Definition uu : R := u_ro radix2 53.
Definition uw : R := uu / (1 + uu).
Definition eta : R := / 2 * bpow radix2 (-1074).

Lemma uu_val : uu = / 2 ^ 53.
Proof.
  unfold uu, u_ro. change (/ 2) with (bpow radix2 (-1)). rewrite <- bpow_plus.
  change (-1 + (-53 + 1))%Z with (-53)%Z. change (bpow radix2 (-53)) with (/ IZR (Z.pow_pos 2 53)).
  f_equal. rewrite (pow_IZR 2 53). f_equal. reflexivity.
Qed.
Lemma uu_pos : 0 <= uu. Proof. apply u_ro_pos. Qed.
Lemma uu_lt_1 : uu < 1. Proof. apply u_ro_lt_1. reflexivity. Qed.
Lemma uw_pos : 0 <= uw. Proof. apply u_rod1pu_ro_pos. Qed.
Lemma uw_le_uu : uw <= uu. Proof. apply u_rod1pu_ro_le_u_ro. Qed.
Lemma uw_cube : (1 + uw) ^ 3 - 1 <= 3 * / 2 ^ 53.
Proof. rewrite <- uu_val. apply cube_bound; [apply uu_pos|reflexivity]. Qed.
Lemma eta_pos : 0 <= eta.
Proof. unfold eta. apply Rmult_le_pos; [lra|apply bpow_ge_0]. Qed.
Lemma eta_val : 2 * eta = / 2 ^ 1074.
Proof.
  unfold eta. replace (2 * (/ 2 * bpow radix2 (-1074))) with (bpow radix2 (-1074)) by field.
  change (bpow radix2 (-1074)) with (/ IZR (Z.pow_pos 2 1074)).
  f_equal. rewrite (pow_IZR 2 1074). f_equal.
Qed.
Lemma abs_term : 2 * eta * (1 + uw) <= / 2 ^ 1073.
Proof.
  rewrite eta_val. pose proof uw_le_uu. pose proof uu_lt_1. pose proof uw_pos.
  assert (P : 0 < / 2 ^ 1074) by (apply Rinv_0_lt_compat, pow_lt; lra).
  replace (/ 2 ^ 1073) with (/ 2 ^ 1074 * 2).
  - apply Rmult_le_compat_l; lra.
  - change (2 ^ 1074) with (2 * 2 ^ 1073). field.
Qed.

(** ** one rounding *)
Definition no_uflow (z : R) : Prop := z = 0 \/ / 2 ^ 1022 <= Rabs z.

Lemma tiny_val : bpow radix2 (-1074 + 53 - 1) = / 2 ^ 1022.
Proof.
  change (-1074 + 53 - 1)%Z with (-1022)%Z. change (bpow radix2 (-1022)) with (/ IZR (Z.pow_pos 2 1022)).
  f_equal. rewrite (pow_IZR 2 1022). f_equal.
Qed.

Lemma rnd_mul_err (z : R) :
  exists eps n : R, Rabs eps <= uw /\ Rabs n <= eta /\ (no_uflow z -> n = 0) /\ rnd z = z * (1 + eps) + n.
Proof.
  destruct (Req_dec z 0) as [->|Hz].
  - exists 0, 0. rewrite Rabs_R0. split; [apply uw_pos|]. split; [apply eta_pos|]. split; [reflexivity|].
    rewrite rnd_0. ring.
  - destruct (Rle_or_lt (/ 2 ^ 1022) (Rabs z)) as [Hb|Hs].
    + destruct (relative_error_N_FLX'_ex radix2 53 ltac:(reflexivity) (fun x => negb (Z.even x)) z) as (eps & He & Hr).
      exists eps, 0. rewrite Rabs_R0. split; [exact He|]. split; [apply eta_pos|]. split; [reflexivity|].
      rewrite Rplus_0_r, <- Hr. apply (round_FLT_FLX radix2 (-1074) 53). rewrite tiny_val. exact Hb.
    + destruct (relative_error_N_FLT'_ex radix2 (-1074) 53 ltac:(reflexivity) (fun x => negb (Z.even x)) z)
        as (eps & n & He & Hn & _ & Hr).
      exists eps, n. split; [exact He|]. split; [exact Hn|]. split; [|exact Hr].
      intros [H|H]; [contradiction|lra].
Qed.

Lemma fmt_FR (x : flt) : generic_format radix2 (FLT_exp (-1074) 53) (FR x).
Proof. apply (generic_format_B2R prec emax). Qed.
Lemma fmt_rnd (z : R) : generic_format radix2 (FLT_exp (-1074) 53) (rnd z).
Proof. apply generic_format_round; [apply FLT_exp_valid; reflexivity|apply valid_rnd_N]. Qed.

Lemma rnd_add_err (a b : R) :
  generic_format radix2 (FLT_exp (-1074) 53) a -> generic_format radix2 (FLT_exp (-1074) 53) b ->
  exists eps, Rabs eps <= uw /\ rnd (a + b) = (a + b) * (1 + eps).
Proof. intros Fa Fb. exact (FLT_plus_error_N_ex radix2 (-1074) 53 (fun x => negb (Z.even x)) a b Fa Fb). Qed.

(** ** the formula with both ordinates equal to [L]: within 3u|L| + 2^-1073 of [L] *)
Lemma flat_value (r s L : R) :
  0 <= r <= 1 -> (exists e1, Rabs e1 <= uw /\ s = (1 - r) * (1 + e1)) ->
  Rabs (rnd (rnd (r * L) + rnd (s * L)) - L) <= 3 * / 2 ^ 53 * Rabs L + / 2 ^ 1073.
Proof.
  intros Hr (e1 & He1 & Es).
  destruct (rnd_mul_err (r * L)) as (e2 & n2 & He2 & Hn2 & _ & E2).
  destruct (rnd_mul_err (s * L)) as (e3 & n3 & He3 & Hn3 & _ & E3).
  destruct (rnd_add_err (rnd (r * L)) (rnd (s * L)) (fmt_rnd _) (fmt_rnd _)) as (e4 & He4 & E4).
  pose proof (chord_real uw eta (Rabs L) r s L L _ _ _ e1 e2 e3 e4 n2 n3 uw_pos eta_pos Hr
                (Rle_refl _) (Rle_refl _) He1 He2 He3 He4 Hn2 Hn3 Es E2 E3 E4) as H.
  replace (r * L + (1 - r) * L) with L in H by ring.
  eapply Rle_trans; [exact H|]. apply Rplus_le_compat; [|apply abs_term].
  apply Rmult_le_compat_r; [apply Rabs_pos|apply uw_cube].
Qed.

(** ** binary64: the parts of the computed value *)
Lemma fin_mul (a b : flt) : fin (a * b) -> fin a /\ fin b /\ FR (a * b) = rnd (FR a * FR b).
Proof.
  rewrite !fin_B. unfold FR. rewrite FP.mul_equiv. intros H.
  pose proof (Bmult_correct prec emax _ _ mode_NE (FP.Prim2B a) (FP.Prim2B b)) as HB.
  destruct (Rlt_bool _ _) in HB.
  - destruct HB as (HR & HF & _). rewrite H in HF. symmetry in HF. apply andb_prop in HF.
    destruct HF as [Fa Fb]. split; [exact Fa|]. split; [exact Fb|]. exact HR.
  - exfalso. destruct (Bmult mode_NE (FP.Prim2B a) (FP.Prim2B b)); try discriminate H;
      cbn [B2SF] in HB; unfold binary_overflow in HB; cbn [overflow_to_inf] in HB; discriminate HB.
Qed.

Lemma fin_add (a b : flt) : fin (a + b) -> fin a /\ fin b /\ FR (a + b) = rnd (FR a + FR b).
Proof.
  rewrite !fin_B. unfold FR. rewrite FP.add_equiv.
  destruct (is_finite (FP.Prim2B a)) eqn:Fa.
  - destruct (is_finite (FP.Prim2B b)) eqn:Fb.
    + intros H. split; [reflexivity|]. split; [reflexivity|].
      pose proof (Bplus_correct prec emax _ _ mode_NE (FP.Prim2B a) (FP.Prim2B b) Fa Fb) as HB.
      destruct (Rlt_bool _ _) in HB.
      * destruct HB as (HR & _). exact HR.
      * destruct HB as (HS & _). exfalso.
        destruct (Bplus mode_NE (FP.Prim2B a) (FP.Prim2B b)); try discriminate H;
          cbn [B2SF] in HS; unfold binary_overflow in HS; cbn [overflow_to_inf] in HS; discriminate HS.
    + intros H. exfalso.
      destruct (FP.Prim2B a) as [sx|sx| |sx mx ex Hx]; try discriminate Fa;
        destruct (FP.Prim2B b) as [sy|sy| |sy my ey Hy]; try discriminate Fb; cbn in H; discriminate H.
  - intros H. exfalso.
    destruct (FP.Prim2B a) as [sx|sx| |sx mx ex Hx]; try discriminate Fa;
      destruct (FP.Prim2B b) as [sy|sy| |sy my ey Hy]; cbn in H; try discriminate H;
      destruct (Bool.eqb sx sy); discriminate H.
Qed.

(** 1 - r for a double r in [0,1]: finite, in [0,1], the rounded difference *)
Lemma one_minus (r : flt) : fin r -> 0 <= FR r <= 1 ->
  fin (1 - r) /\ FR (1 - r) = rnd (1 - FR r) /\ 0 <= FR (1 - r) <= 1.
Proof.
  intros Fr Hr.
  assert (L : 0 <= rnd (1 - FR r)) by (rewrite <- rnd_0; apply rnd_le; lra).
  assert (U : rnd (1 - FR r) <= 1) by (apply Rle_trans with (rnd 1); [apply rnd_le; lra|rewrite rnd_1; lra]).
  pose proof (Bminus_correct _ _ _ _ mode_NE _ _ (proj1 (fin_B 1%float) fin_one) (proj1 (fin_B r) Fr)) as HB.
  fold (FR 1%float) (FR r) in HB. rewrite FR_one in HB. rewrite Rlt_bool_true in HB.
  - destruct HB as [H1 [H2 _]]. rewrite <- FP.sub_equiv in H1, H2. fold (FR (1 - r)) in H1.
    split; [apply fin_B; exact H2|]. rewrite H1. split; [reflexivity|]. split; assumption.
  - rewrite Rabs_pos_eq by assumption. apply Rle_lt_trans with 1; [exact U|].
    rewrite <- FR_one. apply Rle_lt_trans with (Rabs (FR 1%float)); [apply Rle_abs | apply abs_B2R_lt_emax].
Qed.

(** ** the convex-combination formula on binary64 *)
Section Convex.
  Variables r y0 y1 : flt.
  Hypothesis Fr : fin r.
  Hypothesis Hr : 0 <= FR r <= 1.
  Let v : flt := (r * y1 + (1 - r) * y0)%float.
  Hypothesis Fv : fin v.

  Lemma convex_parts :
    fin y0 /\ fin y1 /\
    0 <= FR (1 - r) <= 1 /\
    (exists e1, Rabs e1 <= uw /\ FR (1 - r) = (1 - FR r) * (1 + e1)) /\
    FR v = rnd (rnd (FR r * FR y1) + rnd (FR (1 - r) * FR y0)).
  Proof.
    destruct (one_minus r Fr Hr) as (Fs & Es & Hs).
    destruct (fin_add _ _ Fv) as (F1 & F0 & Ev).
    destruct (fin_mul _ _ F1) as (_ & Fy1 & E1).
    destruct (fin_mul _ _ F0) as (_ & Fy0 & E0).
    split; [exact Fy0|]. split; [exact Fy1|]. split; [exact Hs|]. split.
    - assert (G1 : generic_format radix2 (FLT_exp (-1074) 53) 1) by (rewrite <- FR_one; apply fmt_FR).
      assert (Gr : generic_format radix2 (FLT_exp (-1074) 53) (- FR r)) by (apply generic_format_opp, fmt_FR).
      destruct (rnd_add_err 1 (- FR r) G1 Gr) as (e1 & He1 & E). exists e1. split; [exact He1|].
      rewrite Es. exact E.
    - unfold v. rewrite Ev, E1, E0. reflexivity.
  Qed.

  (** distance to the real chord evaluated at the computed ratio *)
  Theorem convex_chord_error :
    Rabs (FR v - (FR r * FR y1 + (1 - FR r) * FR y0))
      <= 3 * / 2 ^ 53 * Rmax (Rabs (FR y0)) (Rabs (FR y1)) + / 2 ^ 1073 /\
    (no_uflow (FR r * FR y1) -> no_uflow (FR (1 - r) * FR y0) ->
     Rabs (FR v - (FR r * FR y1 + (1 - FR r) * FR y0))
       <= 3 * / 2 ^ 53 * Rmax (Rabs (FR y0)) (Rabs (FR y1))).
  Proof.
    destruct convex_parts as (_ & _ & _ & (e1 & He1 & Es) & Ev).
    destruct (rnd_mul_err (FR r * FR y1)) as (e2 & n2 & He2 & Hn2 & Z2 & E2).
    destruct (rnd_mul_err (FR (1 - r) * FR y0)) as (e3 & n3 & He3 & Hn3 & Z3 & E3).
    destruct (rnd_add_err _ _ (fmt_rnd (FR r * FR y1)) (fmt_rnd (FR (1 - r) * FR y0))) as (e4 & He4 & E4).
    rewrite <- Ev in E4.
    set (M := Rmax (Rabs (FR y0)) (Rabs (FR y1))).
    assert (HM : 0 <= M) by (unfold M; eapply Rle_trans; [apply Rabs_pos|apply Rmax_l]).
    assert (K : (1 + uw) ^ 3 - 1 <= 3 * / 2 ^ 53) by apply uw_cube.
    split.
    - pose proof (chord_real uw eta M (FR r) (FR (1 - r)) (FR y0) (FR y1) _ _ _ e1 e2 e3 e4 n2 n3 uw_pos eta_pos Hr
                    (Rmax_l _ _) (Rmax_r _ _) He1 He2 He3 He4 Hn2 Hn3 Es E2 E3 E4) as H.
      eapply Rle_trans; [exact H|]. apply Rplus_le_compat; [|apply abs_term].
      apply Rmult_le_compat_r; assumption.
    - intros U1 U0. rewrite (Z2 U1) in E2. rewrite (Z3 U0) in E3.
      assert (Z : Rabs 0 <= 0) by (rewrite Rabs_R0; lra).
      pose proof (chord_real uw 0 M (FR r) (FR (1 - r)) (FR y0) (FR y1) _ _ _ e1 e2 e3 e4 0 0 uw_pos (Rle_refl 0) Hr
                    (Rmax_l _ _) (Rmax_r _ _) He1 He2 He3 He4 Z Z Es E2 E3 E4) as H.
      eapply Rle_trans; [exact H|]. rewrite Rmult_0_r, Rmult_0_l, Rplus_0_r.
      apply Rmult_le_compat_r; assumption.
  Qed.

  (** between the two ordinates up to rounding *)
  Theorem convex_between :
    (Rmin (FR y0) (FR y1) - 3 * / 2 ^ 53 * Rabs (Rmin (FR y0) (FR y1)) - / 2 ^ 1073 <= FR v
     <= Rmax (FR y0) (FR y1) + 3 * / 2 ^ 53 * Rabs (Rmax (FR y0) (FR y1)) + / 2 ^ 1073) /\
    (no_uflow (FR r * FR y1) -> no_uflow (FR (1 - r) * FR y0) ->
     Rmin (FR y0) (FR y1) - 3 * / 2 ^ 53 * Rmax (Rabs (FR y0)) (Rabs (FR y1)) <= FR v
     <= Rmax (FR y0) (FR y1) + 3 * / 2 ^ 53 * Rmax (Rabs (FR y0)) (Rabs (FR y1))).
  Proof.
    split.
    - destruct convex_parts as (_ & _ & Hs & He & Ev).
      set (s := FR (1 - r)) in *.
      assert (mono : forall L H : R, L <= FR y0 -> L <= FR y1 -> FR y0 <= H -> FR y1 <= H ->
                rnd (rnd (FR r * L) + rnd (s * L)) <= FR v <= rnd (rnd (FR r * H) + rnd (s * H))).
      { intros L H L0 L1 H0 H1. rewrite Ev. split; apply rnd_le; apply Rplus_le_compat; apply rnd_le;
          apply Rmult_le_compat_l; lra. }
      destruct (mono (Rmin (FR y0) (FR y1)) (Rmax (FR y0) (FR y1)) (Rmin_l _ _) (Rmin_r _ _) (Rmax_l _ _) (Rmax_r _ _))
        as [Lo Hi].
      pose proof (flat_value (FR r) s (Rmin (FR y0) (FR y1)) Hr He) as BL.
      pose proof (flat_value (FR r) s (Rmax (FR y0) (FR y1)) Hr He) as BH.
      apply Rabs_le_inv in BL, BH. lra.
    - intros U1 U0. destruct convex_chord_error as [_ H]. specialize (H U1 U0). apply Rabs_le_inv in H.
      set (c := FR r * FR y1 + (1 - FR r) * FR y0) in *.
      assert (Rmin (FR y0) (FR y1) <= c <= Rmax (FR y0) (FR y1)).
      { pose proof (Rmin_l (FR y0) (FR y1)). pose proof (Rmin_r (FR y0) (FR y1)).
        pose proof (Rmax_l (FR y0) (FR y1)). pose proof (Rmax_r (FR y0) (FR y1)). unfold c. nra. }
      lra.
  Qed.
End Convex.

(** a sufficient condition for the absence of overflow: finite ordinates of magnitude at most 2^1022 *)
Lemma convex_finite (r y0 y1 : flt) :
  fin r -> 0 <= FR r <= 1 -> fin y0 -> fin y1 ->
  Rabs (FR y0) <= bpow radix2 1022 -> Rabs (FR y1) <= bpow radix2 1022 ->
  fin (r * y1 + (1 - r) * y0)%float.
Proof.
  intros Fr Hr F0 F1 B0 B1.
  destruct (one_minus r Fr Hr) as (Fs & _ & Hs).
  assert (G : generic_format radix2 (FLT_exp (-1074) 53) (bpow radix2 1022)).
  { apply generic_format_bpow. unfold FLT_exp. cbn. lia. }
  assert (G' : generic_format radix2 (FLT_exp (-1074) 53) (bpow radix2 1023)).
  { apply generic_format_bpow. unfold FLT_exp. cbn. lia. }
  assert (prod : forall a y : flt, fin a -> fin y -> 0 <= FR a <= 1 -> Rabs (FR y) <= bpow radix2 1022 ->
            fin (a * y) /\ Rabs (FR (a * y)) <= bpow radix2 1022).
  { intros a y Fa Fy Ha By.
    assert (Bz : Rabs (FR a * FR y) <= bpow radix2 1022).
    { rewrite Rabs_mult, (Rabs_pos_eq (FR a)) by lra. pose proof (Rabs_pos (FR y)). nra. }
    assert (Br : Rabs (rnd (FR a * FR y)) <= bpow radix2 1022).
    { apply abs_round_le_generic; [apply FLT_exp_valid; reflexivity|apply valid_rnd_N|exact G|exact Bz]. }
    pose proof (Bmult_correct prec emax _ _ mode_NE (FP.Prim2B a) (FP.Prim2B y)) as HB. fold (FR a) (FR y) in HB.
    rewrite Rlt_bool_true in HB.
    - destruct HB as (H1 & H2 & _). rewrite <- FP.mul_equiv in H1, H2. fold (FR (a * y)) in H1.
      rewrite (proj1 (fin_B a) Fa), (proj1 (fin_B y) Fy) in H2. split; [apply fin_B; exact H2|]. rewrite H1. exact Br.
    - eapply Rle_lt_trans; [exact Br|]. apply bpow_lt. reflexivity. }
  destruct (prod r y1 Fr F1 Hr B1) as (Fp1 & Bp1).
  destruct (prod (1 - r)%float y0 Fs F0 Hs B0) as (Fp0 & Bp0).
  assert (Bz : Rabs (FR (r * y1) + FR ((1 - r) * y0)) <= bpow radix2 1023).
  { eapply Rle_trans; [apply Rabs_triang|]. change (bpow radix2 1023) with (bpow radix2 (1022 + 1)).
    rewrite bpow_plus. change (bpow radix2 1) with 2. lra. }
  assert (Br : Rabs (rnd (FR (r * y1) + FR ((1 - r) * y0))) <= bpow radix2 1023).
  { apply abs_round_le_generic; [apply FLT_exp_valid; reflexivity|apply valid_rnd_N|exact G'|exact Bz]. }
  pose proof (Bplus_correct prec emax _ _ mode_NE _ _ (proj1 (fin_B _) Fp1) (proj1 (fin_B _) Fp0)) as HB.
  fold (FR (r * y1)) (FR ((1 - r) * y0)) in HB. rewrite Rlt_bool_true in HB.
  - destruct HB as (_ & H2 & _). rewrite <- FP.add_equiv in H2. apply fin_B. exact H2.
  - eapply Rle_lt_trans; [exact Br|]. apply bpow_lt. reflexivity.
Qed.

(** ** the model: a finite target inside the range of finite, strictly increasing abscissae *)
Section Model.
  Context (tbl : libm_table) (x y : list flt) (m : mode flt).
  Local Notation n := (length x).
  Local Notation "l '[[' i ']]'" := (nth i l 0%float) (at level 9).
  Context (Hn : (2 <= n)%nat)
          (Fx : forall i, (i < n)%nat -> fin x[[i]])
          (Sx : forall i, (S i < n)%nat -> PF.ltb x[[i]] x[[S i]] = true)
          (Fw : forall i, (S i < n)%nat -> fin (x[[S i]] - x[[i]])%float).

  Lemma in_segment_binary64 : forall t,
      fin t -> FR x[[0]] <= FR t <= FR x[[n - 1]] ->
      exists k, (S k < n)%nat /\ FR x[[k]] <= FR t <= FR x[[S k]] /\
        let ratio := ((t - x[[k]]) / (x[[S k]] - x[[k]]))%float in
        interp1 (FO tbl) x y n m t = Some (ratio * y[[S k]] + (1 - ratio) * y[[k]])%float /\
        fin ratio /\ 0 <= FR ratio <= 1.
  Proof.
    intros t Ft Ht. destruct (in_range_binary64 tbl x y m Hn Fx t Ft Ht) as (k & Hk & Hb & E).
    exists k. split; [exact Hk|]. split; [exact Hb|]. cbv zeta. split.
    - rewrite E. unfold segment_value. replace (S k - 1)%nat with k by lia. reflexivity.
    - apply ratio_unit_interval; [apply Fx; lia|apply Fx; lia|exact Ft| |exact Hb|apply Fw; exact Hk].
      apply (fx_adjacent x Hn Fx Sx). exact Hk.
  Qed.

  Theorem chord_error_binary64 : forall t,
      fin t -> FR x[[0]] <= FR t <= FR x[[n - 1]] ->
      exists k v, (S k < n)%nat /\ FR x[[k]] <= FR t <= FR x[[S k]] /\
        interp1 (FO tbl) x y n m t = Some v /\
        let ratio := ((t - x[[k]]) / (x[[S k]] - x[[k]]))%float in
        let y0 := y[[k]] in let y1 := y[[S k]] in
        v = (ratio * y1 + (1 - ratio) * y0)%float /\
        0 <= FR ratio <= 1 /\
        (fin v ->
         Rabs (FR v - (FR ratio * FR y1 + (1 - FR ratio) * FR y0))
           <= 3 * / 2 ^ 53 * Rmax (Rabs (FR y0)) (Rabs (FR y1)) + / 2 ^ 1073 /\
         ((FR ratio * FR y1 = 0 \/ / 2 ^ 1022 <= Rabs (FR ratio * FR y1)) ->
          (FR (1 - ratio) * FR y0 = 0 \/ / 2 ^ 1022 <= Rabs (FR (1 - ratio) * FR y0)) ->
          Rabs (FR v - (FR ratio * FR y1 + (1 - FR ratio) * FR y0))
            <= 3 * / 2 ^ 53 * Rmax (Rabs (FR y0)) (Rabs (FR y1)))).
  Proof.
    intros t Ft Ht. destruct (in_segment_binary64 t Ft Ht) as (k & Hk & Hb & E & Fr & Hr). cbv zeta in *.
    exists k. eexists. split; [exact Hk|]. split; [exact Hb|]. split; [exact E|].
    split; [reflexivity|]. split; [exact Hr|]. intros Fv.
    exact (convex_chord_error _ _ _ Fr Hr Fv).
  Qed.

  Theorem between_up_to_rounding_binary64 : forall t,
      fin t -> FR x[[0]] <= FR t <= FR x[[n - 1]] ->
      exists k v, (S k < n)%nat /\ FR x[[k]] <= FR t <= FR x[[S k]] /\
        interp1 (FO tbl) x y n m t = Some v /\
        let ratio := ((t - x[[k]]) / (x[[S k]] - x[[k]]))%float in
        let y0 := y[[k]] in let y1 := y[[S k]] in
        v = (ratio * y1 + (1 - ratio) * y0)%float /\
        (fin v ->
         (Rmin (FR y0) (FR y1) - 3 * / 2 ^ 53 * Rabs (Rmin (FR y0) (FR y1)) - / 2 ^ 1073 <= FR v
          <= Rmax (FR y0) (FR y1) + 3 * / 2 ^ 53 * Rabs (Rmax (FR y0) (FR y1)) + / 2 ^ 1073) /\
         ((FR ratio * FR y1 = 0 \/ / 2 ^ 1022 <= Rabs (FR ratio * FR y1)) ->
          (FR (1 - ratio) * FR y0 = 0 \/ / 2 ^ 1022 <= Rabs (FR (1 - ratio) * FR y0)) ->
          Rmin (FR y0) (FR y1) - 3 * / 2 ^ 53 * Rmax (Rabs (FR y0)) (Rabs (FR y1)) <= FR v
          <= Rmax (FR y0) (FR y1) + 3 * / 2 ^ 53 * Rmax (Rabs (FR y0)) (Rabs (FR y1)))).
  Proof.
    intros t Ft Ht. destruct (in_segment_binary64 t Ft Ht) as (k & Hk & Hb & E & Fr & Hr). cbv zeta in *.
    exists k. eexists. split; [exact Hk|]. split; [exact Hb|]. split; [exact E|].
    split; [reflexivity|]. intros Fv.
    exact (convex_between _ _ _ Fr Hr Fv).
  Qed.

  (** no overflow when the two ordinates are finite and at most 2^1022 in magnitude *)
  Theorem in_segment_finite_binary64 : forall t,
      fin t -> FR x[[0]] <= FR t <= FR x[[n - 1]] ->
      (forall i, (i < n)%nat -> fin y[[i]] /\ Rabs (FR y[[i]]) <= 2 ^ 1022) ->
      exists v, interp1 (FO tbl) x y n m t = Some v /\ fin v.
  Proof.
    intros t Ft Ht Hy.
    assert (B : bpow radix2 1022 = 2 ^ 1022).
    { change (bpow radix2 1022) with (IZR (Z.pow_pos 2 1022)). rewrite (pow_IZR 2 1022). f_equal. }
    rewrite <- B in Hy. destruct (in_segment_binary64 t Ft Ht) as (k & Hk & Hb & E & Fr & Hr). cbv zeta in *.
    eexists. split; [exact E|].
    apply convex_finite; try assumption; apply Hy; lia.
  Qed.
End Model.

(** ** the computed ratio against the real ratio, and the computed value against the real line through the two knots *)
Lemma ratio_real (u h rs N D r d1 d2 d3 n3 num den : R) :
  0 <= u <= / 8 -> 0 <= h -> 0 < den -> 0 <= num <= den ->
  Rabs d1 <= u -> Rabs d2 <= u -> Rabs d3 <= u -> Rabs n3 <= h ->
  N = num * (1 + d1) -> D = den * (1 + d2) -> r = N / D * (1 + d3) + n3 ->
  rs = num / den ->
  Rabs (r - rs) <= 4 * u * rs + h.
Proof.
  intros Hu Hh Hden Hnum H1 H2 H3 Hn EN ED Er Ers.
  apply Rabs_le_inv in H1, H2, H3.
  assert (P2 : 0 < 1 + d2) by lra.
  set (q := (1 + d1) * (1 + d3) / (1 + d2)).
  assert (Hrs : 0 <= rs) by (rewrite Ers; apply Rmult_le_pos; [lra|left; apply Rinv_0_lt_compat; lra]).
  assert (E : r - rs = rs * (q - 1) + n3).
  { rewrite Er, EN, ED, Ers. unfold q. field. lra. }
  assert (Hq : Rabs (q - 1) <= 4 * u).
  { apply Rabs_le.
    assert (A : (1 - u) * (1 - u) <= (1 + d1) * (1 + d3) <= (1 + u) * (1 + u)) by nra.
    split.
    - apply (Rmult_le_reg_r (1 + d2)); [exact P2|].
      replace ((q - 1) * (1 + d2)) with ((1 + d1) * (1 + d3) - (1 + d2)) by (unfold q; field; lra). nra.
    - apply (Rmult_le_reg_r (1 + d2)); [exact P2|].
      replace ((q - 1) * (1 + d2)) with ((1 + d1) * (1 + d3) - (1 + d2)) by (unfold q; field; lra). nra. }
  rewrite E. eapply Rle_trans; [apply Rabs_triang|]. rewrite Rabs_mult, (Rabs_pos_eq rs) by exact Hrs.
  assert (rs * Rabs (q - 1) <= rs * (4 * u)) by (apply Rmult_le_compat_l; assumption). lra.
Qed.

Lemma eta_val' : eta = / 2 ^ 1075.
Proof.
  pose proof eta_val as H. change (2 ^ 1075) with (2 * 2 ^ 1074).
  assert (P : 2 ^ 1074 <> 0) by (apply pow_nonzero; lra).
  rewrite Rinv_mult. lra.
Qed.
Lemma u53_small : 0 <= / 2 ^ 53 <= / 8.
Proof.
  assert (P : 1 <= 2 ^ 50) by (apply pow_R1_Rle; lra).
  change (2 ^ 53) with (2 * (2 * (2 * 2 ^ 50))).
  split.
  - left. apply Rinv_0_lt_compat. lra.
  - apply Rinv_le_contravar; lra.
Qed.

Lemma fin_sub (a b : flt) : fin a -> fin b -> fin (a - b) -> FR (a - b) = rnd (FR a - FR b).
Proof.
  intros Fa Fb Fd. apply fin_B in Fd. revert Fd. unfold FR at 1. rewrite FP.sub_equiv.
  generalize (Bminus_correct _ _ _ _ mode_NE _ _ (proj1 (fin_B a) Fa) (proj1 (fin_B b) Fb)).
  fold (FR a) (FR b). destruct (Rlt_bool _ _).
  - intros [H1 _] _. exact H1.
  - intros [H1 _] F. rewrite <- is_finite_SF_B2SF, H1 in F. discriminate F.
Qed.

Lemma fin_div (p q : flt) : fin (p / q) -> FR q <> 0 -> fin p /\ FR (p / q) = rnd (FR p / FR q).
Proof.
  intros H Hq. pose proof (Bdiv_correct prec emax _ _ mode_NE (FP.Prim2B p) (FP.Prim2B q) Hq) as HB.
  fold (FR p) (FR q) in HB. apply fin_B in H. rewrite FP.div_equiv in H.
  destruct (Rlt_bool _ _) in HB.
  - destruct HB as (H1 & H2 & _). rewrite H in H2. split; [apply fin_B; symmetry; exact H2|].
    unfold FR at 1. rewrite FP.div_equiv. exact H1.
  - exfalso. rewrite <- is_finite_SF_B2SF, HB in H. discriminate H.
Qed.

Theorem ratio_error (a b t : flt) :
  fin a -> fin b -> fin t -> FR a < FR b -> FR a <= FR t <= FR b -> fin (b - a)%float ->
  Rabs (FR ((t - a) / (b - a))%float - (FR t - FR a) / (FR b - FR a))
    <= 4 * / 2 ^ 53 * ((FR t - FR a) / (FR b - FR a)) + / 2 ^ 1075.
Proof.
  intros Fa Fb Ft Hab Ht Fd.
  destruct (ratio_unit_interval a b t Fa Fb Ft Hab Ht Fd) as [Fr _].
  pose proof (sub_finite a b Fa Fb Fd Hab) as Dpos.
  destruct (fin_div _ _ Fr ltac:(lra)) as [Fn Er].
  pose proof (fin_sub t a Ft Fa Fn) as En. pose proof (fin_sub b a Fb Fa Fd) as Ed.
  destruct (rnd_add_err (FR t) (- FR a) (fmt_FR t) (generic_format_opp _ _ _ (fmt_FR a))) as (d1 & H1 & E1).
  destruct (rnd_add_err (FR b) (- FR a) (fmt_FR b) (generic_format_opp _ _ _ (fmt_FR a))) as (d2 & H2 & E2).
  destruct (rnd_mul_err (FR (t - a) / FR (b - a))) as (d3 & n3 & H3 & Hn3 & _ & E3).
  pose proof uw_le_uu as Hw. rewrite uu_val in Hw. rewrite <- eta_val'.
  assert (G1 : Rabs d1 <= / 2 ^ 53) by lra. assert (G2 : Rabs d2 <= / 2 ^ 53) by lra. assert (G3 : Rabs d3 <= / 2 ^ 53) by lra.
  assert (EN : FR (t - a) = (FR t - FR a) * (1 + d1)) by (rewrite En; exact E1).
  assert (ED : FR (b - a) = (FR b - FR a) * (1 + d2)) by (rewrite Ed; exact E2).
  assert (ER : FR ((t - a) / (b - a))%float = FR (t - a) / FR (b - a) * (1 + d3) + n3) by (rewrite Er; exact E3).
  exact (ratio_real (/ 2 ^ 53) eta _ (FR (t - a)) (FR (b - a)) _ d1 d2 d3 n3 (FR t - FR a) (FR b - FR a)
           u53_small eta_pos ltac:(lra) ltac:(lra) G1 G2 G3 Hn3 EN ED ER eq_refl).
Qed.

Theorem line_error (a b t y0 y1 : flt) :
  fin a -> fin b -> fin t -> FR a < FR b -> FR a <= FR t <= FR b -> fin (b - a)%float ->
  let ratio := ((t - a) / (b - a))%float in
  let v := (ratio * y1 + (1 - ratio) * y0)%float in
  fin v ->
  Rabs (FR v - Spec.Interp.line (FR a) (FR y0) (FR b) (FR y1) (FR t))
    <= 3 * / 2 ^ 53 * Rmax (Rabs (FR y0)) (Rabs (FR y1)) + (4 * / 2 ^ 53 + / 2 ^ 1075) * Rabs (FR y1 - FR y0) + / 2 ^ 1073.
Proof.
  intros Fa Fb Ft Hab Ht Fd ratio v Fv.
  destruct (ratio_unit_interval a b t Fa Fb Ft Hab Ht Fd) as [Fr Hr]. fold ratio in Fr, Hr.
  destruct (convex_chord_error ratio y0 y1 Fr Hr Fv) as [Hc _]. fold v in Hc.
  pose proof (ratio_error a b t Fa Fb Ft Hab Ht Fd) as He. fold ratio in He.
  set (rs := (FR t - FR a) / (FR b - FR a)) in *.
  assert (Hrs : 0 <= rs <= 1).
  { unfold rs. split.
    - apply Rmult_le_pos; [lra|left; apply Rinv_0_lt_compat; lra].
    - apply (Rmult_le_reg_r (FR b - FR a)); [lra|]. unfold Rdiv. rewrite Rmult_assoc, Rinv_l by lra. lra. }
  pose proof u53_small as Hu.
  assert (He' : Rabs (FR ratio - rs) <= 4 * / 2 ^ 53 + / 2 ^ 1075) by nra.
  unfold Spec.Interp.line. fold rs.
  replace (FR v - (FR y0 + rs * (FR y1 - FR y0)))
    with ((FR v - (FR ratio * FR y1 + (1 - FR ratio) * FR y0)) + (FR ratio - rs) * (FR y1 - FR y0)) by ring.
  eapply Rle_trans; [apply Rabs_triang|]. rewrite Rabs_mult.
  assert (Rabs (FR ratio - rs) * Rabs (FR y1 - FR y0) <= (4 * / 2 ^ 53 + / 2 ^ 1075) * Rabs (FR y1 - FR y0))
    by (apply Rmult_le_compat_r; [apply Rabs_pos|exact He']).
  lra.
Qed.

Section ModelLine.
  Context (tbl : libm_table) (x y : list flt) (m : mode flt).
  Local Notation n := (length x).
  Local Notation "l '[[' i ']]'" := (nth i l 0%float) (at level 9).
  Context (Hn : (2 <= n)%nat)
          (Fx : forall i, (i < n)%nat -> fin x[[i]])
          (Sx : forall i, (S i < n)%nat -> PF.ltb x[[i]] x[[S i]] = true)
          (Fw : forall i, (S i < n)%nat -> fin (x[[S i]] - x[[i]])%float).

  (** the binary64 result against the REAL straight line through the two bracketing knots at the target *)
  Theorem line_error_binary64 : forall t,
      fin t -> FR x[[0]] <= FR t <= FR x[[n - 1]] ->
      exists k v, (S k < n)%nat /\ FR x[[k]] <= FR t <= FR x[[S k]] /\
        interp1 (FO tbl) x y n m t = Some v /\
        (fin v ->
         Rabs (FR v - Spec.Interp.line (FR x[[k]]) (FR y[[k]]) (FR x[[S k]]) (FR y[[S k]]) (FR t))
           <= 3 * / 2 ^ 53 * Rmax (Rabs (FR y[[k]])) (Rabs (FR y[[S k]]))
              + (4 * / 2 ^ 53 + / 2 ^ 1075) * Rabs (FR y[[S k]] - FR y[[k]]) + / 2 ^ 1073).
  Proof.
    intros t Ft Ht. destruct (in_segment_binary64 tbl x y m Hn Fx Sx Fw t Ft Ht) as (k & Hk & Hb & E & Fr & Hr).
    cbv zeta in *. exists k. eexists. split; [exact Hk|]. split; [exact Hb|]. split; [exact E|]. intros Fv.
    apply line_error; try assumption; try (apply Fx; lia); [apply (fx_adjacent x Hn Fx Sx); exact Hk|apply Fw; exact Hk].
  Qed.
End ModelLine.

(** ** the hypotheses are satisfiable, and the rounding allowance is needed: both ordinates 1.9, the value at t = 5e-4 is
    finite, neither product underflows, and the value is one ulp ABOVE both ordinates *)
From Compute Require Proofs.C04ErrF Proofs.C04ErrDot Proofs.C04ErrEx.
Lemma between_example :
  let x := [0; 1]%float in let y := [0x1.e666666666666p+0; 0x1.e666666666666p+0]%float in
  let t := 0x1.0624dd2f1a9fcp-11%float in
  (2 <= length x)%nat /\
  (forall i, (i < length x)%nat -> fin (nth i x 0%float)) /\
  (forall i, (S i < length x)%nat -> PF.ltb (nth i x 0%float) (nth (S i) x 0%float) = true) /\
  (forall i, (S i < length x)%nat -> fin (nth (S i) x 0%float - nth i x 0%float)%float) /\
  fin t /\ FR (nth 0 x 0%float) <= FR t <= FR (nth (length x - 1) x 0%float) /\
  let ratio := ((t - nth 0 x 0%float) / (nth 1 x 0%float - nth 0 x 0%float))%float in
  let v := (ratio * nth 1 y 0%float + (1 - ratio) * nth 0 y 0%float)%float in
  interp1 FO0 x y (length x) MPanic t = Some v /\ fin v /\
  (FR ratio * FR (nth 1 y 0%float) = 0 \/ / 2 ^ 1022 <= Rabs (FR ratio * FR (nth 1 y 0%float))) /\
  (FR (1 - ratio) * FR (nth 0 y 0%float) = 0 \/ / 2 ^ 1022 <= Rabs (FR (1 - ratio) * FR (nth 0 y 0%float))) /\
  PF.ltb (nth 0 y 0%float) v = true.
Proof.
  cbv zeta. cbn [length nth Nat.sub].
  split; [lia|]. split; [intros [|[|i]] Hi; try lia; reflexivity|].
  split; [intros [|i] Hi; try lia; reflexivity|]. split; [intros [|i] Hi; try lia; reflexivity|].
  split; [reflexivity|]. split.
  { change FR with C04ErrF.B2Rf. split; C04ErrDot.b2rf_compute; lra. }
  split; [vm_compute; reflexivity|]. split; [vm_compute; reflexivity|].
  match goal with |- context [FR ?r * FR 0x1.e666666666666p+0%float] =>
    let a := eval vm_compute in r in change r with a end.
  match goal with |- context [FR (1 - ?r)] =>
    let a := eval vm_compute in (1 - r)%float in change (1 - r)%float with a end.
  change FR with C04ErrF.B2Rf.
  split; [C04ErrEx.nu_tac|]. split; [C04ErrEx.nu_tac|]. vm_compute. reflexivity.
Qed.
